// Package vxform rewrites Go sources of redis/rueidis so that every
// synchronisation operation goes through the scheduler shims (see DESIGN.md §2.2).
package vxform

import "errors"

func TransformRepo(repo, out string) error    { return errors.New("not built yet") }
func LoadOverlay(out string, ov map[string]string) error { return errors.New("not built yet") }
func TransformFile(src, dst string) error     { return errors.New("not built yet") }
