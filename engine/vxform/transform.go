// Package vxform rewrites Go sources of redis/rueidis so that every
// synchronisation operation goes through the scheduler shims (DESIGN.md §2.2):
//
//   - imports of sync, sync/atomic, time, context, runtime, math/rand(/v2) are
//     redirected to github.com/redis/rueidis/vshim/...
//   - channel send/receive/close/range/select become vchan calls
//   - go statements become vsched.Go
//   - range over a map iterates a deterministically ordered key snapshot
//
// The rewrite is syntactic and generic (no rueidis line is special-cased);
// go/types is used only to classify the operand of range statements and
// constant arguments of go statements. Anything it cannot handle is an error.
package vxform

import (
	"bytes"
	"encoding/json"
	"fmt"
	"go/ast"
	"go/build"
	"go/importer"
	"go/parser"
	"go/printer"
	"go/token"
	"go/types"
	"os"
	"path/filepath"
	"reflect"
	"sort"
	"strconv"
	"strings"
)

const shimBase = "github.com/redis/rueidis/vshim/"

var importMap = map[string]string{
	"sync":         shimBase + "sync",
	"sync/atomic":  shimBase + "sync/atomic",
	"time":         shimBase + "time",
	"context":      shimBase + "context",
	"runtime":      shimBase + "runtime",
	"math/rand":    shimBase + "mrand2",
	"math/rand/v2": shimBase + "mrand2",
}

// Scope lists the package directories (relative to the repository root) that
// are transformed for the sim flavour.
var Scope = []string{".", "internal/util", "internal/cmds", "rueidislock", "rueidisaside", "rueidislimiter", "rueidishook", "om", "rueidisprob"}

type xf struct {
	skip    map[ast.Node]bool
	fset    *token.FileSet
	info    *types.Info
	n       int
	needCh  bool
	needSch bool
	errs    []string
}

func (x *xf) errf(pos token.Pos, f string, a ...any) {
	x.errs = append(x.errs, x.fset.Position(pos).String()+": "+fmt.Sprintf(f, a...))
}

func (x *xf) tmp(p string) *ast.Ident {
	x.n++
	return ast.NewIdent("_vx" + p + strconv.Itoa(x.n))
}

func sel(pkg, name string) ast.Expr {
	return &ast.SelectorExpr{X: ast.NewIdent(pkg), Sel: ast.NewIdent(name)}
}

func call(fn ast.Expr, args ...ast.Expr) *ast.CallExpr { return &ast.CallExpr{Fun: fn, Args: args} }

func (x *xf) vchan(name string, args ...ast.Expr) *ast.CallExpr {
	x.needCh = true
	return call(sel("vchan", name), args...)
}

func (x *xf) vsched(name string, args ...ast.Expr) *ast.CallExpr {
	x.needSch = true
	return call(sel("vsched", name), args...)
}

var (
	exprT = reflect.TypeOf((*ast.Expr)(nil)).Elem()
	stmtT = reflect.TypeOf((*ast.Stmt)(nil)).Elem()
	declT = reflect.TypeOf((*ast.Decl)(nil)).Elem()
	specT = reflect.TypeOf((*ast.Spec)(nil)).Elem()
	nodeT = reflect.TypeOf((*ast.Node)(nil)).Elem()
	objT  = reflect.TypeOf((*ast.Object)(nil))
	scpT  = reflect.TypeOf((*ast.Scope)(nil))
)

// walk rewrites the tree below v: pre is applied to a node before its
// children are visited (and may return a replacement), post after.
func (x *xf) walk(v reflect.Value) {
	switch v.Kind() {
	case reflect.Interface:
		if v.IsNil() {
			return
		}
		t := v.Type()
		if t == exprT || t == stmtT || t == declT || t == specT || t == nodeT {
			n := v.Interface().(ast.Node)
			if r := x.pre(n); r != nil {
				v.Set(reflect.ValueOf(r))
				n = r
			}
			x.walk(reflect.ValueOf(n))
			if r := x.post(v.Interface().(ast.Node)); r != nil {
				v.Set(reflect.ValueOf(r))
			}
		}
	case reflect.Ptr:
		if v.IsNil() || v.Type() == objT || v.Type() == scpT {
			return
		}
		if v.Elem().Kind() == reflect.Struct {
			x.walk(v.Elem())
		}
	case reflect.Struct:
		for i := 0; i < v.NumField(); i++ {
			f := v.Field(i)
			if f.CanSet() || f.Kind() == reflect.Ptr || f.Kind() == reflect.Slice {
				x.walk(f)
			}
		}
	case reflect.Slice:
		for i := 0; i < v.Len(); i++ {
			x.walk(v.Index(i))
		}
	}
}

func isRecv(e ast.Expr) (*ast.UnaryExpr, bool) {
	for {
		if p, ok := e.(*ast.ParenExpr); ok {
			e = p.X
			continue
		}
		break
	}
	u, ok := e.(*ast.UnaryExpr)
	return u, ok && u.Op == token.ARROW
}

func (x *xf) pre(n ast.Node) ast.Node {
	switch s := n.(type) {
	case *ast.SelectStmt:
		return x.selectStmt(s, nil)
	case *ast.LabeledStmt:
		if ss, ok := s.Stmt.(*ast.SelectStmt); ok {
			return x.selectStmt(ss, s.Label)
		}
		if rs, ok := s.Stmt.(*ast.RangeStmt); ok && x.info != nil {
			if tv, ok := x.info.Types[rs.X]; ok && tv.Type != nil {
				if _, isMap := tv.Type.Underlying().(*types.Map); isMap {
					return x.rangeStmt(rs, s.Label)
				}
			}
		}
	case *ast.GoStmt:
		return x.goStmt(s)
	case *ast.RangeStmt:
		if r := x.rangeStmt(s, nil); r != nil {
			return r
		}
	case *ast.AssignStmt:
		if len(s.Lhs) == 2 && len(s.Rhs) == 1 {
			if u, ok := isRecv(s.Rhs[0]); ok {
				s.Rhs[0] = x.vchan("Recv2", u.X)
			}
		}
	case *ast.ValueSpec:
		if len(s.Names) == 2 && len(s.Values) == 1 {
			if u, ok := isRecv(s.Values[0]); ok {
				s.Values[0] = x.vchan("Recv2", u.X)
			}
		}
	}
	return nil
}

func (x *xf) post(n ast.Node) ast.Node {
	switch s := n.(type) {
	case *ast.UnaryExpr:
		if s.Op == token.ARROW {
			return x.vchan("Recv", s.X)
		}
	case *ast.SendStmt:
		return &ast.ExprStmt{X: x.vchan("Send", s.Chan, s.Value)}
	case *ast.CallExpr:
		if id, ok := s.Fun.(*ast.Ident); ok && id.Name == "close" && len(s.Args) == 1 {
			if x.info != nil {
				if _, isBuiltin := x.info.Uses[id].(*types.Builtin); !isBuiltin && x.info.Uses[id] != nil {
					return nil
				}
			}
			return x.vchan("Close", s.Args[0])
		}
	}
	return nil
}

func (x *xf) selectStmt(s *ast.SelectStmt, label *ast.Ident) ast.Stmt {
	blk := &ast.BlockStmt{}
	sw := &ast.SwitchStmt{Body: &ast.BlockStmt{}}
	hasDefault := false
	var caseArgs []ast.Expr
	idx := 0
	for _, cl := range s.Body.List {
		cc := cl.(*ast.CommClause)
		if cc.Comm == nil {
			hasDefault = true
			sw.Body.List = append(sw.Body.List, &ast.CaseClause{List: nil, Body: cc.Body})
			continue
		}
		cv := x.tmp("c")
		var body []ast.Stmt
		switch c := cc.Comm.(type) {
		case *ast.SendStmt:
			blk.List = append(blk.List, &ast.AssignStmt{Lhs: []ast.Expr{cv}, Tok: token.DEFINE, Rhs: []ast.Expr{x.vchan("S", c.Chan, c.Value)}})
		case *ast.ExprStmt:
			u, ok := isRecv(c.X)
			if !ok {
				x.errf(c.Pos(), "unsupported select comm clause")
				return s
			}
			blk.List = append(blk.List, &ast.AssignStmt{Lhs: []ast.Expr{cv}, Tok: token.DEFINE, Rhs: []ast.Expr{x.vchan("R", u.X)}})
		case *ast.AssignStmt:
			u, ok := isRecv(c.Rhs[0])
			if !ok {
				x.errf(c.Pos(), "unsupported select comm clause")
				return s
			}
			blk.List = append(blk.List, &ast.AssignStmt{Lhs: []ast.Expr{cv}, Tok: token.DEFINE, Rhs: []ast.Expr{x.vchan("R", u.X)}})
			rhs := []ast.Expr{call(&ast.SelectorExpr{X: cv, Sel: ast.NewIdent("V")})}
			if len(c.Lhs) == 2 {
				rhs = append(rhs, call(&ast.SelectorExpr{X: cv, Sel: ast.NewIdent("OK")}))
			}
			body = append(body, &ast.AssignStmt{Lhs: c.Lhs, Tok: c.Tok, Rhs: rhs})
			if c.Tok == token.DEFINE {
				// avoid "declared and not used" when the body ignores the variable
				for _, l := range c.Lhs {
					if id, ok := l.(*ast.Ident); ok && id.Name != "_" {
						body = append(body, &ast.AssignStmt{Lhs: []ast.Expr{ast.NewIdent("_")}, Tok: token.ASSIGN, Rhs: []ast.Expr{ast.NewIdent(id.Name)}})
					}
				}
			}
		default:
			x.errf(cc.Pos(), "unsupported select comm clause %T", c)
			return s
		}
		caseArgs = append(caseArgs, cv)
		sw.Body.List = append(sw.Body.List, &ast.CaseClause{List: []ast.Expr{&ast.BasicLit{Kind: token.INT, Value: strconv.Itoa(idx)}}, Body: append(body, cc.Body...)})
		idx++
	}
	hd := "false"
	if hasDefault {
		hd = "true"
	} else {
		// keeps the statement terminating when every clause terminates, like the select it replaces
		sw.Body.List = append(sw.Body.List, &ast.CaseClause{List: nil, Body: []ast.Stmt{&ast.ExprStmt{X: call(ast.NewIdent("panic"), &ast.BasicLit{Kind: token.STRING, Value: strconv.Quote("vchan: select returned no case")})}}})
	}
	sw.Tag = x.vchan("Select", append([]ast.Expr{ast.NewIdent(hd)}, caseArgs...)...)
	if label != nil {
		blk.List = append(blk.List, &ast.LabeledStmt{Label: label, Stmt: sw})
	} else {
		blk.List = append(blk.List, sw)
	}
	return blk
}

func (x *xf) isConst(e ast.Expr) bool {
	switch v := e.(type) {
	case *ast.BasicLit:
		return true
	case *ast.Ident:
		if v.Name == "nil" || v.Name == "true" || v.Name == "false" {
			return true
		}
	}
	if x.info != nil {
		if tv, ok := x.info.Types[e]; ok && (tv.Value != nil || tv.IsNil()) {
			return true
		}
	}
	return false
}

func (x *xf) goStmt(s *ast.GoStmt) ast.Stmt {
	c := s.Call
	if fl, ok := c.Fun.(*ast.FuncLit); ok && len(c.Args) == 0 {
		return &ast.ExprStmt{X: x.vsched("Go", fl)}
	}
	blk := &ast.BlockStmt{}
	var fn ast.Expr = c.Fun
	if _, ok := c.Fun.(*ast.FuncLit); !ok {
		if id, ok := c.Fun.(*ast.Ident); !ok || (x.info != nil && isVar(x.info.Uses[id])) {
			f := x.tmp("f")
			blk.List = append(blk.List, &ast.AssignStmt{Lhs: []ast.Expr{f}, Tok: token.DEFINE, Rhs: []ast.Expr{c.Fun}})
			fn = f
		}
	}
	args := make([]ast.Expr, len(c.Args))
	for i, a := range c.Args {
		if x.isConst(a) {
			args[i] = a
			continue
		}
		v := x.tmp("a")
		blk.List = append(blk.List, &ast.AssignStmt{Lhs: []ast.Expr{v}, Tok: token.DEFINE, Rhs: []ast.Expr{a}})
		args[i] = v
	}
	inner := &ast.CallExpr{Fun: fn, Args: args, Ellipsis: c.Ellipsis}
	if c.Ellipsis != token.NoPos {
		inner.Ellipsis = 1
	}
	blk.List = append(blk.List, &ast.ExprStmt{X: x.vsched("Go", &ast.FuncLit{Type: &ast.FuncType{Params: &ast.FieldList{}}, Body: &ast.BlockStmt{List: []ast.Stmt{&ast.ExprStmt{X: inner}}}})})
	return blk
}

func isVar(o types.Object) bool {
	_, ok := o.(*types.Var)
	return ok
}

func (x *xf) rangeStmt(s *ast.RangeStmt, label *ast.Ident) ast.Stmt {
	if x.info == nil || x.skip[s] {
		return nil // harness files: authors avoid range over maps/channels
	}
	tv, ok := x.info.Types[s.X]
	if !ok || tv.Type == nil {
		x.errf(s.Pos(), "no type information for range operand")
		return nil
	}
	switch u := tv.Type.Underlying().(type) {
	case *types.Chan:
		// for k := range ch { body }  =>  for { k, ok := vchan.Recv2(ch); if !ok { break }; body }
		okv := x.tmp("ok")
		var lhs ast.Expr = ast.NewIdent("_")
		tok := token.DEFINE
		if s.Key != nil {
			lhs = s.Key
			if s.Tok == token.ASSIGN {
				// k already declared: declare ok separately
				body := []ast.Stmt{
					&ast.DeclStmt{Decl: &ast.GenDecl{Tok: token.VAR, Specs: []ast.Spec{&ast.ValueSpec{Names: []*ast.Ident{okv}, Type: ast.NewIdent("bool")}}}},
					&ast.AssignStmt{Lhs: []ast.Expr{lhs, okv}, Tok: token.ASSIGN, Rhs: []ast.Expr{x.vchan("Recv2", s.X)}},
					&ast.IfStmt{Cond: &ast.UnaryExpr{Op: token.NOT, X: okv}, Body: &ast.BlockStmt{List: []ast.Stmt{&ast.BranchStmt{Tok: token.BREAK}}}},
				}
				return &ast.ForStmt{Body: &ast.BlockStmt{List: append(body, s.Body.List...)}}
			}
		}
		body := []ast.Stmt{
			&ast.AssignStmt{Lhs: []ast.Expr{lhs, okv}, Tok: tok, Rhs: []ast.Expr{x.vchan("Recv2", s.X)}},
			&ast.IfStmt{Cond: &ast.UnaryExpr{Op: token.NOT, X: okv}, Body: &ast.BlockStmt{List: []ast.Stmt{&ast.BranchStmt{Tok: token.BREAK}}}},
		}
		if id, ok := lhs.(*ast.Ident); ok && id.Name != "_" {
			body = append(body, &ast.AssignStmt{Lhs: []ast.Expr{ast.NewIdent("_")}, Tok: token.ASSIGN, Rhs: []ast.Expr{ast.NewIdent(id.Name)}})
		}
		return &ast.ForStmt{Body: &ast.BlockStmt{List: append(body, s.Body.List...)}}
	case *types.Map:
		_ = u
		// for k, v := range m { body } => { _m := m; for _, k := range vsched.MapKeys(_m) { v, ok := _m[k]; if !ok { continue }; body } }
		mv := x.tmp("m")
		okv := x.tmp("ok")
		kv := ast.Expr(x.tmp("k"))
		var pro []ast.Stmt
		if s.Key != nil {
			if id, ok := s.Key.(*ast.Ident); !ok || id.Name != "_" {
				if s.Tok == token.ASSIGN {
					pro = append(pro, &ast.AssignStmt{Lhs: []ast.Expr{s.Key}, Tok: token.ASSIGN, Rhs: []ast.Expr{kv}})
				} else {
					kv = s.Key
				}
			}
		}
		var valLhs ast.Expr = ast.NewIdent("_")
		valTok := token.DEFINE
		if s.Value != nil {
			if id, ok := s.Value.(*ast.Ident); !ok || id.Name != "_" {
				valLhs = s.Value
				if s.Tok == token.ASSIGN {
					valTok = token.ASSIGN
				}
			}
		}
		if valTok == token.ASSIGN {
			pro = append(pro,
				&ast.DeclStmt{Decl: &ast.GenDecl{Tok: token.VAR, Specs: []ast.Spec{&ast.ValueSpec{Names: []*ast.Ident{okv}, Type: ast.NewIdent("bool")}}}},
				&ast.AssignStmt{Lhs: []ast.Expr{valLhs, okv}, Tok: token.ASSIGN, Rhs: []ast.Expr{&ast.IndexExpr{X: mv, Index: kv}}})
		} else {
			pro = append(pro, &ast.AssignStmt{Lhs: []ast.Expr{valLhs, okv}, Tok: token.DEFINE, Rhs: []ast.Expr{&ast.IndexExpr{X: mv, Index: kv}}})
		}
		pro = append(pro, &ast.IfStmt{Cond: &ast.UnaryExpr{Op: token.NOT, X: okv}, Body: &ast.BlockStmt{List: []ast.Stmt{&ast.BranchStmt{Tok: token.CONTINUE}}}})
		if id, ok := valLhs.(*ast.Ident); ok && id.Name != "_" && valTok == token.DEFINE {
			pro = append(pro, &ast.AssignStmt{Lhs: []ast.Expr{ast.NewIdent("_")}, Tok: token.ASSIGN, Rhs: []ast.Expr{ast.NewIdent(id.Name)}})
		}
		if id, ok := kv.(*ast.Ident); ok && id.Name != "_" {
			pro = append(pro, &ast.AssignStmt{Lhs: []ast.Expr{ast.NewIdent("_")}, Tok: token.ASSIGN, Rhs: []ast.Expr{ast.NewIdent(id.Name)}})
		}
		inner := &ast.RangeStmt{Key: ast.NewIdent("_"), Value: kv, Tok: token.DEFINE, X: x.vsched("MapKeys", mv), Body: &ast.BlockStmt{List: append(pro, s.Body.List...)}}
		x.skip[inner] = true
		var loop ast.Stmt = inner
		if label != nil {
			loop = &ast.LabeledStmt{Label: label, Stmt: inner}
		}
		return &ast.BlockStmt{List: []ast.Stmt{
			&ast.AssignStmt{Lhs: []ast.Expr{mv}, Tok: token.DEFINE, Rhs: []ast.Expr{s.X}},
			loop,
		}}
	}
	return nil
}

func (x *xf) file(f *ast.File) {
	for _, cg := range f.Comments {
		for _, c := range cg.List {
			if strings.HasPrefix(c.Text, "//go:") && !strings.HasPrefix(c.Text, "//go:build") && !strings.HasPrefix(c.Text, "//go:generate") {
				x.errf(c.Pos(), "unsupported compiler directive %s", c.Text)
			}
		}
	}
	f.Comments = nil
	f.Doc = nil
	for _, im := range f.Imports {
		p, _ := strconv.Unquote(im.Path.Value)
		if np, ok := importMap[p]; ok {
			im.Path = &ast.BasicLit{Kind: token.STRING, Value: strconv.Quote(np)}
			im.Path.ValuePos = im.Pos()
			if im.Name == nil && strings.HasSuffix(np, "mrand2") {
				im.Name = ast.NewIdent("rand")
			}
		}
	}
	x.walk(reflect.ValueOf(f))
	var add []string
	if x.needCh {
		add = append(add, shimBase+"vchan")
	}
	if x.needSch {
		add = append(add, shimBase+"vsched")
	}
	have := map[string]bool{}
	for _, im := range f.Imports {
		p, _ := strconv.Unquote(im.Path.Value)
		have[p] = true
	}
	for _, p := range add {
		if have[p] {
			continue
		}
		spec := &ast.ImportSpec{Path: &ast.BasicLit{Kind: token.STRING, Value: strconv.Quote(p)}}
		gd := &ast.GenDecl{Tok: token.IMPORT, Specs: []ast.Spec{spec}}
		f.Decls = append([]ast.Decl{gd}, f.Decls...)
		f.Imports = append(f.Imports, spec)
	}
}

func render(fset *token.FileSet, f *ast.File, header string) ([]byte, error) {
	var buf bytes.Buffer
	buf.WriteString(header)
	cfg := printer.Config{Mode: printer.UseSpaces | printer.TabIndent, Tabwidth: 8}
	if err := cfg.Fprint(&buf, fset, f); err != nil {
		return nil, err
	}
	return buf.Bytes(), nil
}

// TransformFile rewrites one stand-alone file (harness code) without type
// information: imports, channel operations, select and go statements.
func TransformFile(src, dst string) error {
	fset := token.NewFileSet()
	f, err := parser.ParseFile(fset, src, nil, parser.ParseComments)
	if err != nil {
		return err
	}
	header := ""
	for _, cg := range f.Comments {
		for _, c := range cg.List {
			if strings.HasPrefix(c.Text, "//go:build") && c.Pos() < f.Package {
				header = c.Text + "\n\n"
			}
		}
	}
	x := &xf{fset: fset, skip: map[ast.Node]bool{}}
	x.file(f)
	if len(x.errs) > 0 {
		return fmt.Errorf("vxform %s: %s", src, strings.Join(x.errs, "; "))
	}
	b, err := render(fset, f, header)
	if err != nil {
		return err
	}
	return os.WriteFile(dst, b, 0o644)
}

// TransformRepo transforms every package in Scope from repo into out and
// writes out/overlay.json (original path -> transformed path, test files -> deleted).
func TransformRepo(repo, out string) error {
	if _, err := os.Stat(filepath.Join(out, "overlay.json")); err == nil {
		return nil
	}
	if err := os.MkdirAll(out, 0o755); err != nil {
		return err
	}
	ov := map[string]string{}
	cwd, _ := os.Getwd()
	defer os.Chdir(cwd)
	for _, rel := range Scope {
		dir := filepath.Join(repo, rel)
		if _, err := os.Stat(dir); err != nil {
			continue
		}
		ctx := build.Default
		bp, err := ctx.ImportDir(dir, 0)
		if err != nil {
			if _, ok := err.(*build.NoGoError); ok {
				continue
			}
			if _, ok := err.(*build.MultiplePackageError); !ok {
				return fmt.Errorf("vxform: %s: %v", dir, err)
			}
		}
		fset := token.NewFileSet()
		var files []*ast.File
		var names []string
		for _, n := range bp.GoFiles {
			f, err := parser.ParseFile(fset, filepath.Join(dir, n), nil, parser.ParseComments)
			if err != nil {
				return err
			}
			files = append(files, f)
			names = append(names, n)
		}
		info := &types.Info{Types: map[ast.Expr]types.TypeAndValue{}, Uses: map[*ast.Ident]types.Object{}}
		if err := os.Chdir(dir); err != nil {
			return err
		}
		var terrs []string
		conf := types.Config{Importer: importer.ForCompiler(fset, "source", nil), Error: func(err error) { terrs = append(terrs, err.Error()) }}
		conf.Check(bp.ImportPath, fset, files, info)
		if len(terrs) > 0 {
			return fmt.Errorf("vxform: type errors in %s (the tree must compile): %s", dir, strings.Join(terrs[:min(len(terrs), 5)], "; "))
		}
		for i, f := range files {
			x := &xf{fset: fset, info: info, skip: map[ast.Node]bool{}}
			x.file(f)
			if len(x.errs) > 0 {
				return fmt.Errorf("vxform: %s", strings.Join(x.errs, "; "))
			}
			b, err := render(fset, f, "")
			if err != nil {
				return err
			}
			dst := filepath.Join(out, strings.ReplaceAll(rel, "/", "__")+"__"+names[i])
			if err := os.WriteFile(dst, b, 0o644); err != nil {
				return err
			}
			ov[filepath.Join(dir, names[i])] = dst
		}
		// every other .go file of the directory (tests, files excluded by build constraints) is removed from the build
		ents, _ := os.ReadDir(dir)
		for _, e := range ents {
			if e.IsDir() || !strings.HasSuffix(e.Name(), ".go") {
				continue
			}
			p := filepath.Join(dir, e.Name())
			if _, ok := ov[p]; !ok {
				ov[p] = ""
			}
		}
	}
	keys := make([]string, 0, len(ov))
	for k := range ov {
		keys = append(keys, k)
	}
	sort.Strings(keys)
	b, _ := json.MarshalIndent(ov, "", " ")
	return os.WriteFile(filepath.Join(out, "overlay.json"), b, 0o644)
}

// LoadOverlay merges out/overlay.json into ov.
func LoadOverlay(out string, ov map[string]string) error {
	b, err := os.ReadFile(filepath.Join(out, "overlay.json"))
	if err != nil {
		return err
	}
	m := map[string]string{}
	if err := json.Unmarshal(b, &m); err != nil {
		return err
	}
	for k, v := range m {
		ov[k] = v
	}
	return nil
}
