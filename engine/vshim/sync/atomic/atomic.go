// Package atomic: scheduler-aware replacement for sync/atomic. Every operation
// is preceded by a scheduling point and then performed with the real atomic.
package atomic

import (
	ra "sync/atomic"
	"unsafe"

	"github.com/redis/rueidis/vshim/vsched"
)

func pt(k string) { vsched.Point(k, nil) }

func AddInt32(a *int32, d int32) int32      { pt("a.add"); return ra.AddInt32(a, d) }
func AddInt64(a *int64, d int64) int64      { pt("a.add"); return ra.AddInt64(a, d) }
func AddUint32(a *uint32, d uint32) uint32  { pt("a.add"); return ra.AddUint32(a, d) }
func AddUint64(a *uint64, d uint64) uint64  { pt("a.add"); return ra.AddUint64(a, d) }
func LoadInt32(a *int32) int32              { pt("a.load"); return ra.LoadInt32(a) }
func LoadInt64(a *int64) int64              { pt("a.load"); return ra.LoadInt64(a) }
func LoadUint32(a *uint32) uint32           { pt("a.load"); return ra.LoadUint32(a) }
func LoadUint64(a *uint64) uint64           { pt("a.load"); return ra.LoadUint64(a) }
func StoreInt32(a *int32, v int32)          { pt("a.store"); ra.StoreInt32(a, v) }
func StoreInt64(a *int64, v int64)          { pt("a.store"); ra.StoreInt64(a, v) }
func StoreUint32(a *uint32, v uint32)       { pt("a.store"); ra.StoreUint32(a, v) }
func StoreUint64(a *uint64, v uint64)       { pt("a.store"); ra.StoreUint64(a, v) }
func SwapInt32(a *int32, v int32) int32     { pt("a.swap"); return ra.SwapInt32(a, v) }
func SwapInt64(a *int64, v int64) int64     { pt("a.swap"); return ra.SwapInt64(a, v) }
func SwapUint32(a *uint32, v uint32) uint32 { pt("a.swap"); return ra.SwapUint32(a, v) }
func SwapUint64(a *uint64, v uint64) uint64 { pt("a.swap"); return ra.SwapUint64(a, v) }
func CompareAndSwapInt32(a *int32, o, n int32) bool {
	pt("a.cas")
	return ra.CompareAndSwapInt32(a, o, n)
}
func CompareAndSwapInt64(a *int64, o, n int64) bool {
	pt("a.cas")
	return ra.CompareAndSwapInt64(a, o, n)
}
func CompareAndSwapUint32(a *uint32, o, n uint32) bool {
	pt("a.cas")
	return ra.CompareAndSwapUint32(a, o, n)
}
func CompareAndSwapUint64(a *uint64, o, n uint64) bool {
	pt("a.cas")
	return ra.CompareAndSwapUint64(a, o, n)
}
func LoadPointer(a *unsafe.Pointer) unsafe.Pointer     { pt("a.load"); return ra.LoadPointer(a) }
func StorePointer(a *unsafe.Pointer, v unsafe.Pointer) { pt("a.store"); ra.StorePointer(a, v) }

type Int32 struct{ v ra.Int32 }

func (x *Int32) Load() int32                    { pt("a.load"); return x.v.Load() }
func (x *Int32) Store(v int32)                  { pt("a.store"); x.v.Store(v) }
func (x *Int32) Add(d int32) int32              { pt("a.add"); return x.v.Add(d) }
func (x *Int32) Swap(v int32) int32             { pt("a.swap"); return x.v.Swap(v) }
func (x *Int32) CompareAndSwap(o, n int32) bool { pt("a.cas"); return x.v.CompareAndSwap(o, n) }

type Int64 struct{ v ra.Int64 }

func (x *Int64) Load() int64                    { pt("a.load"); return x.v.Load() }
func (x *Int64) Store(v int64)                  { pt("a.store"); x.v.Store(v) }
func (x *Int64) Add(d int64) int64              { pt("a.add"); return x.v.Add(d) }
func (x *Int64) Swap(v int64) int64             { pt("a.swap"); return x.v.Swap(v) }
func (x *Int64) CompareAndSwap(o, n int64) bool { pt("a.cas"); return x.v.CompareAndSwap(o, n) }

type Uint32 struct{ v ra.Uint32 }

func (x *Uint32) Load() uint32                    { pt("a.load"); return x.v.Load() }
func (x *Uint32) Store(v uint32)                  { pt("a.store"); x.v.Store(v) }
func (x *Uint32) Add(d uint32) uint32             { pt("a.add"); return x.v.Add(d) }
func (x *Uint32) Swap(v uint32) uint32            { pt("a.swap"); return x.v.Swap(v) }
func (x *Uint32) CompareAndSwap(o, n uint32) bool { pt("a.cas"); return x.v.CompareAndSwap(o, n) }

type Uint64 struct{ v ra.Uint64 }

func (x *Uint64) Load() uint64                    { pt("a.load"); return x.v.Load() }
func (x *Uint64) Store(v uint64)                  { pt("a.store"); x.v.Store(v) }
func (x *Uint64) Add(d uint64) uint64             { pt("a.add"); return x.v.Add(d) }
func (x *Uint64) Swap(v uint64) uint64            { pt("a.swap"); return x.v.Swap(v) }
func (x *Uint64) CompareAndSwap(o, n uint64) bool { pt("a.cas"); return x.v.CompareAndSwap(o, n) }

type Bool struct{ v ra.Bool }

func (x *Bool) Load() bool                    { pt("a.load"); return x.v.Load() }
func (x *Bool) Store(v bool)                  { pt("a.store"); x.v.Store(v) }
func (x *Bool) Swap(v bool) bool              { pt("a.swap"); return x.v.Swap(v) }
func (x *Bool) CompareAndSwap(o, n bool) bool { pt("a.cas"); return x.v.CompareAndSwap(o, n) }

type Pointer[T any] struct{ v ra.Pointer[T] }

func (x *Pointer[T]) Load() *T                    { pt("a.load"); return x.v.Load() }
func (x *Pointer[T]) Store(v *T)                  { pt("a.store"); x.v.Store(v) }
func (x *Pointer[T]) Swap(v *T) *T                { pt("a.swap"); return x.v.Swap(v) }
func (x *Pointer[T]) CompareAndSwap(o, n *T) bool { pt("a.cas"); return x.v.CompareAndSwap(o, n) }

type Value struct{ v ra.Value }

func (x *Value) Load() any                    { pt("a.load"); return x.v.Load() }
func (x *Value) Store(v any)                  { pt("a.store"); x.v.Store(v) }
func (x *Value) Swap(v any) any               { pt("a.swap"); return x.v.Swap(v) }
func (x *Value) CompareAndSwap(o, n any) bool { pt("a.cas"); return x.v.CompareAndSwap(o, n) }
