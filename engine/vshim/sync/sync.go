// Package sync is the scheduler-aware replacement for the standard sync
// package in transformed rueidis sources. Blocking is decided by vsched; the
// types hold plain state because only one managed thread runs at a time.
package sync

import (
	rsync "sync"

	"github.com/redis/rueidis/vshim/vsched"
)

type Locker = rsync.Locker

type Mutex struct {
	locked bool
}

func (m *Mutex) Lock() {
	if vsched.Aborting() {
		return
	}
	vsched.Point("lock", func() bool { return !m.locked })
	m.locked = true
}

func (m *Mutex) TryLock() bool {
	if vsched.Aborting() {
		return true
	}
	vsched.Point("trylock", nil)
	if m.locked {
		return false
	}
	m.locked = true
	return true
}

// Unlock is a pure release (left mover): no scheduling point is needed before it.
func (m *Mutex) Unlock() {
	if vsched.Aborting() {
		return
	}
	if !m.locked {
		panic("sync: unlock of unlocked mutex")
	}
	m.locked = false
}

type RWMutex struct {
	w bool
	r int
}

func (m *RWMutex) Lock() {
	if vsched.Aborting() {
		return
	}
	vsched.Point("wlock", func() bool { return !m.w && m.r == 0 })
	m.w = true
}
func (m *RWMutex) Unlock() {
	if vsched.Aborting() {
		return
	}
	if !m.w {
		panic("sync: Unlock of unlocked RWMutex")
	}
	m.w = false
}
func (m *RWMutex) RLock() {
	if vsched.Aborting() {
		return
	}
	vsched.Point("rlock", func() bool { return !m.w })
	m.r++
}
func (m *RWMutex) RUnlock() {
	if vsched.Aborting() {
		return
	}
	if m.r <= 0 {
		panic("sync: RUnlock of unlocked RWMutex")
	}
	m.r--
}
func (m *RWMutex) TryLock() bool {
	vsched.Point("trywlock", nil)
	if m.w || m.r > 0 {
		return false
	}
	m.w = true
	return true
}
func (m *RWMutex) TryRLock() bool {
	vsched.Point("tryrlock", nil)
	if m.w {
		return false
	}
	m.r++
	return true
}
func (m *RWMutex) RLocker() Locker { return (*rlocker)(m) }

type rlocker RWMutex

func (r *rlocker) Lock()   { (*RWMutex)(r).RLock() }
func (r *rlocker) Unlock() { (*RWMutex)(r).RUnlock() }

type waiter struct{ signalled bool }

type Cond struct {
	L       Locker
	waiters []*waiter
}

func NewCond(l Locker) *Cond { return &Cond{L: l} }

// Wait: registering as a waiter is a visible operation (it does not commute
// with Signal/Broadcast issued without the lock), so there is a scheduling
// point before it.
func (c *Cond) Wait() {
	if vsched.Aborting() {
		return
	}
	vsched.Point("cond.wait.enter", nil)
	w := &waiter{}
	c.waiters = append(c.waiters, w)
	c.L.Unlock()
	vsched.Point("cond.wait", func() bool { return w.signalled })
	c.L.Lock()
}

func (c *Cond) Signal() {
	if vsched.Aborting() {
		return
	}
	vsched.Point("cond.signal", nil)
	if len(c.waiters) > 0 {
		c.waiters[0].signalled = true
		c.waiters = c.waiters[1:]
	}
}

func (c *Cond) Broadcast() {
	if vsched.Aborting() {
		return
	}
	vsched.Point("cond.broadcast", nil)
	for _, w := range c.waiters {
		w.signalled = true
	}
	c.waiters = nil
}

type WaitGroup struct {
	n int
}

func (w *WaitGroup) Add(d int) {
	if vsched.Aborting() {
		return
	}
	if d > 0 {
		vsched.Point("wg.add", nil)
	}
	w.n += d
	if w.n < 0 {
		panic("sync: negative WaitGroup counter")
	}
}
func (w *WaitGroup) Done() { w.Add(-1) }
func (w *WaitGroup) Wait() {
	if vsched.Aborting() {
		return
	}
	vsched.Point("wg.wait", func() bool { return w.n == 0 })
}
func (w *WaitGroup) Go(f func()) {
	w.Add(1)
	vsched.Go(func() {
		defer w.Done()
		f()
	})
}

type Once struct {
	m    Mutex
	done bool
}

func (o *Once) Do(f func()) {
	if o.done {
		return
	}
	o.m.Lock()
	defer o.m.Unlock()
	if !o.done {
		defer func() { o.done = true }()
		f()
	}
}

func OnceFunc(f func()) func() {
	var o Once
	return func() { o.Do(f) }
}

// Pool is a deterministic LIFO free list that is emptied at the start of
// every execution: recycling is immediate, which is the worst case for
// use-after-recycle bugs and keeps executions reproducible.
type Pool struct {
	New  func() any
	gen  uint64
	list []any
}

func (p *Pool) Get() any {
	if g := vsched.Generation(); p.gen != g {
		p.gen, p.list = g, nil
	}
	if n := len(p.list); n > 0 {
		v := p.list[n-1]
		p.list[n-1] = nil
		p.list = p.list[:n-1]
		return v
	}
	if p.New != nil {
		return p.New()
	}
	return nil
}

func (p *Pool) Put(v any) {
	if v == nil || vsched.Aborting() {
		return
	}
	if g := vsched.Generation(); p.gen != g {
		p.gen, p.list = g, nil
	}
	p.list = append(p.list, v)
}

// Map is a minimal scheduler-aware sync.Map.
type Map struct {
	mu Mutex
	m  map[any]any
	k  []any
}

func (m *Map) Load(key any) (any, bool) {
	m.mu.Lock()
	defer m.mu.Unlock()
	v, ok := m.m[key]
	return v, ok
}
func (m *Map) Store(key, value any) {
	m.mu.Lock()
	defer m.mu.Unlock()
	if m.m == nil {
		m.m = map[any]any{}
	}
	if _, ok := m.m[key]; !ok {
		m.k = append(m.k, key)
	}
	m.m[key] = value
}
func (m *Map) LoadOrStore(key, value any) (any, bool) {
	m.mu.Lock()
	defer m.mu.Unlock()
	if v, ok := m.m[key]; ok {
		return v, true
	}
	if m.m == nil {
		m.m = map[any]any{}
	}
	m.k = append(m.k, key)
	m.m[key] = value
	return value, false
}
func (m *Map) Delete(key any) {
	m.mu.Lock()
	defer m.mu.Unlock()
	if _, ok := m.m[key]; ok {
		delete(m.m, key)
		for i, k := range m.k {
			if k == key {
				m.k = append(m.k[:i], m.k[i+1:]...)
				break
			}
		}
	}
}
func (m *Map) Range(f func(key, value any) bool) {
	m.mu.Lock()
	ks := append([]any{}, m.k...)
	m.mu.Unlock()
	for _, k := range ks {
		v, ok := m.Load(k)
		if ok && !f(k, v) {
			return
		}
	}
}
