// Package time: virtual clock replacement for the standard time package.
// Passive types are aliases of the real ones; Now/Sleep/timers are virtual.
package time

import (
	rt "time"

	"github.com/redis/rueidis/vshim/vchan"
	"github.com/redis/rueidis/vshim/vsched"
)

type (
	Duration = rt.Duration
	Time     = rt.Time
	Month    = rt.Month
	Weekday  = rt.Weekday
	Location = rt.Location
)

const (
	Nanosecond  = rt.Nanosecond
	Microsecond = rt.Microsecond
	Millisecond = rt.Millisecond
	Second      = rt.Second
	Minute      = rt.Minute
	Hour        = rt.Hour

	RFC3339     = rt.RFC3339
	RFC3339Nano = rt.RFC3339Nano
	RFC1123     = rt.RFC1123
	Layout      = rt.Layout
	DateTime    = rt.DateTime
	DateOnly    = rt.DateOnly
	TimeOnly    = rt.TimeOnly

	January = rt.January
)

var (
	UTC   = rt.UTC
	Local = rt.UTC
)

func Now() Time {
	if vsched.X == nil {
		return rt.Now()
	}
	return rt.Unix(0, vsched.NowNS()).UTC()
}
func Since(t Time) Duration   { return Now().Sub(t) }
func Until(t Time) Duration   { return t.Sub(Now()) }
func Unix(s, ns int64) Time   { return rt.Unix(s, ns) }
func UnixMilli(ms int64) Time { return rt.UnixMilli(ms) }
func UnixMicro(us int64) Time { return rt.UnixMicro(us) }
func Date(y int, m Month, d, h, mi, s, ns int, l *Location) Time {
	return rt.Date(y, m, d, h, mi, s, ns, l)
}
func Parse(layout, v string) (Time, error)     { return rt.Parse(layout, v) }
func ParseDuration(s string) (Duration, error) { return rt.ParseDuration(s) }
func FixedZone(name string, off int) *Location { return rt.FixedZone(name, off) }

func Sleep(d Duration) {
	if vsched.X == nil {
		rt.Sleep(d)
		return
	}
	vsched.Sleep(d)
}

// Timer mirrors time.Timer on the virtual clock.
type Timer struct {
	C   <-chan Time
	c   chan Time
	f   func()
	tm  *vsched.Timer
	rtm *rt.Timer // outside executions
}

func (t *Timer) arm(d Duration) {
	if vsched.X == nil {
		if t.f != nil {
			t.rtm = rt.AfterFunc(d, t.f)
		} else {
			c := t.c
			t.rtm = rt.AfterFunc(d, func() {
				select {
				case c <- rt.Now():
				default:
				}
			})
		}
		return
	}
	f, c := t.f, t.c
	t.tm = vsched.AddTimer(d, func() {
		if f != nil {
			vsched.GoDaemon("timerfunc", f)
			return
		}
		vchan.TrySend(c, Now())
	})
}

func NewTimer(d Duration) *Timer {
	c := make(chan Time, 1)
	t := &Timer{C: c, c: c}
	t.arm(d)
	return t
}

func AfterFunc(d Duration, f func()) *Timer {
	t := &Timer{f: f}
	t.arm(d)
	return t
}

func After(d Duration) <-chan Time { return NewTimer(d).C }

func (t *Timer) Stop() bool {
	if vsched.Aborting() {
		return false
	}
	vsched.Point("timer.stop", nil)
	if t.rtm != nil {
		return t.rtm.Stop()
	}
	return vsched.StopTimer(t.tm)
}

func (t *Timer) Reset(d Duration) bool {
	if vsched.Aborting() {
		return false
	}
	vsched.Point("timer.reset", nil)
	var was bool
	if t.rtm != nil {
		was = t.rtm.Stop()
	} else {
		was = vsched.StopTimer(t.tm)
	}
	if t.c != nil {
		// Go 1.23+ semantics: no stale value is delivered after Reset
		vchan.Drain(t.c)
	}
	t.arm(d)
	return was
}

// Ticker on the virtual clock.
type Ticker struct {
	C       <-chan Time
	c       chan Time
	d       Duration
	tm      *vsched.Timer
	stopped bool
	rtk     *rt.Ticker
}

func NewTicker(d Duration) *Ticker {
	if d <= 0 {
		panic("non-positive interval for NewTicker")
	}
	if vsched.X == nil {
		k := rt.NewTicker(d)
		return &Ticker{C: k.C, rtk: k}
	}
	c := make(chan Time, 1)
	t := &Ticker{C: c, c: c, d: d}
	t.arm()
	return t
}

func (t *Ticker) arm() {
	t.tm = vsched.AddTimer(t.d, func() {
		if t.stopped {
			return
		}
		vchan.TrySend(t.c, Now())
		t.arm()
	})
}

func (t *Ticker) Stop() {
	if t.rtk != nil {
		t.rtk.Stop()
		return
	}
	t.stopped = true
	vsched.StopTimer(t.tm)
}

func (t *Ticker) Reset(d Duration) {
	if t.rtk != nil {
		t.rtk.Reset(d)
		return
	}
	vsched.StopTimer(t.tm)
	t.d = d
	t.stopped = false
	t.arm()
}

func Tick(d Duration) <-chan Time { return NewTicker(d).C }
