package simredis

import (
	"fmt"
	"strconv"
	"strings"
)

type entry struct {
	kind     byte // 's' string, 'h' hash, 'l' list, 'S' set
	s        string
	h        map[string]string
	hk       []string // hash field order
	l        []string
	expireAt int64 // ms, 0 = none
}

// LogEntry records one executed command.
type LogEntry struct {
	Seq   int
	Sess  int
	Argv  []string
	AtMs  int64
	InTxn bool
}

type tracking struct {
	on, bcast, optin, optout, noloop bool
	prefixes                         []string
}

type blockState struct {
	keys   []string
	left   bool
	cancel func()
}

// Session is one client connection as seen by the server.
type Session struct {
	ID        int
	srv       *Server
	Out       func(b []byte) // delivers bytes to the client side of the connection
	OnClose   func()         // server initiated close
	V3        bool
	Name      string
	User      string
	Authed    bool
	DB        int
	LibName   string
	LibVer    string
	ReadOnly  bool
	NoTouch   bool
	NoEvict   bool
	Capa      []string
	Track     tracking
	caching   int // 0 none, 1 yes, 2 no: applies to the next command (or transaction)
	multi     bool
	queue     [][]string
	dirty     bool
	watching  map[string]int64
	Subs      []string
	PSubs     []string
	SSubs     []string
	blocked   *blockState
	pending   [][]string
	Closed    bool
	Executed  [][]string // every command executed on this session, in order (transaction members included)
	Received  [][]string // every command received (also queued / rejected ones)
	Pushes    [][]string // every push frame sent to this session, in order: kind followed by its string arguments ("<nil>" for null)
	asking    bool
	pendInval []string // self invalidations delivered after the current reply
	bcastPend []string // Server.BcastBatch: keys of the running command to announce to this broadcast-mode session in one push
	executing bool
	HelloSeen bool
}

// Server is the fake Redis.
type Server struct {
	dbs      map[int]map[string]*entry
	vers     map[string]int64        // db:key -> modification counter
	tracked  map[string]map[int]bool // db:key -> session ids
	Sessions []*Session
	NowMs    func() int64
	After    func(ms int64, f func()) (cancel func())
	scripts  map[string]string
	Log      []LogEntry
	seq      int
	// Hook is consulted before a command is executed; a non-nil reply is sent instead of executing.
	Hook func(s *Session, argv []string) *Reply
	// AfterExec is called after each command with its reply.
	AfterExec func(s *Session, argv []string, r Reply)
	// configuration of the fake
	Version      string
	RejectHello  bool              // behave like Redis < 6: unknown command HELLO
	RejectHello3 bool              // HELLO 3 -> NOPROTO
	Users        map[string]string // user -> password; empty map = no auth required
	Role         string            // master | slave
	ScriptRuns   int               // number of script body executions
	RunScript    func(c *Ctx, body string, keys, args []string, ro bool) Reply
	Extra        map[string]func(c *Ctx) Reply // additional commands installed by harnesses
	NodeID       string
	// BetweenPushes, when set, is called after each but the last confirmation of a multi-channel (P|S)SUBSCRIBE:
	// an environment deviation that lets other pushes land between two confirmations on the wire
	BetweenPushes func(ss *Session, kind, channel string)
	// BcastBatch (opt-in): invalidations for sessions tracking in broadcast mode are collected while a command runs and
	// delivered after it as ONE push carrying all its keys, in modification order (Redis announces the keys written
	// under a prefix during one event-loop cycle in a single push; other modes always get one key per push)
	BcastBatch bool
	FailCmd    map[string]string // upper-case command (or "CLIENT TRACKING" style two-word) -> error text to reply
	// ActiveExpire (opt-in, needs After): keys with a TTL are removed on their own at their expiry time, like Redis'
	// active expiry cycle (idealised: exactly on time), so tracking clients get the invalidation although nobody
	// touches the key. Default off: keys expire lazily on the next command.
	ActiveExpire bool
}

func New() *Server {
	return &Server{dbs: map[int]map[string]*entry{}, vers: map[string]int64{}, tracked: map[string]map[int]bool{}, scripts: map[string]string{},
		NowMs: func() int64 { return 0 }, Version: "7.2.4", Users: map[string]string{}, Role: "master", Extra: map[string]func(c *Ctx) Reply{}, FailCmd: map[string]string{}}
}

func (s *Server) db(i int) map[string]*entry {
	d := s.dbs[i]
	if d == nil {
		d = map[string]*entry{}
		s.dbs[i] = d
	}
	return d
}

// NewSession registers a connection.
func (s *Server) NewSession(out func([]byte)) *Session {
	ss := &Session{ID: len(s.Sessions) + 1, srv: s, Out: out, User: "default", watching: map[string]int64{}}
	s.Sessions = append(s.Sessions, ss)
	return ss
}

// Ctx is the execution context of one command.
type Ctx struct {
	S     *Server
	Sess  *Session
	Argv  []string
	InLua bool
	wrote bool
}

func (c *Ctx) arg(i int) string {
	if i < len(c.Argv) {
		return c.Argv[i]
	}
	return ""
}

func vkey(db int, k string) string { return strconv.Itoa(db) + ":" + k }

// ---------------------------------------------------------------- keyspace helpers

func (s *Server) expireDue() {
	now := s.NowMs()
	for _, dbi := range sortedIntKeys(s.dbs) {
		d := s.dbs[dbi]
		for _, k := range sortedKeys(d) {
			if e := d[k]; e.expireAt != 0 && e.expireAt <= now {
				delete(d, k)
				s.touch(dbi, k, nil)
			}
		}
	}
}

func sortedIntKeys[V any](m map[int]V) []int {
	var ks []int
	for k := range m {
		ks = append(ks, k)
	}
	for i := 1; i < len(ks); i++ {
		for j := i; j > 0 && ks[j] < ks[j-1]; j-- {
			ks[j], ks[j-1] = ks[j-1], ks[j]
		}
	}
	return ks
}

func (c *Ctx) get(k string) *entry {
	e := c.S.db(c.Sess.DB)[k]
	if e != nil && e.expireAt != 0 && e.expireAt <= c.S.NowMs() {
		delete(c.S.db(c.Sess.DB), k)
		c.S.touch(c.Sess.DB, k, nil)
		return nil
	}
	return e
}

// Version returns the modification counter of key (db 0).
func (s *Server) KeyVersion(k string) int64 { return s.vers[vkey(0, k)] }

func (c *Ctx) set(k string, e *entry) {
	c.S.db(c.Sess.DB)[k] = e
	c.modified(k)
	if c.S.ActiveExpire && c.S.After != nil && e.expireAt != 0 {
		if d := e.expireAt - c.S.NowMs(); d > 0 {
			c.S.After(d, c.S.expireDue) // a stale timer (TTL changed meanwhile) is a harmless no-op
		}
	}
}

func (c *Ctx) del(k string) bool {
	if c.get(k) == nil {
		return false
	}
	delete(c.S.db(c.Sess.DB), k)
	c.modified(k)
	return true
}

func (c *Ctx) modified(k string) {
	c.wrote = true
	c.S.touch(c.Sess.DB, k, c.Sess)
}

// touch bumps the version of a key and sends invalidations.
func (s *Server) touch(db int, k string, writer *Session) {
	vk := vkey(db, k)
	s.vers[vk]++
	for _, ss := range s.Sessions {
		if ss.Closed {
			continue
		}
		if _, w := ss.watching[vk]; w {
			ss.dirty = true
		}
	}
	if set := s.tracked[vk]; set != nil {
		delete(s.tracked, vk)
		for _, id := range sortedIntKeys(set) {
			t := s.Sessions[id-1]
			if t.Closed || !t.Track.on || t.Track.bcast {
				continue
			}
			if t == writer && t.Track.noloop {
				continue
			}
			s.sendInval(t, k, writer)
		}
	}
	for _, t := range s.Sessions {
		if t.Closed || !t.Track.on || !t.Track.bcast {
			continue
		}
		if t == writer && t.Track.noloop {
			continue
		}
		match := len(t.Track.prefixes) == 0
		for _, p := range t.Track.prefixes {
			if strings.HasPrefix(k, p) {
				match = true
			}
		}
		if match && s.BcastBatch {
			t.bcastPend = append(t.bcastPend, k)
		} else if match {
			s.sendInval(t, k, writer)
		}
	}
}

func (s *Server) sendInval(t *Session, k string, writer *Session) {
	if t == writer && t.executing {
		// Redis >= 7: invalidations for the executing client are sent after its reply
		t.pendInval = append(t.pendInval, k)
		return
	}
	t.push(Push(Bulk("invalidate"), Strs(k)))
}

func (ss *Session) push(r Reply) {
	if ss.Closed {
		return
	}
	if !ss.V3 && r.T == '>' && len(r.A) > 0 && r.A[0].S == "invalidate" {
		return // RESP2 sessions without redirect get no invalidations
	}
	var rec []string
	for _, a := range r.A {
		switch {
		case a.T == '_':
			rec = append(rec, "<nil>")
		case len(a.A) > 0:
			for _, b := range a.A {
				rec = append(rec, b.S)
			}
		case a.T == ':':
			rec = append(rec, strconv.FormatInt(a.I, 10))
		default:
			rec = append(rec, a.S)
		}
	}
	ss.Pushes = append(ss.Pushes, rec)
	ss.Out(Encode(nil, r, ss.V3))
}

func (c *Ctx) track(k string) {
	t := &c.Sess.Track
	if !t.on || t.bcast {
		return
	}
	if t.optin && c.Sess.caching != 1 {
		return
	}
	if t.optout && c.Sess.caching == 2 {
		return
	}
	vk := vkey(c.Sess.DB, k)
	set := c.S.tracked[vk]
	if set == nil {
		set = map[int]bool{}
		c.S.tracked[vk] = set
	}
	set[c.Sess.ID] = true
}

// FlushAll removes every key and notifies tracking clients with a null invalidation.
func (s *Server) FlushAll(writer *Session) {
	s.dbs = map[int]map[string]*entry{}
	s.tracked = map[string]map[int]bool{}
	for k := range s.vers {
		s.vers[k]++
	}
	for _, t := range s.Sessions {
		if !t.Closed && t.Track.on {
			for vk := range t.watching {
				_ = vk
				t.dirty = true
			}
			t.push(Push(Bulk("invalidate"), Nil()))
		}
	}
}

// ---------------------------------------------------------------- command intake

// Feed processes one command received on session ss and writes replies to ss.Out.
func (s *Server) Feed(ss *Session, argv []string) {
	if ss.Closed || len(argv) == 0 {
		return
	}
	ss.Received = append(ss.Received, argv)
	if ss.blocked != nil {
		ss.pending = append(ss.pending, argv)
		return
	}
	s.expireDue()
	r, send := s.exec(ss, argv)
	if send {
		ss.Out(Encode(nil, r, ss.V3))
	}
	s.flushPendInval(ss)
	s.flushBcast()
}

func (s *Server) flushBcast() {
	for _, t := range s.Sessions {
		if len(t.bcastPend) > 0 {
			keys := t.bcastPend
			t.bcastPend = nil
			if !t.Closed {
				t.push(Push(Bulk("invalidate"), Strs(keys...)))
			}
		}
	}
}

func (s *Server) flushPendInval(ss *Session) {
	for _, k := range ss.pendInval {
		ss.push(Push(Bulk("invalidate"), Strs(k)))
	}
	ss.pendInval = nil
}

// Do executes a command on behalf of an out-of-band client (e.g. "another application") and returns the reply.
func (s *Server) Do(argv ...string) Reply {
	if len(s.Sessions) == 0 || s.Sessions[0].Name != "__oob__" {
		// out-of-band session is created lazily at index 0..: simply create a detached session
	}
	oob := &Session{ID: -1, srv: s, Out: func([]byte) {}, User: "default", V3: true, watching: map[string]int64{}, Authed: true}
	s.expireDue()
	r, _ := s.exec(oob, argv)
	s.flushBcast()
	return r
}

func (s *Server) exec(ss *Session, argv []string) (Reply, bool) {
	name := strings.ToUpper(argv[0])
	if s.Hook != nil {
		if r := s.Hook(ss, argv); r != nil {
			s.logCmd(ss, argv, false)
			return *r, true
		}
	}
	if msg, ok := s.FailCmd[name]; ok {
		return Err(msg), true
	}
	if len(argv) > 1 {
		if msg, ok := s.FailCmd[name+" "+strings.ToUpper(argv[1])]; ok {
			return Err(msg), true
		}
	}
	if len(s.Users) > 0 && !ss.Authed && name != "HELLO" && name != "AUTH" && name != "QUIT" {
		return Err("NOAUTH Authentication required."), true
	}
	if ss.multi && name != "EXEC" && name != "DISCARD" && name != "MULTI" && name != "WATCH" && name != "QUIT" && name != "RESET" {
		if !s.known(name) {
			ss.dirty = true
			ss.queue = append(ss.queue, nil)
			return Err("ERR unknown command '" + argv[0] + "'"), true
		}
		ss.queue = append(ss.queue, argv)
		return Simple("QUEUED"), true
	}
	if !ss.V3 && (len(ss.Subs)+len(ss.PSubs)+len(ss.SSubs)) > 0 {
		switch name {
		case "SUBSCRIBE", "UNSUBSCRIBE", "PSUBSCRIBE", "PUNSUBSCRIBE", "SSUBSCRIBE", "SUNSUBSCRIBE", "PING", "QUIT", "RESET":
		default:
			return Err("ERR Can't execute '" + strings.ToLower(name) + "': only (P|S)SUBSCRIBE / (P|S)UNSUBSCRIBE / PING / QUIT / RESET are allowed in this context"), true
		}
	}
	c := &Ctx{S: s, Sess: ss, Argv: argv}
	ss.executing = true
	r, send := s.dispatch(c, name)
	ss.executing = false
	if name != "CLIENT" && !ss.multi {
		ss.caching = 0
	}
	if name != "ASKING" {
		ss.asking = false
	}
	if s.AfterExec != nil {
		s.AfterExec(ss, argv, r)
	}
	return r, send
}

func (s *Server) logCmd(ss *Session, argv []string, inTxn bool) {
	s.seq++
	s.Log = append(s.Log, LogEntry{Seq: s.seq, Sess: ss.ID, Argv: argv, AtMs: s.NowMs(), InTxn: inTxn})
	ss.Executed = append(ss.Executed, argv)
}

func (s *Server) known(name string) bool {
	if _, ok := commands[name]; ok {
		return true
	}
	_, ok := s.Extra[name]
	return ok
}

func (s *Server) dispatch(c *Ctx, name string) (Reply, bool) {
	if f, ok := s.Extra[name]; ok {
		s.logCmd(c.Sess, c.Argv, c.InLua)
		return f(c), true
	}
	cmd, ok := commands[name]
	if !ok {
		return Err(fmt.Sprintf("ERR unknown command '%s', with args beginning with: ", c.Argv[0])), true
	}
	if cmd.arity > 0 && len(c.Argv) != cmd.arity || cmd.arity < 0 && len(c.Argv) < -cmd.arity {
		return Err("ERR wrong number of arguments for '" + strings.ToLower(name) + "' command"), true
	}
	if cmd.write && c.Sess.ReadOnly && s.Role == "slave" {
		return Err("READONLY You can't write against a read only replica."), true
	}
	s.logCmd(c.Sess, c.Argv, c.InLua)
	r := cmd.f(c)
	if r.T == 0 {
		return r, false // no reply (blocked, or pushes already sent)
	}
	return r, true
}

// DescribeTracking renders the tracking mode of a session: off | optin | optout | bcast | default.
func (s *Server) DescribeTracking(ss *Session) string {
	t := ss.Track
	switch {
	case !t.on:
		return "off"
	case t.bcast:
		return "bcast"
	case t.optin:
		return "optin"
	case t.optout:
		return "optout"
	}
	return "default"
}

// TrackingOf reports whether the session tracks in the given mode.
func (s *Server) TrackingOf(ss *Session, mode string) bool { return s.DescribeTracking(ss) == mode }

// AbortTxn silently discards the transaction queued on ss (as if a WATCHed key had changed): the
// caller then answers EXEC with a nil array.
func (s *Server) AbortTxn(ss *Session) {
	ss.multi, ss.queue, ss.dirty = false, nil, false
	ss.watching = map[string]int64{}
	ss.caching = 0
}

// Close tears a session down (client closed the connection or server drops it).
func (s *Server) Close(ss *Session) {
	if ss.Closed {
		return
	}
	ss.Closed = true
	if ss.blocked != nil && ss.blocked.cancel != nil {
		ss.blocked.cancel()
	}
	ss.blocked = nil
	ss.Subs, ss.PSubs, ss.SSubs = nil, nil, nil
	ss.Track = tracking{}
	for _, set := range s.tracked {
		delete(set, ss.ID)
	}
}

// Drop closes the connection from the server side.
func (s *Server) Drop(ss *Session) {
	s.Close(ss)
	if ss.OnClose != nil {
		ss.OnClose()
	}
}

// Publish delivers a message like PUBLISH from an out-of-band client; returns receivers.
func (s *Server) Publish(channel, msg string, shard bool) int64 {
	var n int64
	for _, t := range s.Sessions {
		if t.Closed {
			continue
		}
		if shard {
			for _, ch := range t.SSubs {
				if ch == channel {
					t.push(Push(Bulk("smessage"), Bulk(channel), Bulk(msg)))
					n++
				}
			}
			continue
		}
		for _, ch := range t.Subs {
			if ch == channel {
				t.push(Push(Bulk("message"), Bulk(channel), Bulk(msg)))
				n++
			}
		}
		for _, p := range t.PSubs {
			if globMatch(p, channel) {
				t.push(Push(Bulk("pmessage"), Bulk(p), Bulk(channel), Bulk(msg)))
				n++
			}
		}
	}
	return n
}

func globMatch(p, s string) bool {
	if p == "" {
		return s == ""
	}
	switch p[0] {
	case '*':
		for i := 0; i <= len(s); i++ {
			if globMatch(p[1:], s[i:]) {
				return true
			}
		}
		return false
	case '?':
		return s != "" && globMatch(p[1:], s[1:])
	case '\\':
		if len(p) > 1 {
			return s != "" && s[0] == p[1] && globMatch(p[2:], s[1:])
		}
	}
	return s != "" && s[0] == p[0] && globMatch(p[1:], s[1:])
}
