package simredis

// Minimal RedisJSON subset (JSON.SET / JSON.GET / JSON.NUMINCRBY / JSON.DEL / JSON.TYPE) for the paths the
// object-mapping package uses: the root ("$" and the legacy "." ) and one top-level member
// ("$.name", ".name", "name"). Documents are kept as compacted JSON text (entry kind 'J'); member
// values are carried verbatim, i.e. numbers keep the text the client sent (RedisJSON itself
// normalises numbers to i64 / f64; value-preserving for everything encoding/json emits in those ranges).
// Replies follow RedisJSON 2.x: legacy paths answer with the single value, "$" paths with a JSON array
// of the matches; JSON.GET of a missing key answers null; a legacy path that does not exist is an error.

import (
	"bytes"
	"encoding/json"
	"math"
	"strconv"
	"strings"
)

func init() {
	commands["JSON.SET"] = command{-4, true, cmdJSONSet}
	commands["JSON.GET"] = command{-2, false, cmdJSONGet}
	commands["JSON.NUMINCRBY"] = command{4, true, cmdJSONNumIncrBy}
	commands["JSON.DEL"] = command{-2, true, cmdJSONDel}
	commands["JSON.FORGET"] = command{-2, true, cmdJSONDel}
	commands["JSON.TYPE"] = command{-2, false, cmdJSONType}
}

type jsonPath struct {
	root   bool
	dollar bool // JSONPath syntax ($...): replies are arrays of matches
	field  string
}

func parseJSONPath(p string) (jp jsonPath, ok bool) {
	switch p {
	case "$":
		return jsonPath{root: true, dollar: true}, true
	case ".", "":
		return jsonPath{root: true}, true
	}
	name := p
	switch {
	case strings.HasPrefix(p, "$."):
		jp.dollar, name = true, p[2:]
	case strings.HasPrefix(p, `$["`) && strings.HasSuffix(p, `"]`):
		jp.dollar, name = true, p[3:len(p)-2]
	case strings.HasPrefix(p, "."):
		name = p[1:]
	}
	if name == "" {
		return jp, false
	}
	for i := 0; i < len(name); i++ {
		c := name[i]
		if !(c == '_' || c >= 'a' && c <= 'z' || c >= 'A' && c <= 'Z' || c >= '0' && c <= '9' && i > 0 || c >= 0x80) {
			return jp, false
		}
	}
	jp.field = name
	return jp, true
}

func jsonPathErr(p string) Reply {
	return Err("ERR simredis: JSON path " + strconv.Quote(p) + " is outside the supported subset (root or one top-level member)")
}

// jsonMembers splits a JSON object text into its members in document order.
func jsonMembers(doc string) (keys []string, vals []string, ok bool) {
	dec := json.NewDecoder(strings.NewReader(doc))
	dec.UseNumber()
	tok, err := dec.Token()
	if d, isD := tok.(json.Delim); err != nil || !isD || d != '{' {
		return nil, nil, false
	}
	for dec.More() {
		kt, err := dec.Token()
		k, isS := kt.(string)
		if err != nil || !isS {
			return nil, nil, false
		}
		var raw json.RawMessage
		if err := dec.Decode(&raw); err != nil {
			return nil, nil, false
		}
		// a later duplicate wins (serde_json semantics), position of the first is kept
		dup := false
		for i := range keys {
			if keys[i] == k {
				vals[i], dup = string(raw), true
			}
		}
		if !dup {
			keys, vals = append(keys, k), append(vals, string(raw))
		}
	}
	return keys, vals, true
}

func jsonJoin(keys, vals []string) string {
	var b strings.Builder
	b.WriteByte('{')
	for i := range keys {
		if i > 0 {
			b.WriteByte(',')
		}
		kb, _ := json.Marshal(keys[i])
		b.Write(kb)
		b.WriteByte(':')
		b.WriteString(vals[i])
	}
	b.WriteByte('}')
	return b.String()
}

func jsonCompact(s string) (string, bool) {
	if !json.Valid([]byte(s)) {
		return "", false
	}
	var b bytes.Buffer
	if err := json.Compact(&b, []byte(s)); err != nil {
		return "", false
	}
	return b.String(), true
}

func (c *Ctx) jsonDoc(k string) (e *entry, errReply *Reply) {
	e = c.get(k)
	if e != nil && e.kind != 'J' {
		r := Err(wrongType)
		return nil, &r
	}
	return e, nil
}

func cmdJSONSet(c *Ctx) Reply {
	k, p, v := c.Argv[1], c.Argv[2], c.Argv[3]
	nx, xx := false, false
	for _, o := range c.Argv[4:] {
		switch strings.ToUpper(o) {
		case "NX":
			nx = true
		case "XX":
			xx = true
		default:
			return Err("ERR syntax error")
		}
	}
	jp, ok := parseJSONPath(p)
	if !ok {
		return jsonPathErr(p)
	}
	e, er := c.jsonDoc(k)
	if er != nil {
		return *er
	}
	val, ok := jsonCompact(v)
	if !ok {
		return Err("ERR expected value at line 1 column 1")
	}
	if jp.root {
		if (nx && e != nil) || (xx && e == nil) {
			return Nil()
		}
		ne := &entry{kind: 'J', s: val}
		if e != nil {
			ne.expireAt = e.expireAt // the value is replaced in place: the TTL stays
		}
		c.set(k, ne)
		return Simple("OK")
	}
	if e == nil {
		return Err("ERR new objects must be created at the root")
	}
	keys, vals, isObj := jsonMembers(e.s)
	if !isObj {
		return Nil()
	}
	found := -1
	for i := range keys {
		if keys[i] == jp.field {
			found = i
		}
	}
	if (nx && found >= 0) || (xx && found < 0) {
		return Nil()
	}
	if found >= 0 {
		vals[found] = val
	} else {
		keys, vals = append(keys, jp.field), append(vals, val)
	}
	c.set(k, &entry{kind: 'J', s: jsonJoin(keys, vals), expireAt: e.expireAt})
	return Simple("OK")
}

func cmdJSONGet(c *Ctx) Reply {
	k := c.Argv[1]
	c.track(k)
	var paths []string
	for i := 2; i < len(c.Argv); i++ {
		switch strings.ToUpper(c.Argv[i]) {
		case "INDENT", "NEWLINE", "SPACE", "FORMAT":
			i++ // formatting options are accepted and ignored (compact output)
		case "NOESCAPE":
		default:
			paths = append(paths, c.Argv[i])
		}
	}
	if len(paths) > 1 {
		return Err("ERR simredis: JSON.GET with several paths is not supported")
	}
	p := "."
	if len(paths) == 1 {
		p = paths[0]
	}
	jp, ok := parseJSONPath(p)
	if !ok {
		return jsonPathErr(p)
	}
	e, er := c.jsonDoc(k)
	if er != nil {
		return *er
	}
	if e == nil {
		return Nil()
	}
	if jp.root {
		if jp.dollar {
			return Bulk("[" + e.s + "]")
		}
		return Bulk(e.s)
	}
	keys, vals, isObj := jsonMembers(e.s)
	if isObj {
		for i := range keys {
			if keys[i] == jp.field {
				if jp.dollar {
					return Bulk("[" + vals[i] + "]")
				}
				return Bulk(vals[i])
			}
		}
	}
	if jp.dollar {
		return Bulk("[]")
	}
	return Err("ERR Path '$." + jp.field + "' does not exist")
}

func jsonFormatFloat(f float64) string {
	if f == math.Trunc(f) && math.Abs(f) < 1e15 {
		return strconv.FormatFloat(f, 'f', 1, 64)
	}
	return strconv.FormatFloat(f, 'g', -1, 64)
}

func cmdJSONNumIncrBy(c *Ctx) Reply {
	k, p, by := c.Argv[1], c.Argv[2], c.Argv[3]
	jp, ok := parseJSONPath(p)
	if !ok || jp.root {
		return jsonPathErr(p)
	}
	e, er := c.jsonDoc(k)
	if er != nil {
		return *er
	}
	if e == nil {
		return Err("ERR could not perform this operation on a key that doesn't exist")
	}
	byC, valid := jsonCompact(by)
	if !valid || byC == "" || !(byC[0] == '-' || byC[0] >= '0' && byC[0] <= '9') {
		return Err("ERR expected value at line 1 column 1")
	}
	keys, vals, isObj := jsonMembers(e.s)
	found := -1
	if isObj {
		for i := range keys {
			if keys[i] == jp.field {
				found = i
			}
		}
	}
	if found < 0 {
		if jp.dollar {
			return Bulk("[]")
		}
		return Err("ERR Path '$." + jp.field + "' does not exist")
	}
	cur := vals[found]
	if cur == "" || !(cur[0] == '-' || cur[0] >= '0' && cur[0] <= '9') {
		if jp.dollar {
			return Bulk("[null]")
		}
		return Err("ERR WRONGTYPE wrong type of path value - expected a number but found something else")
	}
	var out string
	ci, err1 := strconv.ParseInt(cur, 10, 64)
	bi, err2 := strconv.ParseInt(byC, 10, 64)
	if err1 == nil && err2 == nil && !((bi > 0 && ci > math.MaxInt64-bi) || (bi < 0 && ci < math.MinInt64-bi)) {
		out = strconv.FormatInt(ci+bi, 10)
	} else {
		cf, e1 := strconv.ParseFloat(cur, 64)
		bf, e2 := strconv.ParseFloat(byC, 64)
		if e1 != nil || e2 != nil || math.IsInf(cf+bf, 0) {
			return Err("ERR result is not a number")
		}
		out = jsonFormatFloat(cf + bf)
	}
	vals[found] = out
	c.set(k, &entry{kind: 'J', s: jsonJoin(keys, vals), expireAt: e.expireAt})
	if jp.dollar {
		return Bulk("[" + out + "]")
	}
	return Bulk(out)
}

func cmdJSONDel(c *Ctx) Reply {
	k := c.Argv[1]
	p := "."
	if len(c.Argv) > 2 {
		p = c.Argv[2]
	}
	jp, ok := parseJSONPath(p)
	if !ok {
		return jsonPathErr(p)
	}
	e, er := c.jsonDoc(k)
	if er != nil {
		return *er
	}
	if e == nil {
		return Int(0)
	}
	if jp.root {
		c.del(k)
		return Int(1)
	}
	keys, vals, isObj := jsonMembers(e.s)
	if !isObj {
		return Int(0)
	}
	for i := range keys {
		if keys[i] == jp.field {
			keys = append(keys[:i:i], keys[i+1:]...)
			vals = append(vals[:i:i], vals[i+1:]...)
			c.set(k, &entry{kind: 'J', s: jsonJoin(keys, vals), expireAt: e.expireAt})
			return Int(1)
		}
	}
	return Int(0)
}

func cmdJSONType(c *Ctx) Reply {
	k := c.Argv[1]
	p := "."
	if len(c.Argv) > 2 {
		p = c.Argv[2]
	}
	jp, ok := parseJSONPath(p)
	if !ok {
		return jsonPathErr(p)
	}
	e, er := c.jsonDoc(k)
	if er != nil {
		return *er
	}
	if e == nil {
		return Nil()
	}
	v := e.s
	if !jp.root {
		v = ""
		if keys, vals, isObj := jsonMembers(e.s); isObj {
			for i := range keys {
				if keys[i] == jp.field {
					v = vals[i]
				}
			}
		}
	}
	t := ""
	switch {
	case v == "":
		if jp.dollar {
			return Arr()
		}
		return Nil()
	case v[0] == '{':
		t = "object"
	case v[0] == '[':
		t = "array"
	case v[0] == '"':
		t = "string"
	case v == "true" || v == "false":
		t = "boolean"
	case v == "null":
		t = "null"
	case strings.ContainsAny(v, ".eE"):
		t = "number"
	default:
		t = "integer"
	}
	if jp.dollar {
		return Strs(t)
	}
	return Bulk(t)
}
