package simredis

import (
	"crypto/sha1"
	"encoding/hex"
	"sort"
	"strconv"
	"strings"
	"unsafe"
)

type command struct {
	arity int // >0 exact, <0 minimum
	write bool
	f     func(c *Ctx) Reply
}

var commands map[string]command

const wrongType = "WRONGTYPE Operation against a key holding the wrong kind of value"

func init() {
	commands = map[string]command{
		"PING": {-1, false, func(c *Ctx) Reply {
			if len(c.Argv) > 1 {
				return Bulk(c.Argv[1])
			}
			if !c.Sess.V3 && len(c.Sess.Subs)+len(c.Sess.PSubs)+len(c.Sess.SSubs) > 0 {
				return Arr(Bulk("pong"), Bulk(""))
			}
			return Simple("PONG")
		}},
		"ECHO":      {2, false, func(c *Ctx) Reply { return Bulk(c.Argv[1]) }},
		"HELLO":     {-1, false, cmdHello},
		"AUTH":      {-2, false, cmdAuth},
		"SELECT":    {2, false, cmdSelect},
		"CLIENT":    {-2, false, cmdClient},
		"READONLY":  {1, false, func(c *Ctx) Reply { c.Sess.ReadOnly = true; return Simple("OK") }},
		"READWRITE": {1, false, func(c *Ctx) Reply { c.Sess.ReadOnly = false; return Simple("OK") }},
		"ASKING":    {1, false, func(c *Ctx) Reply { c.Sess.asking = true; return Simple("OK") }},
		"QUIT":      {1, false, func(c *Ctx) Reply { return Simple("OK") }},
		"ROLE": {1, false, func(c *Ctx) Reply {
			if c.S.Role == "master" {
				return Arr(Bulk("master"), Int(0), Arr())
			}
			return Arr(Bulk("slave"), Bulk("127.0.0.1"), Int(6379), Bulk("connected"), Int(0))
		}},
		"TIME": {1, false, func(c *Ctx) Reply {
			ms := c.S.NowMs()
			return Strs(strconv.FormatInt(ms/1000, 10), strconv.FormatInt(ms%1000*1000, 10))
		}},
		"DBSIZE":   {1, false, func(c *Ctx) Reply { return Int(int64(len(c.S.db(c.Sess.DB)))) }},
		"FLUSHALL": {-1, true, func(c *Ctx) Reply { c.S.FlushAll(c.Sess); return Simple("OK") }},
		"FLUSHDB":  {-1, true, func(c *Ctx) Reply { c.S.FlushAll(c.Sess); return Simple("OK") }},

		"GET": {2, false, func(c *Ctx) Reply {
			c.track(c.Argv[1])
			if strings.HasPrefix(c.Argv[1], "echo:") {
				return Bulk(c.Argv[1])
			}
			e := c.get(c.Argv[1])
			if e == nil {
				return Nil()
			}
			if e.kind != 's' {
				return Err(wrongType)
			}
			return Bulk(e.s)
		}},
		"SET":    {-3, true, cmdSet},
		"SETNX":  {3, true, func(c *Ctx) Reply { c.Argv = append(c.Argv, "NX"); r := cmdSet(c); return Int(btoi(r.T == '+')) }},
		"SETEX":  {4, true, func(c *Ctx) Reply { c.Argv = []string{"SET", c.Argv[1], c.Argv[3], "EX", c.Argv[2]}; return cmdSet(c) }},
		"PSETEX": {4, true, func(c *Ctx) Reply { c.Argv = []string{"SET", c.Argv[1], c.Argv[3], "PX", c.Argv[2]}; return cmdSet(c) }},
		"GETSET": {3, true, func(c *Ctx) Reply { c.Argv = append(c.Argv, "GET"); return cmdSet(c) }},
		"GETDEL": {2, true, func(c *Ctx) Reply {
			e := c.get(c.Argv[1])
			if e == nil {
				return Nil()
			}
			if e.kind != 's' {
				return Err(wrongType)
			}
			c.del(c.Argv[1])
			return Bulk(e.s)
		}},
		"APPEND": {3, true, func(c *Ctx) Reply {
			e := c.get(c.Argv[1])
			if e == nil {
				e = &entry{kind: 's'}
			} else if e.kind != 's' {
				return Err(wrongType)
			}
			ne := *e
			ne.s += c.Argv[2]
			c.set(c.Argv[1], &ne)
			return Int(int64(len(ne.s)))
		}},
		"GETRANGE": {4, false, func(c *Ctx) Reply {
			c.track(c.Argv[1])
			e := c.get(c.Argv[1])
			if e == nil {
				return Bulk("")
			}
			if e.kind != 's' {
				return Err(wrongType)
			}
			a, err1 := strconv.Atoi(c.Argv[2])
			b, err2 := strconv.Atoi(c.Argv[3])
			if err1 != nil || err2 != nil {
				return Err("ERR value is not an integer or out of range")
			}
			n := len(e.s)
			if a < 0 {
				a += n
			}
			if b < 0 {
				b += n
			}
			if a < 0 {
				a = 0
			}
			if b >= n {
				b = n - 1
			}
			if a > b || n == 0 {
				return Bulk("")
			}
			return Bulk(e.s[a : b+1])
		}},
		"STRLEN": {2, false, func(c *Ctx) Reply {
			c.track(c.Argv[1])
			e := c.get(c.Argv[1])
			if e == nil {
				return Int(0)
			}
			if e.kind != 's' {
				return Err(wrongType)
			}
			return Int(int64(len(e.s)))
		}},
		"INCR": {2, true, func(c *Ctx) Reply { return incrBy(c, c.Argv[1], 1) }},
		"DECR": {2, true, func(c *Ctx) Reply { return incrBy(c, c.Argv[1], -1) }},
		"INCRBY": {3, true, func(c *Ctx) Reply {
			n, err := strconv.ParseInt(c.Argv[2], 10, 64)
			if err != nil {
				return Err("ERR value is not an integer or out of range")
			}
			return incrBy(c, c.Argv[1], n)
		}},
		"DECRBY": {3, true, func(c *Ctx) Reply {
			n, err := strconv.ParseInt(c.Argv[2], 10, 64)
			if err != nil {
				return Err("ERR value is not an integer or out of range")
			}
			return incrBy(c, c.Argv[1], -n)
		}},
		"MGET": {-2, false, func(c *Ctx) Reply {
			out := make([]Reply, 0, len(c.Argv)-1)
			for _, k := range c.Argv[1:] {
				c.track(k)
				if strings.HasPrefix(k, "echo:") {
					out = append(out, Bulk(k))
					continue
				}
				e := c.get(k)
				if e == nil || e.kind != 's' {
					out = append(out, Nil())
				} else {
					out = append(out, Bulk(e.s))
				}
			}
			return Arr(out...)
		}},
		"MSET": {-3, true, func(c *Ctx) Reply {
			if len(c.Argv)%2 != 1 {
				return Err("ERR wrong number of arguments for 'mset' command")
			}
			for i := 1; i+1 < len(c.Argv); i += 2 {
				c.set(c.Argv[i], &entry{kind: 's', s: c.Argv[i+1]})
			}
			return Simple("OK")
		}},
		"MSETNX": {-3, true, func(c *Ctx) Reply {
			if len(c.Argv)%2 != 1 {
				return Err("ERR wrong number of arguments for 'msetnx' command")
			}
			for i := 1; i+1 < len(c.Argv); i += 2 {
				if c.get(c.Argv[i]) != nil {
					return Int(0)
				}
			}
			for i := 1; i+1 < len(c.Argv); i += 2 {
				c.set(c.Argv[i], &entry{kind: 's', s: c.Argv[i+1]})
			}
			return Int(1)
		}},
		"DEL":    {-2, true, cmdDel},
		"UNLINK": {-2, true, cmdDel},
		"EXISTS": {-2, false, func(c *Ctx) Reply {
			var n int64
			for _, k := range c.Argv[1:] {
				c.track(k)
				if c.get(k) != nil {
					n++
				}
			}
			return Int(n)
		}},
		"TYPE": {2, false, func(c *Ctx) Reply {
			c.track(c.Argv[1])
			e := c.get(c.Argv[1])
			if e == nil {
				return Simple("none")
			}
			return Simple(map[byte]string{'s': "string", 'h': "hash", 'l': "list", 'S': "set", 'J': "ReJSON-RL"}[e.kind])
		}},
		"RENAME": {3, true, func(c *Ctx) Reply {
			e := c.get(c.Argv[1])
			if e == nil {
				return Err("ERR no such key")
			}
			c.del(c.Argv[1])
			c.set(c.Argv[2], e)
			return Simple("OK")
		}},
		"PTTL":      {2, false, func(c *Ctx) Reply { return ttl(c, 1) }},
		"TTL":       {2, false, func(c *Ctx) Reply { return ttl(c, 1000) }},
		"PEXPIRE":   {-3, true, func(c *Ctx) Reply { return expire(c, 1, false) }},
		"EXPIRE":    {-3, true, func(c *Ctx) Reply { return expire(c, 1000, false) }},
		"PEXPIREAT": {-3, true, func(c *Ctx) Reply { return expire(c, 1, true) }},
		"EXPIREAT":  {-3, true, func(c *Ctx) Reply { return expire(c, 1000, true) }},
		"PERSIST": {2, true, func(c *Ctx) Reply {
			e := c.get(c.Argv[1])
			if e == nil || e.expireAt == 0 {
				return Int(0)
			}
			ne := *e
			ne.expireAt = 0
			c.set(c.Argv[1], &ne)
			return Int(1)
		}},
		"KEYS": {2, false, func(c *Ctx) Reply {
			var out []string
			for _, k := range sortedKeys(c.S.db(c.Sess.DB)) {
				if c.get(k) != nil && globMatch(c.Argv[1], k) {
					out = append(out, k)
				}
			}
			return Strs(out...)
		}},

		"HSET": {-4, true, cmdHset},
		"HMSET": {-4, true, func(c *Ctx) Reply {
			r := cmdHset(c)
			if r.T == ':' {
				return Simple("OK")
			}
			return r
		}},
		"HSETNX": {4, true, func(c *Ctx) Reply {
			e := c.get(c.Argv[1])
			if e != nil && e.kind == 'h' {
				if _, ok := e.h[c.Argv[2]]; ok {
					return Int(0)
				}
			}
			return cmdHset(c)
		}},
		"HGET": {3, false, func(c *Ctx) Reply {
			c.track(c.Argv[1])
			e := c.get(c.Argv[1])
			if e == nil {
				return Nil()
			}
			if e.kind != 'h' {
				return Err(wrongType)
			}
			if v, ok := e.h[c.Argv[2]]; ok {
				return Bulk(v)
			}
			return Nil()
		}},
		"HMGET": {-3, false, func(c *Ctx) Reply {
			c.track(c.Argv[1])
			e := c.get(c.Argv[1])
			if e != nil && e.kind != 'h' {
				return Err(wrongType)
			}
			out := make([]Reply, 0, len(c.Argv)-2)
			for _, f := range c.Argv[2:] {
				if e != nil {
					if v, ok := e.h[f]; ok {
						out = append(out, Bulk(v))
						continue
					}
				}
				out = append(out, Nil())
			}
			return Arr(out...)
		}},
		"HGETALL": {2, false, func(c *Ctx) Reply {
			c.track(c.Argv[1])
			e := c.get(c.Argv[1])
			if e == nil {
				return Map()
			}
			if e.kind != 'h' {
				return Err(wrongType)
			}
			var out []Reply
			for _, f := range e.hk {
				out = append(out, Bulk(f), Bulk(e.h[f]))
			}
			return Map(out...)
		}},
		"HEXISTS": {3, false, func(c *Ctx) Reply {
			c.track(c.Argv[1])
			e := c.get(c.Argv[1])
			if e == nil || e.kind != 'h' {
				return Int(0)
			}
			_, ok := e.h[c.Argv[2]]
			return Int(btoi(ok))
		}},
		"HLEN": {2, false, func(c *Ctx) Reply {
			c.track(c.Argv[1])
			e := c.get(c.Argv[1])
			if e == nil || e.kind != 'h' {
				return Int(0)
			}
			return Int(int64(len(e.h)))
		}},
		"HDEL": {-3, true, func(c *Ctx) Reply {
			e := c.get(c.Argv[1])
			if e == nil {
				return Int(0)
			}
			if e.kind != 'h' {
				return Err(wrongType)
			}
			ne := cloneHash(e)
			var n int64
			for _, f := range c.Argv[2:] {
				if _, ok := ne.h[f]; ok {
					delete(ne.h, f)
					for i, x := range ne.hk {
						if x == f {
							ne.hk = append(ne.hk[:i:i], ne.hk[i+1:]...)
							break
						}
					}
					n++
				}
			}
			if n > 0 {
				if len(ne.h) == 0 {
					c.del(c.Argv[1])
				} else {
					c.set(c.Argv[1], ne)
				}
			}
			return Int(n)
		}},
		"HINCRBY": {4, true, func(c *Ctx) Reply {
			d, err := strconv.ParseInt(c.Argv[3], 10, 64)
			if err != nil {
				return Err("ERR value is not an integer or out of range")
			}
			e := c.get(c.Argv[1])
			if e != nil && e.kind != 'h' {
				return Err(wrongType)
			}
			ne := cloneHash(e)
			cur := int64(0)
			if v, ok := ne.h[c.Argv[2]]; ok {
				cur, err = strconv.ParseInt(v, 10, 64)
				if err != nil {
					return Err("ERR hash value is not an integer")
				}
			} else {
				ne.hk = append(ne.hk, c.Argv[2])
			}
			cur += d
			ne.h[c.Argv[2]] = strconv.FormatInt(cur, 10)
			c.set(c.Argv[1], ne)
			return Int(cur)
		}},

		"LPUSH": {-3, true, func(c *Ctx) Reply { return push(c, true) }},
		"RPUSH": {-3, true, func(c *Ctx) Reply { return push(c, false) }},
		"LPOP":  {-2, true, func(c *Ctx) Reply { return pop(c, c.Argv[1], true) }},
		"RPOP":  {-2, true, func(c *Ctx) Reply { return pop(c, c.Argv[1], false) }},
		"BLPOP": {-3, true, func(c *Ctx) Reply { return bpop(c, true) }},
		"BRPOP": {-3, true, func(c *Ctx) Reply { return bpop(c, false) }},
		"LLEN": {2, false, func(c *Ctx) Reply {
			c.track(c.Argv[1])
			e := c.get(c.Argv[1])
			if e == nil {
				return Int(0)
			}
			if e.kind != 'l' {
				return Err(wrongType)
			}
			return Int(int64(len(e.l)))
		}},
		"LRANGE": {4, false, func(c *Ctx) Reply {
			c.track(c.Argv[1])
			e := c.get(c.Argv[1])
			if e == nil {
				return Arr()
			}
			a, _ := strconv.Atoi(c.Argv[2])
			b, _ := strconv.Atoi(c.Argv[3])
			n := len(e.l)
			if a < 0 {
				a += n
			}
			if b < 0 {
				b += n
			}
			if a < 0 {
				a = 0
			}
			if b >= n {
				b = n - 1
			}
			if a > b {
				return Arr()
			}
			return Strs(e.l[a : b+1]...)
		}},

		"MULTI": {1, false, func(c *Ctx) Reply {
			if c.Sess.multi {
				return Err("ERR MULTI calls can not be nested")
			}
			c.Sess.multi = true
			c.Sess.queue = nil
			return Simple("OK")
		}},
		"DISCARD": {1, false, func(c *Ctx) Reply {
			if !c.Sess.multi {
				return Err("ERR DISCARD without MULTI")
			}
			c.Sess.multi, c.Sess.queue, c.Sess.dirty = false, nil, false
			c.Sess.watching = map[string]int64{}
			return Simple("OK")
		}},
		"EXEC": {1, false, cmdExec},
		"WATCH": {-2, false, func(c *Ctx) Reply {
			if c.Sess.multi {
				return Err("ERR WATCH inside MULTI is not allowed")
			}
			for _, k := range c.Argv[1:] {
				c.Sess.watching[vkey(c.Sess.DB, k)] = 1
			}
			return Simple("OK")
		}},
		"UNWATCH": {1, false, func(c *Ctx) Reply {
			c.Sess.watching = map[string]int64{}
			c.Sess.dirty = false
			return Simple("OK")
		}},

		"SUBSCRIBE":    {-2, false, func(c *Ctx) Reply { return subscribe(c, &c.Sess.Subs, "subscribe") }},
		"PSUBSCRIBE":   {-2, false, func(c *Ctx) Reply { return subscribe(c, &c.Sess.PSubs, "psubscribe") }},
		"SSUBSCRIBE":   {-2, false, func(c *Ctx) Reply { return subscribe(c, &c.Sess.SSubs, "ssubscribe") }},
		"UNSUBSCRIBE":  {-1, false, func(c *Ctx) Reply { return unsubscribe(c, &c.Sess.Subs, "unsubscribe") }},
		"PUNSUBSCRIBE": {-1, false, func(c *Ctx) Reply { return unsubscribe(c, &c.Sess.PSubs, "punsubscribe") }},
		"SUNSUBSCRIBE": {-1, false, func(c *Ctx) Reply { return unsubscribe(c, &c.Sess.SSubs, "sunsubscribe") }},
		"PUBLISH":      {3, false, func(c *Ctx) Reply { return Int(c.S.Publish(c.Argv[1], c.Argv[2], false)) }},
		"SPUBLISH":     {3, false, func(c *Ctx) Reply { return Int(c.S.Publish(c.Argv[1], c.Argv[2], true)) }},

		"SCRIPT":     {-2, false, cmdScript},
		"EVAL":       {-3, true, func(c *Ctx) Reply { return eval(c, false, false) }},
		"EVAL_RO":    {-3, false, func(c *Ctx) Reply { return eval(c, false, true) }},
		"EVALSHA":    {-3, true, func(c *Ctx) Reply { return eval(c, true, false) }},
		"EVALSHA_RO": {-3, false, func(c *Ctx) Reply { return eval(c, true, true) }},

		"SETBIT": {4, true, func(c *Ctx) Reply {
			off, err := strconv.Atoi(c.Argv[2])
			if err != nil || off < 0 {
				return Err("ERR bit offset is not an integer or out of range")
			}
			e := c.get(c.Argv[1])
			if e != nil && e.kind != 's' {
				return Err(wrongType)
			}
			b := []byte{}
			ne := &entry{kind: 's'}
			if e != nil {
				b = []byte(e.s)
				ne.expireAt = e.expireAt
			}
			for len(b) <= off/8 {
				b = append(b, 0)
			}
			old := (b[off/8] >> (7 - uint(off%8))) & 1
			if c.Argv[3] == "1" {
				b[off/8] |= 1 << (7 - uint(off%8))
			} else {
				b[off/8] &^= 1 << (7 - uint(off%8))
			}
			ne.s = string(b)
			c.set(c.Argv[1], ne)
			return Int(int64(old))
		}},
		"GETBIT": {3, false, func(c *Ctx) Reply {
			c.track(c.Argv[1])
			off, err := strconv.Atoi(c.Argv[2])
			if err != nil || off < 0 {
				return Err("ERR bit offset is not an integer or out of range")
			}
			e := c.get(c.Argv[1])
			if e == nil || off/8 >= len(e.s) {
				return Int(0)
			}
			return Int(int64((e.s[off/8] >> (7 - uint(off%8))) & 1))
		}},
		"BITFIELD":    {-2, true, func(c *Ctx) Reply { return bitfield(c, false) }},
		"BITFIELD_RO": {-2, false, func(c *Ctx) Reply { return bitfield(c, true) }},
		"SADD": {-3, true, func(c *Ctx) Reply {
			e := c.get(c.Argv[1])
			if e != nil && e.kind != 'S' {
				return Err(wrongType)
			}
			ne := cloneHash(e)
			ne.kind = 'S'
			var n int64
			for _, m := range c.Argv[2:] {
				if _, ok := ne.h[m]; !ok {
					ne.h[m] = ""
					ne.hk = append(ne.hk, m)
					n++
				}
			}
			c.set(c.Argv[1], ne)
			return Int(n)
		}},
		"SMEMBERS": {2, false, func(c *Ctx) Reply {
			c.track(c.Argv[1])
			e := c.get(c.Argv[1])
			if e == nil {
				return Reply{T: '~'}
			}
			ks := append([]string{}, e.hk...)
			sort.Strings(ks)
			r := Strs(ks...)
			r.T = '~'
			return r
		}},
	}
}

func btoi(b bool) int64 {
	if b {
		return 1
	}
	return 0
}

func cloneHash(e *entry) *entry {
	ne := &entry{kind: 'h', h: map[string]string{}}
	if e != nil {
		ne.kind, ne.expireAt = e.kind, e.expireAt
		for k, v := range e.h {
			ne.h[k] = v
		}
		ne.hk = append(ne.hk, e.hk...)
	}
	return ne
}

func cmdHello(c *Ctx) Reply {
	s, ss := c.S, c.Sess
	ss.HelloSeen = true
	if s.RejectHello {
		return Err("ERR unknown command 'HELLO', with args beginning with: ")
	}
	v3 := ss.V3
	i := 1
	if len(c.Argv) > 1 {
		switch c.Argv[1] {
		case "3":
			if s.RejectHello3 {
				return Err("NOPROTO sorry, this protocol version is not supported.")
			}
			v3 = true
		case "2":
			v3 = false
		default:
			return Err("NOPROTO unsupported protocol version")
		}
		i = 2
	}
	name := ss.Name
	user, authed := ss.User, ss.Authed
	for i < len(c.Argv) {
		switch strings.ToUpper(c.Argv[i]) {
		case "AUTH":
			if i+2 >= len(c.Argv) {
				return Err("ERR Syntax error in HELLO option 'AUTH'")
			}
			if !s.checkAuth(c.Argv[i+1], c.Argv[i+2]) {
				return Err("WRONGPASS invalid username-password pair or user is disabled.")
			}
			user, authed = c.Argv[i+1], true
			i += 3
		case "SETNAME":
			if i+1 >= len(c.Argv) {
				return Err("ERR Syntax error in HELLO option 'SETNAME'")
			}
			name = c.Argv[i+1]
			i += 2
		default:
			return Err("ERR Syntax error in HELLO option '" + c.Argv[i] + "'")
		}
	}
	if len(s.Users) > 0 && !authed {
		return Err("NOAUTH HELLO must be called with the client already authenticated, otherwise the HELLO <proto> AUTH <user> <pass> option can be used to authenticate the client and select the RESP protocol version at the same time")
	}
	ss.V3, ss.Name, ss.User, ss.Authed = v3, name, user, authed
	proto := int64(2)
	if v3 {
		proto = 3
	}
	return Map(Bulk("server"), Bulk("redis"), Bulk("version"), Bulk(s.Version), Bulk("proto"), Int(proto), Bulk("id"), Int(int64(ss.ID)), Bulk("mode"), Bulk("standalone"), Bulk("role"), Bulk(s.Role), Bulk("modules"), Arr())
}

func (s *Server) checkAuth(user, pass string) bool {
	if len(s.Users) == 0 {
		return user == "default" // no password configured: AUTH default <anything> succeeds in Redis only for nopass users
	}
	p, ok := s.Users[user]
	return ok && p == pass
}

func cmdAuth(c *Ctx) Reply {
	user, pass := "default", c.Argv[1]
	if len(c.Argv) == 3 {
		user, pass = c.Argv[1], c.Argv[2]
	}
	if len(c.S.Users) == 0 && len(c.Argv) == 2 {
		return Err("ERR AUTH <password> called without any password configured for the default user. Are you sure your configuration is correct?")
	}
	if !c.S.checkAuth(user, pass) {
		return Err("WRONGPASS invalid username-password pair or user is disabled.")
	}
	c.Sess.User, c.Sess.Authed = user, true
	return Simple("OK")
}

func cmdSelect(c *Ctx) Reply {
	n, err := strconv.Atoi(c.Argv[1])
	if err != nil || n < 0 || n > 15 {
		return Err("ERR DB index is out of range")
	}
	c.Sess.DB = n
	return Simple("OK")
}

func cmdClient(c *Ctx) Reply {
	ss := c.Sess
	switch strings.ToUpper(c.Argv[1]) {
	case "ID":
		return Int(int64(ss.ID))
	case "SETNAME":
		if len(c.Argv) != 3 {
			return Err("ERR wrong number of arguments for 'client|setname' command")
		}
		ss.Name = c.Argv[2]
		return Simple("OK")
	case "GETNAME":
		if ss.Name == "" {
			return Nil()
		}
		return Bulk(ss.Name)
	case "SETINFO":
		if len(c.Argv) != 4 {
			return Err("ERR wrong number of arguments for 'client|setinfo' command")
		}
		switch strings.ToUpper(c.Argv[2]) {
		case "LIB-NAME":
			ss.LibName = c.Argv[3]
		case "LIB-VER":
			ss.LibVer = c.Argv[3]
		default:
			return Err("ERR Unrecognized option '" + c.Argv[2] + "'")
		}
		return Simple("OK")
	case "NO-TOUCH":
		ss.NoTouch = len(c.Argv) > 2 && strings.EqualFold(c.Argv[2], "ON")
		return Simple("OK")
	case "NO-EVICT":
		ss.NoEvict = len(c.Argv) > 2 && strings.EqualFold(c.Argv[2], "ON")
		return Simple("OK")
	case "CAPA":
		ss.Capa = append(ss.Capa, c.Argv[2:]...)
		return Simple("OK")
	case "CACHING":
		if len(c.Argv) != 3 {
			return Err("ERR wrong number of arguments for 'client|caching' command")
		}
		if !ss.Track.on || (!ss.Track.optin && !ss.Track.optout) {
			return Err("ERR CLIENT CACHING can be called only when the client is in tracking mode with OPTIN or OPTOUT mode enabled")
		}
		if strings.EqualFold(c.Argv[2], "YES") {
			if !ss.Track.optin {
				return Err("ERR CLIENT CACHING YES is only valid when tracking is enabled in OPTIN mode.")
			}
			ss.caching = 1
		} else {
			if !ss.Track.optout {
				return Err("ERR CLIENT CACHING NO is only valid when tracking is enabled in OPTOUT mode.")
			}
			ss.caching = 2
		}
		return Simple("OK")
	case "TRACKING":
		if len(c.Argv) < 3 {
			return Err("ERR wrong number of arguments for 'client|tracking' command")
		}
		if strings.EqualFold(c.Argv[2], "OFF") {
			ss.Track = tracking{}
			for _, set := range c.S.tracked {
				delete(set, ss.ID)
			}
			return Simple("OK")
		}
		if !strings.EqualFold(c.Argv[2], "ON") {
			return Err("ERR syntax error")
		}
		t := tracking{on: true}
		for i := 3; i < len(c.Argv); i++ {
			switch strings.ToUpper(c.Argv[i]) {
			case "BCAST":
				t.bcast = true
			case "OPTIN":
				t.optin = true
			case "OPTOUT":
				t.optout = true
			case "NOLOOP":
				t.noloop = true
			case "PREFIX":
				if i+1 >= len(c.Argv) {
					return Err("ERR syntax error")
				}
				t.prefixes = append(t.prefixes, c.Argv[i+1])
				i++
			default:
				return Err("ERR syntax error")
			}
		}
		if !ss.V3 {
			return Err("ERR Client tracking with RESP2 requires the REDIRECT option")
		}
		if t.bcast && (t.optin || t.optout) {
			return Err("ERR OPTIN and OPTOUT are not compatible with BCAST")
		}
		if t.optin && t.optout {
			return Err("ERR You can't specify both OPTIN mode and OPTOUT mode")
		}
		if len(t.prefixes) > 0 && !t.bcast {
			return Err("ERR PREFIX option requires BCAST mode to be enabled")
		}
		if ss.Track.on && ss.Track.bcast != t.bcast {
			return Err("ERR You can't switch BCAST mode on/off before disabling tracking for this client, and then re-enabling it with a different mode.")
		}
		ss.Track = t
		return Simple("OK")
	}
	return Err("ERR unknown subcommand '" + c.Argv[1] + "'. Try CLIENT HELP.")
}

func cmdSet(c *Ctx) Reply {
	k, v := c.Argv[1], c.Argv[2]
	var nx, xx, get, keepttl bool
	var exp int64
	for i := 3; i < len(c.Argv); i++ {
		switch strings.ToUpper(c.Argv[i]) {
		case "NX":
			nx = true
		case "XX":
			xx = true
		case "GET":
			get = true
		case "KEEPTTL":
			keepttl = true
		case "EX", "PX", "EXAT", "PXAT":
			if i+1 >= len(c.Argv) {
				return Err("ERR syntax error")
			}
			n, err := strconv.ParseInt(c.Argv[i+1], 10, 64)
			if err != nil || n <= 0 {
				return Err("ERR invalid expire time in 'set' command")
			}
			switch strings.ToUpper(c.Argv[i]) {
			case "EX":
				exp = c.S.NowMs() + n*1000
			case "PX":
				exp = c.S.NowMs() + n
			case "EXAT":
				exp = n * 1000
			case "PXAT":
				exp = n
			}
			i++
		default:
			return Err("ERR syntax error")
		}
	}
	old := c.get(k)
	if get && old != nil && old.kind != 's' {
		return Err(wrongType)
	}
	ret := Simple("OK")
	if get {
		ret = Nil()
		if old != nil {
			ret = Bulk(old.s)
		}
	}
	if (nx && old != nil) || (xx && old == nil) {
		if get {
			return ret
		}
		return Nil()
	}
	e := &entry{kind: 's', s: v, expireAt: exp}
	if keepttl && old != nil {
		e.expireAt = old.expireAt
	}
	c.set(k, e)
	return ret
}

func incrBy(c *Ctx, k string, d int64) Reply {
	e := c.get(k)
	cur := int64(0)
	ne := &entry{kind: 's'}
	if e != nil {
		if e.kind != 's' {
			return Err(wrongType)
		}
		var err error
		cur, err = strconv.ParseInt(e.s, 10, 64)
		if err != nil {
			return Err("ERR value is not an integer or out of range")
		}
		ne.expireAt = e.expireAt
	}
	cur += d
	ne.s = strconv.FormatInt(cur, 10)
	c.set(k, ne)
	return Int(cur)
}

func cmdDel(c *Ctx) Reply {
	var n int64
	for _, k := range c.Argv[1:] {
		if c.del(k) {
			n++
		}
	}
	return Int(n)
}

func ttl(c *Ctx, unit int64) Reply {
	c.track(c.Argv[1])
	if strings.HasPrefix(c.Argv[1], "echo:") {
		return Int(-1)
	}
	e := c.get(c.Argv[1])
	if e == nil {
		return Int(-2)
	}
	if e.expireAt == 0 {
		return Int(-1)
	}
	left := e.expireAt - c.S.NowMs()
	if unit == 1000 {
		return Int((left + 500) / 1000)
	}
	return Int(left)
}

func expire(c *Ctx, unit int64, abs bool) Reply {
	n, err := strconv.ParseInt(c.Argv[2], 10, 64)
	if err != nil {
		return Err("ERR value is not an integer or out of range")
	}
	e := c.get(c.Argv[1])
	if e == nil {
		return Int(0)
	}
	at := n * unit
	if !abs {
		at += c.S.NowMs()
	}
	if at <= c.S.NowMs() {
		c.del(c.Argv[1])
		return Int(1)
	}
	ne := *e
	ne.expireAt = at
	c.set(c.Argv[1], &ne)
	return Int(1)
}

func cmdHset(c *Ctx) Reply {
	if len(c.Argv)%2 != 0 {
		return Err("ERR wrong number of arguments for 'hset' command")
	}
	e := c.get(c.Argv[1])
	if e != nil && e.kind != 'h' {
		return Err(wrongType)
	}
	ne := cloneHash(e)
	var n int64
	for i := 2; i+1 < len(c.Argv); i += 2 {
		if _, ok := ne.h[c.Argv[i]]; !ok {
			ne.hk = append(ne.hk, c.Argv[i])
			n++
		}
		ne.h[c.Argv[i]] = c.Argv[i+1]
	}
	c.set(c.Argv[1], ne)
	return Int(n)
}

func push(c *Ctx, left bool) Reply {
	e := c.get(c.Argv[1])
	if e != nil && e.kind != 'l' {
		return Err(wrongType)
	}
	ne := &entry{kind: 'l'}
	if e != nil {
		ne.l = append(ne.l, e.l...)
		ne.expireAt = e.expireAt
	}
	for _, v := range c.Argv[2:] {
		if left {
			ne.l = append([]string{v}, ne.l...)
		} else {
			ne.l = append(ne.l, v)
		}
	}
	n := int64(len(ne.l))
	c.set(c.Argv[1], ne)
	c.S.serveBlocked(c.Sess.DB, c.Argv[1])
	return Int(n)
}

func popOne(c *Ctx, k string, left bool) (string, bool) {
	e := c.get(k)
	if e == nil || e.kind != 'l' || len(e.l) == 0 {
		return "", false
	}
	ne := &entry{kind: 'l', expireAt: e.expireAt}
	var v string
	if left {
		v = e.l[0]
		ne.l = append(ne.l, e.l[1:]...)
	} else {
		v = e.l[len(e.l)-1]
		ne.l = append(ne.l, e.l[:len(e.l)-1]...)
	}
	if len(ne.l) == 0 {
		c.del(k)
	} else {
		c.set(k, ne)
	}
	return v, true
}

func pop(c *Ctx, k string, left bool) Reply {
	if e := c.get(k); e != nil && e.kind != 'l' {
		return Err(wrongType)
	}
	v, ok := popOne(c, k, left)
	if !ok {
		return Nil()
	}
	return Bulk(v)
}

func bpop(c *Ctx, left bool) Reply {
	keys := c.Argv[1 : len(c.Argv)-1]
	to, err := strconv.ParseFloat(c.Argv[len(c.Argv)-1], 64)
	if err != nil || to < 0 {
		return Err("ERR timeout is not a float or out of range")
	}
	for _, k := range keys {
		if v, ok := popOne(c, k, left); ok {
			return Strs(k, v)
		}
	}
	if c.Sess.multi || c.InLua {
		return NilArr()
	}
	ss := c.Sess
	b := &blockState{keys: append([]string{}, keys...), left: left}
	ss.blocked = b
	if to > 0 && c.S.After != nil {
		b.cancel = c.S.After(int64(to*1000), func() {
			if ss.blocked == b {
				ss.blocked = nil
				ss.Out(Encode(nil, NilArr(), ss.V3))
				c.S.drainPending(ss)
			}
		})
	}
	return Reply{} // no reply now
}

func (s *Server) serveBlocked(db int, key string) {
	for _, t := range s.Sessions {
		b := t.blocked
		if t.Closed || b == nil || t.DB != db {
			continue
		}
		for _, k := range b.keys {
			if k != key {
				continue
			}
			cc := &Ctx{S: s, Sess: t}
			if v, ok := popOne(cc, key, b.left); ok {
				if b.cancel != nil {
					b.cancel()
				}
				t.blocked = nil
				t.Out(Encode(nil, Strs(key, v), t.V3))
				s.drainPending(t)
			}
			break
		}
	}
}

func (s *Server) drainPending(t *Session) {
	for len(t.pending) > 0 && t.blocked == nil && !t.Closed {
		argv := t.pending[0]
		t.pending = t.pending[1:]
		r, send := s.exec(t, argv)
		if send {
			t.Out(Encode(nil, r, t.V3))
		}
		s.flushPendInval(t)
	}
}

func cmdExec(c *Ctx) Reply {
	ss := c.Sess
	if !ss.multi {
		return Err("ERR EXEC without MULTI")
	}
	q := ss.queue
	dirty := ss.dirty
	ss.queue, ss.dirty = nil, false
	ss.watching = map[string]int64{}
	for _, a := range q {
		if a == nil {
			ss.multi = false
			return Err("EXECABORT Transaction discarded because of previous errors.")
		}
	}
	if dirty {
		ss.multi = false
		return NilArr()
	}
	out := make([]Reply, 0, len(q))
	for _, argv := range q {
		cc := &Ctx{S: c.S, Sess: ss, Argv: argv, InLua: true}
		r, _ := c.S.dispatch(cc, strings.ToUpper(argv[0]))
		if r.T == 0 {
			r = NilArr()
		}
		out = append(out, r)
	}
	ss.multi = false
	return Arr(out...)
}

func subscribe(c *Ctx, list *[]string, kind string) Reply {
	ss := c.Sess
	for i, ch := range c.Argv[1:] {
		found := false
		for _, x := range *list {
			if x == ch {
				found = true
			}
		}
		if !found {
			*list = append(*list, ch)
		}
		n := len(ss.Subs) + len(ss.PSubs)
		if kind == "ssubscribe" {
			n = len(ss.SSubs)
		}
		ss.Out(Encode(nil, Push(Bulk(kind), Bulk(ch), Int(int64(n))), ss.V3))
		if c.S.BetweenPushes != nil && i+1 < len(c.Argv[1:]) {
			c.S.BetweenPushes(ss, kind, ch)
		}
	}
	return Reply{}
}

func unsubscribe(c *Ctx, list *[]string, kind string) Reply {
	ss := c.Sess
	targets := c.Argv[1:]
	if len(targets) == 0 {
		targets = append([]string{}, *list...)
		if len(targets) == 0 {
			n := len(ss.Subs) + len(ss.PSubs)
			if kind == "sunsubscribe" {
				n = len(ss.SSubs)
			}
			ss.Out(Encode(nil, Push(Bulk(kind), Nil(), Int(int64(n))), ss.V3))
			return Reply{}
		}
	}
	for _, ch := range targets {
		for i, x := range *list {
			if x == ch {
				*list = append((*list)[:i:i], (*list)[i+1:]...)
				break
			}
		}
		n := len(ss.Subs) + len(ss.PSubs)
		if kind == "sunsubscribe" {
			n = len(ss.SSubs)
		}
		ss.Out(Encode(nil, Push(Bulk(kind), Bulk(ch), Int(int64(n))), ss.V3))
	}
	return Reply{}
}

// ServerUnsubscribe makes the server drop a shard subscription on its own (slot migration).
func (s *Server) ServerUnsubscribe(ss *Session, ch string) {
	for i, x := range ss.SSubs {
		if x == ch {
			ss.SSubs = append(ss.SSubs[:i:i], ss.SSubs[i+1:]...)
			ss.Out(Encode(nil, Push(Bulk("sunsubscribe"), Bulk(ch), Int(int64(len(ss.SSubs)))), ss.V3))
			return
		}
	}
}

func Sha1Hex(s string) string {
	h := sha1.Sum([]byte(s))
	return hex.EncodeToString(h[:])
}

func cmdScript(c *Ctx) Reply {
	switch strings.ToUpper(c.Argv[1]) {
	case "LOAD":
		if len(c.Argv) != 3 {
			return Err("ERR wrong number of arguments for 'script|load' command")
		}
		sha := Sha1Hex(c.Argv[2])
		c.S.scripts[sha] = c.Argv[2]
		return Bulk(sha)
	case "FLUSH":
		c.S.scripts = map[string]string{}
		return Simple("OK")
	case "EXISTS":
		var out []Reply
		for _, s := range c.Argv[2:] {
			_, ok := c.S.scripts[strings.ToLower(s)]
			out = append(out, Int(btoi(ok)))
		}
		return Arr(out...)
	}
	return Err("ERR unknown subcommand '" + c.Argv[1] + "'. Try SCRIPT HELP.")
}

// ScriptFlush forgets every cached script (like SCRIPT FLUSH from another client / a restart).
func (s *Server) ScriptFlush()                 { s.scripts = map[string]string{} }
func (s *Server) ScriptLoaded(sha string) bool { _, ok := s.scripts[sha]; return ok }

func eval(c *Ctx, bySha, ro bool) Reply {
	body := c.Argv[1]
	if bySha {
		b, ok := c.S.scripts[strings.ToLower(c.Argv[1])]
		if !ok {
			return Err("NOSCRIPT No matching script. Please use EVAL.")
		}
		body = b
	} else {
		c.S.scripts[Sha1Hex(body)] = body
	}
	nk, err := strconv.Atoi(c.Argv[2])
	if err != nil || nk < 0 {
		return Err("ERR value is not an integer or out of range")
	}
	if nk > len(c.Argv)-3 {
		return Err("ERR Number of keys can't be greater than number of args")
	}
	keys, args := c.Argv[3:3+nk], c.Argv[3+nk:]
	c.S.ScriptRuns++
	if c.S.RunScript == nil {
		return Err("ERR scripting is not available in this fake server")
	}
	return c.S.RunScript(c, body, keys, args, ro)
}

// Call executes a command from inside a script on behalf of the script's caller.
func (c *Ctx) Call(argv []string) Reply {
	name := strings.ToUpper(argv[0])
	cc := &Ctx{S: c.S, Sess: c.Sess, Argv: argv, InLua: true}
	r, _ := c.S.dispatch(cc, name)
	if cc.wrote {
		c.wrote = true
	}
	return r
}

// IsWrite tells whether a command name is flagged as a write in this fake.
func IsWrite(name string) bool { return commands[strings.ToUpper(name)].write }

func bitfield(c *Ctx, ro bool) Reply {
	k := c.Argv[1]
	e := c.get(k)
	if e != nil && e.kind != 's' {
		return Err(wrongType)
	}
	var b []byte
	var exp int64
	src := "" // the stored value; copied into b only by the first write (GET-only calls never copy a large bitmap)
	if e != nil {
		src = e.s
		exp = e.expireAt
	}
	c.track(k)
	var out []Reply
	changed := false
	parseType := func(t string) (signed bool, bits int, ok bool) {
		if len(t) < 2 || (t[0] != 'u' && t[0] != 'i') {
			return
		}
		n, err := strconv.Atoi(t[1:])
		if err != nil || n < 1 || n > 64 || (t[0] == 'u' && n > 63) {
			return
		}
		return t[0] == 'i', n, true
	}
	parseOff := func(o string, bits int) (int, bool) {
		mul := 1
		if strings.HasPrefix(o, "#") {
			mul, o = bits, o[1:]
		}
		n, err := strconv.Atoi(o)
		if err != nil || n < 0 {
			return 0, false
		}
		return n * mul, true
	}
	getBits := func(off, bits int) uint64 {
		var v uint64
		for i := 0; i < bits; i++ {
			p := off + i
			bit := uint64(0)
			if b != nil {
				if p/8 < len(b) {
					bit = uint64(b[p/8]>>(7-uint(p%8))) & 1
				}
			} else if p/8 < len(src) {
				bit = uint64(src[p/8]>>(7-uint(p%8))) & 1
			}
			v = v<<1 | bit
		}
		return v
	}
	setBits := func(off, bits int, v uint64) {
		if b == nil {
			need := (off+bits-1)/8 + 1
			if need < len(src) {
				need = len(src)
			}
			b = make([]byte, need)
			copy(b, src)
		}
		for len(b) <= (off+bits-1)/8 {
			b = append(b, 0)
		}
		for i := 0; i < bits; i++ {
			p := off + i
			bit := (v >> uint(bits-1-i)) & 1
			if bit == 1 {
				b[p/8] |= 1 << (7 - uint(p%8))
			} else {
				b[p/8] &^= 1 << (7 - uint(p%8))
			}
		}
		changed = true
	}
	for i := 2; i < len(c.Argv); {
		switch strings.ToUpper(c.Argv[i]) {
		case "GET":
			if i+2 >= len(c.Argv) {
				return Err("ERR syntax error")
			}
			sg, bits, ok := parseType(c.Argv[i+1])
			off, ok2 := parseOff(c.Argv[i+2], bits)
			if !ok || !ok2 {
				return Err("ERR Invalid bitfield type. Use something like i16 u8. Note that u64 is not supported but i64 is.")
			}
			v := getBits(off, bits)
			if sg && bits < 64 && v&(1<<uint(bits-1)) != 0 {
				out = append(out, Int(int64(v)-(1<<uint(bits))))
			} else {
				out = append(out, Int(int64(v)))
			}
			i += 3
		case "SET", "INCRBY":
			if ro {
				return Err("ERR BITFIELD_RO only supports the GET subcommand")
			}
			if i+3 >= len(c.Argv) {
				return Err("ERR syntax error")
			}
			sg, bits, ok := parseType(c.Argv[i+1])
			off, ok2 := parseOff(c.Argv[i+2], bits)
			n, err := strconv.ParseInt(c.Argv[i+3], 10, 64)
			if !ok || !ok2 || err != nil {
				return Err("ERR syntax error")
			}
			old := getBits(off, bits)
			oldI := int64(old)
			if sg && bits < 64 && old&(1<<uint(bits-1)) != 0 {
				oldI = int64(old) - (1 << uint(bits))
			}
			if strings.ToUpper(c.Argv[i]) == "SET" {
				setBits(off, bits, uint64(n)&((1<<uint(bits))-1|uint64(btoi(bits == 64))*^uint64(0)))
				out = append(out, Int(oldI))
			} else {
				nv := oldI + n
				mask := uint64(1)<<uint(bits) - 1
				if bits == 64 {
					mask = ^uint64(0)
				}
				setBits(off, bits, uint64(nv)&mask)
				res := int64(uint64(nv) & mask)
				if sg && bits < 64 && uint64(res)&(1<<uint(bits-1)) != 0 {
					res -= 1 << uint(bits)
				}
				out = append(out, Int(res))
			}
			i += 4
		case "OVERFLOW":
			i += 2
		default:
			return Err("ERR syntax error")
		}
	}
	if changed {
		// b is private to this call and never touched again: view it as the new value without a second copy
		// (matters for multi-megabyte bitmaps that get one BITFIELD SET per hash function)
		c.set(k, &entry{kind: 's', s: unsafe.String(unsafe.SliceData(b), len(b)), expireAt: exp})
	}
	return Arr(out...)
}
