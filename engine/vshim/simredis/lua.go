package simredis

import (
	"fmt"
	"math"
	"strconv"
	"strings"

	"github.com/redis/rueidis/vshim/minilua"
)

// EnableLua installs the mini-Lua interpreter as the script engine. The
// script text that the client really sent is what gets executed.
func (s *Server) EnableLua() { s.EnableLuaMaxSteps(1000000) }

// EnableLuaMaxSteps is EnableLua with a caller chosen bound on executed statements / loop iterations per script run
// (a script that exceeds it is aborted with an error reply, standing in for Redis' busy-script handling of a
// script that never terminates). Harnesses that enumerate many histories use a small bound to keep runaway scripts cheap.
func (s *Server) EnableLuaMaxSteps(maxSteps int) {
	cache := map[string]*minilua.Chunk{}
	s.RunScript = func(c *Ctx, body string, keys, args []string, ro bool) Reply {
		ch, ok := cache[body]
		if !ok {
			var err error
			ch, err = minilua.Compile(body)
			if err != nil {
				return Err("ERR Error compiling script (new function): " + err.Error())
			}
			cache[body] = ch
		}
		env := minilua.NewEnv()
		env.MaxSteps = maxSteps
		kt, at := minilua.NewTable(), minilua.NewTable()
		for _, k := range keys {
			kt.Append(k)
		}
		for _, a := range args {
			at.Append(a)
		}
		env.Globals.Set("KEYS", kt)
		env.Globals.Set("ARGV", at)
		rt := minilua.NewTable()
		call := func(raise bool) minilua.GoFunc {
			return func(a []any) ([]any, error) {
				if len(a) == 0 {
					return nil, fmt.Errorf("Please specify at least one argument for this redis lib call")
				}
				argv := make([]string, len(a))
				for i, v := range a {
					switch x := v.(type) {
					case string:
						argv[i] = x
					case float64:
						argv[i] = luaNum(x)
					default:
						return nil, fmt.Errorf("Lua redis lib command arguments must be strings or integers")
					}
				}
				name := strings.ToUpper(argv[0])
				var r Reply
				if ro && IsWrite(name) {
					r = Err("ERR Write commands are not allowed from read-only scripts.")
				} else if name == "EVAL" || name == "EVALSHA" || name == "MULTI" || name == "EXEC" || strings.HasSuffix(name, "SUBSCRIBE") {
					r = Err("ERR This Redis command is not allowed from script")
				} else {
					r = c.Call(argv)
				}
				if r.T == 0 {
					r = NilArr()
				}
				if (r.T == '-' || r.T == '!') && raise {
					t := minilua.NewTable()
					t.Set("err", r.S)
					return nil, &minilua.LuaError{Value: t, Msg: r.S}
				}
				return []any{replyToLua(r)}, nil
			}
		}
		rt.Set("call", call(true))
		rt.Set("pcall", call(false))
		rt.Set("sha1hex", minilua.GoFunc(func(a []any) ([]any, error) {
			s, _ := a[0].(string)
			return []any{Sha1Hex(s)}, nil
		}))
		rt.Set("status_reply", minilua.GoFunc(func(a []any) ([]any, error) {
			t := minilua.NewTable()
			t.Set("ok", a[0])
			return []any{t}, nil
		}))
		rt.Set("error_reply", minilua.GoFunc(func(a []any) ([]any, error) {
			t := minilua.NewTable()
			t.Set("err", a[0])
			return []any{t}, nil
		}))
		rt.Set("log", minilua.GoFunc(func(a []any) ([]any, error) { return nil, nil }))
		rt.Set("replicate_commands", minilua.GoFunc(func(a []any) ([]any, error) { return []any{true}, nil }))
		rt.Set("setresp", minilua.GoFunc(func(a []any) ([]any, error) { return nil, nil }))
		rt.Set("LOG_WARNING", float64(3))
		rt.Set("LOG_NOTICE", float64(2))
		env.Globals.Set("redis", rt)
		out, err := ch.Run(env)
		if err != nil {
			if le, ok := err.(*minilua.LuaError); ok {
				if t, ok := le.Value.(*minilua.Table); ok {
					if e, ok := t.Get("err").(string); ok {
						return Err(e)
					}
				}
				if sv, ok := le.Value.(string); ok {
					return Err("ERR " + sv)
				}
			}
			return Err("ERR Error running script: " + err.Error())
		}
		if len(out) == 0 {
			return Nil()
		}
		return luaToReply(out[0])
	}
}

func luaNum(x float64) string {
	if x == math.Trunc(x) && math.Abs(x) < 1e17 {
		return strconv.FormatInt(int64(x), 10)
	}
	return strconv.FormatFloat(x, 'g', 17, 64)
}

func replyToLua(r Reply) any {
	switch r.T {
	case ':':
		return float64(r.I)
	case '$', '=':
		return r.S
	case ',':
		return r.S
	case '+':
		t := minilua.NewTable()
		t.Set("ok", r.S)
		return t
	case '-', '!':
		t := minilua.NewTable()
		t.Set("err", r.S)
		return t
	case '_':
		return false
	case '#':
		if r.I != 0 {
			return float64(1)
		}
		return false
	case '*', '~', '%', '>':
		t := minilua.NewTable()
		for _, e := range r.A {
			t.Append(replyToLua(e))
		}
		return t
	}
	return false
}

func luaToReply(v any) Reply {
	switch x := v.(type) {
	case nil:
		return Nil()
	case bool:
		if x {
			return Int(1)
		}
		return Nil()
	case float64:
		return Int(int64(x))
	case string:
		return Bulk(x)
	case *minilua.Table:
		if e, ok := x.Get("err").(string); ok {
			return Err(e)
		}
		if o, ok := x.Get("ok").(string); ok {
			return Simple(o)
		}
		var out []Reply
		for i := 1; ; i++ {
			e := x.Get(float64(i))
			if e == nil {
				break
			}
			out = append(out, luaToReply(e))
		}
		return Arr(out...)
	}
	return Nil()
}
