// Package simredis is the fake Redis server used as the environment model of
// the wire-level harnesses: an in-memory, single-threaded command executor with
// RESP3/RESP2 encoding, client tracking with invalidation pushes, Pub/Sub,
// transactions, blocking pops, expiry on a pluggable clock and scripting
// through the mini-Lua interpreter. Commands are executed atomically in
// arrival order (that is Redis' semantics); replies and pushes are appended to
// each session's outbound queue in Redis order.
package simredis

import (
	"sort"
	"strconv"
	"strings"
)

// Reply is a RESP value.
type Reply struct {
	T    byte // '+' '-' '$' ':' '*' '%' '~' '_' '#' ',' '>' '!' '='
	S    string
	I    int64
	A    []Reply
	Null bool   // RESP2 null array / null bulk flavour hint
	Raw  string // if not empty: these bytes are sent as they are (e.g. a RESP3 streamed string)
}

func Simple(s string) Reply { return Reply{T: '+', S: s} }
func Err(s string) Reply    { return Reply{T: '-', S: s} }
func Bulk(s string) Reply   { return Reply{T: '$', S: s} }
func Int(i int64) Reply     { return Reply{T: ':', I: i} }
func Nil() Reply            { return Reply{T: '_'} }
func NilArr() Reply         { return Reply{T: '_', Null: true} }
func Arr(a ...Reply) Reply  { return Reply{T: '*', A: a} }
func Map(a ...Reply) Reply  { return Reply{T: '%', A: a} }
func Push(a ...Reply) Reply { return Reply{T: '>', A: a} }
func Bool(b bool) Reply {
	if b {
		return Reply{T: '#', I: 1}
	}
	return Reply{T: '#'}
}
func Double(s string) Reply { return Reply{T: ',', S: s} }
func Strs(ss ...string) Reply {
	a := make([]Reply, len(ss))
	for i, s := range ss {
		a[i] = Bulk(s)
	}
	return Arr(a...)
}

// Encode renders r for a RESP3 (v3=true) or RESP2 session.
func Encode(b []byte, r Reply, v3 bool) []byte {
	if r.Raw != "" {
		return append(b, r.Raw...)
	}
	switch r.T {
	case '+', '-':
		b = append(b, r.T)
		b = append(b, r.S...)
		return append(b, '\r', '\n')
	case '!':
		if !v3 {
			b = append(b, '-')
			b = append(b, r.S...)
			return append(b, '\r', '\n')
		}
		fallthrough
	case '$', '=':
		t := r.T
		if !v3 {
			t = '$'
		}
		b = append(b, t)
		b = strconv.AppendInt(b, int64(len(r.S)), 10)
		b = append(b, '\r', '\n')
		b = append(b, r.S...)
		return append(b, '\r', '\n')
	case ':':
		b = append(b, ':')
		b = strconv.AppendInt(b, r.I, 10)
		return append(b, '\r', '\n')
	case '_':
		if v3 {
			return append(b, '_', '\r', '\n')
		}
		if r.Null {
			return append(b, "*-1\r\n"...)
		}
		return append(b, "$-1\r\n"...)
	case '#':
		if v3 {
			if r.I != 0 {
				return append(b, "#t\r\n"...)
			}
			return append(b, "#f\r\n"...)
		}
		b = append(b, ':')
		b = strconv.AppendInt(b, r.I, 10)
		return append(b, '\r', '\n')
	case ',':
		if v3 {
			b = append(b, ',')
			b = append(b, r.S...)
			return append(b, '\r', '\n')
		}
		return Encode(b, Bulk(r.S), false)
	case '*', '~', '>', '%':
		t := r.T
		n := len(r.A)
		if !v3 {
			t = '*'
		} else if t == '%' {
			n /= 2
		}
		b = append(b, t)
		b = strconv.AppendInt(b, int64(n), 10)
		b = append(b, '\r', '\n')
		for _, e := range r.A {
			b = Encode(b, e, v3)
		}
		return b
	}
	panic("simredis: cannot encode reply type " + string(r.T))
}

// ParseRequests extracts complete commands (RESP arrays of bulk strings, or
// inline commands) from buf; it returns the commands and the number of bytes consumed.
func ParseRequests(buf []byte) (cmds [][]string, used int, err error) {
	for used < len(buf) {
		p := buf[used:]
		if p[0] != '*' {
			i := strings.Index(string(p), "\r\n")
			if i < 0 {
				return
			}
			cmds = append(cmds, strings.Fields(string(p[:i])))
			used += i + 2
			continue
		}
		i := strings.Index(string(p), "\r\n")
		if i < 0 {
			return
		}
		n, e := strconv.Atoi(string(p[1:i]))
		if e != nil || n < 0 {
			return cmds, used, errProto("bad multibulk length " + strconv.Quote(string(p[1:i])))
		}
		pos := i + 2
		argv := make([]string, 0, n)
		for k := 0; k < n; k++ {
			if pos >= len(p) {
				return
			}
			if p[pos] != '$' {
				return cmds, used, errProto("expected '$', got " + strconv.Quote(string(p[pos:pos+1])))
			}
			j := strings.Index(string(p[pos:]), "\r\n")
			if j < 0 {
				return
			}
			l, e := strconv.Atoi(string(p[pos+1 : pos+j]))
			if e != nil || l < 0 {
				return cmds, used, errProto("bad bulk length " + strconv.Quote(string(p[pos+1:pos+j])))
			}
			start := pos + j + 2
			if start+l+2 > len(p) {
				return
			}
			if p[start+l] != '\r' || p[start+l+1] != '\n' {
				return cmds, used, errProto("bulk not terminated by CRLF")
			}
			argv = append(argv, string(p[start:start+l]))
			pos = start + l + 2
		}
		cmds = append(cmds, argv)
		used += pos
	}
	return
}

type errProto string

func (e errProto) Error() string { return "protocol error: " + string(e) }

func sortedKeys[V any](m map[string]V) []string {
	ks := make([]string, 0, len(m))
	for k := range m {
		ks = append(ks, k)
	}
	sort.Strings(ks)
	return ks
}
