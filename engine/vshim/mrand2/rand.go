// Package rand replaces math/rand/v2 (and math/rand): deterministic per
// execution; IntN can be explored when the harness asks for it.
package rand

import (
	"github.com/redis/rueidis/vshim/vsched"
)

// ExploreIntN > 0 makes IntN(n) with n <= ExploreIntN an explored (free) choice.
var ExploreIntN = 0

func IntN(n int) int {
	if n <= 0 {
		panic("invalid argument to IntN")
	}
	if n <= ExploreIntN && vsched.X != nil {
		return vsched.Choose(n, vsched.KFree, "rand")
	}
	return int(vsched.Rand() % uint64(n))
}
func Intn(n int) int       { return IntN(n) }
func Int() int             { return int(vsched.Rand() >> 1) }
func Int63() int64         { return int64(vsched.Rand() >> 1) }
func Int64() int64         { return int64(vsched.Rand() >> 1) }
func Int63n(n int64) int64 { return int64(vsched.Rand() % uint64(n)) }
func Int64N(n int64) int64 { return int64(vsched.Rand() % uint64(n)) }
func Int31n(n int32) int32 { return int32(vsched.Rand() % uint64(n)) }
func Int32N(n int32) int32 { return int32(vsched.Rand() % uint64(n)) }
func Uint64() uint64       { return vsched.Rand() }
func Uint32() uint32       { return uint32(vsched.Rand()) }
func Float64() float64     { return float64(vsched.Rand()>>11) / (1 << 53) }
func Float32() float32     { return float32(vsched.Rand()>>40) / (1 << 24) }
func Shuffle(n int, swap func(i, j int)) {
	for i := n - 1; i > 0; i-- {
		j := IntN(i + 1)
		swap(i, j)
	}
}
func Perm(n int) []int {
	p := make([]int, n)
	for i := range p {
		p[i] = i
	}
	Shuffle(n, func(i, j int) { p[i], p[j] = p[j], p[i] })
	return p
}
func Seed(int64) {}
