// Package vsched is the controlled cooperative scheduler behind the "gosim"
// engine. Transformed rueidis code (see engine/vxform) performs every
// synchronisation operation through the sibling shim packages, which call
// Point before the operation; exactly one managed goroutine ("thread") runs at
// a time and which one runs next is decided here by a recorded choice sequence,
// so an Explorer can enumerate all schedules within a preemption / deviation
// bound by re-executing the harness body with different choice prefixes.
package vsched

import (
	"fmt"
	"runtime"
	"runtime/debug"
	"sort"
	"strings"
	stime "time"
)

// Status of one execution.
type Status int

const (
	Quiescent Status = iota // no thread enabled, no timer pending, every required thread finished
	Deadlock                // no thread enabled, no timer pending, some required thread unfinished
	Horizon                 // step limit reached
	Panicked                // a managed thread panicked
	Stopped                 // harness asked to stop (x.Stop)
)

func (s Status) String() string {
	return [...]string{"quiescent", "deadlock", "horizon", "panic", "stopped"}[s]
}

// ChoiceKind classifies a recorded choice point.
type ChoiceKind uint8

const (
	KSched ChoiceKind = iota // which thread runs next; alternatives may cost a preemption
	KFree                    // data / environment nondeterminism explored without cost
	KDev                     // environment deviation: alternative 0 is the default answer, others cost one deviation each
)

// ChoicePoint is one recorded nondeterministic decision.
type ChoicePoint struct {
	N        int // number of alternatives
	Chosen   int // alternative taken
	Kind     ChoiceKind
	Preempt  bool   // KSched: alternatives >0 (and < timer alt) are preemptions of a runnable thread
	TimerAlt int    // KSched: index of the "fire earliest timer now" alternative (costs a deviation), or -1
	Tag      string // short description for replay files / divergence detection
}

// Thread is a managed goroutine.
type Thread struct {
	ID       int
	Name     string
	Required bool // counts for deadlock detection
	gate     chan struct{}
	pend     func() bool // enabledness of the pending operation; nil = enabled
	kind     string
	done     bool
	started  bool
	yielded  bool
	spun     bool // had its turn as a polite waiter since the last progress of anybody else
	steps    int
	Local    any // thread-local slot for shims (e.g. pending channel op)
}

type timer struct {
	when int64 // virtual ns
	seq  int
	fire func()
	dead bool
}

// Options bound one execution.
type Options struct {
	Horizon     int            // max scheduling steps per execution (0 = 20000)
	EarlyTimers bool           // offer "fire the earliest timer now" as a deviation at scheduling points
	MaxVirtual  stime.Duration // virtual time after which blocked required threads are declared deadlocked (0 = 1h)
}

// Exec is one execution of a harness body under the scheduler.
type Exec struct {
	holds             map[string]*hold // directed holds, see HoldAt
	Opts              Options
	prefix            []int
	Points            []ChoicePoint
	threads           []*Thread
	timers            []*timer
	tseq              int
	now               int64
	steps             int
	status            Status
	finished          bool
	aborting          bool
	doneCh            chan struct{}
	ackCh             chan struct{}
	PanicVal          any
	PanicStk          string
	PanicThr          string
	Diverged          string // non-empty: replay divergence (machinery error)
	traceH            uint64
	Trace             []string // filled when TraceOn
	TraceOn           bool
	lastRan           *Thread
	randCtr           uint64
	Gen               uint64
	cleanup           []func()
	Log               []string // harness/observer log (deterministic order because execution is serial)
	userData          map[string]any
	blockedOnDeadlock []string
	Blocks            int    // how often a thread arrived at an operation that was not enabled (threads really interacted)
	FailSig           string // set by the harness body through Fail
	FailMsg           string
	Outcome           string // harness-defined outcome class of this execution
}

// Fail records an oracle violation for this execution (first one wins).
func (x *Exec) Fail(sig, f string, a ...any) {
	if x.FailSig == "" {
		x.FailSig, x.FailMsg = sig, fmt.Sprintf(f, a...)
	}
}

var (
	// X is the active execution, nil outside Explorer.runOnce.
	X *Exec
	// cur is the managed thread currently running; nil while the harness body
	// itself (unmanaged, serial) runs.
	cur *Thread
	gen uint64
)

// Epoch is the virtual wall clock at the start of every execution.
const Epoch int64 = 1893456000_000000000 // 2030-01-01T00:00:00Z

// Active reports whether a managed thread is running under a live execution.
func Active() bool { return X != nil && cur != nil && !X.aborting }

// Aborting reports whether the current execution is being torn down.
func Aborting() bool { return X != nil && X.aborting }

// Generation changes with every execution (used by shims to reset per-execution state such as sync.Pool contents).
func Generation() uint64 { return gen }

// Cur returns the running managed thread or nil.
func Cur() *Thread { return cur }

// CurID returns the running thread id, -1 for the unmanaged harness body.
func CurID() int {
	if cur == nil {
		return -1
	}
	return cur.ID
}

// NowNS is the virtual clock in ns since Epoch start (absolute unix ns).
func NowNS() int64 {
	if X == nil {
		return stime.Now().UnixNano()
	}
	return Epoch + X.now
}

func (x *Exec) Elapsed() stime.Duration { return stime.Duration(x.now) }

func (x *Exec) Data(k string) any { return x.userData[k] }
func (x *Exec) SetData(k string, v any) {
	if x.userData == nil {
		x.userData = map[string]any{}
	}
	x.userData[k] = v
}

// Logf appends to the execution's observation log.
func Logf(f string, a ...any) {
	if X != nil && !X.aborting {
		X.Log = append(X.Log, fmt.Sprintf(f, a...))
	}
}

// OnCleanup registers f to run after the execution has been torn down.
func OnCleanup(f func()) {
	if X != nil {
		X.cleanup = append(X.cleanup, f)
	}
}

func newExec(prefix []int, o Options) *Exec {
	if o.Horizon == 0 {
		o.Horizon = 20000
	}
	if o.MaxVirtual == 0 {
		o.MaxVirtual = stime.Hour
	}
	gen++
	return &Exec{Opts: o, prefix: prefix, doneCh: make(chan struct{}, 1), ackCh: make(chan struct{}, 1), Gen: gen, traceH: 1469598103934665603}
}

func (x *Exec) mix(s string) {
	for i := 0; i < len(s); i++ {
		x.traceH ^= uint64(s[i])
		x.traceH *= 1099511628211
	}
	x.traceH ^= 0xff
	x.traceH *= 1099511628211
}

// TraceHash identifies the schedule (sequence of thread/op steps and data choices) of this execution.
func (x *Exec) TraceHash() uint64 { return x.traceH }
func (x *Exec) Steps() int        { return x.steps }
func (x *Exec) Status() Status    { return x.status }
func (x *Exec) Blocked() []string { return x.blockedOnDeadlock }

// ---------------------------------------------------------------- choices

func (x *Exec) choose(n int, kind ChoiceKind, preempt bool, timerAlt int, tag string) int {
	if n <= 1 {
		return 0
	}
	i := len(x.Points)
	c := 0
	if i < len(x.prefix) {
		c = x.prefix[i]
		if c >= n {
			if x.Diverged == "" {
				x.Diverged = fmt.Sprintf("choice %d: prefix wants alternative %d but only %d exist (%s)", i, c, n, tag)
			}
			c = 0
		}
	}
	x.Points = append(x.Points, ChoicePoint{N: n, Chosen: c, Kind: kind, Preempt: preempt, TimerAlt: timerAlt, Tag: tag})
	return c
}

// Choose lets the environment / harness ask the explorer for one of n
// alternatives. kind KFree: all explored at no cost; KDev: alternative 0 is the
// default, others cost one deviation.
func Choose(n int, kind ChoiceKind, tag string) int {
	if X == nil || X.aborting {
		return 0
	}
	c := X.choose(n, kind, false, -1, tag)
	X.mix(tag)
	X.mix(string(rune('0' + c)))
	if X.TraceOn {
		X.Trace = append(X.Trace, fmt.Sprintf("choose %s -> %d/%d", tag, c, n))
	}
	return c
}

// Rand returns a deterministic per-execution pseudo random number (not explored).
func Rand() uint64 {
	if X == nil {
		return 0x9e3779b97f4a7c15
	}
	X.randCtr++
	z := X.randCtr * 0x9e3779b97f4a7c15
	z ^= z >> 31
	return z
}

// ---------------------------------------------------------------- threads

// Go starts f as a managed, non-required (daemon) thread. Outside an
// execution it is a plain goroutine.
func Go(f func()) { spawn("", false, f) }

// GoNamed starts a required thread: the execution deadlocks if it cannot finish.
func GoNamed(name string, f func()) { spawn(name, true, f) }

// GoDaemon starts a named daemon thread.
func GoDaemon(name string, f func()) { spawn(name, false, f) }

func spawn(name string, required bool, f func()) {
	x := X
	if x == nil {
		go f()
		return
	}
	if x.aborting {
		return
	}
	t := &Thread{ID: len(x.threads), Name: name, Required: required, gate: make(chan struct{}, 1)}
	if t.Name == "" {
		t.Name = fmt.Sprintf("g%d", t.ID)
	}
	x.threads = append(x.threads, t)
	go func() {
		<-t.gate
		t.started = true
		defer func() {
			if x.aborting {
				// swallow whatever happens during teardown
				recover()
				t.done = true
				x.ackCh <- struct{}{}
				return
			}
			if p := recover(); p != nil {
				x.PanicVal = p
				x.PanicStk = string(debug.Stack())
				x.PanicThr = t.Name
				t.done = true
				x.finish(Panicked)
				return
			}
			t.done = true
			x.schedule(t)
		}()
		if x.aborting {
			return
		}
		f()
	}()
}

// Point is called by the shims before every visible operation. enabled tells
// whether the operation could complete now (nil = always). When Point returns
// the operation is enabled and the caller performs it without interference
// until its next Point.
func Point(kind string, enabled func() bool) {
	x := X
	t := cur
	if x == nil || t == nil {
		if enabled != nil && !enabled() {
			panic("vsched: operation " + kind + " would block outside a managed thread")
		}
		return
	}
	if x.aborting {
		runtime.Goexit()
	}
	if h := x.holds[t.Name]; h != nil && h.kind == kind {
		// a directed hold (HoldAt): this thread waits at this kind of point until the harness' condition holds
		h.seen++
		if h.seen == h.nth {
			inner, cond := enabled, h.cond
			enabled = func() bool { return cond() && (inner == nil || inner()) }
			delete(x.holds, t.Name)
		}
	}
	t.pend, t.kind = enabled, kind
	if enabled != nil && !enabled() {
		x.Blocks++
	}
	x.schedule(t)
	t.pend = nil
}

type hold struct {
	kind      string
	nth, seen int
	cond      func() bool
}

// HoldAt makes the named thread wait at its nth scheduling point of the given kind (1-based) until cond holds.
// It lets a harness place one thread inside a window of the code under test (between two synchronisation
// operations) without spending the exploration budget on it; everything else stays explored. The hold is part of the
// program, not of the schedule: it is the same in every execution and on replay.
func HoldAt(thread, kind string, nth int, cond func() bool) {
	if X == nil {
		return
	}
	if X.holds == nil {
		X.holds = map[string]*hold{}
	}
	X.holds[thread] = &hold{kind: kind, nth: nth, cond: cond}
}

// Yield marks the running thread as politely waiting (spin loop, Gosched):
// other enabled threads are preferred until they block or finish.
func Yield() {
	if X == nil || cur == nil {
		return
	}
	cur.yielded = true
	Point("yield", nil)
}

// schedule is run by thread self when it reaches a point or exits. It picks
// the next thread and, if that is not self, hands over and parks.
func (x *Exec) schedule(self *Thread) {
	for {
		if x.finished {
			x.park(self)
			return
		}
		x.steps++
		if x.steps > x.Opts.Horizon {
			x.finishFrom(self, Horizon)
			return
		}
		var en, yl []*Thread
		selfEnabled := false
		for _, t := range x.threads {
			if t.done {
				continue
			}
			if t.pend != nil && !t.pend() {
				continue
			}
			if t.yielded {
				yl = append(yl, t)
				continue
			}
			if t == self {
				selfEnabled = true
				continue
			}
			en = append(en, t)
		}
		if selfEnabled {
			en = append([]*Thread{self}, en...)
		}
		if len(en) == 0 && len(yl) > 0 {
			// Only polite waiters (spin loops) are runnable. Each gets one turn per round; when all of
			// them have spun without anything else happening, time passes (if a required thread is
			// still waiting) or the execution is quiescent (spinning daemons count as blocked).
			var fresh []*Thread
			for _, t := range yl {
				if !t.spun {
					fresh = append(fresh, t)
				}
			}
			if len(fresh) == 0 {
				waiting := false
				for _, t := range x.threads {
					if !t.done && t.Required {
						waiting = true
					}
				}
				if waiting && x.now < int64(x.Opts.MaxVirtual) && x.fireNextTimer() {
					for _, t := range x.threads {
						t.spun = false
					}
					continue
				}
				st := Quiescent
				if waiting {
					st = Deadlock
					for _, t := range x.threads {
						if !t.done && t.Required {
							x.blockedOnDeadlock = append(x.blockedOnDeadlock, t.Name+"@"+t.kind)
						}
					}
				}
				x.finishFrom(self, st)
				return
			}
			en = fresh
			for _, t := range en {
				if t == self {
					selfEnabled = true
				}
			}
			sort.SliceStable(en, func(i, j int) bool {
				if (en[i] == self) != (en[j] == self) {
					return en[i] == self
				}
				return en[i].ID < en[j].ID
			})
		}
		if len(en) == 0 {
			// Time only passes on behalf of unfinished required threads: periodic
			// timers (keep-alive pings, tickers) must not keep a finished scenario alive.
			waiting := false
			for _, t := range x.threads {
				if !t.done && t.Required {
					waiting = true
				}
			}
			if waiting && x.now < int64(x.Opts.MaxVirtual) && x.fireNextTimer() {
				continue
			}
			st := Quiescent
			for _, t := range x.threads {
				if !t.done && t.Required {
					st = Deadlock
					x.blockedOnDeadlock = append(x.blockedOnDeadlock, t.Name+"@"+t.kind)
				}
			}
			x.finishFrom(self, st)
			return
		}
		n := len(en)
		timerAlt := -1
		if x.Opts.EarlyTimers && x.hasTimer() {
			timerAlt = n
			n++
		}
		c := 0
		if n > 1 {
			tag := ""
			if self != nil {
				tag = self.Name
			}
			c = x.choose(n, KSched, selfEnabled && !self.yielded, timerAlt, tag)
		}
		if c == timerAlt {
			x.mix("T!")
			if x.TraceOn {
				x.Trace = append(x.Trace, "early timer")
			}
			x.fireNextTimer()
			continue
		}
		next := en[c]
		if next.yielded {
			next.spun = true
		} else {
			for _, t := range x.threads {
				t.spun = false
			}
		}
		next.yielded = false
		next.steps++
		x.mix(next.Name)
		x.mix(next.kind)
		if x.TraceOn {
			x.Trace = append(x.Trace, next.Name+": "+next.kind)
		}
		x.lastRan = next
		if next == self {
			return
		}
		cur = next
		next.gate <- struct{}{}
		x.park(self)
		return
	}
}

func btoi(b bool) int {
	if b {
		return 1
	}
	return 0
}

// park blocks self (if it is a live thread) until it is resumed.
func (x *Exec) park(self *Thread) {
	if self == nil || self.done {
		return
	}
	<-self.gate
	if x.aborting {
		runtime.Goexit()
	}
}

func (x *Exec) finish(st Status) {
	if !x.finished {
		x.finished = true
		x.status = st
		cur = nil
		x.doneCh <- struct{}{}
	}
}

func (x *Exec) finishFrom(self *Thread, st Status) {
	x.finish(st)
	x.park(self)
}

// Stop ends the execution from inside a managed thread (e.g. a monitor found a violation).
func Stop() {
	x := X
	if x == nil || cur == nil {
		return
	}
	self := cur
	x.finishFrom(self, Stopped)
}

// Run schedules the spawned threads until the execution ends and tears the
// remaining threads down. It is called by the harness body (unmanaged).
func (x *Exec) Run() Status {
	if cur != nil {
		panic("vsched: Run from managed thread")
	}
	x.finished = false
	x.schedule(nil)
	<-x.doneCh
	return x.status
}

// Resume continues a finished (quiescent) execution after the harness body has
// spawned more threads or changed the environment.
func (x *Exec) Resume() Status { return x.Run() }

func (x *Exec) teardown() {
	x.aborting = true
	x.finished = true
	for _, t := range x.threads {
		if t.done {
			continue
		}
		cur = t
		t.gate <- struct{}{}
		<-x.ackCh
	}
	cur = nil
	for i := len(x.cleanup) - 1; i >= 0; i-- {
		x.cleanup[i]()
	}
}

// ---------------------------------------------------------------- virtual time

// AddTimer schedules fire to run (in scheduler context, must not block) after d of virtual time.
func AddTimer(d stime.Duration, fire func()) *timer {
	x := X
	if x == nil {
		return nil
	}
	if d < 0 {
		d = 0
	}
	x.tseq++
	tm := &timer{when: x.now + int64(d), seq: x.tseq, fire: fire}
	x.timers = append(x.timers, tm)
	return tm
}

// StopTimer cancels tm; reports whether it had not fired yet.
func StopTimer(tm *timer) bool {
	if tm == nil || tm.dead {
		return false
	}
	tm.dead = true
	return true
}

type Timer = timer

func (x *Exec) hasTimer() bool {
	for _, t := range x.timers {
		if !t.dead {
			return true
		}
	}
	return false
}

func (x *Exec) fireNextTimer() bool {
	var best *timer
	bi := -1
	j := 0
	for _, t := range x.timers {
		if t.dead {
			continue
		}
		x.timers[j] = t
		if best == nil || t.when < best.when || (t.when == best.when && t.seq < best.seq) {
			best, bi = t, j
		}
		j++
	}
	x.timers = x.timers[:j]
	if best == nil {
		return false
	}
	x.timers = append(x.timers[:bi], x.timers[bi+1:]...)
	best.dead = true
	if best.when > x.now {
		x.now = best.when
	}
	saved := cur
	cur = nil // timer callbacks run in scheduler context
	best.fire()
	cur = saved
	return true
}

// Advance moves the virtual clock forward by d from the harness body
// (unmanaged context), firing due timers.
func (x *Exec) Advance(d stime.Duration) {
	target := x.now + int64(d)
	for {
		var best *timer
		for _, t := range x.timers {
			if !t.dead && t.when <= target && (best == nil || t.when < best.when || (t.when == best.when && t.seq < best.seq)) {
				best = t
			}
		}
		if best == nil {
			break
		}
		best.dead = true
		if best.when > x.now {
			x.now = best.when
		}
		best.fire()
	}
	x.now = target
}

// Sleep blocks the calling thread for d of virtual time.
func Sleep(d stime.Duration) {
	if X == nil || cur == nil {
		if X != nil {
			X.Advance(d)
		}
		return
	}
	fired := false
	AddTimer(d, func() { fired = true })
	Point("sleep", func() bool { return fired })
}

// ---------------------------------------------------------------- explorer

// Budget bounds the exploration.
type Budget struct {
	MaxPreempt int
	MaxDev     int
	// MaxDelay bounds the number of non-default choices at non-preemptive
	// switch points (the running thread blocked, finished or yielded): the
	// default there is the lowest-numbered enabled thread. -1 = unlimited
	// (all orders explored, CHESS style); 0 is NOT the zero value's meaning: use NoDelayBound.
	MaxDelay int
	MaxExecs int64 // 0 = unlimited
}

// Stats is the coverage of one Explore call.
type Stats struct {
	Execs      int64
	Steps      int64
	Schedules  map[uint64]struct{} // distinct trace hashes
	ByStatus   map[string]int64
	MaxPoints  int
	Capped     bool   // MaxExecs or time budget hit
	Diverged   string // machinery error
	CompletedP int    // highest preemption bound fully explored (-1 none)
	LevelExecs []int64
}

type task struct {
	prefix  []int
	pre, dv int
	dl      int
	depth   int // number of non-default choices
}

// Explorer enumerates executions of Body.
type Explorer struct {
	Opts           Options
	Budget         Budget
	Body           func(x *Exec) // builds the system, calls x.Run(), checks the oracle
	After          func(x *Exec) // optional: called after teardown with the finished execution
	Shard, NShards int
	ShardDepth     int // tasks at this branch depth are distributed over shards (default 2)
	TimeUp         func() bool
	StopNow        func() bool // e.g. violation found and harness wants to stop early
	owned          int
}

// RunOnce executes Body once with the given choice prefix.
func (e *Explorer) RunOnce(prefix []int, trace bool) *Exec {
	x := newExec(prefix, e.Opts)
	x.TraceOn = trace
	X = x
	cur = nil
	func() {
		defer func() {
			if p := recover(); p != nil {
				if x.PanicVal == nil {
					x.PanicVal = p
					x.PanicStk = string(debug.Stack())
					x.PanicThr = "harness-body"
				}
				x.status = Panicked
			}
		}()
		e.Body(x)
	}()
	x.teardown()
	X = nil
	cur = nil
	return x
}

// Explore enumerates all executions whose choices stay within the budget,
// ordered by preemption level (iterative context bounding: all executions
// with 0 preemptions first, then exactly 1, ...). Each execution is run
// exactly once.
func (e *Explorer) Explore() *Stats {
	st := &Stats{Schedules: map[uint64]struct{}{}, ByStatus: map[string]int64{}, CompletedP: -1}
	if e.NShards < 1 {
		e.NShards = 1
	}
	if e.ShardDepth == 0 {
		e.ShardDepth = 2
	}
	levels := make([][]task, e.Budget.MaxPreempt+1)
	levels[0] = []task{{}}
	counter := 0
	for lvl := 0; lvl <= e.Budget.MaxPreempt; lvl++ {
		var n int64
		for len(levels[lvl]) > 0 {
			if (e.TimeUp != nil && e.TimeUp()) || (e.Budget.MaxExecs > 0 && st.Execs >= e.Budget.MaxExecs) || (e.StopNow != nil && e.StopNow()) {
				st.Capped = true
				st.LevelExecs = append(st.LevelExecs, n)
				return st
			}
			q := levels[lvl]
			tk := q[len(q)-1]
			levels[lvl] = q[:len(q)-1]
			x := e.RunOnce(tk.prefix, false)
			if x.Diverged != "" {
				st.Diverged = x.Diverged
				return st
			}
			shared := tk.depth < e.ShardDepth // executed by every shard
			if !shared || e.Shard == 0 {
				st.Execs++
				n++
				st.Steps += int64(x.steps)
				st.Schedules[x.traceH] = struct{}{}
				st.ByStatus[x.status.String()]++
				if len(x.Points) > st.MaxPoints {
					st.MaxPoints = len(x.Points)
				}
				if e.After != nil {
					e.After(x)
				}
			}
			// children
			pre, dv, dl := tk.pre, tk.dv, tk.dl
			for i := len(tk.prefix); i < len(x.Points); i++ {
				p := x.Points[i]
				for alt := 1; alt < p.N; alt++ {
					cp, cd, cl := pre, dv, dl
					switch p.Kind {
					case KSched:
						if alt == p.TimerAlt {
							cd++
						} else if p.Preempt {
							cp++
						} else {
							cl++
						}
					case KDev:
						cd++
					}
					if cp > e.Budget.MaxPreempt || cd > e.Budget.MaxDev || (e.Budget.MaxDelay >= 0 && cl > e.Budget.MaxDelay) {
						continue
					}
					child := task{pre: cp, dv: cd, dl: cl, depth: tk.depth + 1}
					if child.depth == e.ShardDepth {
						mine := counter%e.NShards == e.Shard
						counter++
						if !mine {
							continue
						}
					}
					child.prefix = make([]int, i+1)
					for k := 0; k < i; k++ {
						child.prefix[k] = x.Points[k].Chosen
					}
					child.prefix[i] = alt
					levels[cp] = append(levels[cp], child)
				}
				// account for the cost of the choice actually taken at i (always the default beyond the prefix: free)
			}
		}
		st.LevelExecs = append(st.LevelExecs, n)
		st.CompletedP = lvl
	}
	return st
}

// FormatChoices renders a choice list for replay files.
func FormatChoices(x *Exec) []int {
	out := make([]int, len(x.Points))
	for i, p := range x.Points {
		out[i] = p.Chosen
	}
	// trim trailing defaults
	for len(out) > 0 && out[len(out)-1] == 0 {
		out = out[:len(out)-1]
	}
	return out
}

// Describe summarises threads (for deadlock reports).
func (x *Exec) Describe() string {
	var b strings.Builder
	for i, t := range x.threads {
		if i >= 12 {
			fmt.Fprintf(&b, "... (%d threads)", len(x.threads))
			break
		}
		fmt.Fprintf(&b, "%s(done=%v,at=%s,steps=%d) ", t.Name, t.done, t.kind, t.steps)
	}
	return b.String()
}

// MapKeys returns the keys of m in a deterministic order (the explorer owns
// map iteration order; Go randomises it).
func MapKeys[M ~map[K]V, K comparable, V any](m M) []K {
	keys := make([]K, 0, len(m))
	for k := range m {
		keys = append(keys, k)
	}
	if len(keys) < 2 {
		return keys
	}
	sort.Slice(keys, func(i, j int) bool { return keyLess(any(keys[i]), any(keys[j])) })
	return keys
}

// KeyOrder lets a harness give pointer-like keys a stable order.
var KeyOrder func(a any) (string, bool)

func keyLess(a, b any) bool {
	switch x := a.(type) {
	case string:
		return x < b.(string)
	case int:
		return x < b.(int)
	case int64:
		return x < b.(int64)
	case uint16:
		return x < b.(uint16)
	case uint32:
		return x < b.(uint32)
	case uint64:
		return x < b.(uint64)
	case int32:
		return x < b.(int32)
	}
	if KeyOrder != nil {
		if sa, ok := KeyOrder(a); ok {
			sb, _ := KeyOrder(b)
			return sa < sb
		}
	}
	if sa, ok := a.(fmt.Stringer); ok {
		return sa.String() < b.(fmt.Stringer).String()
	}
	sa, sb := fmt.Sprintf("%#v", a), fmt.Sprintf("%#v", b)
	if strings.Contains(sa, "0xc") {
		panic("vsched.MapKeys: map key of type " + fmt.Sprintf("%T", a) + " has no deterministic order; set vsched.KeyOrder")
	}
	return sa < sb
}
