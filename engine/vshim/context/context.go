// Package context: cancellation and deadlines on the virtual clock. Context is
// an alias of the real interface so values flow through untransformed code.
package context

import (
	rc "context"
	rt "time"

	"github.com/redis/rueidis/vshim/vchan"
	"github.com/redis/rueidis/vshim/vsched"
)

type (
	Context         = rc.Context
	CancelFunc      = rc.CancelFunc
	CancelCauseFunc = rc.CancelCauseFunc
)

var (
	Canceled         = rc.Canceled
	DeadlineExceeded = rc.DeadlineExceeded
)

func Background() Context { return rc.Background() }
func TODO() Context       { return rc.TODO() }

func WithValue(parent Context, key, val any) Context { return rc.WithValue(parent, key, val) }
func WithoutCancel(parent Context) Context           { return rc.WithoutCancel(parent) }

type vctx struct {
	parent   Context
	done     chan struct{}
	err      error
	cause    error
	deadline rt.Time
	hasDL    bool
	children []*vctx
	tm       *vsched.Timer
}

type vkey struct{}

func (c *vctx) Deadline() (rt.Time, bool) {
	if c.hasDL {
		return c.deadline, true
	}
	return c.parent.Deadline()
}
func (c *vctx) Done() <-chan struct{} { return c.done }

// Err reads shared cancellation state: a visible operation.
func (c *vctx) Err() error {
	if vsched.Active() {
		vsched.Point("ctx.err", nil)
	}
	return c.err
}
func (c *vctx) Value(key any) any {
	if _, ok := key.(vkey); ok {
		return c
	}
	return c.parent.Value(key)
}

func (c *vctx) cancel(err, cause error, quiet bool) {
	if c.err != nil {
		return
	}
	c.err = err
	if cause == nil {
		cause = err
	}
	c.cause = cause
	vchan.CloseQuiet(c.done)
	if c.tm != nil {
		vsched.StopTimer(c.tm)
	}
	for _, ch := range c.children {
		ch.cancel(err, cause, true)
	}
	c.children = nil
}

func newCtx(parent Context) *vctx {
	if parent == nil {
		panic("cannot create context from nil parent")
	}
	c := &vctx{parent: parent, done: make(chan struct{})}
	if p, ok := parent.Value(vkey{}).(*vctx); ok {
		if p.err != nil {
			c.cancel(p.err, p.cause, true)
		} else {
			p.children = append(p.children, c)
		}
	} else if parent.Done() != nil {
		// a real cancellable context as parent is only supported when already done
		if err := parent.Err(); err != nil {
			c.cancel(err, rc.Cause(parent), true)
		}
	}
	return c
}

func (c *vctx) userCancel(err, cause error) {
	if vsched.Aborting() {
		return
	}
	vsched.Point("ctx.cancel", nil)
	c.cancel(err, cause, false)
	if p, ok := c.parent.Value(vkey{}).(*vctx); ok {
		for i, ch := range p.children {
			if ch == c {
				p.children = append(p.children[:i:i], p.children[i+1:]...)
				break
			}
		}
	}
}

func WithCancel(parent Context) (Context, CancelFunc) {
	c := newCtx(parent)
	return c, func() { c.userCancel(Canceled, nil) }
}

func WithCancelCause(parent Context) (Context, CancelCauseFunc) {
	c := newCtx(parent)
	return c, func(cause error) { c.userCancel(Canceled, cause) }
}

func WithDeadline(parent Context, d rt.Time) (Context, CancelFunc) {
	return WithDeadlineCause(parent, d, nil)
}

func WithDeadlineCause(parent Context, d rt.Time, cause error) (Context, CancelFunc) {
	if cur, ok := parent.Deadline(); ok && cur.Before(d) {
		return WithCancel(parent)
	}
	c := newCtx(parent)
	c.deadline, c.hasDL = d, true
	if c.err == nil {
		now := rt.Unix(0, vsched.NowNS())
		dur := d.Sub(now)
		if dur <= 0 {
			c.cancel(DeadlineExceeded, cause, true)
		} else if vsched.X != nil {
			c.tm = vsched.AddTimer(dur, func() { c.cancel(DeadlineExceeded, cause, true) })
		} else {
			rt.AfterFunc(dur, func() { c.cancel(DeadlineExceeded, cause, true) })
		}
	}
	return c, func() { c.userCancel(Canceled, nil) }
}

func WithTimeout(parent Context, d rt.Duration) (Context, CancelFunc) {
	return WithDeadline(parent, rt.Unix(0, vsched.NowNS()).Add(d))
}

func WithTimeoutCause(parent Context, d rt.Duration, cause error) (Context, CancelFunc) {
	return WithDeadlineCause(parent, rt.Unix(0, vsched.NowNS()).Add(d), cause)
}

func Cause(c Context) error {
	if v, ok := c.Value(vkey{}).(*vctx); ok {
		if vsched.Active() {
			vsched.Point("ctx.cause", nil)
		}
		return v.cause
	}
	return rc.Cause(c)
}

func AfterFunc(ctx Context, f func()) (stop func() bool) {
	stopped := false
	ran := false
	vsched.GoDaemon("ctx.afterfunc", func() {
		vchan.Recv(ctx.Done())
		if !stopped {
			ran = true
			f()
		}
	})
	return func() bool {
		if ran || stopped {
			return false
		}
		stopped = true
		return true
	}
}
