// Package vexp connects the vsched explorer with vrun reporting: it runs one
// "program" (a harness body) over all schedules within its budget, feeds
// coverage counters, checks replay determinism and records violations with a
// replayable choice list.
package vexp

import (
	"encoding/json"
	"fmt"
	"strings"
	"time"

	"github.com/redis/rueidis/vshim/vrun"
	"github.com/redis/rueidis/vshim/vsched"
)

type Prog struct {
	Name   string
	Opts   vsched.Options
	Budget vsched.Budget
	Body   func(x *vsched.Exec)
	// AllowDeadlock etc: by default a deadlock, horizon hit or panic of a managed thread is a violation
	// of the program (signature "<name>: deadlock" ...) unless the body already recorded a failure
	// or sets x.SetData("allow", "deadlock,horizon").
	ShardDepth int
	NoShard    bool    // the harness distributes whole programs over the shards itself (r.Mine): explore this program completely in this process
	Delay      int     // bound on non-default choices at non-preemptive switch points; 0 = unlimited, n>0 = at most n, -1 = none allowed
	Seconds    float64 // wall-clock share of this program (0 = whatever is left of the run budget)
}

type replay struct {
	Prog    string `json:"prog"`
	Choices []int  `json:"choices"`
}

func classify(p *Prog, x *vsched.Exec) (sig, detail string) {
	if x.Diverged != "" {
		return "", ""
	}
	allow, _ := x.Data("allow").(string)
	if x.FailSig != "" {
		return x.FailSig, x.FailMsg
	}
	switch x.Status() {
	case vsched.Deadlock:
		if !strings.Contains(allow, "deadlock") {
			return "deadlock", fmt.Sprintf("required threads blocked forever: %v; threads: %s", x.Blocked(), x.Describe())
		}
	case vsched.Horizon:
		if !strings.Contains(allow, "horizon") {
			return "livelock/horizon", fmt.Sprintf("execution did not finish within %d steps; threads: %s", x.Opts.Horizon, x.Describe())
		}
	case vsched.Panicked:
		if !strings.Contains(allow, "panic") {
			return "panic in " + vrun.PanicSite(x.PanicStk), fmt.Sprintf("thread %s panicked: %v\n%s", x.PanicThr, x.PanicVal, trimStack(x.PanicStk))
		}
	}
	return "", ""
}

func trimStack(s string) string {
	l := strings.Split(s, "\n")
	if len(l) > 40 {
		l = l[:40]
	}
	return strings.Join(l, "\n")
}

// Run explores p and reports into r. It returns the explorer statistics.
func Run(r *vrun.Run, p Prog) *vsched.Stats {
	switch {
	case p.Delay == 0:
		p.Budget.MaxDelay = -1
	case p.Delay < 0:
		p.Budget.MaxDelay = 0
	default:
		p.Budget.MaxDelay = p.Delay
	}
	e := &vsched.Explorer{Opts: p.Opts, Budget: p.Budget, Body: p.Body, Shard: r.Shard, NShards: r.NShards, ShardDepth: p.ShardDepth}
	if p.NoShard {
		e.Shard, e.NShards = 0, 1
	}
	var deadline time.Time
	if p.Seconds > 0 {
		deadline = time.Now().Add(time.Duration(p.Seconds * float64(time.Second)))
	}
	e.TimeUp = func() bool {
		if !deadline.IsZero() && time.Now().After(deadline) {
			return true
		}
		return r.TimeUp()
	}
	if raw, ok := r.ReplayPayload(); ok {
		var rp replay
		if err := json.Unmarshal(raw, &rp); err != nil || rp.Prog != p.Name {
			return nil
		}
		x := e.RunOnce(rp.Choices, true)
		r.Evaluations++
		if x.Diverged != "" {
			r.MachineryError = "replay diverged: " + x.Diverged
			return nil
		}
		if sig, detail := classify(&p, x); sig != "" {
			r.Violate(p.Name+": "+sig, detail+"\ntrace:\n  "+strings.Join(x.Trace, "\n  ")+"\nlog:\n  "+strings.Join(x.Log, "\n  "), rp)
		}
		return nil
	}
	checked := 0
	e.After = func(x *vsched.Exec) {
		r.Evaluations++
		r.Transitions += int64(x.Steps())
		h := x.TraceHash() ^ vrun.Hash(p.Name)
		if r.State(h) && (x.Blocks > 0 || p.NoShard) {
			r.NonTrivial(h)
		}
		if x.Outcome != "" {
			r.Outcome(p.Name + ": " + x.Outcome)
		} else {
			r.Outcome(p.Name + ": " + x.Status().String())
		}
		if checked < 20 {
			// determinism guard: the same choice list must give the same schedule and observations
			checked++
			ch := vsched.FormatChoices(x)
			y := e.RunOnce(ch, false)
			if y.TraceHash() != x.TraceHash() || strings.Join(y.Log, "|") != strings.Join(x.Log, "|") || y.FailSig != x.FailSig {
				r.MachineryError = fmt.Sprintf("%s: replaying choices %v gave a different execution (nondeterminism not owned by the harness)", p.Name, ch)
			}
		}
		if sig, detail := classify(&p, x); sig != "" {
			ch := vsched.FormatChoices(x)
			if r.NumViolations() < 50 {
				y := e.RunOnce(ch, true)
				detail += "\nchoices: " + fmt.Sprint(ch) + "\ntrace:\n  " + strings.Join(y.Trace, "\n  ") + "\nlog:\n  " + strings.Join(y.Log, "\n  ")
			}
			r.Violate(p.Name+": "+sig, detail, replay{Prog: p.Name, Choices: ch})
		}
		if r.WantSample() && (x.Blocks > 0 || p.NoShard) {
			r.Sample(map[string]any{"prog": p.Name, "choices": vsched.FormatChoices(x), "status": x.Status().String(), "steps": x.Steps(), "outcome": x.Outcome, "log": x.Log})
		}
	}
	e.StopNow = func() bool { return r.MachineryError != "" }
	st := e.Explore()
	if st.Diverged != "" {
		r.MachineryError = p.Name + ": " + st.Diverged
	}
	if st.Capped {
		r.Cap(fmt.Sprintf("%s: stopped after %d executions; preemption bound fully explored: %d", p.Name, st.Execs, st.CompletedP))
	}
	b, _ := r.Bounds["programs"].(map[string]any)
	if b == nil {
		b = map[string]any{}
		r.Bounds["programs"] = b
	}
	b[p.Name] = map[string]any{"max_preemptions": p.Budget.MaxPreempt, "max_deviations": p.Budget.MaxDev, "max_delays(-1=unbounded)": p.Budget.MaxDelay, "completed_preemption_bound": st.CompletedP, "executions": st.Execs, "executions_per_level": st.LevelExecs, "max_choice_points": st.MaxPoints}
	return st
}
