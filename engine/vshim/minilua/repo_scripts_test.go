package minilua

import (
	"errors"
	"fmt"
	"sort"
	"strconv"
	"strings"
	"testing"
)

// The Lua scripts below are verbatim copies of the scripts embedded in the
// redis/rueidis repository (the test must not read /repo at run time).
var repoScripts = map[string]string{
	// rueidisaside/aside.go
	"aside.delkey":      `if redis.call("GET",KEYS[1]) == ARGV[1] then return redis.call("DEL",KEYS[1]) else return 0 end`,
	"aside.setkey":      `if redis.call("GET",KEYS[1]) == ARGV[1] then return redis.call("SET",KEYS[1],ARGV[2],"PX",ARGV[3]) else return 0 end`,
	"aside.acquireLock": `if redis.call("SET", KEYS[1], ARGV[1], "NX", "PX", ARGV[2]) then return nil else return redis.call("GET", KEYS[1]) end`,
	// rueidislock/lock.go
	"lock.delkey": `if redis.call("GET",KEYS[1]) == ARGV[1] then return redis.call("DEL",KEYS[1]) end;return 0`,
	"lock.extend": `if redis.call("GET",KEYS[1]) == ARGV[1] then local r = redis.call("PEXPIREAT",KEYS[1],ARGV[2]);redis.call("GET",KEYS[1]);return r end;return 0`,
	"lock.acqms":  `local r = redis.call("SET",KEYS[1],ARGV[1],"NX","PX",ARGV[2]);redis.call("GET",KEYS[1]);return r`,
	"lock.acqat":  `local r = redis.call("SET",KEYS[1],ARGV[1],"NX","PXAT",ARGV[2]);redis.call("GET",KEYS[1]);return r`,
	"lock.fcqms":  `local r = redis.call("SET",KEYS[1],ARGV[1],"PX",ARGV[2]);redis.call("GET",KEYS[1]);return r`,
	"lock.fcqat":  `local r = redis.call("SET",KEYS[1],ARGV[1],"PXAT",ARGV[2]);redis.call("GET",KEYS[1]);return r`,
	// rueidislimiter/limiter.go
	"limiter.rateLimit": `
local rate_limit_key = KEYS[1]
local increment_amount = tonumber(ARGV[1])
local next_expires_at = tonumber(ARGV[2])
local current_time = tonumber(ARGV[3])
local expires_at_key = KEYS[2]
local expires_at = tonumber(redis.call("get", expires_at_key))
if not expires_at or expires_at < current_time then
  redis.call("set", rate_limit_key, 0, "pxat", next_expires_at + 1000)
  redis.call("set", expires_at_key, next_expires_at, "pxat", next_expires_at + 1000)
  expires_at = next_expires_at
end
local current = redis.call("incrby", rate_limit_key, increment_amount)
return { current, expires_at }
`,
	// om/json.go
	"om.jsonSave": `
if (ARGV[1] == '')
then
  redis.call('JSON.SET',KEYS[1],'$',ARGV[3])
  if #ARGV == 4 then redis.call('PEXPIREAT',KEYS[1],ARGV[4]) end
  return ARGV[2]
end
local v = redis.call('JSON.GET',KEYS[1],ARGV[1])
if (not v or v == ARGV[2])
then
  redis.call('JSON.SET',KEYS[1],'$',ARGV[3])
  local v = redis.call('JSON.NUMINCRBY',KEYS[1],ARGV[1],1)
  if #ARGV == 4 then redis.call('PEXPIREAT',KEYS[1],ARGV[4]) end
  return v
end
return nil
`,
	// om/hash.go
	"om.hashSave": `
if (ARGV[1] == '')
then
  local e = (#ARGV % 2 == 1) and table.remove(ARGV) or nil
  if redis.call('HSET',KEYS[1],unpack(ARGV))
  then
    if e then redis.call('PEXPIREAT',KEYS[1],e) end
  end
  return ARGV[2]
end
local v = redis.call('HGET',KEYS[1],ARGV[1])
if (not v or v == ARGV[2])
then
  ARGV[2] = tostring(tonumber(ARGV[2])+1)
  local e = (#ARGV % 2 == 1) and table.remove(ARGV) or nil
  if redis.call('HSET',KEYS[1],unpack(ARGV))
  then
    if e then redis.call('PEXPIREAT',KEYS[1],e) end
    return ARGV[2]
  end
end
return nil
`,
	// rueidisprob/bloomfilter.go
	"bloom.addMulti": `
local hashIterations = tonumber(ARGV[1])
local numElements = tonumber(#ARGV) - 1
local filterKey = KEYS[1]
local counterKey = KEYS[2]

local counter = 0
local oneBits = 0
for i=1, numElements do
	local bitset = redis.call('BITFIELD', filterKey, 'SET', 'u1', ARGV[i+1], '1')

	oneBits = oneBits + bitset[1]
	if i % hashIterations == 0 then
		if oneBits ~= hashIterations then
			counter = counter + 1
		end

		oneBits = 0
	end
end

return redis.call('INCRBY', counterKey, counter)
`,
	"bloom.existsMulti": `
local hashIterations = tonumber(ARGV[1])
local numElements = tonumber(#ARGV) - 1
local filterKey = KEYS[1]

local result = {}
local oneBits = 0
for i=1, numElements do
	local index = tonumber(ARGV[i+1])
	local bitset = redis.call('BITFIELD', filterKey, 'GET', 'u1', index)

	oneBits = oneBits + bitset[1]
	if i % hashIterations == 0 then
		table.insert(result, oneBits == hashIterations)

		oneBits = 0
	end
end

return result
`,
	"bloom.existsMultiReadOnly": `
local hashIterations = tonumber(ARGV[1])
local numElements = tonumber(#ARGV) - 1
local filterKey = KEYS[1]

local result = {}
local oneBits = 0
for i=1, numElements do
	local index = tonumber(ARGV[i+1])
	local bitset = redis.call('BITFIELD_RO', filterKey, 'GET', 'u1', index)

	oneBits = oneBits + bitset[1]
	if i % hashIterations == 0 then
		table.insert(result, oneBits == hashIterations)

		oneBits = 0
	end
end

return result
`,
	"bloom.reset": `
local filterKey = KEYS[1]
local counterKey = KEYS[2]

redis.call('SET', filterKey, "")
redis.call('SET', counterKey, 0)

return 1
`,
	"bloom.delete": `
local filterKey = KEYS[1]
local counterKey = KEYS[2]

redis.call('DEL', filterKey)
redis.call('DEL', counterKey)

return 1
`,
	// rueidisprob/countingbloomfilter.go
	"cbloom.addMulti": `
local itemCount = tonumber(ARGV[1])
local numElements = tonumber(#ARGV) - 1
local filterKey = KEYS[1]
local counterKey = KEYS[2]

for i=2, numElements+1 do
    redis.call('HINCRBY', filterKey, ARGV[i], 1)
end

return redis.call('INCRBY', counterKey, itemCount)
`,
	"cbloom.removeMulti": `
local function MergeTables(t1, t2)
	for i=1, #t2 do
		table.insert(t1, t2[i])
	end

	return t1
end

local numElements = tonumber(#ARGV) - 1
local hashIterations = tonumber(ARGV[#ARGV])
local filterKey = KEYS[1]
local counterKey = KEYS[2]

local indexCounter = {}
for i=1, numElements do
	local index = ARGV[i]
	local count = redis.call('HGET', filterKey, index)

	if (not indexCounter[index]) then
		if (not count) then
			indexCounter[index] = 0
		else
			indexCounter[index] = tonumber(count)
		end
	end
end

local decreaseIndexes = {}
local deleteItemCount = 0
for i=1, numElements, hashIterations do
	local isAbleToRemove = true
	local temp = {}
	local rollbackIndex = i

	for j=i, i+hashIterations-1 do
		local index = ARGV[j]

		table.insert(temp, index)
		indexCounter[index] = indexCounter[index] - 1
		
		if indexCounter[index] < 0 then
			isAbleToRemove = false
			rollbackIndex = j
			break
		end
	end

	if isAbleToRemove then
		decreaseIndexes = MergeTables(decreaseIndexes, temp)
		deleteItemCount = deleteItemCount + 1
	else
		for j=i, rollbackIndex do
			local index = ARGV[j]
			
			indexCounter[index] = indexCounter[index] + 1
		end
	end
end

for i=1, #decreaseIndexes do
    redis.call('HINCRBY', filterKey, decreaseIndexes[i], -1)
end

return redis.call('DECRBY', counterKey, deleteItemCount)
`,
	"cbloom.delete": `
local filterKey = KEYS[1]
local counterKey = KEYS[2]

redis.call('DEL', filterKey)
redis.call('DEL', counterKey)

return 1
`,
	// rueidisprob/slidingbloomfilter.go
	"sbloom.initialize": `
local filterKey = KEYS[1]
local nextFilterKey = KEYS[2]
local counterKey = KEYS[3]
local nextCounterKey = KEYS[4]
local lastRotationKey = KEYS[5]
local windowHalf = tonumber(ARGV[1])

if redis.call('EXISTS', filterKey, nextFilterKey, counterKey, nextCounterKey, lastRotationKey) == 0 then
	local time = redis.call('TIME')
	local current_time = tonumber(time[1]) * 1000 + math.floor(tonumber(time[2]) / 1000)

	redis.call('MSET', filterKey, "", counterKey, 0, nextFilterKey, "", nextCounterKey, 0)
	redis.call('SET', lastRotationKey, tostring(current_time), 'PX', windowHalf, 'NX')
end

return 1
`,
	"sbloom.addMulti": `
local hashIterations = tonumber(ARGV[1])
local windowHalf = tonumber(ARGV[2])
local numElements = tonumber(#ARGV) - 2

local filterKey = KEYS[1]
local nextFilterKey = KEYS[2]
local counterKey = KEYS[3]
local nextCounterKey = KEYS[4]
local lastRotationKey = KEYS[5]

local time = redis.call('TIME')
local current_time = tonumber(time[1]) * 1000 + math.floor(tonumber(time[2])/1000)
local acquiredLock = redis.call('SET', lastRotationKey, tostring(current_time), 'PX', windowHalf, 'NX')

if acquiredLock then
	redis.call('RENAME', nextFilterKey, filterKey)
	redis.call('RENAME', nextCounterKey, counterKey)
	redis.call('SET', nextFilterKey, "")
	redis.call('SET', nextCounterKey, 0)
end

local counter = 0
local oneBits = 0
for i=1, numElements do
	local bitset = redis.call('BITFIELD', filterKey, 'SET', 'u1', ARGV[i+2], '1')
	redis.call('BITFIELD', nextFilterKey, 'SET', 'u1', ARGV[i+2], '1')

	oneBits = oneBits + bitset[1]
	if i % hashIterations == 0 then
		if oneBits ~= hashIterations then
			counter = counter + 1
		end

		oneBits = 0
	end
end

redis.call('INCRBY', nextCounterKey, counter)
return redis.call('INCRBY', counterKey, counter)
`,
	"sbloom.existsMulti": `
local hashIterations = tonumber(ARGV[1])
local windowHalf = tonumber(ARGV[2])
local numElements = tonumber(#ARGV) - 2

local filterKey = KEYS[1]
local nextFilterKey = KEYS[2]
local counterKey = KEYS[3]
local nextCounterKey = KEYS[4]
local lastRotationKey = KEYS[5]

local time = redis.call('TIME')
local current_time = tonumber(time[1]) * 1000 + math.floor(tonumber(time[2])/1000)
local acquiredLock = redis.call('SET', lastRotationKey, tostring(current_time), 'PX', windowHalf, 'NX')

if acquiredLock then
	redis.call('RENAME', nextFilterKey, filterKey)
	redis.call('RENAME', nextCounterKey, counterKey)
	redis.call('SET', nextFilterKey, "")
	redis.call('SET', nextCounterKey, 0)
end

local result = {}
local oneBits = 0
for i=1, numElements do
	local index = tonumber(ARGV[i+2])
	local bitset = redis.call('BITFIELD', filterKey, 'GET', 'u1', index)

	oneBits = oneBits + bitset[1]
	if i % hashIterations == 0 then
		table.insert(result, oneBits == hashIterations)

		oneBits = 0
	end
end

return result
`,
	"sbloom.existsReadOnlyMulti": `
local hashIterations = tonumber(ARGV[1])
local windowHalf = tonumber(ARGV[2])
local numElements = tonumber(#ARGV) - 2

local filterKey = KEYS[1]
local nextFilterKey = KEYS[2]
local counterKey = KEYS[3]
local nextCounterKey = KEYS[4]
local lastRotationKey = KEYS[5]

local time = redis.call('TIME')
local current_time = tonumber(time[1]) * 1000 + math.floor(tonumber(time[2])/1000)
local acquiredLock = redis.call('SET', lastRotationKey, tostring(current_time), 'PX', windowHalf, 'NX')

if acquiredLock then
	redis.call('RENAME', nextFilterKey, filterKey)
	redis.call('RENAME', nextCounterKey, counterKey)
	redis.call('SET', nextFilterKey, "")
	redis.call('SET', nextCounterKey, 0)
end

local result = {}
local oneBits = 0
for i=1, numElements do
	local index = tonumber(ARGV[i+2])
	local bitset = redis.call('BITFIELD_RO', filterKey, 'GET', 'u1', index)

	oneBits = oneBits + bitset[1]
	if i % hashIterations == 0 then
		table.insert(result, oneBits == hashIterations)

		oneBits = 0
	end
end

return result
`,
	"sbloom.reset": `
local filterKey = KEYS[1]
local nextFilterKey = KEYS[2]
local counterKey = KEYS[3]
local nextCounterKey = KEYS[4]

redis.call('RENAME', nextFilterKey, filterKey)
redis.call('RENAME', nextCounterKey, counterKey)
redis.call('SET', nextFilterKey, "")
redis.call('SET', nextCounterKey, 0)
`,
	// rueidiscompat/script_test.go
	"compat.IncrByXX": `
		if redis.call("GET", KEYS[1]) ~= false then
			return redis.call("INCRBY", KEYS[1], ARGV[1])
		end
		return false
	`,
	// redis_test.go, lua_test.go, rueidiscompat/adapter_test.go, rueidiscompatmock
	"test.keysargv":  "return {KEYS[1],ARGV[1]}",
	"test.keysargv2": "return {KEYS[1],KEYS[2],ARGV[1],ARGV[2]}",
	"test.errtable":  `return {12, {err="error"}, "abc"}`,
	"test.one":       "return 1",
	"test.key":       "return KEYS[1]",
	"test.nil":       "return nil",
	// lua_test.go benchmarks
	"test.benchmark": `
		local sum = 0
		local results = {}

		-- Read multiple keys and perform calculations
		for i = 1, #KEYS do
			local val = redis.call('GET', KEYS[i])
			if val then
				local num = tonumber(val)
				if num then
					sum = sum + num
					table.insert(results, tostring(num * 2))
				else
					table.insert(results, val)
				end
			end
		end

		-- Apply some math operations
		local multiplier = tonumber(ARGV[1]) or 1
		local threshold = tonumber(ARGV[2]) or 100
		local final_result = math.floor(sum * multiplier)

		-- Conditional logic
		if final_result > threshold then
			table.insert(results, 'high:' .. tostring(final_result))
		else
			table.insert(results, 'low:' .. tostring(final_result))
		end

		return results
	`,
	// rueidiscompat/adapter_test.go function libraries (after fmt.Sprintf substitution)
	"lib.lib1": `#!lua name=mylib1

                     local function f1(keys, args)
                        local hash = keys[1]  -- Get the key name
                        local time = redis.call('TIME')[1]  -- Get the current time from the Redis server

                        -- Add the current timestamp to the arguments that the user passed to the function, stored in args
                        table.insert(args, '_updated_at')
                        table.insert(args, time)

                        -- Run HSET with the updated argument list
                        return redis.call('HSET', hash, unpack(args))
                     end

					redis.register_function{
						function_name='lib1_func1',
						description ='This is the func-1 of lib 1',
						callback=f1,
						flags={'allow-oom', 'allow-stale'}
					}`,
	"lib.lib2": `#!lua name=mylib2

					local function f1(keys, args)
						 return 'Function 1'
					end

					local function f2(keys, args)
						 return 'Function 2'
					end

					redis.register_function('lib2_func1', f1)
					redis.register_function{
						function_name='lib2_func2',
						description ='This is the func-2 of lib 2',
						callback=f2,
						flags={'no-writes'}
					}`,
	"lib.loop": `#!lua name=mylib3
					local function f1(keys, args)
						local i = 0
					   	while true do
							i = i + 1
					   	end
					end

					redis.register_function{
						function_name='lib3_func1',
						description ='endless',
						callback=f1,
						flags={'no-writes'}
					}`,
}

// fakeRedis is a tiny in-memory stand-in for redis.call.
type fakeRedis struct {
	kv     map[string]string
	hashes map[string]map[string]string
	bits   map[string]map[string]bool
	funcs  map[string]any
	log    []string
}

func newFakeRedis() *fakeRedis {
	return &fakeRedis{kv: map[string]string{}, hashes: map[string]map[string]string{}, bits: map[string]map[string]bool{}, funcs: map[string]any{}}
}

func status(s string) *Table { t := NewTable(); t.Set("ok", s); return t }

func (r *fakeRedis) call(args []any) ([]any, error) {
	a := make([]string, len(args))
	for i, v := range args {
		s, ok := toStringCoerce(v)
		if !ok {
			return nil, fmt.Errorf("Lua redis lib command arguments must be strings or integers (arg %d is %s)", i+1, typeName(v))
		}
		a[i] = s
	}
	r.log = append(r.log, strings.Join(a, " "))
	incr := func(m map[string]string, k string, by string) (any, error) {
		cur, _ := strconv.ParseInt(m[k], 10, 64)
		d, err := strconv.ParseInt(by, 10, 64)
		if err != nil {
			return nil, errors.New("ERR value is not an integer or out of range")
		}
		m[k] = strconv.FormatInt(cur+d, 10)
		return float64(cur + d), nil
	}
	one := func(v any, err error) ([]any, error) {
		if err != nil {
			return nil, err
		}
		return []any{v}, nil
	}
	switch strings.ToUpper(a[0]) {
	case "GET":
		if v, ok := r.kv[a[1]]; ok {
			return []any{v}, nil
		}
		return []any{false}, nil
	case "SET":
		for _, opt := range a[3:] {
			if _, exists := r.kv[a[1]]; exists && strings.EqualFold(opt, "NX") {
				return []any{false}, nil
			}
		}
		r.kv[a[1]] = a[2]
		return []any{status("OK")}, nil
	case "MSET":
		for i := 1; i+1 < len(a); i += 2 {
			r.kv[a[i]] = a[i+1]
		}
		return []any{status("OK")}, nil
	case "DEL", "EXISTS":
		n := 0
		for _, k := range a[1:] {
			_, ok1 := r.kv[k]
			_, ok2 := r.hashes[k]
			_, ok3 := r.bits[k]
			if ok1 || ok2 || ok3 {
				n++
			}
			if a[0] == "DEL" {
				delete(r.kv, k)
				delete(r.hashes, k)
				delete(r.bits, k)
			}
		}
		return []any{float64(n)}, nil
	case "RENAME":
		v, ok := r.kv[a[1]]
		if !ok {
			return nil, errors.New("ERR no such key")
		}
		delete(r.kv, a[1])
		r.kv[a[2]] = v
		r.bits[a[2]] = r.bits[a[1]]
		delete(r.bits, a[1])
		return []any{status("OK")}, nil
	case "INCRBY":
		return one(incr(r.kv, a[1], a[2]))
	case "DECRBY":
		return one(incr(r.kv, a[1], "-"+a[2]))
	case "PEXPIREAT":
		if _, ok := r.kv[a[1]]; ok {
			return []any{1.0}, nil
		}
		if _, ok := r.hashes[a[1]]; ok {
			return []any{1.0}, nil
		}
		return []any{0.0}, nil
	case "TIME":
		return []any{NewArray("1700000000", "123456")}, nil
	case "BITFIELD", "BITFIELD_RO":
		if r.bits[a[1]] == nil {
			r.bits[a[1]] = map[string]bool{}
		}
		old := 0.0
		if r.bits[a[1]][a[4]] {
			old = 1
		}
		if a[2] == "SET" {
			r.bits[a[1]][a[4]] = a[5] == "1"
			if _, ok := r.kv[a[1]]; !ok {
				r.kv[a[1]] = ""
			}
		}
		return []any{NewArray(old)}, nil
	case "HGET":
		if v, ok := r.hashes[a[1]][a[2]]; ok {
			return []any{v}, nil
		}
		return []any{false}, nil
	case "HSET":
		if len(a) < 4 || len(a)%2 != 0 {
			return nil, errors.New("ERR wrong number of arguments for 'hset' command")
		}
		if r.hashes[a[1]] == nil {
			r.hashes[a[1]] = map[string]string{}
		}
		n := 0
		for i := 2; i+1 < len(a); i += 2 {
			if _, ok := r.hashes[a[1]][a[i]]; !ok {
				n++
			}
			r.hashes[a[1]][a[i]] = a[i+1]
		}
		return []any{float64(n)}, nil
	case "HINCRBY":
		if r.hashes[a[1]] == nil {
			r.hashes[a[1]] = map[string]string{}
		}
		return one(incr(r.hashes[a[1]], a[2], a[3]))
	case "JSON.SET":
		r.kv[a[1]] = a[3]
		return []any{status("OK")}, nil
	case "JSON.GET":
		if _, ok := r.kv[a[1]]; !ok {
			return []any{false}, nil
		}
		return []any{r.kv[a[1]+"|ver"]}, nil
	case "JSON.NUMINCRBY":
		v, _ := strconv.Atoi(strings.Trim(r.kv[a[1]+"|ver"], "[]"))
		r.kv[a[1]+"|ver"] = fmt.Sprintf("[%d]", v+1)
		return []any{r.kv[a[1]+"|ver"]}, nil
	}
	return nil, fmt.Errorf("ERR unknown command '%s'", a[0])
}

func (r *fakeRedis) env() *Env {
	env := NewEnv()
	env.MaxSteps = 200000
	redis := NewTable()
	redis.Set("call", GoFunc(r.call))
	redis.Set("pcall", GoFunc(func(args []any) ([]any, error) {
		rets, err := r.call(args)
		if err != nil {
			et := NewTable()
			et.Set("err", err.Error())
			return []any{et}, nil
		}
		return rets, nil
	}))
	redis.Set("register_function", GoFunc(func(args []any) ([]any, error) {
		if t, ok := args[0].(*Table); ok && len(args) == 1 {
			name, _ := t.Get("function_name").(string)
			if name == "" || t.Get("callback") == nil {
				return nil, errors.New("ERR bad register_function arguments")
			}
			r.funcs[name] = t.Get("callback")
			return nil, nil
		}
		name, ok := args[0].(string)
		if !ok || len(args) != 2 {
			return nil, errors.New("ERR bad register_function arguments")
		}
		r.funcs[name] = args[1]
		return nil, nil
	}))
	env.Globals.Set("redis", redis)
	return env
}

// eval runs a repo script like EVAL would: fresh KEYS / ARGV tables of strings.
func (r *fakeRedis) eval(t *testing.T, name string, keys []string, argv ...string) string {
	t.Helper()
	src, ok := repoScripts[name]
	if !ok {
		t.Fatalf("no such script %s", name)
	}
	c, err := Compile(src)
	if err != nil {
		t.Fatalf("%s: compile: %v", name, err)
	}
	env := r.env()
	env.Globals.Set("KEYS", keys)
	env.Globals.Set("ARGV", argv)
	rets, err := c.Run(env)
	if err != nil {
		return "ERR:" + err.Error()
	}
	return reprList(rets)
}

func TestRepoScriptsCompile(t *testing.T) {
	names := make([]string, 0, len(repoScripts))
	for n := range repoScripts {
		names = append(names, n)
	}
	sort.Strings(names)
	for _, n := range names {
		c, err := Compile(repoScripts[n])
		if err != nil || c == nil {
			t.Errorf("%s does not compile: %v", n, err)
		}
	}
	if len(names) < 35 {
		t.Fatalf("expected all repo scripts, have %d", len(names))
	}
}

func TestRepoScriptsRun(t *testing.T) {
	expect := func(got, want string) {
		t.Helper()
		if got != want {
			t.Fatalf("\n got: %s\nwant: %s", got, want)
		}
	}
	k := []string{"key"}

	// rueidisaside
	r := newFakeRedis()
	expect(r.eval(t, "aside.acquireLock", k, "id1", "1000"), `nil`)
	expect(r.eval(t, "aside.acquireLock", k, "id2", "1000"), `"id1"`)
	expect(r.eval(t, "aside.setkey", k, "id2", "value", "5000"), `0`)
	expect(r.eval(t, "aside.setkey", k, "id1", "value", "5000"), `{ok="OK"}`)
	expect(r.eval(t, "aside.delkey", k, "id1"), `0`)
	expect(r.eval(t, "aside.delkey", k, "value"), `1`)
	expect(r.eval(t, "aside.delkey", k, "value"), `0`)
	expect(r.log[len(r.log)-1], "GET key")

	// rueidislock
	r = newFakeRedis()
	expect(r.eval(t, "lock.acqms", k, "v1", "1000"), `{ok="OK"}`)
	expect(r.eval(t, "lock.acqms", k, "v2", "1000"), `false`)
	expect(r.eval(t, "lock.acqat", k, "v2", "1700000000000"), `false`)
	expect(r.eval(t, "lock.extend", k, "v2", "1700000000000"), `0`)
	expect(r.eval(t, "lock.extend", k, "v1", "1700000000000"), `1`)
	expect(r.eval(t, "lock.fcqms", k, "v3", "1000"), `{ok="OK"}`)
	expect(r.eval(t, "lock.fcqat", k, "v4", "1700000000000"), `{ok="OK"}`)
	expect(r.eval(t, "lock.delkey", k, "v3"), `0`)
	expect(r.eval(t, "lock.delkey", k, "v4"), `1`)
	expect(r.eval(t, "lock.acqat", k, "v5", "1700000000000"), `{ok="OK"}`)
	expect(strings.Join(r.log[len(r.log)-2:], "; "), "SET key v5 NX PXAT 1700000000000; GET key")

	// rueidislimiter
	r = newFakeRedis()
	lk := []string{"rl", "rl:exp"}
	expect(r.eval(t, "limiter.rateLimit", lk, "1", "1700000060000", "1700000000000"), `{1, 1700000060000}`)
	expect(r.log[1], "set rl 0 pxat 1700000061000")
	expect(r.eval(t, "limiter.rateLimit", lk, "2", "1700000090000", "1700000030000"), `{3, 1700000060000}`)
	expect(r.eval(t, "limiter.rateLimit", lk, "0", "1700000190000", "1700000130000"), `{0, 1700000190000}`)

	// om json
	r = newFakeRedis()
	expect(r.eval(t, "om.jsonSave", k, "", "0", `{"ver":0}`), `"0"`)
	expect(r.eval(t, "om.jsonSave", k, "", "0", `{"ver":0}`, "1700000000000"), `"0"`)
	expect(r.log[len(r.log)-1], "PEXPIREAT key 1700000000000")
	r.kv["key|ver"] = "[3]"
	expect(r.eval(t, "om.jsonSave", k, "$.ver", "[3]", `{"ver":3}`), `"[4]"`)
	expect(r.eval(t, "om.jsonSave", k, "$.ver", "[3]", `{"ver":3}`), `nil`)
	expect(r.eval(t, "om.jsonSave", []string{"other"}, "$.ver", "[9]", `{"ver":9}`, "1700000000000"), `"[1]"`)

	// om hash
	r = newFakeRedis()
	expect(r.eval(t, "om.hashSave", k, "", "0", "f1", "v1"), `"0"`)
	expect(r.log[0], "HSET key  0 f1 v1")
	expect(r.eval(t, "om.hashSave", k, "", "0", "f1", "v1", "1700000000000"), `"0"`)
	expect(strings.Join(r.log[len(r.log)-2:], "; "), "HSET key  0 f1 v1; PEXPIREAT key 1700000000000")
	r = newFakeRedis()
	expect(r.eval(t, "om.hashSave", k, "Ver", "1", "f1", "v1"), `"2"`)
	expect(r.log[1], "HSET key Ver 2 f1 v1")
	expect(r.eval(t, "om.hashSave", k, "Ver", "1", "f1", "v1"), `nil`)
	expect(r.eval(t, "om.hashSave", k, "Ver", "2", "f1", "v2", "1700000000000"), `"3"`)
	expect(strings.Join(r.log[len(r.log)-2:], "; "), "HSET key Ver 3 f1 v2; PEXPIREAT key 1700000000000")

	// rueidisprob bloom filter (2 hash iterations per element)
	r = newFakeRedis()
	bk := []string{"bf", "bf:c"}
	expect(r.eval(t, "bloom.addMulti", bk, "2", "10", "20", "30", "40"), `2`)
	expect(r.eval(t, "bloom.addMulti", bk, "2", "10", "20", "30", "50"), `3`)
	expect(r.eval(t, "bloom.existsMulti", bk[:1], "2", "10", "20", "30", "99", "98", "97"), `{true, false, false}`)
	expect(r.eval(t, "bloom.existsMultiReadOnly", bk[:1], "2", "40", "50"), `{true}`)
	expect(r.log[len(r.log)-1], "BITFIELD_RO bf GET u1 50")
	expect(r.eval(t, "bloom.existsMulti", bk[:1], "2"), `{}`)
	expect(r.eval(t, "bloom.reset", bk), `1`)
	expect(r.kv["bf:c"], "0")
	expect(r.eval(t, "bloom.delete", bk), `1`)
	if len(r.kv) != 0 {
		t.Fatalf("delete left keys: %v", r.kv)
	}

	// counting bloom filter
	r = newFakeRedis()
	ck := []string{"cbf", "cbf:c"}
	expect(r.eval(t, "cbloom.addMulti", ck, "2", "1", "2", "3", "4"), `2`)
	expect(r.eval(t, "cbloom.addMulti", ck, "1", "1", "2"), `3`)
	expect(fmt.Sprint(r.hashes["cbf"]), "map[1:2 2:2 3:1 4:1]")
	// remove {1,2} (ok), {3,9} (9 missing -> rolled back), {3,4} (ok); last ARGV is hashIterations
	expect(r.eval(t, "cbloom.removeMulti", ck, "1", "2", "3", "9", "3", "4", "2"), `1`)
	expect(fmt.Sprint(r.hashes["cbf"]), "map[1:1 2:1 3:0 4:0]")
	expect(r.eval(t, "cbloom.removeMulti", ck, "1", "2", "1", "2", "2"), `0`)
	expect(fmt.Sprint(r.hashes["cbf"]), "map[1:0 2:0 3:0 4:0]")
	expect(r.eval(t, "cbloom.delete", ck), `1`)

	// sliding bloom filter
	r = newFakeRedis()
	sk := []string{"sbf", "sbf:n", "sbf:c", "sbf:nc", "sbf:lr"}
	expect(r.eval(t, "sbloom.initialize", sk, "5000"), `1`)
	expect(r.kv["sbf:lr"], "1700000000123")
	expect(r.eval(t, "sbloom.initialize", sk, "5000"), `1`)
	expect(r.log[len(r.log)-1], "EXISTS sbf sbf:n sbf:c sbf:nc sbf:lr")
	expect(r.eval(t, "sbloom.addMulti", sk, "2", "5000", "10", "20", "30", "40"), `2`)
	expect(r.kv["sbf:nc"], "2")
	expect(r.eval(t, "sbloom.existsMulti", sk, "2", "5000", "10", "20", "10", "99"), `{true, false}`)
	expect(r.eval(t, "sbloom.existsReadOnlyMulti", sk, "2", "5000", "30", "40"), `{true}`)
	delete(r.kv, "sbf:lr") // rotation lock expired: next filter becomes current
	expect(r.eval(t, "sbloom.addMulti", sk, "2", "5000", "10", "20"), `2`)
	expect(r.eval(t, "sbloom.reset", sk[:4]), ``)
	expect(r.kv["sbf:nc"], "0")
	delete(r.kv, "sbf:n")
	if got := r.eval(t, "sbloom.reset", sk[:4]); got != "ERR:ERR no such key" {
		t.Fatalf("redis.call error must abort the script, got %s", got)
	}

	// assorted test scripts
	r = newFakeRedis()
	expect(r.eval(t, "compat.IncrByXX", []string{"xx"}, "2"), `false`)
	r.kv["xx"] = "40"
	expect(r.eval(t, "compat.IncrByXX", []string{"xx"}, "2"), `42`)
	expect(r.eval(t, "test.keysargv", []string{"k"}, "a"), `{"k", "a"}`)
	expect(r.eval(t, "test.keysargv2", []string{"k1", "k2"}, "a1", "a2"), `{"k1", "k2", "a1", "a2"}`)
	expect(r.eval(t, "test.keysargv", nil), `{}`)
	expect(r.eval(t, "test.errtable", nil), `{12, {err="error"}, "abc"}`)
	expect(r.eval(t, "test.one", nil), `1`)
	expect(r.eval(t, "test.key", []string{"k"}, "a"), `"k"`)
	expect(r.eval(t, "test.nil", nil), `nil`)
	r.kv["b1"], r.kv["b2"], r.kv["b3"] = "10", "20", "text"
	expect(r.eval(t, "test.benchmark", []string{"b1", "b2", "b3", "missing"}, "1.5", "200"), `{"20", "40", "text", "low:45"}`)
	expect(r.eval(t, "test.benchmark", []string{"b1", "b2"}, "7.3", "200"), `{"20", "40", "high:219"}`)
	expect(r.eval(t, "test.benchmark", nil), `{"low:0"}`)

	// function libraries: load, then call the registered callbacks from Go
	r = newFakeRedis()
	for _, lib := range []string{"lib.lib1", "lib.lib2", "lib.loop"} {
		expect(r.eval(t, lib, nil), ``)
	}
	if len(r.funcs) != 4 {
		t.Fatalf("registered functions: %v", r.funcs)
	}
	env := r.env()
	rets, err := env.Call(r.funcs["lib1_func1"], []string{"myhash"}, []string{"f", "v"})
	if err != nil || reprList(rets) != "2" || r.hashes["myhash"]["_updated_at"] != "1700000000" || r.hashes["myhash"]["f"] != "v" {
		t.Fatalf("lib1_func1: %v %v %v", rets, err, r.hashes)
	}
	rets, err = env.Call(r.funcs["lib2_func2"], NewTable(), NewTable())
	if err != nil || reprList(rets) != `"Function 2"` {
		t.Fatalf("lib2_func2: %v %v", rets, err)
	}
	if _, err = env.Call(r.funcs["lib3_func1"], NewTable(), NewTable()); err == nil || !strings.Contains(err.Error(), "MaxSteps") {
		t.Fatalf("endless function must be aborted by MaxSteps, got %v", err)
	}
}
