package minilua

import (
	"fmt"
	"math"
	"strings"
)

const maxStringSize = 1 << 28

// posrelat converts a relative string position (negative = from the end).
func posrelat(pos, l int) int {
	if pos < 0 {
		pos += l + 1
	}
	if pos < 0 {
		return 0
	}
	return pos
}

func (e *Env) openString() {
	e.strlib = e.lib("string", map[string]GoFunc{
		"len": func(args []any) ([]any, error) { return []any{float64(len(e.checkStr(args, 0, "len")))}, nil },
		"sub": func(args []any) ([]any, error) {
			s := e.checkStr(args, 0, "sub")
			i, j := posrelat(e.checkInt(args, 1, "sub"), len(s)), posrelat(e.optInt(args, 2, "sub", -1), len(s))
			if i < 1 {
				i = 1
			}
			if j > len(s) {
				j = len(s)
			}
			if i > j {
				return []any{""}, nil
			}
			return []any{s[i-1 : j]}, nil
		},
		"rep": func(args []any) ([]any, error) {
			s, n := e.checkStr(args, 0, "rep"), e.checkInt(args, 1, "rep")
			if n <= 0 || s == "" {
				return []any{""}, nil
			}
			if n > maxStringSize/len(s) {
				e.errorf("resulting string too large")
			}
			return []any{strings.Repeat(s, n)}, nil
		},
		"byte": func(args []any) ([]any, error) {
			s := e.checkStr(args, 0, "byte")
			i := posrelat(e.optInt(args, 1, "byte", 1), len(s))
			j := posrelat(e.optInt(args, 2, "byte", i), len(s))
			if i < 1 {
				i = 1
			}
			if j > len(s) {
				j = len(s)
			}
			var out []any
			for ; i <= j; i++ {
				out = append(out, float64(s[i-1]))
			}
			return out, nil
		},
		"char": func(args []any) ([]any, error) {
			b := make([]byte, len(args))
			for i := range args {
				c := e.checkInt(args, i, "char")
				if c < 0 || c > 255 {
					e.argError(i, "char", "invalid value")
				}
				b[i] = byte(c)
			}
			return []any{string(b)}, nil
		},
		"lower": func(args []any) ([]any, error) {
			return []any{mapBytes(e.checkStr(args, 0, "lower"), func(c byte) byte {
				if c >= 'A' && c <= 'Z' {
					return c + 32
				}
				return c
			})}, nil
		},
		"upper": func(args []any) ([]any, error) {
			return []any{mapBytes(e.checkStr(args, 0, "upper"), func(c byte) byte {
				if c >= 'a' && c <= 'z' {
					return c - 32
				}
				return c
			})}, nil
		},
		"reverse": func(args []any) ([]any, error) {
			s := e.checkStr(args, 0, "reverse")
			b := make([]byte, len(s))
			for i := range b {
				b[i] = s[len(s)-1-i]
			}
			return []any{string(b)}, nil
		},
		"format": e.strFormat,
		"find":   func(args []any) ([]any, error) { return e.strFind(args, true, "find"), nil },
		"match":  func(args []any) ([]any, error) { return e.strFind(args, false, "match"), nil },
		"gmatch": e.strGmatch,
		"gsub":   e.strGsub,
	})
	e.strlib.Set("gfind", e.strlib.Get("gmatch"))
	e.strmt = NewTable()
	e.strmt.Set("__index", e.strlib)
}

func mapBytes(s string, f func(byte) byte) string {
	b := []byte(s)
	for i, c := range b {
		b[i] = f(c)
	}
	return string(b)
}

// ---------------------------------------------------------------- pattern matching (port of lstrlib.c)

const (
	maxCaptures   = 32
	capUnfinished = -1
	capPosition   = -2
	lEsc          = '%'
	maxMatchDepth = 20000
)

type matchState struct {
	e       *Env
	src     string
	pat     string
	level   int
	depth   int
	capture [maxCaptures]struct{ init, len int }
}

func classMatch(c byte, cl byte) bool {
	var res bool
	switch cl | 0x20 {
	case 'a':
		res = c|0x20 >= 'a' && c|0x20 <= 'z'
	case 'c':
		res = c < 32 || c == 127
	case 'd':
		res = isDigit(c)
	case 'l':
		res = c >= 'a' && c <= 'z'
	case 'p':
		res = c > 32 && c < 127 && !isDigit(c) && !(c|0x20 >= 'a' && c|0x20 <= 'z')
	case 's':
		res = isSpace(c)
	case 'u':
		res = c >= 'A' && c <= 'Z'
	case 'w':
		res = isDigit(c) || (c|0x20 >= 'a' && c|0x20 <= 'z')
	case 'x':
		res = hexVal(c) >= 0
	case 'z':
		res = c == 0
	default:
		return cl == c
	}
	if cl >= 'A' && cl <= 'Z' {
		return !res
	}
	return res
}

func (ms *matchState) classEnd(p int) int {
	if p >= len(ms.pat) {
		ms.e.errorf("malformed pattern (ends with '%%')")
	}
	c := ms.pat[p]
	p++
	switch c {
	case lEsc:
		if p >= len(ms.pat) {
			ms.e.errorf("malformed pattern (ends with '%%')")
		}
		return p + 1
	case '[':
		if p < len(ms.pat) && ms.pat[p] == '^' {
			p++
		}
		for { // look for a ']'
			if p >= len(ms.pat) {
				ms.e.errorf("malformed pattern (missing ']')")
			}
			c := ms.pat[p]
			p++
			if c == lEsc && p < len(ms.pat) {
				p++ // skip escapes (e.g. '%]')
			}
			if p < len(ms.pat) && ms.pat[p] == ']' {
				return p + 1
			}
		}
	}
	return p
}

// matchBracketClass: p points at '[', ec at the closing ']'.
func (ms *matchState) matchBracketClass(c byte, p, ec int) bool {
	sig := true
	if ms.pat[p+1] == '^' {
		sig = false
		p++
	}
	for p++; p < ec; p++ {
		if ms.pat[p] == lEsc {
			p++
			if classMatch(c, ms.pat[p]) {
				return sig
			}
		} else if p+2 < ec && ms.pat[p+1] == '-' {
			p += 2
			if ms.pat[p-2] <= c && c <= ms.pat[p] {
				return sig
			}
		} else if ms.pat[p] == c {
			return sig
		}
	}
	return !sig
}

func (ms *matchState) singleMatch(c byte, p, ep int) bool {
	switch ms.pat[p] {
	case '.':
		return true
	case lEsc:
		return classMatch(c, ms.pat[p+1])
	case '[':
		return ms.matchBracketClass(c, p, ep-1)
	}
	return ms.pat[p] == c
}

func (ms *matchState) matchBalance(s, p int) int {
	if p+1 >= len(ms.pat) {
		ms.e.errorf("unbalanced pattern")
	}
	if s >= len(ms.src) || ms.src[s] != ms.pat[p] {
		return -1
	}
	b, en, cont := ms.pat[p], ms.pat[p+1], 1
	for s++; s < len(ms.src); s++ {
		if c := ms.src[s]; c == en {
			if cont--; cont == 0 {
				return s + 1
			}
		} else if c == b {
			cont++
		}
	}
	return -1
}

func (ms *matchState) maxExpand(s, p, ep int) int {
	i := 0
	for s+i < len(ms.src) && ms.singleMatch(ms.src[s+i], p, ep) {
		i++
	}
	for ; i >= 0; i-- { // keeps trying to match with the maximum repetitions
		if res := ms.match(s+i, ep+1); res != -1 {
			return res
		}
	}
	return -1
}

func (ms *matchState) minExpand(s, p, ep int) int {
	for {
		if res := ms.match(s, ep+1); res != -1 {
			return res
		}
		if s < len(ms.src) && ms.singleMatch(ms.src[s], p, ep) {
			s++
		} else {
			return -1
		}
	}
}

func (ms *matchState) startCapture(s, p, what int) int {
	if ms.level >= maxCaptures {
		ms.e.errorf("too many captures")
	}
	ms.capture[ms.level].init = s
	ms.capture[ms.level].len = what
	ms.level++
	res := ms.match(s, p)
	if res == -1 {
		ms.level-- // undo capture
	}
	return res
}

func (ms *matchState) endCapture(s, p int) int {
	l := -1
	for i := ms.level - 1; i >= 0; i-- {
		if ms.capture[i].len == capUnfinished {
			l = i
			break
		}
	}
	if l < 0 {
		ms.e.errorf("invalid pattern capture")
	}
	ms.capture[l].len = s - ms.capture[l].init
	res := ms.match(s, p)
	if res == -1 {
		ms.capture[l].len = capUnfinished
	}
	return res
}

func (ms *matchState) matchCapture(s int, l byte) int {
	i := int(l) - '1'
	if i < 0 || i >= ms.level || ms.capture[i].len == capUnfinished {
		ms.e.errorf("invalid capture index")
	}
	if ms.capture[i].len < 0 {
		return -1 // back reference to a position capture never matches
	}
	c := ms.src[ms.capture[i].init : ms.capture[i].init+ms.capture[i].len]
	if len(ms.src)-s >= len(c) && ms.src[s:s+len(c)] == c {
		return s + len(c)
	}
	return -1
}

// match returns the end of the match of pat[p:] at src[s:], or -1.
func (ms *matchState) match(s, p int) int {
	if ms.depth++; ms.depth > maxMatchDepth {
		ms.e.errorf("pattern too complex")
	}
	res := ms.doMatch(s, p)
	ms.depth--
	return res
}

func (ms *matchState) doMatch(s, p int) int {
	for {
		if p >= len(ms.pat) {
			return s
		}
		switch ms.pat[p] {
		case '(':
			if p+1 < len(ms.pat) && ms.pat[p+1] == ')' {
				return ms.startCapture(s, p+2, capPosition)
			}
			return ms.startCapture(s, p+1, capUnfinished)
		case ')':
			return ms.endCapture(s, p+1)
		case '$':
			if p+1 == len(ms.pat) {
				if s == len(ms.src) {
					return s
				}
				return -1
			}
		case lEsc:
			if p+1 < len(ms.pat) {
				switch next := ms.pat[p+1]; {
				case next == 'b':
					if s = ms.matchBalance(s, p+2); s == -1 {
						return -1
					}
					p += 4
					continue
				case next == 'f':
					p += 2
					if p >= len(ms.pat) || ms.pat[p] != '[' {
						ms.e.errorf("missing '[' after '%%f' in pattern")
					}
					ep := ms.classEnd(p)
					var prev, cur byte
					if s > 0 {
						prev = ms.src[s-1]
					}
					if s < len(ms.src) {
						cur = ms.src[s]
					}
					if ms.matchBracketClass(prev, p, ep-1) || !ms.matchBracketClass(cur, p, ep-1) {
						return -1
					}
					p = ep
					continue
				case isDigit(next):
					if s = ms.matchCapture(s, next); s == -1 {
						return -1
					}
					p += 2
					continue
				}
			}
		}
		// default: a single character class followed by an optional quantifier
		ep := ms.classEnd(p)
		m := s < len(ms.src) && ms.singleMatch(ms.src[s], p, ep)
		var q byte
		if ep < len(ms.pat) {
			q = ms.pat[ep]
		}
		switch q {
		case '?':
			if m {
				if res := ms.match(s+1, ep+1); res != -1 {
					return res
				}
			}
			p = ep + 1
		case '*':
			return ms.maxExpand(s, p, ep)
		case '+':
			if m {
				return ms.maxExpand(s+1, p, ep)
			}
			return -1
		case '-':
			return ms.minExpand(s, p, ep)
		default:
			if !m {
				return -1
			}
			s++
			p = ep
		}
	}
}

func (ms *matchState) oneCapture(i, s, e int) any {
	if i >= ms.level {
		if i == 0 {
			return ms.src[s:e] // whole match
		}
		ms.e.errorf("invalid capture index")
	}
	c := ms.capture[i]
	switch c.len {
	case capUnfinished:
		ms.e.errorf("unfinished capture")
	case capPosition:
		return float64(c.init + 1)
	}
	return ms.src[c.init : c.init+c.len]
}

func (ms *matchState) captures(s, e int, wholeIfNone bool) []any {
	n := ms.level
	if n == 0 && wholeIfNone {
		n = 1
	}
	out := make([]any, n)
	for i := range out {
		out[i] = ms.oneCapture(i, s, e)
	}
	return out
}

func (e *Env) strFind(args []any, find bool, fname string) []any {
	s, pat := e.checkStr(args, 0, fname), e.checkStr(args, 1, fname)
	init := posrelat(e.optInt(args, 2, fname, 1), len(s)) - 1
	if init < 0 {
		init = 0
	} else if init > len(s) {
		init = len(s)
	}
	if find && (truthy(arg(args, 3)) || !strings.ContainsAny(pat, "^$*+?.([%-")) {
		if i := strings.Index(s[init:], pat); i >= 0 {
			return []any{float64(init + i + 1), float64(init + i + len(pat))}
		}
		return []any{nil}
	}
	ms := &matchState{e: e, src: s, pat: pat}
	p, anchor := 0, false
	if pat != "" && pat[0] == '^' {
		p, anchor = 1, true
	}
	for s1 := init; ; s1++ {
		ms.level = 0
		if en := ms.match(s1, p); en != -1 {
			if find {
				return append([]any{float64(s1 + 1), float64(en)}, ms.captures(s1, en, false)...)
			}
			return ms.captures(s1, en, true)
		}
		if s1 >= len(s) || anchor {
			return []any{nil}
		}
	}
}

func (e *Env) strGmatch(args []any) ([]any, error) {
	s, pat := e.checkStr(args, 0, "gmatch"), e.checkStr(args, 1, "gmatch")
	pos := 0
	return []any{GoFunc(func([]any) ([]any, error) {
		ms := &matchState{e: e, src: s, pat: pat}
		for ; pos <= len(s); pos++ {
			ms.level = 0
			if en := ms.match(pos, 0); en != -1 {
				start := pos
				pos = en
				if en == start {
					pos++
				}
				return ms.captures(start, en, true), nil
			}
		}
		return []any{nil}, nil
	})}, nil
}

func (e *Env) strGsub(args []any) ([]any, error) {
	s, pat := e.checkStr(args, 0, "gsub"), e.checkStr(args, 1, "gsub")
	repl := arg(args, 2)
	switch repl.(type) {
	case string, float64, *Table, *Closure, GoFunc:
	default:
		e.typeError(args, 2, "gsub", "string/function/table")
	}
	maxN := e.optInt(args, 3, "gsub", len(s)+1)
	p, anchor := 0, false
	if pat != "" && pat[0] == '^' {
		p, anchor = 1, true
	}
	ms := &matchState{e: e, src: s, pat: pat}
	var b strings.Builder
	src, n := 0, 0
	for n < maxN {
		ms.level = 0
		en := ms.match(src, p)
		if en != -1 {
			n++
			e.gsubAdd(ms, &b, src, en, repl)
		}
		if en != -1 && en > src {
			src = en
		} else if src < len(s) {
			b.WriteByte(s[src])
			src++
		} else {
			break
		}
		if anchor {
			break
		}
	}
	b.WriteString(s[src:])
	return []any{b.String(), float64(n)}, nil
}

func (e *Env) gsubAdd(ms *matchState, b *strings.Builder, s, en int, repl any) {
	var v any
	switch r := repl.(type) {
	case string, float64:
		news, _ := toStringCoerce(r)
		for i := 0; i < len(news); i++ {
			if news[i] != lEsc {
				b.WriteByte(news[i])
				continue
			}
			i++
			switch {
			case i >= len(news):
				b.WriteByte(lEsc) // Lua 5.1 copies the terminating NUL here; keep the '%'
			case !isDigit(news[i]):
				b.WriteByte(news[i])
			case news[i] == '0':
				b.WriteString(ms.src[s:en])
			default:
				cs, _ := toStringCoerce(ms.oneCapture(int(news[i]-'1'), s, en))
				b.WriteString(cs)
			}
		}
		return
	case *Table:
		v = e.index(r, ms.oneCapture(0, s, en), nil)
	default:
		v = e.call1(r, ms.captures(s, en, true)...)
	}
	if !truthy(v) {
		b.WriteString(ms.src[s:en]) // keep original text
		return
	}
	vs, ok := toStringCoerce(v)
	if !ok {
		e.errorf("invalid replacement value (a %s)", typeName(v))
	}
	b.WriteString(vs)
}

// ---------------------------------------------------------------- string.format

func pad(s string, width int, left bool) string {
	if len(s) >= width {
		return s
	}
	if left {
		return s + strings.Repeat(" ", width-len(s))
	}
	return strings.Repeat(" ", width-len(s)) + s
}

func (e *Env) strFormat(args []any) ([]any, error) {
	f := e.checkStr(args, 0, "format")
	var b strings.Builder
	argn := 0
	for i := 0; i < len(f); i++ {
		if f[i] != '%' {
			b.WriteByte(f[i])
			continue
		}
		i++
		if i >= len(f) {
			e.errorf("invalid option '%%' to 'format'")
		}
		if f[i] == '%' {
			b.WriteByte('%')
			continue
		}
		st := i
		for i < len(f) && strings.IndexByte("-+ #0", f[i]) >= 0 {
			i++
		}
		if i-st > 5 {
			e.errorf("invalid format (repeated flags)")
		}
		flags := f[st:i]
		width, prec, hasPrec := 0, 0, false
		ws := i
		for i < len(f) && isDigit(f[i]) {
			width = width*10 + int(f[i]-'0')
			i++
		}
		if i-ws > 2 {
			e.errorf("invalid format (width or precision longer than 2)")
		}
		if i < len(f) && f[i] == '.' {
			i++
			hasPrec = true
			ps := i
			for i < len(f) && isDigit(f[i]) {
				prec = prec*10 + int(f[i]-'0')
				i++
			}
			if i-ps > 2 {
				e.errorf("invalid format (width or precision longer than 2)")
			}
		}
		if i >= len(f) {
			e.errorf("invalid option '%%' to 'format'")
		}
		spec := "%" + flags
		if width > 0 {
			spec += fmt.Sprint(width)
		}
		if hasPrec {
			spec += "." + fmt.Sprint(prec)
		}
		left := strings.Contains(flags, "-")
		argn++
		switch conv := f[i]; conv {
		case 'c':
			b.WriteString(pad(string([]byte{byte(e.checkInt(args, argn, "format"))}), width, left))
		case 'd', 'i':
			fmt.Fprintf(&b, spec+"d", int64(e.checkInt(args, argn, "format")))
		case 'o', 'u', 'x', 'X':
			if conv == 'u' {
				conv = 'd'
			}
			n := e.checkNum(args, argn, "format")
			u := uint64(f2i(n))
			if n >= 1<<62 && n < 1<<64 {
				u = uint64(n)
			}
			fmt.Fprintf(&b, spec+string(conv), u)
		case 'e', 'E', 'f', 'g', 'G':
			n := e.checkNum(args, argn, "format")
			if math.IsInf(n, 0) || n != n {
				s := fmtNum(n)
				if conv == 'E' || conv == 'G' {
					s = strings.ToUpper(s)
				}
				if n > 0 && strings.Contains(flags, "+") {
					s = "+" + s
				}
				b.WriteString(pad(s, width, left))
				break
			}
			if !hasPrec && (conv == 'g' || conv == 'G') {
				spec += ".6"
			}
			fmt.Fprintf(&b, spec+string(conv), n)
		case 'q':
			s := e.checkStr(args, argn, "format")
			b.WriteByte('"')
			for j := 0; j < len(s); j++ {
				switch c := s[j]; c {
				case '"', '\\', '\n':
					b.WriteByte('\\')
					b.WriteByte(c)
				case '\r':
					b.WriteString("\\r")
				case 0:
					b.WriteString("\\000")
				default:
					b.WriteByte(c)
				}
			}
			b.WriteByte('"')
		case 's':
			s := e.checkStr(args, argn, "format")
			if hasPrec && prec < len(s) {
				s = s[:prec]
			}
			b.WriteString(pad(s, width, left))
		default:
			e.errorf("invalid option '%%%c' to 'format'", conv)
		}
	}
	return []any{b.String()}, nil
}
