package minilua

import (
	"errors"
	"fmt"
	"sort"
	"strconv"
	"strings"
	"testing"
)

// repr renders Lua values deterministically for comparisons.
func repr(v any) string {
	switch x := v.(type) {
	case nil:
		return "nil"
	case bool:
		return strconv.FormatBool(x)
	case float64:
		return fmtNum(x)
	case string:
		return strconv.Quote(x)
	case *Table:
		var parts []string
		n := x.Len()
		for i := 1; i <= n; i++ {
			parts = append(parts, repr(x.Get(float64(i))))
		}
		for k, val, ok := x.Next(nil); ok; k, val, ok = x.Next(k) {
			if i, isIdx := arrIndex(k); isIdx && i <= n {
				continue
			}
			ks, isStr := k.(string)
			if !isStr {
				ks = "[" + repr(k) + "]"
			}
			parts = append(parts, ks+"="+repr(val))
		}
		return "{" + strings.Join(parts, ", ") + "}"
	case *Closure, GoFunc:
		return "<function>"
	case *Userdata:
		return "<" + x.Name + ">"
	}
	return fmt.Sprintf("<%T>", v)
}

func reprList(vs []any) string {
	parts := make([]string, len(vs))
	for i, v := range vs {
		parts[i] = repr(v)
	}
	return strings.Join(parts, ", ")
}

func run(t *testing.T, env *Env, src string, args ...any) ([]any, error) {
	t.Helper()
	c, err := Compile(src)
	if err != nil {
		return nil, err
	}
	return c.Run(env, args...)
}

type tc struct {
	name string
	src  string
	args []any
	want string // reprList of the return values
}

func runCases(t *testing.T, cases []tc) {
	t.Helper()
	for _, c := range cases {
		t.Run(c.name, func(t *testing.T) {
			env := NewEnv()
			// L(...) renders all its arguments: "7,9" (strings unquoted)
			env.Register("L", func(args []any) ([]any, error) {
				parts := make([]string, len(args))
				for i, a := range args {
					if s, ok := a.(string); ok {
						parts[i] = s
					} else {
						parts[i] = repr(a)
					}
				}
				return []any{strings.Join(parts, ",")}, nil
			})
			rets, err := run(t, env, c.src, c.args...)
			if err != nil {
				t.Fatalf("unexpected error: %v\nscript:\n%s", err, c.src)
			}
			if got := reprList(rets); got != c.want {
				t.Fatalf("script:\n%s\n got: %s\nwant: %s", c.src, got, c.want)
			}
		})
	}
}

func TestLexical(t *testing.T) {
	runCases(t, []tc{
		{"comments and long strings", `
-- a comment
--[[ multi
line ]]
--[==[ with ]] inside ]==]
local s = [[
hello
world]]
return s, [==[a]]b]==], #s -- trailing comment`, nil, `"hello\nworld", "a]]b", 11`},
		{"escapes", `return "a\n\t\\\"\'\65\066\x41\z
		     b", ("\0"):len(), '\'"', "\q", "line1\
line2"`, nil, `"a\n\t\\\"'ABAb", 1, "'\"", "q", "line1\nline2"`},
		{"numbers", `return 10, 0x10, 0xff, 1.5, 1e3, 1.5e-3, .5, 3., 0xA, 1E+2, 007`, nil, `10, 16, 255, 1.5, 1000, 0.0015, 0.5, 3, 10, 100, 7`},
		{"shebang", "#!lua name=mylib\nreturn 1", nil, `1`},
		{"semicolons", `local a = 1; local b = 2; return a + b;`, nil, `3`},
		{"empty", ``, nil, ``},
		{"keywords as fields are names", `local t = {} t.x = 1 t.end_ = 2 return t.x + t.end_`, nil, `3`},
	})
}

func TestAssignmentAndAdjust(t *testing.T) {
	runCases(t, []tc{
		{"adjust", `
local function f() return 1,2,3 end
local a,b,c,d = f()
local x,y = f(), 10
local p,q,r = (f())
local t = {f(), f()}
local u = {f(), nil}
return a,b,c,d,x,y,p,q,r,#t,#u`, nil, `1, 2, 3, nil, 1, 10, 1, nil, nil, 4, 1`},
		{"swap", `local a,b=1,2; a,b=b,a; return a,b`, nil, `2, 1`},
		{"eval order", `local i=1; local t={}; i, t[i] = i+1, 20; return i, t[1], t[2]`, nil, `2, 20, nil`},
		{"globals", `x = 5; y = x + 1; return x, y, z, _G.x, _G == _G._G`, nil, `5, 6, nil, 5, true`},
		{"extra values dropped", `local a, b = 1, 2, 3; local c; c, a = 9; return a, b, c`, nil, `nil, 2, 9`},
		{"nested tables", `local t = {a={b={c={1,2,{x="deep"}}}}}; t.a.b.c[3].y = t.a.b.c[3].x .. "er"; t["a"]["n"] = #t.a.b.c; return t.a.b.c[3].y, t.a.n, t`, nil,
			`"deeper", 3, {a={b={c={1, 2, {x="deep", y="deeper"}}}, n=3}}`},
		{"local shadowing", `local x = 1; do local x = x + 1; x = x * 10; y = x end; local x2 = x; local x = "s"; return x2, y, x`, nil, `1, 20, "s"`},
		{"main varargs", `local a, b = ...; return a, b, select('#', ...)`, []any{"k", 2.0, nil}, `"k", 2, 3`},
		{"go ints normalised", `local a, b = ...; return a + 1, b[1] .. b[2]`, []any{41, []string{"x", "y"}}, `42, "xy"`},
	})
}

func TestControlFlow(t *testing.T) {
	runCases(t, []tc{
		{"if", `local function f(x) if x < 0 then return "neg" elseif x == 0 then return "zero" elseif x < 10 then return "small" else return "big" end end
return f(-1), f(0), f(5), f(50)`, nil, `"neg", "zero", "small", "big"`},
		{"truthiness", `local r = {} for _, v in ipairs({0, "", false}) do r[#r+1] = v and "t" or "f" end if nil then r[#r+1]="nil" end return r`, nil, `{"t", "t", "f"}`},
		{"while", `local i, s = 0, 0 while i < 5 do i = i + 1 s = s + i end return i, s`, nil, `5, 15`},
		{"repeat sees body locals", `local i = 0 repeat local done = i >= 3; i = i + 1 until done return i`, nil, `4`},
		{"numeric for", `local r = {} for i = 1, 3 do r[#r+1] = i end for i = 10, 1, -3 do r[#r+1] = i end for i = 1, 0 do r[#r+1] = "never" end return r`, nil, `{1, 2, 3, 10, 7, 4, 1}`},
		{"fractional step", `local n, last = 0 for i = 1, 2, 0.25 do n = n + 1 last = i end local m = 0 for i = 1, 0, -0.5 do m = m + 1 end return n, last, m`, nil, `5, 2, 3`},
		{"for string coercion and loop var copy", `local r = {} for i = "1", "3" do r[#r+1] = i; i = 10 end return r`, nil, `{1, 2, 3}`},
		{"pairs order", `local t = {10, 20, x=1, y=2, [30]=3} t.z = 4 t.x = nil local r = {} for k, v in pairs(t) do r[#r+1] = tostring(k) .. "=" .. v end return table.concat(r, ",")`, nil, `"1=10,2=20,y=2,30=3,z=4"`},
		{"ipairs stops at nil", `local n = 0 for i, v in ipairs({1, 2, nil, 4}) do n = n + v end return n`, nil, `3`},
		{"next", `local t = {a=1} local k, v = next(t) return k, v, next(t, k), next({}), type(next)`, nil, `"a", 1, nil, nil, "function"`},
		{"for in next", `local s = 0 for k, v in next, {5, 6, 7} do s = s + k * v end return s`, nil, `38`},
		{"custom iterator", `local function range(n) local i = 0 return function() i = i + 1 if i <= n then return i, i * i end end end
local s = 0 for i, sq in range(4) do s = s + sq end return s`, nil, `30`},
		{"delete during pairs", `local t = {1, 2, 3, a=1, b=2} for k in pairs(t) do t[k] = nil end return next(t), #t`, nil, `nil, 0`},
		{"break", `local r = {} for i = 1, 3 do for j = 1, 3 do if j == 2 then break end r[#r+1] = i * 10 + j end end
local n = 0 while true do n = n + 1 if n > 4 then break end end
repeat n = n + 1 do break end until false
return r, n`, nil, `{11, 21, 31}, 6`},
		{"return from loops", `local function find(t, x) for i, v in ipairs(t) do if v == x then return i end end return nil end
local function f() while true do repeat for i = 1, 10 do if i == 3 then return i end end until false end end
return find({5, 6, 7}, 7), find({}, 1), f()`, nil, `3, nil, 3`},
		{"do block", `local a = 1 do local a = 2 do local a = 3 end end return a`, nil, `1`},
		{"return no values", `local function f() return end local function g() end return select('#', f()), select('#', g()), (f())`, nil, `0, 0, nil`},
	})
}

func TestFunctions(t *testing.T) {
	runCases(t, []tc{
		{"recursion", `local function fib(n) if n < 2 then return n end return fib(n-1) + fib(n-2) end return fib(15)`, nil, `610`},
		{"global and field functions", `
function add(a, b) return a + b end
local t = {a = {b = {}}}
function t.a.b.f(x) return x * 2 end
function t.a:m(x) return self == t.a, x end
function t:n() return self end
return add(1, 2), t.a.b.f(4), L(t.a:m(7)), t:n() == t, t.a.m(t.a, 1)`, nil, `3, 8, "true,7", true, true, 1`},
		{"closure counter", `
local function counter() local c = 0 return function() c = c + 1 return c end, function() return c end end
local inc, get = counter() local inc2 = counter()
inc() inc() inc2()
return inc(), get(), inc2()`, nil, `3, 3, 2`},
		{"closures in loops", `
local fns = {}
for i = 1, 3 do fns[i] = function() return i end end
local j, gs = 0, {}
while j < 3 do j = j + 1; local k = j; gs[j] = function() k = k + 1; return k end end
local hs = {}
for _, v in ipairs({"a", "b"}) do hs[#hs+1] = function() return v end end
return fns[1](), fns[2](), fns[3](), gs[1](), gs[1](), gs[3](), hs[1]() .. hs[2]()`, nil, `1, 2, 3, 2, 3, 4, "ab"`},
		{"nested upvalues", `
local a = 1
local function f() local b = 10 return function() local c = 100 return function() a = a + 1 b = b + 1 return a + b + c end end end
local g = f()()
return g(), g(), a`, nil, `113, 115, 3`},
		{"param capture", `local function mk(x) return function(y) x = x + y return x end end local f = mk(5) f(1) return f(2)`, nil, `8`},
		{"varargs", `
local function f(...) local a, b = ...; return select('#', ...), a, b, select(2, ...) end
local function g(...) return select(-1, ...) end
local function h(...) local t = {...} return #t, ... end
local function pass(...) return f(...) end
local function mid(...) return {..., "x"} end
return L(f(1, nil, 3)), g(7, 8, 9), L(h(4, 5)), (pass(1, 2)), L(pass(1, 2)), #mid(1, 2, 3), select('#'), select('#', nil, nil), f(1, nil, 3)`, nil,
			`"3,1,nil,nil,3", 9, "2,4,5", 2, "2,1,2,2", 2, 0, 2, 3, 1, nil, nil, 3`},
		{"vararg with named params", `local function f(a, b, ...) return a, b, select('#', ...) end return L(f(1)), f(1, 2, 3, 4)`, nil, `"1,nil,0", 1, 2, 2`},
		{"call sugar", `
local function id(x) return x end
local o = {v = 3} function o:get(d) return self.v + (d or 0) end
local s = "hello"
return id"str", id[[long]], id{1, 2}[2], ("x"):rep(3), s:sub(1, 2), s:upper():lower(), #"abc", o:get(), o:get(4), ("%d"):format(5), (id{n = 1}).n`, nil,
			`"str", "long", 2, "xxx", "he", "hello", 3, 3, 7, "5", 1`},
		{"anonymous and immediate", `return (function(a, b) return a * b end)(6, 7), type(function() end)`, nil, `42, "function"`},
		{"functions as values", `local ops = {add = function(a, b) return a + b end} local f = ops.add return f(1, 2), ops["add"](3, 4), f == ops.add, f == function() end`, nil, `3, 7, true, false`},
		{"mutual recursion via locals", `local even, odd function even(n) if n == 0 then return true end return odd(n - 1) end function odd(n) if n == 0 then return false end return even(n - 1) end return even(10), odd(7), even(7)`, nil, `true, true, false`},
		{"deep recursion", `local function sum(n) if n == 0 then return 0 end return n + sum(n - 1) end return sum(900)`, nil, `405450`},
		{"chained call on results", `local function f() return {g = function() return {1, 2, 3} end} end return f().g()[3], #f().g()`, nil, `3, 3`},
	})
}

func TestTableConstructors(t *testing.T) {
	runCases(t, []tc{
		{"forms", `local k = "key" local function f() return 7, 8 end
return {1, 2, 3}, {a = 1, ["b c"] = 2, [k] = 3, [1 + 1] = "two"}, {1, 2,}, {1; 2; x = 1;}, {f()}, {f(), f()}, {(f())}, {f(), x = 1}, {}, {{}, {{}}}`, nil,
			`{1, 2, 3}, {a=1, b c=2, key=3, [2]="two"}, {1, 2}, {1, 2, x=1}, {7, 8}, {7, 7, 8}, {7}, {7, x=1}, {}, {{}, {{}}}`},
		{"length", `local t = {1, 2, 3} t[#t + 1] = 4 t[6] = 6 local n1 = #t t[5] = 5 return n1, #t, #{}, #{n = 1}, #{1, nil, 3}, #"", #{nil}`, nil, `4, 6, 0, 0, 3, 0, 0`},
		{"shrink", `local t = {1, 2, 3} t[3] = nil local a = #t t[#t] = nil return a, #t, t[1], t[2]`, nil, `2, 1, 1, nil`},
		{"mixed keys", `local t = {} t[1.5] = "f" t[true] = "b" t[-1] = "n" t[0] = "z" t["1"] = "s" t[1] = "i" local f = function() end t[f] = "fn" t[t] = "self" t[print or type] = "go"
return t[1.5], t[true], t[-1], t[0], t["1"], t[1], t[f], t[t], t[print or type], #t, t[2^53], t[nil], t[0/0]`, nil, `"f", "b", "n", "z", "s", "i", "fn", "self", "go", 1, nil, nil, nil`},
		{"float keys normalise", `local t = {} t[2^1] = "a" t[1] = "b" return t[2], #t, t[4/2]`, nil, `"a", 2, "a"`},
	})
}

func TestOperators(t *testing.T) {
	runCases(t, []tc{
		{"precedence", `return 2+3*4^2/2, -2^2, 2^3^2, not nil == true, 1 .. 2 .. 3, "a".."b"=="ab", 1+2 .. "", 2*3 .. 4*5, not 1 == 2, -3 % 5, (2+3)*4, 1 + -2, 2^-1, #"ab" + 1, -"2" + 0`, nil,
			`26, -4, 512, true, "123", true, "3", "620", false, 2, 20, -1, 0.5, 3, -2`},
		{"arithmetic", `return 7 / 2, 5 % 3, -5 % 3, 5 % -3, 5.5 % 2, 7 - 10, 2 ^ 10, 1 / 0, -1 / 0, 10 / 4 * 2, 2^0.5 * 2^0.5 > 1.99, 1e308 * 10, 7 % 0 ~= 7 % 0`, nil,
			`3.5, 2, 1, -1, 1.5, -3, 1024, inf, -inf, 5, true, inf, true`},
		{"comparison", `return 1 < 2, 2 <= 2, 3 > 4, 4 >= 4, 1 == 1.0, 1 ~= 2, "a" < "b", "a" < "B", "abc" < "abd", "" < "a", "Z" <= "Z", "10" < "9", 1 < 2 == true`, nil,
			`true, true, false, true, true, true, true, false, true, true, true, true, true`},
		{"equality", `local t, u = {}, {} local f = function() end
return t == t, t == u, {} == {}, f == f, "1" == 1, 0 == -0, nil == false, nil == nil, "a" == "a", t ~= u, type == type, type == pairs, 1 == "1"`, nil,
			`true, false, false, true, false, true, false, true, true, true, true, false, false`},
		{"logical", `local n = 0 local function side() n = n + 1 return true end
return 1 and 2, nil and 1, false and side(), false or "x", nil or false, 1 or side(), nil and nil, not not 1, not 0, not "", 0 or 1, nil or nil, false == false and "y" or "n", n`, nil,
			`2, nil, false, "x", false, 1, nil, true, false, false, 0, nil, "y", 0`},
		{"coercion", `return "10" + 5, "3" * "4", 10 .. "", 1.5 .. "x", "0x10" + 0, " 5 " + 1, 10 == "10", "2" ^ 2, 10 .. 20, -"3", "1e1" + 0, 2 .. ""`, nil,
			`15, 12, "10", "1.5x", 16, 6, false, 4, "1020", -3, 10, "2"`},
		{"length", `return #"hello", #{1, 2}, #"a\0b", #("x"):rep(10)`, nil, `5, 2, 3, 10`},
	})
}

func TestNumberFormatting(t *testing.T) {
	runCases(t, []tc{
		{"tostring", `return tostring(3), tostring(1.5), tostring(1e15), tostring(-0.5), tostring(1e100), tostring(0.1), tostring(100000000000000), tostring(99999999999999), tostring(2^53), tostring(1/0), tostring(-1/0),
tostring(nil), tostring(true), tostring(2^31), tostring(123456789012), tostring(3.14159265358979), tostring(1e-5), tostring(-7), tostring(1/3), tostring(255 / 5), tostring("s"), tostring(1e14 + 0.5)`, nil,
			`"3", "1.5", "1e+15", "-0.5", "1e+100", "0.1", "1e+14", "99999999999999", "9.007199254741e+15", "inf", "-inf", "nil", "true", "2147483648", "123456789012", "3.1415926535898", "1e-05", "-7", "0.33333333333333", "51", "s", "1e+14"`},
		{"concat", `return 3 .. "", 1.5 .. "", 2^63 .. "", 10 / 2 .. "", 1e15 .. "|" .. 0.1 + 0.2`, nil, `"3", "1.5", "9.2233720368548e+18", "5", "1e+15|0.3"`},
		{"tonumber", `return tonumber("10"), tonumber("  0x1F "), tonumber("1e2"), tonumber("abc"), tonumber(""), tonumber("10", 2), tonumber("ff", 16), tonumber("zz", 36), tonumber("8", 8), tonumber(nil), tonumber(true),
tonumber("1 2"), tonumber("5."), tonumber(".5"), tonumber("1e"), tonumber(12), tonumber("-3.5"), tonumber("+4"), tonumber("0x"), tonumber("1_0"), tonumber({}), tonumber("7", 10), tonumber("-0x10")`, nil,
			`10, 31, 100, nil, nil, 2, 255, 1295, nil, nil, nil, nil, 5, 0.5, nil, 12, -3.5, 4, nil, nil, nil, 7, -16`},
		{"type", `return type(nil), type(true), type(1), type("s"), type({}), type(type), type(function() end), type(cjson.null)`, nil,
			`"nil", "boolean", "number", "string", "table", "function", "function", "userdata"`},
	})
}

func TestBaseLibrary(t *testing.T) {
	runCases(t, []tc{
		{"select unpack", `local t = {1, 2, 3, 4}
return L(select(2, "a", "b", "c")), select('#', unpack(t)), L(unpack(t, 2, 3)), L(unpack({1, nil, 3})), table.unpack({9}), select('#', unpack({}, 1, 3)), (unpack(t, 3)), unpack(t, 3)`, nil,
			`"b,c", 4, "2,3", "1,nil,3", 9, 3, 3, 3, 4`},
		{"pcall error", `
local ok1, e1 = pcall(error, "plain")
local ok2, e2 = pcall(function() error("with pos") end)
local ok3, e3 = pcall(function() error({code = 42}) end)
local ok4, e4 = pcall(function() error("lvl0", 0) end)
local ok5, e5 = pcall(function() local t = nil; return t.x end)
local ok6, a, b = pcall(function(...) return ... end, 1, 2)
local ok7, e7 = pcall(error)
local ok8, e8 = pcall(function() error(nil) end)
local ok9, e9 = pcall(nil)
local function thrower() error("caller's fault", 2) end
local ok10, e10 = pcall(function()
  thrower()
end)
return ok1, e1, ok2, e2, ok3, e3.code, ok4, e4, ok5, e5, ok6, a, b, ok7, e7, ok8, e8, ok9, e9, e10`, nil,
			`false, "plain", false, "user_script:3: with pos", false, 42, false, "lvl0", false, "user_script:6: attempt to index local 't' (a nil value)", true, 1, 2, false, nil, false, nil, false, "attempt to call a nil value", "user_script:13: caller's fault"`},
		{"nested pcall and rethrow", `
local ok, e = pcall(function()
  local ok2, e2 = pcall(error, {msg = "inner"})
  error(e2)
end)
return ok, e.msg, select('#', pcall(function() return 1, 2, 3 end))`, nil, `false, "inner", 4`},
		{"xpcall", `return xpcall(function() error("x", 0) end, function(m) return "handled:" .. m end)`, nil, `false, "handled:x"`},
		{"assert", `local ok, e = pcall(assert, false, "msg") local ok2, e2 = pcall(assert, nil) local ok3, e3 = pcall(assert, false, {1}) return e, e2, e3[1], assert(1, 2, 3)`, nil,
			`"msg", "assertion failed!", 1, 1, 2, 3`},
		{"raw", `local t = setmetatable({}, {__index = function() return "dflt" end, __newindex = function() end})
t.x = 1 rawset(t, "y", 2)
return t.x, rawget(t, "x"), t.y, rawget(t, "y"), rawequal(t, t), rawequal(t, {}), rawequal("a", "a")`, nil, `"dflt", nil, 2, 2, true, false, true`},
		{"metatables", `
local base = {greet = function(self) return "hi " .. self.name end}
local obj = setmetatable({name = "bob"}, {__index = base})
local dyn = setmetatable({}, {__index = function(t, k) return k .. "!" end})
local chain = setmetatable({}, {__index = obj})
local log = {}
local proxy = setmetatable({}, {__newindex = function(t, k, v) rawset(t, k, v * 2) end})
proxy.a = 5
local callable = setmetatable({}, {__call = function(self, a, b) return a + b end})
local V = {} V.__index = V
V.__add = function(a, b) return setmetatable({x = a.x + b.x}, V) end
V.__eq = function(a, b) return a.x == b.x end
V.__lt = function(a, b) return a.x < b.x end
V.__le = function(a, b) return a.x <= b.x end
V.__tostring = function(a) return "V(" .. a.x .. ")" end
V.__concat = function(a, b) return tostring(a) .. "|" .. tostring(b) end
V.__unm = function(a) return setmetatable({x = -a.x}, V) end
local v1, v2 = setmetatable({x = 1}, V), setmetatable({x = 2}, V)
return obj:greet(), dyn.foo, chain.name, proxy.a, callable(3, 4), (v1 + v2).x, v1 == v2, v1 == setmetatable({x = 1}, V), v1 < v2, v1 >= v2, tostring(v1), v1 .. v2, v1 .. "s", (-v1).x,
  getmetatable(obj).__index == base, getmetatable("s").__index == string, getmetatable({}), getmetatable(1)`, nil,
			`"hi bob", "foo!", "bob", 10, 7, 3, false, true, true, false, "V(1)", "V(1)|V(2)", "V(1)|s", -1, true, true, nil, nil`},
		{"protected metatable", `local t = setmetatable({}, {__metatable = "locked"}) return getmetatable(t), pcall(setmetatable, t, {})`, nil, `"locked", false, "cannot change a protected metatable"`},
		{"loadstring", `local f = loadstring("local a, b = ... return a + b") local bad, msg = loadstring("return +") return f(2, 3), bad, type(msg)`, nil, `5, nil, "string"`},
		{"tostring of refs", `return tostring({}):sub(1, 6), tostring(print or type):sub(1, 9), tostring(function() end):sub(1, 9)`, nil, `"table:", "function:", "function:"`},
	})
}

func TestTableLibrary(t *testing.T) {
	runCases(t, []tc{
		{"insert remove", `local t = {}
table.insert(t, "a") table.insert(t, "c") table.insert(t, 2, "b") table.insert(t, 1, "z")
local r1 = table.remove(t) local r2 = table.remove(t, 1) local n = #t
local e = {} local r3 = table.remove(e) local cnt = select('#', table.remove(e))
return t, r1, r2, n, r3, cnt, table.getn(t), table.remove({1, 2, 3}, 2), table.maxn({1, 2, [10] = 1})`, nil, `{"a", "b"}, "c", "z", 2, nil, 0, 2, 2, 10`},
		{"concat", `return table.concat({1, 2, "x"}, ", "), table.concat({}), table.concat({"a", "b", "c"}, "-", 2, 3), table.concat({"a"}, "x"), pcall(table.concat, {1, {}, 3})`, nil,
			`"1, 2, x", "", "b-c", "a", false, "invalid value (at index 2) in table for 'concat'"`},
		{"sort", `local a = {5, 2, 8, 1, 9, 3} table.sort(a)
local b = {"pear", "apple", "fig"} table.sort(b)
local c = {5, 2, 8, 1} table.sort(c, function(x, y) return x > y end)
local d = {{k = 2}, {k = 1}, {k = 3}} table.sort(d, function(x, y) return x.k < y.k end)
local big = {} for i = 1, 200 do big[i] = (i * 7919) % 211 end table.sort(big) local okk = true for i = 2, #big do if big[i-1] > big[i] then okk = false end end
return a, b, c, d[1].k .. d[2].k .. d[3].k, okk, pcall(table.sort, {1, "x"})`, nil,
			`{1, 2, 3, 5, 8, 9}, {"apple", "fig", "pear"}, {8, 5, 2, 1}, "123", true, false, "attempt to compare string with number"`},
	})
}

func TestMathAndBit(t *testing.T) {
	runCases(t, []tc{
		{"math", `return math.floor(3.7), math.floor(-3.2), math.ceil(3.2), math.ceil(-3.7), math.max(1, 5, 3), math.min(4, 2, 8), math.abs(-4), math.huge, -math.huge, math.fmod(7, 3), math.fmod(-7, 3),
math.sqrt(16), math.pow(2, 8), math.exp(0), math.log(1), math.floor("2.5"), math.max(7), math.pi > 3.14, L(math.modf(3.25)), math.log10(1000)`, nil,
			`3, -4, 4, -3, 5, 2, 4, inf, -inf, 1, -1, 4, 256, 1, 0, 2, 7, true, "3,0.25", 3`},
		{"random deterministic", `local a, b, c = math.random(), math.random(10), math.random(5, 6)
local ok = a >= 0 and a < 1 and b >= 1 and b <= 10 and b == math.floor(b) and (c == 5 or c == 6)
math.randomseed(42) local x = math.random(1000) math.randomseed(42) local y = math.random(1000)
return ok, x == y, pcall(math.random, 0)`, nil, `true, true, false, "bad argument #1 to 'random' (interval is empty)"`},
		{"bit", `return bit.band(0xff, 0x0f), bit.bor(1, 2, 4), bit.bxor(5, 1), bit.bnot(0), bit.lshift(1, 4), bit.rshift(256, 4), bit.rshift(-1, 28), bit.arshift(-16, 2), bit.tobit(0xffffffff), bit.tobit(2^32 + 5),
bit.band(-1, 0xff), bit.lshift(1, 31), bit.lshift(1, 32), bit.tohex(255), bit.bswap(0x12345678), bit.rol(0x80000000, 1), bit.bor(2^31), bit.band("7", 3)`, nil,
			`15, 7, 4, -1, 16, 16, 15, -4, -1, 5, 255, -2147483648, 1, "000000ff", 2018915346, 1, -2147483648, 3`},
	})
	// math.random must yield the same sequence on every Run
	env := NewEnv()
	r1, _ := run(t, env, `return math.random(1e6), math.random(1e6)`)
	r2, _ := run(t, env, `return math.random(1e6), math.random(1e6)`)
	if reprList(r1) != reprList(r2) || r1[0] == r1[1] {
		t.Fatalf("math.random not deterministic per run: %v %v", r1, r2)
	}
}

func TestStringLibrary(t *testing.T) {
	runCases(t, []tc{
		{"basic", `local s = "Hello"
return s:len(), string.len(""), s:sub(2, 3), s:sub(-3), s:sub(2), s:sub(0), s:sub(10), s:sub(-100, 2), s:sub(3, 2), s:rep(2), s:rep(0), s:byte(), s:byte(-1), s:byte(10), string.char(72, 105), string.char(),
s:lower(), s:upper(), s:reverse(), select('#', s:byte(1, -1)), s:byte(2, 3)`, nil,
			`5, 0, "el", "llo", "ello", "Hello", "", "He", "", "HelloHello", "", 72, 111, nil, "Hi", "", "hello", "HELLO", "olleH", 5, 101, 108`},
		{"number method error", `return pcall(function() return (12):rep(2) end)`, nil, `false, "user_script:1: attempt to index a number value"`},
		{"format", `return string.format("%d %s %5.2f|%-5d|%05d|%x %X %o|%g %g %g|%e|%c%c|%%|%q|%10s|%-10s|%.2s|%i|%u|%+d|%5s", 42, "str", 3.14159, 7, 42, 255, 255, 8, 0.1, 1e20, 100, 12345.678, 72, 105, 'a "q"\n\\', "right", "left", "trunc", 3.99, 7, 5, 1.5)`, nil,
			`"42 str  3.14|7    |00042|ff FF 10|0.1 1e+20 100|1.234568e+04|Hi|%|\"a \\\"q\\\"\\\n\\\\\"|     right|left      |tr|3|7|+5|  1.5"`},
		{"format coercion and errors", `return string.format("%d", "10"), string.format("%s|%s", 1, 2.5), string.format("%.3f", 2), string.format("%5.1f", -0.05), string.format("%.0f", 0.5), string.format("%x", -1), string.format("%.14g", 0.1),
select(2, pcall(string.format, "%d", "x")), select(2, pcall(string.format, "%s", nil)), select(2, pcall(string.format, "%y", 1)), select(2, pcall(string.format, "%d"))`, nil,
			`"10", "1|2.5", "2.000", " -0.1", "0", "ffffffffffffffff", "0.1", "bad argument #2 to 'format' (number expected, got string)", "bad argument #2 to 'format' (string expected, got nil)", "invalid option '%y' to 'format'", "bad argument #2 to 'format' (number expected, got no value)"`},
		{"find", `local s = "hello world"
return L(s:find("wor")), L(s:find("l")), L(s:find("l", 5)), L(s:find("xyz")), L(s:find("")), L(s:find("", 20)), L(s:find("o w")), L(s:find("%s")), L(s:find("(o)(r)")), L(s:find("l+")), L(s:find(".", 1, true)), L(("a.b"):find(".", 1, true)), L(("a+b"):find("+", 1, true)), L(s:find("^hello")), L(s:find("^world")), L(s:find("world$")), L(s:find("o", -4)), s:find("lo")`, nil,
			`"7,9", "3,3", "10,10", "nil", "1,0", "12,11", "5,7", "6,6", "8,9,o,r", "3,4", "nil", "2,2", "2,2", "1,5", "nil", "7,11", "8,8", 4, 5`},
		{"match", `return L(("key=value"):match("(%w+)=(%w+)")), ("  trim  "):match("^%s*(.-)%s*$"), L(("2024-01-15"):match("(%d+)-(%d+)-(%d+)")), ("abc"):match("b"), ("abc"):match("x"), L(("abc"):match("()b()")), ("hello"):match(".-l"), ("hello"):match(".*l"),
("f(a(b)c)d"):match("%b()"), L(("THE (quick) fox"):find("%((%a+)%)")), ("x=1, y=2"):match("y=(%d)"), ("abc123"):match("%a+%d+"), L(("abc"):match("^(a?)(b?)(x?)")), ("aaa"):match("a-b"), ("[tag]"):match("%[(.*)%]"), ("a.b"):match("%."), ("abc"):match("", 10), ("abc"):match("c", -1), ("k=v"):match("(%w)=(%w)")`, nil,
			`"key,value", "trim", "2024,01,15", "b", nil, "2,3", "hel", "hell", "(a(b)c)", "5,11,quick", "2", "abc123", "a,b,", nil, "tag", ".", "", "c", "k", "v"`},
		{"classes and sets", `local function all(p, s) local r = {} for m in s:gmatch(p) do r[#r+1] = m end return table.concat(r, "|") end
return all("%a+", "ab1cd2"), all("%d", "a1b22"), all("%s+", "a b\t\nc"), all("%w+", "hi, you_2!"), all("%p", "a,b.c!"), all("%l+", "abCDef"), all("%u+", "abCDef"), all("%x+", "ff zz 1A"), all("%c", "a\nb\tc") == "\n|\t",
all("[abc]+", "aabbxcc"), all("[^abc]+", "aabbxcc"), all("[a-c]+", "abcdef"), all("[%d%.]+", "v1.25 x"), all("[%a_][%w_]*", "foo _b1 2x"), all("%D+", "12ab34"), all("[%]]", "a]b"), all("[a%-z]+", "a-zb"), all("%S+", " a  bc "), all("[]]", "]"), all("[^%s]+", "x y")`, nil,
			`"ab|cd", "1|2|2", " |\t\n", "hi|you|2", ",|.|!", "ab|ef", "CD", "ff|1A", true, "aabb|cc", "x", "abc", "1.25", "foo|_b1|x", "ab", "]", "a-z", "a|bc", "]", "x|y"`},
		{"gmatch", `local r = {} for k, v in ("a=1, b=2, c=3"):gmatch("(%w+)=(%w+)") do r[#r+1] = k .. v end
local n = 0 for _ in ("abc"):gmatch("") do n = n + 1 end
local pos = {} for p in ("a,b"):gmatch("()") do pos[#pos+1] = p end
return r, n, pos, ("one two"):gmatch("%a+")()`, nil, `{"a1", "b2", "c3"}, 4, {1, 2, 3, 4}, "one"`},
		{"gsub", `return L(("hello world"):gsub("o", "0")), L(("hello"):gsub("l", "L", 1)), L(("abc"):gsub("%w", "%0%0")), L(("hello world"):gsub("(%w+) (%w+)", "%2 %1")), L(("abc"):gsub("", "-")),
L(("$name is $age"):gsub("%$(%w+)", {name = "Bob", age = 42})), L(("1 2 3"):gsub("%d", function(d) return d * 2 end)), L(("abc"):gsub("b", function() return nil end)), L(("abc"):gsub("b", function() return false end)), L(("a b"):gsub("%s", "%%")),
L(("hello"):gsub("^h", "J")), L(("hhh"):gsub("^h", "J")), L(("abc"):gsub(".", {a = 1})), L(("x"):gsub("x", "%1")), L(("path/to"):gsub("/", ".")), L(("aaa"):gsub("a*", "x")), L(("abc"):gsub("(b)()", "%2")), L(("abc"):gsub("%w", "%%%0")), ("a,b"):gsub(",", ";"),
select(2, pcall(string.gsub, "abc", ".", {a = true})), select(2, pcall(string.gsub, "abc", ".", function() return {} end))`, nil,
			`"hell0 w0rld,2", "heLlo,1", "aabbcc,3", "world hello,1", "-a-b-c-,4", "Bob is 42,2", "2 4 6,3", "abc,1", "abc,1", "a%b,1", "Jello,1", "Jhh,1", "1bc,3", "x,1", "path.to,1", "xx,2", "a3c,1", "%a%b%c,3", "a;b", "invalid replacement value (a boolean)", "invalid replacement value (a table)"`},
		{"frontier and backrefs", `return L(("THE (quick) fox"):gsub("%f[%a]%a+", "W")), L(("say 'hi' and \"yo\""):match("(['\"])(.-)%1")), L(("aXb"):find("%f[%u]")), L(("hello"):gsub("(l)%1", "LL"))`, nil,
			`"W (W) W,3", "',hi", "2,1", "heLLo,1"`},
		{"pattern errors", `return select(2, pcall(string.find, "a", "%")), select(2, pcall(string.find, "a", "[a")), select(2, pcall(string.find, "a", "(a")), select(2, pcall(string.match, "a", "(a))")), select(2, pcall(string.gsub, "a", "a", "%2")), select(2, pcall(string.find, "a", "%b")), select(2, pcall(string.rep, "x", 1e10)), select(2, pcall(string.gsub, "a", "a", true))`, nil,
			`"malformed pattern (ends with '%')", "malformed pattern (missing ']')", "unfinished capture", "invalid pattern capture", "invalid capture index", "unbalanced pattern", "resulting string too large", "bad argument #3 to 'gsub' (string/function/table expected, got boolean)"`},
		{"binary safe", `local s = "a\0b\255" return #s, s:byte(2), s:byte(4), s:sub(2, 2) == "\0", L(s:find("b", 1, true)), s:rep(2):len(), ("\0x"):match("%z(.)"), s .. "!" == "a\0b\255!", s:upper():byte(4)`, nil,
			`4, 0, 255, true, "3,3", 8, "x", true, 255`},
	})
}

func TestCjson(t *testing.T) {
	runCases(t, []tc{
		{"encode", `return cjson.encode({1, 2, 3}), cjson.encode({a = 1}), cjson.encode({}), cjson.encode("s\n\"/"), cjson.encode(1.5), cjson.encode(10), cjson.encode(true), cjson.encode(nil), cjson.encode(cjson.null),
cjson.encode({x = {1, {y = "z"}}, l = {}}), cjson.encode({[1] = "a", [2] = "b"}), cjson.encode({1, nil, 3}), cjson.encode({[5] = "k", s = 1}), cjson.encode({1e15, 0.1})`, nil,
			`"[1,2,3]", "{\"a\":1}", "{}", "\"s\\n\\\"\\/\"", "1.5", "10", "true", "null", "null", "{\"x\":[1,{\"y\":\"z\"}],\"l\":{}}", "[\"a\",\"b\"]", "[1,null,3]", "{\"5\":\"k\",\"s\":1}", "[1e+15,0.1]"`},
		{"decode", `local d = cjson.decode('{"a": [1, 2.5, {"b": null}], "s": "x\\n\\u00e9\\ud83d\\ude00", "t": true, "f": false, "n": -1e2, "e": {}, "l": []}')
return d.a[1], d.a[2], d.a[3].b == cjson.null, d.s, d.t, d.f, d.n, next(d.e), #d.l, #d.a, cjson.decode("3"), cjson.decode('"x"'), cjson.decode("[1,null,3]")[3], cjson.decode(" [ ] "), cjson.decode(cjson.encode({k = {1, 2}})).k[2]`, nil,
			`1, 2.5, true, "x\né😀", true, false, -100, nil, 0, 3, 3, "x", 3, {}, 2`},
		{"errors", `return L(pcall(cjson.decode, "{")), L(pcall(cjson.decode, "[1,]")), L(pcall(cjson.decode, "1 2")), L(pcall(cjson.encode, function() end)), L(pcall(cjson.encode, {[{}] = 1})), L(pcall(cjson.encode, 1/0)), L(pcall(cjson.decode, '{"a" 1}')), L(pcall(cjson.decode, 'nul'))`, nil,
			`"false,Expected object key string but found T_END at character 2", "false,Expected value but found invalid token at character 4", "false,Expected the end but found invalid token at character 3", "false,Cannot serialise function: type not supported", "false,Cannot serialise table: table key must be a number or string", "false,Cannot serialise number: must not be NaN or Inf", "false,Expected colon but found invalid token at character 6", "false,Expected value but found invalid token at character 1"`},
	})
}

func TestRuntimeErrors(t *testing.T) {
	cases := []struct{ src, want string }{
		{`error("boom")`, `user_script:1: boom`},
		{"\n\nerror('line3')", `user_script:3: line3`},
		{`error("lvl0", 0)`, `lvl0`},
		{`local t = nil; return t.x`, `user_script:1: attempt to index local 't' (a nil value)`},
		{`return undefinedfn()`, `user_script:1: attempt to call global 'undefinedfn' (a nil value)`},
		{`local t = {} t.a.b = 1`, `user_script:1: attempt to index field 'a' (a nil value)`},
		{`local t = {} t.f()`, `user_script:1: attempt to call field 'f' (a nil value)`},
		{`local t = {} t:nomethod()`, `user_script:1: attempt to call method 'nomethod' (a nil value)`},
		{`return 1 + {}`, `user_script:1: attempt to perform arithmetic on a table value`},
		{`local x return x + 1`, `user_script:1: attempt to perform arithmetic on local 'x' (a nil value)`},
		{`return "abc" + 1`, `user_script:1: attempt to perform arithmetic on a string value`},
		{`return {} .. "x"`, `user_script:1: attempt to concatenate a table value`},
		{`return "x" .. nil`, `user_script:1: attempt to concatenate a nil value`},
		{`return 1 < "2"`, `user_script:1: attempt to compare number with string`},
		{`return {} < {}`, `user_script:1: attempt to compare two table values`},
		{`return nil > 1`, `user_script:1: attempt to compare number with nil`},
		{`return #5`, `user_script:1: attempt to get length of a number value`},
		{`return -{}`, `user_script:1: attempt to perform arithmetic on a table value`},
		{`local t = {} t[nil] = 1`, `user_script:1: table index is nil`},
		{`local t = {} t[0/0] = 1`, `user_script:1: table index is NaN`},
		{`return {[nil] = 1}`, `user_script:1: table index is nil`},
		{`for i = 1, "x" do end`, `user_script:1: 'for' limit must be a number`},
		{`for i in 5 do end`, `user_script:1: attempt to call a number value`},
		{`local function f() return f() end return f()`, `stack overflow`},
		{"local s = 'x'\nreturn s.y.z", `user_script:2: attempt to index field 'y' (a nil value)`},
		{"local function f(x)\n  return x.a\nend\nf({})\nreturn f(nil)", `user_script:2: attempt to index local 'x' (a nil value)`},
		{`table.insert(nil, 1)`, `user_script:1: bad argument #1 to 'insert' (table expected, got nil)`},
		{`return ("x"):rep()`, `user_script:1: bad argument #2 to 'rep' (number expected, got no value)`},
		{`return math.floor("a")`, `user_script:1: bad argument #1 to 'floor' (number expected, got string)`},
		{`setmetatable(1, {})`, `user_script:1: bad argument #1 to 'setmetatable' (table expected, got number)`},
		{`return next({}, "nokey")`, `user_script:1: invalid key to 'next'`},
		{`local up = nil local function f() return up.x end return f()`, `user_script:1: attempt to index upvalue 'up' (a nil value)`},
		{`error({code = 1})`, `(error object is a table value)`},
		{`error()`, `(error object is a nil value)`},
		{`return string.format("%d", {})`, `bad argument #2 to 'format' (number expected, got table)`},
		{`local a = "x" .. {}`, `attempt to concatenate a table value`},
		{`return tostring()`, `bad argument #1 to 'tostring' (value expected)`},
	}
	for _, c := range cases {
		_, err := run(t, NewEnv(), c.src)
		if err == nil {
			t.Errorf("%q: expected error %q, got none", c.src, c.want)
			continue
		}
		var le *LuaError
		if !errors.As(err, &le) {
			t.Errorf("%q: error is %T, want *LuaError", c.src, err)
		}
		if !strings.HasSuffix(err.Error(), c.want) || (strings.HasPrefix(c.want, "user_script") && err.Error() != c.want) {
			t.Errorf("%q:\n got: %s\nwant: %s", c.src, err.Error(), c.want)
		}
	}
	// error values are preserved
	_, err := run(t, NewEnv(), `error({code = 7})`)
	if tb, ok := err.(*LuaError).Value.(*Table); !ok || tb.Get("code") != 7.0 {
		t.Fatalf("table error value lost: %#v", err)
	}
	_, err = run(t, NewEnv(), `error("s", 0)`)
	if err.(*LuaError).Value != "s" {
		t.Fatalf("string error value lost: %#v", err)
	}
}

func TestSyntaxErrors(t *testing.T) {
	cases := []struct{ src, want string }{
		{`local x = `, `user_script:1: unexpected symbol near '<eof>'`},
		{`x = = 1`, `user_script:1: unexpected symbol near '='`},
		{`for i = 1 do end`, `user_script:1: ',' expected near 'do'`},
		{`break`, `user_script:1: no loop to break near '<eof>'`},
		{`return 1 return 2`, `user_script:1: '<eof>' expected near 'return'`},
		{`goto done`, `user_script:1: '=' expected near 'done'`},
		{"local f = type\nf\n(1)", `user_script:3: ambiguous syntax (function call x new statement) near '('`},
		{`local x = 1e`, `user_script:1: malformed number near '1e'`},
		{`local x = 3x`, `user_script:1: malformed number near '3x'`},
		{`local x = "abc`, `unfinished string`},
		{"local x = 'abc\n'", `unfinished string`},
		{`--[[ unclosed`, `unfinished long comment`},
		{`local s = [[ unclosed`, `unfinished long string`},
		{`x = }`, `user_script:1: unexpected symbol near '}'`},
		{`function f() return ... end`, `user_script:1: cannot use '...' outside a vararg function near '...'`},
		{`if x then`, `user_script:1: 'end' expected near '<eof>'`},
		{"if x then\n\nfoo()", `user_script:3: 'end' expected (to close 'if' at line 1) near '<eof>'`},
		{`x = 1 +`, `unexpected symbol near '<eof>'`},
		{`local 1 = 2`, `'<name>' expected near '1'`},
		{`f(`, `unexpected symbol near '<eof>'`},
		{`a.b:c = 1`, `function arguments expected near '='`},
		{`(a) = 1`, `syntax error near '='`},
		{`a + 1`, `'=' expected near '+'`},
		{`f() = 1`, `unexpected symbol near '='`},
		{`local a = 1;; local b`, `unexpected symbol near ';'`},
		{`return 1,`, `unexpected symbol near '<eof>'`},
		{`local t = {} t.1 = 2`, `'=' expected near '.1'`},
		{`local t = {1, 2`, `'}' expected near '<eof>'`},
		{`x = 1 ~ 2`, `unexpected symbol near '~'`},
		{`x = a != b`, `unexpected symbol near '!'`},
		{`x = "\400"`, `escape sequence too large`},
		{`while true do break x = 1 end`, `'end' expected near 'x'`},
		{`x = @`, `unexpected symbol near '@'`},
		{`local function f() end end`, `'<eof>' expected near 'end'`},
		{"x = " + strings.Repeat("(", 300) + "1" + strings.Repeat(")", 300), `chunk has too many syntax levels`},
	}
	for _, c := range cases {
		_, err := Compile(c.src)
		if err == nil {
			t.Errorf("%q: expected syntax error %q, got none", c.src, c.want)
			continue
		}
		if !strings.Contains(err.Error(), c.want) {
			t.Errorf("%q:\n got: %s\nwant: %s", c.src, err.Error(), c.want)
		}
	}
}

func TestMaxStepsAndLimits(t *testing.T) {
	for _, src := range []string{
		`while true do end`,
		`repeat until false`,
		`for i = 1, math.huge do end`,
		`local function f() return f() end while true do pcall(f) end`,
		`pcall(function() while true do end end) return "survived"`,
		`local t = setmetatable({}, {__index = function(t, k) return t[k] end}) return pcall(function() return t.x end), (function() while true do end end)()`,
		`for i = 10, 1, 0 do end`,
	} {
		env := NewEnv()
		env.MaxSteps = 5000
		rets, err := run(t, env, src)
		if err == nil || !strings.Contains(err.Error(), "MaxSteps") {
			t.Errorf("%q: want MaxSteps abort, got rets=%v err=%v", src, rets, err)
		}
		// the env stays usable afterwards
		if r, err := run(t, env, `return 1 + 1`); err != nil || reprList(r) != "2" {
			t.Errorf("env unusable after abort: %v %v", r, err)
		}
	}
	// MaxSteps does not trigger for scripts within budget, and 0 disables it
	env := NewEnv()
	env.MaxSteps = 100000
	if r, err := run(t, env, `local s = 0 for i = 1, 1000 do s = s + i end return s`); err != nil || reprList(r) != "500500" {
		t.Fatalf("unexpected: %v %v", r, err)
	}
	// stack overflow is a catchable error and leaves the interpreter consistent
	r, err := run(t, NewEnv(), `local function f() return 1 + f() end local ok, e = pcall(f) local function g(n) if n == 0 then return 0 end return g(n - 1) end return ok, e:match("stack overflow"), g(500)`)
	if err != nil || reprList(r) != `false, "stack overflow", 0` {
		t.Fatalf("stack overflow handling: %v %v", r, err)
	}
	env = NewEnv()
	env.MaxCallDepth = 50
	if _, err := run(t, env, `local function g(n) if n == 0 then return 0 end return g(n - 1) end return g(100)`); err == nil || !strings.Contains(err.Error(), "stack overflow") {
		t.Fatalf("MaxCallDepth ignored: %v", err)
	}
}

func TestGoInterop(t *testing.T) {
	env := NewEnv()
	redis := NewTable()
	var calls []string
	redis.Set("call", GoFunc(func(args []any) ([]any, error) {
		calls = append(calls, reprList(args))
		switch args[0] {
		case "FAIL":
			return nil, errors.New("ERR plain failure")
		case "FAILTABLE":
			et := NewTable()
			et.Set("err", "ERR table failure")
			return nil, &LuaError{Value: et}
		case "PANIC":
			var m map[string]int
			m["x"] = 1
		case "INTS":
			return []any{int64(7), 3, []byte("bytes"), []any{1, "two"}}, nil
		}
		return []any{"OK"}, nil
	}))
	env.Globals.Set("redis", redis)
	env.Globals.Set("KEYS", NewArray("k1", "k2"))
	env.Globals.Set("ARGV", NewArray("a1", 2))
	env.Globals.Set("plainfunc", func(args []any) ([]any, error) { return []any{len(args)}, nil })

	rets, err := run(t, env, `
local r = redis.call("SET", KEYS[1], ARGV[1], ARGV[2] + 1)
local ok1, e1 = pcall(redis.call, "FAIL")
local ok2, e2 = pcall(redis.call, "FAILTABLE")
local ok3, e3 = pcall(redis.call, "PANIC")
local a, b, c, d = redis.call("INTS")
return r, ok1, e1, ok2, type(e2), e2.err, ok3, e3, a + b, c, d[2], #KEYS, plainfunc(1, 2, 3)`)
	if err != nil {
		t.Fatal(err)
	}
	want := `"OK", false, "ERR plain failure", false, "table", "ERR table failure", false, "internal error: assignment to entry in nil map", 10, "bytes", "two", 2, 3`
	if got := reprList(rets); got != want {
		t.Fatalf("\n got: %s\nwant: %s", got, want)
	}
	if calls[0] != `"SET", "k1", "a1", 3` {
		t.Fatalf("calls: %v", calls)
	}
	// uncaught GoFunc errors surface from Run with the right value
	_, err = run(t, env, `return redis.call("FAIL")`)
	if le, ok := err.(*LuaError); !ok || le.Value != "ERR plain failure" || le.Error() != "ERR plain failure" {
		t.Fatalf("got %#v", err)
	}
	_, err = run(t, env, `return redis.call("FAILTABLE")`)
	if le, ok := err.(*LuaError); !ok || le.Value.(*Table).Get("err") != "ERR table failure" || le.Error() != "ERR table failure" {
		t.Fatalf("got %#v", err)
	}
	// a Go panic inside a GoFunc never escapes Run
	if _, err = run(t, env, `return redis.call("PANIC")`); err == nil || !strings.Contains(err.Error(), "internal error") {
		t.Fatalf("got %v", err)
	}
	// Env.Call: callbacks registered from Lua can be invoked from Go
	var cb any
	env.Globals.Set("register", GoFunc(func(args []any) ([]any, error) { cb = args[0]; return nil, nil }))
	if _, err = run(t, env, `local n = 0 register(function(x) n = n + x return n, "r" end)`); err != nil {
		t.Fatal(err)
	}
	for i, want := range []string{`5, "r"`, `10, "r"`} {
		r, err := env.Call(cb, 5)
		if err != nil || reprList(r) != want {
			t.Fatalf("Call #%d: %v %v", i, r, err)
		}
	}
	if _, err := env.Call(nil); err == nil {
		t.Fatal("calling nil must fail")
	}
	// a chunk can be run many times and with different envs
	c, _ := Compile(`counter = (counter or 0) + 1 return counter, ...`)
	e2 := NewEnv()
	for i := 1; i <= 3; i++ {
		r, err := c.Run(e2, "x")
		if err != nil || reprList(r) != fmt.Sprintf(`%d, "x"`, i) {
			t.Fatalf("run %d: %v %v", i, r, err)
		}
	}
	if r, _ := c.Run(NewEnv()); reprList(r) != "1" {
		t.Fatalf("fresh env: %v", r)
	}
}

func TestTableAPI(t *testing.T) {
	tb := NewTable()
	tb.Append("a")
	tb.Append("b")
	tb.Set("x", 1)
	tb.Set(3, "c") // Go int key extends the array part
	tb.Set("y", 2.0)
	tb.Set(10, "sparse")
	if tb.Len() != 3 || tb.Get(3) != "c" || tb.Get(3.0) != "c" || tb.Get("x") != 1.0 || tb.Get("zz") != nil || tb.Get(nil) != nil {
		t.Fatalf("basic get/set broken: %s", repr(tb))
	}
	var order []string
	for k, v, ok := tb.Next(nil); ok; k, v, ok = tb.Next(k) {
		order = append(order, repr(k)+"="+repr(v))
	}
	if got := strings.Join(order, " "); got != `1="a" 2="b" 3="c" "x"=1 "y"=2 10="sparse"` {
		t.Fatalf("iteration order: %s", got)
	}
	tb.Set("x", nil)
	tb.Set(3, nil)
	if tb.Len() != 2 || tb.Get("x") != nil {
		t.Fatalf("delete broken: %s", repr(tb))
	}
	if _, _, ok := tb.Next("nokey"); ok {
		t.Fatal("Next with unknown key must report !ok")
	}
	tb.Set(nil, 1) // ignored
	// keys migrate from the hash part into the array part
	m := NewTable()
	m.Set(3, "c")
	m.Set(2, "b")
	if m.Len() != 0 {
		t.Fatal("len of sparse table")
	}
	m.Set(1, "a")
	if m.Len() != 3 || repr(m) != `{"a", "b", "c"}` {
		t.Fatalf("migration: %s len=%d", repr(m), m.Len())
	}
	// many inserts/deletes keep the table consistent (tombstone compaction)
	h := NewTable()
	for i := 0; i < 1000; i++ {
		h.Set(fmt.Sprint("k", i), i)
		if i%3 != 0 {
			h.Set(fmt.Sprint("k", i), nil)
		}
	}
	n := 0
	for k, _, ok := h.Next(nil); ok; k, _, ok = h.Next(k) {
		n++
	}
	if n != 334 || h.Get("k999") != 999.0 || h.Get("k998") != nil {
		t.Fatalf("after churn: n=%d", n)
	}
	if arr := NewArray(1, "x").Array(); len(arr) != 2 || arr[0] != 1.0 {
		t.Fatalf("Array(): %v", arr)
	}
}

// TestNoPanicsOnMutatedScripts mutates valid scripts (deterministically) and checks that
// neither Compile nor Run lets a Go panic escape, and that every failure is a *LuaError.
func TestNoPanicsOnMutatedScripts(t *testing.T) {
	var seeds []string
	for _, s := range repoScripts {
		seeds = append(seeds, s)
	}
	seeds = append(seeds,
		`local t = setmetatable({}, {__index = function(t, k) return k end}) for i = 1, 3 do t[i] = t.x .. i end return #t, t`,
		`local s = ("a,b,c"):gsub("(%w)", "%1%1") for k, v in pairs({1, 2, x = 3}) do s = s .. k end return s:find("b+"), string.format("%5.2f %q", 1.5, s)`,
		`local function f(...) local a, b = ... return select('#', ...), {...}, pcall(error, {a}) end return f(1, nil, 3)`,
		`return cjson.encode(cjson.decode('{"a":[1,2,{"b":null}]}')), bit.band(7, 3), math.max(1, 2), table.concat({1, 2}, "-")`,
	)
	sort.Strings(seeds)
	frags := []string{"(", ")", "{", "}", "[", "]", "end", "do", "then", "function", "local", "=", ",", "..", "...", "nil", "%", "\"", "'", "[[", "]]", "--", "0x", "1e", ":", ".", "#", "-", "not", "return", "\\", "\n", "~=", "for", "in", "pairs", "t", "%b", "%f[", "("}
	rng := uint64(12345)
	next := func(n int) int {
		rng = rng*6364136223846793005 + 1442695040888963407
		return int((rng >> 33) % uint64(n))
	}
	compiled, ran := 0, 0
	for iter := 0; iter < 6000; iter++ {
		b := []byte(seeds[next(len(seeds))])
		for m := next(3) + 1; m > 0 && len(b) > 0; m-- {
			pos := next(len(b))
			switch next(4) {
			case 0:
				b = append(b[:pos], b[pos+next(len(b)-pos):]...)
			case 1:
				b = append(b[:pos], append([]byte(frags[next(len(frags))]), b[pos:]...)...)
			case 2:
				b[pos] = byte(next(256))
			case 3:
				b = append(b[:pos], append([]byte(" "+frags[next(len(frags))]+" "), b[pos:]...)...)
			}
		}
		c, err := Compile(string(b))
		if err != nil {
			if _, ok := err.(*LuaError); !ok || c != nil {
				t.Fatalf("compile error is %T: %v", err, err)
			}
			continue
		}
		compiled++
		r := newFakeRedis()
		env := r.env()
		env.MaxSteps = 3000
		env.Globals.Set("KEYS", []string{"k1", "k2", "k3", "k4", "k5"})
		env.Globals.Set("ARGV", []string{"2", "5000", "10", "20", "30"})
		if _, err := c.Run(env, 1, "x"); err != nil {
			if _, ok := err.(*LuaError); !ok {
				t.Fatalf("run error is %T: %v", err, err)
			}
			if strings.Contains(err.Error(), "internal error") {
				t.Fatalf("internal error (interpreter bug) for script:\n%s\n%v", b, err)
			}
		} else {
			ran++
		}
	}
	if compiled < 200 || ran < 50 {
		t.Fatalf("mutation test too weak: compiled=%d ran=%d", compiled, ran)
	}
}

// A compiled chunk is immutable: it can be shared by goroutines using different Envs.
func TestChunkSharedAcrossGoroutines(t *testing.T) {
	c, err := Compile(`local n, acc = ..., {} for i = 1, n do acc[#acc + 1] = function() return i * 2 end end local s = 0 for _, f in ipairs(acc) do s = s + f() end return s`)
	if err != nil {
		t.Fatal(err)
	}
	done := make(chan string, 8)
	for g := 0; g < 8; g++ {
		go func(g int) {
			env := NewEnv()
			for i := 0; i < 50; i++ {
				r, err := c.Run(env, 100+g)
				if want := float64((100 + g) * (101 + g)); err != nil || r[0] != want {
					done <- fmt.Sprintf("goroutine %d: %v %v", g, r, err)
					return
				}
			}
			done <- ""
		}(g)
	}
	for g := 0; g < 8; g++ {
		if msg := <-done; msg != "" {
			t.Fatal(msg)
		}
	}
}

func BenchmarkLoop(b *testing.B) {
	c, _ := Compile(`local s = 0 for i = 1, 100000 do local t = {i, i + 1} s = s + t[1] % 7 + #t end return s`)
	env := NewEnv()
	for i := 0; i < b.N; i++ {
		if _, err := c.Run(env); err != nil {
			b.Fatal(err)
		}
	}
}

func TestGlobalsMetatableAndChunkNames(t *testing.T) {
	env := NewEnv()
	// emulate Redis' protection against creating / reading undeclared globals
	guard := NewTable()
	guard.Set("__newindex", GoFunc(func(args []any) ([]any, error) {
		return nil, fmt.Errorf("Script attempted to create global variable '%v'", args[1])
	}))
	guard.Set("__index", GoFunc(func(args []any) ([]any, error) {
		return nil, fmt.Errorf("Script attempted to access unexisting global variable '%v'", args[1])
	}))
	env.Globals.SetMetatable(guard)
	if _, err := run(t, env, `local ok = 1 x = 5`); err == nil || err.Error() != "Script attempted to create global variable 'x'" {
		t.Fatalf("got %v", err)
	}
	if _, err := run(t, env, `return nosuch`); err == nil || err.Error() != "Script attempted to access unexisting global variable 'nosuch'" {
		t.Fatalf("got %v", err)
	}
	if r, err := run(t, env, `local t = {} t.x = tostring(1) return t.x, pcall(function() y = 1 end)`); err != nil || reprList(r) != `"1", false, "Script attempted to create global variable 'y'"` {
		t.Fatalf("got %v %v", r, err)
	}
	// chunk names
	c, err := CompileNamed("@my_chunk", "\nerror('x')")
	if err != nil {
		t.Fatal(err)
	}
	if _, err = c.Run(NewEnv()); err == nil || err.Error() != "my_chunk:2: x" {
		t.Fatalf("got %v", err)
	}
	r, err := run(t, NewEnv(), `local f = loadstring("local x = nil; return x.y") return pcall(f)`)
	if err != nil || reprList(r) != `false, "[string \"local x = nil; return x.y\"]:1: attempt to index local 'x' (a nil value)"` {
		t.Fatalf("got %v %v", reprList(r), err)
	}
	// wrapped *LuaError values from GoFuncs keep their Lua value
	env = NewEnv()
	env.Register("boom", func([]any) ([]any, error) {
		return nil, fmt.Errorf("wrapped: %w", &LuaError{Value: 42.0, Msg: "forty-two"})
	})
	if r, err := run(t, env, `return pcall(boom)`); err != nil || reprList(r) != `false, 42` {
		t.Fatalf("got %v %v", r, err)
	}
	// Run must not modify the caller's argument slice
	args := []any{1, []byte("b")}
	if _, err := run(t, env, `return ...`, args...); err != nil || args[0] != 1 {
		t.Fatalf("args modified: %#v %v", args, err)
	}
}
