package minilua

import (
	"fmt"
	"math"
	"sort"
	"strings"
)

// NewEnv creates an environment with the standard library subset installed.
func NewEnv() *Env {
	e := &Env{Globals: NewTable()}
	e.Globals.Set("_G", e.Globals)
	e.Globals.Set("_VERSION", "Lua 5.1")
	e.openBase()
	e.openTable()
	e.openMath()
	e.openString()
	e.openBit()
	e.openCjson()
	return e
}

// Register installs a Go function as a global.
func (e *Env) Register(name string, f GoFunc) { e.Globals.Set(name, f) }

func (e *Env) lib(name string, funcs map[string]GoFunc) *Table {
	t, _ := e.Globals.Get(name).(*Table)
	if t == nil {
		t = NewTable()
		e.Globals.Set(name, t)
	}
	names := make([]string, 0, len(funcs))
	for n := range funcs {
		names = append(names, n)
	}
	sort.Strings(names) // deterministic iteration order of library tables
	for _, n := range names {
		t.Set(n, funcs[n])
	}
	return t
}

// ---------------------------------------------------------------- argument helpers

func (e *Env) argError(i int, fname, msg string) {
	e.errorf("bad argument #%d to '%s' (%s)", i+1, fname, msg)
}

func (e *Env) typeError(args []any, i int, fname, want string) {
	got := "no value"
	if i < len(args) {
		got = typeName(args[i])
	}
	e.argError(i, fname, want+" expected, got "+got)
}

func arg(args []any, i int) any {
	if i < len(args) {
		return args[i]
	}
	return nil
}

func (e *Env) checkAny(args []any, i int, fname string) any {
	if i >= len(args) {
		e.argError(i, fname, "value expected")
	}
	return args[i]
}

func (e *Env) checkNum(args []any, i int, fname string) float64 {
	f, ok := toNumber(arg(args, i))
	if !ok {
		e.typeError(args, i, fname, "number")
	}
	return f
}

func (e *Env) optNum(args []any, i int, fname string, def float64) float64 {
	if arg(args, i) == nil {
		return def
	}
	return e.checkNum(args, i, fname)
}

func (e *Env) checkInt(args []any, i int, fname string) int {
	return f2i(e.checkNum(args, i, fname))
}

func (e *Env) optInt(args []any, i int, fname string, def int) int {
	if arg(args, i) == nil {
		return def
	}
	return e.checkInt(args, i, fname)
}

// f2i converts like a C cast to a (saturating) integer.
func f2i(f float64) int {
	switch {
	case f != f:
		return 0
	case f >= 1<<62:
		return 1 << 62
	case f <= -(1 << 62):
		return -(1 << 62)
	}
	return int(f)
}

func (e *Env) checkStr(args []any, i int, fname string) string {
	s, ok := toStringCoerce(arg(args, i))
	if !ok {
		e.typeError(args, i, fname, "string")
	}
	return s
}

func (e *Env) optStr(args []any, i int, fname string, def string) string {
	if arg(args, i) == nil {
		return def
	}
	return e.checkStr(args, i, fname)
}

func (e *Env) checkTable(args []any, i int, fname string) *Table {
	t, ok := arg(args, i).(*Table)
	if !ok {
		e.typeError(args, i, fname, "table")
	}
	return t
}

func isFunc(v any) bool {
	switch v.(type) {
	case *Closure, GoFunc:
		return true
	}
	return false
}

// ---------------------------------------------------------------- base library

// isNext reports whether f is the builtin next (fast path of the generic for).
func (e *Env) isNext(f any) bool {
	g, ok := f.(GoFunc)
	return ok && e.origNext != nil && funcPtr(g) == funcPtr(e.origNext)
}

func (e *Env) openBase() {
	next := GoFunc(func(args []any) ([]any, error) {
		t := e.checkTable(args, 0, "next")
		k, v, st := t.next(arg(args, 1))
		if st == 2 {
			e.errorf("invalid key to 'next'")
		}
		if st == 1 {
			return []any{nil}, nil
		}
		return []any{k, v}, nil
	})
	e.origNext = next
	ipairsIter := GoFunc(func(args []any) ([]any, error) {
		t := e.checkTable(args, 0, "ipairs")
		i := e.checkNum(args, 1, "ipairs") + 1
		if v := t.rawGet(i); v != nil {
			return []any{i, v}, nil
		}
		return []any{nil}, nil
	})
	e.lib("_G", map[string]GoFunc{
		"next": next,
		"pairs": func(args []any) ([]any, error) {
			return []any{next, e.checkTable(args, 0, "pairs"), nil}, nil
		},
		"ipairs": func(args []any) ([]any, error) {
			return []any{ipairsIter, e.checkTable(args, 0, "ipairs"), 0.0}, nil
		},
		"type": func(args []any) ([]any, error) {
			return []any{typeName(e.checkAny(args, 0, "type"))}, nil
		},
		"tostring": func(args []any) ([]any, error) {
			return []any{e.tostr(e.checkAny(args, 0, "tostring"))}, nil
		},
		"tonumber": func(args []any) ([]any, error) {
			v := e.checkAny(args, 0, "tonumber")
			if arg(args, 1) == nil || e.checkNum(args, 1, "tonumber") == 10 {
				if f, ok := toNumber(v); ok {
					return []any{f}, nil
				}
				return []any{nil}, nil
			}
			base := e.checkInt(args, 1, "tonumber")
			if base < 2 || base > 36 {
				e.argError(1, "tonumber", "base out of range")
			}
			s := strings.ToLower(strings.TrimFunc(e.checkStr(args, 0, "tonumber"), func(r rune) bool { return r < 128 && isSpace(byte(r)) }))
			if s == "" {
				return []any{nil}, nil
			}
			var f float64
			for _, c := range []byte(s) {
				d := -1
				if isDigit(c) {
					d = int(c - '0')
				} else if c >= 'a' && c <= 'z' {
					d = int(c-'a') + 10
				}
				if d < 0 || d >= base {
					return []any{nil}, nil
				}
				f = f*float64(base) + float64(d)
			}
			return []any{f}, nil
		},
		"select": func(args []any) ([]any, error) {
			if s, ok := arg(args, 0).(string); ok && s == "#" {
				return []any{float64(len(args) - 1)}, nil
			}
			i, n := e.checkInt(args, 0, "select"), len(args)-1
			if i < 0 {
				i = n + i + 1
			} else if i > n {
				i = n + 1
			}
			if i < 1 {
				e.argError(0, "select", "index out of range")
			}
			return args[i:], nil
		},
		"unpack":   e.unpack,
		"rawequal": func(args []any) ([]any, error) { return []any{rawEquals(arg(args, 0), arg(args, 1))}, nil },
		"rawget": func(args []any) ([]any, error) {
			return []any{e.checkTable(args, 0, "rawget").rawGet(arg(args, 1))}, nil
		},
		"rawset": func(args []any) ([]any, error) {
			t := e.checkTable(args, 0, "rawset")
			if err := t.rawSet(arg(args, 1), arg(args, 2)); err != nil {
				e.errorf("%s", err.Error())
			}
			return []any{t}, nil
		},
		"setmetatable": func(args []any) ([]any, error) {
			t := e.checkTable(args, 0, "setmetatable")
			mt, ok := arg(args, 1).(*Table)
			if !ok && (len(args) < 2 || args[1] != nil) {
				e.argError(1, "setmetatable", "nil or table expected")
			}
			if t.meta != nil && t.meta.rawGet("__metatable") != nil {
				e.errorf("cannot change a protected metatable")
			}
			t.meta = mt
			return []any{t}, nil
		},
		"getmetatable": func(args []any) ([]any, error) {
			mt := e.metatable(e.checkAny(args, 0, "getmetatable"))
			if mt == nil {
				return []any{nil}, nil
			}
			if p := mt.rawGet("__metatable"); p != nil {
				return []any{p}, nil
			}
			return []any{mt}, nil
		},
		"error": func(args []any) ([]any, error) {
			v, level := arg(args, 0), e.optInt(args, 1, "error", 1)
			if s, ok := v.(string); ok && level > 0 {
				switch {
				case level == 1:
					v = e.where() + s
				case level-2 < len(e.sites):
					if cs := e.sites[len(e.sites)-(level-1)]; cs.line > 0 {
						v = fmt.Sprintf("%s:%d: %s", cs.chunk, cs.line, s)
					}
				}
			}
			e.throw(v)
			return nil, nil
		},
		"assert": func(args []any) ([]any, error) {
			if !truthy(e.checkAny(args, 0, "assert")) {
				if len(args) > 1 {
					e.throw(args[1])
				}
				e.throw("assertion failed!")
			}
			return args, nil
		},
		"pcall": func(args []any) ([]any, error) {
			fn := e.checkAny(args, 0, "pcall")
			return e.pcall(fn, args[1:], nil), nil
		},
		"xpcall": func(args []any) ([]any, error) {
			e.checkAny(args, 1, "xpcall")
			return e.pcall(arg(args, 0), nil, args[1]), nil
		},
		"loadstring": func(args []any) ([]any, error) {
			src := e.checkStr(args, 0, "loadstring")
			first, _, more := strings.Cut(src, "\n")
			if len(first) > 40 || more {
				first = first[:min(len(first), 40)] + "..."
			}
			c, err := CompileNamed(e.optStr(args, 1, "loadstring", `[string "`+first+`"]`), src)
			if err != nil {
				return []any{nil, err.Error()}, nil
			}
			return []any{&Closure{proto: c.main}}, nil
		},
	})
}

// pcall calls fn in protected mode; handler (optional) transforms the error value.
func (e *Env) pcall(fn any, args []any, handler any) (rets []any) {
	depth, line, chunk, nsites := e.depth, e.line, e.chunk, len(e.sites)
	defer func() {
		if r := recover(); r != nil {
			le, fatal := recoveredError(r)
			if fatal {
				panic(r)
			}
			e.depth, e.line, e.chunk, e.sites = depth, line, chunk, e.sites[:nsites]
			v := le.Value
			if handler != nil {
				v = e.call1(handler, v)
			}
			rets = []any{false, v}
		}
	}()
	if _, ok := fn.(*Closure); !ok {
		e.line = 0 // errors raised directly by builtins carry no position, like in C Lua
	}
	return append([]any{true}, e.call(fn, args)...)
}

func (e *Env) unpack(args []any) ([]any, error) {
	t := e.checkTable(args, 0, "unpack")
	i := e.optInt(args, 1, "unpack", 1)
	j := e.optInt(args, 2, "unpack", t.Len())
	if i > j {
		return nil, nil
	}
	if j-i >= 1<<20 {
		e.errorf("too many results to unpack")
	}
	out := make([]any, 0, j-i+1)
	for ; i <= j; i++ {
		out = append(out, t.rawGet(float64(i)))
	}
	return out, nil
}

// ---------------------------------------------------------------- table library

func (e *Env) openTable() {
	e.lib("table", map[string]GoFunc{
		"unpack": e.unpack,
		"getn": func(args []any) ([]any, error) {
			return []any{float64(e.checkTable(args, 0, "getn").Len())}, nil
		},
		"maxn": func(args []any) ([]any, error) {
			t, max := e.checkTable(args, 0, "maxn"), 0.0
			for k, _, st := t.next(nil); st == 0; k, _, st = t.next(k) {
				if f, ok := k.(float64); ok && f > max {
					max = f
				}
			}
			return []any{max}, nil
		},
		"insert": func(args []any) ([]any, error) {
			t := e.checkTable(args, 0, "insert")
			n := t.Len() + 1
			switch len(args) {
			case 2:
				_ = t.rawSet(float64(n), args[1])
			case 3:
				pos := e.checkInt(args, 1, "insert")
				if pos > n {
					n = pos
				}
				for i := n; i > pos; i-- {
					e.step()
					_ = t.rawSet(float64(i), t.rawGet(float64(i-1)))
				}
				_ = t.rawSet(float64(pos), args[2])
			default:
				e.errorf("wrong number of arguments to 'insert'")
			}
			return nil, nil
		},
		"remove": func(args []any) ([]any, error) {
			t := e.checkTable(args, 0, "remove")
			n := t.Len()
			pos := e.optInt(args, 1, "remove", n)
			if pos < 1 || pos > n {
				return nil, nil
			}
			v := t.rawGet(float64(pos))
			for ; pos < n; pos++ {
				_ = t.rawSet(float64(pos), t.rawGet(float64(pos+1)))
			}
			_ = t.rawSet(float64(n), nil)
			return []any{v}, nil
		},
		"concat": func(args []any) ([]any, error) {
			t := e.checkTable(args, 0, "concat")
			sep := e.optStr(args, 1, "concat", "")
			i, j := e.optInt(args, 2, "concat", 1), e.optInt(args, 3, "concat", t.Len())
			var b strings.Builder
			for ; i <= j; i++ {
				s, ok := toStringCoerce(t.rawGet(float64(i)))
				if !ok {
					e.errorf("invalid value (at index %d) in table for 'concat'", i)
				}
				b.WriteString(s)
				if i != j {
					b.WriteString(sep)
				}
			}
			return []any{b.String()}, nil
		},
		"sort": func(args []any) ([]any, error) {
			t := e.checkTable(args, 0, "sort")
			cmp := arg(args, 1)
			if cmp != nil && !isFunc(cmp) {
				e.typeError(args, 1, "sort", "function")
			}
			vals := make([]any, t.Len())
			for i := range vals {
				vals[i] = t.rawGet(float64(i + 1))
			}
			sort.Sort(&sorter{e: e, vals: vals, cmp: cmp})
			for i, v := range vals {
				_ = t.rawSet(float64(i+1), v)
			}
			return nil, nil
		},
	})
}

type sorter struct {
	e    *Env
	vals []any
	cmp  any
}

func (s *sorter) Len() int      { return len(s.vals) }
func (s *sorter) Swap(i, j int) { s.vals[i], s.vals[j] = s.vals[j], s.vals[i] }
func (s *sorter) Less(i, j int) bool {
	if s.cmp != nil {
		return truthy(s.e.call1(s.cmp, s.vals[i], s.vals[j]))
	}
	return s.e.lessThan(s.vals[i], s.vals[j], false)
}

// ---------------------------------------------------------------- math library

func (e *Env) random() float64 { // deterministic xorshift64*, reseeded for every top level Run
	if e.rng == 0 {
		e.rng = 0x9E3779B97F4A7C15
	}
	e.rng ^= e.rng >> 12
	e.rng ^= e.rng << 25
	e.rng ^= e.rng >> 27
	return float64((e.rng*0x2545F4914F6CDD1D)>>11) / (1 << 53)
}

func (e *Env) openMath() {
	m1 := func(name string, f func(float64) float64) GoFunc {
		return func(args []any) ([]any, error) { return []any{f(e.checkNum(args, 0, name))}, nil }
	}
	m2 := func(name string, f func(a, b float64) float64) GoFunc {
		return func(args []any) ([]any, error) {
			return []any{f(e.checkNum(args, 0, name), e.checkNum(args, 1, name))}, nil
		}
	}
	fold := func(name string, f func(a, b float64) float64) GoFunc {
		return func(args []any) ([]any, error) {
			r := e.checkNum(args, 0, name)
			for i := 1; i < len(args); i++ {
				r = f(r, e.checkNum(args, i, name))
			}
			return []any{r}, nil
		}
	}
	t := e.lib("math", map[string]GoFunc{
		"floor": m1("floor", math.Floor), "ceil": m1("ceil", math.Ceil), "abs": m1("abs", math.Abs),
		"sqrt": m1("sqrt", math.Sqrt), "exp": m1("exp", math.Exp), "log": m1("log", math.Log),
		"log10": m1("log10", math.Log10), "sin": m1("sin", math.Sin), "cos": m1("cos", math.Cos), "tan": m1("tan", math.Tan),
		"fmod": m2("fmod", math.Mod), "pow": m2("pow", math.Pow),
		"max": fold("max", func(a, b float64) float64 {
			if b > a {
				return b
			}
			return a
		}),
		"min": fold("min", func(a, b float64) float64 {
			if b < a {
				return b
			}
			return a
		}),
		"modf": func(args []any) ([]any, error) {
			f := e.checkNum(args, 0, "modf")
			if math.IsInf(f, 0) {
				return []any{f, 0.0}, nil
			}
			ip, fp := math.Modf(f)
			return []any{ip, fp}, nil
		},
		"random": func(args []any) ([]any, error) {
			r := e.random()
			switch len(args) {
			case 0:
				return []any{r}, nil
			case 1:
				u := e.checkInt(args, 0, "random")
				if u < 1 {
					e.argError(0, "random", "interval is empty")
				}
				return []any{math.Floor(r*float64(u)) + 1}, nil
			case 2:
				l, u := e.checkInt(args, 0, "random"), e.checkInt(args, 1, "random")
				if l > u {
					e.argError(1, "random", "interval is empty")
				}
				return []any{math.Floor(r*float64(u-l+1)) + float64(l)}, nil
			}
			e.errorf("wrong number of arguments")
			return nil, nil
		},
		"randomseed": func(args []any) ([]any, error) {
			e.rng = uint64(int64(e.checkNum(args, 0, "randomseed")))*0x9E3779B97F4A7C15 + 1
			return nil, nil
		},
	})
	t.Set("huge", math.Inf(1))
	t.Set("pi", math.Pi)
}

// ---------------------------------------------------------------- bit library (LuaBitOp as shipped with Redis)

func (e *Env) tobit(args []any, i int, fname string) int32 {
	f := e.checkNum(args, i, fname)
	if f != f || math.IsInf(f, 0) {
		return math.MinInt32
	}
	f = math.RoundToEven(f)
	m := math.Mod(f, 4294967296)
	if m < 0 {
		m += 4294967296
	}
	return int32(uint32(m))
}

func (e *Env) openBit() {
	fold := func(name string, f func(a, b int32) int32) GoFunc {
		return func(args []any) ([]any, error) {
			r := e.tobit(args, 0, name)
			for i := 1; i < len(args); i++ {
				r = f(r, e.tobit(args, i, name))
			}
			return []any{float64(r)}, nil
		}
	}
	shift := func(name string, f func(a int32, n uint) int32) GoFunc {
		return func(args []any) ([]any, error) {
			return []any{float64(f(e.tobit(args, 0, name), uint(e.tobit(args, 1, name))&31))}, nil
		}
	}
	e.lib("bit", map[string]GoFunc{
		"tobit":   func(args []any) ([]any, error) { return []any{float64(e.tobit(args, 0, "tobit"))}, nil },
		"bnot":    func(args []any) ([]any, error) { return []any{float64(^e.tobit(args, 0, "bnot"))}, nil },
		"band":    fold("band", func(a, b int32) int32 { return a & b }),
		"bor":     fold("bor", func(a, b int32) int32 { return a | b }),
		"bxor":    fold("bxor", func(a, b int32) int32 { return a ^ b }),
		"lshift":  shift("lshift", func(a int32, n uint) int32 { return int32(uint32(a) << n) }),
		"rshift":  shift("rshift", func(a int32, n uint) int32 { return int32(uint32(a) >> n) }),
		"arshift": shift("arshift", func(a int32, n uint) int32 { return a >> n }),
		"rol":     shift("rol", func(a int32, n uint) int32 { return int32(uint32(a)<<n | uint32(a)>>((32-n)&31)) }),
		"ror":     shift("ror", func(a int32, n uint) int32 { return int32(uint32(a)>>n | uint32(a)<<((32-n)&31)) }),
		"bswap": func(args []any) ([]any, error) {
			b := uint32(e.tobit(args, 0, "bswap"))
			return []any{float64(int32(b>>24 | b>>8&0xff00 | b<<8&0xff0000 | b<<24))}, nil
		},
		"tohex": func(args []any) ([]any, error) {
			b, n := uint32(e.tobit(args, 0, "tohex")), 8
			if arg(args, 1) != nil {
				n = int(e.tobit(args, 1, "tohex"))
			}
			digits := "0123456789abcdef"
			if n < 0 {
				n, digits = -n, "0123456789ABCDEF"
			}
			if n > 8 {
				n = 8
			}
			buf := make([]byte, n)
			for i := n - 1; i >= 0; i-- {
				buf[i] = digits[b&15]
				b >>= 4
			}
			return []any{string(buf)}, nil
		},
	})
}
