package minilua

import (
	"fmt"
	"strings"
)

type tokKind int

const (
	tEOF tokKind = iota + 256
	tName
	tNumber
	tString
	tAnd
	tBreak
	tDo
	tElse
	tElseif
	tEnd
	tFalse
	tFor
	tFunction
	tIf
	tIn
	tLocal
	tNil
	tNot
	tOr
	tRepeat
	tReturn
	tThen
	tTrue
	tUntil
	tWhile
	tConcat // ..
	tDots   // ...
	tEq     // ==
	tGe     // >=
	tLe     // <=
	tNe     // ~=
)

var keywords = map[string]tokKind{
	"and": tAnd, "break": tBreak, "do": tDo, "else": tElse, "elseif": tElseif, "end": tEnd,
	"false": tFalse, "for": tFor, "function": tFunction, "if": tIf, "in": tIn, "local": tLocal,
	"nil": tNil, "not": tNot, "or": tOr, "repeat": tRepeat, "return": tReturn, "then": tThen,
	"true": tTrue, "until": tUntil, "while": tWhile,
}

type token struct {
	kind tokKind
	s    string  // name / string value / source text
	n    float64 // number value
	line int
}

func (t token) String() string {
	switch t.kind {
	case tEOF:
		return "<eof>"
	case tName, tNumber:
		return t.s
	case tString:
		return t.s
	case tConcat:
		return ".."
	case tDots:
		return "..."
	case tEq:
		return "=="
	case tGe:
		return ">="
	case tLe:
		return "<="
	case tNe:
		return "~="
	}
	if t.kind < 256 {
		return string(rune(t.kind))
	}
	for k, v := range keywords {
		if v == t.kind {
			return k
		}
	}
	return "?"
}

type syntaxError struct{ msg string }

type lexer struct {
	src   string
	pos   int
	line  int
	chunk string
}

func (lx *lexer) errorf(line int, near string, format string, a ...any) {
	msg := fmt.Sprintf("%s:%d: %s", lx.chunk, line, fmt.Sprintf(format, a...))
	if near != "" {
		msg += " near '" + near + "'"
	}
	panic(&syntaxError{msg})
}

func (lx *lexer) peekc(off int) byte {
	if lx.pos+off < len(lx.src) {
		return lx.src[lx.pos+off]
	}
	return 0
}

func isAlpha(c byte) bool { return c == '_' || (c|0x20 >= 'a' && c|0x20 <= 'z') }
func isDigit(c byte) bool { return c >= '0' && c <= '9' }

// longBracket checks for "[" "="* "[" at pos and returns the level, or -1.
func (lx *lexer) longBracket() int {
	p := lx.pos + 1
	for p < len(lx.src) && lx.src[p] == '=' {
		p++
	}
	if p < len(lx.src) && lx.src[p] == '[' {
		return p - lx.pos - 1
	}
	return -1
}

func (lx *lexer) readLong(level int, what string) string {
	startLine := lx.line
	lx.pos += level + 2
	if lx.peekc(0) == '\r' {
		lx.pos++
		if lx.peekc(0) == '\n' {
			lx.pos++
		}
		lx.line++
	} else if lx.peekc(0) == '\n' {
		lx.pos++
		if lx.peekc(0) == '\r' {
			lx.pos++
		}
		lx.line++
	}
	closer := "]" + strings.Repeat("=", level) + "]"
	i := strings.Index(lx.src[lx.pos:], closer)
	if i < 0 {
		lx.errorf(startLine, "<eof>", "unfinished long %s", what)
	}
	s := lx.src[lx.pos : lx.pos+i]
	lx.line += strings.Count(s, "\n")
	lx.pos += i + len(closer)
	return s
}

func (lx *lexer) next() token {
	for lx.pos < len(lx.src) {
		c := lx.src[lx.pos]
		switch {
		case c == '\n':
			lx.line++
			lx.pos++
		case c == ' ' || c == '\t' || c == '\r' || c == '\f' || c == '\v':
			lx.pos++
		case c == '-' && lx.peekc(1) == '-':
			lx.pos += 2
			if lx.peekc(0) == '[' {
				if lvl := lx.longBracket(); lvl >= 0 {
					lx.readLong(lvl, "comment")
					continue
				}
			}
			for lx.pos < len(lx.src) && lx.src[lx.pos] != '\n' {
				lx.pos++
			}
		default:
			return lx.scan(c)
		}
	}
	return token{kind: tEOF, line: lx.line}
}

func (lx *lexer) scan(c byte) token {
	line := lx.line
	switch {
	case isAlpha(c):
		st := lx.pos
		for lx.pos < len(lx.src) && (isAlpha(lx.src[lx.pos]) || isDigit(lx.src[lx.pos])) {
			lx.pos++
		}
		s := lx.src[st:lx.pos]
		if k, ok := keywords[s]; ok {
			return token{kind: k, s: s, line: line}
		}
		return token{kind: tName, s: s, line: line}
	case isDigit(c) || (c == '.' && isDigit(lx.peekc(1))):
		st := lx.pos
		for isDigit(lx.peekc(0)) || lx.peekc(0) == '.' {
			lx.pos++
		}
		if ch := lx.peekc(0); ch == 'e' || ch == 'E' {
			lx.pos++
			if ch := lx.peekc(0); ch == '+' || ch == '-' {
				lx.pos++
			}
		}
		for isAlpha(lx.peekc(0)) || isDigit(lx.peekc(0)) {
			lx.pos++
		}
		s := lx.src[st:lx.pos]
		f, ok := str2number(s)
		if !ok {
			lx.errorf(line, s, "malformed number")
		}
		return token{kind: tNumber, s: s, n: f, line: line}
	case c == '"' || c == '\'':
		return lx.readString(c)
	case c == '[':
		if lvl := lx.longBracket(); lvl >= 0 {
			return token{kind: tString, s: lx.readLong(lvl, "string"), line: line}
		} else if lx.peekc(1) == '=' {
			lx.errorf(line, "[=", "invalid long string delimiter")
		}
	case c == '.':
		if lx.peekc(1) == '.' {
			if lx.peekc(2) == '.' {
				lx.pos += 3
				return token{kind: tDots, line: line}
			}
			lx.pos += 2
			return token{kind: tConcat, line: line}
		}
	case c == '=' && lx.peekc(1) == '=':
		lx.pos += 2
		return token{kind: tEq, line: line}
	case c == '<' && lx.peekc(1) == '=':
		lx.pos += 2
		return token{kind: tLe, line: line}
	case c == '>' && lx.peekc(1) == '=':
		lx.pos += 2
		return token{kind: tGe, line: line}
	case c == '~':
		if lx.peekc(1) != '=' {
			lx.errorf(line, "~", "unexpected symbol")
		}
		lx.pos += 2
		return token{kind: tNe, line: line}
	}
	if !strings.ContainsRune("+-*/%^#<>=(){}[];:,.", rune(c)) {
		lx.errorf(line, string(rune(c)), "unexpected symbol")
	}
	lx.pos++
	return token{kind: tokKind(c), line: line}
}

func (lx *lexer) readString(q byte) token {
	line := lx.line
	st := lx.pos
	lx.pos++
	var b []byte
	for {
		if lx.pos >= len(lx.src) {
			lx.errorf(lx.line, "<eof>", "unfinished string")
		}
		c := lx.src[lx.pos]
		switch {
		case c == q:
			lx.pos++
			return token{kind: tString, s: string(b), line: line}
		case c == '\n' || c == '\r':
			lx.errorf(lx.line, lx.src[st:lx.pos], "unfinished string")
		case c != '\\':
			b = append(b, c)
			lx.pos++
		default:
			lx.pos++
			e := lx.peekc(0)
			if lx.pos >= len(lx.src) {
				continue // reported as unfinished string
			}
			lx.pos++
			switch e {
			case 'a':
				b = append(b, 7)
			case 'b':
				b = append(b, 8)
			case 'f':
				b = append(b, 12)
			case 'n':
				b = append(b, '\n')
			case 'r':
				b = append(b, '\r')
			case 't':
				b = append(b, '\t')
			case 'v':
				b = append(b, 11)
			case '\n', '\r':
				if n := lx.peekc(0); (n == '\n' || n == '\r') && n != e {
					lx.pos++
				}
				lx.line++
				b = append(b, '\n')
			case 'x':
				h1, h2 := hexVal(lx.peekc(0)), hexVal(lx.peekc(1))
				if h1 < 0 || h2 < 0 {
					lx.errorf(lx.line, lx.src[st:lx.pos], "hexadecimal digit expected")
				}
				b = append(b, byte(h1<<4|h2))
				lx.pos += 2
			case 'z':
				for lx.pos < len(lx.src) && isSpace(lx.src[lx.pos]) {
					if lx.src[lx.pos] == '\n' {
						lx.line++
					}
					lx.pos++
				}
			default:
				if !isDigit(e) {
					b = append(b, e) // Lua 5.1: unknown escapes yield the character itself
					break
				}
				v := int(e - '0')
				for i := 0; i < 2 && isDigit(lx.peekc(0)); i++ {
					v = v*10 + int(lx.peekc(0)-'0')
					lx.pos++
				}
				if v > 255 {
					lx.errorf(lx.line, lx.src[st:lx.pos], "escape sequence too large")
				}
				b = append(b, byte(v))
			}
		}
	}
}
