// Package minilua is a small, dependency-free interpreter for the subset of
// Lua 5.1 that Redis scripts use. It is a hand written lexer, recursive descent
// parser and tree walking evaluator.
//
// Lua values are plain Go values: nil, bool, float64, string, *Table, and
// functions (*Closure for Lua functions, GoFunc for Go functions).
//
// An Env is NOT safe for concurrent use; a compiled Chunk is immutable and may
// be run concurrently with different Envs.
package minilua

import (
	"fmt"
	"math"
	"reflect"
	"strconv"
	"strings"
	"unsafe"
)

// GoFunc is a Lua-callable Go function. A non-nil error raises a Lua error
// (catchable by pcall); if the error is a *LuaError its Value is the Lua error
// value, otherwise the error value is err.Error().
type GoFunc func(args []any) ([]any, error)

// Closure is a Lua function value.
type Closure struct {
	proto  *funcProto
	upvals []*cell
}

type cell struct{ v any }

// Userdata is an opaque value (type() == "userdata"); cjson.null is one.
type Userdata struct{ Name string }

// LuaError is an error raised by error(), by a failing operation, or by a GoFunc.
type LuaError struct {
	Value any    // the Lua error value (string, table, ...)
	Msg   string // human readable message
}

func (e *LuaError) Error() string { return e.Msg }

// abortError is raised for non-catchable conditions (MaxSteps exceeded).
type abortError struct{ msg string }

// ---------------------------------------------------------------- tables

// Table is a Lua table with an array part (keys 1..n) and an insertion ordered hash part.
type Table struct {
	arr   []any
	hidx  map[any]int // normalised key -> position in hkeys/hvals
	hkeys []any
	hvals []any // nil == deleted (tombstone, kept so that next() keeps working)
	dead  int
	meta  *Table
}

func NewTable() *Table { return &Table{} }

// NewArray builds a table with vals at 1..n (Go numeric types are converted to float64).
func NewArray(vals ...any) *Table {
	t := &Table{arr: make([]any, 0, len(vals))}
	for _, v := range vals {
		t.Append(v)
	}
	return t
}

type funcKey struct{ p unsafe.Pointer }

func funcPtr(f GoFunc) unsafe.Pointer { return *(*unsafe.Pointer)(unsafe.Pointer(&f)) }

// normalize converts convenient Go values into canonical Lua values.
func normalize(v any) any {
	switch x := v.(type) {
	case nil, bool, float64, string, *Table, *Closure, GoFunc:
		return v
	case int:
		return float64(x)
	case int64:
		return float64(x)
	case int32:
		return float64(x)
	case uint64:
		return float64(x)
	case uint32:
		return float64(x)
	case uint8:
		return float64(x)
	case float32:
		return float64(x)
	case []byte:
		return string(x)
	case func([]any) ([]any, error):
		return GoFunc(x)
	case []any:
		return NewArray(x...)
	case []string:
		t := NewTable()
		for _, s := range x {
			t.Append(s)
		}
		return t
	}
	return v
}

func normKey(k any) any {
	if f, ok := k.(GoFunc); ok {
		return funcKey{funcPtr(f)}
	}
	return k
}

func arrIndex(k any) (int, bool) {
	if f, ok := k.(float64); ok && f >= 1 && f < 1<<31 {
		if i := int(f); float64(i) == f {
			return i, true
		}
	}
	return 0, false
}

// Get returns t[key] (raw, no metamethods).
func (t *Table) Get(key any) any { return t.rawGet(normalize(key)) }

// Set does t[key] = val (raw); val nil deletes. nil and NaN keys are ignored.
func (t *Table) Set(key, val any) { _ = t.rawSet(normalize(key), normalize(val)) }

// Len is the border used by the # operator.
func (t *Table) Len() int { return len(t.arr) }

// Append does t[#t+1] = v.
func (t *Table) Append(v any) { _ = t.rawSet(float64(len(t.arr)+1), normalize(v)) }

// Array returns a copy of the array part (t[1]..t[#t]).
func (t *Table) Array() []any { return append([]any(nil), t.arr...) }

// Metatable / SetMetatable access the table's metatable.
func (t *Table) Metatable() *Table      { return t.meta }
func (t *Table) SetMetatable(mt *Table) { t.meta = mt }

func (t *Table) rawGet(key any) any {
	if f, ok := key.(float64); ok {
		if i := int(f); float64(i) == f && i >= 1 && i <= len(t.arr) {
			return t.arr[i-1]
		}
		if f != f {
			return nil
		}
	}
	if t.hidx == nil || key == nil {
		return nil
	}
	if i, ok := t.hidx[normKey(key)]; ok {
		return t.hvals[i]
	}
	return nil
}

func (t *Table) rawSet(key, val any) error {
	if key == nil {
		return fmt.Errorf("table index is nil")
	}
	if f, ok := key.(float64); ok && f != f {
		return fmt.Errorf("table index is NaN")
	}
	if i, ok := arrIndex(key); ok {
		if i <= len(t.arr) {
			t.arr[i-1] = val
			if val == nil && i == len(t.arr) {
				n := len(t.arr) - 1
				for n > 0 && t.arr[n-1] == nil {
					n--
				}
				t.arr = t.arr[:n]
			}
			return nil
		}
		if i == len(t.arr)+1 && val != nil {
			t.hashDelete(key)
			t.arr = append(t.arr, val)
			for t.hidx != nil && len(t.hkeys) > t.dead { // migrate following keys out of the hash part
				k := float64(len(t.arr) + 1)
				p, ok := t.hidx[k]
				if !ok || t.hvals[p] == nil {
					break
				}
				v := t.hvals[p]
				t.hashDelete(k)
				t.arr = append(t.arr, v)
			}
			return nil
		}
	}
	nk := normKey(key)
	if val == nil {
		t.hashDelete(key)
		return nil
	}
	if p, ok := t.hidx[nk]; ok {
		if t.hvals[p] == nil {
			t.dead--
		}
		t.hvals[p] = val
		return nil
	}
	if t.dead > 8 && t.dead > len(t.hkeys)/2 { // compact tombstones (only on insertion of a new key)
		keys, vals := t.hkeys, t.hvals
		t.hkeys, t.hvals, t.dead = nil, nil, 0
		t.hidx = make(map[any]int, len(keys))
		for i, v := range vals {
			if v != nil {
				t.hidx[normKey(keys[i])] = len(t.hkeys)
				t.hkeys = append(t.hkeys, keys[i])
				t.hvals = append(t.hvals, v)
			}
		}
	}
	if t.hidx == nil {
		t.hidx = make(map[any]int)
	}
	t.hidx[nk] = len(t.hkeys)
	t.hkeys = append(t.hkeys, key)
	t.hvals = append(t.hvals, val)
	return nil
}

func (t *Table) hashDelete(key any) {
	if t.hidx == nil {
		return
	}
	if p, ok := t.hidx[normKey(key)]; ok && t.hvals[p] != nil {
		t.hvals[p] = nil
		t.dead++
	}
}

// next returns the entry after key. status: 0 = found, 1 = end, 2 = invalid key.
func (t *Table) next(key any) (k, v any, status int) {
	ai, hi := 0, 0 // where to continue scanning in arr / hash
	if key != nil {
		if i, ok := arrIndex(key); ok && i <= len(t.arr) {
			ai = i
		} else if p, ok := t.hidx[normKey(key)]; ok && t.hidx != nil {
			ai, hi = len(t.arr), p+1
		} else if ok := i > len(t.arr); ok {
			ai = len(t.arr) // array shrank while traversing (t[k] = nil during pairs)
		} else {
			return nil, nil, 2
		}
	}
	for ; ai < len(t.arr); ai++ {
		if t.arr[ai] != nil {
			return float64(ai + 1), t.arr[ai], 0
		}
	}
	for ; hi < len(t.hkeys); hi++ {
		if t.hvals[hi] != nil {
			return t.hkeys[hi], t.hvals[hi], 0
		}
	}
	return nil, nil, 1
}

// Next iterates deterministically: array part 1..n first, then the hash part in
// insertion order. Start with key == nil; ok is false at the end (or for an unknown key).
func (t *Table) Next(key any) (k, v any, ok bool) {
	k, v, st := t.next(normalize(key))
	return k, v, st == 0
}

// ---------------------------------------------------------------- value helpers

func typeName(v any) string {
	switch v.(type) {
	case nil:
		return "nil"
	case bool:
		return "boolean"
	case float64:
		return "number"
	case string:
		return "string"
	case *Table:
		return "table"
	case *Closure, GoFunc:
		return "function"
	}
	return "userdata"
}

func truthy(v any) bool {
	if v == nil {
		return false
	}
	if b, ok := v.(bool); ok {
		return b
	}
	return true
}

func rawEquals(a, b any) bool {
	switch x := a.(type) {
	case nil:
		return b == nil
	case bool:
		y, ok := b.(bool)
		return ok && x == y
	case float64:
		y, ok := b.(float64)
		return ok && x == y
	case string:
		y, ok := b.(string)
		return ok && x == y
	case *Table:
		y, ok := b.(*Table)
		return ok && x == y
	case *Closure:
		y, ok := b.(*Closure)
		return ok && x == y
	case GoFunc:
		y, ok := b.(GoFunc)
		return ok && funcPtr(x) == funcPtr(y)
	}
	if b == nil || reflect.TypeOf(a) != reflect.TypeOf(b) || !reflect.TypeOf(a).Comparable() {
		return false
	}
	return a == b
}

// fmtNum formats a number like Lua 5.1's "%.14g".
func fmtNum(f float64) string {
	switch {
	case math.IsInf(f, 1):
		return "inf"
	case math.IsInf(f, -1):
		return "-inf"
	case f != f:
		return "nan"
	}
	if i := int64(f); float64(i) == f && i > -100000000000000 && i < 100000000000000 && (i != 0 || !math.Signbit(f)) {
		return strconv.FormatInt(i, 10)
	}
	return strconv.FormatFloat(f, 'g', 14, 64)
}

func isSpace(c byte) bool { return c == ' ' || (c >= 9 && c <= 13) }

// str2number converts a string to a number the way Lua 5.1 (strtod + hex) does.
func str2number(s string) (float64, bool) {
	for len(s) > 0 && isSpace(s[0]) {
		s = s[1:]
	}
	for len(s) > 0 && isSpace(s[len(s)-1]) {
		s = s[:len(s)-1]
	}
	if s == "" {
		return 0, false
	}
	body, neg := s, false
	if body[0] == '+' || body[0] == '-' {
		neg = body[0] == '-'
		body = body[1:]
	}
	if len(body) > 2 && body[0] == '0' && (body[1] == 'x' || body[1] == 'X') {
		var f float64
		for _, c := range []byte(body[2:]) {
			d := hexVal(c)
			if d < 0 {
				return 0, false
			}
			f = f*16 + float64(d)
		}
		if neg {
			f = -f
		}
		return f, true
	}
	switch strings.ToLower(body) {
	case "inf", "infinity":
		return math.Inf(map[bool]int{false: 1, true: -1}[neg]), true
	case "nan":
		return math.NaN(), true
	}
	i, nd := 0, 0
	for i < len(body) && body[i] >= '0' && body[i] <= '9' {
		i, nd = i+1, nd+1
	}
	if i < len(body) && body[i] == '.' {
		i++
		for i < len(body) && body[i] >= '0' && body[i] <= '9' {
			i, nd = i+1, nd+1
		}
	}
	if nd == 0 {
		return 0, false
	}
	if i < len(body) && (body[i] == 'e' || body[i] == 'E') {
		i++
		if i < len(body) && (body[i] == '+' || body[i] == '-') {
			i++
		}
		ne := 0
		for i < len(body) && body[i] >= '0' && body[i] <= '9' {
			i, ne = i+1, ne+1
		}
		if ne == 0 {
			return 0, false
		}
	}
	if i != len(body) {
		return 0, false
	}
	f, err := strconv.ParseFloat(s, 64)
	if err != nil && !math.IsInf(f, 0) {
		return 0, false
	}
	return f, true
}

func hexVal(c byte) int {
	switch {
	case c >= '0' && c <= '9':
		return int(c - '0')
	case c >= 'a' && c <= 'f':
		return int(c-'a') + 10
	case c >= 'A' && c <= 'F':
		return int(c-'A') + 10
	}
	return -1
}

// toNumber implements Lua's number coercion (numbers and numeric strings).
func toNumber(v any) (float64, bool) {
	switch x := v.(type) {
	case float64:
		return x, true
	case string:
		return str2number(x)
	}
	return 0, false
}

// toStringCoerce implements Lua's string coercion (strings and numbers only).
func toStringCoerce(v any) (string, bool) {
	switch x := v.(type) {
	case string:
		return x, true
	case float64:
		return fmtNum(x), true
	}
	return "", false
}

// growArray extends the array part (with nil holes) up to the last non-nil
// element at an index <= n; used by table constructors and unpack-like builders.
func (t *Table) growArray(n int) {
	for n > len(t.arr) && t.rawGet(float64(n)) == nil {
		n--
	}
	for i := len(t.arr) + 1; i <= n; i++ {
		k := float64(i)
		v := t.rawGet(k)
		t.hashDelete(k)
		t.arr = append(t.arr, v)
	}
}
