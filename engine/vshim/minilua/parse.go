package minilua

import "fmt"

// ---------------------------------------------------------------- AST

type funcProto struct {
	name     string
	chunk    string
	line     int
	params   []*localVar
	isVararg bool
	nslots   int
	upvals   []upvalDesc
	body     *block
}

type upvalDesc struct {
	fromLocal bool // true: slot in the enclosing function's frame; false: index in its upvalues
	idx       int
	name      string
}

type localVar struct {
	name     string
	slot     int
	captured bool // captured by an inner function: lives in a *cell
}

type block struct {
	stmts []stmt
	lines []int
}

type expr interface{ eval(fr *frame) any }

type multiExpr interface {
	expr
	evalMulti(fr *frame) []any
}

type stmt interface{ exec(fr *frame) ctl }

type (
	constExpr struct{ v any }
	localExpr struct{ v *localVar }
	upvalExpr struct {
		idx  int
		name string
	}
	globalExpr struct {
		name string
		line int
	}
	varargExpr struct{}
	indexExpr  struct {
		obj, key expr
		line     int
	}
	callExpr struct {
		fn   expr
		args []expr
		line int
	}
	methExpr struct {
		obj  expr
		name string
		args []expr
		line int
	}
	funcExpr struct{ proto *funcProto }
	binExpr  struct {
		op   tokKind
		a, b expr
		line int
	}
	andExpr struct{ a, b expr }
	orExpr  struct{ a, b expr }
	unExpr  struct {
		op   tokKind
		a    expr
		line int
	}
	parenExpr struct{ e expr }
	tableItem struct{ key, val expr } // key == nil: positional
	tableExpr struct {
		items []tableItem
		line  int
	}

	localStmt struct {
		vars  []*localVar
		exprs []expr
	}
	assignStmt struct {
		targets, exprs []expr
		line           int
	}
	callStmt  struct{ call multiExpr }
	doStmt    struct{ body *block }
	whileStmt struct {
		cond expr
		body *block
	}
	repeatStmt struct {
		body *block
		cond expr
	}
	ifStmt struct {
		conds  []expr
		blocks []*block
		els    *block
	}
	numForStmt struct {
		v                  *localVar
		start, limit, step expr
		body               *block
		line               int
	}
	genForStmt struct {
		vars  []*localVar
		exprs []expr
		body  *block
		line  int
	}
	localFuncStmt struct {
		v  *localVar
		fn *funcExpr
	}
	returnStmt struct{ exprs []expr }
	breakStmt  struct{}
)

// ---------------------------------------------------------------- parser

type funcState struct {
	parent *funcState
	proto  *funcProto
	active []*localVar
	loops  int
}

type parser struct {
	lx       *lexer
	tok      token
	ahead    *token
	prevLine int
	fs       *funcState
	depth    int
}

const maxSyntaxDepth = 200

// Chunk is a compiled script.
type Chunk struct {
	Name string
	main *funcProto
}

// Compile parses src (chunk name "user_script").
func Compile(src string) (*Chunk, error) { return CompileNamed("user_script", src) }

// CompileNamed parses src; name is used as a prefix in error messages.
func CompileNamed(name, src string) (c *Chunk, err error) {
	defer func() {
		if r := recover(); r != nil {
			if se, ok := r.(*syntaxError); ok {
				c, err = nil, &LuaError{Value: se.msg, Msg: se.msg}
				return
			}
			msg := fmt.Sprintf("%s: internal compiler error: %v", name, r)
			c, err = nil, &LuaError{Value: msg, Msg: msg}
		}
	}()
	if name != "" && (name[0] == '=' || name[0] == '@') {
		name = name[1:]
	}
	lx := &lexer{src: src, line: 1, chunk: name}
	if len(src) > 0 && src[0] == '#' { // skip a shebang line (e.g. "#!lua name=mylib")
		for lx.pos < len(src) && src[lx.pos] != '\n' {
			lx.pos++
		}
	}
	p := &parser{lx: lx}
	p.tok = lx.next()
	proto := &funcProto{name: "main chunk", chunk: name, isVararg: true}
	p.fs = &funcState{proto: proto}
	proto.body = p.block()
	if p.tok.kind != tEOF {
		p.errExpected("<eof>")
	}
	return &Chunk{Name: name, main: proto}, nil
}

func (p *parser) advance() {
	p.prevLine = p.tok.line
	if p.ahead != nil {
		p.tok, p.ahead = *p.ahead, nil
	} else {
		p.tok = p.lx.next()
	}
}

func (p *parser) peek() token {
	if p.ahead == nil {
		t := p.lx.next()
		p.ahead = &t
	}
	return *p.ahead
}

func (p *parser) errorf(format string, a ...any) {
	p.lx.errorf(p.tok.line, p.tok.String(), format, a...)
}

func (p *parser) errExpected(what string) { p.errorf("'%s' expected", what) }

func (p *parser) accept(k tokKind) bool {
	if p.tok.kind == k {
		p.advance()
		return true
	}
	return false
}

func (p *parser) expect(k tokKind, what string) {
	if !p.accept(k) {
		p.errExpected(what)
	}
}

// expectMatch is like expect but mentions the opening token on failure.
func (p *parser) expectMatch(k tokKind, what, open string, line int) {
	if p.accept(k) {
		return
	}
	if line == p.tok.line {
		p.errExpected(what)
	}
	p.errorf("'%s' expected (to close '%s' at line %d)", what, open, line)
}

func (p *parser) name() string {
	if p.tok.kind != tName {
		p.errExpected("<name>")
	}
	s := p.tok.s
	p.advance()
	return s
}

func (p *parser) enter() {
	p.depth++
	if p.depth > maxSyntaxDepth {
		p.errorf("chunk has too many syntax levels")
	}
}
func (p *parser) leave() { p.depth-- }

// ---- scoping

func (p *parser) declare(name string) *localVar {
	fs := p.fs
	v := &localVar{name: name, slot: fs.proto.nslots}
	fs.proto.nslots++
	fs.active = append(fs.active, v)
	return v
}

// newVar allocates a local that is not yet visible (activated later with activate).
func (p *parser) newVar(name string) *localVar {
	v := &localVar{name: name, slot: p.fs.proto.nslots}
	p.fs.proto.nslots++
	return v
}

func (p *parser) activate(vs ...*localVar) { p.fs.active = append(p.fs.active, vs...) }

func (fs *funcState) resolve(name string) (v *localVar, upidx int, global bool) {
	for i := len(fs.active) - 1; i >= 0; i-- {
		if fs.active[i].name == name {
			return fs.active[i], -1, false
		}
	}
	if fs.parent == nil {
		return nil, -1, true
	}
	for i, u := range fs.proto.upvals {
		if u.name == name {
			return nil, i, false
		}
	}
	pv, pidx, g := fs.parent.resolve(name)
	if g {
		return nil, -1, true
	}
	if pv != nil {
		pv.captured = true
		fs.proto.upvals = append(fs.proto.upvals, upvalDesc{fromLocal: true, idx: pv.slot, name: name})
	} else {
		fs.proto.upvals = append(fs.proto.upvals, upvalDesc{fromLocal: false, idx: pidx, name: name})
	}
	return nil, len(fs.proto.upvals) - 1, false
}

func (p *parser) varExpr(name string, line int) expr {
	v, up, global := p.fs.resolve(name)
	switch {
	case global:
		return &globalExpr{name: name, line: line}
	case v != nil:
		return &localExpr{v: v}
	}
	return &upvalExpr{idx: up, name: name}
}

// ---- statements

func blockEnd(k tokKind) bool {
	return k == tEOF || k == tEnd || k == tElse || k == tElseif || k == tUntil
}

// block parses statements in a new scope.
func (p *parser) block() *block {
	n := len(p.fs.active)
	b := p.blockNoScope()
	p.fs.active = p.fs.active[:n]
	return b
}

func (p *parser) blockNoScope() *block {
	p.enter()
	defer p.leave()
	b := &block{}
	for !blockEnd(p.tok.kind) {
		line := p.tok.line
		s, last := p.statement()
		b.stmts = append(b.stmts, s)
		b.lines = append(b.lines, line)
		p.accept(';')
		if last {
			break
		}
	}
	return b
}

func (p *parser) statement() (s stmt, last bool) {
	line := p.tok.line
	switch p.tok.kind {
	case tIf:
		return p.ifStat(line), false
	case tWhile:
		p.advance()
		cond := p.expr()
		p.expect(tDo, "do")
		body := p.loopBody()
		p.expectMatch(tEnd, "end", "while", line)
		return &whileStmt{cond: cond, body: body}, false
	case tDo:
		p.advance()
		body := p.block()
		p.expectMatch(tEnd, "end", "do", line)
		return &doStmt{body: body}, false
	case tFor:
		return p.forStat(line), false
	case tRepeat:
		p.advance()
		n := len(p.fs.active)
		p.fs.loops++
		body := p.blockNoScope()
		p.fs.loops--
		p.expectMatch(tUntil, "until", "repeat", line)
		cond := p.expr() // the condition sees the body's locals
		p.fs.active = p.fs.active[:n]
		return &repeatStmt{body: body, cond: cond}, false
	case tFunction:
		return p.funcStat(line), false
	case tLocal:
		p.advance()
		if p.accept(tFunction) {
			v := p.declare(p.name())
			return &localFuncStmt{v: v, fn: p.funcBody(false, line, v.name)}, false
		}
		return p.localStat(), false
	case tReturn:
		p.advance()
		var exprs []expr
		if !blockEnd(p.tok.kind) && p.tok.kind != ';' {
			exprs = p.exprList()
		}
		return &returnStmt{exprs: exprs}, true
	case tBreak:
		p.advance()
		if p.fs.loops == 0 {
			p.errorf("no loop to break")
		}
		return &breakStmt{}, true
	}
	return p.exprStat(line), false
}

func (p *parser) loopBody() *block {
	p.fs.loops++
	b := p.block()
	p.fs.loops--
	return b
}

func (p *parser) ifStat(line int) stmt {
	s := &ifStmt{}
	for {
		p.advance() // if / elseif
		s.conds = append(s.conds, p.expr())
		p.expect(tThen, "then")
		s.blocks = append(s.blocks, p.block())
		if p.tok.kind != tElseif {
			break
		}
	}
	if p.accept(tElse) {
		s.els = p.block()
	}
	p.expectMatch(tEnd, "end", "if", line)
	return s
}

func (p *parser) forStat(line int) stmt {
	p.advance()
	n := len(p.fs.active)
	defer func() { p.fs.active = p.fs.active[:n] }()
	n1 := p.name()
	if p.tok.kind == '=' {
		p.advance()
		s := &numForStmt{line: line}
		s.start = p.expr()
		p.expect(',', ",")
		s.limit = p.expr()
		if p.accept(',') {
			s.step = p.expr()
		}
		p.expect(tDo, "do")
		s.v = p.declare(n1)
		s.body = p.loopBody()
		p.expectMatch(tEnd, "end", "for", line)
		return s
	}
	if p.tok.kind != ',' && p.tok.kind != tIn {
		p.errExpected("= or in")
	}
	names := []string{n1}
	for p.accept(',') {
		names = append(names, p.name())
	}
	p.expect(tIn, "in")
	s := &genForStmt{line: line}
	s.exprs = p.exprList()
	p.expect(tDo, "do")
	for _, nm := range names {
		s.vars = append(s.vars, p.declare(nm))
	}
	s.body = p.loopBody()
	p.expectMatch(tEnd, "end", "for", line)
	return s
}

func (p *parser) funcStat(line int) stmt {
	p.advance()
	nline := p.tok.line
	fullname := p.name()
	var target expr = p.varExpr(fullname, nline)
	method := false
	for p.tok.kind == '.' || p.tok.kind == ':' {
		method = p.tok.kind == ':'
		p.advance()
		key := p.name()
		fullname += map[bool]string{false: ".", true: ":"}[method] + key
		target = &indexExpr{obj: target, key: &constExpr{key}, line: nline}
		if method {
			break
		}
	}
	fn := p.funcBody(method, line, fullname)
	return &assignStmt{targets: []expr{target}, exprs: []expr{fn}, line: line}
}

func (p *parser) localStat() stmt {
	s := &localStmt{}
	for {
		s.vars = append(s.vars, p.newVar(p.name()))
		if !p.accept(',') {
			break
		}
	}
	if p.accept('=') {
		s.exprs = p.exprList()
	}
	p.activate(s.vars...)
	return s
}

func (p *parser) exprStat(line int) stmt {
	e := p.suffixedExpr()
	switch c := e.(type) {
	case *callExpr:
		return &callStmt{call: c}
	case *methExpr:
		return &callStmt{call: c}
	}
	s := &assignStmt{targets: []expr{e}, line: line}
	for {
		switch s.targets[len(s.targets)-1].(type) {
		case *localExpr, *upvalExpr, *globalExpr, *indexExpr:
		default:
			p.errorf("syntax error")
		}
		if !p.accept(',') {
			break
		}
		s.targets = append(s.targets, p.suffixedExpr())
	}
	p.expect('=', "=")
	s.exprs = p.exprList()
	return s
}

// ---- expressions

func (p *parser) exprList() []expr {
	l := []expr{p.expr()}
	for p.accept(',') {
		l = append(l, p.expr())
	}
	return l
}

func (p *parser) funcBody(method bool, line int, name string) *funcExpr {
	proto := &funcProto{name: name, chunk: p.lx.chunk, line: line}
	p.fs = &funcState{parent: p.fs, proto: proto}
	if method {
		proto.params = append(proto.params, p.declare("self"))
	}
	p.expect('(', "(")
	if p.tok.kind != ')' {
		for {
			if p.accept(tDots) {
				proto.isVararg = true
				break
			}
			proto.params = append(proto.params, p.declare(p.name()))
			if !p.accept(',') {
				break
			}
		}
	}
	p.expect(')', ")")
	proto.body = p.block()
	p.expectMatch(tEnd, "end", "function", line)
	p.fs = p.fs.parent
	return &funcExpr{proto: proto}
}

func (p *parser) primaryExpr() expr {
	line := p.tok.line
	switch p.tok.kind {
	case tName:
		return p.varExpr(p.name(), line)
	case '(':
		p.advance()
		e := p.expr()
		p.expectMatch(')', ")", "(", line)
		return &parenExpr{e: e}
	}
	p.errorf("unexpected symbol")
	return nil
}

func (p *parser) suffixedExpr() expr {
	e := p.primaryExpr()
	for {
		line := p.tok.line
		switch p.tok.kind {
		case '.':
			p.advance()
			e = &indexExpr{obj: e, key: &constExpr{p.name()}, line: line}
		case '[':
			p.advance()
			k := p.expr()
			p.expect(']', "]")
			e = &indexExpr{obj: e, key: k, line: line}
		case ':':
			p.advance()
			nm := p.name()
			e = &methExpr{obj: e, name: nm, args: p.callArgs(), line: line}
		case '(', tString, '{':
			e = &callExpr{fn: e, args: p.callArgs(), line: line}
		default:
			return e
		}
	}
}

func (p *parser) callArgs() []expr {
	line := p.tok.line
	switch p.tok.kind {
	case tString:
		s := p.tok.s
		p.advance()
		return []expr{&constExpr{s}}
	case '{':
		return []expr{p.tableCons()}
	case '(':
		if line != p.prevLine {
			p.errorf("ambiguous syntax (function call x new statement)")
		}
		p.advance()
		var args []expr
		if p.tok.kind != ')' {
			args = p.exprList()
		}
		p.expectMatch(')', ")", "(", line)
		return args
	}
	p.errorf("function arguments expected")
	return nil
}

func (p *parser) tableCons() expr {
	line := p.tok.line
	t := &tableExpr{line: line}
	p.expect('{', "{")
	for p.tok.kind != '}' {
		switch {
		case p.tok.kind == tName && p.peek().kind == '=':
			k := p.name()
			p.advance()
			t.items = append(t.items, tableItem{key: &constExpr{k}, val: p.expr()})
		case p.tok.kind == '[':
			p.advance()
			k := p.expr()
			p.expect(']', "]")
			p.expect('=', "=")
			t.items = append(t.items, tableItem{key: k, val: p.expr()})
		default:
			t.items = append(t.items, tableItem{val: p.expr()})
		}
		if !p.accept(',') && !p.accept(';') {
			break
		}
	}
	p.expectMatch('}', "}", "{", line)
	return t
}

func (p *parser) simpleExpr() expr {
	switch p.tok.kind {
	case tNumber:
		n := p.tok.n
		p.advance()
		return &constExpr{n}
	case tString:
		s := p.tok.s
		p.advance()
		return &constExpr{s}
	case tNil:
		p.advance()
		return &constExpr{nil}
	case tTrue:
		p.advance()
		return &constExpr{true}
	case tFalse:
		p.advance()
		return &constExpr{false}
	case tDots:
		if !p.fs.proto.isVararg {
			p.errorf("cannot use '...' outside a vararg function")
		}
		p.advance()
		return &varargExpr{}
	case '{':
		return p.tableCons()
	case tFunction:
		line := p.tok.line
		p.advance()
		return p.funcBody(false, line, "anonymous")
	}
	return p.suffixedExpr()
}

// binary operator priorities {left, right}
var binPrio = map[tokKind][2]int{
	'+': {6, 6}, '-': {6, 6}, '*': {7, 7}, '/': {7, 7}, '%': {7, 7},
	'^': {10, 9}, tConcat: {5, 4},
	tEq: {3, 3}, tNe: {3, 3}, '<': {3, 3}, tLe: {3, 3}, '>': {3, 3}, tGe: {3, 3},
	tAnd: {2, 2}, tOr: {1, 1},
}

const unaryPrio = 8

func (p *parser) expr() expr { return p.subExpr(0) }

func (p *parser) subExpr(limit int) expr {
	p.enter()
	defer p.leave()
	var e expr
	if k := p.tok.kind; k == tNot || k == '-' || k == '#' {
		line := p.tok.line
		p.advance()
		a := p.subExpr(unaryPrio)
		if c, ok := a.(*constExpr); ok && k == '-' {
			if f, ok := c.v.(float64); ok {
				e = &constExpr{-f}
			}
		}
		if e == nil {
			e = &unExpr{op: k, a: a, line: line}
		}
	} else {
		e = p.simpleExpr()
	}
	for {
		op := p.tok.kind
		prio, ok := binPrio[op]
		if !ok || prio[0] <= limit {
			return e
		}
		line := p.tok.line
		p.advance()
		b := p.subExpr(prio[1])
		switch op {
		case tAnd:
			e = &andExpr{a: e, b: b}
		case tOr:
			e = &orExpr{a: e, b: b}
		default:
			e = &binExpr{op: op, a: e, b: b, line: line}
		}
	}
}
