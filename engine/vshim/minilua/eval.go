package minilua

import (
	"errors"
	"fmt"
	"math"
)

// Env holds the global table and per-execution state. Not safe for concurrent use.
type Env struct {
	Globals      *Table
	MaxSteps     int // if > 0: abort after that many executed statements / loop iterations / calls
	MaxCallDepth int // Lua call nesting limit (default 1000)

	steps  int
	depth  int
	line   int    // line currently executing (for error positions)
	chunk  string // chunk name of the running function
	sites  []callSite
	strlib *Table
	strmt  *Table
	rng    uint64

	origNext GoFunc
}

type callSite struct {
	chunk string
	line  int
}

type frame struct {
	env     *Env
	vals    []any
	varargs []any
	upvals  []*cell
	ret     []any
}

type ctl int

const (
	ctlNone ctl = iota
	ctlBreak
	ctlReturn
)

// ---------------------------------------------------------------- errors

func (e *Env) where() string {
	if e.line <= 0 {
		return ""
	}
	return fmt.Sprintf("%s:%d: ", e.chunk, e.line)
}

// throw raises a Lua error with an arbitrary value.
func (e *Env) throw(v any) {
	panic(&LuaError{Value: v, Msg: e.errString(v)})
}

// errorf raises a string error prefixed with the current position.
func (e *Env) errorf(format string, a ...any) {
	msg := e.where() + fmt.Sprintf(format, a...)
	panic(&LuaError{Value: msg, Msg: msg})
}

func (e *Env) errString(v any) string {
	switch x := v.(type) {
	case string:
		return x
	case float64:
		return fmtNum(x)
	case *Table:
		if s, ok := x.rawGet("err").(string); ok { // redis style error table
			return s
		}
	}
	return fmt.Sprintf("(error object is a %s value)", typeName(v))
}

func (e *Env) toLuaError(err error) *LuaError {
	var le *LuaError
	if errors.As(err, &le) {
		if le.Msg == "" {
			return &LuaError{Value: le.Value, Msg: e.errString(le.Value)}
		}
		return le
	}
	return &LuaError{Value: err.Error(), Msg: err.Error()}
}

// recovered converts a recovered panic value into an error (re-panics nothing).
func recoveredError(r any) (err *LuaError, fatal bool) {
	switch x := r.(type) {
	case *LuaError:
		return x, false
	case *abortError:
		return &LuaError{Value: x.msg, Msg: x.msg}, true
	case error:
		msg := "internal error: " + x.Error()
		return &LuaError{Value: msg, Msg: msg}, false
	}
	msg := fmt.Sprintf("internal error: %v", r)
	return &LuaError{Value: msg, Msg: msg}, false
}

func (e *Env) step() {
	if e.MaxSteps > 0 {
		e.steps++
		if e.steps > e.MaxSteps {
			panic(&abortError{msg: fmt.Sprintf("%sscript aborted: exceeded MaxSteps (%d)", e.where(), e.MaxSteps)})
		}
	}
}

// ---------------------------------------------------------------- running

// Run executes the chunk as a vararg main function with env's globals.
func (c *Chunk) Run(env *Env, args ...any) (rets []any, err error) {
	return env.protect(func() []any {
		return env.callClosure(&Closure{proto: c.main}, normalizeAll(args))
	})
}

func normalizeAll(args []any) []any {
	out := make([]any, len(args))
	for i, a := range args {
		out[i] = normalize(a)
	}
	return out
}

// Call calls a Lua function value (e.g. a callback stored by a GoFunc) from Go.
func (e *Env) Call(fn any, args ...any) ([]any, error) {
	return e.protect(func() []any { return e.call(normalize(fn), normalizeAll(args)) })
}

// protect runs f, converting panics into errors and restoring the interpreter state.
func (e *Env) protect(f func() []any) (rets []any, err error) {
	top := e.depth == 0
	if top {
		e.steps, e.line, e.chunk, e.sites, e.rng = 0, 0, "", e.sites[:0], 0
	}
	depth, line, chunk, nsites := e.depth, e.line, e.chunk, len(e.sites)
	defer func() {
		if r := recover(); r != nil {
			le, _ := recoveredError(r)
			rets, err = nil, le
		}
		e.depth, e.line, e.chunk, e.sites = depth, line, chunk, e.sites[:nsites]
	}()
	return f(), nil
}

func (e *Env) maxDepth() int {
	if e.MaxCallDepth > 0 {
		return e.MaxCallDepth
	}
	return 1000
}

func (e *Env) call(fn any, args []any) []any {
	switch f := fn.(type) {
	case *Closure:
		return e.callClosure(f, args)
	case GoFunc:
		if e.depth >= e.maxDepth() {
			e.errorf("stack overflow")
		}
		e.depth++
		rets, err := f(args)
		e.depth--
		if err != nil {
			panic(e.toLuaError(err))
		}
		for i, r := range rets {
			switch r.(type) {
			case nil, bool, float64, string, *Table:
			default:
				rets[i] = normalize(r)
			}
		}
		return rets
	}
	if h := e.metaOf(fn, "__call"); h != nil {
		return e.call(h, append([]any{fn}, args...))
	}
	e.errorf("attempt to call a %s value", typeName(fn))
	return nil
}

func (e *Env) call1(fn any, args ...any) any {
	if r := e.call(fn, args); len(r) > 0 {
		return r[0]
	}
	return nil
}

func (e *Env) callClosure(c *Closure, args []any) []any {
	p := c.proto
	if e.depth >= e.maxDepth() {
		e.errorf("stack overflow")
	}
	e.step()
	line, chunk := e.line, e.chunk
	e.depth++
	e.sites = append(e.sites, callSite{chunk, line})
	fr := &frame{env: e, vals: make([]any, p.nslots), upvals: c.upvals}
	for i, pv := range p.params {
		var a any
		if i < len(args) {
			a = args[i]
		}
		fr.declare(pv, a)
	}
	if p.isVararg && len(args) > len(p.params) {
		fr.varargs = args[len(p.params):]
	}
	e.chunk = p.chunk
	p.body.exec(fr)
	e.depth--
	e.sites = e.sites[:len(e.sites)-1]
	e.line, e.chunk = line, chunk
	return fr.ret
}

func (fr *frame) declare(v *localVar, val any) {
	if v.captured {
		fr.vals[v.slot] = &cell{val}
	} else {
		fr.vals[v.slot] = val
	}
}

func (fr *frame) assign(v *localVar, val any) {
	if v.captured {
		fr.vals[v.slot].(*cell).v = val
	} else {
		fr.vals[v.slot] = val
	}
}

// ---------------------------------------------------------------- statements

func (b *block) exec(fr *frame) ctl {
	e := fr.env
	for i, s := range b.stmts {
		e.line = b.lines[i]
		e.step()
		if c := s.exec(fr); c != ctlNone {
			return c
		}
	}
	return ctlNone
}

func evalList(fr *frame, exprs []expr) []any {
	n := len(exprs)
	if n == 0 {
		return nil
	}
	if m, ok := exprs[n-1].(multiExpr); ok {
		if n == 1 {
			return m.evalMulti(fr)
		}
		vals := make([]any, n-1, n+3)
		for i := 0; i < n-1; i++ {
			vals[i] = exprs[i].eval(fr)
		}
		return append(vals, m.evalMulti(fr)...)
	}
	vals := make([]any, n)
	for i, x := range exprs {
		vals[i] = x.eval(fr)
	}
	return vals
}

func (s *localStmt) exec(fr *frame) ctl {
	if len(s.vars) == 1 && len(s.exprs) == 1 {
		fr.declare(s.vars[0], s.exprs[0].eval(fr))
		return ctlNone
	}
	vals := evalList(fr, s.exprs)
	for i, v := range s.vars {
		var x any
		if i < len(vals) {
			x = vals[i]
		}
		fr.declare(v, x)
	}
	return ctlNone
}

func (s *assignStmt) exec(fr *frame) ctl {
	e := fr.env
	if len(s.targets) == 1 && len(s.exprs) == 1 {
		if ix, ok := s.targets[0].(*indexExpr); ok {
			obj, key := ix.obj.eval(fr), ix.key.eval(fr)
			val := s.exprs[0].eval(fr)
			e.line = ix.line
			e.setIndex(obj, key, val, ix.obj)
			return ctlNone
		}
		fr.store(s.targets[0], s.exprs[0].eval(fr))
		return ctlNone
	}
	type ref struct{ obj, key any }
	refs := make([]ref, len(s.targets))
	for i, t := range s.targets {
		if ix, ok := t.(*indexExpr); ok {
			refs[i] = ref{ix.obj.eval(fr), ix.key.eval(fr)}
		}
	}
	vals := evalList(fr, s.exprs)
	for i := len(s.targets) - 1; i >= 0; i-- {
		var x any
		if i < len(vals) {
			x = vals[i]
		}
		if ix, ok := s.targets[i].(*indexExpr); ok {
			e.line = ix.line
			e.setIndex(refs[i].obj, refs[i].key, x, ix.obj)
		} else {
			fr.store(s.targets[i], x)
		}
	}
	return ctlNone
}

func (fr *frame) store(target expr, val any) {
	switch t := target.(type) {
	case *localExpr:
		fr.assign(t.v, val)
	case *upvalExpr:
		fr.upvals[t.idx].v = val
	case *globalExpr:
		if g := fr.env.Globals; g.meta == nil {
			_ = g.rawSet(t.name, val)
		} else { // e.g. Redis' "Script attempted to create global variable" guard
			fr.env.line = t.line
			fr.env.setIndex(g, t.name, val, nil)
		}
	default:
		fr.env.errorf("cannot assign to this expression")
	}
}

func (s *callStmt) exec(fr *frame) ctl { s.call.evalMulti(fr); return ctlNone }

func (s *doStmt) exec(fr *frame) ctl { return s.body.exec(fr) }

func (s *whileStmt) exec(fr *frame) ctl {
	for truthy(s.cond.eval(fr)) {
		fr.env.step()
		if c := s.body.exec(fr); c == ctlBreak {
			break
		} else if c == ctlReturn {
			return c
		}
	}
	return ctlNone
}

func (s *repeatStmt) exec(fr *frame) ctl {
	for {
		fr.env.step()
		if c := s.body.exec(fr); c == ctlBreak {
			break
		} else if c == ctlReturn {
			return c
		}
		if truthy(s.cond.eval(fr)) {
			break
		}
	}
	return ctlNone
}

func (s *ifStmt) exec(fr *frame) ctl {
	for i, c := range s.conds {
		if truthy(c.eval(fr)) {
			return s.blocks[i].exec(fr)
		}
	}
	if s.els != nil {
		return s.els.exec(fr)
	}
	return ctlNone
}

func (s *numForStmt) exec(fr *frame) ctl {
	e := fr.env
	get := func(x expr, what string) float64 {
		f, ok := toNumber(x.eval(fr))
		if !ok {
			e.line = s.line
			e.errorf("'for' %s must be a number", what)
		}
		return f
	}
	start, limit, step := get(s.start, "initial value"), get(s.limit, "limit"), 1.0
	if s.step != nil {
		step = get(s.step, "step")
	}
	for i := start; (step > 0 && i <= limit) || (step <= 0 && limit <= i); i += step {
		e.step()
		fr.declare(s.v, i)
		if c := s.body.exec(fr); c == ctlBreak {
			break
		} else if c == ctlReturn {
			return c
		}
	}
	return ctlNone
}

func (s *genForStmt) exec(fr *frame) ctl {
	e := fr.env
	vals := evalList(fr, s.exprs)
	var f, state, control any
	if len(vals) > 0 {
		f = vals[0]
	}
	if len(vals) > 1 {
		state = vals[1]
	}
	if len(vals) > 2 {
		control = vals[2]
	}
	for {
		e.line = s.line
		e.step()
		var rets []any
		if t, ok := state.(*Table); ok && e.isNext(f) { // fast path for pairs()/next
			k, v, st := t.next(control)
			if st == 2 {
				e.errorf("invalid key to 'next'")
			}
			if st == 0 {
				rets = []any{k, v}
			}
		} else {
			rets = e.call(f, []any{state, control})
		}
		if len(rets) == 0 || rets[0] == nil {
			break
		}
		control = rets[0]
		for i, v := range s.vars {
			var x any
			if i < len(rets) {
				x = rets[i]
			}
			fr.declare(v, x)
		}
		if c := s.body.exec(fr); c == ctlBreak {
			break
		} else if c == ctlReturn {
			return c
		}
	}
	return ctlNone
}

func (s *localFuncStmt) exec(fr *frame) ctl {
	fr.declare(s.v, nil)
	fr.assign(s.v, s.fn.eval(fr))
	return ctlNone
}

func (s *returnStmt) exec(fr *frame) ctl {
	fr.ret = evalList(fr, s.exprs)
	return ctlReturn
}

func (s *breakStmt) exec(fr *frame) ctl { return ctlBreak }

// ---------------------------------------------------------------- expressions

func (x *constExpr) eval(fr *frame) any { return x.v }

func (x *localExpr) eval(fr *frame) any {
	if x.v.captured {
		return fr.vals[x.v.slot].(*cell).v
	}
	return fr.vals[x.v.slot]
}

func (x *upvalExpr) eval(fr *frame) any { return fr.upvals[x.idx].v }
func (x *globalExpr) eval(fr *frame) any {
	g := fr.env.Globals
	v := g.rawGet(x.name)
	if v == nil && g.meta != nil {
		fr.env.line = x.line
		return fr.env.index(g, x.name, nil)
	}
	return v
}
func (x *parenExpr) eval(fr *frame) any { return x.e.eval(fr) }

func (x *varargExpr) evalMulti(fr *frame) []any { return fr.varargs }
func (x *varargExpr) eval(fr *frame) any {
	if len(fr.varargs) > 0 {
		return fr.varargs[0]
	}
	return nil
}

func (x *indexExpr) eval(fr *frame) any {
	obj := x.obj.eval(fr)
	key := x.key.eval(fr)
	if t, ok := obj.(*Table); ok { // fast path
		if v := t.rawGet(key); v != nil || t.meta == nil {
			return v
		}
	}
	fr.env.line = x.line
	return fr.env.index(obj, key, x.obj)
}

func (x *callExpr) evalMulti(fr *frame) []any {
	e := fr.env
	fn := x.fn.eval(fr)
	args := evalList(fr, x.args)
	e.line = x.line
	switch fn.(type) {
	case *Closure, GoFunc:
	default:
		if e.metaOf(fn, "__call") == nil {
			e.errorf("attempt to call %s", describe(x.fn, fn))
		}
	}
	rets := e.call(fn, args)
	e.line = x.line
	return rets
}

func (x *callExpr) eval(fr *frame) any {
	if r := x.evalMulti(fr); len(r) > 0 {
		return r[0]
	}
	return nil
}

func (x *methExpr) evalMulti(fr *frame) []any {
	e := fr.env
	obj := x.obj.eval(fr)
	e.line = x.line
	fn := e.index(obj, x.name, x.obj)
	args := make([]any, 1, len(x.args)+4)
	args[0] = obj
	args = append(args, evalList(fr, x.args)...)
	e.line = x.line
	switch fn.(type) {
	case *Closure, GoFunc:
	default:
		if e.metaOf(fn, "__call") == nil {
			e.errorf("attempt to call method '%s' (a %s value)", x.name, typeName(fn))
		}
	}
	rets := e.call(fn, args)
	e.line = x.line
	return rets
}

func (x *methExpr) eval(fr *frame) any {
	if r := x.evalMulti(fr); len(r) > 0 {
		return r[0]
	}
	return nil
}

func (x *funcExpr) eval(fr *frame) any {
	p := x.proto
	c := &Closure{proto: p}
	if len(p.upvals) > 0 {
		c.upvals = make([]*cell, len(p.upvals))
		for i, u := range p.upvals {
			if u.fromLocal {
				c.upvals[i] = fr.vals[u.idx].(*cell)
			} else {
				c.upvals[i] = fr.upvals[u.idx]
			}
		}
	}
	return c
}

func (x *andExpr) eval(fr *frame) any {
	if a := x.a.eval(fr); !truthy(a) {
		return a
	}
	return x.b.eval(fr)
}

func (x *orExpr) eval(fr *frame) any {
	if a := x.a.eval(fr); truthy(a) {
		return a
	}
	return x.b.eval(fr)
}

func (x *tableExpr) eval(fr *frame) any {
	e := fr.env
	t := &Table{}
	n := 0
	for i, it := range x.items {
		if it.key != nil {
			k := it.key.eval(fr)
			v := it.val.eval(fr)
			if err := t.rawSet(k, v); err != nil {
				e.line = x.line
				e.errorf("%s", err.Error())
			}
			continue
		}
		if m, ok := it.val.(multiExpr); ok && i == len(x.items)-1 {
			for _, v := range m.evalMulti(fr) {
				n++
				_ = t.rawSet(float64(n), v)
			}
			break
		}
		n++
		_ = t.rawSet(float64(n), it.val.eval(fr))
	}
	t.growArray(n) // {1, nil, 3} has length 3, like in real Lua
	return t
}

func (x *unExpr) eval(fr *frame) any {
	e := fr.env
	a := x.a.eval(fr)
	switch x.op {
	case tNot:
		return !truthy(a)
	case '-':
		if f, ok := a.(float64); ok {
			return -f
		}
		if f, ok := toNumber(a); ok {
			return -f
		}
		e.line = x.line
		if h := e.metaOf(a, "__unm"); h != nil {
			return e.call1(h, a, a)
		}
		e.errorf("attempt to perform arithmetic on %s", describe(x.a, a))
	case '#':
		switch v := a.(type) {
		case string:
			return float64(len(v))
		case *Table:
			return float64(len(v.arr))
		}
		e.line = x.line
		e.errorf("attempt to get length of %s", describe(x.a, a))
	}
	return nil
}

func (x *binExpr) eval(fr *frame) any {
	a := x.a.eval(fr)
	b := x.b.eval(fr)
	e := fr.env
	if af, ok := a.(float64); ok {
		if bf, ok := b.(float64); ok {
			switch x.op {
			case '+':
				return af + bf
			case '-':
				return af - bf
			case '*':
				return af * bf
			case '/':
				return af / bf
			case '%':
				return luaMod(af, bf)
			case '^':
				return math.Pow(af, bf)
			case tEq:
				return af == bf
			case tNe:
				return af != bf
			case '<':
				return af < bf
			case tLe:
				return af <= bf
			case '>':
				return af > bf
			case tGe:
				return af >= bf
			}
		}
	}
	e.line = x.line
	switch x.op {
	case tEq:
		return e.equals(a, b)
	case tNe:
		return !e.equals(a, b)
	case '<':
		return e.lessThan(a, b, false)
	case tLe:
		return e.lessThan(a, b, true)
	case '>':
		return e.lessThan(b, a, false)
	case tGe:
		return e.lessThan(b, a, true)
	case tConcat:
		as, ok1 := toStringCoerce(a)
		bs, ok2 := toStringCoerce(b)
		if ok1 && ok2 {
			return as + bs
		}
		if h := e.binMeta(a, b, "__concat"); h != nil {
			return e.call1(h, a, b)
		}
		if ok1 {
			e.errorf("attempt to concatenate %s", describe(x.b, b))
		}
		e.errorf("attempt to concatenate %s", describe(x.a, a))
	}
	af, ok1 := toNumber(a)
	bf, ok2 := toNumber(b)
	if ok1 && ok2 {
		return arith(x.op, af, bf)
	}
	if h := e.binMeta(a, b, arithEvents[x.op]); h != nil {
		return e.call1(h, a, b)
	}
	if ok1 {
		e.errorf("attempt to perform arithmetic on %s", describe(x.b, b))
	}
	e.errorf("attempt to perform arithmetic on %s", describe(x.a, a))
	return nil
}

var arithEvents = map[tokKind]string{'+': "__add", '-': "__sub", '*': "__mul", '/': "__div", '%': "__mod", '^': "__pow"}

func luaMod(a, b float64) float64 { return a - math.Floor(a/b)*b }

func arith(op tokKind, a, b float64) float64 {
	switch op {
	case '+':
		return a + b
	case '-':
		return a - b
	case '*':
		return a * b
	case '/':
		return a / b
	case '%':
		return luaMod(a, b)
	}
	return math.Pow(a, b)
}

// describe renders "local 'x' (a nil value)" style operand descriptions.
func describe(x expr, v any) string {
	kind := ""
	switch t := x.(type) {
	case *localExpr:
		kind = "local '" + t.v.name + "'"
	case *upvalExpr:
		kind = "upvalue '" + t.name + "'"
	case *globalExpr:
		kind = "global '" + t.name + "'"
	case *indexExpr:
		if c, ok := t.key.(*constExpr); ok {
			if s, ok := c.v.(string); ok {
				kind = "field '" + s + "'"
			}
		}
		if kind == "" {
			kind = "field '?'"
		}
	case *methExpr:
		kind = "method '" + t.name + "'"
	}
	if kind == "" {
		return "a " + typeName(v) + " value"
	}
	return kind + " (a " + typeName(v) + " value)"
}

// ---------------------------------------------------------------- metatables and generic operations

func (e *Env) metatable(v any) *Table {
	switch x := v.(type) {
	case *Table:
		return x.meta
	case string:
		return e.strmt
	}
	return nil
}

func (e *Env) metaOf(v any, event string) any {
	if mt := e.metatable(v); mt != nil {
		return mt.rawGet(event)
	}
	return nil
}

func (e *Env) binMeta(a, b any, event string) any {
	if h := e.metaOf(a, event); h != nil {
		return h
	}
	return e.metaOf(b, event)
}

// index implements obj[key] with __index; src (may be nil) describes obj in errors.
func (e *Env) index(obj, key any, src expr) any {
	for loop := 0; loop < 100; loop++ {
		var h any
		switch o := obj.(type) {
		case *Table:
			v := o.rawGet(key)
			if v != nil || o.meta == nil {
				return v
			}
			if h = o.meta.rawGet("__index"); h == nil {
				return nil
			}
		case string:
			h = e.strlib
		default:
			e.errorf("attempt to index %s", describe(src, obj))
		}
		switch h.(type) {
		case *Closure, GoFunc:
			return e.call1(h, obj, key)
		}
		obj, src = h, nil
	}
	e.errorf("loop in gettable")
	return nil
}

func (e *Env) setIndex(obj, key, val any, src expr) {
	for loop := 0; loop < 100; loop++ {
		t, ok := obj.(*Table)
		var h any
		if ok {
			if t.meta == nil || t.rawGet(key) != nil {
				if err := t.rawSet(key, val); err != nil {
					e.errorf("%s", err.Error())
				}
				return
			}
			if h = t.meta.rawGet("__newindex"); h == nil {
				if err := t.rawSet(key, val); err != nil {
					e.errorf("%s", err.Error())
				}
				return
			}
		} else if h = e.metaOf(obj, "__newindex"); h == nil {
			e.errorf("attempt to index %s", describe(src, obj))
		}
		switch h.(type) {
		case *Closure, GoFunc:
			e.call(h, []any{obj, key, val})
			return
		}
		obj, src = h, nil
	}
	e.errorf("loop in settable")
}

func (e *Env) equals(a, b any) bool {
	if rawEquals(a, b) {
		return true
	}
	ta, ok1 := a.(*Table)
	tb, ok2 := b.(*Table)
	if ok1 && ok2 && ta.meta != nil && tb.meta != nil {
		h1, h2 := ta.meta.rawGet("__eq"), tb.meta.rawGet("__eq")
		if h1 != nil && rawEquals(h1, h2) {
			return truthy(e.call1(h1, a, b))
		}
	}
	return false
}

func (e *Env) lessThan(a, b any, orEqual bool) bool {
	switch x := a.(type) {
	case float64:
		if y, ok := b.(float64); ok {
			if orEqual {
				return x <= y
			}
			return x < y
		}
	case string:
		if y, ok := b.(string); ok {
			if orEqual {
				return x <= y
			}
			return x < y
		}
	}
	if orEqual {
		if h := e.binMeta(a, b, "__le"); h != nil {
			return truthy(e.call1(h, a, b))
		}
		if h := e.binMeta(a, b, "__lt"); h != nil {
			return !truthy(e.call1(h, b, a))
		}
	} else if h := e.binMeta(a, b, "__lt"); h != nil {
		return truthy(e.call1(h, a, b))
	}
	t1, t2 := typeName(a), typeName(b)
	if t1 == t2 {
		e.errorf("attempt to compare two %s values", t1)
	}
	e.errorf("attempt to compare %s with %s", t1, t2)
	return false
}

// tostr implements tostring().
func (e *Env) tostr(v any) string {
	if h := e.metaOf(v, "__tostring"); h != nil {
		s, ok := e.call1(h, v).(string)
		if !ok {
			e.errorf("'__tostring' must return a string")
		}
		return s
	}
	switch x := v.(type) {
	case nil:
		return "nil"
	case bool:
		if x {
			return "true"
		}
		return "false"
	case float64:
		return fmtNum(x)
	case string:
		return x
	case *Table:
		return fmt.Sprintf("table: %p", x)
	case *Closure:
		return fmt.Sprintf("function: %p", x)
	case GoFunc:
		return fmt.Sprintf("function: builtin: %p", funcPtr(x))
	case *Userdata:
		return fmt.Sprintf("userdata: %s", x.Name)
	}
	return fmt.Sprintf("userdata: %T", v)
}
