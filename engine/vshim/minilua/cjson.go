package minilua

import (
	"math"
	"strconv"
	"strings"
	"unicode/utf8"
)

// CjsonNull is the value of cjson.null (JSON null inside decoded documents).
var CjsonNull = &Userdata{Name: "null"}

const cjsonMaxDepth = 1000

func (e *Env) openCjson() {
	t := e.lib("cjson", map[string]GoFunc{
		"encode": func(args []any) ([]any, error) {
			var b strings.Builder
			e.jsonEncode(&b, e.checkAny(args, 0, "encode"), 0)
			return []any{b.String()}, nil
		},
		"decode": func(args []any) ([]any, error) {
			d := &jsonDecoder{e: e, s: e.checkStr(args, 0, "decode")}
			v := d.value(0)
			d.skipSpace()
			if d.pos < len(d.s) {
				d.fail("the end")
			}
			return []any{v}, nil
		},
	})
	t.Set("null", CjsonNull)
}

func (e *Env) jsonEncode(b *strings.Builder, v any, depth int) {
	switch x := v.(type) {
	case nil:
		b.WriteString("null")
	case bool:
		b.WriteString(strconv.FormatBool(x))
	case float64:
		if math.IsInf(x, 0) || x != x {
			e.errorf("Cannot serialise number: must not be NaN or Inf")
		}
		b.WriteString(fmtNum(x))
	case string:
		jsonQuote(b, x)
	case *Userdata:
		if x != CjsonNull {
			e.errorf("Cannot serialise userdata: type not supported")
		}
		b.WriteString("null")
	case *Table:
		if depth >= cjsonMaxDepth {
			e.errorf("Cannot serialise, excessive nesting (%d)", depth+1)
		}
		// an array iff all keys are positive integers (cjson semantics, not too sparse)
		n, maxIdx, isArray := 0, 0, true
		for k, _, st := x.next(nil); st == 0; k, _, st = x.next(k) {
			i, ok := arrIndex(k)
			if !ok {
				isArray = false
				break
			}
			if n++; i > maxIdx {
				maxIdx = i
			}
		}
		if isArray && n > 0 && maxIdx > 10 && maxIdx > n*2 {
			e.errorf("Cannot serialise table: excessively sparse array")
		}
		if isArray && n > 0 {
			b.WriteByte('[')
			for i := 1; i <= maxIdx; i++ {
				if i > 1 {
					b.WriteByte(',')
				}
				e.jsonEncode(b, x.rawGet(float64(i)), depth+1)
			}
			b.WriteByte(']')
			return
		}
		b.WriteByte('{')
		first := true
		for k, val, st := x.next(nil); st == 0; k, val, st = x.next(k) {
			ks, ok := toStringCoerce(k)
			if !ok {
				e.errorf("Cannot serialise %s: table key must be a number or string", typeName(k))
			}
			if !first {
				b.WriteByte(',')
			}
			first = false
			jsonQuote(b, ks)
			b.WriteByte(':')
			e.jsonEncode(b, val, depth+1)
		}
		b.WriteByte('}')
	default:
		e.errorf("Cannot serialise %s: type not supported", typeName(v))
	}
}

func jsonQuote(b *strings.Builder, s string) {
	const hex = "0123456789abcdef"
	b.WriteByte('"')
	for i := 0; i < len(s); i++ {
		switch c := s[i]; {
		case c == '"' || c == '\\' || c == '/':
			b.WriteByte('\\')
			b.WriteByte(c)
		case c == '\b':
			b.WriteString("\\b")
		case c == '\f':
			b.WriteString("\\f")
		case c == '\n':
			b.WriteString("\\n")
		case c == '\r':
			b.WriteString("\\r")
		case c == '\t':
			b.WriteString("\\t")
		case c < 32 || c == 127:
			b.WriteString("\\u00")
			b.WriteByte(hex[c>>4])
			b.WriteByte(hex[c&15])
		default:
			b.WriteByte(c)
		}
	}
	b.WriteByte('"')
}

type jsonDecoder struct {
	e   *Env
	s   string
	pos int
}

func (d *jsonDecoder) fail(expected string) {
	tok := "T_END"
	if d.pos < len(d.s) {
		tok = "invalid token"
	}
	d.e.errorf("Expected %s but found %s at character %d", expected, tok, d.pos+1)
}

func (d *jsonDecoder) skipSpace() {
	for d.pos < len(d.s) && (d.s[d.pos] == ' ' || d.s[d.pos] == '\t' || d.s[d.pos] == '\n' || d.s[d.pos] == '\r') {
		d.pos++
	}
}

func (d *jsonDecoder) value(depth int) any {
	if depth > cjsonMaxDepth {
		d.e.errorf("Found too many nested data structures (%d) at character %d", depth, d.pos+1)
	}
	d.skipSpace()
	if d.pos >= len(d.s) {
		d.fail("value")
	}
	rest := d.s[d.pos:]
	switch c := d.s[d.pos]; {
	case c == '{':
		d.pos++
		t := NewTable()
		if d.skipSpace(); d.pos < len(d.s) && d.s[d.pos] == '}' {
			d.pos++
			return t
		}
		for {
			d.skipSpace()
			if d.pos >= len(d.s) || d.s[d.pos] != '"' {
				d.fail("object key string")
			}
			k := d.str()
			if d.skipSpace(); d.pos >= len(d.s) || d.s[d.pos] != ':' {
				d.fail("colon")
			}
			d.pos++
			if v := d.value(depth + 1); v != nil {
				_ = t.rawSet(k, v)
			}
			d.skipSpace()
			if d.pos < len(d.s) && d.s[d.pos] == ',' {
				d.pos++
				continue
			}
			if d.pos < len(d.s) && d.s[d.pos] == '}' {
				d.pos++
				return t
			}
			d.fail("comma or object end")
		}
	case c == '[':
		d.pos++
		t := NewTable()
		if d.skipSpace(); d.pos < len(d.s) && d.s[d.pos] == ']' {
			d.pos++
			return t
		}
		for n := 1; ; n++ {
			_ = t.rawSet(float64(n), d.value(depth+1))
			d.skipSpace()
			if d.pos < len(d.s) && d.s[d.pos] == ',' {
				d.pos++
				continue
			}
			if d.pos < len(d.s) && d.s[d.pos] == ']' {
				d.pos++
				t.growArray(n)
				return t
			}
			d.fail("comma or array end")
		}
	case c == '"':
		return d.str()
	case strings.HasPrefix(rest, "true"):
		d.pos += 4
		return true
	case strings.HasPrefix(rest, "false"):
		d.pos += 5
		return false
	case strings.HasPrefix(rest, "null"):
		d.pos += 4
		return CjsonNull
	case c == '-' || isDigit(c):
		st := d.pos
		for d.pos < len(d.s) && strings.IndexByte("+-0123456789.eExXabcdefABCDEF", d.s[d.pos]) >= 0 {
			d.pos++
		}
		f, ok := str2number(d.s[st:d.pos])
		if !ok || d.s[d.pos-1] == '.' {
			d.pos = st
			d.fail("value")
		}
		return f
	}
	d.fail("value")
	return nil
}

func (d *jsonDecoder) hex4() (rune, bool) {
	if d.pos+4 > len(d.s) {
		return 0, false
	}
	var r rune
	for _, c := range []byte(d.s[d.pos : d.pos+4]) {
		h := hexVal(c)
		if h < 0 {
			return 0, false
		}
		r = r<<4 | rune(h)
	}
	d.pos += 4
	return r, true
}

func (d *jsonDecoder) str() string {
	d.pos++ // opening quote
	var b []byte
	for {
		if d.pos >= len(d.s) {
			d.fail("string end")
		}
		c := d.s[d.pos]
		d.pos++
		switch {
		case c == '"':
			return string(b)
		case c != '\\':
			b = append(b, c)
		default:
			if d.pos >= len(d.s) {
				d.fail("string end")
			}
			esc := d.s[d.pos]
			d.pos++
			switch esc {
			case '"', '\\', '/':
				b = append(b, esc)
			case 'b':
				b = append(b, '\b')
			case 'f':
				b = append(b, '\f')
			case 'n':
				b = append(b, '\n')
			case 'r':
				b = append(b, '\r')
			case 't':
				b = append(b, '\t')
			case 'u':
				r, ok := d.hex4()
				if ok && r >= 0xD800 && r < 0xDC00 && strings.HasPrefix(d.s[d.pos:], "\\u") { // surrogate pair
					d.pos += 2
					r2, ok2 := d.hex4()
					if ok = ok2 && r2 >= 0xDC00 && r2 < 0xE000; ok {
						r = 0x10000 + (r-0xD800)<<10 + (r2 - 0xDC00)
					}
				} else if r >= 0xD800 && r < 0xE000 {
					ok = false
				}
				if !ok {
					d.fail("valid unicode escape")
				}
				b = utf8.AppendRune(b, r)
			default:
				d.pos--
				d.fail("valid string escape")
			}
		}
	}
}
