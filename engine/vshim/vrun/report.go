// Package vrun is the small runtime every verification harness links against.
// It is injected into the build of /repo as a virtual package through
// `go test -overlay` (import path github.com/redis/rueidis/vshim/vrun), so that
// white-box harness files living inside the packages of redis/rueidis can
// report coverage and violations in one format. It depends on the real
// standard library only (never on the scheduler shims).
package vrun

import (
	"encoding/json"
	"fmt"
	"hash/fnv"
	"os"
	"runtime/debug"
	"sort"
	"strconv"
	"strings"
	"testing"
	"time"
)

// Violation is one counterexample class found by a harness.
type Violation struct {
	Sig    string `json:"sig"`    // stable signature: failing call site / input class
	Detail string `json:"detail"` // human readable: observed vs expected
	Replay any    `json:"replay"` // harness specific replay payload (input, choice list...)
	Count  int64  `json:"count"`  // how many explored cases hit this signature
}

// Result is what a harness process writes to $VERIF_OUT.
type Result struct {
	Property       string           `json:"property"`
	Tier           string           `json:"tier"`
	Shard          int              `json:"shard"`
	NShards        int              `json:"nshards"`
	Evaluations    int64            `json:"evaluations"`
	Transitions    int64            `json:"transitions"`
	States         int64            `json:"states"`
	Nontrivial     int64            `json:"distinct_nontrivial"`
	Outcomes       map[string]int64 `json:"outcomes"`
	Exhaustive     bool             `json:"exhaustive"`
	Caps           []string         `json:"caps,omitempty"`
	Bounds         map[string]any   `json:"bounds,omitempty"`
	Samples        []any            `json:"samples"`
	Violations     []*Violation     `json:"violations"`
	Assumptions    []string         `json:"assumptions,omitempty"`
	Rule           string           `json:"rule,omitempty"`
	Notes          []string         `json:"notes,omitempty"`
	Replayed       *bool            `json:"replayed_violation,omitempty"` // replay mode: did the violation reproduce
	MachineryError string           `json:"machinery_error,omitempty"`
	WallS          float64          `json:"wall_s"`
}

// Run is the handle given to a harness body.
type Run struct {
	Result
	states     map[uint64]struct{}
	nontrivial map[uint64]struct{}
	viol       map[string]*Violation
	start      time.Time
	deadline   time.Time
	replay     json.RawMessage
	maxSamples int
	T          *testing.T
	BudgetS    float64 // wall-clock budget of this shard in seconds (0 = none)
}

func getenv(k, def string) string {
	if v := os.Getenv(k); v != "" {
		return v
	}
	return def
}

// Main runs body as the check for property id. It is a no-op (skip) unless
// VERIF_OUT is set, so the harness tests never run as part of an ordinary
// `go test`.
func Main(t *testing.T, id string, body func(r *Run)) {
	out := os.Getenv("VERIF_OUT")
	if out == "" {
		t.Skip("verification harness: run through /verif/bin/verif")
	}
	r := &Run{states: map[uint64]struct{}{}, nontrivial: map[uint64]struct{}{}, viol: map[string]*Violation{}, T: t, maxSamples: 5}
	r.Property = id
	r.Tier = getenv("VERIF_TIER", "quick")
	r.NShards, _ = strconv.Atoi(getenv("VERIF_NSHARDS", "1"))
	r.Shard, _ = strconv.Atoi(getenv("VERIF_SHARD", "0"))
	if r.NShards < 1 {
		r.NShards = 1
	}
	r.Outcomes = map[string]int64{}
	r.Bounds = map[string]any{}
	r.Exhaustive = true
	r.start = time.Now()
	if b, _ := strconv.ParseFloat(getenv("VERIF_BUDGET_S", "0"), 64); b > 0 {
		r.deadline = r.start.Add(time.Duration(b * float64(time.Second)))
		r.BudgetS = b
	}
	if p := os.Getenv("VERIF_REPLAY"); p != "" {
		raw, err := os.ReadFile(p)
		if err != nil {
			t.Fatalf("replay file: %v", err)
		}
		var f struct {
			Replay json.RawMessage `json:"replay"`
		}
		if err := json.Unmarshal(raw, &f); err != nil {
			t.Fatalf("replay file: %v", err)
		}
		r.replay = f.Replay
	}
	defer func() {
		if p := recover(); p != nil {
			r.MachineryError = fmt.Sprintf("harness panic: %v\n%s", p, debug.Stack())
		}
		r.finish(out)
		if r.MachineryError != "" {
			t.Errorf("machinery error: %s", r.MachineryError)
		}
	}()
	body(r)
}

func (r *Run) finish(out string) {
	r.States = int64(len(r.states))
	r.Nontrivial = int64(len(r.nontrivial))
	r.WallS = time.Since(r.start).Seconds()
	sigs := make([]string, 0, len(r.viol))
	for s := range r.viol {
		sigs = append(sigs, s)
	}
	sort.Strings(sigs)
	r.Violations = r.Violations[:0]
	for _, s := range sigs {
		r.Violations = append(r.Violations, r.viol[s])
	}
	if r.replay != nil {
		v := len(r.viol) > 0
		r.Replayed = &v
	}
	if r.Samples == nil {
		r.Samples = []any{}
	}
	b, err := json.MarshalIndent(&r.Result, "", " ")
	if err != nil {
		b = []byte(fmt.Sprintf(`{"property":%q,"machinery_error":%q}`, r.Property, err.Error()))
	}
	tmp := out + ".tmp"
	_ = os.WriteFile(tmp, b, 0o644)
	_ = os.Rename(tmp, out)
}

// Quick reports whether this is the quick tier.
func (r *Run) Quick() bool { return r.Tier != "thorough" }

// Pick returns q in the quick tier and t in the thorough tier.
func Pick[T any](r *Run, q, t T) T {
	if r.Quick() {
		return q
	}
	return t
}

// Mine tells whether work item i belongs to this shard.
func (r *Run) Mine(i int) bool { return r.NShards <= 1 || i%r.NShards == r.Shard }

// ReplayPayload returns the payload of the replay file when in replay mode.
func (r *Run) ReplayPayload() (json.RawMessage, bool) { return r.replay, r.replay != nil }

// Remaining returns the seconds left of the wall-clock budget (a large number if there is none).
func (r *Run) Remaining() float64 {
	if r.deadline.IsZero() {
		return 1e9
	}
	return time.Until(r.deadline).Seconds()
}

// TimeUp reports whether the wall-clock budget is used up; when it is, the run
// is marked non-exhaustive (exit status is unaffected).
func (r *Run) TimeUp() bool {
	if r.deadline.IsZero() || time.Now().Before(r.deadline) {
		return false
	}
	r.Cap("wall-clock budget reached")
	return true
}

// Cap records that some bound or budget cut the exploration short.
func (r *Run) Cap(what string) {
	r.Exhaustive = false
	for _, c := range r.Caps {
		if c == what {
			return
		}
	}
	r.Caps = append(r.Caps, what)
}

func Hash(parts ...string) uint64 {
	h := fnv.New64a()
	for _, p := range parts {
		h.Write([]byte(p))
		h.Write([]byte{0})
	}
	return h.Sum64()
}

// State records a distinct state / canonical input fingerprint.
func (r *Run) State(h uint64) bool {
	if _, ok := r.states[h]; ok {
		return false
	}
	r.states[h] = struct{}{}
	return true
}
func (r *Run) StateStr(parts ...string) bool { return r.State(Hash(parts...)) }

// AddStates adds n states known to be distinct from every other state recorded
// (used when the enumeration itself guarantees distinctness, to avoid hashing
// millions of cheap inputs).
func (r *Run) AddStates(base string, n int64) {
	for i := int64(0); i < n; i++ {
		r.states[Hash(base, strconv.FormatInt(i, 10))] = struct{}{}
	}
}

// NonTrivial records a distinct non-trivial case.
func (r *Run) NonTrivial(h uint64)           { r.nontrivial[h] = struct{}{} }
func (r *Run) NonTrivialStr(parts ...string) { r.nontrivial[Hash(parts...)] = struct{}{} }

// Outcome counts an observed outcome class.
func (r *Run) Outcome(s string) { r.Outcomes[s]++ }

// Sample keeps the first few explored cases verbatim for the evidence file.
func (r *Run) Sample(v any) {
	if len(r.Samples) < r.maxSamples {
		r.Samples = append(r.Samples, v)
	}
}
func (r *Run) WantSample() bool { return len(r.Samples) < r.maxSamples }

// Violate records a violation under signature sig (first one per signature is
// kept as the replayable artefact).
func (r *Run) Violate(sig, detail string, replay any) {
	sig = strings.Join(strings.Fields(sig), " ")
	if v, ok := r.viol[sig]; ok {
		v.Count++
		return
	}
	if len(detail) > 4000 {
		detail = detail[:4000] + "...(truncated)"
	}
	r.viol[sig] = &Violation{Sig: sig, Detail: detail, Replay: replay, Count: 1}
}

func (r *Run) NumViolations() int { return len(r.viol) }

func (r *Run) Assume(s string) { r.Assumptions = append(r.Assumptions, s) }
func (r *Run) Note(s string)   { r.Notes = append(r.Notes, s) }

// Catch runs f and returns the recovered panic value (nil if none) together
// with a short description of the panic site.
func Catch(f func()) (p any, site string) {
	defer func() {
		if p = recover(); p != nil {
			site = PanicSite(string(debug.Stack()))
		}
	}()
	f()
	return nil, ""
}

// PanicSite extracts the first rueidis (non-harness) frame below the panic
// from a stack trace; used to build stable violation signatures.
func PanicSite(stack string) string {
	lines := strings.Split(stack, "\n")
	seenPanic := false
	for i := 0; i+1 < len(lines); i++ {
		l := lines[i]
		if strings.HasPrefix(l, "panic(") || strings.Contains(l, "runtime.goPanic") || strings.Contains(l, "runtime.panic") {
			seenPanic = true
			continue
		}
		if !seenPanic {
			continue
		}
		if strings.HasPrefix(l, "runtime.") || strings.HasPrefix(l, "\t") {
			continue
		}
		if strings.Contains(l, "vrun.") || strings.Contains(l, "Verif") || strings.Contains(l, "verif") {
			continue
		}
		if strings.Contains(l, "github.com/redis/rueidis") {
			fn := l
			if k := strings.LastIndex(fn, "("); k > 0 {
				fn = fn[:k]
			}
			fn = strings.TrimPrefix(fn, "github.com/redis/rueidis")
			fn = strings.TrimPrefix(fn, "/")
			return fn
		}
	}
	return "unknown"
}
