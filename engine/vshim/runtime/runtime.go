// Package runtime: the few runtime functions rueidis uses, scheduler-aware.
package runtime

import (
	rr "runtime"

	"github.com/redis/rueidis/vshim/vsched"
)

// NumProcs is what GOMAXPROCS(0)/NumCPU report to the code under test (the
// harness process itself runs with GOMAXPROCS=1).
var NumProcs = 4

func Gosched() {
	if vsched.Active() {
		vsched.Yield()
		return
	}
	if vsched.X == nil {
		rr.Gosched()
	}
}
func GOMAXPROCS(n int) int                                         { return NumProcs }
func NumCPU() int                                                  { return NumProcs }
func NumGoroutine() int                                            { return rr.NumGoroutine() }
func KeepAlive(x any)                                              { rr.KeepAlive(x) }
func SetFinalizer(obj any, finalizer any)                          {}
func Caller(skip int) (pc uintptr, file string, line int, ok bool) { return rr.Caller(skip + 1) }
func GC()                                                          {}

const (
	GOOS   = rr.GOOS
	GOARCH = rr.GOARCH
)
