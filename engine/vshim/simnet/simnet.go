// Package simnet provides scheduler-aware net.Conn endpoints connected to a
// simredis server. Every Read/Write/Close is a scheduling point; reads block
// (in the scheduler's sense) until the server has produced bytes, the
// connection is closed or a deadline on the virtual clock has passed.
// Faults are decided by the explorer through vsched.Choose (deviations).
package simnet

import (
	"errors"
	"fmt"
	"io"
	"net"
	"os"
	rtime "time"

	"github.com/redis/rueidis/vshim/simredis"
	"github.com/redis/rueidis/vshim/vsched"
)

// Fault kinds offered at each server step when Net.Faults is on.
const (
	FaultNone       = iota
	FaultDropBefore // connection dies before the command is executed
	FaultDropAfter  // command is executed, connection dies before the reply is sent
	FaultStall      // command is executed, reply is withheld forever (until the conn is closed)
	nFaults
)

// Net is the fake network: one server, many connections.
type Net struct {
	Srv    *simredis.Server
	Conns  []*Conn
	Faults func(c *Conn, argv []string) bool // returns true when this command is a fault candidate
	// FaultMenu lists the fault kinds offered (default: DropBefore, DropAfter, Stall)
	FaultMenu []int
	// Script, when set, decides a fault for a command deterministically (no explorer choice): return one of the Fault* kinds
	Script func(c *Conn, argv []string) int
	// ReadChunk > 0 limits how many bytes one Read returns (exercises short reads)
	ReadChunk int
	// DialFail makes the n-th dial (1-based) fail
	DialFail map[int]error
	Dials    int
	// OnDial is called for every new connection
	OnDial func(c *Conn)
	// WriteFail: offer a failing Write (I/O error) as a deviation on candidate commands
}

// New creates a network around srv and binds the server clock/timers to the virtual clock.
func New(srv *simredis.Server) *Net {
	n := &Net{Srv: srv}
	srv.NowMs = func() int64 { return vsched.NowNS() / 1e6 }
	srv.After = func(ms int64, f func()) func() {
		tm := vsched.AddTimer(rtime.Duration(ms)*rtime.Millisecond, f)
		return func() { vsched.StopTimer(tm) }
	}
	return n
}

type Conn struct {
	ID       int
	net      *Net
	Sess     *simredis.Session
	in       []byte // bytes from server waiting to be read by the client
	wbuf     []byte // partial command bytes written by the client
	closedL  bool   // closed by the client
	closedR  bool   // closed / dropped by the server
	stalled  bool   // replies withheld
	held     []byte // withheld bytes
	rdl, wdl rtime.Time
	BytesIn  int // total bytes written by the client
	Faulted  string
	ReadErr  error // injected read error (delivered once the buffer is empty)
	CutAt    int   // >0: the connection is dropped by the server after the client has read this many more bytes
	readN    int
}

type addr string

func (a addr) Network() string { return "tcp" }
func (a addr) String() string  { return string(a) }

// Dial creates a new connection to the server.
func (n *Net) Dial() (*Conn, error) {
	n.Dials++
	if err := n.DialFail[n.Dials]; err != nil {
		return nil, err
	}
	c := &Conn{ID: len(n.Conns) + 1, net: n}
	c.Sess = n.Srv.NewSession(func(b []byte) {
		if c.stalled {
			c.held = append(c.held, b...)
			return
		}
		c.in = append(c.in, b...)
	})
	c.Sess.OnClose = func() { c.closedR = true }
	n.Conns = append(n.Conns, c)
	if n.OnDial != nil {
		n.OnDial(c)
	}
	return c, nil
}

var errClosed = errors.New("use of closed network connection")

func (c *Conn) deadlineDue(d rtime.Time) bool {
	return !d.IsZero() && vsched.NowNS() >= d.UnixNano()
}

func (c *Conn) Read(b []byte) (int, error) {
	if vsched.Aborting() {
		return 0, io.EOF
	}
	vsched.Point("net.read", func() bool {
		return len(c.in) > 0 || c.closedL || c.closedR || c.ReadErr != nil || c.deadlineDue(c.rdl)
	})
	if c.closedL {
		return 0, errClosed
	}
	if len(c.in) > 0 {
		n := len(c.in)
		if n > len(b) {
			n = len(b)
		}
		if c.net.ReadChunk > 0 && n > c.net.ReadChunk {
			n = c.net.ReadChunk
		}
		if c.CutAt > 0 && c.readN+n >= c.CutAt {
			n = c.CutAt - c.readN
			copy(b, c.in[:n])
			c.in = nil
			c.CutAt, c.readN = 0, 0
			c.Faulted = "cut"
			c.dropFromServer()
			if n == 0 {
				return 0, io.EOF
			}
			return n, nil
		}
		if c.CutAt > 0 {
			c.readN += n
		}
		copy(b, c.in[:n])
		c.in = c.in[n:]
		return n, nil
	}
	if c.ReadErr != nil {
		return 0, c.ReadErr
	}
	if c.closedR {
		return 0, io.EOF
	}
	return 0, os.ErrDeadlineExceeded
}

func (c *Conn) Write(b []byte) (int, error) {
	if vsched.Aborting() {
		return 0, errClosed
	}
	vsched.Point("net.write", nil)
	if c.closedL {
		return 0, errClosed
	}
	if c.closedR {
		return 0, fmt.Errorf("write: broken pipe")
	}
	if c.deadlineDue(c.wdl) {
		return 0, os.ErrDeadlineExceeded
	}
	c.BytesIn += len(b)
	c.wbuf = append(c.wbuf, b...)
	cmds, used, err := simredis.ParseRequests(c.wbuf)
	c.wbuf = c.wbuf[used:]
	if err != nil {
		c.in = append(c.in, simredis.Encode(nil, simredis.Err("ERR Protocol error: "+err.Error()), c.Sess.V3)...)
		c.dropFromServer()
		return len(b), nil
	}
	for _, argv := range cmds {
		if c.closedR {
			break // bytes after the drop are lost
		}
		if c.net.Script != nil {
			switch c.net.Script(c, argv) {
			case FaultDropBefore:
				c.Faulted = "drop-before"
				c.dropFromServer()
				continue
			case FaultDropAfter:
				c.Faulted = "drop-after"
				c.stalled = true
				c.net.Srv.Feed(c.Sess, argv)
				c.held = nil
				c.dropFromServer()
				continue
			case FaultStall:
				c.Faulted = "stall"
				c.stalled = true
			}
		}
		if c.net.Faults != nil && c.net.Faults(c, argv) {
			menu := c.net.FaultMenu
			if menu == nil {
				menu = []int{FaultDropBefore, FaultDropAfter, FaultStall}
			}
			k := vsched.Choose(len(menu)+1, vsched.KDev, "fault")
			if k > 0 {
				switch menu[k-1] {
				case FaultDropBefore:
					c.Faulted = "drop-before"
					c.dropFromServer()
					continue
				case FaultDropAfter:
					c.Faulted = "drop-after"
					c.stalled = true
					c.net.Srv.Feed(c.Sess, argv)
					c.held = nil
					c.dropFromServer()
					continue
				case FaultStall:
					c.Faulted = "stall"
					c.stalled = true
				}
			}
		}
		c.net.Srv.Feed(c.Sess, argv)
	}
	return len(b), nil
}

func (c *Conn) dropFromServer() {
	c.closedR = true
	c.net.Srv.Close(c.Sess)
}

// ServerDrop lets a harness kill the connection from the server side.
func (c *Conn) ServerDrop() { c.dropFromServer() }

// Release delivers withheld (stalled) replies.
func (c *Conn) Release() {
	c.stalled = false
	c.in = append(c.in, c.held...)
	c.held = nil
}

func (c *Conn) Stall() { c.stalled = true }

// Pending reports unread bytes.
func (c *Conn) Pending() int { return len(c.in) }

func (c *Conn) Close() error {
	if vsched.Aborting() {
		return nil
	}
	vsched.Point("net.close", nil)
	if c.closedL {
		return errClosed
	}
	c.closedL = true
	c.net.Srv.Close(c.Sess)
	return nil
}

func (c *Conn) ClosedByClient() bool { return c.closedL }

func (c *Conn) LocalAddr() net.Addr  { return addr(fmt.Sprintf("10.0.0.1:%d", 40000+c.ID)) }
func (c *Conn) RemoteAddr() net.Addr { return addr("10.0.0.2:6379") }

func (c *Conn) wake(d rtime.Time) {
	if d.IsZero() {
		return
	}
	dur := rtime.Duration(d.UnixNano() - vsched.NowNS())
	vsched.AddTimer(dur, func() {}) // makes the scheduler advance the clock to the deadline when everybody is blocked
}

func (c *Conn) SetDeadline(t rtime.Time) error {
	c.rdl, c.wdl = t, t
	c.wake(t)
	return nil
}
func (c *Conn) SetReadDeadline(t rtime.Time) error {
	c.rdl = t
	c.wake(t)
	return nil
}
func (c *Conn) SetWriteDeadline(t rtime.Time) error {
	c.wdl = t
	return nil
}
