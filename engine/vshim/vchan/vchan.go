// Package vchan implements Go channel operations on top of the controlled
// scheduler. Channel values stay real Go channels (identity, buffer); blocking
// and unbuffered rendezvous are decided by vsched. The source transformer
// rewrites `ch <- v`, `<-ch`, `close(ch)`, `for range ch` and `select` into
// calls of this package.
package vchan

import (
	"reflect"

	"github.com/redis/rueidis/vshim/vsched"
)

type op struct {
	st      *state
	send    bool
	val     any
	ok      bool
	matched bool
	sel     *selState
	idx     int
}

type selState struct {
	fired int
	ops   []*op
}

type state struct {
	ref    any // keeps the channel alive so its address is not reused
	closed bool
	sendq  []*op
	recvq  []*op
}

var (
	table = map[uintptr]*state{}
	tgen  uint64
)

func st(ch any) *state {
	if g := vsched.Generation(); g != tgen {
		tgen = g
		table = map[uintptr]*state{}
	}
	p := reflect.ValueOf(ch).Pointer()
	s := table[p]
	if s == nil {
		s = &state{ref: ch}
		table[p] = s
	}
	return s
}

func removeOp(q []*op, o *op) []*op {
	for i, x := range q {
		if x == o {
			return append(q[:i:i], q[i+1:]...)
		}
	}
	return q
}

func (o *op) complete(val any, ok bool) {
	o.val, o.ok, o.matched = val, ok, true
	if o.sel != nil {
		o.sel.fired = o.idx
		for _, sib := range o.sel.ops {
			if sib != o && sib.st != nil {
				if sib.send {
					sib.st.sendq = removeOp(sib.st.sendq, sib)
				} else {
					sib.st.recvq = removeOp(sib.st.recvq, sib)
				}
			}
		}
	}
}

func Make[T any](n int) chan T { return make(chan T, n) }

// Send implements `ch <- v`.
func Send[T any](ch chan<- T, v T) {
	if vsched.Aborting() {
		return
	}
	if ch == nil {
		vsched.Point("chan.send.nil", func() bool { return false })
		return
	}
	if !vsched.Active() {
		s := st(ch)
		if s.closed {
			panic("send on closed channel")
		}
		if cap(ch) > 0 {
			select {
			case ch <- v:
				return
			default:
			}
			if vsched.X == nil {
				ch <- v
				return
			}
			panic("vchan: send would block outside a managed thread")
		}
		if vsched.X == nil {
			ch <- v
			return
		}
		if len(s.recvq) > 0 {
			r := s.recvq[0]
			s.recvq = s.recvq[1:]
			r.complete(v, true)
			return
		}
		panic("vchan: unbuffered send would block outside a managed thread")
	}
	s := st(ch)
	if cap(ch) > 0 {
		vsched.Point("chan.send", func() bool { return s.closed || len(ch) < cap(ch) })
		if s.closed {
			panic("send on closed channel")
		}
		ch <- v
		return
	}
	o := &op{st: s, send: true, val: v}
	s.sendq = append(s.sendq, o)
	vsched.Point("chan.send", func() bool { return o.matched || s.closed || len(s.recvq) > 0 })
	if o.matched {
		return
	}
	s.sendq = removeOp(s.sendq, o)
	if s.closed {
		panic("send on closed channel")
	}
	r := s.recvq[0]
	s.recvq = s.recvq[1:]
	r.complete(v, true)
}

// TrySend is a non-blocking send on a buffered channel from scheduler context (timers).
func TrySend[T any](ch chan T, v T) bool {
	select {
	case ch <- v:
		return true
	default:
		return false
	}
}

// Drain empties a buffered channel (timer reset).
func Drain[T any](ch chan T) {
	for {
		select {
		case <-ch:
		default:
			return
		}
	}
}

func Recv[T any](ch <-chan T) T {
	v, _ := Recv2(ch)
	return v
}

// Recv2 implements `v, ok := <-ch`.
func Recv2[T any](ch <-chan T) (T, bool) {
	var zero T
	if vsched.Aborting() {
		return zero, false
	}
	if ch == nil {
		vsched.Point("chan.recv.nil", func() bool { return false })
		return zero, false
	}
	if vsched.X == nil {
		v, ok := <-ch
		return v, ok
	}
	s := st(ch)
	if cap(ch) > 0 {
		vsched.Point("chan.recv", func() bool { return s.closed || len(ch) > 0 })
		select {
		case v, ok := <-ch:
			return v, ok
		default:
			panic("vchan: buffered receive not ready")
		}
	}
	o := &op{st: s}
	s.recvq = append(s.recvq, o)
	vsched.Point("chan.recv", func() bool { return o.matched || s.closed || len(s.sendq) > 0 })
	if o.matched {
		v, _ := o.val.(T)
		return v, o.ok
	}
	s.recvq = removeOp(s.recvq, o)
	if len(s.sendq) > 0 {
		w := s.sendq[0]
		s.sendq = s.sendq[1:]
		val := w.val
		w.complete(nil, true)
		v, _ := val.(T)
		return v, true
	}
	return zero, false // closed
}

// Close implements close(ch).
func Close[T any](ch chan<- T) {
	if vsched.Aborting() {
		return
	}
	vsched.Point("chan.close", nil)
	s := st(ch)
	if s.closed {
		panic("close of closed channel")
	}
	s.closed = true
	close(ch)
	for _, r := range s.recvq {
		r.complete(nil, false)
	}
	s.recvq = nil
}

// IsClosed lets other shims (context) test a channel without consuming.
func IsClosed(ch any) bool { return st(ch).closed }

// CloseQuiet closes from scheduler context (no scheduling point), e.g. context cancellation by a timer.
func CloseQuiet[T any](ch chan T) {
	s := st(ch)
	if s.closed {
		return
	}
	s.closed = true
	close(ch)
	for _, r := range s.recvq {
		r.complete(nil, false)
	}
	s.recvq = nil
}

// ---------------------------------------------------------------- select

// Case is one communication clause of a select statement.
type Case interface {
	ready() bool
	enqueue(sel *selState, idx int) *op
	fire(o *op) // perform the operation when chosen and not already matched
	taken(o *op)
}

type RCase[T any] struct {
	ch <-chan T
	s  *state
	v  T
	ok bool
}

func R[T any](ch <-chan T) *RCase[T] {
	c := &RCase[T]{ch: ch}
	if ch != nil {
		c.s = st(ch)
	}
	return c
}
func (c *RCase[T]) V() T     { return c.v }
func (c *RCase[T]) OK() bool { return c.ok }
func (c *RCase[T]) ready() bool {
	if c.ch == nil {
		return false
	}
	if cap(c.ch) > 0 {
		return c.s.closed || len(c.ch) > 0
	}
	return c.s.closed || len(c.s.sendq) > 0
}
func (c *RCase[T]) enqueue(sel *selState, idx int) *op {
	if c.ch == nil || cap(c.ch) > 0 {
		return &op{sel: sel, idx: idx}
	}
	o := &op{st: c.s, sel: sel, idx: idx}
	c.s.recvq = append(c.s.recvq, o)
	return o
}
func (c *RCase[T]) fire(o *op) {
	if cap(c.ch) > 0 {
		select {
		case c.v, c.ok = <-c.ch:
		default:
			panic("vchan: select buffered receive not ready")
		}
		return
	}
	if len(c.s.sendq) > 0 {
		w := c.s.sendq[0]
		c.s.sendq = c.s.sendq[1:]
		val := w.val
		w.complete(nil, true)
		c.v, _ = val.(T)
		c.ok = true
		return
	}
	c.ok = false // closed
}
func (c *RCase[T]) taken(o *op) {
	c.v, _ = o.val.(T)
	c.ok = o.ok
}

type SCase[T any] struct {
	ch chan<- T
	s  *state
	v  T
}

func S[T any](ch chan<- T, v T) *SCase[T] {
	c := &SCase[T]{ch: ch, v: v}
	if ch != nil {
		c.s = st(ch)
	}
	return c
}
func (c *SCase[T]) ready() bool {
	if c.ch == nil {
		return false
	}
	if cap(c.ch) > 0 {
		return c.s.closed || len(c.ch) < cap(c.ch)
	}
	return c.s.closed || len(c.s.recvq) > 0
}
func (c *SCase[T]) enqueue(sel *selState, idx int) *op {
	if c.ch == nil || cap(c.ch) > 0 {
		return &op{sel: sel, idx: idx}
	}
	o := &op{st: c.s, send: true, val: c.v, sel: sel, idx: idx}
	c.s.sendq = append(c.s.sendq, o)
	return o
}
func (c *SCase[T]) fire(o *op) {
	if c.s.closed {
		panic("send on closed channel")
	}
	if cap(c.ch) > 0 {
		c.ch <- c.v
		return
	}
	r := c.s.recvq[0]
	c.s.recvq = c.s.recvq[1:]
	r.complete(c.v, true)
}
func (c *SCase[T]) taken(o *op) {}

// Select implements a select statement; it returns the index of the chosen
// case or -1 for default.
func Select(hasDefault bool, cases ...Case) int {
	if vsched.Aborting() {
		if hasDefault {
			return -1
		}
		vsched.Point("select", nil) // Goexit
		return -1
	}
	if vsched.X == nil {
		panic("vchan: select outside an execution is not supported")
	}
	sel := &selState{fired: -1}
	managed := vsched.Active()
	if managed {
		for i, c := range cases {
			sel.ops = append(sel.ops, c.enqueue(sel, i))
		}
		vsched.Point("select", func() bool {
			if hasDefault || sel.fired >= 0 {
				return true
			}
			for _, c := range cases {
				if c.ready() {
					return true
				}
			}
			return false
		})
		if sel.fired >= 0 {
			cases[sel.fired].taken(sel.ops[sel.fired])
			return sel.fired
		}
		for _, o := range sel.ops {
			if o.st != nil {
				if o.send {
					o.st.sendq = removeOp(o.st.sendq, o)
				} else {
					o.st.recvq = removeOp(o.st.recvq, o)
				}
			}
		}
	}
	var rdy []int
	for i, c := range cases {
		if c.ready() {
			rdy = append(rdy, i)
		}
	}
	if len(rdy) == 0 {
		if hasDefault {
			return -1
		}
		panic("vchan: select would block outside a managed thread")
	}
	k := 0
	if len(rdy) > 1 {
		k = vsched.Choose(len(rdy), vsched.KFree, "select")
	}
	i := rdy[k]
	cases[i].fire(nil)
	return i
}
