//go:build verif

package rueidis

import (
	"bufio"
	"bytes"
	"context"
	"errors"
	"time"

	"github.com/redis/rueidis/internal/cmds"
	"github.com/redis/rueidis/vshim/simredis"
	"github.com/redis/rueidis/vshim/vsched"
)

// VerifSimClient is a command-level rueidis.Client over a simredis server,
// used by the add-on harnesses (locks, limiter, cache-aside, bloom filters,
// object mapping, Lua). Each command is executed atomically at one scheduling
// point; replies and pushes of one client are decoded by the real RESP decoder
// and dispatched in wire order (pushes before the reply that follows them).
// DoCache follows the documented opt-in protocol (CLIENT CACHING YES + the
// command) with a per-client map invalidated by the server's pushes.
// Trusted base of the add-on checks: the core client behaves as C01-C11/C26/C27 say.
type VerifSimClient struct {
	Srv    *simredis.Server
	Sess   *simredis.Session
	Opt    ClientOption
	buf    bytes.Buffer
	closed bool
	cache  map[string]map[string]RedisMessage // key -> cmd -> cached reply (with expiry)
	subs   []*vsub
	Calls  [][]string // every command sent, in order
	// Fail, when set, is consulted before a command is sent: a non-nil error is returned instead (transport fault)
	Fail func(argv []string) error
	// Lost marks the connection as lost: every later command fails and OnInvalidations(nil) has been delivered once
	Lost    bool
	waiters int
	reader  bool // StartReader was called: trailing pushes are left to the reader thread
	// Latency (opt-in, sim flavour): every Do/DoMulti/DoCache takes this much virtual time before it reaches the
	// server (the calling thread sleeps), so a loop of round trips lets the virtual clock advance.
	Latency time.Duration
	// ReplyPoint (opt-in, sim flavour): a scheduling point between the server executing a Do and the reply reaching
	// the caller, as in the real pipe where the reader thread wakes the caller and may already handle the push
	// frames that follow the reply before the caller runs again.
	ReplyPoint bool
	// RetryWhileLost (opt-in, sim flavour): while the connection is lost, a retryable command waits until the connection
	// is re-established (or its context ends) instead of failing at once — what the real client does with its default
	// retry policy (unlimited attempts with back-off while the context is alive).
	RetryWhileLost bool
	// LoseReply (opt-in): consulted after the server has executed a command sent with Do; true = the connection breaks
	// before the reply arrives. As the real client's retry loop does, a command flagged retryable is then sent again on
	// a fresh connection (the server executes it a second time) and any other command fails with ErrVerifReplyLost.
	LoseReply func(argv []string) bool
}

type vsub struct {
	kind     string // message | pmessage | smessage
	channels []string
	fn       func(PubSubMessage)
	done     bool
	err      error
}

var ErrVerifConnLost = errors.New("verif: simulated connection loss")

// ErrVerifReplyLost: the command was executed by the server but its reply never arrived
var ErrVerifReplyLost = errors.New("verif: simulated connection loss after the command was executed (reply lost)")

// NewVerifSimClient creates a client session on srv honouring the tracking related options of opt.
func NewVerifSimClient(srv *simredis.Server, opt ClientOption) *VerifSimClient {
	c := &VerifSimClient{Srv: srv, Opt: opt, cache: map[string]map[string]RedisMessage{}}
	c.Sess = srv.NewSession(func(b []byte) { c.buf.Write(b) })
	c.raw([]string{"HELLO", "3"})
	if !opt.DisableCache {
		args := append([]string{"CLIENT", "TRACKING", "ON"}, opt.ClientTrackingOptions...)
		if opt.ClientTrackingOptions == nil {
			args = append(args, "OPTIN")
		}
		c.raw(args)
	}
	if opt.SelectDB != 0 {
		c.raw([]string{"SELECT", itoa(opt.SelectDB)})
	}
	return c
}

func itoa(n int) string {
	if n == 0 {
		return "0"
	}
	s := ""
	for ; n > 0; n /= 10 {
		s = string(rune('0'+n%10)) + s
	}
	return s
}

// pump decodes everything the server has sent: pushes are dispatched, the (single) normal reply is returned.
func (c *VerifSimClient) pump() (reply RedisMessage, got bool) { return c.pumpUntil(false) }

// pumpUntil: with stopAtReply (used for a command's reply when a reader thread exists, see StartReader) decoding
// stops after the first normal reply and the bytes that follow it (pushes sent after the reply, e.g. Redis 7
// self-invalidations) stay in the buffer for the reader thread: the real connection reader hands the reply to the
// caller and goes on reading, so the caller may continue before those pushes are processed.
func (c *VerifSimClient) pumpUntil(stopAtReply bool) (reply RedisMessage, got bool) {
	if c.buf.Len() == 0 {
		return
	}
	under := bytes.NewReader(append([]byte{}, c.buf.Bytes()...))
	r := bufio.NewReader(under)
	c.buf.Reset()
	for {
		m, err := readNextMessage(r)
		if err != nil {
			return
		}
		if m.typ == '>' {
			c.push(m.values())
			continue
		}
		reply, got = m, true
		if stopAtReply {
			rest := make([]byte, r.Buffered())
			r.Read(rest)
			tail := make([]byte, under.Len())
			under.Read(tail)
			rest = append(rest, tail...)
			if len(rest) > 0 {
				newer := append([]byte{}, c.buf.Bytes()...) // written while callbacks ran
				c.buf.Reset()
				c.buf.Write(rest)
				c.buf.Write(newer)
			}
			return
		}
	}
}

func (c *VerifSimClient) push(v []RedisMessage) {
	if len(v) < 2 {
		return
	}
	switch v[0].string() {
	case "invalidate":
		if v[1].IsNil() {
			c.cache = map[string]map[string]RedisMessage{}
			if c.Opt.OnInvalidations != nil {
				c.Opt.OnInvalidations(nil)
			}
		} else {
			for _, k := range v[1].values() {
				delete(c.cache, k.string())
			}
			if c.Opt.OnInvalidations != nil {
				c.Opt.OnInvalidations(v[1].values())
			}
		}
	case "message", "smessage":
		if len(v) >= 3 {
			for _, s := range c.subs {
				if !s.done && s.kind == v[0].string() && contains(s.channels, v[1].string()) {
					s.fn(PubSubMessage{Channel: v[1].string(), Message: v[2].string()})
				}
			}
		}
	case "pmessage":
		if len(v) >= 4 {
			for _, s := range c.subs {
				if !s.done && s.kind == "pmessage" && contains(s.channels, v[1].string()) {
					s.fn(PubSubMessage{Pattern: v[1].string(), Channel: v[2].string(), Message: v[3].string()})
				}
			}
		}
	case "unsubscribe", "punsubscribe", "sunsubscribe":
		kind := map[string]string{"unsubscribe": "message", "punsubscribe": "pmessage", "sunsubscribe": "smessage"}[v[0].string()]
		for _, s := range c.subs {
			if !s.done && s.kind == kind && contains(s.channels, v[1].string()) {
				s.done = true
			}
		}
	}
}

func contains(l []string, s string) bool {
	for _, x := range l {
		if x == s {
			return true
		}
	}
	return false
}

// Poll lets pending pushes be processed (the real client's reader goroutine does this on its own).
func (c *VerifSimClient) Poll() { c.pump() }

// StartReader (opt-in, sim flavour only) starts a daemon thread that plays the role of the real client's
// connection reader: pushes the server sends while no command of this client is in flight (invalidations
// caused by other clients or by key expiry, pub/sub messages) are dispatched on their own, at a scheduling
// point of their own, instead of only together with the next reply. The thread ends on Close/Lose.
func (c *VerifSimClient) StartReader(name string) {
	if vsched.X == nil {
		return
	}
	c.reader = true
	vsched.GoDaemon(name, func() {
		for {
			vsched.Point("simclient.reader", func() bool { return c.buf.Len() > 0 || c.closed || c.Lost })
			if c.closed || c.Lost {
				return
			}
			c.pump()
		}
	})
}

func (c *VerifSimClient) lag() {
	if c.Latency > 0 && vsched.Active() {
		vsched.Sleep(c.Latency)
	}
}

func (c *VerifSimClient) raw(argv []string) RedisResult {
	if c.closed {
		return NewErrorResult(ErrClosing)
	}
	if c.Lost {
		return NewErrorResult(ErrVerifConnLost)
	}
	if c.Fail != nil {
		if err := c.Fail(argv); err != nil {
			return NewErrorResult(err)
		}
	}
	// a real connection serialises the arguments onto the wire before Do returns: deep-copy the bytes, because callers
	// may pass rueidis.BinaryString views of pooled buffers that are cleared/reused right after the call (rueidisprob)
	argv = append([]string{}, argv...)
	for i := range argv {
		argv[i] = string(append([]byte(nil), argv[i]...))
	}
	c.Calls = append(c.Calls, append([]string{}, argv...))
	c.Srv.Feed(c.Sess, argv)
	m, ok := c.pumpUntil(c.reader)
	if !ok {
		return NewResult(RedisMessage{}, nil)
	}
	return NewResult(m, nil)
}

// Lose simulates the loss of the connection: cached data is dropped and the nil invalidation is delivered.
func (c *VerifSimClient) Lose() {
	if c.Lost {
		return
	}
	c.Lost = true
	c.Srv.Close(c.Sess)
	c.cache = map[string]map[string]RedisMessage{}
	if c.Opt.OnInvalidations != nil {
		c.Opt.OnInvalidations(nil)
	}
}

// Reconnect opens a fresh server session after Lose.
func (c *VerifSimClient) Reconnect() {
	n := NewVerifSimClient(c.Srv, c.Opt)
	c.Sess, c.Lost = n.Sess, false
	c.buf.Reset()
	c.Sess.Out = func(b []byte) { c.buf.Write(b) }
}

func (c *VerifSimClient) B() Builder { return cmds.NewBuilder(cmds.NoSlot) }

func (c *VerifSimClient) Do(ctx context.Context, cmd Completed) (resp RedisResult) {
	vsched.Point("simclient.do", nil)
	c.lag()
	if err := ctx.Err(); err != nil {
		return NewErrorResult(err)
	}
	if c.Lost && c.RetryWhileLost && cmd.IsRetryable() && vsched.Active() {
		vsched.Point("simclient.retry-wait", func() bool { return !c.Lost || c.closed || ctx.Err() != nil })
		if err := ctx.Err(); err != nil {
			return NewErrorResult(err)
		}
	}
	argv := append([]string{}, cmd.Commands()...)
	if cmd.IsBlock() && vsched.Active() {
		// blocking command: the reply may arrive later
		resp = c.raw(argv)
		if resp.err == nil && resp.val.typ == 0 {
			vsched.Point("simclient.block", func() bool { return c.buf.Len() > 0 || c.closed || c.Lost || ctx.Err() != nil })
			if err := ctx.Err(); err != nil {
				return NewErrorResult(err)
			}
			if m, ok := c.pump(); ok {
				resp = NewResult(m, nil)
			}
		}
	} else {
		resp = c.raw(argv)
		if c.LoseReply != nil && c.LoseReply(argv) {
			if cmd.IsRetryable() {
				resp = c.raw(argv)
			} else {
				resp = NewErrorResult(ErrVerifReplyLost)
			}
		}
		if c.ReplyPoint && vsched.Active() {
			vsched.Point("simclient.reply", nil)
		}
	}
	if resp.NonRedisError() == nil {
		cmds.PutCompleted(cmd)
	}
	return resp
}

func (c *VerifSimClient) DoMulti(ctx context.Context, multi ...Completed) (resp []RedisResult) {
	vsched.Point("simclient.domulti", nil)
	c.lag()
	resp = make([]RedisResult, len(multi))
	if err := ctx.Err(); err != nil {
		for i := range resp {
			resp[i] = NewErrorResult(err)
		}
		return resp
	}
	for i, cmd := range multi {
		resp[i] = c.raw(append([]string{}, cmd.Commands()...))
	}
	for i, cmd := range multi {
		if resp[i].NonRedisError() == nil {
			cmds.PutCompleted(cmd)
		}
	}
	return resp
}

func (c *VerifSimClient) DoCache(ctx context.Context, cmd Cacheable, ttl time.Duration) (resp RedisResult) {
	vsched.Point("simclient.docache", nil)
	c.lag()
	if err := ctx.Err(); err != nil {
		return NewErrorResult(err)
	}
	if c.Opt.DisableCache {
		cc := Completed(cmd)
		return c.raw(append([]string{}, cc.Commands()...))
	}
	c.pump()
	key, cc := cmds.CacheKey(cmd)
	now := time.Now()
	if m, ok := c.cache[key][cc]; ok && m.relativePTTL(now) > 0 {
		return NewResult(m, nil)
	}
	ccmd := Completed(cmd)
	argv := append([]string{}, ccmd.Commands()...)
	if isOptIn(c.Opt.ClientTrackingOptions) {
		c.raw([]string{"CLIENT", "CACHING", "YES"})
	}
	pttl := c.raw([]string{"PTTL", key})
	// the PTTL above is not tracked in OPTIN mode (caching flag consumed by it); re-arm for the command itself
	if isOptIn(c.Opt.ClientTrackingOptions) {
		c.raw([]string{"CLIENT", "CACHING", "YES"})
	}
	resp = c.raw(argv)
	if resp.err == nil && resp.val.typ != '-' && resp.val.typ != '!' {
		cp := resp.val
		cp.attrs = cacheMark
		exp := now.Add(ttl).UnixMilli()
		if p, err := pttl.AsInt64(); err == nil && p >= 0 {
			if e := now.Add(time.Duration(p) * time.Millisecond).UnixMilli(); e < exp {
				exp = e
			}
		}
		cp.setExpireAt(exp)
		if c.cache[key] == nil {
			c.cache[key] = map[string]RedisMessage{}
		}
		// an invalidation that arrived together with the reply has already been processed by raw(); only
		// cache when the key is still tracked for us, i.e. no later invalidation was seen for it
		c.cache[key][cc] = cp
		resp.val.setExpireAt(exp)
	}
	cmds.PutCacheable(cmd)
	return resp
}

func (c *VerifSimClient) DoMultiCache(ctx context.Context, multi ...CacheableTTL) (resp []RedisResult) {
	resp = make([]RedisResult, len(multi))
	for i, ct := range multi {
		resp[i] = c.DoCache(ctx, ct.Cmd, ct.TTL)
	}
	return resp
}

func (c *VerifSimClient) DoStream(ctx context.Context, cmd Completed) RedisResultStream {
	return NewErrorResultStream(errors.New("verif simclient: DoStream not supported"))
}
func (c *VerifSimClient) DoMultiStream(ctx context.Context, multi ...Completed) MultiRedisResultStream {
	return NewErrorResultStream(errors.New("verif simclient: DoMultiStream not supported"))
}

func (c *VerifSimClient) Receive(ctx context.Context, subscribe Completed, fn func(msg PubSubMessage)) error {
	argv := append([]string{}, subscribe.Commands()...)
	kind := map[string]string{"SUBSCRIBE": "message", "PSUBSCRIBE": "pmessage", "SSUBSCRIBE": "smessage"}[argv[0]]
	s := &vsub{kind: kind, channels: argv[1:], fn: fn}
	c.subs = append(c.subs, s)
	vsched.Point("simclient.subscribe", nil)
	c.raw(argv)
	for {
		vsched.Point("simclient.receive", func() bool { return c.buf.Len() > 0 || s.done || c.closed || c.Lost || ctx.Err() != nil })
		c.pump()
		switch {
		case s.done:
			return nil
		case c.closed:
			return ErrClosing
		case c.Lost:
			return ErrVerifConnLost
		case ctx.Err() != nil:
			s.done = true
			return ctx.Err()
		}
		if !vsched.Active() {
			return nil // outside the scheduler there is nothing to wait for
		}
	}
}

func (c *VerifSimClient) Dedicated(fn func(DedicatedClient) error) error {
	d := &verifSimDedicated{VerifSimClient: NewVerifSimClient(c.Srv, c.Opt)}
	defer d.Close()
	return fn(d)
}

func (c *VerifSimClient) Dedicate() (DedicatedClient, func()) {
	d := &verifSimDedicated{VerifSimClient: NewVerifSimClient(c.Srv, c.Opt)}
	return d, d.Close
}

func (c *VerifSimClient) Nodes() map[string]Client { return map[string]Client{"sim:6379": c} }
func (c *VerifSimClient) Mode() ClientMode         { return ClientModeStandalone }
func (c *VerifSimClient) Close() {
	if !c.closed {
		c.closed = true
		c.Srv.Close(c.Sess)
	}
}

type verifSimDedicated struct{ *VerifSimClient }

func (d *verifSimDedicated) SetPubSubHooks(hooks PubSubHooks) <-chan error {
	return make(chan error, 1)
}
func (d *verifSimDedicated) SetOnInvalidations(fn func([]RedisMessage)) <-chan error {
	d.Opt.OnInvalidations = fn
	return make(chan error, 1)
}
