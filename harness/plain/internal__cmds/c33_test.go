//go:build verif

package cmds

import (
	"encoding/json"
	"fmt"
	"reflect"
	"sort"
	"strconv"
	"strings"
	"testing"
	"time"

	"github.com/redis/rueidis/vshim/vrun"
)

// ===================================================================== ENGINE
// Breadth-first search over the builder TYPE GRAPH by reflection. (The same
// engine text is duplicated with another prefix in the sibling harness files so
// that every file compiles on its own under VERIF_ONLY.)

// c33Arg is one canned argument in a textual, JSON-safe encoding.
// K: s string | vs ...string | ss []string | i int64 | vi ...int64 | u uint64 |
// f float64 | vf ...float64 | g float32 | vg ...float32 | d time.Duration (ns) |
// t time.Time ("sec,nsec") | qs iter.Seq2[string,string] (flat pairs) |
// qf iter.Seq2[string,float64] (flat member,score pairs).
type c33Arg struct {
	K string   `json:"k"`
	V []string `json:"v"`
}

type c33Step struct {
	M string   `json:"m"`
	A []c33Arg `json:"a"`
}

type c33Path struct {
	NoSlot bool      `json:"noslot"`
	Steps  []c33Step `json:"steps"`
}

func (p c33Path) String() string {
	var sb strings.Builder
	if p.NoSlot {
		sb.WriteString("NewBuilder(NoSlot)")
	} else {
		sb.WriteString("NewBuilder(InitSlot)")
	}
	for _, s := range p.Steps {
		sb.WriteString("." + s.M + "(")
		for i, a := range s.A {
			if i > 0 {
				sb.WriteString(", ")
			}
			sb.WriteString(a.K + ":" + strings.Join(a.V, "|"))
		}
		sb.WriteString(")")
	}
	return sb.String()
}

func (p c33Path) extend(s c33Step) c33Path {
	q := c33Path{NoSlot: p.NoSlot, Steps: make([]c33Step, len(p.Steps)+1)}
	copy(q.Steps, p.Steps)
	q.Steps[len(p.Steps)] = s
	return q
}

var (
	c33IncT  = reflect.TypeOf(Incomplete{})
	c33ComT  = reflect.TypeOf(Completed{})
	c33CacT  = reflect.TypeOf(Cacheable{})
	c33DurT  = reflect.TypeOf(time.Duration(0))
	c33TimeT = reflect.TypeOf(time.Time{})
)

// c33Snap is the observable state of a builder step value.
type c33Snap struct {
	Type string
	Argv []string
	Cf   uint16
	Ks   uint16
	Kind int // 0 Builder, 1 Incomplete-like step, 2 Arbitrary-like (Completed underlying), 3 Completed, 4 Cacheable, -1 other
}

func c33snap(v reflect.Value) c33Snap {
	t := v.Type()
	s := c33Snap{Type: t.Name(), Kind: -1}
	switch {
	case t == reflect.TypeOf(Builder{}):
		s.Kind = 0
		s.Ks = v.Interface().(Builder).ks
	case t == c33ComT:
		c := v.Interface().(Completed)
		s.Kind, s.Cf, s.Ks = 3, c.cf, c.ks
		s.Argv = append([]string(nil), c.cs.s...)
	case t == c33CacT:
		c := v.Interface().(Cacheable)
		s.Kind, s.Cf, s.Ks = 4, c.cf, c.ks
		s.Argv = append([]string(nil), c.cs.s...)
	case t.Kind() == reflect.Struct && t.ConvertibleTo(c33IncT):
		c := v.Convert(c33IncT).Interface().(Incomplete)
		s.Kind, s.Cf, s.Ks = 1, uint16(c.cf), c.ks
		if c.cs != nil {
			s.Argv = append([]string(nil), c.cs.s...)
		}
	case t.Kind() == reflect.Struct && t.ConvertibleTo(c33ComT):
		c := v.Convert(c33ComT).Interface().(Completed)
		s.Kind, s.Cf, s.Ks = 2, c.cf, c.ks
		if c.cs != nil {
			s.Argv = append([]string(nil), c.cs.s...)
		}
	}
	return s
}

// c33kindOf maps a parameter type to the argument kind ("" = unhandled).
func c33kindOf(t reflect.Type, variadic bool) string {
	if variadic {
		switch t.Elem().Kind() {
		case reflect.String:
			return "vs"
		case reflect.Int64:
			if t.Elem() == c33DurT {
				return ""
			}
			return "vi"
		case reflect.Float64:
			return "vf"
		case reflect.Float32:
			return "vg"
		}
		return ""
	}
	switch {
	case t == c33DurT:
		return "d"
	case t == c33TimeT:
		return "t"
	case t.Kind() == reflect.String:
		return "s"
	case t.Kind() == reflect.Int64:
		return "i"
	case t.Kind() == reflect.Uint64:
		return "u"
	case t.Kind() == reflect.Float64:
		return "f"
	case t.Kind() == reflect.Float32:
		return "g"
	case t.Kind() == reflect.Slice && t.Elem().Kind() == reflect.String:
		return "ss"
	case t.Kind() == reflect.Func && t.NumIn() == 1 && t.NumOut() == 0 && t.In(0).Kind() == reflect.Func && t.In(0).NumIn() == 2 &&
		t.In(0).NumOut() == 1 && t.In(0).Out(0).Kind() == reflect.Bool && t.In(0).In(0).Kind() == reflect.String:
		switch t.In(0).In(1).Kind() {
		case reflect.String:
			return "qs"
		case reflect.Float64:
			return "qf"
		}
	}
	return ""
}

// c33classes returns the canned value classes of an argument kind; class 0 is
// the "ordinary" one used to continue the search. "$" in string classes is
// replaced by a fresh unique sentinel.
func c33classes(kind string) [][]string {
	switch kind {
	case "s":
		return [][]string{{"{t}$"}, {"{t}$ \r\n\"'\\$"}}
	case "vs", "ss":
		return [][]string{{"{t}$"}, {"{t}$", "{t}$"}, {}}
	case "i":
		return [][]string{{"10"}, {"0"}, {"-1"}, {"9223372036854775807"}, {"-9223372036854775808"}}
	case "vi":
		return [][]string{{"10"}, {"0", "-1"}, {}, {"9223372036854775807", "-9223372036854775808"}}
	case "u":
		return [][]string{{"10"}, {"0"}, {"18446744073709551615"}}
	case "f":
		return [][]string{{"0.1"}, {"0"}, {"-0"}, {"1e+21"}, {"1e-07"}, {"+Inf"}, {"-Inf"}, {"NaN"}}
	case "vf":
		return [][]string{{"0.1"}, {"0", "-0"}, {}, {"1e+21", "1e-07"}, {"+Inf", "-Inf", "NaN"}}
	case "g":
		return [][]string{{"0.1"}, {"0"}, {"-0"}, {"1e+21"}, {"1e-07"}, {"+Inf"}, {"-Inf"}, {"NaN"}, {"16777216"}}
	case "vg":
		return [][]string{{"0.1"}, {"0", "-0"}, {}, {"1e+21", "1e-07"}, {"+Inf", "-Inf", "NaN"}}
	case "d":
		// nanoseconds: 1.5s, -1.5s, 0, 999us (rounds to 0 ms), 1d1h1m1.001s, 500ms
		return [][]string{{"1500000000"}, {"-1500000000"}, {"0"}, {"999000"}, {"90061001000000"}, {"500000000"}}
	case "t":
		// "sec,nsec" with 0 <= nsec < 1e9
		return [][]string{{"1700000000,123000000"}, {"0,0"}, {"-1,500000000"}, {"1,999999999"}, {"253402300799,999000000"}}
	case "qs":
		return [][]string{{"{t}$", "{t}$"}, {"{t}$", "{t}$", "{t}$", "{t}$"}, {}}
	case "qf":
		return [][]string{{"{t}$", "0.1"}, {"{t}$", "-0", "{t}$", "1e+21"}, {}, {"{t}$", "+Inf", "{t}$", "1e-07"}}
	}
	return nil
}

var c33counter int

func c33fresh(tmpl []string) []string {
	out := make([]string, len(tmpl))
	for i, s := range tmpl {
		for strings.Contains(s, "$") {
			c33counter++
			s = strings.Replace(s, "$", "s"+strconv.Itoa(c33counter)+"z", 1)
		}
		out[i] = s
	}
	return out
}

// c33values turns canned arguments into reflect values for method type mt.
func c33values(mt reflect.Type, args []c33Arg) []reflect.Value {
	var in []reflect.Value
	for i, a := range args {
		pt := mt.In(i)
		switch a.K {
		case "s":
			in = append(in, reflect.ValueOf(a.V[0]).Convert(pt))
		case "vs":
			for _, s := range a.V {
				in = append(in, reflect.ValueOf(s))
			}
		case "ss":
			in = append(in, reflect.ValueOf(append([]string{}, a.V...)))
		case "i":
			n, _ := strconv.ParseInt(a.V[0], 10, 64)
			in = append(in, reflect.ValueOf(n).Convert(pt))
		case "vi":
			for _, s := range a.V {
				n, _ := strconv.ParseInt(s, 10, 64)
				in = append(in, reflect.ValueOf(n))
			}
		case "u":
			n, _ := strconv.ParseUint(a.V[0], 10, 64)
			in = append(in, reflect.ValueOf(n).Convert(pt))
		case "f":
			f, _ := strconv.ParseFloat(a.V[0], 64)
			in = append(in, reflect.ValueOf(f).Convert(pt))
		case "vf":
			for _, s := range a.V {
				f, _ := strconv.ParseFloat(s, 64)
				in = append(in, reflect.ValueOf(f))
			}
		case "g":
			f, _ := strconv.ParseFloat(a.V[0], 32)
			in = append(in, reflect.ValueOf(float32(f)).Convert(pt))
		case "vg":
			for _, s := range a.V {
				f, _ := strconv.ParseFloat(s, 32)
				in = append(in, reflect.ValueOf(float32(f)))
			}
		case "d":
			n, _ := strconv.ParseInt(a.V[0], 10, 64)
			in = append(in, reflect.ValueOf(time.Duration(n)))
		case "t":
			parts := strings.Split(a.V[0], ",")
			sec, _ := strconv.ParseInt(parts[0], 10, 64)
			nsec, _ := strconv.ParseInt(parts[1], 10, 64)
			in = append(in, reflect.ValueOf(time.Unix(sec, nsec)))
		case "qs", "qf":
			pairs, isF := a.V, a.K == "qf"
			in = append(in, reflect.MakeFunc(pt, func(fin []reflect.Value) []reflect.Value {
				for k := 0; k+1 < len(pairs); k += 2 {
					second := reflect.ValueOf(pairs[k+1])
					if isF {
						f, _ := strconv.ParseFloat(pairs[k+1], 64)
						second = reflect.ValueOf(f)
					}
					if !fin[0].Call([]reflect.Value{reflect.ValueOf(pairs[k]), second})[0].Bool() {
						break
					}
				}
				return nil
			}))
		default:
			panic("c33values: unhandled kind " + a.K)
		}
	}
	return in
}

// c33call invokes method name on v with args. It returns the result value, or a
// non-nil panic value.
func c33call(v reflect.Value, name string, args []c33Arg) (out reflect.Value, pv any, site string) {
	m := v.MethodByName(name)
	if !m.IsValid() {
		panic("c33call: no method " + name + " on " + v.Type().Name())
	}
	in := c33values(m.Type(), args)
	pv, site = vrun.Catch(func() {
		res := m.Call(in)
		if len(res) == 1 {
			out = res[0]
		}
	})
	return
}

// c33replay rebuilds the step value at the end of path from a fresh Builder.
func c33replay(p c33Path) (v reflect.Value, pv any) {
	ks := InitSlot
	if p.NoSlot {
		ks = NoSlot
	}
	v = reflect.ValueOf(NewBuilder(ks))
	for _, s := range p.Steps {
		var site string
		v, pv, site = c33call(v, s.M, s.A)
		_ = site
		if pv != nil {
			return v, pv
		}
	}
	return v, nil
}

// c33combos enumerates the canned argument vectors of a method: combo 0 is all
// class 0; combo j>0 gives parameter i the class (j+i) mod count(i) so that
// every class of every parameter occurs and neighbouring parameters differ.
func c33combos(mt reflect.Type) (combos [][]c33Arg, unhandled string) {
	n := mt.NumIn()
	kinds := make([]string, n)
	max := 1
	for i := 0; i < n; i++ {
		kinds[i] = c33kindOf(mt.In(i), mt.IsVariadic() && i == n-1)
		if kinds[i] == "" {
			return nil, mt.In(i).String()
		}
		if c := len(c33classes(kinds[i])); c > max {
			max = c
		}
	}
	for j := 0; j < max; j++ {
		args := make([]c33Arg, n)
		for i := 0; i < n; i++ {
			cl := c33classes(kinds[i])
			k := 0
			if j > 0 {
				k = (j + i) % len(cl)
			}
			args[i] = c33Arg{K: kinds[i], V: c33fresh(cl[k])}
		}
		combos = append(combos, args)
	}
	return combos, ""
}

// c33Trans is one executed transition handed to the visitor.
type c33Trans struct {
	Parent c33Path
	Step   c33Step
	Combo  int
	Before c33Snap
	After  c33Snap // Kind 3/4 for Build()/Cache() terminals
	Panic  any
	Site   string
}

type c33Stats struct {
	States, Transitions, Terminals, Panics, Types, Methods, Roots int
	ParamKinds                                                    map[string]int
	Unhandled                                                     map[string]int
	NonStep                                                       map[string]int
}

// c33walk runs the BFS. visit is called for every executed transition
// (including Build/Cache terminals). maxVisits bounds how often one type may
// repeat on a path (self-loops and longer cycles).
func c33walk(r *vrun.Run, maxVisits int, visit func(tr *c33Trans)) *c33Stats {
	st := &c33Stats{ParamKinds: map[string]int{}, Unhandled: map[string]int{}, NonStep: map[string]int{}}
	type qitem struct {
		path   c33Path
		visits map[string]int
	}
	seen := map[string]bool{}
	seenTypes := map[string]bool{}
	seenMeth := map[string]bool{}
	var queue []qitem
	for _, ns := range []bool{false, true} {
		queue = append(queue, qitem{path: c33Path{NoSlot: ns}, visits: map[string]int{}})
	}
	for len(queue) > 0 {
		it := queue[0]
		queue = queue[1:]
		v0, pv := c33replay(it.path)
		if pv != nil {
			panic(fmt.Sprintf("c33walk: replay of accepted path panicked: %v: %s", pv, it.path))
		}
		t := v0.Type()
		if !seenTypes[t.Name()] {
			seenTypes[t.Name()] = true
			st.Types++
		}
		for mi := 0; mi < t.NumMethod(); mi++ {
			m := t.Method(mi)
			mt := v0.Method(mi).Type()
			mkey := t.Name() + "." + m.Name
			if mt.NumOut() != 1 {
				st.NonStep[mkey]++
				continue
			}
			ot := mt.Out(0)
			isTerm := ot == c33ComT || ot == c33CacT
			isStep := ot.Kind() == reflect.Struct && ot.PkgPath() == t.PkgPath() && (ot.ConvertibleTo(c33IncT) || ot.ConvertibleTo(c33ComT))
			if !isTerm && !isStep {
				st.NonStep[mkey]++
				continue
			}
			if !seenMeth[mkey] {
				seenMeth[mkey] = true
				st.Methods++
				if len(it.path.Steps) == 0 && !it.path.NoSlot {
					st.Roots++
				}
			}
			combos, unh := c33combos(mt)
			if unh != "" {
				st.Unhandled[unh]++
				continue
			}
			for i := 0; i < mt.NumIn(); i++ {
				st.ParamKinds[c33kindOf(mt.In(i), mt.IsVariadic() && i == mt.NumIn()-1)]++
			}
			expanded := false
			for ci, args := range combos {
				v, pv := c33replay(it.path)
				if pv != nil {
					panic("c33walk: replay panicked")
				}
				before := c33snap(v)
				step := c33Step{M: m.Name, A: args}
				out, pv, site := c33call(v, m.Name, args)
				st.Transitions++
				r.Transitions++
				tr := &c33Trans{Parent: it.path, Step: step, Combo: ci, Before: before, Panic: pv, Site: site}
				if pv != nil {
					st.Panics++
					visit(tr)
					continue
				}
				tr.After = c33snap(out)
				if isTerm {
					st.Terminals++
				}
				visit(tr)
				if isTerm || expanded {
					continue
				}
				// successor state
				nt := ot.Name()
				n := it.visits[nt]
				if n >= maxVisits {
					continue
				}
				key := fmt.Sprintf("%v|%s|%d|%d|%d", it.path.NoSlot, nt, tr.After.Cf, tr.After.Ks, n)
				expanded = true
				if seen[key] {
					continue
				}
				seen[key] = true
				st.States++
				r.StateStr("state", key)
				nv := make(map[string]int, len(it.visits)+1)
				for k, c := range it.visits {
					nv[k] = c
				}
				nv[nt] = n + 1
				queue = append(queue, qitem{path: it.path.extend(step), visits: nv})
			}
		}
	}
	return st
}

// ================================================================= END ENGINE

// c33crc16 is a bitwise CRC16-XMODEM (poly 0x1021, init 0) written from the
// cluster specification, independent of slot.go.
func c33crc16(s string) uint16 {
	var crc uint16
	for i := 0; i < len(s); i++ {
		crc ^= uint16(s[i]) << 8
		for b := 0; b < 8; b++ {
			if crc&0x8000 != 0 {
				crc = crc<<1 ^ 0x1021
			} else {
				crc <<= 1
			}
		}
	}
	return crc
}

// c33refSlot: hash only what is between the first '{' and the first '}' after it, if non-empty.
func c33refSlot(key string) uint16 {
	if i := strings.IndexByte(key, '{'); i >= 0 {
		if j := strings.IndexByte(key[i+1:], '}'); j > 0 {
			key = key[i+1 : i+1+j]
		}
	}
	return c33crc16(key) % 16384
}

// c33expect is the reference rendering of one canned argument: a list of
// alternatives per token (any alternative is accepted) plus remarks.
type c33expect struct {
	toks    [][]string // toks[i] = accepted spellings of the i-th emitted token
	remarks []string
	unknown bool // duration/time whose unit cannot be derived
}

func c33divFloorCeil(n, unit int64) []string {
	q := n / unit
	out := []string{strconv.FormatInt(q, 10)}
	if n%unit != 0 {
		if n < 0 {
			out = append(out, strconv.FormatInt(q-1, 10))
		} else {
			out = append(out, strconv.FormatInt(q+1, 10))
		}
	}
	return out
}

// c33unitOf derives the unit of a duration/time option from a name: "ms",
// "s", "unixms", "unixs" or "".
func c33unitOf(name string) string {
	n := strings.ToLower(name)
	switch {
	case strings.Contains(n, "pxat") || strings.Contains(n, "pexpireat"):
		return "unixms"
	case strings.Contains(n, "exat") || strings.Contains(n, "expireat"):
		return "unixs"
	case strings.Contains(n, "px") || strings.Contains(n, "pexpire") || strings.Contains(n, "milliseconds"):
		return "ms"
	case n == "ex" || strings.Contains(n, "seconds") || strings.HasPrefix(n, "ex") || strings.Contains(n, "expire"):
		return "s"
	}
	return ""
}

func c33render(method string, a c33Arg) c33expect {
	var e c33expect
	one := func(alts ...string) { e.toks = append(e.toks, alts) }
	switch a.K {
	case "s", "vs", "ss", "qs":
		for _, s := range a.V {
			one(s)
		}
	case "i", "vi", "u":
		for _, s := range a.V { // the canned text IS the canonical base-10 form
			one(s)
		}
	case "f", "vf":
		for _, s := range a.V {
			f, _ := strconv.ParseFloat(s, 64)
			one(strconv.FormatFloat(f, 'f', -1, 64))
		}
	case "g", "vg":
		for _, s := range a.V {
			f, _ := strconv.ParseFloat(s, 32)
			short := strconv.FormatFloat(f, 'f', -1, 32)                  // shortest form that round-trips as float32
			wide := strconv.FormatFloat(float64(float32(f)), 'f', -1, 64) // shortest form of the widened float64
			one(short, wide)
		}
	case "qf":
		for k := 0; k+1 < len(a.V); k += 2 { // ZADD wire order: score member
			f, _ := strconv.ParseFloat(a.V[k+1], 64)
			one(strconv.FormatFloat(f, 'f', -1, 64))
			one(a.V[k])
		}
	case "d":
		ns, _ := strconv.ParseInt(a.V[0], 10, 64)
		switch c33unitOf(method) {
		case "ms":
			one(c33divFloorCeil(ns, 1e6)...)
		case "s":
			one(c33divFloorCeil(ns, 1e9)...)
		default:
			e.unknown = true
		}
	case "t":
		parts := strings.Split(a.V[0], ",")
		sec, _ := strconv.ParseInt(parts[0], 10, 64)
		nsec, _ := strconv.ParseInt(parts[1], 10, 64)
		switch c33unitOf(method) {
		case "unixms":
			alts := []string{strconv.FormatInt(sec*1000+nsec/1e6, 10)}
			if nsec%1e6 != 0 {
				alts = append(alts, strconv.FormatInt(sec*1000+nsec/1e6+1, 10))
			}
			one(alts...)
		case "unixs":
			alts := []string{strconv.FormatInt(sec, 10)}
			if nsec != 0 {
				alts = append(alts, strconv.FormatInt(sec+1, 10))
			}
			one(alts...)
		default:
			e.unknown = true
		}
	}
	return e
}

// key-like method names (the parameter names are invisible to reflection).
var c33keyNames = map[string]bool{"Key": true, "Keys": true, "Source": true, "Destination": true, "Newkey": true, "Destkey": true,
	"Sourcekey": true, "SourceKey": true, "DestinationKey": true, "Src": true, "Dst": true, "Key1": true, "Key2": true}

// key-named methods whose string parameter is NOT a Redis key that routes the
// command (judged by hand from the command reference).
var c33notKeys = map[string]bool{
	"ClusterKeyslot.Key": true, "RgConfigget.Key": true, "RgConfiggetKey.Key": true,
	"FtSearchInKeysInkeys.Key": true, "FtSearchInKeysKey.Key": true, // INKEYS document filter of an index wide search
	"AiScriptexecuteFunction.Keys": true, // KEYS <count>
}

type c33Replay struct {
	Path  c33Path  `json:"path"`
	Step  c33Step  `json:"step"`
	Other *c33Step `json:"other,omitempty"` // second argument vector for the keyword-constancy comparison
}

func c33eq(a, b []string) bool {
	if len(a) != len(b) {
		return false
	}
	for i := range a {
		if a[i] != b[i] {
			return false
		}
	}
	return true
}

// c33core extracts the unique "s<n>z" cores of the sentinel strings of a step.
func c33cores(s c33Step) (cores []string, full []string) {
	for _, a := range s.A {
		switch a.K {
		case "s", "vs", "ss", "qs":
			full = append(full, a.V...)
		case "qf":
			for k := 0; k < len(a.V); k += 2 {
				full = append(full, a.V[k])
			}
		}
	}
	for _, f := range full {
		rest := strings.TrimPrefix(f, "{t}")
		if k := strings.IndexByte(rest, 'z'); k > 0 {
			cores = append(cores, rest[:k+1])
		}
	}
	return
}

// c33checkTrans applies all per-transition oracles; it returns the constant
// keyword tokens the method emitted (ok=false when they could not be derived).
func c33checkTrans(r *vrun.Run, tr *c33Trans, rp c33Replay, notes map[string]map[string]bool) (kw []string, ok bool) {
	mkey := tr.Before.Type + "." + tr.Step.M
	call := tr.Parent.String() + "." + tr.Step.M + "(" + fmt.Sprint(tr.Step.A) + ")"
	before, after := tr.Before.Argv, tr.After.Argv
	note := func(class, what string) {
		if notes[class] == nil {
			notes[class] = map[string]bool{}
		}
		notes[class][what] = true
	}
	// (1) earlier elements are never modified
	if len(after) < len(before) || !c33eq(after[:len(before)], before) {
		c33viol(r, mkey+": earlier argv elements modified by a later step", fmt.Sprintf("before %q after %q via %s", before, after, call), rp)
		return nil, false
	}
	tail := after[len(before):]
	term := tr.After.Kind == 3 || tr.After.Kind == 4
	if term {
		// Build()/Cache()/Blocking()/ReadOnly()/MultiGet() add nothing
		if len(tail) != 0 {
			c33viol(r, mkey+": terminal changes argv", fmt.Sprintf("before %q after %q via %s", before, after, call), rp)
		}
		if tr.After.Ks != tr.Before.Ks {
			c33viol(r, mkey+": terminal changes the slot", fmt.Sprintf("ks %d -> %d via %s", tr.Before.Ks, tr.After.Ks, call), rp)
		}
		if tr.Before.Kind == 1 && tr.After.Cf != tr.Before.Cf {
			c33viol(r, mkey+": terminal changes the flags", fmt.Sprintf("cf %#x -> %#x via %s", tr.Before.Cf, tr.After.Cf, call), rp)
		}
		r.Outcome("terminal: argv, flags and slot carried over unchanged")
		return nil, true
	}
	// (2) formatted arguments appear in call order; the rest are constant keywords
	var want [][]string
	unknownUnit := false
	for _, a := range tr.Step.A {
		e := c33render(tr.Step.M, a)
		if e.unknown {
			unknownUnit = true
		}
		want = append(want, e.toks...)
	}
	if unknownUnit {
		r.Outcome("unknown-unit (duration/time option whose name does not tell the unit)")
		note("unknown-unit", mkey)
		return nil, false
	}
	wi := 0
	for _, tok := range tail {
		matched := false
		if wi < len(want) {
			for ai, alt := range want[wi] {
				if tok == alt {
					matched = true
					if ai > 0 {
						note("alt", fmt.Sprintf("%s emitted %q (strict form %q)", mkey, tok, want[wi][0]))
					}
					break
				}
			}
		}
		if matched {
			wi++
		} else {
			kw = append(kw, tok)
		}
	}
	if wi != len(want) {
		var strict []string
		for _, w := range want {
			strict = append(strict, w[0])
		}
		c33viol(r, mkey+": caller arguments missing, reordered or re-formatted", fmt.Sprintf("appended %q, expected the tokens %q in this order (keywords may be interleaved) via %s", tail, strict, call), rp)
		return nil, false
	}
	for _, k := range kw {
		if strings.Contains(k, "{t}") {
			c33viol(r, mkey+": caller string duplicated or altered", fmt.Sprintf("appended %q contains an extra token %q derived from an argument via %s", tail, k, call), rp)
			return nil, false
		}
	}
	// (3) sentinels verbatim exactly once in the whole argv
	cores, full := c33cores(tr.Step)
	for i, f := range full {
		n, sub := 0, 0
		for _, x := range after {
			if x == f {
				n++
			} else if i < len(cores) && strings.Contains(x, cores[i]) {
				sub++
			}
		}
		if n != 1 || sub != 0 {
			c33viol(r, mkey+": caller string not exactly once verbatim", fmt.Sprintf("%q occurs %d times verbatim and %d times embedded in %q via %s", f, n, sub, after, call), rp)
		}
	}
	if len(before) == 0 && len(kw) == 0 && tr.Before.Kind == 0 && tr.Step.M != "Arbitrary" {
		c33viol(r, mkey+": root method emits no command token", fmt.Sprintf("argv %q via %s", after, call), rp)
	}
	// (4) time units: the emitted option keyword must name the same unit as the method
	for _, a := range tr.Step.A {
		if a.K == "d" || a.K == "t" {
			mu := c33unitOf(tr.Step.M)
			ku := ""
			if len(kw) == 1 {
				ku = c33unitOf(kw[0])
			}
			if ku != mu {
				c33viol(r, mkey+": option keyword and method name disagree on the unit", fmt.Sprintf("method unit %q, keywords %q via %s", mu, kw, call), rp)
			} else {
				r.Outcome("time option in the unit of its keyword: " + mu)
			}
			r.NonTrivialStr("unit", mkey, fmt.Sprint(tr.Step.A))
		}
	}
	// (5) slot
	ref := c33refSlot("t")
	unset, set := InitSlot, ref
	if tr.Parent.NoSlot {
		unset, set = NoSlot, NoSlot|ref
	}
	nstr := len(full)
	switch {
	case tr.After.Ks != unset && tr.After.Ks != set:
		c33viol(r, mkey+": slot is neither unset nor the CRC16 slot of the hash tag", fmt.Sprintf("ks=%d, want %d or %d via %s", tr.After.Ks, unset, set, call), rp)
	case tr.Before.Kind != 0 && tr.Before.Ks == set && tr.After.Ks != set:
		c33viol(r, mkey+": slot forgotten", fmt.Sprintf("ks %d -> %d via %s", tr.Before.Ks, tr.After.Ks, call), rp)
	case tr.After.Ks != tr.Before.Ks && nstr == 0 && tr.Before.Kind != 0:
		c33viol(r, mkey+": slot changed by a method without string argument", fmt.Sprintf("ks %d -> %d via %s", tr.Before.Ks, tr.After.Ks, call), rp)
	case c33keyNames[tr.Step.M] && nstr > 0 && tr.After.Ks != set:
		if c33notKeys[mkey] {
			r.Outcome("key-named method whose argument is not a routing key")
		} else {
			c33viol(r, mkey+": key argument does not set the slot", fmt.Sprintf("ks stays %d, want %d (CRC16(\"t\") mod 16384 = %d) after %s; argv %q", tr.After.Ks, set, ref, call, after), rp)
		}
	case c33keyNames[tr.Step.M] && nstr > 0:
		r.Outcome("key method sets the reference slot")
		r.NonTrivialStr("slot", mkey)
	case tr.After.Ks != tr.Before.Ks && tr.Before.Kind != 0:
		r.Outcome("slot set by a method not in the key-name list")
		note("slot-setters outside the key-name list", tr.Step.M)
	}
	if len(tr.Step.A) > 0 {
		r.NonTrivialStr("args", mkey, strconv.Itoa(tr.Combo))
		r.Outcome("arguments appended verbatim in call order")
	} else {
		r.Outcome("keyword-only step")
	}
	return kw, true
}

func c33run(p c33Path, s c33Step) *c33Trans {
	v, pv := c33replay(p)
	if pv != nil {
		return nil
	}
	tr := &c33Trans{Parent: p, Step: s, Before: c33snap(v)}
	out, pv, site := c33call(v, s.M, s.A)
	tr.Panic, tr.Site = pv, site
	if pv == nil {
		tr.After = c33snap(out)
	}
	return tr
}

func c33sorted(m map[string]bool) string {
	var ks []string
	for k := range m {
		ks = append(ks, k)
	}
	sort.Strings(ks)
	if len(ks) > 60 {
		return strings.Join(ks[:60], "; ") + fmt.Sprintf("; ... (%d in total)", len(ks))
	}
	return strings.Join(ks, "; ")
}

// c33slotOnly selects which oracle family reports: false = the C33 argv rules, true = only the
// slot rules (they belong to C18: "the slot of every built command equals the CRC16 slot of its key").
var c33slotOnly bool

func c33viol(r *vrun.Run, sig, detail string, rp any) {
	if strings.Contains(sig, "slot") == c33slotOnly {
		r.Violate(sig, detail, rp)
	}
}

func TestVerif_C33(t *testing.T) {
	vrun.Main(t, "C33", func(r *vrun.Run) { c33main(r, false) })
}

func c33main(r *vrun.Run, slotOnly bool) {
	c33slotOnly = slotOnly
	{
		const c33rule = "builder half of C33: BFS by reflection over the builder type graph (InitSlot and NoSlot builders, every exported method of every reachable step type, every canned value class per parameter type: unique {t}-tagged sentinel strings incl. one with space/CR/LF/quotes, variadics with 1,2,0 elements, int64 {10,0,-1,max,min}, uint64 {10,0,max}, float64/float32 {0.1,0,-0,1e21,1e-7,+Inf,-Inf,NaN}, durations {1.5s,-1.5s,0,999us,1d1h1m1.001s,500ms}, times {(1700000000,123ms),(0,0),(-1,500ms),(1,999999999ns),(253402300799,999ms)}, iter.Seq2 pairs); at every transition: argv prefix preserved, appended tokens = constant keywords + formatted arguments in call order, sentinels verbatim exactly once, keywords identical for all argument values of a method, time options in the unit of keyword and method name, slot rules; terminals carry argv/flags/slot over. non-trivial = transitions with at least one argument"
		if !slotOnly {
			r.Rule = c33rule
		}
		maxVisits := vrun.Pick(r, 2, 3)
		r.Bounds["max_visits_of_a_type_per_path"] = maxVisits
		r.Assume("only the builder half of C33 is checked here (recycling while in flight is checked elsewhere)")
		r.Assume("a float32 parameter may be rendered either in its own shortest round-trip form or as the shortest form of the widened float64 (both parse back to exactly the caller's value); which one is used is reported in a note")
		r.Assume("a duration/time that is not a whole number of units may be truncated or rounded to a neighbouring integer; +Inf/-Inf/NaN are compared with strconv.FormatFloat(f,'f',-1,64)")
		r.Assume("ZaddScoreMember.ScoreMemberIter yields (member, score) and must emit score member (ZADD wire order)")
		r.Assume("parameter names are invisible to reflection: key parameters are recognised by the method names Key/Keys/Source/Destination/Newkey/Destkey/Sourcekey/SourceKey/DestinationKey/Src/Dst/Key1/Key2 minus a hand written list of non-routing parameters")
		notes := map[string]map[string]bool{}

		if raw, ok := r.ReplayPayload(); ok {
			var rp c33Replay
			if err := json.Unmarshal(raw, &rp); err != nil {
				panic(err)
			}
			tr := c33run(rp.Path, rp.Step)
			if tr == nil || tr.Panic != nil {
				if tr != nil {
					c33viol(r, tr.Before.Type+"."+rp.Step.M+": panics in "+tr.Site, fmt.Sprint(tr.Panic), rp)
				}
				return
			}
			r.Evaluations++
			kw, ok1 := c33checkTrans(r, tr, rp, notes)
			if rp.Other != nil && ok1 {
				tr2 := c33run(rp.Path, *rp.Other)
				if tr2 != nil && tr2.Panic == nil {
					kw2, ok2 := c33checkTrans(r, tr2, rp, notes)
					if ok2 && !c33eq(kw, kw2) {
						c33viol(r, tr.Before.Type+"."+rp.Step.M+": keyword tokens depend on the argument values", fmt.Sprintf("%q vs %q", kw, kw2), rp)
					}
				}
			}
			return
		}

		type kwRec struct {
			kw   []string
			step c33Step
		}
		kws := map[string]kwRec{}
		st := c33walk(r, maxVisits, func(tr *c33Trans) {
			r.Evaluations++
			mkey := tr.Before.Type + "." + tr.Step.M
			rp := c33Replay{Path: tr.Parent, Step: tr.Step}
			if tr.Panic != nil {
				msg := fmt.Sprint(tr.Panic)
				if tr.Before.Kind == 2 { // hand written Arbitrary: documented panics for misuse
					r.Outcome("Arbitrary misuse panic: " + msg)
					return
				}
				c33viol(r, mkey+": panics in "+tr.Site, msg+" via "+tr.Parent.String()+"."+tr.Step.M, rp)
				return
			}
			kw, ok := c33checkTrans(r, tr, rp, notes)
			if !ok || tr.After.Kind == 3 || tr.After.Kind == 4 {
				return
			}
			key := fmt.Sprintf("%v|%s", tr.Parent.NoSlot, mkey)
			if prev, seen := kws[key]; !seen {
				kws[key] = kwRec{kw, tr.Step}
			} else if !c33eq(prev.kw, kw) {
				o := prev.step
				rp.Other = &o
				c33viol(r, mkey+": keyword tokens depend on the argument values", fmt.Sprintf("%q for %v but %q for %v", prev.kw, prev.step.A, kw, tr.Step.A), rp)
			}
			if r.WantSample() && len(tr.Step.A) > 1 {
				r.Sample(map[string]any{"call": tr.Parent.String() + "." + tr.Step.M, "args": tr.Step.A, "before": tr.Before.Argv, "after": tr.After.Argv})
			}
		})
		r.Bounds["types"] = st.Types
		r.Bounds["methods"] = st.Methods
		r.Bounds["root_commands"] = st.Roots
		r.Bounds["terminals"] = st.Terminals
		b, _ := json.Marshal(st.ParamKinds)
		r.Note("parameter kinds seen (count of method parameters; all kinds are handled): " + string(b))
		if len(st.Unhandled) > 0 {
			b, _ = json.Marshal(st.Unhandled)
			r.Note("UNHANDLED parameter types (methods skipped): " + string(b))
		}
		var classes []string
		for c := range notes {
			classes = append(classes, c)
		}
		sort.Strings(classes)
		for _, c := range classes {
			r.Note(fmt.Sprintf("%s (%d): %s", c, len(notes[c]), c33sorted(notes[c])))
		}
		r.Note("float formatting observed: +Inf -> \"+Inf\", -Inf -> \"-Inf\", NaN -> \"NaN\", -0 -> \"-0\", 1e21 -> \"1000000000000000000000\", 1e-7 -> \"0.0000001\" (strconv 'f' -1 64). Redis parses doubles with strtod-like routines that accept inf/+inf/-inf case-insensitively and reject nan with an error, so nothing is misparsed")
	}
}
