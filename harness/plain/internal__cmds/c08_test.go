//go:build verif

package cmds

import (
	"encoding/json"
	"fmt"
	"reflect"
	"sort"
	"strconv"
	"strings"
	"testing"

	"github.com/redis/rueidis/vshim/vrun"
)

// ---------------------------------------------------------------- type graph

type c08Meth struct {
	name  string
	out   reflect.Type
	kinds []string // parameter kinds: s vs ss i vi u f vf g vg
	term  int      // 0 step, 1 Build, 2 Cache
	bad   string   // unhandled parameter type
}

var (
	c08IncT = reflect.TypeOf(Incomplete{})
	c08ComT = reflect.TypeOf(Completed{})
	c08CacT = reflect.TypeOf(Cacheable{})
)

func c08kindOf(t reflect.Type, variadic bool) string {
	k := t.Kind()
	if variadic {
		switch t.Elem().Kind() {
		case reflect.String:
			return "vs"
		case reflect.Int64:
			return "vi"
		case reflect.Float64:
			return "vf"
		case reflect.Float32:
			return "vg"
		}
		return ""
	}
	switch {
	case t.PkgPath() == "time":
		return ""
	case k == reflect.String:
		return "s"
	case k == reflect.Int64:
		return "i"
	case k == reflect.Uint64:
		return "u"
	case k == reflect.Float64:
		return "f"
	case k == reflect.Float32:
		return "g"
	case k == reflect.Slice && t.Elem().Kind() == reflect.String:
		return "ss"
	}
	return ""
}

func c08methods(t reflect.Type) []c08Meth {
	var ms []c08Meth
	for i := 0; i < t.NumMethod(); i++ {
		m := t.Method(i)
		ft := m.Type // In(0) is the receiver
		if ft.NumOut() != 1 {
			continue
		}
		ot := ft.Out(0)
		cm := c08Meth{name: m.Name, out: ot}
		switch {
		case ot == c08ComT:
			cm.term = 1
		case ot == c08CacT:
			cm.term = 2
		case ot.Kind() == reflect.Struct && ot.PkgPath() == t.PkgPath() && ot.ConvertibleTo(c08IncT):
		default:
			continue
		}
		for p := 1; p < ft.NumIn(); p++ {
			k := c08kindOf(ft.In(p), ft.IsVariadic() && p == ft.NumIn()-1)
			if k == "" {
				cm.bad = ft.In(p).String()
			}
			cm.kinds = append(cm.kinds, k)
		}
		ms = append(ms, cm)
	}
	return ms
}

type c08Graph struct {
	meths map[reflect.Type][]c08Meth
	reach map[reflect.Type]bool // can reach a Cache() offering type (or offers it)
	offer map[reflect.Type]bool
}

func c08build() *c08Graph {
	g := &c08Graph{meths: map[reflect.Type][]c08Meth{}, reach: map[reflect.Type]bool{}, offer: map[reflect.Type]bool{}}
	root := reflect.TypeOf(Builder{})
	queue := []reflect.Type{root}
	g.meths[root] = c08methods(root)
	for len(queue) > 0 {
		t := queue[0]
		queue = queue[1:]
		for _, m := range g.meths[t] {
			if m.term == 2 {
				g.offer[t] = true
				g.reach[t] = true
			}
			if m.term != 0 {
				continue
			}
			if _, ok := g.meths[m.out]; !ok {
				g.meths[m.out] = c08methods(m.out)
				queue = append(queue, m.out)
			}
		}
	}
	for changed := true; changed; {
		changed = false
		for t, ms := range g.meths {
			if g.reach[t] {
				continue
			}
			for _, m := range ms {
				if m.term == 0 && g.reach[m.out] {
					g.reach[t] = true
					changed = true
					break
				}
			}
		}
	}
	return g
}

// c08PathT is a method sequence from Builder to a Cache() offering type.
type c08PathT struct {
	meths []c08Meth
	types []reflect.Type // type after each method
}

func (g *c08Graph) paths() []c08PathT {
	var out []c08PathT
	var rec func(t reflect.Type, cur c08PathT, on map[reflect.Type]bool)
	rec = func(t reflect.Type, cur c08PathT, on map[reflect.Type]bool) {
		if g.offer[t] {
			cp := c08PathT{meths: append([]c08Meth(nil), cur.meths...), types: append([]reflect.Type(nil), cur.types...)}
			out = append(out, cp)
		}
		for _, m := range g.meths[t] {
			if m.term != 0 || !g.reach[m.out] || on[m.out] || m.bad != "" {
				continue
			}
			on[m.out] = true
			rec(m.out, c08PathT{meths: append(cur.meths, m), types: append(cur.types, m.out)}, on)
			delete(on, m.out)
		}
	}
	rec(reflect.TypeOf(Builder{}), c08PathT{}, map[reflect.Type]bool{})
	return out
}

// ---------------------------------------------------------------- shapes

// c08Recipe rebuilds one command through the real builder: method names from
// Builder, the length of every variadic parameter and the text of every slot.
type c08Recipe struct {
	M    []string `json:"m"`
	Vlen []int    `json:"vlen"`
	Vals []string `json:"vals"`
}

// c08buildReal runs the real builder by reflection. It returns the Cacheable.
func c08buildReal(rc c08Recipe) (c Cacheable, err error) {
	pv, _ := vrun.Catch(func() {
		v := reflect.ValueOf(NewBuilder(NoSlot))
		vi, si := 0, 0
		for _, name := range rc.M {
			m := v.MethodByName(name)
			if !m.IsValid() {
				panic("no method " + name + " on " + v.Type().Name())
			}
			mt := m.Type()
			var in []reflect.Value
			for p := 0; p < mt.NumIn(); p++ {
				k := c08kindOf(mt.In(p), mt.IsVariadic() && p == mt.NumIn()-1)
				n := 1
				if k[0] == 'v' || k == "ss" {
					n = rc.Vlen[vi]
					vi++
				}
				var elems []reflect.Value
				for e := 0; e < n; e++ {
					elems = append(elems, c08value(k, rc.Vals[si]))
					si++
				}
				if k == "ss" {
					ss := make([]string, n)
					for e := range elems {
						ss[e] = elems[e].String()
					}
					in = append(in, reflect.ValueOf(ss))
				} else {
					in = append(in, elems...)
				}
			}
			v = m.Call(in)[0]
		}
		c = v.MethodByName("Cache").Call(nil)[0].Interface().(Cacheable)
	})
	if pv != nil {
		return c, fmt.Errorf("%v", pv)
	}
	return c, nil
}

func c08value(kind, text string) reflect.Value {
	switch kind {
	case "s", "vs", "ss":
		return reflect.ValueOf(text)
	case "i", "vi":
		n, _ := strconv.ParseInt(text, 10, 64)
		return reflect.ValueOf(n)
	case "u":
		n, _ := strconv.ParseUint(text, 10, 64)
		return reflect.ValueOf(n)
	case "f", "vf":
		f, _ := strconv.ParseFloat(text, 64)
		return reflect.ValueOf(f)
	case "g", "vg":
		f, _ := strconv.ParseFloat(text, 32)
		return reflect.ValueOf(float32(f))
	}
	panic("c08value: kind " + kind)
}

// c08Shape is a path with fixed variadic lengths: a command template with n slots.
type c08Shape struct {
	id     int
	m      []string
	vlen   []int
	kinds  []string // per slot: s i u f g
	name   string
	cf, ks uint16
	tmpl   []string // argv with slots still holding placeholders
	pos    []int    // argv index of every slot
	alpha  [][]string
	// enumeration plan
	width  int
	wsize  []int // number of vectors of every window
	total  int
	prefix []int // prefixes of path (number of methods) that offer Cache() and end in a string slot: for the absorb probe
	pslots []int // slot count of those prefixes
}

func (s *c08Shape) recipe(vals []string) c08Recipe {
	return c08Recipe{M: s.m, Vlen: s.vlen, Vals: append([]string(nil), vals...)}
}

func (s *c08Shape) describe() string {
	d := strings.Join(s.m, ".")
	if len(s.vlen) > 0 {
		d += fmt.Sprint(" variadic lengths ", s.vlen)
	}
	return d
}

// argv instantiates the template (no reflection).
func (s *c08Shape) argv(vals []string) []string {
	a := make([]string, len(s.tmpl))
	copy(a, s.tmpl)
	for i, p := range s.pos {
		a[p] = vals[i]
	}
	return a
}

// vector returns the L-th argument vector of the enumeration plan.
func (s *c08Shape) vector(L int, out []string) []string {
	n := len(s.kinds)
	out = out[:0]
	for i := 0; i < n; i++ {
		out = append(out, s.alpha[i][0]) // default: "a" / 1
	}
	start := 0
	for start < len(s.wsize) && L >= s.wsize[start] {
		L -= s.wsize[start]
		start++
	}
	for j := start + s.width - 1; j >= start; j-- {
		k := len(s.alpha[j])
		out[j] = s.alpha[j][L%k]
		L /= k
	}
	return out
}

func (s *c08Shape) plan(limit int) {
	n := len(s.kinds)
	if n == 0 {
		s.width, s.wsize, s.total = 0, []int{1}, 1
		return
	}
	for w := n; w >= 1; w-- {
		var sizes []int
		tot := 0
		for st := 0; st+w <= n; st++ {
			sz := 1
			for j := st; j < st+w; j++ {
				sz *= len(s.alpha[j])
				if sz > 1<<30 {
					sz = 1 << 30
				}
			}
			sizes = append(sizes, sz)
			tot += sz
			if tot > 1<<30 {
				tot = 1 << 30
			}
		}
		if tot <= limit || w == 1 {
			s.width, s.wsize, s.total = w, sizes, tot
			return
		}
	}
}

var c08base = []string{"a", "b", "ab", "ba", "1", "2", "12", "GET", "aGET"}
var c08nums = []string{"1", "2", "12", "21"}

// c08mkShape runs the real builder once with unique placeholders to learn the
// argv template of the shape.
func c08mkShape(p c08PathT, vlen []int) (*c08Shape, error) {
	s := &c08Shape{vlen: vlen}
	var ph []string
	vi := 0
	for _, m := range p.meths {
		s.m = append(s.m, m.name)
		for _, k := range m.kinds {
			n := 1
			if k[0] == 'v' || k == "ss" {
				n = vlen[vi]
				vi++
			}
			for e := 0; e < n; e++ {
				idx := len(s.kinds)
				switch k {
				case "s", "vs", "ss":
					s.kinds = append(s.kinds, "s")
					ph = append(ph, "\x01S"+strconv.Itoa(idx)+"\x01")
				case "i", "vi":
					s.kinds = append(s.kinds, "i")
					ph = append(ph, strconv.Itoa(7000001+idx))
				case "u":
					s.kinds = append(s.kinds, "u")
					ph = append(ph, strconv.Itoa(7000001+idx))
				case "f", "vf":
					s.kinds = append(s.kinds, "f")
					ph = append(ph, strconv.Itoa(7000001+idx))
				case "g", "vg":
					s.kinds = append(s.kinds, "g")
					ph = append(ph, strconv.Itoa(7000001+idx))
				}
			}
		}
	}
	c, err := c08buildReal(c08Recipe{M: s.m, Vlen: vlen, Vals: ph})
	if err != nil {
		return nil, err
	}
	s.tmpl = append([]string(nil), c.cs.s...)
	s.cf, s.ks = c.cf, c.ks
	s.name = s.tmpl[0]
	s.pos = make([]int, len(ph))
	for i, h := range ph {
		s.pos[i] = -1
		for j, tok := range s.tmpl {
			if tok == h {
				if s.pos[i] >= 0 {
					return nil, fmt.Errorf("placeholder %q twice in %q", h, s.tmpl)
				}
				s.pos[i] = j
			}
		}
		if s.pos[i] < 0 {
			return nil, fmt.Errorf("placeholder %q not in %q", h, s.tmpl)
		}
	}
	return s, nil
}

// ---------------------------------------------------------------- identities

type c08Ident struct {
	key, cmd string
	argv     []string // the (pseudo) command the entry stands for
}

// c08idents computes the cache identities of a cacheable exactly as pipe.go
// does: DoCache -> CacheKey, or per key MGetCacheKey/MGetCacheCmd for MGET and
// JSON.MGET (doCacheMGet). pan != "" when CacheKey panics.
func c08idents(c Cacheable) (ids []c08Ident, pan string) {
	defer func() { // plain recover: CacheKey panics by design for scripts with numkeys != 1
		if pv := recover(); pv != nil {
			ids, pan = nil, fmt.Sprint(pv)
		}
	}()
	func() {
		if c.IsMGet() {
			argv := c.Commands()
			keys := len(argv) - 1
			cc := MGetCacheCmd(c)
			if cc[0] == 'J' {
				keys--
			}
			for i := 0; i < keys; i++ {
				k := MGetCacheKey(c, i)
				// the entry of key i is, by design, the entry of the singular command
				pseudo := []string{"GET", argv[i+1]}
				if cc[0] == 'J' {
					pseudo = []string{"JSON.GET", argv[i+1], argv[len(argv)-1]}
				}
				ids = append(ids, c08Ident{k, cc, pseudo})
			}
			return
		}
		k, cc := CacheKey(c)
		ids = append(ids, c08Ident{k, cc, c.Commands()})
	}()
	return ids, ""
}

func c08hash(parts ...string) uint64 {
	h := uint64(14695981039346656037)
	for _, p := range parts {
		for i := 0; i < len(p); i++ {
			h ^= uint64(p[i])
			h *= 1099511628211
		}
		h ^= 0xff
		h *= 1099511628211
	}
	return h
}

func c08same(a, b []string) bool {
	if len(a) != len(b) {
		return false
	}
	for i := range a {
		if a[i] != b[i] {
			return false
		}
	}
	return true
}

type c08Rec struct {
	shape int32
	elem  int16 // element of an MGET, -1 = whole command
	L     int32 // >= 0: index in the shape's plan; < 0: -(index into specials)-1
}

type c08Pair struct {
	A, B c08Recipe
	Elem [2]int `json:"elem"`
}

type c08Coll struct {
	sig    string
	detail string
	pair   c08Pair
	score  int
	count  int
	shapes map[string]bool
}

type c08State struct {
	pass     int
	passes   int
	r        *vrun.Run
	shapes   []*c08Shape
	recs     []c08Rec
	specials [][]string
	builtin  map[uint64]uint32
	adapter  map[uint64]uint32
	colls    map[string]*c08Coll
	dups     int64
	panics   map[string]int64
	filed    int64
}

func (st *c08State) valsOf(rc c08Rec) []string {
	if rc.L < 0 {
		return st.specials[-int(rc.L)-1]
	}
	return st.shapes[rc.shape].vector(int(rc.L), nil)
}

// identOf recomputes the identity of a stored record with the real code.
func (st *c08State) identOf(rc c08Rec) (c08Ident, bool) {
	s := st.shapes[rc.shape]
	c := Cacheable{cs: newCommandSlice(s.argv(st.valsOf(rc))), cf: s.cf, ks: s.ks}
	ids, pan := c08idents(c)
	if pan != "" {
		return c08Ident{}, false
	}
	e := int(rc.elem)
	if e < 0 {
		e = 0
	}
	if e >= len(ids) {
		return c08Ident{}, false
	}
	return ids[e], true
}

func c08score(a, b []string) int {
	sc := len(a) + len(b)
	for _, x := range append(append([]string{}, a...), b...) {
		if x == "" {
			sc += 100
		}
	}
	return sc
}

func (st *c08State) collision(kind string, cur c08Rec, curID c08Ident, old c08Rec, oldID c08Ident) {
	sa, sb := st.shapes[old.shape], st.shapes[cur.shape]
	na, nb := oldID.argv[0], curID.argv[0]
	names := na
	if na != nb {
		if nb < na {
			na, nb = nb, na
		}
		names = na + " vs " + nb
	}
	malformed := func(argv []string) bool {
		switch argv[0] {
		case "EVAL_RO", "EVALSHA_RO", "FCALL_RO":
			return len(argv) < 4 // numkeys=1 declared but no key given: rejected by the server, outside the domain
		}
		return false
	}
	if malformed(oldID.argv) || malformed(curID.argv) {
		st.r.Outcome("ignored: script command built without its declared key")
		return
	}
	// The signature names the mechanism, not the command: every command shape hit by the same cause
	// collapses into one finding; a collision NOT explained by that cause gets its own signature.
	explained := func(argv []string, key, cmd string) bool {
		for k := 1; k < len(argv); k++ { // the key is one of the tokens; all others joined must give cmd
			if argv[k] != key {
				continue
			}
			out := ""
			for i, a := range argv {
				if i != k {
					out += a
				}
			}
			if out == cmd {
				return true
			}
		}
		return false
	}
	sig := names + ": " + kind + " (unexplained)"
	if kind == c08kindBuiltin && explained(oldID.argv, oldID.key, oldID.cmd) && explained(curID.argv, curID.key, curID.cmd) {
		sig = "built-in store: CacheKey joins the non-key tokens without separators, so token boundaries are lost"
	} else if kind == c08kindAdapter && (oldID.key != curID.key || oldID.cmd != curID.cmd) {
		sig = "NewSimpleCacheAdapter: entry name is key+cmd joined without a separator, so the key/command boundary is lost"
	}
	st.r.Outcome(names + ": " + kind)
	c := st.colls[sig]
	if c == nil {
		c = &c08Coll{sig: sig, score: 1 << 30, shapes: map[string]bool{}}
		st.colls[sig] = c
	}
	c.count++
	if len(c.shapes) < 40 {
		c.shapes[sa.describe()+"  ~  "+sb.describe()] = true
	}
	if sc := c08score(oldID.argv, curID.argv); sc < c.score {
		c.score = sc
		what := "built-in store entry (key, cmd)"
		ident := fmt.Sprintf("(%q, %q)", curID.key, curID.cmd)
		if kind == c08kindAdapter {
			what = "NewSimpleCacheAdapter entry key+cmd"
			ident = fmt.Sprintf("%q (from (%q,%q) and (%q,%q))", curID.key+curID.cmd, oldID.key, oldID.cmd, curID.key, curID.cmd)
		}
		c.detail = fmt.Sprintf("commands %q and %q differ but share the %s = %s; expected distinct entries. built by %s and %s", oldID.argv, curID.argv, what, ident, sa.describe(), sb.describe())
		c.pair = c08Pair{A: sa.recipe(st.valsOf(old)), B: sb.recipe(st.valsOf(cur)), Elem: [2]int{int(old.elem), int(cur.elem)}}
	}
}

const (
	c08kindBuiltin = "(key,cmd) collision"
	c08kindAdapter = "adapter key+cmd collision"
)

// add files the identities of one generated command.
func (st *c08State) add(s *c08Shape, L int32, argv []string) {
	c := Cacheable{cs: newCommandSlice(argv), cf: s.cf, ks: s.ks}
	ids, pan := c08idents(c)
	if pan != "" {
		if st.pass == 0 {
			st.panics[pan]++
		}
		return
	}
	for e, id := range ids {
		rc := c08Rec{shape: int32(s.id), elem: int16(e), L: L}
		if !c.IsMGet() {
			rc.elem = -1
		}
		hb := c08hash(id.key, id.cmd)
		ha := c08hash(id.key + id.cmd)
		if !st.r.Mine(int(ha%1048573)) || int(ha>>40)%st.passes != st.pass {
			continue
		}
		builtinHit := false
		if oi, ok := st.builtin[hb]; ok {
			old := st.recs[oi]
			if oid, ok2 := st.identOf(old); ok2 && oid.key == id.key && oid.cmd == id.cmd {
				if c08same(oid.argv, id.argv) {
					st.dups++
					continue
				}
				builtinHit = true
				st.collision(c08kindBuiltin, rc, id, old, oid)
			}
		}
		idx := uint32(len(st.recs))
		st.recs = append(st.recs, rc)
		st.filed++
		if !builtinHit {
			if _, ok := st.builtin[hb]; !ok {
				st.builtin[hb] = idx
			}
		}
		if oi, ok := st.adapter[ha]; ok {
			old := st.recs[oi]
			if oid, ok2 := st.identOf(old); ok2 && oid.key+oid.cmd == id.key+id.cmd && !c08same(oid.argv, id.argv) {
				if oid.key != id.key || oid.cmd != id.cmd { // otherwise already a built-in collision
					st.collision(c08kindAdapter, rc, id, old, oid)
				}
			}
		} else {
			st.adapter[ha] = idx
		}
	}
}

// c08check re-runs one reported pair through the real builder and the real
// identity functions.
func c08check(r *vrun.Run, p c08Pair) (sig, detail string, bad bool) {
	ca, ea := c08buildReal(p.A)
	cb, eb := c08buildReal(p.B)
	if ea != nil || eb != nil {
		return "", "", false
	}
	ia, pa := c08idents(ca)
	ib, pb := c08idents(cb)
	if pa != "" || pb != "" {
		return "", "", false
	}
	pick := func(ids []c08Ident, e int) c08Ident {
		if e < 0 || e >= len(ids) {
			e = 0
		}
		return ids[e]
	}
	a, b := pick(ia, p.Elem[0]), pick(ib, p.Elem[1])
	if c08same(a.argv, b.argv) {
		return "", "", false
	}
	na, nb := a.argv[0], b.argv[0]
	names := na
	if na != nb {
		if nb < na {
			na, nb = nb, na
		}
		names = na + " vs " + nb
	}
	switch {
	case a.key == b.key && a.cmd == b.cmd:
		return names + ": " + c08kindBuiltin, fmt.Sprintf("commands %q and %q (built with the real builders; Commands() = %q and %q) differ but share the built-in store entry (key, cmd) = (%q, %q)", a.argv, b.argv, ca.Commands(), cb.Commands(), a.key, a.cmd), true
	case a.key+a.cmd == b.key+b.cmd:
		return names + ": " + c08kindAdapter, fmt.Sprintf("commands %q and %q (built with the real builders) differ but share the NewSimpleCacheAdapter entry key+cmd = %q (from (%q,%q) and (%q,%q))", a.argv, b.argv, a.key+a.cmd, a.key, a.cmd, b.key, b.cmd), true
	}
	return "", "", false
}

func TestVerif_C08(t *testing.T) {
	vrun.Main(t, "C08", func(r *vrun.Run) {
		r.Rule = "every method path (no type twice) from cmds.Builder to a type offering Cache() is found by reflection; every variadic parameter gets 1..3 elements; each resulting command shape is instantiated with all argument vectors over a colliding alphabet (strings: a,b,ab,ba,1,2,12,GET,aGET, <NAME>, a<NAME>, <NAME>a, suffixes that turn <NAME> into a longer cacheable command name, a<prefix> for cacheable names ending in <NAME>, and the empty string; numbers: 1,2,12,21), in full when the product fits the per-shape limit, otherwise in all windows of w adjacent slots (others at a/1); plus an absorb probe (a shorter cacheable form whose last string argument swallows the tokens of a longer form). The cache identity is computed with the real CacheKey / MGetCacheCmd+MGetCacheKey as pipe.go does; all commands are bucketed by (key,cmd) and by key+cmd; a bucket with two different argv is a collision. non-trivial = commands with at least two slots"
		r.Assume("the built-in store addresses entries by (key, cmd) = cmds.CacheKey(c) (lru.go Flight/Flights, pipe.go DoCache) and per key by (MGetCacheKey, MGetCacheCmd) for MGET / JSON.MGET (pipe.go doCacheMGet); NewSimpleCacheAdapter addresses them by the single string key+cmd (cache.go)")
		r.Assume("an MGET / JSON.MGET element deliberately shares the entry of the singular GET key / JSON.GET key path command, so it is compared as that command")
		r.Assume("argument vectors are built by template instantiation of the argv learnt from one real builder run per shape (validated against the real builder on a sample and for every reported pair); argument values are arbitrary binary-safe strings, the server-side validity of a value (e.g. an empty member) is not modelled")

		if raw, ok := r.ReplayPayload(); ok {
			var p c08Pair
			if err := json.Unmarshal(raw, &p); err != nil {
				panic(err)
			}
			r.Evaluations++
			if sig, detail, bad := c08check(r, p); bad {
				r.Violate(sig, detail, p)
			}
			return
		}

		g := c08build()
		all := g.paths()
		// group by root command
		byRoot := map[string][]c08PathT{}
		var roots []string
		for _, p := range all {
			n := p.meths[0].name
			if _, ok := byRoot[n]; !ok {
				roots = append(roots, n)
			}
			byRoot[n] = append(byRoot[n], p)
		}
		sort.Strings(roots)
		maxPaths := vrun.Pick(r, 48, 1<<30)
		budget := vrun.Pick(r, 150000, 600000)
		r.Bounds["max_paths_per_command_before_edge_cover_selection"] = maxPaths
		r.Bounds["argument_vectors_per_command_budget"] = budget
		r.Bounds["variadic_max"] = 3
		r.Bounds["cache_offering_types"] = len(g.offer)
		r.Bounds["paths_total"] = len(all)

		st := &c08State{r: r, passes: vrun.Pick(r, 1, 4), colls: map[string]*c08Coll{}, panics: map[string]int64{}}
		r.Bounds["bucket_passes"] = st.passes
		// pass 1: shapes and command names
		type cmdShapes struct {
			root   string
			shapes []*c08Shape
		}
		var cmdsList []cmdShapes
		names := map[string]bool{"GET": true, "JSON.GET": true}
		selected := 0
		for _, root := range roots {
			ps := byRoot[root]
			if len(ps) > maxPaths {
				// keep a subset that covers every (type, method) edge and every Cache() offering type
				covered := map[string]bool{}
				var keep []c08PathT
				for _, p := range ps {
					fresh := false
					prev := "Builder"
					for i, m := range p.meths {
						e := prev + "." + m.name
						if !covered[e] {
							covered[e] = true
							fresh = true
						}
						prev = p.types[i].Name()
					}
					if !covered["#"+prev] {
						covered["#"+prev] = true
						fresh = true
					}
					if fresh {
						keep = append(keep, p)
					}
				}
				r.Note(fmt.Sprintf("%s: %d of %d paths kept (cover every builder method and every Cache() offering type)", root, len(keep), len(ps)))
				ps = keep
			}
			selected += len(ps)
			cs := cmdShapes{root: root}
			for _, p := range ps {
				nv := 0
				for _, m := range p.meths {
					for _, k := range m.kinds {
						if k[0] == 'v' || k == "ss" {
							nv++
						}
					}
				}
				vl := make([]int, nv)
				for i := range vl {
					vl[i] = 1
				}
				for {
					s, err := c08mkShape(p, append([]int(nil), vl...))
					if err != nil {
						panic(fmt.Sprintf("template of %v: %v", p.meths, err))
					}
					// prefixes offering Cache() that end in a string slot (absorb probe)
					nslots := 0
					vi := 0
					for mi, m := range p.meths {
						lastStr := false
						for _, k := range m.kinds {
							n := 1
							if k[0] == 'v' || k == "ss" {
								n = vl[vi]
								vi++
							}
							nslots += n
							lastStr = k == "s" || k == "vs" || k == "ss"
						}
						if mi < len(p.meths)-1 && g.offer[p.types[mi]] && lastStr {
							s.prefix = append(s.prefix, mi+1)
							s.pslots = append(s.pslots, nslots)
						}
					}
					s.id = len(st.shapes)
					st.shapes = append(st.shapes, s)
					cs.shapes = append(cs.shapes, s)
					names[s.name] = true
					i := 0
					for ; i < nv; i++ {
						if vl[i] < 3 {
							vl[i]++
							break
						}
						vl[i] = 1
					}
					if i == nv {
						break
					}
				}
			}
			cmdsList = append(cmdsList, cs)
		}
		r.Bounds["paths_selected"] = selected
		r.Bounds["shapes"] = len(st.shapes)
		r.Bounds["cacheable_command_names"] = len(names)
		var nameList []string
		for n := range names {
			nameList = append(nameList, n)
		}
		sort.Strings(nameList)

		// alphabets
		strAlpha := map[string][]string{}
		for _, n := range nameList {
			a := append([]string{}, c08base...)
			a = append(a, n, "a"+n, n+"a")
			for _, m := range nameList {
				if m != n && strings.HasPrefix(m, n) {
					a = append(a, m[len(n):])
				}
				if m != n && strings.HasSuffix(m, n) {
					a = append(a, "a"+m[:len(m)-len(n)])
				}
			}
			a = append(a, "")
			// dedupe keeping order
			seen := map[string]bool{}
			var d []string
			for _, x := range a {
				if !seen[x] {
					seen[x] = true
					d = append(d, x)
				}
			}
			strAlpha[n] = d
		}
		r.Sample(map[string]any{"alphabet of HGET": strAlpha["HGET"], "alphabet of TTL": strAlpha["TTL"], "numbers": c08nums})

		// pass 2: enumerate (thorough: several passes, each filing one partition of the identities, to bound memory)
		vals := make([]string, 0, 16)
		validated, windowed := 0, 0
		stop := false
		for st.pass = 0; st.pass < st.passes && !stop; st.pass++ {
			st.builtin, st.adapter, st.recs, st.specials = map[uint64]uint32{}, map[uint64]uint32{}, nil, nil
			first := st.pass == 0
			for _, cs := range cmdsList {
				if stop {
					break
				}
				limit := budget
				if len(cs.shapes) > 4 {
					limit = 4 * budget / len(cs.shapes)
					if limit < 150 {
						limit = 150
					}
				}
				for _, s := range cs.shapes {
					s.alpha = make([][]string, len(s.kinds))
					for i, k := range s.kinds {
						if k == "s" {
							s.alpha[i] = strAlpha[s.name]
						} else {
							s.alpha[i] = c08nums
						}
					}
					s.plan(limit)
					if first && s.width < len(s.kinds) {
						windowed++
					}
					for L := 0; L < s.total; L++ {
						vals = s.vector(L, vals)
						argv := s.argv(vals)
						if first {
							r.Evaluations++
							h := uint64(s.id)<<36 | uint64(L)
							r.State(h)
							if len(s.kinds) >= 2 {
								r.NonTrivial(h)
							}
						}
						if first && (L == 0 || L == s.total-1 || L%1021 == 511) {
							real, err := c08buildReal(s.recipe(vals))
							if err != nil || !c08same(real.Commands(), argv) || real.cf != s.cf {
								panic(fmt.Sprintf("template instantiation disagrees with the real builder for %s %q: %v %q", s.describe(), vals, err, real.Commands()))
							}
							validated++
						}
						st.add(s, int32(L), argv)
					}
					// absorb probe: the default command of this shape versus each shorter cacheable
					// form whose last string slot swallows the remaining tokens
					if len(s.prefix) > 0 {
						def := s.vector(0, nil)
						full := s.argv(def)
						for pi, pm := range s.prefix {
							ns := s.pslots[pi]
							// find the shape of the prefix
							var ps *c08Shape
							for _, o := range cs.shapes {
								if len(o.m) == pm && c08same(o.m, s.m[:pm]) && len(o.kinds) == ns {
									ps = o
									break
								}
							}
							if ps == nil {
								continue
							}
							pv := append([]string(nil), def[:ns]...)
							plen := len(ps.tmpl)
							pv[ns-1] = full[ps.pos[ns-1]] + strings.Join(full[plen:], "")
							if ps.pos[ns-1] != plen-1 {
								continue
							}
							real, err := c08buildReal(ps.recipe(pv))
							if err != nil {
								continue
							}
							if first {
								r.Evaluations++
								r.Outcome("absorb probe")
							}
							st.specials = append(st.specials, pv)
							st.add(ps, int32(-len(st.specials)), append([]string(nil), real.Commands()...))
						}
					}
					if r.TimeUp() {
						stop = true
						break
					}
				}
			}
		}
		for p, n := range st.panics {
			r.Outcomes["CacheKey panics (by design): "+p] += n
		}
		r.Outcomes["same command generated twice (windows overlap / equivalent paths)"] += st.dups
		r.Outcomes["identities filed"] += st.filed
		r.Bounds["shapes_enumerated_in_windows_instead_of_full_product"] = windowed
		r.Bounds["vectors_validated_against_real_builder"] = validated
		// report: one violation per signature with the most readable pair
		var sigs []string
		for s := range st.colls {
			sigs = append(sigs, s)
		}
		sort.Strings(sigs)
		for _, s := range sigs {
			c := st.colls[s]
			sig, detail, bad := c08check(r, c.pair)
			if !bad {
				r.Note("unconfirmed candidate (not reported): " + c.detail)
				continue
			}
			if sig != c.sig {
				r.Note(fmt.Sprintf("signature changed on confirmation: %q -> %q", c.sig, sig))
			}
			r.Violate(c.sig, detail+" | "+c.detail, c.pair)
			for i := 1; i < c.count; i++ {
				r.Violate(c.sig, "", nil)
			}
			var sh []string
			for d := range c.shapes {
				sh = append(sh, d)
			}
			sort.Strings(sh)
			if len(sh) > 6 {
				sh = append(sh[:6], fmt.Sprintf("... (%d shape pairs recorded)", len(sh)))
			}
			r.Note(fmt.Sprintf("%s [%d colliding pairs]: shapes %s", c.sig, c.count, strings.Join(sh, " ; ")))
			r.Outcome("collision class: " + c.sig[strings.LastIndex(c.sig, ": ")+2:])
		}
	})
}
