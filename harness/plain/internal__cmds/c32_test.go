//go:build verif

package cmds

import (
	"encoding/json"
	"fmt"
	"reflect"
	"sort"
	"strconv"
	"strings"
	"testing"
	"time"

	"github.com/redis/rueidis/vshim/vrun"
)

// ===================================================================== ENGINE
// Breadth-first search over the builder TYPE GRAPH by reflection. (The same
// engine text is duplicated with another prefix in the sibling harness files so
// that every file compiles on its own under VERIF_ONLY.)

// c32Arg is one canned argument in a textual, JSON-safe encoding.
// K: s string | vs ...string | ss []string | i int64 | vi ...int64 | u uint64 |
// f float64 | vf ...float64 | g float32 | vg ...float32 | d time.Duration (ns) |
// t time.Time ("sec,nsec") | qs iter.Seq2[string,string] (flat pairs) |
// qf iter.Seq2[string,float64] (flat member,score pairs).
type c32Arg struct {
	K string   `json:"k"`
	V []string `json:"v"`
}

type c32Step struct {
	M string   `json:"m"`
	A []c32Arg `json:"a"`
}

type c32Path struct {
	NoSlot bool      `json:"noslot"`
	Steps  []c32Step `json:"steps"`
}

func (p c32Path) String() string {
	var sb strings.Builder
	if p.NoSlot {
		sb.WriteString("NewBuilder(NoSlot)")
	} else {
		sb.WriteString("NewBuilder(InitSlot)")
	}
	for _, s := range p.Steps {
		sb.WriteString("." + s.M + "(")
		for i, a := range s.A {
			if i > 0 {
				sb.WriteString(", ")
			}
			sb.WriteString(a.K + ":" + strings.Join(a.V, "|"))
		}
		sb.WriteString(")")
	}
	return sb.String()
}

func (p c32Path) extend(s c32Step) c32Path {
	q := c32Path{NoSlot: p.NoSlot, Steps: make([]c32Step, len(p.Steps)+1)}
	copy(q.Steps, p.Steps)
	q.Steps[len(p.Steps)] = s
	return q
}

var (
	c32IncT  = reflect.TypeOf(Incomplete{})
	c32ComT  = reflect.TypeOf(Completed{})
	c32CacT  = reflect.TypeOf(Cacheable{})
	c32DurT  = reflect.TypeOf(time.Duration(0))
	c32TimeT = reflect.TypeOf(time.Time{})
)

// c32Snap is the observable state of a builder step value.
type c32Snap struct {
	Type string
	Argv []string
	Cf   uint16
	Ks   uint16
	Kind int // 0 Builder, 1 Incomplete-like step, 2 Arbitrary-like (Completed underlying), 3 Completed, 4 Cacheable, -1 other
}

func c32snap(v reflect.Value) c32Snap {
	t := v.Type()
	s := c32Snap{Type: t.Name(), Kind: -1}
	switch {
	case t == reflect.TypeOf(Builder{}):
		s.Kind = 0
		s.Ks = v.Interface().(Builder).ks
	case t == c32ComT:
		c := v.Interface().(Completed)
		s.Kind, s.Cf, s.Ks = 3, c.cf, c.ks
		s.Argv = append([]string(nil), c.cs.s...)
	case t == c32CacT:
		c := v.Interface().(Cacheable)
		s.Kind, s.Cf, s.Ks = 4, c.cf, c.ks
		s.Argv = append([]string(nil), c.cs.s...)
	case t.Kind() == reflect.Struct && t.ConvertibleTo(c32IncT):
		c := v.Convert(c32IncT).Interface().(Incomplete)
		s.Kind, s.Cf, s.Ks = 1, uint16(c.cf), c.ks
		if c.cs != nil {
			s.Argv = append([]string(nil), c.cs.s...)
		}
	case t.Kind() == reflect.Struct && t.ConvertibleTo(c32ComT):
		c := v.Convert(c32ComT).Interface().(Completed)
		s.Kind, s.Cf, s.Ks = 2, c.cf, c.ks
		if c.cs != nil {
			s.Argv = append([]string(nil), c.cs.s...)
		}
	}
	return s
}

// c32kindOf maps a parameter type to the argument kind ("" = unhandled).
func c32kindOf(t reflect.Type, variadic bool) string {
	if variadic {
		switch t.Elem().Kind() {
		case reflect.String:
			return "vs"
		case reflect.Int64:
			if t.Elem() == c32DurT {
				return ""
			}
			return "vi"
		case reflect.Float64:
			return "vf"
		case reflect.Float32:
			return "vg"
		}
		return ""
	}
	switch {
	case t == c32DurT:
		return "d"
	case t == c32TimeT:
		return "t"
	case t.Kind() == reflect.String:
		return "s"
	case t.Kind() == reflect.Int64:
		return "i"
	case t.Kind() == reflect.Uint64:
		return "u"
	case t.Kind() == reflect.Float64:
		return "f"
	case t.Kind() == reflect.Float32:
		return "g"
	case t.Kind() == reflect.Slice && t.Elem().Kind() == reflect.String:
		return "ss"
	case t.Kind() == reflect.Func && t.NumIn() == 1 && t.NumOut() == 0 && t.In(0).Kind() == reflect.Func && t.In(0).NumIn() == 2 &&
		t.In(0).NumOut() == 1 && t.In(0).Out(0).Kind() == reflect.Bool && t.In(0).In(0).Kind() == reflect.String:
		switch t.In(0).In(1).Kind() {
		case reflect.String:
			return "qs"
		case reflect.Float64:
			return "qf"
		}
	}
	return ""
}

// c32classes returns the canned value classes of an argument kind; class 0 is
// the "ordinary" one used to continue the search. "$" in string classes is
// replaced by a fresh unique sentinel.
func c32classes(kind string) [][]string {
	switch kind {
	case "s":
		return [][]string{{"{t}$"}, {"{t}$ \r\n\"'\\$"}}
	case "vs", "ss":
		return [][]string{{"{t}$"}, {"{t}$", "{t}$"}, {}}
	case "i":
		return [][]string{{"10"}, {"0"}, {"-1"}, {"9223372036854775807"}, {"-9223372036854775808"}}
	case "vi":
		return [][]string{{"10"}, {"0", "-1"}, {}, {"9223372036854775807", "-9223372036854775808"}}
	case "u":
		return [][]string{{"10"}, {"0"}, {"18446744073709551615"}}
	case "f":
		return [][]string{{"0.1"}, {"0"}, {"-0"}, {"1e+21"}, {"1e-07"}, {"+Inf"}, {"-Inf"}, {"NaN"}}
	case "vf":
		return [][]string{{"0.1"}, {"0", "-0"}, {}, {"1e+21", "1e-07"}, {"+Inf", "-Inf", "NaN"}}
	case "g":
		return [][]string{{"0.1"}, {"0"}, {"-0"}, {"1e+21"}, {"1e-07"}, {"+Inf"}, {"-Inf"}, {"NaN"}, {"16777216"}}
	case "vg":
		return [][]string{{"0.1"}, {"0", "-0"}, {}, {"1e+21", "1e-07"}, {"+Inf", "-Inf", "NaN"}}
	case "d":
		// nanoseconds: 1.5s, -1.5s, 0, 999us (rounds to 0 ms), 1d1h1m1.001s, 500ms
		return [][]string{{"1500000000"}, {"-1500000000"}, {"0"}, {"999000"}, {"90061001000000"}, {"500000000"}}
	case "t":
		// "sec,nsec" with 0 <= nsec < 1e9
		return [][]string{{"1700000000,123000000"}, {"0,0"}, {"-1,500000000"}, {"1,999999999"}, {"253402300799,999000000"}}
	case "qs":
		return [][]string{{"{t}$", "{t}$"}, {"{t}$", "{t}$", "{t}$", "{t}$"}, {}}
	case "qf":
		return [][]string{{"{t}$", "0.1"}, {"{t}$", "-0", "{t}$", "1e+21"}, {}, {"{t}$", "+Inf", "{t}$", "1e-07"}}
	}
	return nil
}

var c32counter int

func c32fresh(tmpl []string) []string {
	out := make([]string, len(tmpl))
	for i, s := range tmpl {
		for strings.Contains(s, "$") {
			c32counter++
			s = strings.Replace(s, "$", "s"+strconv.Itoa(c32counter)+"z", 1)
		}
		out[i] = s
	}
	return out
}

// c32values turns canned arguments into reflect values for method type mt.
func c32values(mt reflect.Type, args []c32Arg) []reflect.Value {
	var in []reflect.Value
	for i, a := range args {
		pt := mt.In(i)
		switch a.K {
		case "s":
			in = append(in, reflect.ValueOf(a.V[0]).Convert(pt))
		case "vs":
			for _, s := range a.V {
				in = append(in, reflect.ValueOf(s))
			}
		case "ss":
			in = append(in, reflect.ValueOf(append([]string{}, a.V...)))
		case "i":
			n, _ := strconv.ParseInt(a.V[0], 10, 64)
			in = append(in, reflect.ValueOf(n).Convert(pt))
		case "vi":
			for _, s := range a.V {
				n, _ := strconv.ParseInt(s, 10, 64)
				in = append(in, reflect.ValueOf(n))
			}
		case "u":
			n, _ := strconv.ParseUint(a.V[0], 10, 64)
			in = append(in, reflect.ValueOf(n).Convert(pt))
		case "f":
			f, _ := strconv.ParseFloat(a.V[0], 64)
			in = append(in, reflect.ValueOf(f).Convert(pt))
		case "vf":
			for _, s := range a.V {
				f, _ := strconv.ParseFloat(s, 64)
				in = append(in, reflect.ValueOf(f))
			}
		case "g":
			f, _ := strconv.ParseFloat(a.V[0], 32)
			in = append(in, reflect.ValueOf(float32(f)).Convert(pt))
		case "vg":
			for _, s := range a.V {
				f, _ := strconv.ParseFloat(s, 32)
				in = append(in, reflect.ValueOf(float32(f)))
			}
		case "d":
			n, _ := strconv.ParseInt(a.V[0], 10, 64)
			in = append(in, reflect.ValueOf(time.Duration(n)))
		case "t":
			parts := strings.Split(a.V[0], ",")
			sec, _ := strconv.ParseInt(parts[0], 10, 64)
			nsec, _ := strconv.ParseInt(parts[1], 10, 64)
			in = append(in, reflect.ValueOf(time.Unix(sec, nsec)))
		case "qs", "qf":
			pairs, isF := a.V, a.K == "qf"
			in = append(in, reflect.MakeFunc(pt, func(fin []reflect.Value) []reflect.Value {
				for k := 0; k+1 < len(pairs); k += 2 {
					second := reflect.ValueOf(pairs[k+1])
					if isF {
						f, _ := strconv.ParseFloat(pairs[k+1], 64)
						second = reflect.ValueOf(f)
					}
					if !fin[0].Call([]reflect.Value{reflect.ValueOf(pairs[k]), second})[0].Bool() {
						break
					}
				}
				return nil
			}))
		default:
			panic("c32values: unhandled kind " + a.K)
		}
	}
	return in
}

// c32call invokes method name on v with args. It returns the result value, or a
// non-nil panic value.
func c32call(v reflect.Value, name string, args []c32Arg) (out reflect.Value, pv any, site string) {
	m := v.MethodByName(name)
	if !m.IsValid() {
		panic("c32call: no method " + name + " on " + v.Type().Name())
	}
	in := c32values(m.Type(), args)
	pv, site = vrun.Catch(func() {
		res := m.Call(in)
		if len(res) == 1 {
			out = res[0]
		}
	})
	return
}

// c32replay rebuilds the step value at the end of path from a fresh Builder.
func c32replay(p c32Path) (v reflect.Value, pv any) {
	ks := InitSlot
	if p.NoSlot {
		ks = NoSlot
	}
	v = reflect.ValueOf(NewBuilder(ks))
	for _, s := range p.Steps {
		var site string
		v, pv, site = c32call(v, s.M, s.A)
		_ = site
		if pv != nil {
			return v, pv
		}
	}
	return v, nil
}

// c32combos enumerates the canned argument vectors of a method: combo 0 is all
// class 0; combo j>0 gives parameter i the class (j+i) mod count(i) so that
// every class of every parameter occurs and neighbouring parameters differ.
func c32combos(mt reflect.Type) (combos [][]c32Arg, unhandled string) {
	n := mt.NumIn()
	kinds := make([]string, n)
	max := 1
	for i := 0; i < n; i++ {
		kinds[i] = c32kindOf(mt.In(i), mt.IsVariadic() && i == n-1)
		if kinds[i] == "" {
			return nil, mt.In(i).String()
		}
		if c := len(c32classes(kinds[i])); c > max {
			max = c
		}
	}
	for j := 0; j < max; j++ {
		args := make([]c32Arg, n)
		for i := 0; i < n; i++ {
			cl := c32classes(kinds[i])
			k := 0
			if j > 0 {
				k = (j + i) % len(cl)
			}
			args[i] = c32Arg{K: kinds[i], V: c32fresh(cl[k])}
		}
		combos = append(combos, args)
	}
	return combos, ""
}

// c32Trans is one executed transition handed to the visitor.
type c32Trans struct {
	Parent c32Path
	Step   c32Step
	Combo  int
	Before c32Snap
	After  c32Snap // Kind 3/4 for Build()/Cache() terminals
	Panic  any
	Site   string
}

type c32Stats struct {
	States, Transitions, Terminals, Panics, Types, Methods, Roots int
	ParamKinds                                                    map[string]int
	Unhandled                                                     map[string]int
	NonStep                                                       map[string]int
}

// c32walk runs the BFS. visit is called for every executed transition
// (including Build/Cache terminals). maxVisits bounds how often one type may
// repeat on a path (self-loops and longer cycles).
func c32walk(r *vrun.Run, maxVisits int, visit func(tr *c32Trans)) *c32Stats {
	st := &c32Stats{ParamKinds: map[string]int{}, Unhandled: map[string]int{}, NonStep: map[string]int{}}
	type qitem struct {
		path   c32Path
		visits map[string]int
	}
	seen := map[string]bool{}
	seenTypes := map[string]bool{}
	seenMeth := map[string]bool{}
	var queue []qitem
	for _, ns := range []bool{false, true} {
		queue = append(queue, qitem{path: c32Path{NoSlot: ns}, visits: map[string]int{}})
	}
	for len(queue) > 0 {
		it := queue[0]
		queue = queue[1:]
		v0, pv := c32replay(it.path)
		if pv != nil {
			panic(fmt.Sprintf("c32walk: replay of accepted path panicked: %v: %s", pv, it.path))
		}
		t := v0.Type()
		if !seenTypes[t.Name()] {
			seenTypes[t.Name()] = true
			st.Types++
		}
		for mi := 0; mi < t.NumMethod(); mi++ {
			m := t.Method(mi)
			mt := v0.Method(mi).Type()
			mkey := t.Name() + "." + m.Name
			if mt.NumOut() != 1 {
				st.NonStep[mkey]++
				continue
			}
			ot := mt.Out(0)
			isTerm := ot == c32ComT || ot == c32CacT
			isStep := ot.Kind() == reflect.Struct && ot.PkgPath() == t.PkgPath() && (ot.ConvertibleTo(c32IncT) || ot.ConvertibleTo(c32ComT))
			if !isTerm && !isStep {
				st.NonStep[mkey]++
				continue
			}
			if !seenMeth[mkey] {
				seenMeth[mkey] = true
				st.Methods++
				if len(it.path.Steps) == 0 && !it.path.NoSlot {
					st.Roots++
				}
			}
			combos, unh := c32combos(mt)
			if unh != "" {
				st.Unhandled[unh]++
				continue
			}
			for i := 0; i < mt.NumIn(); i++ {
				st.ParamKinds[c32kindOf(mt.In(i), mt.IsVariadic() && i == mt.NumIn()-1)]++
			}
			expanded := false
			var cf0 uint16
			for ci, args := range combos {
				v, pv := c32replay(it.path)
				if pv != nil {
					panic("c32walk: replay panicked")
				}
				before := c32snap(v)
				step := c32Step{M: m.Name, A: args}
				out, pv, site := c32call(v, m.Name, args)
				st.Transitions++
				r.Transitions++
				tr := &c32Trans{Parent: it.path, Step: step, Combo: ci, Before: before, Panic: pv, Site: site}
				if pv != nil {
					st.Panics++
					visit(tr)
					continue
				}
				tr.After = c32snap(out)
				if isTerm {
					st.Terminals++
				}
				visit(tr)
				if isTerm {
					continue
				}
				if expanded {
					// The other value classes continue the search only when they leave the step with different tags than
					// the ordinary class did (a tag that depends on an argument value, e.g. BLOCK 0 = block for ever):
					// the terminals behind them are then judged like any other. A negative BLOCK timeout is not a
					// command the server accepts, so nothing is demanded of it.
					if tr.After.Cf == cf0 || c32negBlock(step) {
						continue
					}
				}
				if !expanded {
					cf0 = tr.After.Cf
				}
				// successor state
				nt := ot.Name()
				n := it.visits[nt]
				if n >= maxVisits {
					continue
				}
				// Options that change what the finished command must be tagged as (BLOCK, STORE, STOREDIST) are part of the
				// state: without them a builder that forgets to set the flag would make the path through the option look
				// like the path around it, and the terminal would only be judged for the latter.
				hist := ""
				for _, ps := range append(append([]c32Step{}, it.path.Steps...), step) {
					if (ps.M == "Block" || ps.M == "Store" || ps.M == "Storedist") && !strings.Contains(hist, ps.M+";") {
						hist += ps.M + ";"
					}
				}
				key := fmt.Sprintf("%v|%s|%d|%d|%d|%s", it.path.NoSlot, nt, tr.After.Cf, tr.After.Ks, n, hist)
				expanded = true
				if seen[key] {
					continue
				}
				seen[key] = true
				st.States++
				r.StateStr("state", key)
				nv := make(map[string]int, len(it.visits)+1)
				for k, c := range it.visits {
					nv[k] = c
				}
				nv[nt] = n + 1
				queue = append(queue, qitem{path: it.path.extend(step), visits: nv})
			}
		}
	}
	return st
}

// ================================================================= END ENGINE

// ---------------------------------------------------------------- the oracle
// Hand-written classification of Redis / Valkey / Redis-Stack commands, written
// from the command reference (command flags "readonly"/"write", blocking
// behaviour, Pub/Sub semantics). Only commands whose semantics are certain are
// listed; every other command is "unclassified" and never raises an alarm.

func c32set(s string) map[string]bool {
	m := map[string]bool{}
	for _, l := range strings.Split(s, "\n") {
		for _, f := range strings.Split(l, ",") {
			if f = strings.TrimSpace(f); f != "" {
				m[f] = true
			}
		}
	}
	return m
}

// side-effect free reads
var c32reads = c32set(`
GET, MGET, STRLEN, GETRANGE, SUBSTR, LCS, GETBIT, BITCOUNT, BITPOS, BITFIELD_RO, DIGEST
EXISTS, TTL, PTTL, EXPIRETIME, PEXPIRETIME, TYPE, KEYS, SCAN, RANDOMKEY, DUMP, DBSIZE, SORT_RO
OBJECT ENCODING, OBJECT FREQ, OBJECT IDLETIME, OBJECT REFCOUNT, MEMORY USAGE
HGET, HMGET, HGETALL, HKEYS, HVALS, HLEN, HEXISTS, HSTRLEN, HSCAN, HRANDFIELD, HTTL, HPTTL, HEXPIRETIME, HPEXPIRETIME
LRANGE, LINDEX, LLEN, LPOS
SMEMBERS, SISMEMBER, SMISMEMBER, SCARD, SRANDMEMBER, SSCAN, SINTER, SUNION, SDIFF, SINTERCARD
ZRANGE, ZRANGEBYSCORE, ZRANGEBYLEX, ZREVRANGE, ZREVRANGEBYSCORE, ZREVRANGEBYLEX, ZRANK, ZREVRANK, ZSCORE, ZMSCORE
ZCARD, ZCOUNT, ZLEXCOUNT, ZSCAN, ZRANDMEMBER, ZINTER, ZUNION, ZDIFF, ZINTERCARD
GEOPOS, GEODIST, GEOHASH, GEOSEARCH, GEORADIUS_RO, GEORADIUSBYMEMBER_RO
XRANGE, XREVRANGE, XLEN, XREAD, XPENDING, XINFO STREAM, XINFO GROUPS, XINFO CONSUMERS
EVAL_RO, EVALSHA_RO, FCALL_RO
PUBSUB CHANNELS, PUBSUB NUMSUB, PUBSUB NUMPAT, PUBSUB SHARDCHANNELS, PUBSUB SHARDNUMSUB
JSON.GET, JSON.MGET, JSON.TYPE, JSON.STRLEN, JSON.ARRLEN, JSON.ARRINDEX, JSON.OBJLEN, JSON.OBJKEYS, JSON.RESP, JSON.DEBUG MEMORY
FT.SEARCH, FT.INFO, FT.EXPLAIN, FT.EXPLAINCLI, FT.TAGVALS, FT._LIST, FT.DICTDUMP, FT.SYNDUMP, FT.SPELLCHECK, FT.SUGGET, FT.SUGLEN
TS.GET, TS.MGET, TS.RANGE, TS.REVRANGE, TS.MRANGE, TS.MREVRANGE, TS.INFO, TS.QUERYINDEX
BF.EXISTS, BF.MEXISTS, BF.INFO, BF.CARD, BF.SCANDUMP, CF.EXISTS, CF.MEXISTS, CF.COUNT, CF.INFO, CF.SCANDUMP
CMS.QUERY, CMS.INFO, TOPK.QUERY, TOPK.LIST, TOPK.INFO, TOPK.COUNT
TDIGEST.QUANTILE, TDIGEST.CDF, TDIGEST.MIN, TDIGEST.MAX, TDIGEST.INFO, TDIGEST.RANK, TDIGEST.REVRANK, TDIGEST.BYRANK, TDIGEST.BYREVRANK, TDIGEST.TRIMMED_MEAN
GRAPH.RO_QUERY
VSIM, VCARD, VDIM, VEMB, VGETATTR, VINFO, VLINKS, VRANDMEMBER, VISMEMBER
AI.TENSORGET, AI.MODELGET, AI.SCRIPTGET
`)

// writes / side-effecting commands (re-executing or sending them to a replica is wrong)
var c32writes = c32set(`
SET, SETNX, SETEX, PSETEX, MSET, MSETNX, MSETEX, APPEND, DEL, UNLINK, DELEX, DELIFEQ
EXPIRE, PEXPIRE, EXPIREAT, PEXPIREAT, PERSIST, GETDEL, GETEX, GETSET, SETRANGE, SETBIT
INCR, INCRBY, INCRBYFLOAT, DECR, DECRBY, BITOP, BITFIELD, RENAME, RENAMENX, MOVE, COPY, RESTORE, MIGRATE
FLUSHALL, FLUSHDB, SWAPDB
HSET, HSETNX, HMSET, HDEL, HINCRBY, HINCRBYFLOAT, HEXPIRE, HPEXPIRE, HEXPIREAT, HPEXPIREAT, HPERSIST, HGETDEL, HGETEX, HSETEX
LPUSH, RPUSH, LPUSHX, RPUSHX, LPOP, RPOP, LSET, LREM, LTRIM, LINSERT, LMOVE, RPOPLPUSH, LMPOP
BLPOP, BRPOP, BRPOPLPUSH, BLMOVE, BLMPOP
SADD, SREM, SPOP, SMOVE, SINTERSTORE, SUNIONSTORE, SDIFFSTORE
ZADD, ZREM, ZINCRBY, ZPOPMIN, ZPOPMAX, ZMPOP, BZPOPMIN, BZPOPMAX, BZMPOP
ZREMRANGEBYRANK, ZREMRANGEBYSCORE, ZREMRANGEBYLEX, ZINTERSTORE, ZUNIONSTORE, ZDIFFSTORE, ZRANGESTORE
GEOADD, GEOSEARCHSTORE
PFADD, PFMERGE
XADD, XDEL, XTRIM, XACK, XCLAIM, XAUTOCLAIM, XREADGROUP, XSETID, XACKDEL, XDELEX
XGROUP CREATE, XGROUP DESTROY, XGROUP SETID, XGROUP CREATECONSUMER, XGROUP DELCONSUMER
PUBLISH, SPUBLISH
EVAL, EVALSHA, FCALL
SCRIPT FLUSH, SCRIPT LOAD, FUNCTION LOAD, FUNCTION DELETE, FUNCTION FLUSH, FUNCTION RESTORE
CONFIG SET, CONFIG REWRITE, CONFIG RESETSTAT, SHUTDOWN, SAVE, BGSAVE, BGREWRITEAOF, REPLICAOF, SLAVEOF, FAILOVER
ACL SETUSER, ACL DELUSER, ACL LOAD, ACL SAVE, CLIENT KILL, MODULE LOAD, MODULE LOADEX, MODULE UNLOAD, DEBUG SEGFAULT
CLUSTER ADDSLOTS, CLUSTER ADDSLOTSRANGE, CLUSTER DELSLOTS, CLUSTER DELSLOTSRANGE, CLUSTER FORGET, CLUSTER MEET, CLUSTER RESET
CLUSTER FAILOVER, CLUSTER SETSLOT, CLUSTER REPLICATE, CLUSTER FLUSHSLOTS, CLUSTER BUMPEPOCH, CLUSTER SET-CONFIG-EPOCH
SLOWLOG RESET, LATENCY RESET
JSON.SET, JSON.MSET, JSON.MERGE, JSON.DEL, JSON.FORGET, JSON.NUMINCRBY, JSON.NUMMULTBY, JSON.STRAPPEND
JSON.ARRAPPEND, JSON.ARRINSERT, JSON.ARRPOP, JSON.ARRTRIM, JSON.CLEAR, JSON.TOGGLE
FT.CREATE, FT.DROPINDEX, FT.ALTER, FT.ALIASADD, FT.ALIASDEL, FT.ALIASUPDATE, FT.DICTADD, FT.DICTDEL, FT.SUGADD, FT.SUGDEL, FT.SYNUPDATE, FT.CONFIG SET
TS.ADD, TS.MADD, TS.CREATE, TS.ALTER, TS.DEL, TS.INCRBY, TS.DECRBY, TS.CREATERULE, TS.DELETERULE
BF.ADD, BF.MADD, BF.INSERT, BF.RESERVE, BF.LOADCHUNK, CF.ADD, CF.ADDNX, CF.INSERT, CF.INSERTNX, CF.DEL, CF.RESERVE, CF.LOADCHUNK
CMS.INCRBY, CMS.INITBYDIM, CMS.INITBYPROB, CMS.MERGE, TOPK.ADD, TOPK.INCRBY, TOPK.RESERVE
TDIGEST.ADD, TDIGEST.CREATE, TDIGEST.MERGE, TDIGEST.RESET
GRAPH.QUERY, GRAPH.DELETE, GRAPH.CONFIG SET
VADD, VREM, VSETATTR
CL.THROTTLE
AI.TENSORSET, AI.MODELSTORE, AI.MODELDEL, AI.SCRIPTSTORE, AI.SCRIPTDEL, AI.MODELEXECUTE, AI.SCRIPTEXECUTE
`)

// writes only when the STORE / STOREDIST option is present
var c32storeWrites = c32set(`SORT, GEORADIUS, GEORADIUSBYMEMBER`)

// neither set on purpose: PFCOUNT (may write a cached cardinality, flagged
// readonly-ish by Redis), TOUCH/OBJECT-like access-time effects, LOLWUT, FT.AGGREGATE /
// FT.CURSOR (server side cursors), FT.PROFILE, TFCALL, RG.*, admin introspection commands.

var c32blocking = c32set(`BLPOP, BRPOP, BRPOPLPUSH, BLMOVE, BLMPOP, BZPOPMIN, BZPOPMAX, BZMPOP, WAIT, WAITAOF`)
var c32blockOpt = c32set(`XREAD, XREADGROUP`) // blocking only with the BLOCK option
var c32sub = c32set(`SUBSCRIBE, PSUBSCRIBE, SSUBSCRIBE`)
var c32unsub = c32set(`UNSUBSCRIBE, PUNSUBSCRIBE, SUNSUBSCRIBE`)

// c32name returns the command name of argv: the first token, or the first two
// for container commands.
func c32name(argv []string) string {
	if len(argv) == 0 {
		return ""
	}
	if c32containers[argv[0]] && len(argv) > 1 {
		return argv[0] + " " + argv[1]
	}
	return argv[0]
}

var c32containers = c32set(`CLIENT, CONFIG, XGROUP, XINFO, SCRIPT, FUNCTION, MEMORY, OBJECT, PUBSUB, CLUSTER, ACL, COMMAND, LATENCY, SLOWLOG,
MODULE, DEBUG, SENTINEL, FT.CONFIG, FT.CURSOR, JSON.DEBUG, GRAPH.CONFIG, GRAPH.CONSTRAINT, HOTKEYS, TFUNCTION`)

func c32isWrite(name string, argv []string) bool {
	if c32writes[name] {
		return true
	}
	if c32storeWrites[name] {
		for _, a := range argv[1:] {
			if a == "STORE" || a == "STOREDIST" {
				return true
			}
		}
	}
	return false
}

type c32Replay struct {
	Path c32Path `json:"path"`
	Step c32Step `json:"step"`
}

type c32Tally struct {
	unclassified map[string]bool
	extraBlock   map[string]bool
	extraNoReply map[string]bool
	roUnknown    map[string]bool
	cacheNames   map[string]bool
	names        map[string]bool
}

// c32check applies the oracle to one terminal (Build() or Cache() result).
func c32check(r *vrun.Run, ty *c32Tally, snap c32Snap, origin string, viaBlock bool, cacheable bool, rp any) {
	argv := snap.Argv
	name := c32name(argv)
	c := Completed{cs: newCommandSlice(argv), cf: snap.Cf, ks: snap.Ks}
	ro, blk, nr, un := c.IsReadOnly(), c.IsBlock(), c.NoReply(), c.IsUnsub()
	if c.IsWrite() == ro {
		r.Violate("IsWrite() is not the negation of IsReadOnly()", fmt.Sprintf("%q via %s", argv, origin), rp)
	}
	if strings.HasPrefix(name, "{t}") {
		r.Outcome("arbitrary command (caller chosen flags)")
		return
	}
	ty.names[name] = true
	isW := c32isWrite(name, argv)
	isR := c32reads[name]
	known := isW || isR || c32blocking[name] || c32blockOpt[name] || c32sub[name] || c32unsub[name] || c32storeWrites[name]
	if !known {
		ty.unclassified[name] = true
	}
	detail := func(what string) string {
		return fmt.Sprintf("%s: built argv %q flags cf=%#04x (IsReadOnly=%v IsBlock=%v NoReply=%v IsUnsub=%v) via %s", what, argv, snap.Cf, ro, blk, nr, un, origin)
	}
	if ro && isW {
		r.Violate(name+": marked read-only (retried, replica eligible) but is a write", detail("expected IsReadOnly()==false for a known write / side-effecting command"), rp)
	}
	if cacheable {
		ty.cacheNames[name] = true
		if !ro {
			r.Violate(name+": offers Cache() but is not marked read-only", detail("expected IsReadOnly()==true for every Cacheable"), rp)
		}
		if isW {
			r.Violate(name+": offers Cache() but is a write", detail("expected no Cache() on a known write / side-effecting command"), rp)
		}
		if isR {
			r.Outcome("cacheable & known read")
		} else if !isW {
			r.Outcome("cacheable & unclassified")
		}
	}
	mustBlock := c32blocking[name] || (c32blockOpt[name] && viaBlock)
	if mustBlock {
		r.NonTrivialStr("blocking", name, snap.Type)
		if !blk {
			r.Violate(name+": blocking command not marked blocking", detail("expected IsBlock()==true"), rp)
		} else {
			r.Outcome("blocking marked blocking")
		}
	} else if blk {
		ty.extraBlock[name] = true
	}
	if c32sub[name] {
		r.NonTrivialStr("sub", name, snap.Type)
		if !nr {
			r.Violate(name+": SUBSCRIBE family not marked NoReply", detail("expected NoReply()==true"), rp)
		}
		if un {
			r.Violate(name+": SUBSCRIBE family marked IsUnsub", detail("expected IsUnsub()==false"), rp)
		}
		r.Outcome("subscribe family")
	} else if c32unsub[name] {
		r.NonTrivialStr("unsub", name, snap.Type)
		if !un || !nr {
			r.Violate(name+": UNSUBSCRIBE family not marked IsUnsub/NoReply", detail("expected IsUnsub()==true and NoReply()==true"), rp)
		}
		r.Outcome("unsubscribe family")
	} else if nr || un {
		ty.extraNoReply[name] = true
	}
	switch {
	case ro && isR:
		r.Outcome("read-only & known read")
	case ro && !isW:
		r.Outcome("read-only & unclassified")
		ty.roUnknown[name] = true
	case !ro && isW:
		r.Outcome("not read-only & known write")
	case !ro && isR:
		r.Outcome("not read-only & known read (conservative)")
	case !ro:
		r.Outcome("not read-only & unclassified")
	}
	if ro {
		r.NonTrivialStr("ro", name, snap.Type)
	}
}

func c32keys(m map[string]bool) string {
	var ks []string
	for k := range m {
		ks = append(ks, k)
	}
	sort.Strings(ks)
	return strings.Join(ks, ", ")
}

func c32negBlock(s c32Step) bool {
	if s.M != "Block" {
		return false
	}
	for _, a := range s.A {
		if (a.K == "i" || a.K == "d" || a.K == "f") && len(a.V) > 0 && strings.HasPrefix(a.V[0], "-") {
			return true
		}
	}
	return false
}

func c32viaBlock(p c32Path, s c32Step) bool {
	for _, st := range p.Steps {
		if st.M == "Block" {
			return true
		}
	}
	return s.M == "Block"
}

func TestVerif_C32(t *testing.T) {
	vrun.Main(t, "C32", func(r *vrun.Run) {
		r.Rule = "BFS by reflection over the builder type graph from every exported method of cmds.Builder (InitSlot and NoSlot builders); every exported method of every reachable step type is invoked with every canned value class of each parameter type; states deduplicated by (builder kind, type, flag word, slot word, #previous visits of the type on the path, which of the semantic options Block/Store/Storedist the path went through), a type may repeat at most maxVisits times on a path; a non-ordinary value class continues the search too when it leaves the step with different tags than the ordinary class (value-dependent tags, e.g. BLOCK 0); each Build()/Cache() terminal is compared with a hand written classification (known reads / known writes / blocking / subscribe / unsubscribe) keyed by command name. non-trivial = terminals of read-only, blocking or pub/sub commands (distinct by command and terminal type)"
		maxVisits := vrun.Pick(r, 2, 3)
		r.Bounds["max_visits_of_a_type_per_path"] = maxVisits
		r.Assume("the classification table in this file (written from the Redis/Valkey/Redis-Stack command reference) is right for the commands it lists; commands it does not list are unclassified and never alarm")
		r.Assume("SORT/GEORADIUS/GEORADIUSBYMEMBER count as writes only with STORE/STOREDIST; XREAD/XREADGROUP must be blocking only when the path went through Block()")
		ty := &c32Tally{unclassified: map[string]bool{}, extraBlock: map[string]bool{}, extraNoReply: map[string]bool{}, roUnknown: map[string]bool{}, cacheNames: map[string]bool{}, names: map[string]bool{}}

		if raw, ok := r.ReplayPayload(); ok {
			var rp c32Replay
			if err := json.Unmarshal(raw, &rp); err != nil {
				panic(err)
			}
			if rp.Step.M == "" { // predefined command
				c32predefined(r, ty)
				return
			}
			v, pv := c32replay(rp.Path)
			if pv != nil {
				return
			}
			out, pv, _ := c32call(v, rp.Step.M, rp.Step.A)
			if pv != nil {
				return
			}
			r.Evaluations++
			sn := c32snap(out)
			c32check(r, ty, sn, rp.Path.String()+"."+rp.Step.M+"()", c32viaBlock(rp.Path, rp.Step), sn.Kind == 4, rp)
			return
		}

		cacheTypes := map[string]bool{}
		st := c32walk(r, maxVisits, func(tr *c32Trans) {
			if tr.Panic != nil {
				r.Outcome(fmt.Sprintf("panic in %s: %v", tr.Site, tr.Panic))
				return
			}
			if tr.After.Kind != 3 && tr.After.Kind != 4 {
				return
			}
			r.Evaluations++
			if tr.After.Kind == 4 {
				cacheTypes[tr.Before.Type] = true
			}
			origin := tr.Parent.String() + "." + tr.Step.M + "()"
			if r.WantSample() && len(tr.Parent.Steps) > 2 {
				r.Sample(map[string]any{"path": origin, "argv": tr.After.Argv, "cf": tr.After.Cf})
			}
			c32check(r, ty, tr.After, origin, c32viaBlock(tr.Parent, tr.Step), tr.After.Kind == 4, c32Replay{Path: tr.Parent, Step: tr.Step})
		})
		c32predefined(r, ty)

		r.Bounds["types"] = st.Types
		r.Bounds["methods"] = st.Methods
		r.Bounds["root_commands"] = st.Roots
		r.Bounds["terminals"] = st.Terminals
		r.Bounds["cache_offering_types"] = len(cacheTypes)
		r.Bounds["command_names"] = len(ty.names)
		b, _ := json.Marshal(st.ParamKinds)
		r.Note("parameter kinds seen (count of method parameters): " + string(b))
		if len(st.Unhandled) > 0 {
			b, _ = json.Marshal(st.Unhandled)
			r.Note("methods skipped because of an unhandled parameter type (hand written iter.Seq2 helpers of iter.go; they lead to no new type): " + string(b))
		}
		r.Note(fmt.Sprintf("unclassified commands (%d of %d, never alarm): %s", len(ty.unclassified), len(ty.names), c32keys(ty.unclassified)))
		r.Note(fmt.Sprintf("read-only marked but unclassified (%d): %s", len(ty.roUnknown), c32keys(ty.roUnknown)))
		r.Note(fmt.Sprintf("marked blocking although not in the blocking set (not required by the property, costs a dedicated connection): %s", c32keys(ty.extraBlock)))
		if len(ty.extraNoReply) > 0 {
			r.Note("marked NoReply/IsUnsub although not in a pub/sub family: " + c32keys(ty.extraNoReply))
		}
		r.Note(fmt.Sprintf("commands offering Cache() (%d): %s", len(ty.cacheNames), c32keys(ty.cacheNames)))
	})
}

// c32predefined checks the predefined commands and helper constructors of cmds.go.
func c32predefined(r *vrun.Run, ty *c32Tally) {
	pre := map[string]Completed{
		"SentinelSubscribe": SentinelSubscribe, "SentinelUnSubscribe": SentinelUnSubscribe, "UnsubscribeCmd": UnsubscribeCmd,
		"PUnsubscribeCmd": PUnsubscribeCmd, "SUnsubscribeCmd": SUnsubscribeCmd, "OptInCmd": OptInCmd, "MultiCmd": MultiCmd, "ExecCmd": ExecCmd,
		"RoleCmd": RoleCmd, "PingCmd": PingCmd, "SlotCmd": SlotCmd, "ShardsCmd": ShardsCmd, "AskingCmd": AskingCmd, "DiscardCmd": DiscardCmd,
		"ClientTrackingOffCmd": ClientTrackingOffCmd,
	}
	for _, c := range MGets([]string{"{t}a", "{t}b"}) {
		pre["MGets"] = c
	}
	for _, c := range MDels([]string{"{t}a", "{t}b"}) {
		pre["MDels"] = c
	}
	for _, c := range MSets(map[string]string{"{t}a": "1"}) {
		pre["MSets"] = c
	}
	for _, c := range MSetNXs(map[string]string{"{t}a": "1"}) {
		pre["MSetNXs"] = c
	}
	for _, c := range JsonMGets([]string{"{t}a"}, "$") {
		pre["JsonMGets"] = c
	}
	for _, c := range JsonMSets(map[string]string{"{t}a": "1"}, "$") {
		pre["JsonMSets"] = c
	}
	var names []string
	for n := range pre {
		names = append(names, n)
	}
	sort.Strings(names)
	for _, n := range names {
		c := pre[n]
		r.Evaluations++
		r.StateStr("predefined", n)
		c32check(r, ty, c32Snap{Type: n, Argv: c.Commands(), Cf: c.cf, Ks: c.ks, Kind: 3}, "cmds."+n, false, false, c32Replay{})
	}
}
