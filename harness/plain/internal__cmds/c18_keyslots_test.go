//go:build verif

package cmds

import (
	"encoding/json"
	"fmt"
	"strings"
	"testing"

	"github.com/redis/rueidis/vshim/vrun"
)

// refCRC16 is a bitwise CRC16-XMODEM (poly 0x1021, init 0, no reflection, no
// xorout) written from the parameter list in the cluster spec, independent of
// the table in slot.go.
func refCRC16(s string) uint16 {
	var crc uint16
	for i := 0; i < len(s); i++ {
		crc ^= uint16(s[i]) << 8
		for b := 0; b < 8; b++ {
			if crc&0x8000 != 0 {
				crc = crc<<1 ^ 0x1021
			} else {
				crc <<= 1
			}
		}
	}
	return crc
}

// refSlot follows the cluster spec text: hash only what is between the first
// '{' and the first '}' after it, if there is at least one character between.
func refSlot(key string) uint16 {
	if i := strings.IndexByte(key, '{'); i >= 0 {
		if j := strings.IndexByte(key[i+1:], '}'); j > 0 {
			key = key[i+1 : i+1+j]
		}
	}
	return refCRC16(key) % 16384
}

func TestVerif_C18(t *testing.T) {
	vrun.Main(t, "C18", func(r *vrun.Run) {
		r.Rule = "every byte string up to length 2 (3 in thorough), every string over {'{','}',a,b} up to length 8 (11 thorough), counter-generated long keys; each compared with bitwise CRC16-XMODEM of the spec's hash tag; multi-key builders on all tuples of a 7-key set. non-trivial = key containing '{' or multi-key tuple"
		if raw, ok := r.ReplayPayload(); ok {
			if strings.Contains(string(raw), `"step"`) || strings.Contains(string(raw), `"Step"`) {
				c33main(r, true) // a slot violation found by the builder-graph walk
				return
			}
			replayC18(r, string(raw))
			return
		}
		// 0. every builder method that takes a key must set the command's slot: reflection walk over the
		// whole builder type graph (engine shared with C33), reporting only the slot rules
		if r.Mine(3) {
			c33main(r, true)
		}
		one := func(k string) {
			r.Evaluations++
			got, want := slot(k), refSlot(k)
			if got != want {
				r.Violate("slot() differs from spec for key class "+classify(k), fmt.Sprintf("key %q: slot=%d spec=%d", k, got, want), map[string]any{"kind": "slot", "key": []byte(k)})
			}
		}
		// 1. all byte strings up to length 2 (3 thorough, sharded over the first byte)
		if r.Mine(0) {
			one("")
		}
		buf := make([]byte, 3)
		maxLen := vrun.Pick(r, 2, 3)
		for a := 0; a < 256; a++ {
			if !r.Mine(a) {
				continue
			}
			buf[0] = byte(a)
			one(string(buf[:1]))
			for b := 0; b < 256; b++ {
				buf[1] = byte(b)
				one(string(buf[:2]))
				if maxLen >= 3 {
					for c := 0; c < 256; c++ {
						buf[2] = byte(c)
						one(string(buf[:3]))
					}
				}
			}
		}
		r.Bounds["all_bytes_len"] = maxLen
		// 2. hash-tag alphabet, also through a real builder (cluster and non-cluster)
		alpha := []byte("{}ab")
		tagLen := vrun.Pick(r, 8, 11)
		r.Bounds["tag_alphabet_len"] = tagLen
		var rec func(prefix []byte, depth int, idx *int)
		rec = func(prefix []byte, depth int, idx *int) {
			k := string(prefix)
			one(k)
			r.StateStr("tag", k)
			if strings.Contains(k, "{") {
				r.NonTrivialStr("tag", k)
			}
			if len(prefix) <= 6 {
				// through the builders: single key commands must carry the same slot
				r.Evaluations++
				c1 := NewBuilder(InitSlot).Get().Key(k).Build()
				c2 := NewBuilder(NoSlot).Get().Key(k).Build()
				c3 := NewBuilder(InitSlot).Arbitrary("GET").Keys(k).Build()
				c4 := NewCompleted([]string{"GET", k}).SetSlot(k)
				if c1.Slot() != refSlot(k) || c2.Slot() != NoSlot|refSlot(k) || c3.Slot() != refSlot(k) || c4.Slot() != refSlot(k) {
					r.Violate("built command slot differs from spec", fmt.Sprintf("key %q: Get.Key=%d NoSlot=%d Arbitrary=%d SetSlot=%d spec=%d", k, c1.Slot(), c2.Slot()&^NoSlot, c3.Slot(), c4.Slot(), refSlot(k)), map[string]any{"kind": "slot", "key": []byte(k)})
				}
				PutCompleted(c1)
				PutCompleted(c2)
				PutCompleted(c3)
			}
			if depth == tagLen {
				return
			}
			for _, ch := range alpha {
				rec(append(prefix, ch), depth+1, idx)
			}
		}
		for i, ch := range alpha {
			if r.Mine(i) {
				n := 0
				rec([]byte{ch}, 1, &n)
			}
		}
		// 3. long keys from a deterministic counter (table coverage in all positions)
		if r.Mine(1) {
			x := uint64(88172645463325252)
			for i := 0; i < vrun.Pick(r, 20000, 400000); i++ {
				n := 4 + i%61
				b := make([]byte, n)
				for j := range b {
					x ^= x << 13
					x ^= x >> 7
					x ^= x << 17
					b[j] = byte(x >> 24)
				}
				if i%3 == 0 {
					b[i%n] = '{'
					b[(i*7+n/2)%n] = '}'
				}
				one(string(b))
			}
		}
		// 4. multi-key commands: all tuples up to length 3 over a key set with
		// equal-tag and different-tag keys.
		keys := []string{"a", "b", "{t}1", "{t}2", "x{t}", "{}t", "{t"}
		var tuples [][]string
		for _, a := range keys {
			tuples = append(tuples, []string{a})
			for _, b := range keys {
				tuples = append(tuples, []string{a, b})
				for _, c := range keys {
					tuples = append(tuples, []string{a, b, c})
				}
			}
		}
		for ti, tu := range tuples {
			if !r.Mine(ti) {
				continue
			}
			for _, m := range c18builders {
				if (m.name == "Sinterstore" && len(tu) < 2) || (m.name == "Rename" && len(tu) != 2) {
					continue
				}
				c18multi(r, m, tu)
			}
		}

		r.Sample(map[string]any{"key": "x{t}y", "slot": slot("x{t}y"), "spec": refSlot("x{t}y")})
		r.Sample(map[string]any{"keys": []string{"{t}1", "b"}, "cluster_builder": "rejected", "noslot_builder": "accepted"})
		r.Assume("amd64; key bytes are arbitrary (Go strings)")
	})
}

type c18mk struct {
	name  string
	build func(b Builder, ks []string) Completed
}

var c18builders = []c18mk{
	{"Mget.Key(variadic)", func(b Builder, ks []string) Completed { return b.Mget().Key(ks...).Build() }},
	{"Mget.Key.Key", func(b Builder, ks []string) Completed {
		c := b.Mget().Key(ks[0])
		for _, k := range ks[1:] {
			c = c.Key(k)
		}
		return c.Build()
	}},
	{"Del.Key", func(b Builder, ks []string) Completed { return b.Del().Key(ks...).Build() }},
	{"Arbitrary.Keys", func(b Builder, ks []string) Completed { return b.Arbitrary("MGET").Keys(ks...).Build() }},
	{"Arbitrary.Keys.Args.Keys", func(b Builder, ks []string) Completed {
		// keys handed over in several Keys() calls (as rueidiscompat builds ZINTERSTORE dst numkeys key...)
		c := b.Arbitrary("ZINTERSTORE").Keys(ks[0]).Args("2")
		if len(ks) > 1 {
			c = c.Keys(ks[1:]...)
		}
		return c.Build()
	}},
	{"Arbitrary.Keys.Keys.Keys", func(b Builder, ks []string) Completed {
		c := b.Arbitrary("MGET")
		for _, k := range ks {
			c = c.Keys(k)
		}
		return c.Build()
	}},
	{"Eval.Key", func(b Builder, ks []string) Completed {
		return b.Eval().Script("return 1").Numkeys(int64(len(ks))).Key(ks...).Build()
	}},
	{"Rename", func(b Builder, ks []string) Completed {
		return b.Rename().Key(ks[0]).Newkey(ks[len(ks)-1]).Build()
	}},
	{"Sinterstore", func(b Builder, ks []string) Completed {
		return b.Sinterstore().Destination(ks[0]).Key(ks[1:]...).Build()
	}},
}

func classify(k string) string {
	switch {
	case !strings.Contains(k, "{"):
		return "no-brace"
	case !strings.Contains(k[strings.IndexByte(k, '{'):], "}"):
		return "open-brace-only"
	case strings.Contains(k, "{}") && strings.Index(k, "{}") == strings.IndexByte(k, '{'):
		return "empty-tag"
	default:
		return "tag"
	}
}

func replayC18(r *vrun.Run, raw string) {
	var p struct {
		Kind    string
		Key     []byte
		Builder string
		Keys    []string
	}
	if err := json.Unmarshal([]byte(raw), &p); err != nil {
		panic(err)
	}
	if p.Kind == "multi" {
		for _, m := range c18builders {
			if m.name == p.Builder {
				c18multi(r, m, p.Keys)
			}
		}
		return
	}
	r.Evaluations++
	k := string(p.Key)
	if slot(k) != refSlot(k) {
		r.Violate("slot() differs from spec for key class "+classify(k), fmt.Sprintf("key %q: slot=%d spec=%d", k, slot(k), refSlot(k)), p)
	}
}

func c18multi(r *vrun.Run, m c18mk, tu []string) {
	same := true
	for _, k := range tu[1:] {
		if refSlot(k) != refSlot(tu[0]) {
			same = false
		}
	}
	r.Evaluations++
	r.StateStr("mk", m.name, strings.Join(tu, "\x00"))
	r.NonTrivialStr("mk", m.name, strings.Join(tu, "\x00"))
	var got Completed
	p, _ := vrun.Catch(func() { got = m.build(NewBuilder(InitSlot), tu) })
	rp := map[string]any{"kind": "multi", "builder": m.name, "keys": tu}
	if same {
		if p != nil {
			r.Violate("cluster builder rejects same-slot keys: "+m.name, fmt.Sprintf("keys %q panic %v", tu, p), rp)
		} else if got.Slot() != refSlot(tu[0]) {
			r.Violate("cluster builder wrong slot: "+m.name, fmt.Sprintf("keys %q slot %d want %d", tu, got.Slot(), refSlot(tu[0])), rp)
		}
		r.Outcome("same-slot accepted")
	} else {
		if p == nil {
			r.Violate("cluster builder accepts cross-slot keys: "+m.name, fmt.Sprintf("keys %q built with slot %d", tu, got.Slot()), rp)
		}
		r.Outcome("cross-slot rejected")
	}
	p, _ = vrun.Catch(func() { got = m.build(NewBuilder(NoSlot), tu) })
	if p != nil {
		r.Violate("non-cluster builder rejects keys: "+m.name, fmt.Sprintf("keys %q panic %v", tu, p), rp)
	} else if got.Slot()&NoSlot != NoSlot {
		r.Violate("non-cluster builder lost NoSlot: "+m.name, fmt.Sprintf("keys %q slot %d", tu, got.Slot()), rp)
	}
}
