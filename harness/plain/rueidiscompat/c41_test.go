//go:build verif

package rueidiscompat

// C41 - go-redis adapter pipelines keep order and wrap transactions exactly.
//
// Part A (generic, every exported method of *Pipeline / *TxPipeline found by reflection, canned arguments by
// parameter type in three variants): every sequence of <= 2 (thorough: 3) queueing calls on a fresh pipeline over a
// recording fake rueidis.Client; after every call #recorded commands == #result Cmders == Len(), the Cmder handed
// to the caller is the recorded one and nothing was sent yet; then Exec (position i answered by a unique Redis error
// or by a unique transport error) or Discard.
// Part B (curated commands with distinguishable replies on a real fake server, reference model written here).
// Part C (transaction outcomes: committed, WATCH abort through another session, nil / error reply to EXEC, transport
// error from every batch position on).

import (
	"context"
	"encoding/json"
	"errors"
	"fmt"
	"reflect"
	"sort"
	"strconv"
	"strings"
	"testing"
	"time"

	"github.com/redis/rueidis"
	"github.com/redis/rueidis/vshim/simredis"
	"github.com/redis/rueidis/vshim/vrun"
)

// ---------------------------------------------------------------- canned replies (decoded by the real RESP decoder)

type c41replies struct {
	builder rueidis.Builder
	sim     *rueidis.VerifSimClient
	cache   map[string]rueidis.RedisResult
}

var c41rep *c41replies

func c41errText(i int) string { return "verif-e" + strconv.Itoa(i) + "." }

func c41init() {
	if c41rep != nil {
		return
	}
	srv := simredis.New()
	srv.Hook = func(s *simredis.Session, argv []string) *simredis.Reply {
		if argv[0] != "C41REPLY" {
			return nil
		}
		var r simredis.Reply
		switch argv[1] {
		case "err":
			n, _ := strconv.Atoi(argv[2])
			r = simredis.Err("ERR " + c41errText(n))
		case "execerrs":
			n, _ := strconv.Atoi(argv[2])
			el := make([]simredis.Reply, n)
			for i := range el {
				el[i] = simredis.Err("ERR " + c41errText(i))
			}
			r = simredis.Arr(el...)
		case "ok":
			r = simredis.Simple("OK")
		case "queued":
			r = simredis.Simple("QUEUED")
		}
		return &r
	}
	sim := rueidis.NewVerifSimClient(srv, rueidis.ClientOption{DisableCache: true})
	c41rep = &c41replies{builder: sim.B(), sim: sim, cache: map[string]rueidis.RedisResult{}}
}

func (c *c41replies) get(spec ...string) rueidis.RedisResult {
	k := strings.Join(spec, " ")
	if r, ok := c.cache[k]; ok {
		return r
	}
	r := c.sim.Do(context.Background(), c.builder.Arbitrary("C41REPLY").Args(spec...).Build())
	c.cache[k] = r
	return r
}

// ---------------------------------------------------------------- fast recording fake client (part A)

type c41terr struct{ pos int }

func (e *c41terr) Error() string {
	return fmt.Sprintf("c41 transport error at batch position %d", e.pos)
}

type c41fast struct {
	mode      string       // "rediserr" | "transport"
	tx        bool         // answer like a server inside MULTI/EXEC
	batches   [][][]string // every DoMulti call
	immediate []string     // every other call that reached the real client
	terrs     []error      // transport errors handed out by position
}

var _ rueidis.Client = (*c41fast)(nil)

func (f *c41fast) B() rueidis.Builder { return c41rep.builder }

func (f *c41fast) Do(ctx context.Context, cmd rueidis.Completed) rueidis.RedisResult {
	f.immediate = append(f.immediate, "Do "+strings.Join(cmd.Commands(), " "))
	return rueidis.NewErrorResult(errors.New("c41: immediate Do on the real client"))
}

func (f *c41fast) DoMulti(ctx context.Context, multi ...rueidis.Completed) []rueidis.RedisResult {
	batch := c41argvs(multi)
	f.batches = append(f.batches, batch)
	ret := make([]rueidis.RedisResult, len(multi))
	f.terrs = make([]error, len(multi))
	for i := range multi {
		switch {
		case f.mode == "transport":
			f.terrs[i] = &c41terr{pos: i}
			ret[i] = rueidis.NewErrorResult(f.terrs[i])
		case f.tx && i == 0:
			ret[i] = c41rep.get("ok")
		case f.tx && i == len(multi)-1:
			ret[i] = c41rep.get("execerrs", strconv.Itoa(len(multi)-2))
		case f.tx:
			ret[i] = c41rep.get("queued")
		default:
			ret[i] = c41rep.get("err", strconv.Itoa(i))
		}
	}
	return ret
}

func (f *c41fast) DoCache(ctx context.Context, cmd rueidis.Cacheable, ttl time.Duration) rueidis.RedisResult {
	cc := rueidis.Completed(cmd)
	f.immediate = append(f.immediate, "DoCache "+strings.Join(cc.Commands(), " "))
	return rueidis.NewErrorResult(errors.New("c41: immediate DoCache on the real client"))
}

func (f *c41fast) DoMultiCache(ctx context.Context, multi ...rueidis.CacheableTTL) []rueidis.RedisResult {
	f.immediate = append(f.immediate, fmt.Sprintf("DoMultiCache x%d", len(multi)))
	ret := make([]rueidis.RedisResult, len(multi))
	for i := range ret {
		ret[i] = rueidis.NewErrorResult(errors.New("c41: immediate DoMultiCache on the real client"))
	}
	return ret
}

func (f *c41fast) DoStream(ctx context.Context, cmd rueidis.Completed) rueidis.RedisResultStream {
	f.immediate = append(f.immediate, "DoStream")
	return rueidis.NewErrorResultStream(errors.New("c41: immediate DoStream"))
}

func (f *c41fast) DoMultiStream(ctx context.Context, multi ...rueidis.Completed) rueidis.MultiRedisResultStream {
	f.immediate = append(f.immediate, "DoMultiStream")
	return rueidis.NewErrorResultStream(errors.New("c41: immediate DoMultiStream"))
}

func (f *c41fast) Receive(ctx context.Context, subscribe rueidis.Completed, fn func(msg rueidis.PubSubMessage)) error {
	f.immediate = append(f.immediate, "Receive")
	return errors.New("c41: immediate Receive")
}

func (f *c41fast) Dedicated(fn func(rueidis.DedicatedClient) error) error {
	f.immediate = append(f.immediate, "Dedicated")
	return errors.New("c41: immediate Dedicated")
}

func (f *c41fast) Dedicate() (rueidis.DedicatedClient, func()) {
	f.immediate = append(f.immediate, "Dedicate")
	return nil, func() {}
}

func (f *c41fast) Nodes() map[string]rueidis.Client {
	f.immediate = append(f.immediate, "Nodes")
	return map[string]rueidis.Client{"n": f}
}

func (f *c41fast) Mode() rueidis.ClientMode { return rueidis.ClientModeStandalone }
func (f *c41fast) Close()                   {}

// ---------------------------------------------------------------- white-box access

func c41internals(p Pipeliner) (*proxy, *Pipeline) {
	switch v := p.(type) {
	case *Pipeline:
		return v.comp.client.(*proxy), v
	case *TxPipeline:
		return v.comp.client.(*proxy), v.rePipeline
	}
	panic(fmt.Sprintf("c41: unknown Pipeliner implementation %T", p))
}

func c41newPipe(kind string, cl rueidis.Client) Pipeliner {
	a := NewAdapter(cl)
	if kind == "tx" {
		return a.TxPipeline()
	}
	return a.Pipeline()
}

// ---------------------------------------------------------------- canned arguments by parameter type

var (
	c41tCtx  = reflect.TypeOf((*context.Context)(nil)).Elem()
	c41tTime = reflect.TypeOf(time.Time{})
	c41tDur  = reflect.TypeOf(time.Duration(0))
	c41tCmdr = reflect.TypeOf((*Cmder)(nil)).Elem()
)

// variants: 0 = zero / empty (nil pointers, empty variadics), 1 = filled (non-empty everything), 2 = mixed (scalars
// filled, composites present but zero, one variadic element)
//
// variants >= 3 are "filled" with a keyword instead of "k" for every string (methods that reject arbitrary option
// strings); they are only tried for methods that panic on variants 0..2.
var c41keywords = []string{"BEFORE", "NX", "ITEMS", "ASC", "m"}

func c41val(t reflect.Type, variant, depth int) (reflect.Value, bool) {
	if variant >= 3 {
		if t.Kind() == reflect.String {
			v := reflect.New(t).Elem()
			v.SetString(c41keywords[variant-3])
			return v, true
		}
		if t.Kind() == reflect.Slice || t.Kind() == reflect.Ptr || t.Kind() == reflect.Struct || t.Kind() == reflect.Array || t.Kind() == reflect.Map {
			// composites: as in the filled variant, strings inside become the keyword
			return c41valFilledKeyword(t, variant, depth)
		}
		variant = 1
	}
	if t == c41tCtx {
		return reflect.ValueOf(context.Background()), true
	}
	if t == c41tTime {
		if variant == 0 {
			return reflect.ValueOf(time.Time{}), true
		}
		return reflect.ValueOf(time.Unix(1000, 0)), true
	}
	if t == c41tDur {
		if variant == 0 {
			return reflect.ValueOf(time.Duration(0)), true
		}
		return reflect.ValueOf(time.Second), true
	}
	v := reflect.New(t).Elem()
	switch t.Kind() {
	case reflect.String:
		if variant != 0 {
			v.SetString("k")
		}
	case reflect.Int, reflect.Int8, reflect.Int16, reflect.Int32, reflect.Int64:
		if variant != 0 {
			v.SetInt(1)
		}
	case reflect.Uint, reflect.Uint8, reflect.Uint16, reflect.Uint32, reflect.Uint64:
		if variant != 0 {
			v.SetUint(1)
		}
	case reflect.Float32, reflect.Float64:
		if variant != 0 {
			v.SetFloat(1.5)
		}
	case reflect.Bool:
		v.SetBool(variant == 1)
	case reflect.Interface:
		if t.NumMethod() != 0 {
			return v, false // non-empty interface other than context: no canned value
		}
		switch variant {
		case 1:
			v.Set(reflect.ValueOf("v"))
		case 2:
			v.Set(reflect.ValueOf(int64(7)))
		}
	case reflect.Slice:
		n := []int{0, 2, 1}[variant]
		if n > 0 && depth < 4 {
			s := reflect.MakeSlice(t, n, n)
			for i := 0; i < n; i++ {
				e, ok := c41val(t.Elem(), variant, depth+1)
				if !ok {
					return v, false
				}
				s.Index(i).Set(e)
			}
			v.Set(s)
		}
	case reflect.Array:
		for i := 0; i < t.Len(); i++ {
			e, ok := c41val(t.Elem(), variant, depth+1)
			if !ok {
				return v, false
			}
			v.Index(i).Set(e)
		}
	case reflect.Ptr:
		if variant != 0 && depth < 4 {
			sub := 1
			if variant == 2 {
				sub = 0
			}
			e, ok := c41val(t.Elem(), sub, depth+1)
			if !ok {
				return v, false
			}
			p := reflect.New(t.Elem())
			p.Elem().Set(e)
			v.Set(p)
		}
	case reflect.Struct:
		if variant == 1 && depth < 4 {
			for i := 0; i < t.NumField(); i++ {
				if t.Field(i).PkgPath != "" {
					continue
				}
				e, ok := c41val(t.Field(i).Type, 1, depth+1)
				if ok {
					v.Field(i).Set(e)
				}
			}
		}
	case reflect.Map:
		if variant == 1 {
			m := reflect.MakeMap(t)
			k, ok1 := c41val(t.Key(), 1, depth+1)
			e, ok2 := c41val(t.Elem(), 1, depth+1)
			if ok1 && ok2 {
				m.SetMapIndex(k, e)
			}
			v.Set(m)
		}
	case reflect.Func, reflect.Chan:
		// nil
	default:
		return v, false
	}
	return v, true
}

func c41valFilledKeyword(t reflect.Type, variant, depth int) (reflect.Value, bool) {
	v := reflect.New(t).Elem()
	if depth >= 4 {
		return v, true
	}
	switch t.Kind() {
	case reflect.Slice:
		s := reflect.MakeSlice(t, 2, 2)
		for i := 0; i < 2; i++ {
			e, ok := c41val(t.Elem(), variant, depth+1)
			if !ok {
				return v, false
			}
			s.Index(i).Set(e)
		}
		v.Set(s)
	case reflect.Ptr:
		e, ok := c41val(t.Elem(), variant, depth+1)
		if !ok {
			return v, false
		}
		p := reflect.New(t.Elem())
		p.Elem().Set(e)
		v.Set(p)
	case reflect.Struct:
		if t == c41tTime {
			return reflect.ValueOf(time.Unix(1000, 0)), true
		}
		for i := 0; i < t.NumField(); i++ {
			if t.Field(i).PkgPath != "" {
				continue
			}
			if e, ok := c41val(t.Field(i).Type, variant, depth+1); ok {
				v.Field(i).Set(e)
			}
		}
	default:
		return c41val(t, 1, depth)
	}
	return v, true
}

func c41args(mt reflect.Type, variant int) ([]reflect.Value, bool) {
	var in []reflect.Value
	for i := 1; i < mt.NumIn(); i++ { // 0 is the receiver
		t := mt.In(i)
		if mt.IsVariadic() && i == mt.NumIn()-1 {
			n := []int{0, 2, 1, 2, 2, 2, 2, 2}[variant]
			for j := 0; j < n; j++ {
				e, ok := c41val(t.Elem(), variant, 1)
				if !ok {
					return nil, false
				}
				in = append(in, e)
			}
			continue
		}
		e, ok := c41val(t, variant, 0)
		if !ok {
			return nil, false
		}
		in = append(in, e)
	}
	return in, true
}

// methods that do not queue a command (control, sub-pipelines, explicitly unsupported on pipelines)
var c41skip = map[string]string{
	"Exec": "control", "Discard": "control", "Len": "control",
	"Pipeline": "returns itself", "TxPipeline": "returns itself", "Pipelined": "runs fn then Exec", "TxPipelined": "runs fn then Exec",
	"Client": "accessor", "Cache": "panics: not implemented", "Subscribe": "panics: not implemented", "PSubscribe": "panics: not implemented",
	"SSubscribe": "panics: not implemented", "Watch": "panics: not implemented", "ForEachMaster": "panics: not implemented",
}

type c41opRef struct {
	M string `json:"m"`
	V int    `json:"v"`
}

func (o c41opRef) String() string { return fmt.Sprintf("%s/%d", o.M, o.V) }

// c41callOp calls op on pipe (regenerating its arguments) and returns the Cmder the caller gets.
func c41callOp(pipe Pipeliner, op c41opRef) (handle Cmder, hasHandle bool, pan any, site string) {
	rv := reflect.ValueOf(pipe)
	m, ok := rv.Type().MethodByName(op.M)
	if !ok {
		panic("c41: no method " + op.M)
	}
	in, ok := c41args(m.Type, op.V)
	if !ok {
		panic("c41: no canned arguments for " + op.String())
	}
	pan, site = vrun.Catch(func() {
		out := rv.Method(m.Index).Call(in)
		if len(out) == 1 && out[0].Type().Implements(c41tCmdr) && !out[0].IsNil() {
			handle, hasHandle = out[0].Interface().(Cmder), true
		}
	})
	return
}

// ---------------------------------------------------------------- part A: generic sequences

// c41shiftDemo shows on the fake server what a caller observes when op is queued between SET a v0 and GET a.
func c41shiftDemo(kind string, op c41opRef) string {
	srv := simredis.New()
	p := c41newPipe(kind, rueidis.NewVerifSimClient(srv, rueidis.ClientOption{DisableCache: true}))
	ctx := context.Background()
	set := p.Set(ctx, "a", "v0", 0)
	_, _, pan, _ := c41callOp(p, op)
	get := p.Get(ctx, "a")
	incr := p.Incr(ctx, "n")
	var ret []Cmder
	var err error
	if pan == nil {
		pan, _ = vrun.Catch(func() { ret, err = p.Exec(ctx) })
	}
	if pan != nil {
		return fmt.Sprintf("demo: panic %v", pan)
	}
	return fmt.Sprintf("demo on the fake server: Set(a,v0); %s(canned variant %d); Get(a); Incr(n); Exec -> %d Cmders, err=%v; Set: val=%q err=%v; Get: val=%q err=%v (want \"v0\"); Incr: val=%d err=%v (want 1)",
		op.M, op.V, len(ret), err, set.Val(), set.Err(), get.Val(), get.Err(), incr.Val(), incr.Err())
}

type c41genCase struct {
	Part   string     `json:"part"` // "gen"
	Kind   string     `json:"kind"` // "pipe" | "tx"
	Ops    []c41opRef `json:"ops"`
	Finish string     `json:"finish"` // "rediserr" | "transport" | "discard"
}

func c41argvs(cs []rueidis.Completed) [][]string {
	out := make([][]string, len(cs))
	for i, c := range cs {
		c := c
		// a zero Completed (never built) has no command slice: Commands() dereferences nil
		if p, _ := vrun.Catch(func() { out[i] = append([]string{}, c.Commands()...) }); p != nil {
			out[i] = []string{"<zero rueidis.Completed>"}
		}
	}
	return out
}

func c41sameBatch(a, b [][]string) bool {
	if len(a) != len(b) {
		return false
	}
	for i := range a {
		if len(a[i]) != len(b[i]) {
			return false
		}
		for j := range a[i] {
			if a[i][j] != b[i][j] {
				return false
			}
		}
	}
	return true
}

func c41typeName(kind string) string {
	if kind == "tx" {
		return "TxPipeline"
	}
	return "Pipeline"
}

func c41runGen(r *vrun.Run, c c41genCase) {
	r.Evaluations++
	fake := &c41fast{mode: c.Finish, tx: c.Kind == "tx"}
	pipe := c41newPipe(c.Kind, fake)
	px, pl := c41internals(pipe)
	tn := c41typeName(c.Kind)
	fail := func(sig, format string, a ...any) {
		r.Violate(sig, fmt.Sprintf("case %s %v finish=%s\n", c.Kind, c.Ops, c.Finish)+fmt.Sprintf(format, a...), c)
	}
	var handles []Cmder
	for _, op := range c.Ops {
		n0, r0 := len(px.cmds), len(pl.rets)
		h, hasH, pan, site := c41callOp(pipe, op)
		if pan != nil {
			if len(c.Ops) > 1 {
				fail(fmt.Sprintf("Pipeline.%s: panics only after other commands were queued (%s)", op.M, site), "panic: %v", pan)
			}
			r.Outcome("op panics on canned arguments")
			return
		}
		dc, dr := len(px.cmds)-n0, len(pl.rets)-r0
		if len(fake.batches) != 0 || len(fake.immediate) != 0 {
			fail(fmt.Sprintf("Pipeline.%s: sends to the real client at queue time (capture proxy bypassed)", op.M), "calls on the real client before Exec: batches=%v other=%v", fake.batches, fake.immediate)
			return
		}
		if dc != dr {
			fail(fmt.Sprintf("Pipeline.%s: queues %d command(s) but %d result Cmder(s) - later results shift", op.M, dc, dr), "after the call: %d recorded commands %v, %d Cmders\n%s", len(px.cmds), c41argvs(px.cmds), len(pl.rets), c41shiftDemo(c.Kind, op))
			r.Outcome(fmt.Sprintf("queue call: +%d command(s) +%d Cmder(s)", dc, dr))
			// everything after this point is a consequence; Exec must at least not panic
			if pan, site := vrun.Catch(func() { pipe.Exec(context.Background()) }); pan != nil {
				fail(fmt.Sprintf("%s.Exec: panic after a misaligned queue call (%s)", tn, site), "panic: %v", pan)
			}
			return
		}
		if pipe.Len() != len(px.cmds) {
			fail(tn+".Len: differs from the number of recorded commands", "Len()=%d recorded=%d", pipe.Len(), len(px.cmds))
		}
		if dr == 1 && hasH && pl.rets[len(pl.rets)-1] != h {
			fail(fmt.Sprintf("Pipeline.%s: Cmder returned to the caller is not the recorded one", op.M), "returned %T %p, recorded %T %p", h, h, pl.rets[len(pl.rets)-1], pl.rets[len(pl.rets)-1])
		}
		if dr == 1 && hasH {
			handles = append(handles, h)
		} else if dr != 0 || dc != 0 {
			handles = append(handles, nil)
		}
		r.Outcome(fmt.Sprintf("queue call: +%d command(s) +%d Cmder(s)", dc, dr))
	}
	want := c41argvs(px.cmds)
	n := len(want)
	if c.Finish == "discard" {
		pipe.Discard()
		if pipe.Len() != 0 || len(px.cmds) != 0 || len(pl.rets) != 0 {
			fail(tn+".Discard: queued commands or Cmders remain", "Len()=%d cmds=%d rets=%d", pipe.Len(), len(px.cmds), len(pl.rets))
		}
		ret, err := pipe.Exec(context.Background())
		if len(ret) != 0 || err != nil || len(fake.batches) != 0 || len(fake.immediate) != 0 {
			fail(tn+".Exec after Discard: sends or returns something", "ret=%d err=%v batches=%v", len(ret), err, fake.batches)
		}
		r.Outcome("discarded")
		return
	}
	var ret []Cmder
	var err error
	if pan, site := vrun.Catch(func() { ret, err = pipe.Exec(context.Background()) }); pan != nil {
		fail(fmt.Sprintf("%s.Exec: panic (%s)", tn, site), "panic: %v", pan)
		return
	}
	if n == 0 {
		if len(ret) != 0 || err != nil || len(fake.batches) != 0 {
			fail(tn+".Exec: empty pipeline sends or returns something", "ret=%d err=%v batches=%v", len(ret), err, fake.batches)
		}
		r.Outcome("exec of an empty pipeline")
		return
	}
	if len(fake.immediate) != 0 {
		fail(tn+".Exec: uses something else than one DoMulti", "other calls: %v", fake.immediate)
		return
	}
	wantBatch := want
	if c.Kind == "tx" {
		wantBatch = append(append([][]string{{"MULTI"}}, want...), []string{"EXEC"})
	}
	if len(fake.batches) != 1 || !c41sameBatch(fake.batches[0], wantBatch) {
		fail(tn+".Exec: batch sent differs from the queued commands", "sent %v\nwant one batch %v", fake.batches, wantBatch)
		return
	}
	if len(ret) != n {
		fail(tn+".Exec: number of returned Cmders differs from the number of queued commands", "returned %d, queued %d", len(ret), n)
		return
	}
	for i := range ret {
		if i < len(handles) && handles[i] != nil && ret[i] != handles[i] {
			fail(tn+".Exec: returned Cmder i is not the Cmder handed out by queue call i", "position %d", i)
			return
		}
	}
	var first error
	switch {
	case c.Finish == "rediserr":
		for i := range ret {
			e := ret[i].Err()
			if _, isRedis := rueidis.IsRedisErr(e); e == nil || !isRedis || !strings.Contains(e.Error(), c41errText(i)) {
				fail(fmt.Sprintf("%s.Exec: Cmder %T does not hold the reply of its own position", tn, ret[i]), "position %d of %d holds err=%v, want the Redis error %q", i, n, e, c41errText(i))
				return
			}
			if first == nil {
				first = e
			}
		}
		if err == nil || err.Error() != first.Error() {
			fail(tn+".Exec: returned error is not the first error in queue order", "got %v want %v", err, first)
		}
		r.Outcome("exec: every position answered by its own Redis error")
	case c.Kind == "pipe": // transport
		for i := range ret {
			if e := ret[i].Err(); e != fake.terrs[i] {
				fail(fmt.Sprintf("%s.Exec: Cmder %T does not hold the reply of its own position", tn, ret[i]), "position %d of %d holds err=%v, want %v", i, n, e, fake.terrs[i])
				return
			}
		}
		if err != fake.terrs[0] {
			fail(tn+".Exec: returned error is not the first error in queue order", "got %v want %v", err, fake.terrs[0])
		}
		r.Outcome("exec: every position answered by its own transport error")
	default: // tx + transport
		if err != fake.terrs[n+1] {
			fail(tn+".Exec: transport error of EXEC not returned", "got %v want %v", err, fake.terrs[n+1])
		}
		for i := range ret {
			if ret[i].Err() == nil {
				// observed, not judged: C41 does not say what a Cmder of a transaction that failed as a whole holds
				r.Outcome(fmt.Sprintf("%s.Exec: failed transaction leaves Cmder %T without error (outside the statement)", tn, ret[i]))
				break
			}
		}
		r.Outcome("exec: transaction failed with a transport error")
	}
	if pipe.Len() != 0 || len(px.cmds) != 0 || len(pl.rets) != 0 {
		fail(tn+".Exec: pipeline not empty afterwards", "Len()=%d cmds=%d rets=%d", pipe.Len(), len(px.cmds), len(pl.rets))
	}
	ret2, err2 := pipe.Exec(context.Background())
	if len(ret2) != 0 || err2 != nil || len(fake.batches) != 1 {
		fail(tn+".Exec: second Exec sends or returns something", "ret=%d err=%v batches=%d", len(ret2), err2, len(fake.batches))
	}
}

// ---------------------------------------------------------------- recording client over the fake server (parts B, C)

type c41call struct {
	Via   string     `json:"via"` // "Do" | "DoMulti" | ...
	Where string     `json:"where"`
	Argvs [][]string `json:"argvs"`
}

type c41rec struct {
	*rueidis.VerifSimClient
	calls *[]c41call
	where string
}

func (c *c41rec) Do(ctx context.Context, cmd rueidis.Completed) rueidis.RedisResult {
	*c.calls = append(*c.calls, c41call{"Do", c.where, [][]string{append([]string{}, cmd.Commands()...)}})
	return c.VerifSimClient.Do(ctx, cmd)
}

func (c *c41rec) DoMulti(ctx context.Context, multi ...rueidis.Completed) []rueidis.RedisResult {
	*c.calls = append(*c.calls, c41call{"DoMulti", c.where, c41argvs(multi)})
	return c.VerifSimClient.DoMulti(ctx, multi...)
}

func (c *c41rec) DoCache(ctx context.Context, cmd rueidis.Cacheable, ttl time.Duration) rueidis.RedisResult {
	*c.calls = append(*c.calls, c41call{"DoCache", c.where, nil})
	return c.VerifSimClient.DoCache(ctx, cmd, ttl)
}

func (c *c41rec) DoMultiCache(ctx context.Context, multi ...rueidis.CacheableTTL) []rueidis.RedisResult {
	*c.calls = append(*c.calls, c41call{"DoMultiCache", c.where, nil})
	return c.VerifSimClient.DoMultiCache(ctx, multi...)
}

type c41recDed struct {
	rueidis.DedicatedClient
	calls *[]c41call
}

func (c *c41recDed) Do(ctx context.Context, cmd rueidis.Completed) rueidis.RedisResult {
	*c.calls = append(*c.calls, c41call{"Do", "dedicated", [][]string{append([]string{}, cmd.Commands()...)}})
	return c.DedicatedClient.Do(ctx, cmd)
}

func (c *c41recDed) DoMulti(ctx context.Context, multi ...rueidis.Completed) []rueidis.RedisResult {
	*c.calls = append(*c.calls, c41call{"DoMulti", "dedicated", c41argvs(multi)})
	return c.DedicatedClient.DoMulti(ctx, multi...)
}

func (c *c41rec) Dedicate() (rueidis.DedicatedClient, func()) {
	d, cancel := c.VerifSimClient.Dedicate()
	if c.VerifSimClient.Fail != nil { // the dedicated connection suffers the same fault
		c41setFail(d, c.VerifSimClient.Fail)
	}
	return &c41recDed{DedicatedClient: d, calls: c.calls}, cancel
}

func (c *c41rec) Dedicated(fn func(rueidis.DedicatedClient) error) error {
	d, cancel := c.Dedicate()
	defer cancel()
	return fn(d)
}

// c41setFail installs the fault function on the sim client behind a dedicated client (exported field of the embedded
// *VerifSimClient of the unexported wrapper type: reached through reflection).
func c41setFail(d rueidis.DedicatedClient, f func([]string) error) {
	v := reflect.ValueOf(d)
	for v.Kind() == reflect.Ptr || v.Kind() == reflect.Interface {
		v = v.Elem()
	}
	if v.Kind() == reflect.Struct {
		if fld := v.FieldByName("VerifSimClient"); fld.IsValid() {
			if sc, ok := fld.Interface().(*rueidis.VerifSimClient); ok {
				sc.Fail = f
			}
		}
	}
}

// ---------------------------------------------------------------- part B: curated commands + reference model

// curated ops: single key "a" (collisions wanted) plus reads/writes of "b"
var c41curated = []string{"SetA", "GetA", "IncrA", "AppendA", "DelA", "ExistsA", "LPushA", "LLenA", "HSetA", "HGetA", "StrLenA", "GetB", "SetB", "DoGetA"}

type c41entry struct {
	kind byte // 's' 'l' 'h'
	s    string
	l    []string
	h    map[string]string
}

type c41expect struct {
	argv  []string
	class string // "status" "string" "int" "nil" "wrongtype" "notint" "any"
	s     string
	i     int64
}

const c41wrongtype = "WRONGTYPE"

// c41model applies op number pos to the reference state and returns what Redis must answer (written from the command
// reference, not from simredis).
func c41model(st map[string]*c41entry, op string, pos int) c41expect {
	val := "v" + strconv.Itoa(pos)
	str := func(k string) (*c41entry, bool) {
		e := st[k]
		return e, e == nil || e.kind == 's'
	}
	switch op {
	case "SetA", "SetB":
		k := strings.ToLower(op[3:])
		st[k] = &c41entry{kind: 's', s: val}
		return c41expect{argv: []string{"SET", k, val}, class: "status", s: "OK"}
	case "GetA", "GetB", "DoGetA":
		k := strings.ToLower(op[len(op)-1:])
		ex := c41expect{argv: []string{"GET", k}}
		e, ok := str(k)
		switch {
		case !ok:
			ex.class = "wrongtype"
		case e == nil:
			ex.class = "nil"
		default:
			ex.class, ex.s = "string", e.s
		}
		return ex
	case "IncrA":
		ex := c41expect{argv: []string{"INCR", "a"}}
		e, ok := str("a")
		if !ok {
			ex.class = "wrongtype"
			return ex
		}
		var n int64
		if e != nil {
			var err error
			n, err = strconv.ParseInt(e.s, 10, 64)
			if err != nil {
				ex.class = "notint"
				return ex
			}
		}
		n++
		st["a"] = &c41entry{kind: 's', s: strconv.FormatInt(n, 10)}
		ex.class, ex.i = "int", n
		return ex
	case "AppendA":
		ex := c41expect{argv: []string{"APPEND", "a", val}}
		e, ok := str("a")
		if !ok {
			ex.class = "wrongtype"
			return ex
		}
		s := val
		if e != nil {
			s = e.s + val
		}
		st["a"] = &c41entry{kind: 's', s: s}
		ex.class, ex.i = "int", int64(len(s))
		return ex
	case "DelA", "ExistsA":
		ex := c41expect{class: "int"}
		if st["a"] != nil {
			ex.i = 1
		}
		if op == "DelA" {
			ex.argv = []string{"DEL", "a"}
			delete(st, "a")
		} else {
			ex.argv = []string{"EXISTS", "a"}
		}
		return ex
	case "LPushA":
		ex := c41expect{argv: []string{"LPUSH", "a", val}}
		e := st["a"]
		if e != nil && e.kind != 'l' {
			ex.class = "wrongtype"
			return ex
		}
		if e == nil {
			e = &c41entry{kind: 'l'}
			st["a"] = e
		}
		e.l = append([]string{val}, e.l...)
		ex.class, ex.i = "int", int64(len(e.l))
		return ex
	case "LLenA":
		ex := c41expect{argv: []string{"LLEN", "a"}, class: "int"}
		e := st["a"]
		if e != nil && e.kind != 'l' {
			ex.class = "wrongtype"
		} else if e != nil {
			ex.i = int64(len(e.l))
		}
		return ex
	case "HSetA":
		ex := c41expect{argv: []string{"HSET", "a", "f", val}}
		e := st["a"]
		if e != nil && e.kind != 'h' {
			ex.class = "wrongtype"
			return ex
		}
		if e == nil {
			e = &c41entry{kind: 'h', h: map[string]string{}}
			st["a"] = e
		}
		if _, had := e.h["f"]; !had {
			ex.i = 1
		}
		e.h["f"] = val
		ex.class = "int"
		return ex
	case "HGetA":
		ex := c41expect{argv: []string{"HGET", "a", "f"}}
		e := st["a"]
		switch {
		case e != nil && e.kind != 'h':
			ex.class = "wrongtype"
		case e == nil:
			ex.class = "nil"
		default:
			if v, ok := e.h["f"]; ok {
				ex.class, ex.s = "string", v
			} else {
				ex.class = "nil"
			}
		}
		return ex
	case "StrLenA":
		ex := c41expect{argv: []string{"STRLEN", "a"}, class: "int"}
		e, ok := str("a")
		if !ok {
			ex.class = "wrongtype"
		} else if e != nil {
			ex.i = int64(len(e.s))
		}
		return ex
	}
	panic("c41: unknown curated op " + op)
}

func c41queueCurated(p Pipeliner, op string, pos int) Cmder {
	ctx := context.Background()
	val := "v" + strconv.Itoa(pos)
	switch op {
	case "SetA":
		return p.Set(ctx, "a", val, 0)
	case "SetB":
		return p.Set(ctx, "b", val, 0)
	case "GetA":
		return p.Get(ctx, "a")
	case "GetB":
		return p.Get(ctx, "b")
	case "DoGetA":
		return p.Do(ctx, "GET", "a")
	case "IncrA":
		return p.Incr(ctx, "a")
	case "AppendA":
		return p.Append(ctx, "a", val)
	case "DelA":
		return p.Del(ctx, "a")
	case "ExistsA":
		return p.Exists(ctx, "a")
	case "LPushA":
		return p.LPush(ctx, "a", val)
	case "LLenA":
		return p.LLen(ctx, "a")
	case "HSetA":
		return p.HSet(ctx, "a", "f", val)
	case "HGetA":
		return p.HGet(ctx, "a", "f")
	case "StrLenA":
		return p.StrLen(ctx, "a")
	}
	panic("c41: unknown curated op " + op)
}

// c41cmderMatches compares a Cmder with the expected reply; returns a description of the mismatch or "".
func c41cmderMatches(c Cmder, ex c41expect) string {
	err := c.Err()
	got := ""
	switch v := c.(type) {
	case *StringCmd: // StatusCmd is an alias of StringCmd
		got = fmt.Sprintf("string %q", v.Val())
	case *IntCmd:
		got = fmt.Sprintf("int %d", v.Val())
	case *Cmd:
		got = fmt.Sprintf("any %v", v.Val())
	default:
		got = fmt.Sprintf("%T", c)
	}
	desc := fmt.Sprintf("got %s err=%v, want %s %q %d", got, err, ex.class, ex.s, ex.i)
	switch ex.class {
	case "status":
		if v, ok := c.(*StringCmd); !ok || err != nil || v.Val() != ex.s {
			return desc
		}
	case "string":
		switch v := c.(type) {
		case *StringCmd:
			if err != nil || v.Val() != ex.s {
				return desc
			}
		case *Cmd:
			if s, ok := v.Val().(string); err != nil || !ok || s != ex.s {
				return desc
			}
		default:
			return desc
		}
	case "int":
		if v, ok := c.(*IntCmd); !ok || err != nil || v.Val() != ex.i {
			return desc
		}
	case "nil":
		if !rueidis.IsRedisNil(err) {
			return desc
		}
	case "wrongtype":
		if re, ok := rueidis.IsRedisErr(err); !ok || !strings.HasPrefix(re.Error(), c41wrongtype) {
			return desc
		}
	case "notint":
		if re, ok := rueidis.IsRedisErr(err); !ok || !strings.Contains(re.Error(), "not an integer") {
			return desc
		}
	}
	return ""
}

type c41curCase struct {
	Part    string   `json:"part"`    // "cur"
	Kind    string   `json:"kind"`    // "pipe" | "tx"
	Entry   string   `json:"entry"`   // "object" (Pipeline()/TxPipeline() + Exec) | "fn" (Pipelined / TxPipelined)
	Preset  string   `json:"preset"`  // "" | "str" (a="5") | "list" (a=[x]) | "hash" (a={f:x})
	Ops     []string `json:"ops"`     // curated op names
	Outcome string   `json:"outcome"` // "" normal | tx only: "watch-abort" "watch-other-key" "exec-nil" "exec-err" "fail@<j>" "unknown-cmd"
}

func c41preset(srv *simredis.Server, st map[string]*c41entry, preset string) {
	switch preset {
	case "str":
		srv.Do("SET", "a", "5")
		st["a"] = &c41entry{kind: 's', s: "5"}
	case "list":
		srv.Do("RPUSH", "a", "x")
		st["a"] = &c41entry{kind: 'l', l: []string{"x"}}
	case "hash":
		srv.Do("HSET", "a", "f", "x")
		st["a"] = &c41entry{kind: 'h', h: map[string]string{"f": "x"}}
	}
}

// c41serverState renders the server's view of keys a and b through out-of-band reads.
func c41serverState(srv *simredis.Server) string {
	var parts []string
	for _, k := range []string{"a", "b"} {
		t := srv.Do("TYPE", k).S
		switch t {
		case "string":
			parts = append(parts, k+"=s:"+srv.Do("GET", k).S)
		case "list":
			var l []string
			for _, e := range srv.Do("LRANGE", k, "0", "-1").A {
				l = append(l, e.S)
			}
			parts = append(parts, k+"=l:"+strings.Join(l, ","))
		case "hash":
			parts = append(parts, k+"=h:f="+srv.Do("HGET", k, "f").S)
		default:
			parts = append(parts, k+"=none")
		}
	}
	return strings.Join(parts, " ")
}

func c41modelState(st map[string]*c41entry) string {
	var parts []string
	for _, k := range []string{"a", "b"} {
		e := st[k]
		switch {
		case e == nil:
			parts = append(parts, k+"=none")
		case e.kind == 's':
			parts = append(parts, k+"=s:"+e.s)
		case e.kind == 'l':
			parts = append(parts, k+"=l:"+strings.Join(e.l, ","))
		case e.kind == 'h':
			parts = append(parts, k+"=h:f="+e.h["f"])
		}
	}
	return strings.Join(parts, " ")
}

func c41runCur(r *vrun.Run, c c41curCase) {
	r.Evaluations++
	ctx := context.Background()
	srv := simredis.New()
	st := map[string]*c41entry{}
	c41preset(srv, st, c.Preset)
	var calls []c41call
	cl := &c41rec{VerifSimClient: rueidis.NewVerifSimClient(srv, rueidis.ClientOption{DisableCache: true}), calls: &calls, where: "client"}
	tn := c41typeName(c.Kind)
	fail := func(sig, format string, a ...any) {
		r.Violate(sig, fmt.Sprintf("case %+v\n", c)+fmt.Sprintf(format, a...), c)
	}
	n := len(c.Ops)
	stBefore := c41modelState(st)
	// expectations for a committed run
	exp := make([]c41expect, n)
	for i, op := range c.Ops {
		exp[i] = c41model(st, op, i)
	}
	stCommitted := c41modelState(st)

	var handles []Cmder
	queue := func(p Pipeliner) error {
		for i, op := range c.Ops {
			handles = append(handles, c41queueCurated(p, op, i))
			if p.Len() != i+1 {
				fail(tn+".Len: differs from the number of queued commands", "after %d queue calls Len()=%d", i+1, p.Len())
			}
		}
		if c.Outcome == "unknown-cmd" {
			handles = append(handles, p.Do(ctx, "C41NOSUCHCMD", "a"))
		}
		return nil
	}
	var failErr error
	arm := func() { // faults are armed after queueing, right before Exec
		switch {
		case c.Outcome == "exec-nil" || c.Outcome == "exec-err":
			srv.Hook = func(s *simredis.Session, argv []string) *simredis.Reply {
				if strings.ToUpper(argv[0]) != "EXEC" {
					return nil
				}
				rep := simredis.Nil()
				if c.Outcome == "exec-err" {
					rep = simredis.Err("EXECABORT Transaction discarded because of previous errors (verif).")
				}
				return &rep
			}
		case strings.HasPrefix(c.Outcome, "fail@"):
			j, _ := strconv.Atoi(c.Outcome[5:])
			failErr = fmt.Errorf("c41 connection broke after %d commands of the batch", j)
			seen := 0
			cl.VerifSimClient.Fail = func(argv []string) error {
				seen++
				if seen > j {
					return failErr
				}
				return nil
			}
		case c.Outcome == "watch-abort":
			srv.Do("SET", "a", "intruder")
		case c.Outcome == "watch-other-key":
			srv.Do("SET", "zzz", "intruder")
		}
	}

	var ret []Cmder
	var err error
	watched := strings.HasPrefix(c.Outcome, "watch")
	run := func(a c41pipes) {
		switch {
		case c.Entry == "fn" && c.Kind == "tx":
			ret, err = a.TxPipelined(ctx, func(p Pipeliner) error { queue(p); arm(); return nil })
		case c.Entry == "fn":
			ret, err = a.Pipelined(ctx, func(p Pipeliner) error { queue(p); arm(); return nil })
		default:
			var p Pipeliner
			if c.Kind == "tx" {
				p = a.TxPipeline()
			} else {
				p = a.Pipeline()
			}
			queue(p)
			if len(calls) != 0 && !watched {
				fail(tn+": commands sent before Exec", "%v", calls)
			}
			arm()
			ret, err = p.Exec(ctx)
			if p.Len() != 0 {
				fail(tn+".Exec: pipeline not empty afterwards", "Len()=%d", p.Len())
			}
			mark := len(calls)
			if r2, e2 := p.Exec(ctx); len(r2) != 0 || e2 != nil || len(calls) != mark {
				fail(tn+".Exec: second Exec sends or returns something", "ret=%d err=%v calls=%v", len(r2), e2, calls[mark:])
			}
		}
	}
	where := "client"
	pan, site := vrun.Catch(func() {
		if watched {
			where = "dedicated"
			werr := NewAdapter(cl).Watch(ctx, func(tx Tx) error {
				run(tx)
				return err
			}, "a")
			if werr != err {
				fail("Compat.Watch: error of fn not returned unchanged", "got %v want %v", werr, err)
			}
		} else {
			run(NewAdapter(cl))
		}
	})
	if pan != nil {
		fail(fmt.Sprintf("%s: panic while queueing/executing curated commands (%s)", tn, site), "panic: %v", pan)
		r.Outcome("panic")
		return
	}

	total := n
	var wantArgv [][]string
	for _, e := range exp {
		wantArgv = append(wantArgv, e.argv)
	}
	if c.Outcome == "unknown-cmd" {
		total++
		wantArgv = append(wantArgv, []string{"C41NOSUCHCMD", "a"})
	}
	if total == 0 {
		if len(ret) != 0 || err != nil {
			fail(tn+".Exec: empty pipeline returns something", "ret=%d err=%v", len(ret), err)
		}
		for _, cc := range calls {
			if cc.Via == "DoMulti" {
				fail(tn+".Exec: empty pipeline sends a batch", "%v", calls)
			}
		}
		r.Outcome("empty")
		return
	}
	// what the client was asked to send
	wantBatch := wantArgv
	if c.Kind == "tx" {
		wantBatch = append(append([][]string{{"MULTI"}}, wantArgv...), []string{"EXEC"})
	}
	var wantCalls []c41call
	if watched {
		wantCalls = append(wantCalls, c41call{"Do", "dedicated", [][]string{{"WATCH", "a"}}})
	}
	wantCalls = append(wantCalls, c41call{"DoMulti", where, wantBatch})
	if a, b := fmt.Sprint(calls), fmt.Sprint(wantCalls); a != b {
		fail(tn+".Exec: calls on the client differ from one batch of the queued commands", "calls  %s\nwanted %s", a, b)
		return
	}
	if len(ret) != total {
		fail(tn+".Exec: number of returned Cmders differs from the number of queued commands", "returned %d queued %d (err=%v)", len(ret), total, err)
		return
	}
	for i := range ret {
		if ret[i] != handles[i] {
			fail(tn+".Exec: returned Cmder i is not the Cmder handed out by queue call i", "position %d", i)
			return
		}
	}
	committed := c.Outcome == "" || c.Outcome == "watch-other-key"
	if committed {
		var first error
		for i := range ret {
			if d := c41cmderMatches(ret[i], exp[i]); d != "" {
				fail(fmt.Sprintf("%s.Exec: result %d does not hold the reply of command %d", tn, i, i), "%s %v: %s", c.Ops[i], exp[i].argv, d)
				return
			}
			if first == nil {
				first = ret[i].Err()
			}
		}
		if err != first && (err == nil || first == nil || err.Error() != first.Error()) {
			fail(tn+".Exec: returned error is not the first error in queue order", "got %v want %v", err, first)
		}
		if got := c41serverState(srv); got != stCommitted {
			fail(tn+".Exec: server state differs from the reference model", "server %q model %q", got, stCommitted)
		}
		cls := make([]string, n)
		for i := range exp {
			cls[i] = exp[i].class
		}
		r.Outcome(c.Kind + " committed: " + strings.Join(cls, ","))
		return
	}
	// failed transaction / failed batch
	switch {
	case c.Kind == "tx" && (c.Outcome == "watch-abort" || c.Outcome == "exec-nil"):
		if err != TxFailedErr {
			fail("TxPipeline.Exec: nil reply to EXEC not reported as TxFailedErr", "got err=%v", err)
		}
	case c.Kind == "tx" && (c.Outcome == "exec-err" || c.Outcome == "unknown-cmd"):
		if re, ok := rueidis.IsRedisErr(err); !ok || !strings.HasPrefix(re.Error(), "EXECABORT") {
			fail("TxPipeline.Exec: error reply to EXEC not returned", "got err=%v", err)
		}
	case c.Kind == "tx" && strings.HasPrefix(c.Outcome, "fail@"):
		if err != failErr {
			fail("TxPipeline.Exec: transport error not returned", "got err=%v want %v", err, failErr)
		}
	case c.Kind == "pipe" && strings.HasPrefix(c.Outcome, "fail@"):
		j, _ := strconv.Atoi(c.Outcome[5:])
		var first error
		for i := range ret {
			if i < j {
				if d := c41cmderMatches(ret[i], exp[i]); d != "" {
					fail(fmt.Sprintf("%s.Exec: result %d does not hold the reply of command %d", tn, i, i), "%s: %s", c.Ops[i], d)
					return
				}
			} else if ret[i].Err() != failErr {
				fail(fmt.Sprintf("%s.Exec: result %d does not hold the reply of command %d", tn, i, i), "%s: got err=%v want transport error %v", c.Ops[i], ret[i].Err(), failErr)
				return
			}
			if first == nil {
				first = ret[i].Err()
			}
		}
		if err != first && (err == nil || first == nil || err.Error() != first.Error()) {
			fail(tn+".Exec: returned error is not the first error in queue order", "got %v want %v", err, first)
		}
		r.Outcome("pipe: connection broke inside the batch")
		return
	case c.Kind == "pipe" && c.Outcome == "unknown-cmd":
		for i := 0; i < n; i++ {
			if d := c41cmderMatches(ret[i], exp[i]); d != "" {
				fail(fmt.Sprintf("%s.Exec: result %d does not hold the reply of command %d", tn, i, i), "%s: %s", c.Ops[i], d)
				return
			}
		}
		if re, ok := rueidis.IsRedisErr(ret[n].Err()); !ok || !strings.Contains(re.Error(), "unknown command") {
			fail(fmt.Sprintf("%s.Exec: result %d does not hold the reply of command %d", tn, n, n), "unknown command: got err=%v", ret[n].Err())
		}
		r.Outcome("pipe: unknown command at the end")
		return
	default:
		panic("c41: outcome/kind combination " + c.Kind + "/" + c.Outcome)
	}
	// failed transaction: nothing was executed, every Cmder reports an error
	if c.Outcome != "watch-abort" {
		if got := c41serverState(srv); got != stBefore {
			fail("TxPipeline.Exec: failed transaction changed the server state", "server %q before %q", got, stBefore)
		}
	}
	for i := range ret {
		if ret[i].Err() == nil {
			r.Outcome(fmt.Sprintf("TxPipeline.Exec: failed transaction leaves Cmder %T without error (outside the statement)", ret[i]))
			break
		}
		if ret[i].Err() == errPipelineNotExecuted {
			r.Outcome("failed tx: Cmder keeps the placeholder error 'the pipeline has not been executed'")
		} else {
			r.Outcome("failed tx: Cmder holds " + fmt.Sprintf("%T", ret[i].Err()))
		}
	}
	r.Outcome("tx failed: " + strings.SplitN(c.Outcome, "@", 2)[0])
}

// c41pipes are the pipeline entry points shared by Cmdable and Tx.
type c41pipes interface {
	TxPipelined(ctx context.Context, fn func(Pipeliner) error) ([]Cmder, error)
	TxPipeline() Pipeliner
	Pipelined(ctx context.Context, fn func(Pipeliner) error) ([]Cmder, error)
	Pipeline() Pipeliner
}

// ---------------------------------------------------------------- driver

// c41ops enumerates the queueing methods of the pipeline type by reflection. all = every (method, argument variant)
// that does not panic on a fresh pipeline and records a distinct command; first = the first such variant per method;
// reps = one op per distinct result Cmder type plus every op whose queue delta is not (+1 command, +1 Cmder).
func c41ops(r *vrun.Run, kind string) (all, first, reps []c41opRef) {
	pipe := c41newPipe(kind, &c41fast{})
	t := reflect.TypeOf(pipe)
	tn := c41typeName(kind)
	var skipped, noargs, allpanic []string
	methods := 0
	seenType := map[string]bool{}
	for i := 0; i < t.NumMethod(); i++ {
		m := t.Method(i)
		if why, ok := c41skip[m.Name]; ok {
			skipped = append(skipped, m.Name+" ("+why+")")
			continue
		}
		methods++
		seen := map[string]bool{}
		usable := 0
		for v := 0; v < 3+len(c41keywords); v++ {
			if v >= 3 && usable > 0 {
				break // keyword variants are only for methods that reject everything else
			}
			if _, ok := c41args(m.Type, v); !ok {
				noargs = append(noargs, m.Name)
				break
			}
			op := c41opRef{M: m.Name, V: v}
			// probe on a fresh pipeline: drop variants that panic on the canned arguments or repeat the same command
			p := c41newPipe(kind, &c41fast{})
			px, pl := c41internals(p)
			h, _, pan, _ := c41callOp(p, op)
			if pan != nil {
				r.Outcome("op panics on canned arguments")
				continue
			}
			key := fmt.Sprint(c41argvs(px.cmds), len(pl.rets))
			if seen[key] {
				continue
			}
			seen[key] = true
			usable++
			all = append(all, op)
			if usable == 1 {
				first = append(first, op)
			}
			tk := fmt.Sprintf("%T", h)
			if len(px.cmds) != 1 || len(pl.rets) != 1 {
				reps = append(reps, op)
			} else if !seenType[tk] {
				seenType[tk] = true
				reps = append(reps, op)
			}
		}
		if usable == 0 {
			allpanic = append(allpanic, m.Name)
		}
	}
	sort.Strings(skipped)
	if kind == "pipe" {
		r.Bounds["methods_skipped_as_non_queueing"] = skipped
		r.Bounds["methods_without_canned_arguments"] = noargs
		r.Bounds["methods_panicking_on_every_canned_variant"] = allpanic
	}
	r.Bounds[tn+"_queueing_methods"] = methods
	r.Bounds[tn+"_ops_all(method x distinct argument variant)"] = len(all)
	r.Bounds[tn+"_ops_first_variant"] = len(first)
	r.Bounds[tn+"_ops_representatives(one per Cmder type + anomalous deltas)"] = len(reps)
	return
}

func TestVerif_C41(t *testing.T) {
	vrun.Main(t, "C41", func(r *vrun.Run) {
		c41init()
		r.Rule = "A: every single call over every (method, canned argument variant) of all exported methods of *Pipeline and *TxPipeline (reflection; 3 variants, identical/panicking variants dropped), every pair (quick: first usable variant per method; thorough: every variant), thorough: every triple over representatives (one op per distinct result Cmder type + anomalous ops) x finish {Exec with per-position Redis errors, Exec with per-position transport errors, Discard}; B: every sequence of <=3 (4) curated commands on key a (+b) x preset type of a x {Pipeline, TxPipeline} x {object+Exec, Pipelined(fn)}; C: curated sequences of <=2 (3) x transaction outcomes {WATCH abort by another session, WATCH of an untouched key, nil to EXEC, error to EXEC, unknown command, connection broken after j commands}. non-trivial = sequence of >=2 commands, or any failed transaction"
		if raw, ok := r.ReplayPayload(); ok {
			var probe struct {
				Part string `json:"part"`
			}
			if err := json.Unmarshal(raw, &probe); err != nil {
				panic(err)
			}
			if probe.Part == "gen" {
				var c c41genCase
				json.Unmarshal(raw, &c)
				c41runGen(r, c)
			} else {
				var c c41curCase
				json.Unmarshal(raw, &c)
				c41runCur(r, c)
			}
			return
		}
		r.Assume("replies are produced by the fake server simredis and decoded by the real RESP decoder; the reference model of SET/GET/INCR/APPEND/DEL/EXISTS/LPUSH/LLEN/HSET/HGET/STRLEN in this file is written from the Redis command reference")
		r.Assume("weak reading for failed transactions: Exec must return TxFailedErr / the EXEC error, and no Cmder may report success (Err()==nil); which error the Cmders carry is only recorded as an outcome")
		r.Assume("a queueing method may record 0 commands when it also records 0 Cmders (e.g. Do() without arguments)")

		item := 0
		// ---------------- part B and C first (cheap)
		maxB := vrun.Pick(r, 3, 4)
		maxC := vrun.Pick(r, 2, 3)
		r.Bounds["curated_ops"] = c41curated
		r.Bounds["curated_max_len"] = maxB
		r.Bounds["tx_outcome_max_len"] = maxC
		var seqs [][]string
		var gen func(p []string, max int)
		gen = func(p []string, max int) {
			seqs = append(seqs, append([]string{}, p...))
			if len(p) == max {
				return
			}
			for _, o := range c41curated {
				gen(append(p, o), max)
			}
		}
		gen(nil, maxB)
		for _, seq := range seqs {
			item++
			if !r.Mine(item) {
				continue
			}
			if r.TimeUp() {
				return
			}
			for _, kind := range []string{"pipe", "tx"} {
				for _, entry := range []string{"object", "fn"} {
					for _, preset := range []string{"", "str", "list", "hash"} {
						c := c41curCase{Part: "cur", Kind: kind, Entry: entry, Preset: preset, Ops: seq}
						key := fmt.Sprintf("%+v", c)
						r.StateStr(key)
						if len(seq) >= 2 {
							r.NonTrivialStr(key)
						}
						c41runCur(r, c)
					}
				}
			}
			if len(seq) > maxC {
				continue
			}
			outcomes := []string{"watch-abort", "watch-other-key", "exec-nil", "exec-err", "unknown-cmd"}
			for j := 0; j <= len(seq)+1; j++ {
				outcomes = append(outcomes, "fail@"+strconv.Itoa(j))
			}
			for _, oc := range outcomes {
				for _, kind := range []string{"pipe", "tx"} {
					if kind == "pipe" && (strings.HasPrefix(oc, "watch") || strings.HasPrefix(oc, "exec")) {
						continue
					}
					if kind == "pipe" && oc == "fail@"+strconv.Itoa(len(seq)+1) {
						continue // a plain pipeline has no MULTI/EXEC positions
					}
					if len(seq) == 0 && oc != "unknown-cmd" {
						continue
					}
					for _, entry := range []string{"object", "fn"} {
						for _, preset := range []string{"", "list"} {
							c := c41curCase{Part: "cur", Kind: kind, Entry: entry, Preset: preset, Ops: seq, Outcome: oc}
							key := fmt.Sprintf("%+v", c)
							r.StateStr(key)
							r.NonTrivialStr(key)
							if r.WantSample() && len(seq) == 2 {
								r.Sample(c)
							}
							c41runCur(r, c)
						}
					}
				}
			}
		}

		// ---------------- part A
		maxA := vrun.Pick(r, 2, 3)
		r.Bounds["generic_max_len"] = maxA
		for _, kind := range []string{"pipe", "tx"} {
			all, first, reps := c41ops(r, kind)
			pairAlpha := vrun.Pick(r, first, all) // quick: pairs over the first usable variant of every method; thorough: over every variant
			r.Bounds["generic_pair_alphabet"] = vrun.Pick(r, "first usable argument variant of every method", "every distinct argument variant of every method")
			r.Bounds["generic_triple_alphabet"] = "representatives: one op per distinct result Cmder type + every op with an anomalous queue delta"
			finishes := []string{"rediserr", "transport", "discard"}
			run := func(seq []c41opRef) {
				for _, f := range finishes {
					c41runGen(r, c41genCase{Part: "gen", Kind: kind, Ops: seq, Finish: f})
				}
			}
			run(nil)
			for _, a := range all { // singles: every variant
				item++
				if !r.Mine(item) {
					continue
				}
				run([]c41opRef{a})
				r.AddStates(kind+"/1/"+a.String(), int64(len(finishes)))
			}
			for _, a := range pairAlpha {
				item++
				if !r.Mine(item) {
					continue
				}
				if r.TimeUp() {
					return
				}
				for _, b := range pairAlpha {
					run([]c41opRef{a, b})
				}
				r.AddStates(kind+"/2/"+a.String(), int64(len(pairAlpha))*int64(len(finishes)))
				r.NonTrivialStr(kind, a.String())
			}
			if maxA >= 3 {
				for _, a := range reps {
					item++
					if !r.Mine(item) {
						continue
					}
					for _, b := range reps {
						if r.TimeUp() {
							return
						}
						for _, c := range reps {
							run([]c41opRef{a, b, c})
						}
					}
					r.AddStates(kind+"/3/"+a.String(), int64(len(reps))*int64(len(reps))*int64(len(finishes)))
					r.NonTrivialStr(kind, "3", a.String())
				}
			}
		}
	})
}
