//go:build verif

package rueidishook

// C43 - hooks intercept every request path.
//
// A recording fake rueidis.Client (written here, not the gomock one) is wrapped by 1..3 layers of WithHook with
// recording hooks that either pass the call through to the client they are given or answer with their own
// distinguishable result. Every method of rueidis.Client / rueidis.DedicatedClient (enumerated by reflection over the
// interface types, canned arguments by parameter type) is called on the wrapped client and on every client that can
// be derived from it through Dedicated(fn), Dedicate() and Nodes() (derivation paths up to a small depth).
//
// Oracle (independent of hook.go, from the property statement): a request method called once produces exactly one
// invocation of each hook layer from the outermost layer down to the first layer that replaces the result (or down
// to the fake inner client that corresponds to the derivation path when every layer passes through), with the
// caller's ctx / command / ttl / callback; the caller receives exactly the result produced by that last element of
// the chain; non-request methods reach the corresponding inner object without any hook invocation.

import (
	"context"
	"encoding/json"
	"fmt"
	"reflect"
	"sort"
	"strings"
	"testing"
	"time"

	"github.com/redis/rueidis"
	"github.com/redis/rueidis/vshim/simredis"
	"github.com/redis/rueidis/vshim/vrun"
)

// ---------------------------------------------------------------- world / log

type c43err struct {
	id     int
	origin string
}

func (e *c43err) Error() string { return fmt.Sprintf("c43err#%d@%s", e.id, e.origin) }

type c43ev struct {
	Who    string // "hook:h1" | "inner:root/N:a/D"
	Method string
	Ctx    context.Context
	Args   string
	Made   []error // unique errors this element produced as its own result (nil for a passing hook)
}

func (e c43ev) String() string {
	return fmt.Sprintf("%s.%s(ctx=%v %s)", e.Who, e.Method, c43ctxName(e.Ctx), e.Args)
}

type c43ctxKey struct{}

func c43ctxName(ctx context.Context) string {
	if ctx == nil {
		return "<nil>"
	}
	if v, ok := ctx.Value(c43ctxKey{}).(string); ok {
		return v
	}
	return "<foreign ctx>"
}

type c43world struct {
	log     []c43ev
	nerr    int
	ncmd    int
	nctx    int
	builder rueidis.Builder
	shared  bool // inner clients hand out the same Nodes() map on every call
}

func (w *c43world) newErr(origin string) *c43err {
	w.nerr++
	return &c43err{id: w.nerr, origin: origin}
}

func (w *c43world) ev(who, method string, ctx context.Context, args string, made ...error) {
	w.log = append(w.log, c43ev{Who: who, Method: method, Ctx: ctx, Args: args, Made: made})
}

func c43fpCmd(c rueidis.Completed) string {
	s := c.Commands()
	if len(s) == 0 {
		return "<empty>"
	}
	return fmt.Sprintf("%s@%p", strings.Join(s, " "), &s[0])
}

func c43fpMulti(m []rueidis.Completed) string {
	p := make([]string, len(m))
	for i, c := range m {
		p[i] = c43fpCmd(c)
	}
	return fmt.Sprintf("%d[%s]", len(m), strings.Join(p, ", "))
}

func c43fpCache(c rueidis.Cacheable, ttl time.Duration) string {
	return c43fpCmd(rueidis.Completed(c)) + "/ttl=" + ttl.String()
}

func c43fpMultiCache(m []rueidis.CacheableTTL) string {
	p := make([]string, len(m))
	for i, c := range m {
		p[i] = c43fpCache(c.Cmd, c.TTL)
	}
	return fmt.Sprintf("%d[%s]", len(m), strings.Join(p, ", "))
}

// ---------------------------------------------------------------- fake inner clients

// c43core holds what client, node clients and dedicated clients have in common.
type c43core struct {
	w    *c43world
	name string
}

func (c *c43core) who() string { return "inner:" + c.name }

func (c *c43core) B() rueidis.Builder {
	c.w.ev(c.who(), "B", nil, "")
	return c.w.builder
}

func (c *c43core) Do(ctx context.Context, cmd rueidis.Completed) rueidis.RedisResult {
	e := c.w.newErr(c.who() + ".Do")
	c.w.ev(c.who(), "Do", ctx, c43fpCmd(cmd), e)
	return rueidis.NewErrorResult(e)
}

func (c *c43core) DoMulti(ctx context.Context, multi ...rueidis.Completed) []rueidis.RedisResult {
	ret := make([]rueidis.RedisResult, len(multi))
	made := make([]error, len(multi))
	for i := range multi {
		made[i] = c.w.newErr(fmt.Sprintf("%s.DoMulti[%d]", c.who(), i))
		ret[i] = rueidis.NewErrorResult(made[i])
	}
	c.w.ev(c.who(), "DoMulti", ctx, c43fpMulti(multi), made...)
	return ret
}

func (c *c43core) Receive(ctx context.Context, subscribe rueidis.Completed, fn func(msg rueidis.PubSubMessage)) error {
	e := c.w.newErr(c.who() + ".Receive")
	c.w.ev(c.who(), "Receive", ctx, c43fpCmd(subscribe), e)
	if fn != nil {
		fn(rueidis.PubSubMessage{Message: c.who()})
	}
	return e
}

func (c *c43core) Close() { c.w.ev(c.who(), "Close", nil, "") }

type c43inner struct {
	c43core
	kids    []*c43inner
	nodemap map[string]rueidis.Client
}

var _ rueidis.Client = (*c43inner)(nil)

func (c *c43inner) DoCache(ctx context.Context, cmd rueidis.Cacheable, ttl time.Duration) rueidis.RedisResult {
	e := c.w.newErr(c.who() + ".DoCache")
	c.w.ev(c.who(), "DoCache", ctx, c43fpCache(cmd, ttl), e)
	return rueidis.NewErrorResult(e)
}

func (c *c43inner) DoMultiCache(ctx context.Context, multi ...rueidis.CacheableTTL) []rueidis.RedisResult {
	ret := make([]rueidis.RedisResult, len(multi))
	made := make([]error, len(multi))
	for i := range multi {
		made[i] = c.w.newErr(fmt.Sprintf("%s.DoMultiCache[%d]", c.who(), i))
		ret[i] = rueidis.NewErrorResult(made[i])
	}
	c.w.ev(c.who(), "DoMultiCache", ctx, c43fpMultiCache(multi), made...)
	return ret
}

func (c *c43inner) DoStream(ctx context.Context, cmd rueidis.Completed) rueidis.RedisResultStream {
	e := c.w.newErr(c.who() + ".DoStream")
	c.w.ev(c.who(), "DoStream", ctx, c43fpCmd(cmd), e)
	return rueidis.NewErrorResultStream(e)
}

func (c *c43inner) DoMultiStream(ctx context.Context, multi ...rueidis.Completed) rueidis.MultiRedisResultStream {
	e := c.w.newErr(c.who() + ".DoMultiStream")
	c.w.ev(c.who(), "DoMultiStream", ctx, c43fpMulti(multi), e)
	return rueidis.NewErrorResultStream(e)
}

func (c *c43inner) Dedicated(fn func(rueidis.DedicatedClient) error) error {
	c.w.ev(c.who(), "Dedicated", nil, "")
	return fn(&c43ded{c43core: c43core{w: c.w, name: c.name + "/D"}})
}

func (c *c43inner) Dedicate() (rueidis.DedicatedClient, func()) {
	c.w.ev(c.who(), "Dedicate", nil, "")
	d := &c43ded{c43core: c43core{w: c.w, name: c.name + "/D"}}
	return d, func() { c.w.ev(d.who(), "cancel", nil, "") }
}

func (c *c43inner) Nodes() map[string]rueidis.Client {
	c.w.ev(c.who(), "Nodes", nil, "")
	if c.kids == nil {
		for _, k := range []string{"a", "b"} {
			c.kids = append(c.kids, &c43inner{c43core: c43core{w: c.w, name: c.name + "/N:" + k}})
		}
	}
	if c.w.shared {
		// the interface does not promise a fresh map; e.g. a gomock client with Return(m).AnyTimes() hands out the same map
		if c.nodemap == nil {
			c.nodemap = map[string]rueidis.Client{"a": c.kids[0], "b": c.kids[1]}
		}
		return c.nodemap
	}
	return map[string]rueidis.Client{"a": c.kids[0], "b": c.kids[1]}
}

func (c *c43inner) Mode() rueidis.ClientMode {
	c.w.ev(c.who(), "Mode", nil, "")
	return rueidis.ClientMode("mode-of-" + c.name)
}

type c43ded struct {
	c43core
	chans []<-chan error
}

var _ rueidis.DedicatedClient = (*c43ded)(nil)

func (d *c43ded) SetPubSubHooks(hooks rueidis.PubSubHooks) <-chan error {
	d.w.ev(d.who(), "SetPubSubHooks", nil, "")
	if hooks.OnMessage != nil {
		hooks.OnMessage(rueidis.PubSubMessage{Message: d.who()})
	}
	ch := make(chan error, 1)
	d.chans = append(d.chans, ch)
	return ch
}

func (d *c43ded) SetOnInvalidations(fn func([]rueidis.RedisMessage)) <-chan error {
	d.w.ev(d.who(), "SetOnInvalidations", nil, "")
	if fn != nil {
		fn(nil)
	}
	ch := make(chan error, 1)
	d.chans = append(d.chans, ch)
	return ch
}

// ---------------------------------------------------------------- recording hook

type c43hook struct {
	w       *c43world
	name    string
	replace bool
}

var _ Hook = (*c43hook)(nil)

func (h *c43hook) who() string { return "hook:" + h.name }

func (h *c43hook) Do(client rueidis.Client, ctx context.Context, cmd rueidis.Completed) rueidis.RedisResult {
	if h.replace {
		e := h.w.newErr(h.who() + ".Do")
		h.w.ev(h.who(), "Do", ctx, c43fpCmd(cmd), e)
		return rueidis.NewErrorResult(e)
	}
	h.w.ev(h.who(), "Do", ctx, c43fpCmd(cmd))
	return client.Do(ctx, cmd)
}

func (h *c43hook) DoMulti(client rueidis.Client, ctx context.Context, multi ...rueidis.Completed) []rueidis.RedisResult {
	if h.replace {
		ret := make([]rueidis.RedisResult, len(multi))
		made := make([]error, len(multi))
		for i := range multi {
			made[i] = h.w.newErr(fmt.Sprintf("%s.DoMulti[%d]", h.who(), i))
			ret[i] = rueidis.NewErrorResult(made[i])
		}
		h.w.ev(h.who(), "DoMulti", ctx, c43fpMulti(multi), made...)
		return ret
	}
	h.w.ev(h.who(), "DoMulti", ctx, c43fpMulti(multi))
	return client.DoMulti(ctx, multi...)
}

func (h *c43hook) DoCache(client rueidis.Client, ctx context.Context, cmd rueidis.Cacheable, ttl time.Duration) rueidis.RedisResult {
	if h.replace {
		e := h.w.newErr(h.who() + ".DoCache")
		h.w.ev(h.who(), "DoCache", ctx, c43fpCache(cmd, ttl), e)
		return rueidis.NewErrorResult(e)
	}
	h.w.ev(h.who(), "DoCache", ctx, c43fpCache(cmd, ttl))
	return client.DoCache(ctx, cmd, ttl)
}

func (h *c43hook) DoMultiCache(client rueidis.Client, ctx context.Context, multi ...rueidis.CacheableTTL) []rueidis.RedisResult {
	if h.replace {
		ret := make([]rueidis.RedisResult, len(multi))
		made := make([]error, len(multi))
		for i := range multi {
			made[i] = h.w.newErr(fmt.Sprintf("%s.DoMultiCache[%d]", h.who(), i))
			ret[i] = rueidis.NewErrorResult(made[i])
		}
		h.w.ev(h.who(), "DoMultiCache", ctx, c43fpMultiCache(multi), made...)
		return ret
	}
	h.w.ev(h.who(), "DoMultiCache", ctx, c43fpMultiCache(multi))
	return client.DoMultiCache(ctx, multi...)
}

func (h *c43hook) Receive(client rueidis.Client, ctx context.Context, subscribe rueidis.Completed, fn func(msg rueidis.PubSubMessage)) error {
	if h.replace {
		e := h.w.newErr(h.who() + ".Receive")
		h.w.ev(h.who(), "Receive", ctx, c43fpCmd(subscribe), e)
		if fn != nil {
			fn(rueidis.PubSubMessage{Message: h.who()})
		}
		return e
	}
	h.w.ev(h.who(), "Receive", ctx, c43fpCmd(subscribe))
	return client.Receive(ctx, subscribe, fn)
}

func (h *c43hook) DoStream(client rueidis.Client, ctx context.Context, cmd rueidis.Completed) rueidis.RedisResultStream {
	if h.replace {
		e := h.w.newErr(h.who() + ".DoStream")
		h.w.ev(h.who(), "DoStream", ctx, c43fpCmd(cmd), e)
		return rueidis.NewErrorResultStream(e)
	}
	h.w.ev(h.who(), "DoStream", ctx, c43fpCmd(cmd))
	return client.DoStream(ctx, cmd)
}

func (h *c43hook) DoMultiStream(client rueidis.Client, ctx context.Context, multi ...rueidis.Completed) rueidis.MultiRedisResultStream {
	if h.replace {
		e := h.w.newErr(h.who() + ".DoMultiStream")
		h.w.ev(h.who(), "DoMultiStream", ctx, c43fpMulti(multi), e)
		return rueidis.NewErrorResultStream(e)
	}
	h.w.ev(h.who(), "DoMultiStream", ctx, c43fpMulti(multi))
	return client.DoMultiStream(ctx, multi...)
}

// ---------------------------------------------------------------- cases

type c43case struct {
	Replace    []bool   `json:"replace"`     // one entry per hook layer, index 0 = innermost layer h1
	Shared     bool     `json:"shared_map"`  // inner clients return the same Nodes() map on every call
	NodesCalls int      `json:"nodes_calls"` // Nodes() is called this many times at every "N:x" step, the client is taken from the last map
	Path       []string `json:"path"`        // derivation steps: "N:a" "N:b" "Dedicated" "Dedicate"
	Method     string   `json:"method"`
	NArgs      int      `json:"nargs"`              // length of the variadic argument, if any
	CtxDone    bool     `json:"ctx_done,omitempty"` // the caller's context is already cancelled when the call is made
}

var c43requestMethods = map[string]bool{"Do": true, "DoMulti": true, "DoCache": true, "DoMultiCache": true, "Receive": true, "DoStream": true, "DoMultiStream": true}
var c43derivations = map[string]bool{"Dedicated": true, "Dedicate": true, "Nodes": true}
var c43plain = map[string]bool{"B": true, "Close": true, "Mode": true, "SetPubSubHooks": true, "SetOnInvalidations": true}

func c43pathKind(path []string) string {
	if len(path) == 0 {
		return "client"
	}
	p := make([]string, len(path))
	for i, s := range path {
		if strings.HasPrefix(s, "N:") {
			p[i] = "Nodes()[x]"
		} else {
			p[i] = s
		}
	}
	return strings.Join(p, ".")
}

func c43innerName(path []string) string {
	n := "root"
	for _, s := range path {
		if strings.HasPrefix(s, "N:") {
			n += "/" + s
		} else {
			n += "/D"
		}
	}
	return n
}

type c43probe struct {
	w        *c43world
	ctx      context.Context
	fnMsgs   []string // messages received by the caller's Receive / OnMessage callback
	invCalls int      // caller's SetOnInvalidations callback invocations
	dedErr   error
}

var (
	c43tCtx      = reflect.TypeOf((*context.Context)(nil)).Elem()
	c43tCmd      = reflect.TypeOf(rueidis.Completed{})
	c43tCmds     = reflect.TypeOf([]rueidis.Completed{})
	c43tCache    = reflect.TypeOf(rueidis.Cacheable{})
	c43tCaches   = reflect.TypeOf([]rueidis.CacheableTTL{})
	c43tDur      = reflect.TypeOf(time.Duration(0))
	c43tRecvFn   = reflect.TypeOf((func(rueidis.PubSubMessage))(nil))
	c43tHooks    = reflect.TypeOf(rueidis.PubSubHooks{})
	c43tInvFn    = reflect.TypeOf((func([]rueidis.RedisMessage))(nil))
	c43tDedFn    = reflect.TypeOf((func(rueidis.DedicatedClient) error)(nil))
	c43tClient   = reflect.TypeOf((*rueidis.Client)(nil)).Elem()
	c43tDedicate = reflect.TypeOf((*rueidis.DedicatedClient)(nil)).Elem()
)

func (p *c43probe) cmd(method string) rueidis.Completed {
	p.w.ncmd++
	if method == "Receive" {
		return p.w.builder.Subscribe().Channel(fmt.Sprintf("ch%d", p.w.ncmd)).Build()
	}
	return p.w.builder.Get().Key(fmt.Sprintf("k%d", p.w.ncmd)).Build()
}

func (p *c43probe) cacheable() rueidis.Cacheable {
	p.w.ncmd++
	return p.w.builder.Get().Key(fmt.Sprintf("k%d", p.w.ncmd)).Cache()
}

// args builds canned arguments by parameter type and returns them with the fingerprint the hooks must see.
func (p *c43probe) args(mt reflect.Type, method string, nargs int) (in []reflect.Value, fp string, ok bool, unknown string) {
	var fps []string
	for i := 0; i < mt.NumIn(); i++ {
		t := mt.In(i)
		switch {
		case t == c43tCtx:
			in = append(in, reflect.ValueOf(p.ctx))
		case t == c43tCmd:
			c := p.cmd(method)
			fps = append(fps, c43fpCmd(c))
			in = append(in, reflect.ValueOf(c))
		case t == c43tCmds && mt.IsVariadic() && i == mt.NumIn()-1:
			m := make([]rueidis.Completed, nargs)
			for j := range m {
				m[j] = p.cmd(method)
			}
			fps = append(fps, c43fpMulti(m))
			for j := range m {
				in = append(in, reflect.ValueOf(m[j]))
			}
		case t == c43tCache:
			// fingerprint is completed together with the ttl that follows
			c := p.cacheable()
			fps = append(fps, c43fpCmd(rueidis.Completed(c)))
			in = append(in, reflect.ValueOf(c))
		case t == c43tDur:
			d := 7*time.Second + time.Duration(p.w.ncmd)*time.Millisecond
			fps = append(fps, "ttl="+d.String())
			in = append(in, reflect.ValueOf(d))
		case t == c43tCaches && mt.IsVariadic() && i == mt.NumIn()-1:
			m := make([]rueidis.CacheableTTL, nargs)
			for j := range m {
				m[j] = rueidis.CT(p.cacheable(), time.Duration(j+3)*time.Second)
			}
			fps = append(fps, c43fpMultiCache(m))
			for j := range m {
				in = append(in, reflect.ValueOf(m[j]))
			}
		case t == c43tRecvFn:
			in = append(in, reflect.ValueOf(func(m rueidis.PubSubMessage) { p.fnMsgs = append(p.fnMsgs, m.Message) }))
		case t == c43tHooks:
			in = append(in, reflect.ValueOf(rueidis.PubSubHooks{OnMessage: func(m rueidis.PubSubMessage) { p.fnMsgs = append(p.fnMsgs, m.Message) }}))
		case t == c43tInvFn:
			in = append(in, reflect.ValueOf(func([]rueidis.RedisMessage) { p.invCalls++ }))
		case t == c43tDedFn:
			p.dedErr = p.w.newErr("caller's Dedicated callback")
			in = append(in, reflect.ValueOf(func(rueidis.DedicatedClient) error { return p.dedErr }))
		default:
			return nil, "", false, t.String()
		}
	}
	fp = strings.Join(fps, "/")
	return in, fp, true, ""
}

// c43results flattens the returned values into a list of errors (identity is what is compared).
func c43results(out []reflect.Value) (errs []error, extra []any) {
	for _, o := range out {
		switch v := o.Interface().(type) {
		case rueidis.RedisResult:
			errs = append(errs, v.Error())
		case []rueidis.RedisResult:
			for _, x := range v {
				errs = append(errs, x.Error())
			}
		case rueidis.RedisResultStream:
			errs = append(errs, v.Error())
		case error:
			errs = append(errs, v)
		case nil:
			if o.Type().Implements(reflect.TypeOf((*error)(nil)).Elem()) {
				errs = append(errs, nil)
			} else {
				extra = append(extra, nil)
			}
		default:
			extra = append(extra, v)
		}
	}
	return
}

func c43sameErrs(a, b []error) bool {
	if len(a) != len(b) {
		return false
	}
	for i := range a {
		if a[i] != b[i] {
			return false
		}
	}
	return true
}

func c43evList(l []c43ev) string {
	p := make([]string, len(l))
	for i, e := range l {
		p[i] = e.String()
	}
	return "[" + strings.Join(p, " ; ") + "]"
}

// c43check runs one case on fresh objects.
func c43check(r *vrun.Run, c c43case) {
	r.Evaluations++
	w := &c43world{shared: c.Shared}
	w.builder = rueidis.NewVerifSimClient(simredis.New(), rueidis.ClientOption{DisableCache: true}).B()
	root := &c43inner{c43core: c43core{w: w, name: "root"}}
	var client rueidis.Client = root
	for i, rep := range c.Replace {
		client = WithHook(client, &c43hook{w: w, name: fmt.Sprintf("h%d", i+1), replace: rep})
	}
	env := "fresh Nodes() maps"
	if c.Shared {
		env = "inner returns the same Nodes() map on every call"
	}
	kind := c43pathKind(c.Path)
	fail := func(sig, format string, a ...any) {
		r.Violate(sig, fmt.Sprintf("case %+v\n", c)+fmt.Sprintf(format, a...), c)
	}

	// ---- derive the subject along the path
	var body func(subject any, rest []string)
	reached := false
	var cancels []func()
	body = func(subject any, rest []string) {
		if len(rest) == 0 {
			reached = true
			c43call(r, w, c, subject, kind, env, fail)
			return
		}
		cl, ok := subject.(rueidis.Client)
		if !ok {
			fail(kind+": derivation impossible", "subject %T is not a rueidis.Client at step %q", subject, rest[0])
			return
		}
		switch step := rest[0]; {
		case strings.HasPrefix(step, "N:"):
			var m map[string]rueidis.Client
			for i := 0; i < c.NodesCalls; i++ {
				m = cl.Nodes()
			}
			n, ok := m[step[2:]]
			if !ok || n == nil {
				fail(kind+": Nodes() lost an address", "keys of the returned map: %v, wanted %q", c43keys(m), step[2:])
				return
			}
			body(n, rest[1:])
		case step == "Dedicated":
			called := 0
			sentinel := w.newErr("path callback")
			err := cl.Dedicated(func(d rueidis.DedicatedClient) error {
				called++
				body(d, rest[1:])
				return sentinel
			})
			if called != 1 {
				fail(kind+": Dedicated callback not called exactly once", "called %d times", called)
			}
			if err != sentinel {
				fail(kind+": Dedicated does not return the callback's error", "got %v want %v", err, sentinel)
			}
		case step == "Dedicate":
			d, cancel := cl.Dedicate()
			cancels = append(cancels, cancel)
			body(d, rest[1:])
		default:
			panic("c43: bad path step " + step)
		}
	}
	if p, site := vrun.Catch(func() { body(client, c.Path) }); p != nil {
		fail(fmt.Sprintf("%s.%s: panic in %s", kind, c.Method, site), "panic: %v", p)
		r.Outcome("panic")
		return
	}
	if !reached {
		return
	}
	// cancel functions of Dedicate must reach the inner client's cancel
	for _, cancel := range cancels {
		mark := len(w.log)
		cancel()
		n := 0
		for _, e := range w.log[mark:] {
			if strings.HasPrefix(e.Who, "inner:") && e.Method == "cancel" {
				n++
			} else {
				fail(kind+": cancel of Dedicate produced other calls", "%v", c43evList(w.log[mark:]))
			}
		}
		if n != 1 {
			fail(kind+": cancel of Dedicate does not reach the inner cancel exactly once", "inner cancel calls: %d", n)
		}
	}
}

func c43keys(m map[string]rueidis.Client) []string {
	var ks []string
	for k := range m {
		ks = append(ks, k)
	}
	sort.Strings(ks)
	return ks
}

// c43call calls c.Method on subject and checks the chain of events and the returned value.
func c43call(r *vrun.Run, w *c43world, c c43case, subject any, kind, env string, fail func(sig, format string, a ...any)) {
	mv := reflect.ValueOf(subject).MethodByName(c.Method)
	if !mv.IsValid() {
		fail(kind+"."+c.Method+": method missing on derived client", "subject %T", subject)
		return
	}
	w.nctx++
	p := &c43probe{w: w, ctx: context.WithValue(context.Background(), c43ctxKey{}, fmt.Sprintf("ctx#%d", w.nctx))}
	if c.CtxDone {
		// the hook decides what happens with a request, also with one whose context is done: it must still be consulted
		cctx, cancel := context.WithCancel(p.ctx)
		cancel()
		p.ctx = cctx
	}
	in, fp, ok, unknown := p.args(mv.Type(), c.Method, c.NArgs)
	if !ok {
		r.Cap("no canned argument for parameter type " + unknown + " of " + c.Method)
		return
	}
	mark := len(w.log)
	out := mv.Call(in)
	events := append([]c43ev{}, w.log[mark:]...)
	gotErrs, extra := c43results(out)
	innerWho := "inner:" + c43innerName(c.Path)
	layers := len(c.Replace)

	switch {
	case c43requestMethods[c.Method]:
		// expected chain: outermost hook first, down to the first replacing layer, else the inner object
		var want []c43ev
		producer := innerWho
		for l := layers - 1; l >= 0; l-- {
			who := fmt.Sprintf("hook:h%d", l+1)
			want = append(want, c43ev{Who: who, Method: c.Method, Ctx: p.ctx, Args: fp})
			if c.Replace[l] {
				producer = who
				break
			}
		}
		if producer == innerWho {
			want = append(want, c43ev{Who: innerWho, Method: c.Method, Ctx: p.ctx, Args: fp})
		}
		// per-layer invocation counts
		for l := layers - 1; l >= 0; l-- {
			who := fmt.Sprintf("hook:h%d", l+1)
			n := 0
			for _, e := range events {
				if e.Who == who {
					n++
				}
			}
			expect := 0
			for _, e := range want {
				if e.Who == who {
					expect = 1
				}
			}
			if expect == 1 && n == 0 {
				fail(fmt.Sprintf("%s.%s: request bypasses the hook", kind, c.Method), "layer %s was never invoked (%s)\nobserved chain: %s\nexpected chain: %s", who, env, c43evList(events), c43evList(want))
				r.Outcome("bypass")
				return
			}
			if n > 1 {
				sig := fmt.Sprintf("%s.%s: hook invoked more than once per call", kind, c.Method)
				if c.Shared {
					// one cause, many paths/methods: collapse
					sig = "client from a repeated Nodes() call: hook invoked more than once per call (" + env + ")"
				}
				fail(sig, "path %s method %s: layer %s invoked %d times\nobserved chain: %s\nexpected chain: %s", kind, c.Method, who, n, c43evList(events), c43evList(want))
				r.Outcome("hook-twice")
				return
			}
			if expect == 0 && n != 0 {
				fail(fmt.Sprintf("%s.%s: layer below a replacing hook was invoked", kind, c.Method), "layer %s\nobserved chain: %s\nexpected chain: %s", who, c43evList(events), c43evList(want))
				return
			}
		}
		nInner := 0
		for _, e := range events {
			if strings.HasPrefix(e.Who, "inner:") {
				nInner++
			}
		}
		if producer != innerWho && nInner != 0 {
			fail(fmt.Sprintf("%s.%s: inner client called although a hook replaced the result", kind, c.Method), "observed chain: %s", c43evList(events))
			return
		}
		if producer == innerWho && nInner != 1 {
			fail(fmt.Sprintf("%s.%s: inner client not called exactly once on pass-through", kind, c.Method), "inner calls: %d\nobserved chain: %s\nexpected chain: %s", nInner, c43evList(events), c43evList(want))
			return
		}
		if len(events) != len(want) {
			fail(fmt.Sprintf("%s.%s: call chain differs", kind, c.Method), "observed chain: %s\nexpected chain: %s", c43evList(events), c43evList(want))
			return
		}
		for i := range want {
			e := events[i]
			if e.Who != want[i].Who || e.Method != want[i].Method {
				fail(fmt.Sprintf("%s.%s: call chain differs", kind, c.Method), "observed chain: %s\nexpected chain: %s", c43evList(events), c43evList(want))
				return
			}
			if e.Ctx != want[i].Ctx {
				fail(fmt.Sprintf("%s.%s: ctx not handed through unchanged", kind, c.Method), "at %s: got %v want %v", e.Who, c43ctxName(e.Ctx), c43ctxName(p.ctx))
				return
			}
			if e.Args != want[i].Args {
				fail(fmt.Sprintf("%s.%s: arguments not handed through unchanged", kind, c.Method), "at %s: got %s want %s", e.Who, e.Args, fp)
				return
			}
		}
		last := events[len(events)-1]
		if !c43sameErrs(gotErrs, last.Made) {
			fail(fmt.Sprintf("%s.%s: returned value is not the hook's result", kind, c.Method), "caller got %v, %s produced %v\nchain: %s", gotErrs, last.Who, last.Made, c43evList(events))
			r.Outcome("result-changed")
			return
		}
		if c.Method == "Receive" {
			if len(p.fnMsgs) != 1 || p.fnMsgs[0] != producer {
				fail(fmt.Sprintf("%s.%s: callback not handed through unchanged", kind, c.Method), "caller's fn received %v, want exactly one message from %s", p.fnMsgs, producer)
				return
			}
		}
		if producer == innerWho {
			r.Outcome(fmt.Sprintf("%s/pass-through x%d", c.Method, layers))
		} else {
			r.Outcome(fmt.Sprintf("%s/replaced", c.Method))
		}

	case c43plain[c.Method]:
		if len(events) != 1 || events[0].Who != innerWho || events[0].Method != c.Method {
			fail(fmt.Sprintf("%s.%s: does not reach the inner client exactly once without hooks", kind, c.Method), "observed: %s\nexpected: [%s.%s]", c43evList(events), innerWho, c.Method)
			return
		}
		switch c.Method {
		case "Mode":
			if len(extra) != 1 || extra[0] != rueidis.ClientMode("mode-of-"+c43innerName(c.Path)) {
				fail(fmt.Sprintf("%s.Mode: value of the inner client not returned", kind), "got %v", extra)
			}
		case "SetPubSubHooks", "SetOnInvalidations":
			d := c43findDed(subject)
			if len(extra) != 1 || d == nil || len(d.chans) != 1 || extra[0] != d.chans[0] {
				fail(fmt.Sprintf("%s.%s: channel of the inner dedicated client not returned", kind, c.Method), "got %v", extra)
			}
			if c.Method == "SetPubSubHooks" && (len(p.fnMsgs) != 1 || p.fnMsgs[0] != innerWho) {
				fail(fmt.Sprintf("%s.%s: hooks not handed to the inner dedicated client", kind, c.Method), "OnMessage received %v", p.fnMsgs)
			}
			if c.Method == "SetOnInvalidations" && p.invCalls != 1 {
				fail(fmt.Sprintf("%s.%s: callback not handed to the inner dedicated client", kind, c.Method), "callback invoked %d times", p.invCalls)
			}
		}
		r.Outcome(c.Method + "/forwarded")

	case c.Method == "Dedicated":
		if len(events) != 1 || events[0].Who != innerWho || events[0].Method != "Dedicated" {
			fail(fmt.Sprintf("%s.Dedicated: inner Dedicated not called exactly once", kind), "observed: %s", c43evList(events))
			return
		}
		if len(gotErrs) != 1 || gotErrs[0] != p.dedErr {
			fail(fmt.Sprintf("%s.Dedicated: callback error not returned unchanged", kind), "got %v want %v", gotErrs, p.dedErr)
		}
		r.Outcome("Dedicated/forwarded")

	case c.Method == "Dedicate":
		if len(events) != 1 || events[0].Who != innerWho || events[0].Method != "Dedicate" {
			fail(fmt.Sprintf("%s.Dedicate: inner Dedicate not called exactly once", kind), "observed: %s", c43evList(events))
			return
		}
		r.Outcome("Dedicate/forwarded")

	case c.Method == "Nodes":
		if len(events) != 1 || events[0].Who != innerWho || events[0].Method != "Nodes" {
			fail(fmt.Sprintf("%s.Nodes: inner Nodes not called exactly once", kind), "observed: %s", c43evList(events))
			return
		}
		m, _ := out[0].Interface().(map[string]rueidis.Client)
		if ks := c43keys(m); len(ks) != 2 || ks[0] != "a" || ks[1] != "b" {
			fail(fmt.Sprintf("%s.Nodes: addresses not preserved", kind), "keys %v", ks)
		}
		r.Outcome("Nodes/forwarded")

	default:
		// a method this harness does not know (added to the interface later): it must at least reach the inner object
		r.Cap("unclassified interface method " + c.Method + " (only checked to reach the inner client)")
		n := 0
		for _, e := range events {
			if e.Who == innerWho {
				n++
			}
		}
		if n == 0 {
			fail(fmt.Sprintf("%s.%s: unknown method never reaches the inner client", kind, c.Method), "observed: %s", c43evList(events))
		}
	}
}

// c43findDed digs the fake dedicated client out of the wrappers (white-box: dedicated.client.DedicatedClient).
func c43findDed(subject any) *c43ded {
	for i := 0; i < 256; i++ {
		switch v := subject.(type) {
		case *c43ded:
			return v
		case *dedicated:
			subject = v.client
		case *extended:
			subject = v.DedicatedClient
		default:
			return nil
		}
	}
	return nil
}

func c43ifaceMethods(t reflect.Type) []string {
	var n []string
	for i := 0; i < t.NumMethod(); i++ {
		n = append(n, t.Method(i).Name)
	}
	sort.Strings(n)
	return n
}

func TestVerif_C43(t *testing.T) {
	vrun.Main(t, "C43", func(r *vrun.Run) {
		r.Rule = "every method of rueidis.Client / rueidis.DedicatedClient (reflection over the interface types; variadic lengths 0..2) x every derivation path over {Nodes()[a], Nodes()[b], Dedicated, Dedicate} up to the depth bound x 1..L hook layers x every pass-through/replace assignment x {fresh, shared} Nodes() maps x Nodes() called once or twice per step. non-trivial = derived client (non-empty path) or more than one hook layer"
		if raw, ok := r.ReplayPayload(); ok {
			var c c43case
			if err := json.Unmarshal(raw, &c); err != nil {
				panic(err)
			}
			c43check(r, c)
			return
		}
		maxDepth := vrun.Pick(r, 2, 3)
		maxLayers := vrun.Pick(r, 2, 3)
		r.Bounds["max_derivation_depth"] = maxDepth
		r.Bounds["max_hook_layers"] = maxLayers
		r.Bounds["variadic_lengths"] = []int{0, 1, 2}
		r.Bounds["nodes_calls_per_step"] = []int{1, 2}
		clientMethods := c43ifaceMethods(c43tClient)
		dedMethods := c43ifaceMethods(c43tDedicate)
		r.Bounds["client_methods"] = clientMethods
		r.Bounds["dedicated_methods"] = dedMethods
		for _, m := range append(append([]string{}, clientMethods...), dedMethods...) {
			if !c43requestMethods[m] && !c43derivations[m] && !c43plain[m] {
				r.Note("interface method not known to the harness: " + m)
			}
		}
		for m := range c43requestMethods {
			found := false
			for _, x := range clientMethods {
				found = found || x == m
			}
			if !found {
				r.Note("request method of the property statement missing from rueidis.Client: " + m)
			}
		}
		r.Assume("the fake inner client, its node clients and dedicated clients (c43inner/c43ded) log faithfully; hooks written in the harness either call the same method on the client they are given (pass-through) or return their own result")
		r.Assume("identity of results is compared through the error carried by RedisResult / RedisResultStream (unique error values per producer)")
		r.Assume("'shared map' environment: the Client interface does not promise that Nodes() returns a fresh map; all real clients in /repo do, gomock clients with Return(m).AnyTimes() do not")

		// derivation paths
		var paths [][]string
		var gen func(p []string, dedicated bool)
		gen = func(p []string, dedicated bool) {
			paths = append(paths, append([]string{}, p...))
			if dedicated || len(p) == maxDepth {
				return
			}
			for _, s := range []string{"N:a", "N:b"} {
				gen(append(p, s), false)
			}
			for _, s := range []string{"Dedicated", "Dedicate"} {
				gen(append(p, s), true)
			}
		}
		gen(nil, false)
		r.Bounds["paths"] = len(paths)

		item := 0
		for _, path := range paths {
			isDed := len(path) > 0 && !strings.HasPrefix(path[len(path)-1], "N:")
			hasNodes := false
			for _, s := range path {
				hasNodes = hasNodes || strings.HasPrefix(s, "N:")
			}
			methods := clientMethods
			mtype := c43tClient
			if isDed {
				methods, mtype = dedMethods, c43tDedicate
			}
			for layers := 1; layers <= maxLayers; layers++ {
				for mask := 0; mask < 1<<layers; mask++ {
					rep := make([]bool, layers)
					for l := range rep {
						rep[l] = mask>>l&1 == 1
					}
					for _, shared := range []bool{false, true} {
						for _, ncalls := range []int{1, 2} {
							if !hasNodes && (shared || ncalls == 2) {
								continue // environment variants only matter when the path goes through Nodes()
							}
							for _, m := range methods {
								mm, _ := mtype.MethodByName(m)
								nargsList := []int{0}
								if mm.Type.IsVariadic() {
									nargsList = []int{0, 1, 2}
								}
								for _, na := range nargsList {
									item++
									if !r.Mine(item) {
										continue
									}
									if r.TimeUp() {
										return
									}
									for _, done := range []bool{false, true} {
										if done && !c43requestMethods[m] {
											continue
										}
										c := c43case{Replace: rep, Shared: shared, NodesCalls: ncalls, Path: path, Method: m, NArgs: na, CtxDone: done}
										key := fmt.Sprintf("%+v", c)
										r.StateStr(key)
										if len(path) > 0 || layers > 1 {
											r.NonTrivialStr(key)
										}
										if r.WantSample() && len(path) > 0 && layers > 1 && c43requestMethods[m] && !done {
											r.Sample(c)
										}
										c43check(r, c)
									}
								}
							}
						}
					}
				}
			}
		}
	})
}
