//go:build verif

package rueidisprob

// C36 — Counting Bloom filters track multiplicities without false negatives.
//
// Bounded exhaustive enumeration of add/remove/query histories of the Redis backed counting Bloom filter
// (countingbloomfilter.go) over a grid of configurations, against the command level fake client on the fake server
// (the real Lua scripts are executed by the mini Lua interpreter). After every step the server side hash of counters
// is inspected directly.

import (
	"context"
	"encoding/json"
	"fmt"
	"runtime/debug"
	"sort"
	"strconv"
	"strings"
	"testing"

	"github.com/redis/rueidis"
	"github.com/redis/rueidis/vshim/simredis"
	"github.com/redis/rueidis/vshim/vrun"
)

const (
	c36Add = iota
	c36AddMulti
	c36Remove
	c36RemoveMulti
	c36Exists
	c36ExistsMulti
	c36MinCount
	c36MinCountMulti
	c36Count
	c36Delete
)

var c36kindNames = []string{"Add", "AddMulti", "Remove", "RemoveMulti", "Exists", "ExistsMulti", "ItemMinCount", "ItemMinCountMulti", "Count", "Delete"}

type c36op struct {
	Kind int
	Keys []string
}

func (o c36op) String() string {
	if len(o.Keys) > 0 {
		return c36kindNames[o.Kind] + "(" + strings.Join(o.Keys, ",") + ")"
	}
	return c36kindNames[o.Kind]
}

// "c" is never added: every removal of it breaks the precondition of the property (and exercises the refusal path)
var c36alphabet = []c36op{
	{c36Add, []string{"a"}},
	{c36Add, []string{"b"}},
	{c36AddMulti, []string{"a", "b"}},
	{c36AddMulti, []string{"a", "a"}},
	{c36Remove, []string{"a"}},
	{c36Remove, []string{"b"}},
	{c36Remove, []string{"c"}},
	{c36RemoveMulti, []string{"a", "b"}},
	{c36RemoveMulti, []string{"c", "a"}},
	{c36Exists, []string{"a"}},
	{c36ExistsMulti, []string{"b", "a", "c"}},
	{c36MinCount, []string{"a"}},
	{c36MinCountMulti, []string{"b", "a", "c"}},
	{c36Count, nil},
	{c36Delete, nil},
}

type c36cfg struct {
	N    uint    `json:"n"`
	P    float64 `json:"p"`
	Name string  `json:"name"`
}

func (c c36cfg) String() string { return fmt.Sprintf("n=%d p=%v name=%q", c.N, c.P, c.Name) }

type c36payload struct {
	Cfg  c36cfg `json:"cfg"`
	Ops  []int  `json:"ops"`
	Lost int    `json:"lost,omitempty"` // 1+index of the step whose script is executed by the server but the reply lost (0 = none)
}

type c36world struct {
	srv *simredis.Server
	cl  *rueidis.VerifSimClient
}

func c36newWorld() *c36world {
	srv := simredis.New()
	// a legitimate run of the largest script here (30 hash functions x 2 items) needs fewer than 2000 steps; a k>0
	// configuration hitting the bound is reported as a machinery error below
	srv.EnableLuaMaxSteps(6000)
	return &c36world{srv: srv, cl: rueidis.NewVerifSimClient(srv, rueidis.ClientOption{DisableCache: true})}
}

func (w *c36world) wipe() {
	w.srv.Do("FLUSHALL")
	w.srv.ScriptFlush()
	w.srv.Log = nil
	w.cl.Calls = nil
	w.cl.LoseReply = nil
	w.cl.Sess.Executed, w.cl.Sess.Received = nil, nil
}

func c36hist(ops []int) string {
	var sb strings.Builder
	for i, o := range ops {
		if i > 0 {
			sb.WriteByte(' ')
		}
		sb.WriteString(c36alphabet[o].String())
	}
	return sb.String()
}

func c36kclass(k uint) string {
	if k == 0 {
		return "hashIterations=0"
	}
	return "hashIterations>0"
}

// c36snapshot reads the counters hash and the item counter straight from the fake server ("another application").
func c36snapshot(srv *simredis.Server, hashKey, counterKey string) (h map[string]string, count string) {
	h = map[string]string{}
	rep := srv.Do("HGETALL", hashKey)
	for i := 0; i+1 < len(rep.A); i += 2 {
		h[rep.A[i].S] = rep.A[i+1].S
	}
	c := srv.Do("GET", counterKey)
	count = c.S
	if c.T == '_' || c.Null {
		count = "<nil>"
	}
	return
}

func c36fmtHash(h map[string]string) string {
	ks := make([]string, 0, len(h))
	for k := range h {
		ks = append(ks, k)
	}
	sort.Strings(ks)
	var sb strings.Builder
	sb.WriteByte('{')
	for i, k := range ks {
		if i > 0 {
			sb.WriteByte(' ')
		}
		sb.WriteString(k + ":" + h[k])
	}
	sb.WriteByte('}')
	return sb.String()
}

func c36sameHash(a, b map[string]string) bool {
	if len(a) != len(b) {
		return false
	}
	for k, v := range a {
		if w, ok := b[k]; !ok || w != v {
			return false
		}
	}
	return true
}

// c36positions is the reference computation of the counter positions of an item (documented scheme: double hashing
// over the 128 bit murmur3 of the key, position i = (h1 + i*h2) mod size); duplicates are kept.
func c36positions(key string, k uint, size uint) []string {
	h1, h2 := hash([]byte(key))
	out := make([]string, 0, k)
	for i := uint(0); i < k; i++ {
		out = append(out, strconv.FormatUint((h1+uint64(i)*h2)%uint64(size), 10))
	}
	return out
}

func c36run(r *vrun.Run, w *c36world, cfg c36cfg, ops []int, outcomes bool, lost int) (nontrivial bool) {
	ctx := context.Background()
	w.wipe()
	payload := c36payload{Cfg: cfg, Ops: append([]int{}, ops...), Lost: lost}
	var cf CountingBloomFilter
	var err error
	if p, site := vrun.Catch(func() { cf, err = NewCountingBloomFilter(w.cl, cfg.Name, cfg.N, cfg.P) }); p != nil {
		r.Violate("panic in NewCountingBloomFilter at "+site, fmt.Sprintf("%v: panic %v", cfg, p), payload)
		return
	}
	if err != nil {
		return
	}
	f := cf.(*countingBloomFilter)
	k, size := f.hashIterations, f.size
	kc := c36kclass(k)
	hashKey, counterKey := f.name, f.counter
	out := func(s string) {
		if outcomes {
			r.Outcome(s)
		}
	}
	fail := func(sig, format string, a ...any) {
		lostNote := ""
		if lost > 0 {
			lostNote = fmt.Sprintf(" (the first script command of step %d was executed by the server but its reply was lost; a command flagged retryable is then re-sent, any other fails)", lost-1)
		}
		r.Violate(sig, fmt.Sprintf("config %v (size=%d, hashIterations=%d), history [%s]%s: ", cfg, size, k, c36hist(ops), lostNote)+fmt.Sprintf(format, a...), payload)
	}

	// ---- reference model: multiset of items (adds minus removals) and whether the precondition of the property
	// ("only previously added items are removed") still holds for the history so far
	net := map[string]int{}
	clean := true
	before, beforeCount := c36snapshot(w.srv, hashKey, counterKey)

	// checkPresent: bs[i] answers keys[i]; checkMin: ms[i] answers keys[i]
	checkPresent := func(what string, keys []string, bs []bool, err error) bool {
		if !clean {
			return true
		}
		owed := false
		for _, key := range keys {
			if net[key] > 0 {
				owed = true
			}
		}
		if !owed {
			return true
		}
		nontrivial = true
		if err != nil {
			fail("added item not reported present: "+what+" returns an error ("+kc+")", "%s(%v) = error %q although net multiplicities are %v and only added items were removed", what, keys, err.Error(), net)
			return false
		}
		if len(bs) != len(keys) {
			fail(what+" returns a result of the wrong length ("+kc+")", "%s(%v) = %v", what, keys, bs)
			return false
		}
		for i, key := range keys {
			if net[key] > 0 && !bs[i] {
				fail("false negative: "+what+" reports an item absent that was added more often than removed ("+kc+")", "%s(%v) = %v but %q has net multiplicity %d (model %v); server hash %s", what, keys, bs, key, net[key], net, c36fmtHash(before))
				return false
			}
		}
		return true
	}
	checkMin := func(what string, keys []string, ms []uint64, err error) bool {
		if !clean {
			return true
		}
		owed := false
		for _, key := range keys {
			if net[key] > 0 {
				owed = true
			}
		}
		if !owed {
			return true
		}
		nontrivial = true
		if err != nil {
			fail("added item not reported present: "+what+" returns an error ("+kc+")", "%s(%v) = error %q although net multiplicities are %v and only added items were removed", what, keys, err.Error(), net)
			return false
		}
		if len(ms) != len(keys) {
			fail(what+" returns a result of the wrong length ("+kc+")", "%s(%v) = %v", what, keys, ms)
			return false
		}
		for i, key := range keys {
			if uint64(net[key]) > ms[i] {
				fail(what+" reports less than the net multiplicity ("+kc+")", "%s(%v) = %v but %q has net multiplicity %d (model %v); server hash %s", what, keys, ms, key, net[key], net, c36fmtHash(before))
				return false
			}
		}
		return true
	}
	probeKeys := []string{"b", "a", "c"}

	for step, oi := range ops {
		op := c36alphabet[oi]
		name := c36kindNames[op.Kind]
		var opErr error
		var bs []bool
		var ms []uint64
		w.cl.LoseReply = nil
		if step == lost-1 {
			armed, runs0 := true, w.srv.ScriptRuns
			w.cl.LoseReply = func(argv []string) bool {
				// the first command of the step that made the server run a script body (not an EVALSHA answered NOSCRIPT)
				if armed && w.srv.ScriptRuns > runs0 {
					armed = false
					return true
				}
				return false
			}
		}
		p, site := vrun.Catch(func() {
			switch op.Kind {
			case c36Add:
				opErr = cf.Add(ctx, op.Keys[0])
			case c36AddMulti:
				opErr = cf.AddMulti(ctx, op.Keys)
			case c36Remove:
				opErr = cf.Remove(ctx, op.Keys[0])
			case c36RemoveMulti:
				opErr = cf.RemoveMulti(ctx, op.Keys)
			case c36Exists:
				var b bool
				b, opErr = cf.Exists(ctx, op.Keys[0])
				bs = []bool{b}
			case c36ExistsMulti:
				bs, opErr = cf.ExistsMulti(ctx, op.Keys)
			case c36MinCount:
				var m uint64
				m, opErr = cf.ItemMinCount(ctx, op.Keys[0])
				ms = []uint64{m}
			case c36MinCountMulti:
				ms, opErr = cf.ItemMinCountMulti(ctx, op.Keys)
			case c36Count:
				_, opErr = cf.Count(ctx)
			case c36Delete:
				opErr = cf.Delete(ctx)
			}
		})
		w.cl.LoseReply = nil
		if p != nil {
			fail("panic in "+name+" at "+site, "step %d %v: panic %v", step, op, p)
			return
		}
		if opErr != nil {
			cls := name + ": error"
			if strings.Contains(opErr.Error(), "MaxSteps") {
				if k > 0 {
					panic("harness step bound too small: " + opErr.Error())
				}
				cls = name + ": script does not terminate (aborted by the step bound of the fake server)"
			}
			out(cls)
			if r.WantSample() {
				r.Sample(map[string]any{"cfg": cfg.String(), "history": c36hist(ops), "step": step, "error": opErr.Error()})
			}
		} else {
			out(name + ": ok")
		}
		after, afterCount := c36snapshot(w.srv, hashKey, counterKey)

		// (1) no counter is ever negative (checked with and without the precondition)
		for fld, v := range after {
			n, perr := strconv.ParseInt(v, 10, 64)
			if perr != nil || n < 0 {
				fail("a counter of the server side hash becomes negative ("+kc+")", "after step %d %v the hash is %s (field %s = %q); before: %s", step, op, c36fmtHash(after), fld, v, c36fmtHash(before))
				return
			}
		}

		switch op.Kind {
		case c36Add, c36AddMulti:
			if opErr == nil {
				for _, key := range op.Keys {
					net[key]++
				}
			}
		case c36Remove, c36RemoveMulti:
			nontrivial = true
			// (2) a removal that would drive a counter of an item negative changes nothing (items are processed in
			// order; the decision is taken on the hash as it was before the call)
			if opErr == nil && k > 0 {
				work := map[string]int64{}
				for fld, v := range before {
					work[fld], _ = strconv.ParseInt(v, 10, 64)
				}
				expected := map[string]string{}
				for fld, v := range before {
					expected[fld] = v
				}
				removed, refused := 0, []string{}
				for _, key := range op.Keys {
					need := map[string]int64{}
					for _, pos := range c36positions(key, k, size) {
						need[pos]++
					}
					can := true
					for pos, c := range need {
						if work[pos] < c {
							can = false
						}
					}
					if !can {
						refused = append(refused, key)
						continue
					}
					removed++
					for pos, c := range need {
						work[pos] -= c
						expected[pos] = strconv.FormatInt(work[pos], 10)
					}
				}
				exact := c36sameHash(after, expected)
				if len(refused) > 0 {
					out(name + ": some item refused")
					wantCount := beforeCount
					if removed > 0 {
						bc, _ := strconv.ParseInt(beforeCount, 10, 64)
						wantCount = strconv.FormatInt(bc-int64(removed), 10)
					} else if beforeCount == "<nil>" {
						// DECRBY 0 on a missing counter key creates it with value 0: the value reported by Count is unchanged (0)
						if afterCount == "0" {
							wantCount = "0"
						}
					}
					if !exact || afterCount != wantCount {
						fail("a refused removal changes the filter ("+kc+")", "step %d %v: removing %v would drive a counter negative, expected hash %s count %s, got hash %s count %s (before: hash %s count %s)", step, op, refused, c36fmtHash(expected), wantCount, c36fmtHash(after), afterCount, c36fmtHash(before), beforeCount)
						return
					}
				} else if exact {
					out(name + ": all items removed, counters decremented exactly")
				} else {
					out(name + ": all items removable, counters NOT decremented exactly")
				}
			}
			if opErr != nil {
				clean = false // unknown effect: stop demanding presence (weaker reading)
			}
			for _, key := range op.Keys {
				if net[key] > 0 {
					net[key]--
				} else {
					clean = false
				}
			}
		case c36Delete:
			net = map[string]int{}
			clean = true
		}
		before, beforeCount = after, afterCount

		// (3) the answers of the operation itself
		switch op.Kind {
		case c36Exists, c36ExistsMulti:
			if !checkPresent(name, op.Keys, bs, opErr) {
				return
			}
		case c36MinCount, c36MinCountMulti:
			if !checkMin(name, op.Keys, ms, opErr) {
				return
			}
		}
		// (4) probes after every step (plain HMGET reads, they change nothing)
		if op.Kind >= c36Exists && op.Kind <= c36Count {
			// a pure read: the probes after the previous step already covered this state
		} else if clean {
			var pbs []bool
			var pms []uint64
			var e1, e2 error
			if p, site := vrun.Catch(func() {
				pbs, e1 = cf.ExistsMulti(ctx, probeKeys)
				pms, e2 = cf.ItemMinCountMulti(ctx, probeKeys)
			}); p != nil {
				fail("panic in probe at "+site, "after step %d %v: panic %v", step, op, p)
				return
			}
			if !checkPresent("ExistsMulti", probeKeys, pbs, e1) || !checkMin("ItemMinCountMulti", probeKeys, pms, e2) {
				return
			}
			out("probe: precondition holds")
		} else {
			out("probe skipped: precondition broken")
		}
	}

	// ---- epilogue: single answers against the multi answers (recorded as outcome; presence is checked as above)
	var single []bool
	var multi []bool
	var e1, e2 error
	if p, site := vrun.Catch(func() {
		for _, key := range probeKeys {
			b, e := cf.Exists(ctx, key)
			if e != nil {
				e1 = e
			}
			single = append(single, b)
			if clean && !checkPresent("Exists", []string{key}, []bool{b}, e) {
				e1 = fmt.Errorf("violation")
				return
			}
		}
		multi, e2 = cf.ExistsMulti(ctx, probeKeys)
	}); p != nil {
		fail("panic in epilogue at "+site, "panic %v", p)
		return
	}
	if e1 == nil && e2 == nil {
		if fmt.Sprint(single) == fmt.Sprint(multi) {
			out("epilogue: ExistsMulti equals the single Exists answers in input order")
		} else {
			out("epilogue: ExistsMulti DIFFERS from the single Exists answers")
		}
	}
	return
}

func TestVerif_C36(t *testing.T) {
	vrun.Main(t, "C36", func(r *vrun.Run) {
		// allocation heavy with a tiny live heap: far fewer GC cycles (bounded by a soft memory limit)
		defer debug.SetGCPercent(debug.SetGCPercent(4000))
		defer debug.SetMemoryLimit(debug.SetMemoryLimit(4 << 30))
		r.Rule = "for every (n,p) of the grid accepted by NewCountingBloomFilter: every history of 1..depth operations over the 15-operation alphabet " +
			"(adds of a,b; removals of a,b and of the never added c; queries; Count; Delete); after every step the server side hash and counter key are " +
			"snapshotted and, while the precondition holds, ExistsMulti/ItemMinCountMulti([b,a,c]) are probed. State = (configuration, history). " +
			"For (n=10,p=0.001) and (n=1,p=0.5) every history shorter than the maximum is also run once per adding/removing step with the reply of that step's script command lost after execution (retryable commands are re-sent, others fail: the client's retry rule). " +
			"Non-trivial = the history contains a removal or a query that owes an answer for an item with positive net multiplicity."
		r.Assume("the mini Lua interpreter and the fake server execute EVAL/EVALSHA, HINCRBY, HGET, HMGET, INCRBY, DECRBY, DEL, GET like Redis 7")
		r.Assume("counter positions of an item follow the documented double hashing scheme (h1 + i*h2) mod size over murmur3-128 (package function hash is trusted)")
		r.Assume("precondition tracking: a removal of an item whose net multiplicity in the model is 0 (or a removal call that returns an error) breaks the precondition until the next Delete; Delete empties the model and restores the precondition")
		r.Assume("items of one RemoveMulti call are judged in input order on the hash as left by the previous item (the only reading consistent with 'no counter becomes negative')")
		r.Assume("CountingBloomFilter has no Reset method; Delete is the only wipe")
		if raw, ok := r.ReplayPayload(); ok {
			var p c36payload
			if err := json.Unmarshal(raw, &p); err != nil {
				panic(err)
			}
			c36run(r, c36newWorld(), p.Cfg, p.Ops, false, p.Lost)
			return
		}
		ns := []uint{1, 2, 3, 10, 1000, 1000000}
		ps := []float64{1e-9, 1e-3, 0.5, 0.9, 0.99, 0.999999, 1 - 1.0/(1<<53)}
		maxLen := vrun.Pick(r, 3, 4)
		r.Bounds["alphabet"] = len(c36alphabet)
		r.Bounds["max_history_length"] = maxLen
		r.Bounds["grid_n"] = fmt.Sprint(ns)
		r.Bounds["grid_p"] = fmt.Sprint(ps)
		for _, c := range []c36cfg{{0, 0.5, "cbf"}, {10, 0, "cbf"}, {10, 1, "cbf"}, {10, 1.5, "cbf"}, {10, 0.5, ""}, {1 << 40, 1e-9, "cbf"}} {
			_, err := NewCountingBloomFilter(nil, c.Name, c.N, c.P)
			r.Note(fmt.Sprintf("constructor boundary: %v -> err=%v", c, err))
		}
		item := 0
		seenClass := map[string]bool{}
		var rejected, zeroK, accepted []string
		for _, n := range ns {
			for _, p := range ps {
				cfg := c36cfg{N: n, P: p, Name: "cbf"}
				item++
				if !r.Mine(item) {
					continue
				}
				cf, err := NewCountingBloomFilter(nil, cfg.Name, cfg.N, cfg.P)
				if err != nil {
					rejected = append(rejected, fmt.Sprintf("(n=%d,p=%v): %v", n, p, err))
					r.Outcome("constructor: rejected")
					continue
				}
				f := cf.(*countingBloomFilter)
				accepted = append(accepted, fmt.Sprintf("(n=%d,p=%v): size=%d k=%d", n, p, f.size, f.hashIterations))
				if f.hashIterations == 0 {
					zeroK = append(zeroK, fmt.Sprintf("(n=%d,p=%v)", n, p))
				}
				r.Outcome("constructor: accepted, " + c36kclass(f.hashIterations))
				// the behaviour of a filter object is a function of (name, size, hashIterations): a pair already enumerated at
				// full depth is enumerated one level shallower (all k=0 configurations form one class)
				class := fmt.Sprintf("size=%d k=%d", f.size, f.hashIterations)
				if f.hashIterations == 0 {
					class = "k=0"
				}
				depth := maxLen
				if seenClass[class] {
					depth--
				}
				seenClass[class] = true
				if n >= 1000 && depth > maxLen-1 {
					depth = maxLen - 1 // large filters: the three items practically never collide, one level shallower
				}
				r.Bounds[fmt.Sprintf("history_length[%v]", cfg)] = depth
				w := c36newWorld()
				lostRuns := (n == 10 && p == 1e-3) || (n == 1 && p == 0.5)
				for length := 1; length <= depth; length++ {
					ops := make([]int, length)
					var rec func(i int) bool
					rec = func(i int) bool {
						if i == length {
							if r.TimeUp() {
								return false
							}
							r.Evaluations++
							h := c36hist(ops)
							r.StateStr(cfg.String(), h)
							if c36run(r, w, cfg, ops, true, 0) {
								r.NonTrivialStr(cfg.String(), h)
							}
							// environment deviation: the reply of one adding / removing step is lost after the server executed it
							// (small colliding configurations, histories one level shorter than the maximum)
							if lostRuns && length < maxLen {
								for s, o := range ops {
									if c36alphabet[o].Kind > c36RemoveMulti {
										continue
									}
									r.Evaluations++
									hl := fmt.Sprintf("%s / reply of step %d lost", h, s)
									r.StateStr(cfg.String(), hl)
									if c36run(r, w, cfg, ops, true, s+1) {
										r.NonTrivialStr(cfg.String(), hl)
									}
								}
							}
							return true
						}
						for o := range c36alphabet {
							ops[i] = o
							if !rec(i + 1) {
								return false
							}
						}
						return true
					}
					if !rec(0) {
						return
					}
				}
			}
		}
		r.Note("accepted grid configurations: " + strings.Join(accepted, "; "))
		r.Note("rejected grid configurations: " + strings.Join(rejected, "; "))
		r.Note("accepted with ZERO hash functions: " + strings.Join(zeroK, "; "))
	})
}
