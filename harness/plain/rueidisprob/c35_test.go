//go:build verif

package rueidisprob

import (
	"context"
	"fmt"
	"testing"
	"time"

	"github.com/redis/rueidis"
	"github.com/redis/rueidis/vshim/simredis"
	"github.com/redis/rueidis/vshim/vrun"
)

func TestVerif_C35(t *testing.T) {
	vrun.Main(t, "C35", func(r *vrun.Run) {
		ctx := context.Background()
		clock := int64(1000000)
		srv := simredis.New()
		srv.EnableLua()
		srv.NowMs = func() int64 { return clock }
		cl := rueidis.NewVerifSimClient(srv, rueidis.ClientOption{DisableCache: true})
		for _, ro := range []bool{false, true} {
			bf, err := NewBloomFilter(cl, fmt.Sprintf("bf%v", ro), 10, 0.001, WithEnableReadOperation(ro))
			r.Note(fmt.Sprintf("new %v", err))
			r.Note(fmt.Sprintf("add %v", bf.Add(ctx, "a")))
			r.Note(fmt.Sprintf("addmulti %v", bf.AddMulti(ctx, []string{"a", "b"})))
			e, err := bf.Exists(ctx, "a")
			r.Note(fmt.Sprintf("exists a %v %v", e, err))
			em, err := bf.ExistsMulti(ctx, []string{"c", "a", "b"})
			r.Note(fmt.Sprintf("existsmulti %v %v", em, err))
			n, err := bf.Count(ctx)
			r.Note(fmt.Sprintf("count %v %v", n, err))
			r.Note(fmt.Sprintf("reset %v", bf.Reset(ctx)))
			e, err = bf.Exists(ctx, "a")
			r.Note(fmt.Sprintf("exists a %v %v", e, err))
			n, err = bf.Count(ctx)
			r.Note(fmt.Sprintf("count %v %v", n, err))
			r.Note(fmt.Sprintf("delete %v", bf.Delete(ctx)))
			e, err = bf.Exists(ctx, "a")
			r.Note(fmt.Sprintf("exists a %v %v", e, err))
		}
		cf, err := NewCountingBloomFilter(cl, "cbf", 10, 0.001)
		r.Note(fmt.Sprintf("new %v", err))
		r.Note(fmt.Sprintf("add %v", cf.Add(ctx, "a")))
		r.Note(fmt.Sprintf("addmulti %v", cf.AddMulti(ctx, []string{"a", "b"})))
		em, err := cf.ExistsMulti(ctx, []string{"c", "a", "b"})
		r.Note(fmt.Sprintf("existsmulti %v %v", em, err))
		mc, err := cf.ItemMinCountMulti(ctx, []string{"c", "a", "b"})
		r.Note(fmt.Sprintf("mincount %v %v", mc, err))
		r.Note(fmt.Sprintf("remove c %v", cf.Remove(ctx, "c")))
		r.Note(fmt.Sprintf("removemulti a c b %v", cf.RemoveMulti(ctx, []string{"a", "c", "b"})))
		mc, err = cf.ItemMinCountMulti(ctx, []string{"c", "a", "b"})
		r.Note(fmt.Sprintf("mincount %v %v", mc, err))
		n, err := cf.Count(ctx)
		r.Note(fmt.Sprintf("count %v %v", n, err))
		r.Note(fmt.Sprintf("hgetall %+v", srv.Do("HGETALL", "{cbf}:cbf")))
		r.Note(fmt.Sprintf("delete %v", cf.Delete(ctx)))

		for _, ro := range []bool{false, true} {
			sf, err := NewSlidingBloomFilter(cl, fmt.Sprintf("sbf%v", ro), 10, 0.001, time.Second, WithReadOnlyExists(ro))
			r.Note(fmt.Sprintf("new %v", err))
			r.Note(fmt.Sprintf("add %v", sf.Add(ctx, "a")))
			clock += 499
			e, err := sf.Exists(ctx, "a")
			r.Note(fmt.Sprintf("exists a %v %v", e, err))
			clock += 1
			e, err = sf.Exists(ctx, "a")
			r.Note(fmt.Sprintf("exists a %v %v", e, err))
			clock += 500
			e, err = sf.Exists(ctx, "a")
			r.Note(fmt.Sprintf("exists a %v %v", e, err))
			n, err := sf.Count(ctx)
			r.Note(fmt.Sprintf("count %v %v", n, err))
			r.Note(fmt.Sprintf("reset %v", sf.Reset(ctx)))
			r.Note(fmt.Sprintf("delete %v", sf.Delete(ctx)))
			r.Note(fmt.Sprintf("add %v", sf.Add(ctx, "a")))
			r.Note(fmt.Sprintf("add %v", sf.Add(ctx, "a")))
		}
		for _, c := range cl.Calls {
			if len(c[0]) > 0 && c[0][0] == 'E' {
				r.Note(fmt.Sprintf("%s %.20q... %v", c[0], c[1], c[2:]))
			}
		}
	})
}
