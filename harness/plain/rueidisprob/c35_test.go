//go:build verif

package rueidisprob

// C35 — Bloom filters never report a false negative.
//
// Bounded exhaustive enumeration of operation histories of the Redis backed Bloom filter (bloomfilter.go) over a grid of
// (expectedNumberOfItems, falsePositiveRate) configurations. The filter runs against the command level fake client on
// the fake server; the real script text sent by the add-on is executed by the mini Lua interpreter.

import (
	"context"
	"encoding/json"
	"fmt"
	"runtime/debug"
	"strings"
	"testing"

	"github.com/redis/rueidis"
	"github.com/redis/rueidis/vshim/simredis"
	"github.com/redis/rueidis/vshim/vrun"
)

const (
	c35Add = iota
	c35AddMulti
	c35Exists
	c35ExistsMulti
	c35Count
	c35Reset
	c35Delete
)

type c35op struct {
	Kind int
	Keys []string
}

func (o c35op) String() string {
	n := []string{"Add", "AddMulti", "Exists", "ExistsMulti", "Count", "Reset", "Delete"}[o.Kind]
	if len(o.Keys) > 0 {
		return n + "(" + strings.Join(o.Keys, ",") + ")"
	}
	return n
}

// the operation alphabet; histories are sequences of indexes into it
var c35alphabet = []c35op{
	{c35Add, []string{"a"}},
	{c35Add, []string{"b"}},
	{c35Add, []string{"c"}},
	{c35AddMulti, []string{"a", "b"}},
	{c35AddMulti, []string{"b", "c"}},
	{c35Exists, []string{"a"}},
	{c35Exists, []string{"b"}},
	{c35Exists, []string{"c"}},
	{c35ExistsMulti, []string{"b", "a", "c"}},
	{c35Count, nil},
	{c35Reset, nil},
	{c35Delete, nil},
}

type c35cfg struct {
	N    uint    `json:"n"`
	P    float64 `json:"p"`
	RO   bool    `json:"readonly_exists"`
	Name string  `json:"name"`
}

func (c c35cfg) String() string {
	return fmt.Sprintf("n=%d p=%v ro=%v name=%q", c.N, c.P, c.RO, c.Name)
}

type c35payload struct {
	Cfg c35cfg `json:"cfg"`
	Ops []int  `json:"ops"`
}

// c35world is one fake server + client, reused for all histories of a configuration (wiped between histories; the
// server side script cache is flushed too, so that every history starts with the EVALSHA -> NOSCRIPT -> EVAL path).
type c35world struct {
	srv *simredis.Server
	cl  *rueidis.VerifSimClient
}

func c35newWorld() *c35world {
	srv := simredis.New()
	srv.EnableLuaMaxSteps(50000)
	return &c35world{srv: srv, cl: rueidis.NewVerifSimClient(srv, rueidis.ClientOption{DisableCache: true})}
}

func (w *c35world) wipe() {
	w.srv.Do("FLUSHALL")
	w.srv.ScriptFlush()
	w.srv.Log = nil
	w.cl.Calls = nil
	w.cl.Sess.Executed, w.cl.Sess.Received = nil, nil
}

func c35hist(ops []int) string {
	var sb strings.Builder
	for i, o := range ops {
		if i > 0 {
			sb.WriteByte(' ')
		}
		sb.WriteString(c35alphabet[o].String())
	}
	return sb.String()
}

func c35kclass(k uint) string {
	if k == 0 {
		return "hashIterations=0"
	}
	return "hashIterations>0"
}

// c35run executes one history on a fresh filter and checks it against the reference model. It returns whether some
// obligation of the property was actually exercised by an operation of the history (non-trivial case).
func c35run(r *vrun.Run, w *c35world, cfg c35cfg, ops []int, outcomes bool) (nontrivial bool) {
	ctx := context.Background()
	w.wipe()
	payload := c35payload{Cfg: cfg, Ops: append([]int{}, ops...)}
	var bf BloomFilter
	var err error
	if p, site := vrun.Catch(func() {
		if cfg.RO {
			bf, err = NewBloomFilter(w.cl, cfg.Name, cfg.N, cfg.P, WithEnableReadOperation(true))
		} else {
			bf, err = NewBloomFilter(w.cl, cfg.Name, cfg.N, cfg.P)
		}
	}); p != nil {
		r.Violate("panic in NewBloomFilter at "+site, fmt.Sprintf("%v: panic %v", cfg, p), payload)
		return
	}
	if err != nil {
		return
	}
	k := bf.(*bloomFilter).hashIterations
	kc := c35kclass(k)
	out := func(s string) {
		if outcomes {
			r.Outcome(s)
		}
	}

	// ---- reference model: the set of items added since the last Reset/Delete, and the last observed count
	present := map[string]bool{}
	lastCount := uint64(0)
	haveCount := false
	fail := func(sig, format string, a ...any) {
		r.Violate(sig, fmt.Sprintf("config %v (size=%d bits, hashIterations=%d), history [%s]: ", cfg, bf.(*bloomFilter).size, k, c35hist(ops))+fmt.Sprintf(format, a...), payload)
	}
	// checkExists compares an ExistsMulti style answer with the model: one answer per key, in order; added items present
	checkExists := func(what string, keys []string, got []bool) bool {
		if len(got) != len(keys) {
			fail(what+" returns a result of the wrong length ("+kc+")", "%s(%v) = %v: want one answer per input key", what, keys, got)
			return false
		}
		for i, key := range keys {
			if present[key] {
				nontrivial = true
				if !got[i] {
					fail("false negative: "+what+" reports an added item absent ("+kc+")", "%s(%v) = %v, but %q (position %d) was added successfully and no Reset/Delete followed", what, keys, got, key, i)
					return false
				}
			}
		}
		return true
	}
	probeCount := func(after string, mayDecrease bool) bool {
		var n uint64
		var err error
		if p, site := vrun.Catch(func() { n, err = bf.Count(ctx) }); p != nil {
			fail("panic in Count at "+site, "panic %v", p)
			return false
		}
		if err != nil {
			out("probe Count: error")
			return true
		}
		if haveCount && n < lastCount && !mayDecrease {
			fail("Count decreases without Reset/Delete ("+kc+")", "Count went from %d to %d across %s", lastCount, n, after)
			return false
		}
		lastCount, haveCount = n, true
		return true
	}

	for step, oi := range ops {
		op := c35alphabet[oi]
		var opErr error
		var bs []bool
		var b bool
		var n uint64
		p, site := vrun.Catch(func() {
			switch op.Kind {
			case c35Add:
				opErr = bf.Add(ctx, op.Keys[0])
			case c35AddMulti:
				opErr = bf.AddMulti(ctx, op.Keys)
			case c35Exists:
				b, opErr = bf.Exists(ctx, op.Keys[0])
			case c35ExistsMulti:
				bs, opErr = bf.ExistsMulti(ctx, op.Keys)
			case c35Count:
				n, opErr = bf.Count(ctx)
			case c35Reset:
				opErr = bf.Reset(ctx)
			case c35Delete:
				opErr = bf.Delete(ctx)
			}
		})
		name := []string{"Add", "AddMulti", "Exists", "ExistsMulti", "Count", "Reset", "Delete"}[op.Kind]
		if p != nil {
			fail("panic in "+name+" at "+site, "step %d %v: panic %v", step, op, p)
			return
		}
		if opErr != nil {
			out(name + ": error")
			if r.WantSample() {
				r.Sample(map[string]any{"cfg": cfg.String(), "history": c35hist(ops), "step": step, "error": opErr.Error()})
			}
		}
		mayDecrease := false
		switch op.Kind {
		case c35Add, c35AddMulti:
			if opErr == nil {
				for _, key := range op.Keys {
					present[key] = true
				}
				out(name + ": ok")
			}
		case c35Exists:
			if opErr == nil {
				out(fmt.Sprintf("Exists: %v (added=%v)", b, present[op.Keys[0]]))
				if !checkExists("Exists", op.Keys, []bool{b}) {
					return
				}
			} else if present[op.Keys[0]] {
				nontrivial = true
			}
		case c35ExistsMulti:
			if opErr == nil {
				out("ExistsMulti: ok")
				if !checkExists("ExistsMulti", op.Keys, bs) {
					return
				}
			}
		case c35Count:
			if opErr == nil {
				out("Count: ok")
				if haveCount && n < lastCount {
					fail("Count decreases without Reset/Delete ("+kc+")", "Count() = %d after the probe saw %d", n, lastCount)
					return
				}
			}
		case c35Reset, c35Delete:
			// whatever the call reports, the obligations end here (weaker reading)
			present = map[string]bool{}
			mayDecrease = true
			if opErr == nil {
				out(name + ": ok")
			}
		}
		if !probeCount(op.String(), mayDecrease) {
			return
		}
	}

	// ---- epilogue (pure reads, so they do not disturb the history): every item individually and all at once in a
	// non-sorted order; the multi answer must be the single answers in input order.
	order := []string{"c", "a", "b"}
	single := make([]bool, len(order))
	okSingles := true
	for i, key := range order {
		var b bool
		var err error
		if p, site := vrun.Catch(func() { b, err = bf.Exists(ctx, key) }); p != nil {
			fail("panic in Exists at "+site, "epilogue Exists(%q): panic %v", key, p)
			return
		}
		if err != nil {
			okSingles = false
			out("epilogue Exists: error")
			continue
		}
		single[i] = b
		if present[key] {
			if !b {
				fail("false negative: Exists reports an added item absent ("+kc+")", "after the history Exists(%q) = false, but %q was added successfully and no Reset/Delete followed", key, key)
				return
			}
			out("epilogue Exists: added item present")
		} else if b {
			out("epilogue Exists: false positive")
		} else {
			out("epilogue Exists: absent")
		}
	}
	var multi []bool
	if p, site := vrun.Catch(func() { multi, err = bf.ExistsMulti(ctx, order) }); p != nil {
		fail("panic in ExistsMulti at "+site, "epilogue ExistsMulti(%v): panic %v", order, p)
		return
	}
	if err != nil {
		out("epilogue ExistsMulti: error")
		return
	}
	if !checkExists("ExistsMulti", order, multi) {
		return
	}
	if okSingles {
		for i := range order {
			if multi[i] != single[i] {
				fail("ExistsMulti answers are not in input order ("+kc+")", "ExistsMulti(%v) = %v but the single Exists answers are %v", order, multi, single)
				return
			}
		}
	}
	return
}

func c35grid() (ns []uint, ps []float64) {
	return []uint{1, 2, 3, 10, 1000, 1000000}, []float64{1e-9, 1e-3, 0.5, 0.9, 0.99, 0.999999, 1 - 1.0/(1<<53)}
}

func TestVerif_C35(t *testing.T) {
	vrun.Main(t, "C35", func(r *vrun.Run) {
		// allocation heavy with a tiny live heap: far fewer GC cycles (bounded by a soft memory limit)
		defer debug.SetGCPercent(debug.SetGCPercent(4000))
		defer debug.SetMemoryLimit(debug.SetMemoryLimit(4 << 30))
		r.Rule = "for every (n,p) of the grid accepted by NewBloomFilter x {default exists script, name 'bf'; read-only exists script, name 'k{x}:c'}: " +
			"every history of 1..depth operations over the 12-operation alphabet (depth = max_history_length, reduced per configuration as listed in bounds), " +
			"followed by a read-only epilogue Exists(c),Exists(a),Exists(b),ExistsMulti([c,a,b]); a Count probe follows every step. " +
			"State = (configuration, history). Non-trivial = a query inside the history hits an item that the model says must be present."
		r.Assume("the mini Lua interpreter and the fake server execute EVAL/EVALSHA(_RO), BITFIELD(_RO) GET/SET u1, INCRBY, SET, DEL, GET like Redis 7 (Lua true -> integer 1, false -> null)")
		r.Assume("a failed Add/AddMulti creates no obligation; Reset/Delete end all obligations even when they report an error (weaker reading)")
		r.Assume("'Count never decreases' is checked on the values returned by Count (probed after every step and inside histories)")
		if raw, ok := r.ReplayPayload(); ok {
			var p c35payload
			if err := json.Unmarshal(raw, &p); err != nil {
				panic(err)
			}
			c35run(r, c35newWorld(), p.Cfg, p.Ops, false)
			return
		}
		ns, ps := c35grid()
		maxLen := vrun.Pick(r, 3, 4)
		r.Bounds["alphabet"] = len(c35alphabet)
		r.Bounds["max_history_length"] = maxLen
		r.Bounds["grid_n"] = fmt.Sprint(ns)
		r.Bounds["grid_p"] = fmt.Sprint(ps)
		// constructor boundary cases outside the grid (recorded only)
		for _, c := range []c35cfg{{0, 0.5, false, "bf"}, {10, 0, false, "bf"}, {10, 1, false, "bf"}, {10, 1.5, false, "bf"}, {10, -1, false, "bf"}, {10, 0.5, false, ""}, {1 << 40, 1e-9, false, "bf"}} {
			_, err := NewBloomFilter(nil, c.Name, c.N, c.P)
			r.Note(fmt.Sprintf("constructor boundary: %v -> err=%v", c, err))
		}
		item := 0
		seenClass := map[string]bool{}
		var rejected, zeroK, accepted []string
		for _, n := range ns {
			for _, p := range ps {
				for variant := 0; variant < 2; variant++ {
					cfg := c35cfg{N: n, P: p, RO: variant == 1, Name: []string{"bf", "k{x}:c"}[variant]}
					item++
					if !r.Mine(item) {
						continue
					}
					bf, err := NewBloomFilter(nil, cfg.Name, cfg.N, cfg.P)
					if err != nil {
						if variant == 0 {
							rejected = append(rejected, fmt.Sprintf("(n=%d,p=%v): %v", n, p, err))
						}
						r.Outcome("constructor: rejected")
						continue
					}
					f := bf.(*bloomFilter)
					if variant == 0 {
						accepted = append(accepted, fmt.Sprintf("(n=%d,p=%v): size=%d k=%d", n, p, f.size, f.hashIterations))
						if f.hashIterations == 0 {
							zeroK = append(zeroK, fmt.Sprintf("(n=%d,p=%v)", n, p))
						}
					}
					r.Outcome("constructor: accepted, " + c35kclass(f.hashIterations))
					// Depth of the enumeration for this configuration. The behaviour of a filter object is a function of
					// (name, size, hashIterations) only, so a (size,k) pair that was already enumerated at full depth is
					// enumerated one level shallower (all k=0 configurations form one class: no index is ever computed).
					// The read-only/odd-name variant and the large filters (n >= 1000) run one level shallower. One Add on the fake
					// server copies the bitmap once per hash function: histories are shortened for huge bitmaps.
					class := fmt.Sprintf("size=%d k=%d v=%d", f.size, f.hashIterations, variant)
					if f.hashIterations == 0 {
						class = fmt.Sprintf("k=0 v=%d", variant)
					}
					depth := maxLen
					if seenClass[class] {
						depth--
					}
					seenClass[class] = true
					if variant == 1 {
						depth--
					}
					if n >= 1000 && depth > maxLen-1 {
						depth = maxLen - 1 // large bitmaps: the three items practically never collide, one level shallower
					}
					cost := uint64(f.size/8+1) * uint64(f.hashIterations)
					if cost > 64<<20 && depth > maxLen-2 {
						depth = maxLen - 2
					} else if cost > 1<<20 && depth > maxLen-1 {
						depth = maxLen - 1
					}
					if depth < 1 {
						depth = 1
					}
					r.Bounds[fmt.Sprintf("history_length[%v]", cfg)] = depth
					w := c35newWorld()
					for length := 1; length <= depth; length++ {
						ops := make([]int, length)
						var rec func(i int) bool
						rec = func(i int) bool {
							if i == length {
								if r.TimeUp() {
									return false
								}
								r.Evaluations++
								h := c35hist(ops)
								r.StateStr(cfg.String(), h)
								if c35run(r, w, cfg, ops, true) {
									r.NonTrivialStr(cfg.String(), h)
								}
								return true
							}
							for o := range c35alphabet {
								ops[i] = o
								if !rec(i + 1) {
									return false
								}
							}
							return true
						}
						if !rec(0) {
							return
						}
					}
				}
			}
		}
		r.Note("accepted grid configurations: " + strings.Join(accepted, "; "))
		r.Note("rejected grid configurations: " + strings.Join(rejected, "; "))
		r.Note("accepted with ZERO hash functions: " + strings.Join(zeroK, "; "))
	})
}
