//go:build verif

package rueidisprob

// C37 — Sliding Bloom filters keep items for at least half a window.
//
// The sliding filter takes all its timing from the SERVER: rotation is guarded by a key written with SET .. PX
// windowHalf NX inside the scripts (the TIME value is only stored). The client's clock is never consulted, so the plain
// flavour with a controllable server clock (simredis.Server.NowMs) is sufficient. Bounded exhaustive enumeration of
// timed histories (clock advance, operation) against the command level fake client; the real Lua scripts are executed
// by the mini Lua interpreter.

import (
	"context"
	"encoding/json"
	"fmt"
	"runtime/debug"
	"strings"
	"testing"
	"time"

	"github.com/redis/rueidis"
	"github.com/redis/rueidis/vshim/simredis"
	"github.com/redis/rueidis/vshim/vrun"
)

const (
	c37Add = iota
	c37AddMulti
	c37Exists
	c37ExistsMulti
	c37Count
	c37Reset
	c37Delete
	c37Reopen // a second NewSlidingBloomFilter on the same name and parameters (another process starting); later steps use the new object
)

var c37kindNames = []string{"Add", "AddMulti", "Exists", "ExistsMulti", "Count", "Reset", "Delete", "Reopen"}

type c37op struct {
	Kind int
	Keys []string
}

func (o c37op) String() string {
	if len(o.Keys) > 0 {
		return c37kindNames[o.Kind] + "(" + strings.Join(o.Keys, ",") + ")"
	}
	return c37kindNames[o.Kind]
}

var c37alphabet = []c37op{
	{c37Add, []string{"a"}},
	{c37AddMulti, []string{"a", "b"}},
	{c37Exists, []string{"a"}},
	{c37ExistsMulti, []string{"b", "a", "c"}},
	{c37Count, nil},
	{c37Reset, nil},
	{c37Delete, nil},
	{c37Reopen, nil},
}

const c37nAdvances = 5

// c37advance: the clock advances offered before every step, in milliseconds, for a window of w milliseconds
func c37advance(i int, w int64) int64 {
	return []int64{0, w/2 - 1, w / 2, w/2 + 1, w}[i]
}

type c37cfg struct {
	N        uint    `json:"n"`
	P        float64 `json:"p"`
	WindowMs int64   `json:"window_ms"`
	RO       bool    `json:"readonly_exists"`
	Name     string  `json:"name"`
}

func (c c37cfg) String() string {
	return fmt.Sprintf("n=%d p=%v window=%dms ro=%v name=%q", c.N, c.P, c.WindowMs, c.RO, c.Name)
}

type c37step struct {
	Adv int `json:"adv"` // index into the advance alphabet
	Op  int `json:"op"`  // index into the operation alphabet
}

type c37payload struct {
	Cfg   c37cfg    `json:"cfg"`
	Steps []c37step `json:"steps"`
}

const c37epoch = int64(1700000000000) // server clock at the start of every history (ms)

type c37world struct {
	srv   *simredis.Server
	cl    *rueidis.VerifSimClient
	clock int64
}

func c37newWorld() *c37world {
	w := &c37world{clock: c37epoch}
	w.srv = simredis.New()
	w.srv.EnableLuaMaxSteps(20000)
	w.srv.NowMs = func() int64 { return w.clock }
	w.cl = rueidis.NewVerifSimClient(w.srv, rueidis.ClientOption{DisableCache: true})
	return w
}

func (w *c37world) wipe() {
	w.clock = c37epoch
	w.srv.Do("FLUSHALL")
	w.srv.ScriptFlush()
	w.srv.Log = nil
	w.cl.Calls = nil
	w.cl.Sess.Executed, w.cl.Sess.Received = nil, nil
}

func c37hist(cfg c37cfg, steps []c37step) string {
	var sb strings.Builder
	for i, s := range steps {
		if i > 0 {
			sb.WriteByte(' ')
		}
		fmt.Fprintf(&sb, "+%dms %s", c37advance(s.Adv, cfg.WindowMs), c37alphabet[s.Op])
	}
	return sb.String()
}

func c37kclass(k uint) string {
	if k == 0 {
		return "hashIterations=0"
	}
	return "hashIterations>0"
}

func c37new(cl rueidis.Client, cfg c37cfg) (BloomFilter, error) {
	win := time.Duration(cfg.WindowMs) * time.Millisecond
	if cfg.RO {
		return NewSlidingBloomFilter(cl, cfg.Name, cfg.N, cfg.P, win, WithReadOnlyExists(true))
	}
	return NewSlidingBloomFilter(cl, cfg.Name, cfg.N, cfg.P, win)
}

func c37run(r *vrun.Run, w *c37world, cfg c37cfg, steps []c37step, outcomes bool) (nontrivial bool) {
	ctx := context.Background()
	w.wipe()
	payload := c37payload{Cfg: cfg, Steps: append([]c37step{}, steps...)}
	var bf BloomFilter
	var err error
	if p, site := vrun.Catch(func() { bf, err = c37new(w.cl, cfg) }); p != nil {
		r.Violate("panic in NewSlidingBloomFilter at "+site, fmt.Sprintf("%v: panic %v", cfg, p), payload)
		return
	}
	if err != nil {
		if outcomes {
			r.Outcome("constructor error on the fake server: " + err.Error())
		}
		return
	}
	f := bf.(*slidingBloomFilter)
	k := f.hashIterations
	kc := c37kclass(k)
	out := func(s string) {
		if outcomes {
			r.Outcome(s)
		}
	}
	fail := func(sig, format string, a ...any) {
		r.Violate(sig, fmt.Sprintf("config %v (size=%d bits, hashIterations=%d, windowHalfMs=%s), timed history [%s]: ", cfg, f.size, k, f.windowHalfMs, c37hist(cfg, steps))+fmt.Sprintf(format, a...), payload)
	}

	// ---- reference model: item -> server time of its last successful add (forgotten at Reset/Delete)
	lastAdd := map[string]int64{}
	owed := func(key string) bool {
		t, ok := lastAdd[key]
		// present for every query time strictly before addTime + window/2
		return ok && 2*(w.clock-t) < cfg.WindowMs
	}
	check := func(what string, keys []string, got []bool, err error) bool {
		anyOwed := false
		for _, key := range keys {
			if owed(key) {
				anyOwed = true
			}
		}
		if !anyOwed {
			return true
		}
		nontrivial = true
		if err != nil {
			fail("item added less than half a window ago is not reported: "+what+" returns an error ("+kc+")", "%s(%v) at t0+%dms = error %q; last adds (ms after t0): %v", what, keys, w.clock-c37epoch, err.Error(), c37rel(lastAdd))
			return false
		}
		if len(got) != len(keys) {
			fail(what+" returns a result of the wrong length ("+kc+")", "%s(%v) = %v", what, keys, got)
			return false
		}
		for i, key := range keys {
			if owed(key) && !got[i] {
				fail("item added less than half a window ago is reported absent by "+what+" ("+kc+")", "%s(%v) at t0+%dms = %v but %q was added at t0+%dms, i.e. %dms ago < window/2 = %gms, with no Reset/Delete since", what, keys, w.clock-c37epoch, got, key, lastAdd[key]-c37epoch, w.clock-lastAdd[key], float64(cfg.WindowMs)/2)
				return false
			}
		}
		return true
	}

	for si, st := range steps {
		w.clock += c37advance(st.Adv, cfg.WindowMs)
		op := c37alphabet[st.Op]
		name := c37kindNames[op.Kind]
		var opErr error
		var bs []bool
		p, site := vrun.Catch(func() {
			switch op.Kind {
			case c37Add:
				opErr = bf.Add(ctx, op.Keys[0])
			case c37AddMulti:
				opErr = bf.AddMulti(ctx, op.Keys)
			case c37Exists:
				var b bool
				b, opErr = bf.Exists(ctx, op.Keys[0])
				bs = []bool{b}
			case c37ExistsMulti:
				bs, opErr = bf.ExistsMulti(ctx, op.Keys)
			case c37Count:
				_, opErr = bf.Count(ctx)
			case c37Reset:
				opErr = bf.Reset(ctx)
			case c37Delete:
				opErr = bf.Delete(ctx)
			case c37Reopen:
				var nbf BloomFilter
				if nbf, opErr = c37new(w.cl, cfg); opErr == nil {
					bf = nbf
				}
			}
		})
		if p != nil {
			fail("panic in "+name+" at "+site, "step %d: panic %v", si, p)
			return
		}
		if opErr != nil {
			out(name + ": error: " + opErr.Error())
		} else {
			out(name + ": ok")
		}
		switch op.Kind {
		case c37Add, c37AddMulti:
			if opErr == nil {
				for _, key := range op.Keys {
					lastAdd[key] = w.clock
				}
			}
		case c37Exists, c37ExistsMulti:
			if !check(name, op.Keys, bs, opErr) {
				return
			}
		case c37Reset, c37Delete:
			lastAdd = map[string]int64{} // whatever the call reports (weaker reading)
		}
	}
	// ---- epilogue: one more query for every item at the time of the last step
	keys := []string{"c", "a", "b"}
	var bs []bool
	if p, site := vrun.Catch(func() { bs, err = bf.ExistsMulti(ctx, keys) }); p != nil {
		fail("panic in ExistsMulti at "+site, "epilogue: panic %v", p)
		return
	}
	if err != nil {
		out("epilogue ExistsMulti: error: " + err.Error())
	} else {
		for i, key := range keys {
			switch {
			case owed(key) && bs[i]:
				out("epilogue: owed item present")
			case bs[i] && lastAdd[key] != 0:
				out("epilogue: item still present after its half window")
			case bs[i]:
				out("epilogue: present although never added / wiped (false positive or survived Reset)")
			case lastAdd[key] != 0 && !owed(key):
				out("epilogue: item expired")
			}
		}
	}
	check("ExistsMulti", keys, bs, err)
	return
}

func c37rel(m map[string]int64) string {
	var parts []string
	for _, k := range []string{"a", "b", "c"} {
		if t, ok := m[k]; ok {
			parts = append(parts, fmt.Sprintf("%s:+%d", k, t-c37epoch))
		}
	}
	return "{" + strings.Join(parts, " ") + "}"
}

func TestVerif_C37(t *testing.T) {
	vrun.Main(t, "C37", func(r *vrun.Run) {
		// allocation heavy with a tiny live heap: far fewer GC cycles (bounded by a soft memory limit)
		defer debug.SetGCPercent(debug.SetGCPercent(4000))
		defer debug.SetMemoryLimit(debug.SetMemoryLimit(4 << 30))
		r.Rule = "for every (n,p) of the grid accepted by NewSlidingBloomFilter x {(window 1s, default exists script), (window 10s, read-only exists script)}: " +
			"every timed history of 1..depth steps, a step being (server clock advance from {0, w/2-1ms, w/2, w/2+1ms, w}, operation from the 8-operation alphabet: Add, AddMulti, Exists, ExistsMulti, Count, Reset, Delete, Reopen = constructing the filter again on the same name), " +
			"followed by an epilogue ExistsMulti([c,a,b]) at the time of the last step. depth per configuration is listed in bounds: the representative " +
			"configurations get max_history_length, every other distinct (size,k) class one or two levels less. State = (configuration, timed history). " +
			"Both representatives additionally run 360 curated five-step histories (add; an operation at w/2, w/2+1 or w that may rotate; add again; query after the next rotation; query again). " +
			"Non-trivial = a query is made while the model owes presence of an item (added less than half a window ago, no Reset/Delete since)."
		r.Assume("the mini Lua interpreter and the fake server execute EVAL/EVALSHA, TIME, SET PX NX, MSET, EXISTS, RENAME, BITFIELD(_RO), INCRBY, DEL, GET like Redis 7")
		r.Assume("fake server expiry: a key written with PX d at time t is gone for commands at time >= t+d (real Redis: > t+d); this only shortens lock periods by 1ms, i.e. makes rotations earlier than on a real server, never later")
		r.Assume("all timing of the sliding filter is server side (SET PX NX lock); the client's clock is not consulted after construction")
		r.Assume("an item is owed at query time t iff its last successful add happened at a time a with t - a < window/2 and no Reset/Delete call (successful or not) came after the add")
		if raw, ok := r.ReplayPayload(); ok {
			var p c37payload
			if err := json.Unmarshal(raw, &p); err != nil {
				panic(err)
			}
			c37run(r, c37newWorld(), p.Cfg, p.Steps, false)
			return
		}
		ns := []uint{1, 2, 3, 10, 1000, 1000000}
		ps := []float64{1e-9, 1e-3, 0.5, 0.9, 0.99, 0.999999, 1 - 1.0/(1<<53)}
		maxLen := vrun.Pick(r, 3, 4)
		r.Bounds["alphabet_ops"] = len(c37alphabet)
		r.Bounds["alphabet_advances"] = "0, w/2-1ms, w/2, w/2+1ms, w"
		r.Bounds["max_history_length"] = maxLen
		r.Bounds["grid_n"] = fmt.Sprint(ns)
		r.Bounds["grid_p"] = fmt.Sprint(ps)
		r.Bounds["windows"] = "1s, 10s"
		// constructor boundary cases (recorded only); the window check precedes any server access
		w0 := c37newWorld()
		for _, c := range []c37cfg{{10, 0.001, 999, false, "sbf"}, {10, 0.001, 0, false, "sbf"}, {10, 0.001, 1000, false, ""}, {10, 0, 1000, false, "sbf"}, {10, 1, 1000, false, "sbf"}, {10, 1.5, 1000, false, "sbf"}, {0, 0.5, 1000, false, "sbf"}, {1 << 40, 1e-9, 1000, false, "sbf"}, {10, 0.001, 1001, false, "sbf"}} {
			_, err := c37new(w0.cl, c)
			r.Note(fmt.Sprintf("constructor boundary: %v -> err=%v", c, err))
		}
		item := 0
		seenClass := map[string]bool{}
		var rejected, zeroK, accepted []string
		for _, n := range ns {
			for _, p := range ps {
				for variant := 0; variant < 2; variant++ {
					cfg := c37cfg{N: n, P: p, WindowMs: []int64{1000, 10000}[variant], RO: variant == 1, Name: []string{"sbf", "k{x}:c"}[variant]}
					item++
					if !r.Mine(item) {
						continue
					}
					w := c37newWorld()
					bf, err := c37new(w.cl, cfg)
					if err != nil {
						if variant == 0 {
							rejected = append(rejected, fmt.Sprintf("(n=%d,p=%v): %v", n, p, err))
						}
						r.Outcome("constructor: rejected")
						continue
					}
					f := bf.(*slidingBloomFilter)
					if variant == 0 {
						accepted = append(accepted, fmt.Sprintf("(n=%d,p=%v): size=%d k=%d", n, p, f.size, f.hashIterations))
						if f.hashIterations == 0 {
							zeroK = append(zeroK, fmt.Sprintf("(n=%d,p=%v)", n, p))
						}
					}
					r.Outcome("constructor: accepted, " + c37kclass(f.hashIterations))
					// Depth. Timing logic does not depend on (size,k) (beyond k=0), so two representatives get the full depth:
					// (n=10,p=0.001) with window 1s/default script and (n=1,p=0.5) with window 10s/read-only script (quick tier:
					// one level less). Every other first occurrence of a (size,k) class gets depth 2, repeats get depth 1.
					// One Add on the fake server copies both bitmaps once per hash function: depth 1 for huge bitmaps (and in the
					// quick tier only the zero advance and only the first variant for the 5MB bitmaps of n=10^6,p=1e-9).
					class := fmt.Sprintf("size=%d k=%d v=%d", f.size, f.hashIterations, variant)
					if f.hashIterations == 0 {
						class = fmt.Sprintf("k=0 v=%d", variant)
					}
					depth := 2
					if seenClass[class] {
						depth = 1
					}
					seenClass[class] = true
					if n == 10 && p == 1e-3 && variant == 0 {
						depth = maxLen
					}
					if n == 1 && p == 0.5 && variant == 1 {
						depth = maxLen - 1
					}
					nAdv := c37nAdvances
					if cost := uint64(f.size/8+1) * uint64(f.hashIterations); cost > 64<<20 {
						depth = 1
						if r.Quick() {
							if variant == 1 {
								r.Note(fmt.Sprintf("quick tier: %v skipped (one Add allocates >300MB on the fake server); covered by the thorough tier", cfg))
								continue
							}
							nAdv = 1 // only the zero advance
						}
					} else if cost > 1<<20 {
						depth = 1
					}
					r.Bounds[fmt.Sprintf("history_length[%v]", cfg)] = depth
					// curated longer histories for the two representatives (both tiers): an item is added, a rotation is
					// triggered by another operation, the item is added again, and it is queried after the next rotation
					if depth >= maxLen-1 && depth < 5 {
						nCur := 0
						for _, q := range []int{2, 3, 4, 0, 1} { // op after which the first rotation may happen: Exists, ExistsMulti, Count, Add, AddMulti
							for _, adv1 := range []int{2, 3, 4} { // w/2, w/2+1, w
								for _, readd := range []int{0, 1} { // Add(a) | AddMulti(a,b)
									for _, adv2 := range []int{0, 1} { // 0, w/2-1
										for _, adv3 := range []int{1, 2, 3} { // w/2-1, w/2, w/2+1
											for _, fin := range []int{2, 3} { // Exists(a) | ExistsMulti(b,a,c)
												steps := []c37step{{Adv: 0, Op: 0}, {Adv: adv1, Op: q}, {Adv: adv2, Op: readd}, {Adv: adv3, Op: fin}, {Adv: 1, Op: 3}}
												r.Evaluations++
												nCur++
												h := c37hist(cfg, steps)
												r.StateStr(cfg.String(), h)
												if c37run(r, w, cfg, steps, true) {
													r.NonTrivialStr(cfg.String(), h)
												}
											}
										}
									}
								}
							}
						}
						r.Bounds[fmt.Sprintf("curated_readd_histories[%v]", cfg)] = nCur
					}
					for length := 1; length <= depth; length++ {
						steps := make([]c37step, length)
						var rec func(i int) bool
						rec = func(i int) bool {
							if i == length {
								if r.TimeUp() {
									return false
								}
								r.Evaluations++
								h := c37hist(cfg, steps)
								r.StateStr(cfg.String(), h)
								if c37run(r, w, cfg, steps, true) {
									r.NonTrivialStr(cfg.String(), h)
								}
								return true
							}
							for a := 0; a < nAdv; a++ {
								for o := range c37alphabet {
									steps[i] = c37step{Adv: a, Op: o}
									if !rec(i + 1) {
										return false
									}
								}
							}
							return true
						}
						if !rec(0) {
							return
						}
					}
				}
			}
		}
		r.Note("accepted grid configurations: " + strings.Join(accepted, "; "))
		r.Note("rejected grid configurations: " + strings.Join(rejected, "; "))
		r.Note("accepted with ZERO hash functions: " + strings.Join(zeroK, "; "))
	})
}
