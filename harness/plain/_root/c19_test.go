//go:build verif

package rueidis

import (
	"context"
	"crypto/tls"
	"encoding/json"
	"errors"
	"fmt"
	"net"
	"runtime"
	"sort"
	"strconv"
	"strings"
	"sync"
	"testing"
	"time"

	"github.com/redis/rueidis/internal/cmds"
	"github.com/redis/rueidis/vshim/vrun"
)

// C19 - cluster commands reach the node that owns their slot.
//
// Four families of cases, all bounded-exhaustive:
//   parse     generated CLUSTER SLOTS / CLUSTER SHARDS replies -> real parseSlots/parseShards, compared with a
//             reference slot table / node list written from the Redis documentation of the two commands.
//   client    the same replies served by fake nodes to a real clusterClient (newClusterClient over mockConn);
//             slot table at the probe slots, one keyed GET per probe slot, then a topology change + refresh.
//   malformed every single-node deletion / truncation / type swap of one entry next to an intact entry.
//   redirect  every chain of <=3 MOVED/ASK replies over 4 targets x MaxMovedRedirections x 6 API shapes.

const c19seedHost = "10.9.9.9"
const c19seed = "10.9.9.9:6999"
const c19nullEP = "(null)"

var c19atoms = [5][2]int64{{0, 0}, {1, 5460}, {5461, 8191}, {8192, 16382}, {16383, 16383}}
var c19probes = []int64{0, 1, 2730, 5460, 5461, 6826, 8191, 8192, 12287, 16382, 16383}

// ---------------------------------------------------------------- reply trees

type c19m struct {
	T byte   `json:"t"`
	S string `json:"s,omitempty"`
	I int64  `json:"i,omitempty"`
	A bool   `json:"a,omitempty"` // aggregate
	K []c19m `json:"k,omitempty"`
}

func (m c19m) msg() RedisMessage {
	switch {
	case m.A:
		vs := make([]RedisMessage, len(m.K))
		for i := range m.K {
			vs[i] = m.K[i].msg()
		}
		return slicemsg(m.T, vs)
	case m.T == typeInteger:
		return RedisMessage{typ: typeInteger, intlen: m.I}
	case m.T == typeNull:
		return RedisMessage{typ: typeNull}
	default:
		return strmsg(m.T, m.S)
	}
}

func c19S(s string) c19m { return c19m{T: typeBlobString, S: s} }
func c19I(i int64) c19m  { return c19m{T: typeInteger, I: i} }
func c19A(k ...c19m) c19m {
	return c19m{T: typeArray, A: true, K: k}
}
func c19ep(ep string) c19m {
	if ep == c19nullEP {
		return c19m{T: typeNull}
	}
	return c19S(ep)
}

// ---------------------------------------------------------------- topologies

type c19pert struct {
	Shard int    `json:"shard"`
	Node  int    `json:"node"`
	EP    string `json:"ep"`
	H     string `json:"h"`
}

type c19topo struct {
	Ver     int      `json:"ver"` // 7: CLUSTER SLOTS, 8: CLUSTER SHARDS
	K       int      `json:"k"`
	Assign  [5]int   `json:"assign"` // atom -> shard (K = gap)
	Merge   bool     `json:"merge"`
	R       int      `json:"replicas"`
	P       *c19pert `json:"pert,omitempty"`
	CTLS    bool     `json:"client_tls"`
	TLSPort int      `json:"tls_port"` // -1 absent, 0 zero, 100 = port+100
	Fmt     int      `json:"fmt"`      // SHARDS only: 0 map + string slots, 1 map + int slots, 2 flat array (RESP2) + int slots
}

type c19node struct {
	EP   string
	Port int64
	TLS  int64
	H    string
}

type c19shard struct {
	R [][2]int64
	N []c19node
}

func (t *c19topo) shards() []c19shard {
	out := make([]c19shard, t.K)
	for s := 0; s < t.K; s++ {
		for a := 0; a < 5; a++ {
			if t.Assign[a] != s {
				continue
			}
			rg := c19atoms[a]
			if n := len(out[s].R); t.Merge && n > 0 && a > 0 && t.Assign[a-1] == s {
				out[s].R[n-1][1] = rg[1]
			} else {
				out[s].R = append(out[s].R, rg)
			}
		}
		for j := 0; j <= t.R; j++ {
			n := c19node{EP: fmt.Sprintf("10.0.%d.%d", s, j+1), Port: int64(7000 + 10*s + j), TLS: -1, H: "online"}
			switch t.TLSPort {
			case 0:
				n.TLS = 0
			case 100:
				n.TLS = n.Port + 100
			}
			if p := t.P; p != nil && p.Shard == s && p.Node == j {
				n.EP, n.H = p.EP, p.H
			}
			out[s].N = append(out[s].N, n)
		}
	}
	return out
}

func (t *c19topo) tree() c19m {
	var entries []c19m
	for si, sh := range t.shards() {
		if t.Ver < 8 {
			for _, rg := range sh.R {
				e := []c19m{c19I(rg[0]), c19I(rg[1])}
				for ni, n := range sh.N {
					e = append(e, c19A(c19ep(n.EP), c19I(n.Port), c19S(fmt.Sprintf("id%d%d", si, ni)), c19A()))
				}
				entries = append(entries, c19A(e...))
			}
			continue
		}
		entries = append(entries, c19shardEntry(t, si, sh))
	}
	return c19A(entries...)
}

func c19shardEntry(t *c19topo, si int, sh c19shard) c19m {
	mt := byte(typeMap)
	if t.Fmt == 2 {
		mt = typeArray
	}
	var slots, nodes []c19m
	for _, rg := range sh.R {
		if t.Fmt == 0 {
			slots = append(slots, c19S(strconv.FormatInt(rg[0], 10)), c19S(strconv.FormatInt(rg[1], 10)))
		} else {
			slots = append(slots, c19I(rg[0]), c19I(rg[1]))
		}
	}
	for ni, n := range sh.N {
		role := "replica"
		if ni == 0 {
			role = "master"
		}
		kv := []c19m{c19S("id"), c19S(fmt.Sprintf("id%d%d", si, ni)), c19S("port"), c19I(n.Port)}
		if n.TLS >= 0 {
			kv = append(kv, c19S("tls-port"), c19I(n.TLS))
		}
		ip := n.EP
		if ip == "" || ip == "?" || ip == c19nullEP {
			ip = fmt.Sprintf("10.0.%d.%d", si, ni+1)
		}
		kv = append(kv, c19S("ip"), c19S(ip), c19S("endpoint"), c19ep(n.EP), c19S("role"), c19S(role),
			c19S("replication-offset"), c19I(72156), c19S("health"), c19S(n.H))
		nodes = append(nodes, c19m{T: mt, A: true, K: kv})
	}
	return c19m{T: mt, A: true, K: []c19m{c19S("slots"), c19A(slots...), c19S("nodes"), c19A(nodes...)}}
}

// ---------------------------------------------------------------- reference

type c19egroup struct {
	ranges [][2]int64
	nodes  map[string]bool
}

type c19exp struct {
	groups map[string]*c19egroup // primary address -> group (only shards whose primary can take traffic)
	banned map[string]bool       // addresses of nodes that must get no traffic
	owner  map[int64]string      // probe slot -> primary address, "" = nobody
}

// c19addr: where the documentation says a node must be contacted; "" = nowhere.
func c19addr(t *c19topo, n c19node) string {
	if n.EP == "?" {
		return ""
	}
	host := n.EP
	if host == "" || host == c19nullEP {
		host = c19seedHost // same endpoint the command was sent to
	}
	port := n.Port
	if t.Ver >= 8 && t.CTLS && n.TLS > 0 {
		port = n.TLS
	}
	return net.JoinHostPort(host, strconv.FormatInt(port, 10))
}

func c19reference(t *c19topo) *c19exp {
	e := &c19exp{groups: map[string]*c19egroup{}, banned: map[string]bool{}, owner: map[int64]string{}}
	ok := map[string]bool{}
	for _, sh := range t.shards() {
		var elig []string
		for _, n := range sh.N {
			a := c19addr(t, n)
			if a == "" {
				continue
			}
			if t.Ver >= 8 && n.H != "online" {
				e.banned[a] = true
				continue
			}
			elig = append(elig, a)
			ok[a] = true
		}
		p := sh.N[0]
		pa := c19addr(t, p)
		if pa == "" || (t.Ver >= 8 && p.H != "online") || (t.Ver < 8 && len(sh.R) == 0) {
			continue
		}
		g := &c19egroup{ranges: sh.R, nodes: map[string]bool{}}
		for _, a := range elig {
			g.nodes[a] = true
		}
		e.groups[pa] = g
	}
	for a := range ok {
		delete(e.banned, a)
	}
	for _, s := range c19probes {
		for pa, g := range e.groups {
			if c19in(g.ranges, s) {
				e.owner[s] = pa
			}
		}
	}
	return e
}

func c19in(rs [][2]int64, s int64) bool {
	for _, r := range rs {
		if r[0] <= s && s <= r[1] {
			return true
		}
	}
	return false
}

func c19checkGroups(e *c19exp, groups map[string]group) (sig, detail string) {
	for pa, eg := range e.groups {
		g, ok := groups[pa]
		if !ok {
			return "parse: shard with reachable healthy primary missing from the parsed groups", fmt.Sprintf("primary %s missing; got %v", pa, c19groupKeys(groups))
		}
		if len(g.nodes) == 0 || g.nodes[0].Addr != pa {
			return "parse: first node of the group is not its primary", fmt.Sprintf("group %s nodes %v", pa, g.nodes)
		}
		for _, s := range c19probes {
			if got, want := c19in(g.slots, s), c19in(eg.ranges, s); got != want {
				return "parse: slot range of a group differs from the listed range", fmt.Sprintf("group %s slot %d: in parsed ranges %v = %v, listed ranges %v = %v", pa, s, g.slots, got, eg.ranges, want)
			}
		}
		seen := map[string]bool{}
		for _, n := range g.nodes {
			seen[n.Addr] = true
			if !eg.nodes[n.Addr] {
				return "parse: group contains a node that is unhealthy / has no endpoint / is not listed", fmt.Sprintf("group %s has node %q; eligible %v", pa, n.Addr, eg.nodes)
			}
		}
		for a := range eg.nodes {
			if !seen[a] {
				return "parse: healthy reachable node dropped from its group", fmt.Sprintf("group %s lacks %s; has %v", pa, a, g.nodes)
			}
		}
	}
	for pa, g := range groups {
		if _, ok := e.groups[pa]; !ok {
			return "parse: group keyed by an address that is not a healthy reachable primary", fmt.Sprintf("group %q nodes %v slots %v", pa, g.nodes, g.slots)
		}
	}
	return "", ""
}

func c19groupKeys(groups map[string]group) []string {
	var ks []string
	for k := range groups {
		ks = append(ks, k)
	}
	sort.Strings(ks)
	return ks
}

// ---------------------------------------------------------------- fake cluster

type c19rep struct {
	Kind string `json:"kind"` // M (MOVED) | K (ASK)
	Node int    `json:"node"` // 0..2 topology primaries, 3 = address outside the topology
}

type c19send struct {
	Addr   string
	API    string
	Asking bool
	Argv   []string
}

type c19env struct {
	mu      sync.Mutex
	topo    RedisResult
	ver     int
	created []string
	log     []c19send
	script  []RedisMessage
	next    int
	skey    string // only commands on this key consume the script
}

var c19okmsg = strmsg(typeSimpleString, "V")

func (e *c19env) user(addr, api string, asking bool, argv []string) RedisMessage {
	e.mu.Lock()
	defer e.mu.Unlock()
	cp := append([]string(nil), argv...)
	e.log = append(e.log, c19send{Addr: addr, API: api, Asking: asking, Argv: cp})
	if e.skey != "" && len(cp) > 1 && cp[1] == e.skey && e.next < len(e.script) {
		e.next++
		return e.script[e.next-1]
	}
	return c19okmsg
}

func (e *c19env) connFn(dst string, _ *ClientOption) conn {
	e.mu.Lock()
	e.created = append(e.created, dst)
	e.mu.Unlock()
	m := &mockConn{}
	m.AddrFn = func() string { return dst }
	m.VersionFn = func() int { return e.ver }
	m.DoFn = func(cmd Completed) RedisResult {
		argv := cmd.Commands()
		if len(argv) == 2 && argv[0] == "CLUSTER" {
			e.mu.Lock()
			defer e.mu.Unlock()
			return e.topo
		}
		return NewResult(e.user(dst, "Do", false, argv), nil)
	}
	m.DoCacheFn = func(cmd Cacheable, _ time.Duration) RedisResult {
		return NewResult(e.user(dst, "DoCache", false, cmd.Commands()), nil)
	}
	m.DoMultiCacheFn = func(multi ...CacheableTTL) *redisresults {
		res := &redisresults{s: make([]RedisResult, len(multi))}
		for i, c := range multi {
			res.s[i] = NewResult(e.user(dst, "DoMultiCache", false, c.Cmd.Commands()), nil)
		}
		return res
	}
	m.DoMultiFn = func(multi ...Completed) *redisresults {
		res := &redisresults{s: make([]RedisResult, len(multi))}
		asking, inTx, aborted := false, false, false
		var queued []RedisMessage
		for i, c := range multi {
			argv := c.Commands()
			switch {
			case len(argv) == 1 && argv[0] == "ASKING":
				asking = true
				res.s[i] = NewResult(strmsg(typeSimpleString, "OK"), nil)
			case len(argv) == 3 && argv[0] == "CLIENT":
				res.s[i] = NewResult(strmsg(typeSimpleString, "OK"), nil)
			case len(argv) == 1 && argv[0] == "MULTI":
				inTx, aborted, queued = true, false, nil
				res.s[i] = NewResult(strmsg(typeSimpleString, "OK"), nil)
			case len(argv) == 1 && argv[0] == "EXEC":
				if aborted {
					res.s[i] = NewResult(strmsg(typeSimpleErr, "EXECABORT Transaction discarded because of previous errors."), nil)
				} else {
					res.s[i] = NewResult(slicemsg(typeArray, queued), nil)
				}
				inTx, asking = false, false
			case inTx && argv[0] == "PTTL":
				queued = append(queued, RedisMessage{typ: typeInteger, intlen: -1})
				res.s[i] = NewResult(strmsg(typeSimpleString, "QUEUED"), nil)
			case inTx:
				rep := e.user(dst, "DoMulti", asking, argv)
				if rep.typ == typeSimpleErr { // a redirect is raised when the command is queued
					aborted = true
					res.s[i] = NewResult(rep, nil)
				} else {
					queued = append(queued, rep)
					res.s[i] = NewResult(strmsg(typeSimpleString, "QUEUED"), nil)
				}
			default:
				res.s[i] = NewResult(e.user(dst, "DoMulti", asking, argv), nil)
				asking = false
			}
		}
		return res
	}
	return m
}

func (e *c19env) snapshot() (log []c19send, created []string) {
	e.mu.Lock()
	defer e.mu.Unlock()
	return append([]c19send(nil), e.log...), append([]string(nil), e.created...)
}

var c19keyOnce sync.Once
var c19keys map[int64]string

func c19key(slot int64) string {
	c19keyOnce.Do(func() {
		c19keys = map[int64]string{}
		want := map[int64]bool{}
		for _, s := range c19probes {
			want[s] = true
		}
		want[300] = true
		for i := 0; len(c19keys) < len(want); i++ {
			k := "k" + strconv.Itoa(i)
			if s := int64(cmds.Slot(k)); want[s] {
				if _, dup := c19keys[s]; !dup {
					c19keys[s] = k
				}
			}
		}
	})
	return c19keys[slot]
}

// ---------------------------------------------------------------- case runners

type c19case struct {
	Kind   string   `json:"kind"`
	Topo   *c19topo `json:"topo,omitempty"`
	Ver    int      `json:"ver,omitempty"`
	Reps   int      `json:"reps,omitempty"`
	Mut    int      `json:"mut,omitempty"`
	Order  int      `json:"order,omitempty"`
	Client bool     `json:"client,omitempty"`
	Script []c19rep `json:"script,omitempty"`
	Max    int      `json:"max,omitempty"`
	API    string   `json:"api,omitempty"`
	Tree   *c19m    `json:"tree,omitempty"` // informational (malformed cases)
	MutOp  string   `json:"mut_op,omitempty"`
}

func c19runParse(r *vrun.Run, t *c19topo) bool {
	e := c19reference(t)
	tree := t.tree()
	var groups map[string]group
	p, site := vrun.Catch(func() {
		groups = clusterslots{addr: c19seed, reply: NewResult(tree.msg(), nil), ver: t.Ver}.parse(t.CTLS)
	})
	if p != nil {
		r.Violate("parse: panic in "+site, fmt.Sprintf("panic %v on valid topology %s", p, c19json(t)), c19case{Kind: "parse", Topo: t})
		return false
	}
	if sig, detail := c19checkGroups(e, groups); sig != "" {
		r.Violate(sig+c19verTag(t.Ver), detail+" topology "+c19json(t), c19case{Kind: "parse", Topo: t})
		return false
	}
	return true
}

func c19verTag(v int) string {
	if v < 8 {
		return " (CLUSTER SLOTS)"
	}
	return " (CLUSTER SHARDS)"
}

func c19json(v any) string {
	b, _ := json.Marshal(v)
	return string(b)
}

func c19newClient(env *c19env, t *c19topo, max int) (*clusterClient, error) {
	opt := &ClientOption{InitAddress: []string{c19seed}}
	if t != nil && t.CTLS {
		opt.TLSConfig = &tls.Config{}
	}
	opt.ClusterOption.MaxMovedRedirections = max
	return newClusterClient(opt, env.connFn, newRetryer(func(int, Completed, error) time.Duration { return -1 }))
}

func c19checkTable(r *vrun.Run, phase string, cl *clusterClient, t *c19topo, e *c19exp, rc c19case) bool {
	cl.mu.RLock()
	addrs := map[int64]string{}
	var connKeys []string
	for _, s := range c19probes {
		if cc := cl.wslots[s]; cc != nil {
			addrs[s] = cc.Addr()
		}
	}
	for a := range cl.conns {
		connKeys = append(connKeys, a)
	}
	cl.mu.RUnlock()
	for _, s := range c19probes {
		if !c19same(addrs[s], e.owner[s], phase != "initial") {
			r.Violate("client "+phase+": slot table entry differs from the primary that lists the slot"+c19verTag(t.Ver),
				fmt.Sprintf("slot %d -> %q, expected %q; topology %s", s, addrs[s], e.owner[s], c19json(t)), rc)
			return false
		}
	}
	for _, a := range connKeys {
		if e.banned[a] {
			r.Violate("client "+phase+": connection kept for an unhealthy node"+c19verTag(t.Ver), fmt.Sprintf("conns has %s; topology %s", a, c19json(t)), rc)
			return false
		}
	}
	return true
}

// c19same: after the first refresh an empty / NULL endpoint stands for the host of whichever node answered the
// refresh (any known node may be asked), so only the (unique) port is compared for such nodes.
func c19same(got, want string, anyHost bool) bool {
	if got == want || !anyHost || got == "" || !strings.HasPrefix(want, c19seedHost+":") {
		return got == want
	}
	_, gp, _ := net.SplitHostPort(got)
	_, wp, _ := net.SplitHostPort(want)
	return gp == wp
}

func c19runClient(r *vrun.Run, t *c19topo) bool {
	rc := c19case{Kind: "client", Topo: t}
	env := &c19env{ver: t.Ver, topo: NewResult(t.tree().msg(), nil)}
	var cl *clusterClient
	var err error
	good := true
	p, site := vrun.Catch(func() {
		cl, err = c19newClient(env, t, 0)
		if err != nil || cl == nil {
			return
		}
		defer cl.Close()
		e := c19reference(t)
		if good = c19checkTable(r, "initial", cl, t, e, rc); !good {
			return
		}
		// routing: one keyed command per probe slot
		unservedDone := false
		for _, s := range c19probes {
			if s == 2730 || s == 6826 || s == 12287 {
				continue
			}
			want := e.owner[s]
			if want == "" && unservedDone {
				continue // its nil table entry was checked above; every such Do costs a full synchronous refresh
			}
			env.mu.Lock()
			env.log = env.log[:0]
			env.mu.Unlock()
			res := cl.Do(context.Background(), cl.B().Get().Key(c19key(s)).Build())
			log, _ := env.snapshot()
			if want == "" {
				unservedDone = true
				if len(log) != 0 || res.Error() == nil {
					r.Violate("client routing: command for a slot nobody serves was sent to a node"+c19verTag(t.Ver), fmt.Sprintf("slot %d: log %v result err %v; topology %s", s, log, res.Error(), c19json(t)), rc)
					good = false
					return
				}
				r.Outcome("routing: no owner -> " + fmt.Sprint(res.Error()))
				continue
			}
			if len(log) != 1 || !c19same(log[0].Addr, want, true) || res.Error() != nil {
				r.Violate("client routing: keyed command not delivered exactly once to the primary owning its slot"+c19verTag(t.Ver), fmt.Sprintf("slot %d key %s: log %v err %v, expected one send to %s; topology %s", s, c19key(s), log, res.Error(), want, c19json(t)), rc)
				good = false
				return
			}
			for a := range e.banned {
				if log[0].Addr == a {
					r.Violate("client routing: traffic to an unhealthy node", fmt.Sprintf("slot %d -> %s", s, a), rc)
					good = false
				}
			}
			r.Outcome("routing: delivered to owner")
		}
		// topology change: serve a rotated layout and refresh synchronously
		t2 := *t
		for a := 0; a < 5; a++ {
			t2.Assign[a] = t.Assign[(a+1)%5]
		}
		env.mu.Lock()
		env.topo = NewResult(t2.tree().msg(), nil)
		env.mu.Unlock()
		if err2 := cl.refresh(context.Background()); err2 != nil {
			r.Outcome("refresh error: " + err2.Error())
			return
		}
		good = c19checkTable(r, "after topology change", cl, &t2, c19reference(&t2), rc)
	})
	if p != nil {
		r.Violate("client: panic in "+site+c19verTag(t.Ver), fmt.Sprintf("panic %v; topology %s", p, c19json(t)), rc)
		return false
	}
	if err != nil {
		r.Violate("client: constructor fails on a well-formed topology"+c19verTag(t.Ver), fmt.Sprintf("error %v; topology %s", err, c19json(t)), rc)
		return false
	}
	return good
}

// ---- malformed entries

type c19mut struct {
	path []int
	op   string
}

func c19paths(m c19m, pre []int, out *[][]int) {
	*out = append(*out, append([]int(nil), pre...))
	if m.A {
		for i := range m.K {
			c19paths(m.K[i], append(pre, i), out)
		}
	}
}

var c19ops = []string{"del", "delpair", "trunc", "null", "int0", "int-1", "str", "emptyarr", "emptymap", "err", "swap"}

func c19apply(m c19m, path []int, op string) (c19m, bool) {
	if len(path) == 0 {
		switch op {
		case "null":
			return c19m{T: typeNull}, true
		case "int0":
			return c19I(0), true
		case "int-1":
			return c19I(-1), true
		case "str":
			return c19S("x"), true
		case "emptyarr":
			return c19A(), true
		case "emptymap":
			return c19m{T: typeMap, A: true}, true
		case "err":
			return c19m{T: typeSimpleErr, S: "ERR x"}, true
		case "swap":
			switch {
			case m.A:
				return c19S("x"), true
			case m.T == typeInteger:
				return c19S(strconv.FormatInt(m.I, 10)), true
			default:
				return c19A(m), true
			}
		}
		return m, false
	}
	i := path[0]
	cp := m
	cp.K = append([]c19m(nil), m.K...)
	if len(path) == 1 {
		switch op {
		case "del":
			cp.K = append(cp.K[:i], cp.K[i+1:]...)
			return cp, true
		case "delpair":
			if i%2 != 0 || i+1 >= len(cp.K) {
				return m, false
			}
			cp.K = append(cp.K[:i], cp.K[i+2:]...)
			return cp, true
		case "trunc":
			cp.K = cp.K[:i]
			return cp, true
		}
	}
	sub, ok := c19apply(m.K[i], path[1:], op)
	if !ok {
		return m, false
	}
	cp.K[i] = sub
	return cp, true
}

// c19malformedBase: intact entry A (slots 300..400) and victim entry B (slots 100..200). No mutation in c19ops can
// make B's range reach slot 300 (replacement integers are 0, -1, string/array lengths < 16).
func c19malformedBase(ver, reps int) (t *c19topo, a, b c19m) {
	t = &c19topo{Ver: ver, K: 2, R: reps, TLSPort: -1, Fmt: 1}
	mk := func(si int, lo, hi int64) c19m {
		sh := c19shard{R: [][2]int64{{lo, hi}}}
		for j := 0; j <= reps; j++ {
			sh.N = append(sh.N, c19node{EP: fmt.Sprintf("10.0.%d.%d", si, j+1), Port: int64(7000 + 10*si + j), TLS: -1, H: "online"})
		}
		if ver >= 8 {
			return c19shardEntry(t, si, sh)
		}
		e := []c19m{c19I(lo), c19I(hi)}
		for ni, n := range sh.N {
			e = append(e, c19A(c19S(n.EP), c19I(n.Port), c19S(fmt.Sprintf("id%d%d", si, ni)), c19A()))
		}
		return c19A(e...)
	}
	return t, mk(0, 300, 400), mk(1, 100, 200)
}

func c19malformedCount(ver, reps int) int {
	_, _, b := c19malformedBase(ver, reps)
	var ps [][]int
	c19paths(b, nil, &ps)
	return len(ps) * len(c19ops)
}

// c19runMalformed: mut indexes (path, op); order 0: [B', A], 1: [A, B'], 2: B' replaces the whole reply.
func c19runMalformed(r *vrun.Run, ver, reps, mut, order int, client bool) (applied bool) {
	_, a, b := c19malformedBase(ver, reps)
	var ps [][]int
	c19paths(b, nil, &ps)
	path, op := ps[mut/len(c19ops)], c19ops[mut%len(c19ops)]
	b2, ok := c19apply(b, path, op)
	if !ok {
		return false
	}
	var tree c19m
	switch order {
	case 0:
		tree = c19A(b2, a)
	case 1:
		tree = c19A(a, b2)
	default:
		tree = b2
	}
	rc := c19case{Kind: "malformed", Ver: ver, Reps: reps, Mut: mut, Order: order, Client: client, Tree: &tree, MutOp: fmt.Sprintf("%s at %v", op, path)}
	const pa = "10.0.0.1:7000"
	if !client {
		var groups map[string]group
		p, site := vrun.Catch(func() {
			groups = clusterslots{addr: c19seed, reply: NewResult(tree.msg(), nil), ver: ver}.parse(false)
		})
		if p != nil {
			r.Violate("malformed: panic in "+site+c19verTag(ver), fmt.Sprintf("panic %v; mutation %s; reply %s", p, rc.MutOp, c19json(tree)), rc)
			return true
		}
		if order < 2 {
			g, ok := groups[pa]
			if !ok || len(g.nodes) == 0 || g.nodes[0].Addr != pa || !c19in(g.slots, 300) || !c19in(g.slots, 400) {
				r.Violate("malformed: intact entry next to a malformed one lost its mapping"+c19verTag(ver), fmt.Sprintf("group %s = %+v; mutation %s; reply %s", pa, g, rc.MutOp, c19json(tree)), rc)
			} else {
				r.Outcome("malformed/parse: intact entry kept")
			}
		} else {
			r.Outcome("malformed/parse: whole reply replaced, no panic")
		}
		return true
	}
	env := &c19env{ver: ver, topo: NewResult(tree.msg(), nil)}
	p, site := vrun.Catch(func() {
		cl, err := c19newClient(env, nil, 0)
		if cl == nil {
			r.Outcome("malformed/client: constructor refused: " + fmt.Sprint(err))
			return
		}
		defer cl.Close()
		res := cl.Do(context.Background(), cl.B().Get().Key(c19key(300)).Build())
		log, _ := env.snapshot()
		if order < 2 {
			if err != nil || len(log) != 1 || log[0].Addr != pa || res.Error() != nil {
				r.Violate("malformed: command for the intact entry's slot not delivered to its primary"+c19verTag(ver), fmt.Sprintf("ctor err %v, log %v, result err %v; mutation %s; reply %s", err, log, res.Error(), rc.MutOp, c19json(tree)), rc)
				return
			}
			r.Outcome("malformed/client: intact entry routed")
		} else {
			r.Outcome("malformed/client: whole reply replaced, no panic")
		}
	})
	if p != nil {
		r.Violate("malformed: client panic in "+site+c19verTag(ver), fmt.Sprintf("panic %v; mutation %s; reply %s", p, rc.MutOp, c19json(tree)), rc)
	}
	return true
}

// ---- redirect chains

var c19raddr = []string{"10.0.0.1:7000", "10.0.1.1:7010", "10.0.2.1:7020", "10.7.7.7:7777"}
var c19apis = []string{"Do", "DoCache", "DoMulti", "DoMulti2", "DoMultiCache", "DoMultiCache2"}

func c19redirTopo() *c19topo {
	return &c19topo{Ver: 7, K: 3, Assign: [5]int{0, 0, 1, 2, 2}, Merge: true, R: 0, TLSPort: -1}
}

func c19runRedirect(r *vrun.Run, script []c19rep, max int, api string) bool {
	rc := c19case{Kind: "redirect", Script: script, Max: max, API: api}
	kA, kC := c19key(1), c19key(16382) // slot 1 -> node 0, slot 16382 -> node 2
	t := c19redirTopo()
	env := &c19env{ver: 7, topo: NewResult(t.tree().msg(), nil), skey: kA}
	var texts []string
	for _, s := range script {
		w := "MOVED"
		if s.Kind == "K" {
			w = "ASK"
		}
		txt := fmt.Sprintf("%s 1 %s", w, c19raddr[s.Node])
		texts = append(texts, txt)
		env.script = append(env.script, strmsg(typeSimpleErr, txt))
	}
	// reference
	type xs struct {
		addr   string
		asking bool
	}
	var want []xs
	wantRes := "V"
	dest, asking, red, done := 0, false, 0, false
	for i, s := range script {
		want = append(want, xs{c19raddr[dest], asking})
		red++
		if max > 0 && red > max {
			wantRes, done = "ERR:"+texts[i], true
			break
		}
		dest, asking = s.Node, s.Kind == "K"
	}
	if !done {
		want = append(want, xs{c19raddr[dest], asking})
	}

	var gotRes, gotC, gotF string
	kF := "{" + kA + "}2" // same slot as kA
	good := true
	p, site := vrun.Catch(func() {
		opt := &ClientOption{InitAddress: []string{c19raddr[0]}}
		opt.ClusterOption.MaxMovedRedirections = max
		cl, err := newClusterClient(opt, env.connFn, newRetryer(func(int, Completed, error) time.Duration { return -1 }))
		if err != nil {
			panic(fmt.Sprintf("harness: cluster constructor failed: %v", err))
		}
		defer cl.Close()
		// model "a lazy refresh is already scheduled and still sleeping" (the state DelayDo itself creates for up to
		// 1 s): further lazy refreshes are deduplicated, nothing runs in the background during the scenario.
		cl.sc.mu.Lock()
		cl.sc.ch = make(chan struct{})
		cl.sc.mu.Unlock()
		ctx := context.Background()
		show := func(x RedisResult) string {
			if e := x.Error(); e != nil {
				return "ERR:" + e.Error()
			}
			s, _ := x.ToString()
			return s
		}
		switch api {
		case "Do":
			gotRes = show(cl.Do(ctx, cl.B().Get().Key(kA).Build()))
		case "DoCache":
			gotRes = show(cl.DoCache(ctx, cl.B().Get().Key(kA).Cache(), time.Minute))
		case "DoMulti":
			gotRes = show(cl.DoMulti(ctx, cl.B().Get().Key(kA).Build())[0])
		case "DoMulti2":
			rs := cl.DoMulti(ctx, cl.B().Get().Key(kA).Build(), cl.B().Get().Key(kC).Build())
			gotRes, gotC = show(rs[0]), show(rs[1])
		case "DoMultiCache":
			gotRes = show(cl.DoMultiCache(ctx, CT(cl.B().Get().Key(kA).Cache(), time.Minute))[0])
		case "DoMultiCache2":
			rs := cl.DoMultiCache(ctx, CT(cl.B().Get().Key(kA).Cache(), time.Minute), CT(cl.B().Get().Key(kC).Cache(), time.Minute))
			gotRes, gotC = show(rs[0]), show(rs[1])
		}
		// a later command for the same slot (another key), before any topology refresh has run
		gotF = show(cl.Do(ctx, cl.B().Get().Key(kF).Build()))
	})
	if p != nil {
		r.Violate("redirect: panic in "+site, fmt.Sprintf("panic %v; %s", p, c19json(rc)), rc)
		return false
	}
	log, created := env.snapshot()
	var got []xs
	nC := 0
	for _, l := range log {
		if len(l.Argv) > 1 && l.Argv[1] == kA {
			got = append(got, xs{l.Addr, l.Asking})
		} else if len(l.Argv) > 1 && l.Argv[1] == kC {
			nC++
			if l.Addr != c19raddr[2] {
				good = false
			}
		}
	}
	desc := func() string {
		return fmt.Sprintf("api %s max %d replies %v: sends (addr, ASKING first) %v, expected %v; result %q, expected %q; other key sends %d result %q", api, max, texts, got, want, gotRes, wantRes, nC, gotC)
	}
	if strings.HasSuffix(api, "2") && (nC != 1 || gotC != "V" || !good) {
		r.Violate("redirect: the batch's other command (no redirect) was not delivered exactly once to its owner", desc(), rc)
		return false
	}
	same := len(got) == len(want)
	for i := 0; same && i < len(got); i++ {
		same = got[i] == want[i]
	}
	if !same {
		sig := "redirect: wrong destination sequence"
		switch {
		case len(got) > len(want):
			sig = "redirect: more sends than the redirect policy allows"
		case len(got) < len(want):
			sig = "redirect: redirect not followed"
		default:
			for i := range got {
				if got[i].addr == want[i].addr && got[i].asking != want[i].asking {
					sig = "redirect: ASKING missing or spurious before the re-sent command"
					break
				}
			}
		}
		r.Violate(sig+" ("+c19apiClass(api)+")", desc(), rc)
		return false
	}
	if gotRes != wantRes {
		r.Violate("redirect: caller does not get the final reply ("+c19apiClass(api)+")", desc(), rc)
		return false
	}
	for _, w := range want {
		if w.addr == c19raddr[3] {
			found := false
			for _, c := range created {
				found = found || c == c19raddr[3]
			}
			if !found {
				r.Violate("redirect: no connection created for an address outside the topology", desc(), rc)
				return false
			}
		}
	}
	// the later command: its first hop is the slot's owner as far as the client can know it, i.e. the owner of the learnt
	// topology or a node that a MOVED reply named for this slot; an ASK never transfers the slot, and no ASKING is sent
	allowed := map[string]bool{c19raddr[0]: true}
	for i, s := range script {
		if s.Kind != "K" && i < len(want) {
			allowed[c19raddr[s.Node]] = true
		}
	}
	var hops []xs
	for _, l := range log {
		if len(l.Argv) > 1 && l.Argv[1] == kF {
			hops = append(hops, xs{l.Addr, l.Asking})
		}
	}
	if len(hops) == 0 || !allowed[hops[0].addr] || hops[0].asking {
		r.Violate("redirect: a later command for the same slot was first sent to a node that no MOVED reply or topology named as the owner ("+c19apiClass(api)+")", desc()+fmt.Sprintf("; later GET %s went to %v (result %q)", kF, hops, gotF), rc)
		return false
	}
	if done {
		r.Outcome("redirect: limit reached, redirect error returned")
	} else {
		r.Outcome(fmt.Sprintf("redirect: %d redirects followed", len(script)))
	}
	return true
}

func c19apiClass(api string) string { return strings.TrimSuffix(api, "2") }

// ---------------------------------------------------------------- enumeration

func c19layouts(maxK int, bothMerge bool) (out []c19topo) {
	for k := 1; k <= maxK; k++ {
		n := 1
		for i := 0; i < 5; i++ {
			n *= k + 1
		}
		for code := 0; code < n; code++ {
			var as [5]int
			used := make([]bool, k+1)
			c := code
			for i := 0; i < 5; i++ {
				as[i] = c % (k + 1)
				used[as[i]] = true
				c /= k + 1
			}
			all := true
			for s := 0; s < k; s++ {
				all = all && used[s]
			}
			if !all {
				continue
			}
			adj := false
			for i := 1; i < 5; i++ {
				adj = adj || (as[i] == as[i-1] && as[i] != k)
			}
			out = append(out, c19topo{K: k, Assign: as, Merge: true})
			if adj && bothMerge {
				out = append(out, c19topo{K: k, Assign: as, Merge: false})
			}
		}
	}
	return out
}

var c19eps = []string{"", "?", c19nullEP, "172.16.0.9", "redis-x.example.com", "fd00::1"}

type c19dims struct {
	reps  []int
	vers  []int
	nodes func(k, reps int) [][2]int // (shard, node) perturbation targets
	tls   [][2]int                   // (client tls 0/1, tls-port mode)
	fmts  []int
}

func c19enum(layouts []c19topo, d c19dims, fn func(t *c19topo) bool) {
	for _, lay := range layouts {
		for _, reps := range d.reps {
			for _, ver := range d.vers {
				healths := []string{"online"}
				tlss, fmts := [][2]int{{0, -1}}, []int{0}
				if ver >= 8 {
					healths = []string{"online", "fail", "loading"}
					tlss, fmts = d.tls, d.fmts
				}
				var perts []*c19pert
				perts = append(perts, nil)
				for _, sn := range d.nodes(lay.K, reps) {
					for _, ep := range c19eps {
						for _, h := range healths {
							perts = append(perts, &c19pert{Shard: sn[0], Node: sn[1], EP: ep, H: h})
						}
					}
				}
				for _, p := range perts {
					for _, tl := range tlss {
						for _, f := range fmts {
							t := lay
							t.Ver, t.R, t.P, t.CTLS, t.TLSPort, t.Fmt = ver, reps, p, tl[0] == 1, tl[1], f
							if !fn(&t) {
								return
							}
						}
					}
				}
			}
		}
	}
}

func c19nontrivial(t *c19topo) bool {
	gap, multi := false, !t.Merge
	for a := 0; a < 5; a++ {
		gap = gap || t.Assign[a] == t.K
	}
	return gap || multi || t.P != nil || t.CTLS
}

func c19replay(r *vrun.Run, raw json.RawMessage) {
	var c c19case
	if err := json.Unmarshal(raw, &c); err != nil {
		panic(err)
	}
	switch c.Kind {
	case "parse":
		c19runParse(r, c.Topo)
	case "client":
		c19runClient(r, c.Topo)
	case "malformed":
		c19runMalformed(r, c.Ver, c.Reps, c.Mut, c.Order, c.Client)
	case "redirect":
		c19runRedirect(r, c.Script, c.Max, c.API)
	case "selfview":
		c19selfView(r, c.Ver, 12)
	}
}

// ---- self-view topologies: every node reports ITSELF with an empty endpoint ("the host you reached me on") and the
// other nodes with their addresses. After refreshes answered by whichever node is fastest, every slot range must map to
// its primary's real address and one GET per primary must reach that primary.
var c19svNodes = [3]string{"10.1.0.1:7001", "10.2.0.2:7002", "10.3.0.3:7003"}
var c19svRanges = [3][2]int64{{0, 5460}, {5461, 10922}, {10923, 16383}}

func c19svReply(ver, self int) RedisResult {
	var entries []c19m
	for i, a := range c19svNodes {
		host, port, _ := net.SplitHostPort(a)
		p, _ := strconv.ParseInt(port, 10, 64)
		ep := host
		if i == self {
			ep = ""
		}
		if ver < 8 {
			entries = append(entries, c19A(c19I(c19svRanges[i][0]), c19I(c19svRanges[i][1]), c19A(c19S(ep), c19I(p), c19S(fmt.Sprintf("id%d", i)), c19A())))
			continue
		}
		node := c19m{T: typeMap, A: true, K: []c19m{c19S("id"), c19S(fmt.Sprintf("id%d", i)), c19S("port"), c19I(p), c19S("ip"), c19S(host), c19S("endpoint"), c19S(ep), c19S("role"), c19S("master"), c19S("replication-offset"), c19I(1), c19S("health"), c19S("online")}}
		entries = append(entries, c19m{T: typeMap, A: true, K: []c19m{c19S("slots"), c19A(c19I(c19svRanges[i][0]), c19I(c19svRanges[i][1])), c19S("nodes"), c19A(node)}})
	}
	return NewResult(c19A(entries...).msg(), nil)
}

func c19selfView(r *vrun.Run, ver int, rounds int) {
	var mu sync.Mutex
	var log []c19send
	connFn := func(dst string, _ *ClientOption) conn {
		m := &mockConn{}
		m.AddrFn = func() string { return dst }
		m.VersionFn = func() int { return ver }
		self := -1
		for i, a := range c19svNodes {
			if a == dst {
				self = i
			}
		}
		m.DoFn = func(cmd Completed) RedisResult {
			argv := cmd.Commands()
			if len(argv) == 2 && argv[0] == "CLUSTER" {
				if self < 0 {
					return NewErrorResult(errors.New("c19: no such node " + dst))
				}
				return c19svReply(ver, self)
			}
			mu.Lock()
			log = append(log, c19send{Addr: dst, API: "Do", Argv: append([]string(nil), argv...)})
			mu.Unlock()
			return NewResult(c19okmsg, nil)
		}
		return m
	}
	rc := c19case{Kind: "selfview", Ver: ver}
	var cl *clusterClient
	p, site := vrun.Catch(func() {
		var err error
		cl, err = newClusterClient(&ClientOption{InitAddress: []string{c19svNodes[0]}}, connFn, newRetryer(func(int, Completed, error) time.Duration { return -1 }))
		if err != nil {
			panic(fmt.Sprintf("harness: cluster constructor failed: %v", err))
		}
	})
	if p != nil {
		r.Violate("selfview: panic in "+site, fmt.Sprint(p), rc)
		return
	}
	defer cl.Close()
	for round := 0; round <= rounds; round++ {
		r.Evaluations++
		if round > 0 {
			if err := cl.refresh(context.Background()); err != nil {
				r.Violate("selfview: refresh failed although every node answers", err.Error(), rc)
				return
			}
		}
		cl.mu.RLock()
		bad := ""
		for i, rg := range c19svRanges {
			for _, slot := range []int64{rg[0], (rg[0] + rg[1]) / 2, rg[1]} {
				cc := cl.wslots[slot]
				if cc == nil || cc.Addr() != c19svNodes[i] {
					got := "<nil>"
					if cc != nil {
						got = cc.Addr()
					}
					bad = fmt.Sprintf("slot %d is mapped to %s, its primary is %s", slot, got, c19svNodes[i])
				}
			}
		}
		cl.mu.RUnlock()
		if bad != "" {
			r.Outcome("selfview: slot table wrong")
			r.Violate(fmt.Sprintf("selfview (v%d): a node that reports itself with an empty endpoint is mapped to another host", ver), fmt.Sprintf("after refresh round %d: %s", round, bad), rc)
			return
		}
		for i, rg := range c19svRanges {
			k := ""
			for n := 0; k == ""; n++ { // some key whose slot lies in this node's range
				if sl := int64(cmds.Slot("sv" + strconv.Itoa(n))); sl >= rg[0] && sl <= rg[1] {
					k = "sv" + strconv.Itoa(n)
				}
			}
			mu.Lock()
			log = nil
			mu.Unlock()
			cl.Do(context.Background(), cl.B().Get().Key(k).Build())
			mu.Lock()
			ok := len(log) == 1 && log[0].Addr == c19svNodes[i]
			mu.Unlock()
			if !ok {
				r.Violate(fmt.Sprintf("selfview (v%d): keyed command did not reach its slot's primary", ver), fmt.Sprintf("round %d: GET %s (slot of node %s) went to %v", round, k, c19svNodes[i], log), rc)
				return
			}
		}
		r.Outcome("selfview: table and routing correct after a refresh")
	}
}

func TestVerif_C19(t *testing.T) {
	vrun.Main(t, "C19", func(r *vrun.Run) {
		r.Rule = "parse: every layout of the 5 atoms cut at slots {0|1, 5460|5461, 8191|8192, 16382|16383} over 1..K shards + gap (merged / one range per atom), " +
			"replicas per shard, CLUSTER SLOTS (v7) and CLUSTER SHARDS (v8; 3 encodings), one perturbed node (endpoint in {'', '?', null, ip, hostname, ipv6} x health in {online, fail, loading}), " +
			"client TLS x tls-port {absent, 0, set}; the parsed groups are compared with a reference built from the command documentation. " +
			"client: the same replies served to a real clusterClient over mockConn: slot table at 11 probe slots, one GET per boundary slot (log of the fake nodes), then a rotated layout + synchronous refresh. " +
			"malformed: every (path, op) mutation of one entry (ops " + strings.Join(c19ops, ",") + ") before / after an intact entry or as the whole reply, through the parser and through a client. " +
			"redirect: every chain of 0..3 replies from {MOVED, ASK} x {owner, 2nd primary, 3rd primary, address outside the topology} then OK, x MaxMovedRedirections {0,1,2} x {Do, DoCache, DoMulti, DoMultiCache, and the two batch APIs with a second command for another node}. " +
			"selfview: three primaries on distinct hosts, every node reports itself with an empty endpoint (CLUSTER SLOTS and CLUSTER SHARDS); after the initial and 12 (thorough 40) further refreshes answered by whichever connection is fastest the slot table and one GET per primary are checked. " +
			"non-trivial = topology with a gap, several ranges per shard, a perturbed node or TLS; malformed cases whose mutation applies; chains with >= 1 redirect."
		if r.Mine(0) {
			for _, ver := range []int{7, 8} {
				c19selfView(r, ver, vrun.Pick(r, 12, 40))
			}
		}
		r.Assume("selfview: the arrival order of the concurrent CLUSTER SLOTS/SHARDS replies of one refresh is not controlled in this (plain) build; the oracle does not depend on it and every run exercises 12 (thorough 40) refresh rounds per protocol version")
		r.Assume("CLUSTER SLOTS: NULL or empty endpoint = the host the command was sent to, '?' = unknown (Redis documentation); CLUSTER SLOTS carries no health, so health is only varied for CLUSTER SHARDS")
		r.Assume("a shard whose primary is unhealthy or has no endpoint serves no slot (nothing weaker can be demanded: there is no primary to map the range to)")
		r.Assume("with a TLS client the tls-port (> 0) of CLUSTER SHARDS is the port to dial, otherwise port")
		r.Assume("ASK inside the caching path: ASKING must precede the MULTI ... EXEC block that carries the command in the same batch (Redis keeps the ASKING flag for a transaction)")
		r.Assume("redirect scenarios run in the state 'a lazy refresh is already scheduled and sleeping' (call.ch set, exactly what DelayDo does for up to 1 s), so no background refresh runs during a scenario; fake nodes answer immediately and their log is mutex protected")
		r.Assume("an empty / NULL endpoint resolves to the host of whichever node answered the latest refresh, so after the first refresh such nodes are identified by their (unique) port only")
		r.Assume("mockConn of the repository's own tests is the connection seam (connFn); the mux/pipe layers below it are not exercised")
		if raw, ok := r.ReplayPayload(); ok {
			c19replay(r, raw)
			return
		}
		// every clusterClient is a 256 KiB object; an untouched ballast keeps the GC from running (and the scavenger
		// from returning the spans) every few clients. Performance only.
		ballast := make([]byte, 384<<20)
		defer runtime.KeepAlive(ballast)
		quick := r.Quick()
		t0 := time.Now()
		lap := func(what string) {
			r.Note(fmt.Sprintf("phase %s: %.1fs", what, time.Since(t0).Seconds()))
			t0 = time.Now()
		}
		item := 0
		mine := func() bool { item++; return r.Mine(item - 1) }

		// ---- redirect chains (cheap, first)
		var scripts [][]c19rep
		var alpha []c19rep
		for _, k := range []string{"M", "K"} {
			for n := 0; n < 4; n++ {
				alpha = append(alpha, c19rep{Kind: k, Node: n})
			}
		}
		scripts = append(scripts, nil)
		for l, from := 1, 0; l <= 3; l++ {
			to := len(scripts)
			for _, s := range scripts[from:to] {
				for _, a := range alpha {
					scripts = append(scripts, append(append([]c19rep(nil), s...), a))
				}
			}
			from = to
		}
		r.Bounds["redirect_chain_len"] = 3
		r.Bounds["redirect_scripts"] = len(scripts)
		for _, api := range c19apis {
			for _, max := range []int{0, 1, 2} {
				for _, s := range scripts {
					if !mine() {
						continue
					}
					if r.TimeUp() {
						return
					}
					r.Evaluations++
					id := fmt.Sprintf("%s/%d/%v", api, max, s)
					r.StateStr("redirect", id)
					if len(s) > 0 {
						r.NonTrivialStr("redirect", id)
					}
					if c19runRedirect(r, s, max, api) && len(s) == 3 && max == 1 {
						r.Sample(c19case{Kind: "redirect", Script: s, Max: max, API: api})
					}
				}
			}
		}

		lap("redirect")
		// ---- malformed
		for _, ver := range []int{7, 8} {
			for reps := 0; reps <= 2; reps++ {
				n := c19malformedCount(ver, reps)
				for mut := 0; mut < n; mut++ {
					if !mine() {
						continue
					}
					for order := 0; order < 3; order++ {
						for _, client := range []bool{false, true} {
							if c19runMalformed(r, ver, reps, mut, order, client) {
								r.Evaluations++
								id := fmt.Sprintf("%d/%d/%d/%d/%v", ver, reps, mut, order, client)
								r.StateStr("malformed", id)
								r.NonTrivialStr("malformed", id)
							}
						}
					}
				}
				r.Bounds[fmt.Sprintf("malformed_mutations_v%d_r%d", ver, reps)] = n
			}
		}
		lap("malformed")
		if r.TimeUp() {
			return
		}

		// ---- parse level
		allNodes := func(k, reps int) (out [][2]int) {
			for _, s := range []int{0, k - 1} {
				if s == k-1 && k == 1 {
					continue
				}
				for j := 0; j <= reps; j++ {
					out = append(out, [2]int{s, j})
				}
			}
			return
		}
		fewNodes := func(k, reps int) (out [][2]int) {
			out = append(out, [2]int{0, 0})
			if reps > 0 {
				out = append(out, [2]int{0, reps})
			}
			if k > 1 {
				out = append(out, [2]int{k - 1, 0})
			}
			return
		}
		fullTLS := [][2]int{{0, -1}, {0, 0}, {0, 100}, {1, -1}, {1, 0}, {1, 100}}
		pd := c19dims{reps: []int{0, 1, 2}, vers: []int{7, 8}, nodes: allNodes, tls: vrun.Pick(r, [][2]int{{0, -1}, {0, 100}, {1, 0}, {1, 100}}, fullTLS), fmts: vrun.Pick(r, []int{0}, []int{0, 1, 2})}
		pl := c19layouts(vrun.Pick(r, 2, 3), true)
		r.Bounds["parse_layouts"] = len(pl)
		r.Bounds["parse_max_shards"] = vrun.Pick(r, 2, 3)
		n := 0
		c19enum(pl, pd, func(t *c19topo) bool {
			n++
			if !r.Mine(n) {
				return true
			}
			if n&1023 == 0 && r.TimeUp() {
				return false
			}
			r.Evaluations++
			id := c19json(t)
			r.StateStr("parse", id)
			if c19nontrivial(t) {
				r.NonTrivialStr("parse", id)
			}
			if c19runParse(r, t) {
				r.Outcome("parse: groups match the reference")
				if t.P != nil && t.P.H == "fail" && t.K == 2 && t.R == 1 {
					r.Sample(c19case{Kind: "parse", Topo: t})
				}
			}
			return true
		})
		r.Bounds["parse_topologies"] = n
		lap("parse")

		// ---- client level
		cd := c19dims{reps: vrun.Pick(r, []int{0, 2}, []int{0, 1, 2}), vers: []int{7, 8}, nodes: fewNodes,
			tls: vrun.Pick(r, [][2]int{{0, -1}, {1, 100}}, [][2]int{{0, -1}, {0, 100}, {1, 0}, {1, 100}}), fmts: []int{0}}
		cl := c19layouts(vrun.Pick(r, 2, 3), !quick)
		r.Bounds["client_layouts"] = len(cl)
		m := 0
		c19enum(cl, cd, func(t *c19topo) bool {
			m++
			if !r.Mine(m) {
				return true
			}
			if m&63 == 0 && r.TimeUp() {
				return false
			}
			r.Evaluations++
			id := c19json(t)
			r.StateStr("client", id)
			if c19nontrivial(t) {
				r.NonTrivialStr("client", id)
			}
			c19runClient(r, t)
			return true
		})
		r.Bounds["client_topologies"] = m
		lap("client")
	})
}
