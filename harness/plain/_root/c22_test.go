//go:build verif

package rueidis

import (
	"encoding/json"
	"fmt"
	"sort"
	"strings"
	"testing"

	"github.com/redis/rueidis/vshim/vrun"
)

// C22: read-node selectors follow their documented priorities.
//
// Documentation used as the oracle (helper.go doc comments + README "Read node
// selectors"): index 0 of the node list is the primary, the rest are replicas.
//   PreferReplicaNodeSelector:               any replica (round robin); no replica -> primary
//   AZAffinityNodeSelector:                  same-AZ replica, then any replica, then primary
//   AZAffinityReplicasAndPrimaryNodeSelector: same-AZ replica, same-AZ primary, any replica, primary
// "primary" may be expressed as 0 or as -1 (ClientOption.ReadNodeSelector: an
// out-of-range index selects the primary).

type c22case struct {
	Sel      string   `json:"sel"`      // prefer | az | azrp
	ClientAZ string   `json:"clientAZ"` //
	AZs      []string `json:"azs,omitempty"`
	// large lists are described compactly: N nodes, all AZ "y" except index Same (AZ = ClientAZ); primary AZ PrimAZ
	N      int    `json:"n,omitempty"`
	Same   int    `json:"same,omitempty"`
	PrimAZ string `json:"primAZ,omitempty"`
	Calls  int    `json:"calls"`
}

func (c c22case) nodes() []NodeInfo {
	if c.N == 0 {
		ns := make([]NodeInfo, len(c.AZs))
		for i, az := range c.AZs {
			ns[i] = NodeInfo{Addr: fmt.Sprintf("n%d", i), AZ: az}
		}
		return ns
	}
	ns := make([]NodeInfo, c.N)
	for i := range ns {
		ns[i] = NodeInfo{Addr: fmt.Sprintf("n%d", i), AZ: "y"}
	}
	ns[0].AZ = c.PrimAZ
	if c.Same > 0 && c.Same < c.N {
		ns[c.Same].AZ = c.ClientAZ
	}
	return ns
}

func c22selector(name, az string) ReadNodeSelectorFunc {
	switch name {
	case "prefer":
		return PreferReplicaNodeSelector()
	case "az":
		return AZAffinityNodeSelector(az)
	default:
		return AZAffinityReplicasAndPrimaryNodeSelector(az)
	}
}

// c22expect returns the rank that must be served and its candidates.
// must: every result has to be in this set. rotate: each of these has to show up.
func c22expect(sel string, nodes []NodeInfo, az string) (rank string, must map[int]bool, rotate []int) {
	n := len(nodes)
	must = map[int]bool{}
	if sel != "prefer" {
		for i := 1; i < n; i++ {
			if nodes[i].AZ == az {
				if i < 255 {
					rotate = append(rotate, i)
				}
				must[i] = true // a same-AZ replica beyond the first 255 nodes is still a fine answer
			}
		}
		if len(rotate) > 0 {
			return "same-az-replica", must, rotate
		}
		must = map[int]bool{}
	}
	if sel == "azrp" && n > 0 && nodes[0].AZ == az {
		must[0] = true
		must[-1] = true
		return "same-az-primary", must, nil
	}
	if n > 1 {
		for i := 1; i < n; i++ {
			must[i] = true
			rotate = append(rotate, i)
		}
		return "any-replica", must, rotate
	}
	must[-1] = true
	if n > 0 {
		must[0] = true
	}
	return "primary", must, nil
}

func c22check(r *vrun.Run, c c22case) {
	r.Evaluations++
	nodes := c.nodes()
	n := len(nodes)
	rank, must, rotate := c22expect(c.Sel, nodes, c.ClientAZ)
	r.Outcome(c.Sel + ":" + rank)
	var fn ReadNodeSelectorFunc
	seen := map[int]int{}
	var seq []int
	for call := 0; call < c.Calls; call++ {
		var got int
		p, site := vrun.Catch(func() {
			if fn == nil {
				fn = c22selector(c.Sel, c.ClientAZ)
			}
			got = fn(uint16(call), nodes)
		})
		if p != nil {
			r.Violate(c.Sel+": panic in "+site, fmt.Sprintf("%s: call %d panics: %v", c22desc(c), call, p), c)
			return
		}
		if len(seq) < 24 {
			seq = append(seq, got)
		}
		seen[got]++
		if got != -1 && (got < 0 || got >= n) {
			r.Violate(c.Sel+": result is neither -1 nor a valid index", fmt.Sprintf("%s: call %d returned %d (n=%d)", c22desc(c), call, got, n), c)
			return
		}
		if !must[got] {
			r.Violate(fmt.Sprintf("%s: wrong rank served, expected %s", c.Sel, rank), fmt.Sprintf("%s: call %d returned %d, expected one of %v (%s); first results %v", c22desc(c), call, got, c22keys(must), rank, seq), c)
			return
		}
	}
	var missing []int
	for _, i := range rotate {
		if seen[i] == 0 {
			missing = append(missing, i)
		}
	}
	if len(missing) > 0 {
		sig := fmt.Sprintf("%s: rotation never returns some %s candidates", c.Sel, rank)
		if rank == "same-az-replica" && len(rotate) > 8 {
			sig = fmt.Sprintf("%s: same-AZ replicas beyond the 8th are never selected (undocumented cap in pickAZ)", c.Sel)
		}
		r.Violate(sig, fmt.Sprintf("%s: over %d calls candidates %v were never returned (candidates %v); first results %v", c22desc(c), c.Calls, missing, c22short(rotate), seq), c)
	}
}

func c22keys(m map[int]bool) []int {
	var ks []int
	for k := range m {
		ks = append(ks, k)
	}
	sort.Ints(ks)
	return c22short(ks)
}

func c22short(v []int) []int {
	if len(v) > 16 {
		return v[:16]
	}
	return v
}

func c22desc(c c22case) string {
	if c.N == 0 {
		return fmt.Sprintf("selector %s clientAZ=%q node AZs=%q", c.Sel, c.ClientAZ, c.AZs)
	}
	return fmt.Sprintf("selector %s clientAZ=%q n=%d primaryAZ=%q only same-AZ replica at index %d (others AZ \"y\")", c.Sel, c.ClientAZ, c.N, c.PrimAZ, c.Same)
}

// c22interleave observes (does not judge) what happens when one selector value,
// which is what a cluster client has, serves two slots alternately.
func c22interleave(r *vrun.Run) {
	for _, sel := range []string{"prefer", "az", "azrp"} {
		a := []NodeInfo{{AZ: "x"}, {AZ: "x"}, {AZ: "x"}}
		b := []NodeInfo{{AZ: "x"}, {AZ: "x"}, {AZ: "x"}}
		fn := c22selector(sel, "x")
		seenA := map[int]bool{}
		for i := 0; i < 20; i++ {
			seenA[fn(1, a)] = true
			fn(2, b)
		}
		if len(seenA) < 2 {
			r.Outcome(sel + ":interleaved-two-slots:no-rotation-per-slot")
			r.Note(fmt.Sprintf("%s: one selector shared by two slots called alternately (each 1 primary + 2 same-AZ replicas) returns only %v for the first slot over 20 rounds: the shared counter advances by 2 between its calls. Not judged: the oracle only requires rotation over repeated calls on one list.", sel, c22keysB(seenA)))
		} else {
			r.Outcome(sel + ":interleaved-two-slots:rotates")
		}
	}
}

func c22keysB(m map[int]bool) []int {
	var ks []int
	for k := range m {
		ks = append(ks, k)
	}
	sort.Ints(ks)
	return ks
}

func TestVerif_C22(t *testing.T) {
	vrun.Main(t, "C22", func(r *vrun.Run) {
		r.Rule = "3 selectors x client AZ {x,\"\"} x every node list of length 0..6 (thorough 0..9) over AZ {x,y,\"\"} (index 0 = primary), each called 2n+1 times on a fresh selector; lists of length 9..12 with every replica in the client AZ and with alternating AZs; lists of length {254,255,256,257,300} whose only same-AZ replica sits at {none,1,7,8,9,253,254,255,256} with same-AZ / other-AZ primary. non-trivial = list with >=2 replicas (rotation observable) or length >= 254"
		if raw, ok := r.ReplayPayload(); ok {
			var c c22case
			if err := json.Unmarshal(raw, &c); err != nil {
				panic(err)
			}
			c22check(r, c)
			return
		}
		sels := []string{"prefer", "az", "azrp"}
		clientAZs := []string{"x", ""}
		azAlpha := []string{"x", "y", ""}
		maxN := vrun.Pick(r, 6, 12)
		r.Bounds["max_enumerated_len"] = maxN
		r.Bounds["az_alphabet"] = azAlpha
		r.Bounds["client_az"] = clientAZs
		item := 0
		one := func(c c22case) {
			item++
			if !r.Mine(item) {
				return
			}
			c22check(r, c)
			key := fmt.Sprintf("%s|%s|%s|%d|%d|%s", c.Sel, c.ClientAZ, strings.Join(c.AZs, ","), c.N, c.Same, c.PrimAZ)
			r.StateStr(key)
			if len(c.AZs) >= 3 || c.N >= 254 {
				r.NonTrivialStr(key)
			}
		}
		// 1. all small lists
		var rec func(azs []string)
		rec = func(azs []string) {
			for _, sel := range sels {
				for _, caz := range clientAZs {
					one(c22case{Sel: sel, ClientAZ: caz, AZs: append([]string{}, azs...), Calls: 2*len(azs) + 1})
				}
			}
			if len(azs) == maxN || r.TimeUp() {
				return
			}
			for _, a := range azAlpha {
				rec(append(azs, a))
			}
		}
		rec(nil)
		// 2. more than 8 same-AZ replicas
		for n := 9; n <= 12; n++ {
			all := make([]string, n)
			alt := make([]string, n)
			for i := range all {
				all[i] = "x"
				alt[i] = []string{"x", "y"}[i%2]
			}
			all[0] = "y"
			for _, sel := range sels {
				one(c22case{Sel: sel, ClientAZ: "x", AZs: all, Calls: 2*n + 1})
				one(c22case{Sel: sel, ClientAZ: "x", AZs: alt, Calls: 2*n + 1})
			}
		}
		// 3. around the 255 node cap
		larges := []int{254, 255, 256, 257, 300}
		sames := []int{0, 1, 7, 8, 9, 253, 254, 255, 256}
		r.Bounds["large_lengths"] = larges
		r.Bounds["same_az_replica_index"] = sames
		for _, n := range larges {
			for _, same := range sames {
				if same >= n {
					continue
				}
				for _, prim := range []string{"x", "y"} {
					for _, sel := range sels {
						c := c22case{Sel: sel, ClientAZ: "x", N: n, Same: same, PrimAZ: prim, Calls: 2*n + 1}
						one(c)
						if same == 254 && n == 255 && prim == "y" && sel == "az" {
							r.Sample(map[string]any{"case": c, "expect": "always 254 (last of the first 255 nodes)"})
						}
					}
				}
			}
		}
		if r.Mine(0) {
			c22interleave(r)
		}
		r.Sample(map[string]any{"case": c22case{Sel: "azrp", ClientAZ: "x", AZs: []string{"x", "y", "y"}, Calls: 7}, "expect": "same-az-primary: always 0 (or -1)"})
		r.Sample(map[string]any{"case": c22case{Sel: "az", ClientAZ: "x", AZs: []string{"y", "x", "y", "x"}, Calls: 9}, "expect": "same-az-replica: only 1 and 3, both returned"})
		r.Assume("index 0 is the primary, indices >= 1 are replicas (cluster.go / standalone.go build the lists that way)")
		r.Assume("'same AZ' is string equality of NodeInfo.AZ and the client AZ, including the empty string")
		r.Assume("-1 and 0 are both accepted as 'primary' (callers map out-of-range to the primary)")
		r.Assume("rotation is judged over repeated calls of a fresh selector on ONE list; interleaving of several lists through one selector is only observed (see notes)")
		r.Assume("a same-AZ replica beyond index 254 is accepted but not required (statement: 'among the first 255 nodes')")
	})
}
