//go:build verif

package rueidis

import (
	"context"
	"encoding/json"
	"errors"
	"fmt"
	"sort"
	"strconv"
	"strings"
	"sync"
	"testing"
	"time"

	"github.com/redis/rueidis/vshim/vrun"
)

// C20: cluster DoMulti / DoMultiCache keep order and transaction integrity.
//
// A real clusterClient (newClusterClient) runs over three fake primaries (mockConn) that own one
// third of the slot space each. Every user command carries a unique tag which the fake node
// echoes, so that results[i] can be compared with the reply the fake cluster produced for
// command i. A script decides per member and per attempt whether the node answers ok, -MOVED,
// -ASK, -TRYAGAIN or with a transport failure (which, like a broken connection, also fails the
// rest of that pipeline call).

const (
	c20OK = iota
	c20Moved0
	c20Moved1
	c20Moved2
	c20Ask0
	c20Ask1
	c20Ask2
	c20TryAgain
	c20Xport
	c20Dead // tail of a call whose connection broke (not scriptable)
	c20None // never sent
)

var c20kindName = []string{"ok", "moved0", "moved1", "moved2", "ask0", "ask1", "ask2", "tryagain", "xport", "dead", "none"}

var c20keys = [3]string{"b", "c", "a"} // slots 3300, 7365, 15495 -> node 0, 1, 2
var c20slots = [3]int{3300, 7365, 15495}
var c20addrs = [3]string{"127.0.0.1:7000", "127.0.0.1:7001", "127.0.0.1:7002"}

type c20case struct {
	API    string   `json:"api"`              // "multi" (DoMulti) or "cache" (DoMultiCache)
	Items  []string `json:"items"`            // R<s> read, W<s> write, C<s> cacheable read (s = slot index 0..2), E slot-less ECHO, M MULTI, X EXEC
	Static string   `json:"static,omitempty"` // cache: "" none, "all", "alt" (even members) marked ToStaticTTL
	Script [][3]int `json:"script"`           // member index, attempt (1-based), outcome kind
	// NoOwner: the client's slot table has no owner for the batch's slots when the call starts, so the call itself
	// refreshes the topology and picks again (only combined with scripts without MOVED, which would schedule a
	// wall-clock driven background refresh)
	NoOwner bool `json:"no_owner,omitempty"`
}

type c20member struct {
	kind      byte
	slot      int // -1 for slot-less
	tag       string
	inBlock   bool // between MULTI and EXEC (inclusive)
	retryable bool
}

type c20run struct {
	c         c20case
	mem       []c20member
	blockLo   int
	blockHi   int
	script    map[[2]int]int
	attempt   []int
	last      []int
	lastNode  []int
	lastReply []string
	calls     []string
	viol      [][2]string
	faults    []string
	learned   bool // a node answered MOVED to itself: the client re-dials it and re-points that slot (learned topology)
}

func (run *c20run) violate(sig, detail string) {
	run.viol = append(run.viol, [2]string{sig, detail})
}

type c20world struct {
	mu     sync.Mutex
	run    *c20run
	slots  RedisResult
	nslots int
}

func c20newWorld() *c20world {
	w := &c20world{}
	var groups []RedisMessage
	bounds := [][2]int64{{0, 5460}, {5461, 10922}, {10923, 16383}}
	for i, b := range bounds {
		port, _ := strconv.ParseInt(strings.Split(c20addrs[i], ":")[1], 10, 64)
		groups = append(groups, slicemsg('*', []RedisMessage{
			{typ: ':', intlen: b[0]},
			{typ: ':', intlen: b[1]},
			slicemsg('*', []RedisMessage{strmsg('+', "127.0.0.1"), {typ: ':', intlen: port}, strmsg('+', "")}),
		}))
	}
	w.slots = NewResult(slicemsg('*', groups), nil)
	return w
}

func (w *c20world) conn(dst string, _ *ClientOption) conn {
	node := -1
	for i, a := range c20addrs {
		if a == dst {
			node = i
		}
	}
	if node < 0 {
		panic("c20: unexpected address " + dst)
	}
	return &mockConn{
		AddrFn: func() string { return dst },
		DoFn: func(cmd Completed) RedisResult {
			if c := cmd.Commands(); len(c) == 2 && c[0] == "CLUSTER" && c[1] == "SLOTS" {
				w.mu.Lock()
				w.nslots++
				w.mu.Unlock()
				return w.slots
			}
			return w.exec(node, [][]string{append([]string(nil), cmd.Commands()...)}, "Do")[0]
		},
		DoMultiFn: func(multi ...Completed) *redisresults {
			argv := make([][]string, len(multi))
			for i, c := range multi {
				argv[i] = append([]string(nil), c.Commands()...)
			}
			return &redisresults{s: w.exec(node, argv, "DoMulti")}
		},
		DoCacheFn: func(cmd Cacheable, ttl time.Duration) RedisResult {
			return w.exec(node, [][]string{append([]string(nil), cmd.Commands()...)}, "DoCache")[0]
		},
		DoMultiCacheFn: func(multi ...CacheableTTL) *redisresults {
			argv := make([][]string, len(multi))
			for i, c := range multi {
				argv[i] = append([]string(nil), c.Cmd.Commands()...)
			}
			return &redisresults{s: w.exec(node, argv, "DoMultiCache")}
		},
	}
}

func c20client(w *c20world) (*clusterClient, error) {
	return newClusterClient(&ClientOption{InitAddress: []string{c20addrs[0]}}, w.conn,
		newRetryer(func(int, Completed, error) time.Duration { return 0 }))
}

// member index of the command at one position of a call, -1 for protocol commands
func (run *c20run) memberOf(a []string) int {
	switch a[0] {
	case "MULTI":
		if run.blockLo >= 0 {
			return run.blockLo
		}
		return -1
	case "EXEC":
		if run.blockLo >= 0 {
			return run.blockHi
		}
		return -1
	case "HGET", "SET", "ECHO":
		t := a[len(a)-1]
		if strings.HasPrefix(t, "t") {
			if i, err := strconv.Atoi(t[1:]); err == nil && i >= 0 && i < len(run.mem) {
				return i
			}
		}
	}
	return -1
}

func c20target(kind int) int {
	switch kind {
	case c20Moved0, c20Ask0:
		return 0
	case c20Moved1, c20Ask1:
		return 1
	case c20Moved2, c20Ask2:
		return 2
	}
	return -1
}

func c20isMoved(k int) bool { return k >= c20Moved0 && k <= c20Moved2 }
func c20isAsk(k int) bool   { return k >= c20Ask0 && k <= c20Ask2 }
func c20isRetry(k int) bool { return k == c20TryAgain || k == c20Xport || k == c20Dead }

// exec is one pipeline call received by a fake node.
func (w *c20world) exec(node int, argv [][]string, api string) []RedisResult {
	w.mu.Lock()
	defer w.mu.Unlock()
	run := w.run
	out := make([]RedisResult, len(argv))
	if run == nil {
		for i := range out {
			out[i] = NewResult(strmsg('-', "ERR c20 no case active"), nil)
		}
		return out
	}
	parts := make([]string, len(argv))
	idx := make([]int, len(argv))
	for i, a := range argv {
		parts[i] = strings.Join(a, " ")
		idx[i] = run.memberOf(a)
	}
	call := fmt.Sprintf("n%d.%s[%s]", node, api, strings.Join(parts, " | "))
	run.calls = append(run.calls, call)

	// --- ASKING flag as a Redis server keeps it: set by ASKING, dropped after the next command unless a MULTI is open
	askAt := make([]bool, len(argv))
	{
		asking, inTx := false, false
		for p, a := range argv {
			askAt[p] = asking
			switch a[0] {
			case "ASKING":
				asking = true
				continue
			case "MULTI":
				inTx = true
			case "EXEC":
				inTx = false
			}
			if !inTx {
				asking = false
			}
		}
	}

	// --- transaction integrity: members of the user's MULTI..EXEC block only ever travel as the whole contiguous block
	blockAt := -1
	if run.blockLo >= 0 {
		first := -1
		n := 0
		for p, m := range idx {
			if m >= run.blockLo && m <= run.blockHi {
				if first < 0 {
					first = p
				}
				n++
			}
		}
		if n > 0 {
			okBlock := n == run.blockHi-run.blockLo+1 && first+n <= len(idx)
			for k := 0; okBlock && k < n; k++ {
				if idx[first+k] != run.blockLo+k {
					okBlock = false
				}
			}
			if !okBlock {
				run.violate("DoMulti: MULTI..EXEC block not sent as one contiguous unit", "call "+call)
			} else {
				blockAt = first
			}
		}
	}

	// --- is this arrival legitimate? (judged on the state before this call)
	if blockAt >= 0 {
		resend := false
		for m := run.blockLo; m <= run.blockHi; m++ {
			if run.attempt[m] > 0 {
				resend = true
			}
		}
		if !resend {
			for m := run.blockLo + 1; m < run.blockHi; m++ {
				if run.mem[m].slot >= 0 && run.mem[m].slot != node {
					run.violate("DoMulti: first send goes to a node that does not own the slot", fmt.Sprintf("block member %s (slot of key %q, owner n%d) first sent in %s", run.mem[m].tag, c20keys[run.mem[m].slot], run.mem[m].slot, call))
					break
				}
			}
		} else {
			cause, redirectHere, movedHere, askHere, retryCause, xportOnly := false, false, false, false, false, true
			for m := run.blockLo; m <= run.blockHi; m++ {
				l := run.last[m]
				switch {
				case c20isMoved(l) || c20isAsk(l):
					cause = true
					xportOnly = false
					if c20target(l) == node {
						redirectHere = true
						if c20isMoved(l) {
							movedHere = true
						} else {
							askHere = true
						}
					}
				case c20isRetry(l) && run.mem[m].retryable:
					cause = true
					retryCause = true
					if l == c20TryAgain {
						xportOnly = false
					}
				}
			}
			switch {
			case !cause:
				run.violate("DoMulti: MULTI..EXEC block re-sent without a redirect or retryable failure of a retryable member", "call "+call+"; previous outcomes "+run.lastDesc())
			case !redirectHere && !retryCause:
				run.violate("DoMulti: redirected MULTI..EXEC block re-sent to a node no member was redirected to", "call "+call+"; previous outcomes "+run.lastDesc())
			case redirectHere && askHere && !movedHere && !retryCause && !askAt[blockAt]:
				run.violate("DoMulti: MULTI..EXEC block re-sent after ASK without ASKING immediately before MULTI", "call "+call)
			}
			if cause && xportOnly {
				hasWrite := false
				for m := run.blockLo + 1; m < run.blockHi; m++ {
					if !run.mem[m].retryable {
						hasWrite = true
					}
				}
				if hasWrite {
					run.violate("DoMulti: MULTI..EXEC block containing a non-retryable write is re-sent whole after a transport error", "call "+call+"; previous outcomes "+run.lastDesc())
				}
			}
		}
	}
	for p, m := range idx {
		if m < 0 || run.mem[m].inBlock { // block members are judged as a block above
			continue
		}
		mem := run.mem[m]
		l := run.last[m]
		switch {
		case l == c20None:
			if mem.slot >= 0 && mem.slot != node {
				run.violate(run.c.API+": first send goes to a node that does not own the slot", fmt.Sprintf("%s (key %q, owner n%d) first sent in %s", mem.tag, c20keys[mem.slot], mem.slot, call))
			}
		case c20isMoved(l):
			if c20target(l) != node {
				run.violate(run.c.API+": command re-sent to the wrong node after MOVED", fmt.Sprintf("%s was answered %s but re-sent in %s", mem.tag, c20kindName[l], call))
			}
		case c20isAsk(l):
			if c20target(l) != node {
				run.violate(run.c.API+": command re-sent to the wrong node after ASK", fmt.Sprintf("%s was answered %s but re-sent in %s", mem.tag, c20kindName[l], call))
			} else if !askAt[p] {
				run.violate(run.c.API+": command re-sent after ASK without ASKING in effect", fmt.Sprintf("%s was answered %s; re-sent in %s", mem.tag, c20kindName[l], call))
			}
		case c20isRetry(l):
			if !mem.retryable {
				run.violate(run.c.API+": non-retryable command re-sent after "+map[bool]string{true: "TRYAGAIN", false: "a transport error"}[l == c20TryAgain], fmt.Sprintf("%s re-sent in %s", mem.tag, call))
			}
		case l == c20OK:
			run.violate(run.c.API+": command re-sent although it was answered", fmt.Sprintf("%s re-sent in %s", mem.tag, call))
		}
	}

	// --- execute
	dead, inTx, userTx, txAbort := false, false, false, false
	var queued []RedisMessage
	deadErr := error(nil)
	for p, a := range argv {
		m := idx[p]
		if m >= 0 {
			run.attempt[m]++
			run.lastNode[m] = node
		}
		if dead {
			out[p] = NewErrorResult(deadErr)
			if m >= 0 {
				run.last[m] = c20Dead
				run.lastReply[m] = "err:" + deadErr.Error()
			}
			continue
		}
		kind := c20OK
		if m >= 0 {
			if k, ok := run.script[[2]int{m, run.attempt[m]}]; ok {
				kind = k
				run.faults = append(run.faults, fmt.Sprintf("%d@%d:%s", m, run.attempt[m], c20kindName[k]))
			}
		}
		var reply RedisMessage
		switch {
		case kind == c20Xport:
			dead = true
			deadErr = errors.New("c20 transport failure at " + run.mem[m].tag)
			out[p] = NewErrorResult(deadErr)
			run.last[m] = c20Xport
			run.lastReply[m] = "err:" + deadErr.Error()
			continue
		case c20isMoved(kind) || c20isAsk(kind):
			word := "MOVED"
			if c20isAsk(kind) {
				word = "ASK"
			}
			slot := 0
			if run.mem[m].slot >= 0 {
				slot = c20slots[run.mem[m].slot]
			}
			reply = strmsg('-', fmt.Sprintf("%s %d %s", word, slot, c20addrs[c20target(kind)]))
			if c20isMoved(kind) {
				run.learned = true
			}
			if inTx {
				txAbort = true
			}
		case kind == c20TryAgain:
			reply = strmsg('-', "TRYAGAIN "+run.mem[m].tag)
			if inTx {
				txAbort = true
			}
		default:
			switch a[0] {
			case "MULTI":
				if inTx {
					reply = strmsg('-', "ERR MULTI calls can not be nested")
				} else {
					inTx, userTx, txAbort, queued = true, m >= 0, false, nil
					reply = strmsg('+', "OK")
				}
			case "EXEC":
				switch {
				case !inTx:
					reply = strmsg('-', "ERR EXEC without MULTI")
				case txAbort:
					reply = strmsg('-', "EXECABORT Transaction discarded because of previous errors.")
				default:
					reply = slicemsg('*', queued)
				}
				inTx = false
			case "ASKING", "CLIENT":
				reply = strmsg('+', "OK")
			case "PTTL":
				v := RedisMessage{typ: ':', intlen: -1}
				if inTx {
					queued = append(queued, v)
					reply = strmsg('+', "QUEUED")
				} else {
					reply = v
				}
			default:
				if m < 0 {
					reply = strmsg('-', "ERR c20 unknown command "+parts[p])
					run.violate(run.c.API+": node received a command the user never issued", "call "+call)
				} else if inTx {
					queued = append(queued, strmsg('$', run.mem[m].tag))
					reply = strmsg('+', "QUEUED")
				} else {
					reply = strmsg('$', run.mem[m].tag)
				}
			}
		}
		out[p] = NewResult(reply, nil)
		if m >= 0 {
			run.last[m] = kind
			if kind == c20OK && inTx && !userTx && a[0] != "MULTI" {
				// client generated MULTI/EXEC wrapper: the user sees the value taken out of the EXEC reply
				run.lastReply[m] = "str:" + run.mem[m].tag
			} else {
				run.lastReply[m] = c20renderMsg(reply)
			}
		}
	}
	return out
}

func (run *c20run) lastDesc() string {
	var b []string
	for i, m := range run.mem {
		b = append(b, m.tag+"="+c20kindName[run.last[i]])
	}
	return strings.Join(b, ",")
}

func c20renderMsg(m RedisMessage) string {
	switch m.typ {
	case '-', '!':
		return "rerr:" + m.string()
	case '+', '$':
		return "str:" + m.string()
	case ':':
		return "int:" + strconv.FormatInt(m.intlen, 10)
	case '_':
		return "nil"
	case '*':
		var p []string
		for _, v := range m.values() {
			p = append(p, c20renderMsg(v))
		}
		return "[" + strings.Join(p, " ") + "]"
	}
	return fmt.Sprintf("typ%c", m.typ)
}

func c20render(r RedisResult) string {
	if err := r.NonRedisError(); err != nil {
		if re, ok := err.(*RedisError); ok {
			return "rerr:" + re.Error()
		}
		return "err:" + err.Error()
	}
	return c20renderMsg(r.val)
}

func c20prepare(c c20case) (*c20run, error) {
	run := &c20run{c: c, blockLo: -1, blockHi: -1, script: map[[2]int]int{}}
	for i, it := range c.Items {
		m := c20member{kind: it[0], slot: -1, tag: "t" + strconv.Itoa(i)}
		switch it[0] {
		case 'R', 'W', 'C':
			if len(it) != 2 || it[1] < '0' || it[1] > '2' {
				return nil, fmt.Errorf("bad item %q", it)
			}
			m.slot = int(it[1] - '0')
			m.retryable = it[0] != 'W'
		case 'E':
		case 'M':
			m.tag = "MULTI"
			run.blockLo = i
		case 'X':
			m.tag = "EXEC"
			run.blockHi = i
		default:
			return nil, fmt.Errorf("bad item %q", it)
		}
		run.mem = append(run.mem, m)
	}
	if (run.blockLo >= 0) != (run.blockHi >= 0) || run.blockHi < run.blockLo {
		return nil, fmt.Errorf("bad block")
	}
	for i := range run.mem {
		if run.blockLo >= 0 && i >= run.blockLo && i <= run.blockHi {
			run.mem[i].inBlock = true
		}
	}
	for _, s := range c.Script {
		run.script[[2]int{s[0], s[1]}] = s[2]
	}
	n := len(run.mem)
	run.attempt = make([]int, n)
	run.last = make([]int, n)
	run.lastNode = make([]int, n)
	run.lastReply = make([]string, n)
	for i := range run.last {
		run.last[i] = c20None
	}
	return run, nil
}

type c20env struct {
	w  *c20world
	cl *clusterClient
}

func c20newEnv() *c20env {
	w := c20newWorld()
	cl, err := c20client(w)
	if err != nil {
		panic(fmt.Sprintf("c20: newClusterClient: %v", err))
	}
	for i, k := range c20keys {
		cmd := cl.B().Get().Key(k).Build()
		if int(cmd.Slot()) != c20slots[i] {
			panic(fmt.Sprintf("c20: slot of %q is %d", k, cmd.Slot()))
		}
	}
	// Suppress the client's background topology refresh (lazyRefresh: a goroutine that sleeps a random delay of
	// up to 1 s and then re-reads CLUSTER SLOTS): it is wall-clock driven, and with a static topology it changes
	// nothing. Occupying the single-flight slot makes every lazyRefresh a no-op.
	cl.sc.mu.Lock()
	cl.sc.ch = make(chan struct{})
	cl.sc.mu.Unlock()
	return &c20env{w: w, cl: cl}
}

// forget drops what the long-lived client learned from -MOVED answers of the previous case (it re-points the
// slot to the MOVED target), which is exactly what its next topology refresh does: every key slot points to
// the connection of its owner again. Only used between independent cases on the shared client.
func (env *c20env) forget() {
	cl := env.cl
	cl.mu.Lock()
	for i, s := range c20slots {
		cl.wslots[s] = cl.conns[c20addrs[i]].conn
	}
	cl.mu.Unlock()
}

// c20runCase executes one case on env and returns the violations (sig, detail) and the run for statistics.
func c20runCase(env *c20env, c c20case) (*c20run, [][2]string) {
	run, err := c20prepare(c)
	if err != nil {
		panic(err)
	}
	env.w.mu.Lock()
	env.w.run = run
	env.w.mu.Unlock()
	defer func() {
		env.w.mu.Lock()
		env.w.run = nil
		env.w.mu.Unlock()
	}()
	cl := env.cl
	ctx := context.Background()
	var res []RedisResult
	var p any
	var site string
	if c.NoOwner {
		cl.sc.mu.Lock()
		occupied := cl.sc.ch
		cl.sc.ch = nil // let the synchronous refresh of this call through
		cl.sc.mu.Unlock()
		cl.mu.Lock()
		for _, s := range c20slots {
			cl.wslots[s] = nil
		}
		cl.mu.Unlock()
		defer func() {
			cl.sc.mu.Lock()
			if cl.sc.ch == nil {
				cl.sc.ch = occupied
			}
			cl.sc.mu.Unlock()
			env.forget()
		}()
	}
	if c.API == "multi" {
		cmdsIn := make([]Completed, len(run.mem))
		for i, m := range run.mem {
			switch m.kind {
			case 'R':
				cmdsIn[i] = cl.B().Hget().Key(c20keys[m.slot]).Field(m.tag).Build()
			case 'W':
				cmdsIn[i] = cl.B().Set().Key(c20keys[m.slot]).Value(m.tag).Build()
			case 'E':
				cmdsIn[i] = cl.B().Echo().Message(m.tag).Build()
			case 'M':
				cmdsIn[i] = cl.B().Multi().Build()
			case 'X':
				cmdsIn[i] = cl.B().Exec().Build()
			}
		}
		p, site = vrun.Catch(func() { res = cl.DoMulti(ctx, cmdsIn...) })
	} else {
		cmdsIn := make([]CacheableTTL, len(run.mem))
		for i, m := range run.mem {
			cc := cl.B().Hget().Key(c20keys[m.slot]).Field(m.tag).Cache()
			if c.Static == "all" || (c.Static == "alt" && i%2 == 0) {
				cc = cc.ToStaticTTL()
			}
			cmdsIn[i] = CT(cc, time.Minute)
		}
		p, site = vrun.Catch(func() { res = cl.DoMultiCache(ctx, cmdsIn...) })
	}
	env.w.mu.Lock()
	defer env.w.mu.Unlock()
	viol := run.viol
	name := map[string]string{"multi": "DoMulti", "cache": "DoMultiCache"}[c.API]
	if p != nil {
		viol = append(viol, [2]string{name + ": panic in " + site, fmt.Sprintf("%v", p)})
		return run, viol
	}
	if len(res) != len(run.mem) {
		viol = append(viol, [2]string{name + ": number of results differs from number of commands", fmt.Sprintf("%d results for %d commands", len(res), len(run.mem))})
		return run, viol
	}
	for i := range res {
		got := c20render(res[i])
		if run.attempt[i] == 0 {
			viol = append(viol, [2]string{name + ": a command was never sent to any node", fmt.Sprintf("member %d (%s): result %s", i, run.mem[i].tag, got)})
			continue
		}
		if strings.HasPrefix(got, "rerr:MOVED ") || strings.HasPrefix(got, "rerr:ASK ") {
			viol = append(viol, [2]string{name + ": a redirect (-MOVED/-ASK) is returned to the caller instead of being followed", fmt.Sprintf("member %d (%s %s): result %s (MaxMovedRedirections is unlimited; a redirected MULTI..EXEC block has to be re-sent whole)", i, c.Items[i], run.mem[i].tag, got)})
		} else if run.mem[i].retryable && !run.mem[i].inBlock && got != "str:"+run.mem[i].tag {
			viol = append(viol, [2]string{name + ": a retryable command outside a transaction ends with a retryable failure although retries are unlimited", fmt.Sprintf("member %d (%s %s): result %s", i, c.Items[i], run.mem[i].tag, got)})
		}
		if got != run.lastReply[i] {
			viol = append(viol, [2]string{name + ": results[i] is not the reply the cluster gave to command i", fmt.Sprintf("member %d (%s %s): result %s, the fake cluster's last reply to it was %s", i, c.Items[i], run.mem[i].tag, got, run.lastReply[i])})
		}
	}
	return run, viol
}

func c20desc(c c20case, run *c20run) string {
	var sc []string
	for _, s := range c.Script {
		sc = append(sc, fmt.Sprintf("member %d attempt %d -> %s", s[0], s[1], c20kindName[s[2]]))
	}
	d := fmt.Sprintf("api=%s items=%v static=%q script=[%s]", c.API, c.Items, c.Static, strings.Join(sc, "; "))
	if run != nil {
		d += "\n  node calls: " + strings.Join(run.calls, "\n              ")
	}
	return d
}

func c20report(r *vrun.Run, c c20case, run *c20run, viol [][2]string) {
	seen := map[string]bool{}
	for _, v := range viol {
		if seen[v[0]] {
			continue
		}
		seen[v[0]] = true
		r.Violate(v[0], v[1]+"\n  case: "+c20desc(c, run), c)
	}
}

// ---- enumeration

// restricted growth strings over <=3 slots: slot index sequences canonical under renaming of slots
func c20rgs(n int) [][]int {
	var out [][]int
	var rec func(cur []int, mx int)
	rec = func(cur []int, mx int) {
		if len(cur) == n {
			out = append(out, append([]int(nil), cur...))
			return
		}
		for s := 0; s <= mx+1 && s < 3; s++ {
			nm := mx
			if s > mx {
				nm = s
			}
			rec(append(cur, s), nm)
		}
	}
	rec(nil, -1)
	return out
}

func c20batches(maxLen int, slotsForTx []int, txOnly bool) []c20case {
	var out []c20case
	// F1: keyed reads/writes over up to 3 slots (with duplicates), DoMulti
	for n := 1; n <= maxLen && !txOnly; n++ {
		for _, sl := range c20rgs(n) {
			for mask := 0; mask < 1<<n; mask++ {
				items := make([]string, n)
				for i := range items {
					k := "R"
					if mask>>i&1 == 1 {
						k = "W"
					}
					items[i] = k + strconv.Itoa(sl[i])
				}
				out = append(out, c20case{API: "multi", Items: items})
			}
		}
	}
	// F2: one slot plus slot-less commands and an optional MULTI..EXEC block, DoMulti
	for _, s := range slotsForTx {
		ss := strconv.Itoa(s)
		alpha := []string{"R" + ss, "W" + ss, "E"}
		for n := 1; n <= maxLen; n++ {
			// no block, at least one E
			var rec func(cur []string)
			rec = func(cur []string) {
				if len(cur) == n {
					hasE := false
					for _, x := range cur {
						if x == "E" {
							hasE = true
						}
					}
					if hasE {
						out = append(out, c20case{API: "multi", Items: append([]string(nil), cur...)})
					}
					return
				}
				for _, a := range alpha {
					rec(append(cur, a))
				}
			}
			rec(nil)
			// one block lo<hi
			for lo := 0; lo < n; lo++ {
				for hi := lo + 1; hi < n; hi++ {
					var rec2 func(cur []string)
					rec2 = func(cur []string) {
						if len(cur) == n {
							out = append(out, c20case{API: "multi", Items: append([]string(nil), cur...)})
							return
						}
						switch len(cur) {
						case lo:
							rec2(append(cur, "M"))
						case hi:
							rec2(append(cur, "X"))
						default:
							for _, a := range alpha {
								rec2(append(cur, a))
							}
						}
					}
					rec2(nil)
				}
			}
		}
	}
	// F3: cacheable reads, DoMultiCache
	for n := 1; n <= maxLen && !txOnly; n++ {
		for _, sl := range c20rgs(n) {
			for _, st := range []string{"", "all", "alt"} {
				items := make([]string, n)
				for i := range items {
					items[i] = "C" + strconv.Itoa(sl[i])
				}
				out = append(out, c20case{API: "cache", Items: items, Static: st})
			}
		}
	}
	return out
}

// c20scripts enumerates all scripts with at most 2 non-ok outcomes for a batch.
func c20scripts(c c20case, each func(script [][3]int) bool) {
	type pt struct{ m, a, k int }
	hasBlock := false
	for _, it := range c.Items {
		if it == "M" {
			hasBlock = true
		}
	}
	var first, second []pt
	for m, it := range c.Items {
		kinds := []int{c20Xport}
		if it[0] == 'R' || it[0] == 'W' || it[0] == 'C' {
			kinds = []int{c20Moved0, c20Moved1, c20Moved2, c20Ask0, c20Ask1, c20Ask2, c20TryAgain, c20Xport}
		}
		for _, k := range kinds {
			first = append(first, pt{m, 1, k})
			second = append(second, pt{m, 2, k})
		}
	}
	if !each(nil) {
		return
	}
	for _, p := range first {
		if !each([][3]int{{p.m, p.a, p.k}}) {
			return
		}
	}
	for i, p := range first {
		for _, q := range first[i+1:] {
			if q.m == p.m {
				continue
			}
			if !each([][3]int{{p.m, p.a, p.k}, {q.m, q.a, q.k}}) {
				return
			}
		}
		for _, q := range second {
			// a second attempt exists if the member itself failed first, or it is re-sent with others:
			// with its transaction block, or because it sat behind a broken connection
			if q.m != p.m && !hasBlock && !(p.k == c20Xport && q.m > p.m) {
				continue
			}
			if !each([][3]int{{p.m, p.a, p.k}, {q.m, q.a, q.k}}) {
				return
			}
		}
	}
}

func TestVerif_C20(t *testing.T) {
	vrun.Main(t, "C20", func(r *vrun.Run) {
		r.Rule = "real clusterClient over 3 fake primaries (slots of keys b,c,a). Batches of length <= L: (F1) every sequence of reads/writes over <=3 slots up to renaming of slots (duplicates included); (F2) every sequence over {read,write of one slot, slot-less ECHO} containing an ECHO, and every such sequence with one MULTI..EXEC block at every position pair; (F3) every sequence of cacheable reads over <=3 slots x ToStaticTTL {none,all,alternating} through DoMultiCache. x every script of <=2 non-ok outcomes (member, attempt 1|2) from {MOVED->n0..n2, ASK->n0..n2, TRYAGAIN, transport failure (breaks the rest of that pipeline call)}; slot-less members only fail by transport. L = 4 (thorough 5; thorough also runs F2 on a second node's slot and F3 with length 6). non-trivial = at least one scripted fault was actually hit"
		if raw, ok := r.ReplayPayload(); ok {
			var c c20case
			if err := json.Unmarshal(raw, &c); err != nil {
				panic(err)
			}
			env := c20newEnv()
			run, viol := c20runCase(env, c)
			r.Evaluations++
			c20report(r, c, run, viol)
			env.cl.Close()
			return
		}
		maxLen := vrun.Pick(r, 4, 5)
		r.Bounds["max_batch_len"] = maxLen
		r.Bounds["max_faults_per_batch"] = 2
		r.Bounds["attempts_scripted"] = 2
		r.Bounds["nodes"] = 3
		// F2 uses the slot of node 0 (which also serves batches of slot-less commands only); the thorough tier
		// repeats F2 with the slot of node 1 and adds the DoMultiCache batches of length 6
		batches := c20batches(maxLen, []int{0}, false)
		if !r.Quick() {
			batches = append(batches, c20batches(maxLen, []int{1}, true)...)
			for _, b := range c20batches(maxLen+1, nil, false) {
				if b.API == "cache" && len(b.Items) == maxLen+1 {
					batches = append(batches, b)
				}
			}
		}
		r.Bounds["batches"] = len(batches)
		env := c20newEnv()
		defer env.cl.Close()
		stop := false
		for bi, b := range batches {
			if !r.Mine(bi) || stop {
				continue
			}
			c20scripts(b, func(script [][3]int) bool {
				c := b
				c.Script = script
				run, viol := c20runCase(env, c)
				if run.learned {
					env.forget()
				}
				r.Evaluations++
				sort.Strings(run.faults)
				key := c.API + "|" + strings.Join(c.Items, ",") + "|" + c.Static + "|" + strings.Join(run.faults, ",")
				if r.StateStr(key) {
					cls := map[string]bool{}
					for _, f := range run.faults {
						k := f[strings.Index(f, ":")+1:]
						cls[strings.TrimRight(k, "012")] = true
					}
					var ks []string
					for k := range cls {
						ks = append(ks, k)
					}
					sort.Strings(ks)
					o := c.API
					if run.blockLo >= 0 {
						o += "+tx"
					}
					if len(ks) == 0 {
						o += ":clean"
					} else {
						o += ":" + strings.Join(ks, "+")
					}
					r.Outcome(o)
				}
				if len(run.faults) > 0 {
					r.NonTrivialStr(key)
				}
				if len(viol) > 0 {
					// confirm on a fresh client so that the replay (which uses a fresh client) sees the same
					fresh := c20newEnv()
					run2, viol2 := c20runCase(fresh, c)
					fresh.cl.Close()
					if len(viol2) > 0 {
						c20report(r, c, run2, viol2)
					} else {
						r.Note("violation seen only on the long-lived client, not reproducible on a fresh one: " + viol[0][0] + " / " + c20desc(c, run))
					}
				} else if r.WantSample() && len(run.faults) == 2 && run.blockLo >= 0 {
					r.Sample(map[string]any{"case": c, "node_calls": run.calls, "results_checked": run.lastReply})
				}
				noMoved := true
				for _, f := range script {
					if f[2] >= 1 && f[2] <= 3 { // moved0..moved2
						noMoved = false
					}
				}
				if noMoved && (run.blockLo >= 0 || len(script) <= 1) {
					c2 := c
					c2.NoOwner = true
					r.Evaluations++
					r.StateStr(key + "|noowner")
					if run2, viol2 := c20runCase(env, c2); len(viol2) > 0 {
						fresh := c20newEnv()
						run3, viol3 := c20runCase(fresh, c2)
						fresh.cl.Close()
						if len(viol3) > 0 {
							c20report(r, c2, run3, viol3)
						} else {
							r.Note("violation seen only on the long-lived client (no-owner variant): " + viol2[0][0] + " / " + c20desc(c2, run2))
						}
					}
				}
				if r.Evaluations%2000 == 0 && r.TimeUp() {
					stop = true
					return false
				}
				return true
			})
		}
		r.Bounds["cluster_slots_queries_seen"] = env.w.nslots
		r.Assume("the fake nodes follow the Redis cluster protocol: a node answers a command it received after -ASK only if ASKING is in effect (ASKING survives until the next command, or until EXEC if that command is MULTI); a command inside MULTI that is answered with an error makes EXEC answer -EXECABORT")
		r.Assume("a transport failure of one command also fails all later commands of the same pipeline call (broken connection)")
		r.Assume("results[i] must equal the LAST reply the fake cluster produced for command i (the client may not return a stale reply of an earlier attempt)")
		r.Assume("batches mixing slot-less commands with more than one slot are outside the contract (DoMulti panics with a documented message) and are not enumerated")
		r.Assume("redirects are always followed (ClusterOption.MaxMovedRedirections = 0) and retryable commands are retried without limit (RetryDelayFn = 0), so with at most 2 scripted faults no -MOVED/-ASK may surface and a read outside a transaction must end with its value")
		r.Assume("a redirected MULTI..EXEC block may be re-sent to the target of any of its redirected members")
		r.Assume("retry delay is 0 (custom RetryDelayFn) so that no wall-clock waiting happens; the topology is static and the client's delayed background refresh (lazyRefresh) is suppressed by occupying its single-flight slot; what the client learns from -MOVED is reset between cases")
	})
}
