//go:build verif

package rueidis

import (
	"context"
	"crypto/sha1"
	"encoding/hex"
	"encoding/json"
	"errors"
	"fmt"
	"strconv"
	"strings"
	"testing"

	"github.com/redis/rueidis/vshim/simredis"
	"github.com/redis/rueidis/vshim/vrun"
)

// C30: Lua.Exec / Lua.ExecMulti run the script body at most once per LuaExec and follow the
// EVALSHA -> (NOSCRIPT) -> EVAL protocol.
//
// Every scenario builds a fresh fake server (simredis + mini-Lua executing the script text the
// library really sends), one command-level client session and one *Lua object, then performs
// 2 (thorough: 3) consecutive runs on the same *Lua object. The script bodies have observable
// side effects (INCR of a fixed key and of KEYS[1]; a GET of a probe key for the read-only
// flavours) and their behaviour (ok / error_reply / error()) is steered through a server key,
// so the script text (and therefore its SHA) is the same in all modes.
//
// The oracle is rule based (written from the doc comments of lua.go and the property statement),
// evaluated over the recorded (command, reply) trace of each run; it does not replay the
// implementation's control flow.

const c30rw = `local mode = redis.call('GET','c30mode')
redis.call('INCR','c30cnt')
if KEYS[1] then redis.call('INCR',KEYS[1]) end
if mode == 'err' then return redis.error_reply(redis.call('GET','c30msg')) end
if mode == 'raise' then error('c30 raised') end
return {#KEYS,#ARGV,KEYS[1] or '-',KEYS[2] or '-',ARGV[1] or '-',ARGV[2] or '-'}`

const c30ro = `local mode = redis.call('GET','c30mode')
redis.call('GET','c30probe')
if mode == 'err' then return redis.error_reply(redis.call('GET','c30msg')) end
if mode == 'raise' then error('c30 raised') end
return {#KEYS,#ARGV,KEYS[1] or '-',KEYS[2] or '-',ARGV[1] or '-',ARGV[2] or '-'}`

type c30kind struct {
	name    string
	ro      bool
	noSha   bool
	loadSha bool
	make    func(s string) *Lua
}

var c30kinds = []c30kind{
	{"NewLuaScript", false, false, false, func(s string) *Lua { return NewLuaScript(s) }},
	{"NewLuaScript+WithLoadSHA1(true)", false, false, true, func(s string) *Lua { return NewLuaScript(s, WithLoadSHA1(true)) }},
	{"NewLuaScript+WithLoadSHA1(false)", false, false, false, func(s string) *Lua { return NewLuaScript(s, WithLoadSHA1(false)) }},
	{"NewLuaScriptReadOnly", true, false, false, func(s string) *Lua { return NewLuaScriptReadOnly(s) }},
	{"NewLuaScriptReadOnly+WithLoadSHA1(true)", true, false, true, func(s string) *Lua { return NewLuaScriptReadOnly(s, WithLoadSHA1(true)) }},
	{"NewLuaScriptReadOnly+WithLoadSHA1(false)", true, false, false, func(s string) *Lua { return NewLuaScriptReadOnly(s, WithLoadSHA1(false)) }},
	{"NewLuaScriptNoSha", false, true, false, func(s string) *Lua { return NewLuaScriptNoSha(s) }},
	{"NewLuaScriptReadOnlyNoSha", true, true, false, func(s string) *Lua { return NewLuaScriptReadOnlyNoSha(s) }},
	{"NewLuaScriptRetryable", false, false, false, func(s string) *Lua { return NewLuaScriptRetryable(s) }},
	{"NewLuaScriptRetryable+WithLoadSHA1(true)", false, false, true, func(s string) *Lua { return NewLuaScriptRetryable(s, WithLoadSHA1(true)) }},
	{"NewLuaScriptNoShaRetryable", false, true, false, func(s string) *Lua { return NewLuaScriptNoShaRetryable(s) }},
}

// run modes
const (
	c30ok          = iota // script returns its tag array
	c30errPlain           // redis.error_reply('ERR custom failure')
	c30errNoScript        // redis.error_reply('NOSCRIPT made by the script body')
	c30errLower           // redis.error_reply('noscript in lower case')
	c30raise              // error('...')
	c30fail1              // transport error on the 1st command of the run
	c30fail2              // ... 2nd
	c30fail3              // ... 3rd
	c30loadErr            // SCRIPT LOAD answers with an error reply
	c30nModes
)

var c30modeNames = []string{"ok", "error_reply(ERR)", "error_reply(NOSCRIPT...)", "error_reply(noscript lower)", "error()", "transport-fail@1", "transport-fail@2", "transport-fail@3", "SCRIPT LOAD error reply"}

type c30runCfg struct {
	Mode           int  `json:"mode"`
	FlushBefore    bool `json:"flush_before"`     // another client flushes the script cache before this run
	FlushAfterLoad bool `json:"flush_after_load"` // the script cache is flushed right after this run's SCRIPT LOAD was answered
}

type c30case struct {
	Kind   int         `json:"kind"`
	Loaded bool        `json:"loaded"` // script already in the server's cache before the first run
	API    int         `json:"api"`    // 0 = Exec, n>0 = ExecMulti with n LuaExec
	NK     int         `json:"nk"`
	NA     int         `json:"na"`
	Runs   []c30runCfg `json:"runs"`
}

type c30ev struct {
	argv      []string
	errText   string // redis error text
	transport error
	ran       int // script body executions during this command (-1 unknown: part of a DoMulti)
	res       RedisResult
}

var c30errTransport = errors.New("c30 injected transport error")

// c30client wraps the command-level fake client and records every command with its result.
type c30client struct {
	*VerifSimClient
	ev             []c30ev
	attempts       int
	failAt         int
	flushAfterLoad bool
}

func (c *c30client) note(argv []string, r RedisResult, ran int) {
	e := c30ev{argv: argv, ran: ran, res: r}
	if err := r.Error(); err != nil {
		if re, ok := IsRedisErr(err); ok {
			e.errText = re.Error()
		} else {
			e.transport = err
		}
	}
	c.ev = append(c.ev, e)
	if c.flushAfterLoad && len(argv) > 1 && argv[0] == "SCRIPT" && argv[1] == "LOAD" && err2(r) == nil {
		c.Srv.ScriptFlush()
	}
}

func err2(r RedisResult) error { return r.Error() }

func (c *c30client) Do(ctx context.Context, cmd Completed) RedisResult {
	argv := append([]string{}, cmd.Commands()...)
	before := c.Srv.ScriptRuns
	r := c.VerifSimClient.Do(ctx, cmd)
	c.note(argv, r, c.Srv.ScriptRuns-before)
	return r
}

func (c *c30client) DoMulti(ctx context.Context, multi ...Completed) []RedisResult {
	argvs := make([][]string, len(multi))
	for i, m := range multi {
		argvs[i] = append([]string{}, m.Commands()...)
	}
	rs := c.VerifSimClient.DoMulti(ctx, multi...)
	for i := range rs {
		c.note(argvs[i], rs[i], -1)
	}
	return rs
}

func (c *c30client) Nodes() map[string]Client { return map[string]Client{"sim:6379": c} }

func c30sha(s string) string {
	sum := sha1.Sum([]byte(s))
	return hex.EncodeToString(sum[:])
}

func c30shape(c c30case, i int) (keys, args []string) {
	nk, na := (c.NK+i)%3, (c.NA+i)%3
	if c.API == 0 {
		nk, na = c.NK, c.NA
	}
	for j := 0; j < nk; j++ {
		keys = append(keys, fmt.Sprintf("c30k%d%c", i, 'a'+j))
	}
	for j := 0; j < na; j++ {
		args = append(args, fmt.Sprintf("t%d%c", i, 'x'+j))
	}
	return
}

func c30expectArr(keys, args []string) string {
	g := func(l []string, i int) string {
		if i < len(l) {
			return l[i]
		}
		return "-"
	}
	return fmt.Sprintf("%d %d %s %s %s %s", len(keys), len(args), g(keys, 0), g(keys, 1), g(args, 0), g(args, 1))
}

func c30arrOf(r RedisResult) (string, error) {
	a, err := r.ToArray()
	if err != nil {
		return "", err
	}
	var parts []string
	for _, m := range a {
		if i, err := m.AsInt64(); err == nil && m.IsInt64() {
			parts = append(parts, strconv.FormatInt(i, 10))
			continue
		}
		s, err := m.ToString()
		if err != nil {
			return "", err
		}
		parts = append(parts, s)
	}
	return strings.Join(parts, " "), nil
}

type c30viol struct{ sig, detail string }

func c30fmtTrace(ev []c30ev) string {
	var b strings.Builder
	for i, e := range ev {
		a := append([]string{}, e.argv...)
		for j := range a {
			if len(a[j]) > 45 {
				a[j] = a[j][:12] + "...<script>"
			}
		}
		out := "ok"
		if e.transport != nil {
			out = "transport error: " + e.transport.Error()
		} else if e.errText != "" {
			out = "-" + e.errText
		}
		fmt.Fprintf(&b, "  #%d %s => %s (body runs %d)\n", i+1, strings.Join(a, " "), out, e.ran)
	}
	return b.String()
}

func c30getInt(srv *simredis.Server, k string) int64 {
	r := srv.Do("GET", k)
	if r.T != '$' {
		return 0
	}
	n, _ := strconv.ParseInt(r.S, 10, 64)
	return n
}

func c30probes(srv *simredis.Server) int {
	n := 0
	for _, l := range srv.Log {
		if l.InTxn && len(l.Argv) == 2 && l.Argv[0] == "GET" && l.Argv[1] == "c30probe" {
			n++
		}
	}
	return n
}

// c30eval runs one scenario and returns the rule violations, the outcome class and whether an
// interesting branch (fallback, load, fault) was exercised.
func c30eval(c c30case) (viols []c30viol, outcome string, nontrivial bool) {
	forged := false
	defer func() {
		if forged {
			outcome += " [body ran twice because the script itself forged a NOSCRIPT error: outside the property]"
		}
	}()
	kd := c30kinds[c.Kind]
	script := c30rw
	if kd.ro {
		script = c30ro
	}
	srv := simredis.New()
	srv.EnableLua()
	cl := &c30client{VerifSimClient: NewVerifSimClient(srv, ClientOption{DisableCache: true})}
	if c.Loaded {
		srv.Do("SCRIPT", "LOAD", script)
	}
	lua := kd.make(script)
	localSha := c30sha(script)
	ctx := context.Background()
	shaLoaded := false // reference: a SCRIPT LOAD of this *Lua object has succeeded
	loadedSha := ""
	var classes []string
	bad := func(sig, f string, a ...any) {
		viols = append(viols, c30viol{sig, fmt.Sprintf(f, a...)})
	}
	for ri, rc := range c.Runs {
		if rc.FlushBefore {
			srv.ScriptFlush()
		}
		srv.Do("DEL", "c30mode", "c30msg")
		delete(srv.FailCmd, "SCRIPT LOAD")
		switch rc.Mode {
		case c30errPlain:
			srv.Do("MSET", "c30mode", "err", "c30msg", "ERR custom failure")
		case c30errNoScript:
			srv.Do("MSET", "c30mode", "err", "c30msg", "NOSCRIPT made by the script body")
		case c30errLower:
			srv.Do("MSET", "c30mode", "err", "c30msg", "noscript in lower case")
		case c30raise:
			srv.Do("SET", "c30mode", "raise")
		case c30loadErr:
			srv.FailCmd["SCRIPT LOAD"] = "ERR injected script load failure"
		}
		cl.ev, cl.attempts, cl.failAt, cl.flushAfterLoad = nil, 0, 0, rc.FlushAfterLoad
		if rc.Mode >= c30fail1 && rc.Mode <= c30fail3 {
			cl.failAt = rc.Mode - c30fail1 + 1
		}
		cl.VerifSimClient.Fail = func(argv []string) error {
			cl.attempts++
			if cl.attempts == cl.failAt {
				return c30errTransport
			}
			return nil
		}
		n := c.API
		if n == 0 {
			n = 1
		}
		execs := make([]LuaExec, n)
		for i := range execs {
			execs[i].Keys, execs[i].Args = c30shape(c, i)
		}
		runs0, cnt0, probes0 := srv.ScriptRuns, c30getInt(srv, "c30cnt"), c30probes(srv)
		keyCnt0 := make([]int64, n)
		for i := range execs {
			if len(execs[i].Keys) > 0 {
				keyCnt0[i] = c30getInt(srv, execs[i].Keys[0])
			}
		}
		lua.sha1Mu.RLock()
		shaBefore := lua.sha1
		lua.sha1Mu.RUnlock()
		var results []RedisResult
		p, site := vrun.Catch(func() {
			if c.API == 0 {
				results = []RedisResult{lua.Exec(ctx, cl, execs[0].Keys, execs[0].Args)}
			} else {
				results = lua.ExecMulti(ctx, cl, execs...)
			}
		})
		where := fmt.Sprintf("run %d (%s)", ri+1, c30modeNames[rc.Mode])
		if p != nil {
			bad("panic in "+site, "%s: %v", where, p)
			return viols, "panic", true
		}
		ev := cl.ev
		tr := c30fmtTrace(ev)
		api := "Exec"
		if c.API > 0 {
			api = "ExecMulti"
		}

		// ---- R1: body executed at most once per LuaExec
		dRuns := srv.ScriptRuns - runs0
		dCnt := int(c30getInt(srv, "c30cnt") - cnt0)
		if kd.ro {
			dCnt = c30probes(srv) - probes0
		}
		madeByScript := false
		for _, e := range ev {
			if strings.HasPrefix(e.errText, "NOSCRIPT") && e.ran > 0 {
				madeByScript = true
			}
		}
		if (dRuns > n || dCnt > n) && madeByScript {
			// Observed, not judged: the script body itself returned an error text starting with NOSCRIPT after its
			// side effect. The client cannot tell this from the server's real NOSCRIPT (which guarantees the body did
			// not run), so the EVAL fallback is what the statement prescribes; a forged NOSCRIPT is outside the domain.
			forged = true
		} else if dRuns > n || dCnt > n {
			sig := api + ": script body executed more than once per LuaExec"
			bad(sig, "%s %s: %d LuaExec, server ran the body %d times, side-effect counter advanced by %d\n%s", kd.name, where, n, dRuns, dCnt, tr)
		}
		if dRuns != dCnt {
			bad("harness: ScriptRuns and side-effect counter disagree", "%s %s: runs %d counter %d\n%s", kd.name, where, dRuns, dCnt, tr)
		}
		for i := range execs {
			if !kd.ro && len(execs[i].Keys) > 0 {
				if d := c30getInt(srv, execs[i].Keys[0]) - keyCnt0[i]; d > 1 {
					sig := api + ": script body executed more than once for one LuaExec (KEYS[1] counter)"
					if madeByScript {
						continue
					}
					bad(sig, "%s %s: exec %d key %s advanced by %d\n%s", kd.name, where, i, execs[i].Keys[0], d, tr)
				}
			}
		}

		// ---- command level rules
		evalIdx := []int{}
		loads := 0
		for i, e := range ev {
			cmd := e.argv[0]
			switch cmd {
			case "SCRIPT":
				if len(e.argv) != 3 || e.argv[1] != "LOAD" || e.argv[2] != script {
					bad(api+": malformed SCRIPT command", "%s %s\n%s", kd.name, where, tr)
				}
				loads++
				if kd.noSha {
					bad(api+": NoSha script sent SCRIPT LOAD", "%s %s\n%s", kd.name, where, tr)
				}
				if i != 0 {
					bad(api+": SCRIPT LOAD is not the first command of the call", "%s %s\n%s", kd.name, where, tr)
				}
				if c.API == 0 {
					if !kd.loadSha {
						bad("Exec: SCRIPT LOAD sent without WithLoadSHA1(true)", "%s %s\n%s", kd.name, where, tr)
					} else if shaLoaded {
						bad("Exec: SCRIPT LOAD sent again after an earlier SCRIPT LOAD had succeeded", "%s %s\n%s", kd.name, where, tr)
					}
				}
				if e.transport == nil && e.errText == "" {
					if s, err := e.res.ToString(); err == nil && kd.loadSha && !shaLoaded {
						shaLoaded, loadedSha = true, s
					}
				}
			case "EVALSHA", "EVALSHA_RO", "EVAL", "EVAL_RO":
				evalIdx = append(evalIdx, i)
				isRO := strings.HasSuffix(cmd, "_RO")
				if isRO != kd.ro {
					bad(api+": wrong read-only flavour of the command", "%s %s: %s\n%s", kd.name, where, cmd, tr)
				}
				bySha := strings.HasPrefix(cmd, "EVALSHA")
				if bySha && kd.noSha {
					bad(api+": NoSha script sent EVALSHA", "%s %s\n%s", kd.name, where, tr)
				}
				if bySha {
					want := localSha
					if kd.loadSha {
						want = loadedSha
						if !shaLoaded {
							bad(api+": EVALSHA sent before SCRIPT LOAD succeeded (WithLoadSHA1)", "%s %s: sha %q\n%s", kd.name, where, e.argv[1], tr)
						}
					}
					if e.argv[1] != want {
						bad(api+": EVALSHA with an unexpected sha", "%s %s: sent %q want %q\n%s", kd.name, where, e.argv[1], want, tr)
					}
				} else if e.argv[1] != script {
					bad(api+": EVAL with a different script text", "%s %s\n%s", kd.name, where, tr)
				}
			default:
				bad(api+": unexpected command", "%s %s: %v\n%s", kd.name, where, e.argv, tr)
			}
		}
		if kd.loadSha && c.API == 0 && !shaLoaded && shaBefore != "" {
			bad("Exec: WithLoadSHA1 object holds a sha before any SCRIPT LOAD succeeded", "%s %s: sha1=%q", kd.name, where, shaBefore)
		}
		if kd.loadSha && c.API == 0 && shaBefore == "" && (len(ev) == 0 || ev[0].argv[0] != "SCRIPT") {
			bad("Exec: WithLoadSHA1 object without sha did not start with SCRIPT LOAD", "%s %s\n%s", kd.name, where, tr)
		}

		if c.API == 0 {
			// Exec: EVALSHA first, EVAL only right after a NOSCRIPT reply; natural NOSCRIPT must be followed by EVAL
			for k, i := range evalIdx {
				e := ev[i]
				bySha := strings.HasPrefix(e.argv[0], "EVALSHA")
				if kd.noSha {
					continue
				}
				if k == 0 && !bySha {
					bad("Exec: first attempt is EVAL instead of EVALSHA", "%s %s\n%s", kd.name, where, tr)
				}
				if !bySha {
					if k == 0 || i == 0 || !strings.HasPrefix(ev[i-1].argv[0], "EVALSHA") || !strings.HasPrefix(ev[i-1].errText, "NOSCRIPT") {
						bad("Exec: EVAL sent without a preceding NOSCRIPT reply to EVALSHA", "%s %s\n%s", kd.name, where, tr)
					}
				}
				if bySha && k > 0 {
					bad("Exec: EVALSHA sent twice", "%s %s\n%s", kd.name, where, tr)
				}
			}
			if len(evalIdx) > 2 || (kd.noSha && len(evalIdx) > 1) {
				bad("Exec: too many script commands", "%s %s\n%s", kd.name, where, tr)
			}
			wantArgv := func(e c30ev) []string {
				a := []string{e.argv[0], e.argv[1], strconv.Itoa(len(execs[0].Keys))}
				a = append(a, execs[0].Keys...)
				return append(a, execs[0].Args...)
			}
			for _, i := range evalIdx {
				if strings.Join(ev[i].argv, "\x00") != strings.Join(wantArgv(ev[i]), "\x00") {
					bad("Exec: numkeys/keys/args not passed as given", "%s %s: sent %q\n%s", kd.name, where, ev[i].argv, tr)
				}
			}
			// result = outcome of the last command; a natural NOSCRIPT must not be the end
			if len(ev) == 0 {
				bad("Exec: no command sent", "%s %s", kd.name, where)
				continue
			}
			last := ev[len(ev)-1]
			for i := 0; i+1 < len(ev); i++ {
				if ev[i].transport != nil {
					bad("Exec: commands sent after a transport error", "%s %s\n%s", kd.name, where, tr)
				}
			}
			failedNow := last.transport != nil
			switch {
			case failedNow:
				if results[0].Error() != c30errTransport {
					bad("Exec: result is not the transport error of the failed command", "%s %s: %v\n%s", kd.name, where, results[0].Error(), tr)
				}
				classes = append(classes, "transport-error")
			case last.errText != "":
				if strings.HasPrefix(last.errText, "NOSCRIPT") && last.ran == 0 && strings.HasPrefix(last.argv[0], "EVALSHA") {
					bad("Exec: natural NOSCRIPT reply not followed by the EVAL fallback", "%s %s\n%s", kd.name, where, tr)
				}
				re, ok := IsRedisErr(results[0].Error())
				if !ok || re.Error() != last.errText {
					bad("Exec: result is not the reply of the last command", "%s %s: result err %v, last reply -%s\n%s", kd.name, where, results[0].Error(), last.errText, tr)
				}
				classes = append(classes, "redis-error")
			default:
				got, err := c30arrOf(results[0])
				want := c30expectArr(execs[0].Keys, execs[0].Args)
				if err != nil || got != want {
					bad("Exec: successful result does not carry the script's return value", "%s %s: got %q (%v) want %q\n%s", kd.name, where, got, err, want, tr)
				}
				if rc.Mode != c30ok && rc.Mode < c30fail1 {
					bad("harness: error mode produced a success", "%s %s\n%s", kd.name, where, tr)
				}
				classes = append(classes, "ok")
			}
			if (rc.Mode == c30ok || rc.Mode == c30loadErr && (!kd.loadSha || shaBefore != "")) && !failedNow && (last.errText != "" || last.transport != nil) {
				bad("Exec: fails although the server is healthy and the script succeeds", "%s %s\n%s", kd.name, where, tr)
			}
			if len(ev) > 1 || loads > 0 {
				nontrivial = true
			}
		} else {
			// ExecMulti: one result per LuaExec, in order
			if len(results) != n {
				bad("ExecMulti: number of results differs from the number of LuaExec", "%s %s: %d results for %d LuaExec\n%s", kd.name, where, len(results), n, tr)
				continue
			}
			if len(evalIdx) > n {
				bad("ExecMulti: more script commands than LuaExec", "%s %s\n%s", kd.name, where, tr)
			}
			loadFailed := !kd.noSha && (loads == 0 || ev[0].errText != "" || ev[0].transport != nil)
			cls := "ok"
			if loadFailed {
				for i := range results {
					if results[i].Error() == nil {
						bad("ExecMulti: result without error although SCRIPT LOAD failed", "%s %s: exec %d\n%s", kd.name, where, i, tr)
					}
				}
				if len(evalIdx) > 0 {
					bad("ExecMulti: script commands sent although SCRIPT LOAD failed", "%s %s\n%s", kd.name, where, tr)
				}
				cls = "load-failed"
			} else {
				// LuaExec i <-> the i-th script command (commands hit by the injected transport error are recorded too)
				for i := range execs {
					if i >= len(evalIdx) {
						bad("ExecMulti: a LuaExec has no command", "%s %s: exec %d\n%s", kd.name, where, i, tr)
						break
					}
					e := ev[evalIdx[i]]
					if e.transport != nil {
						if results[i].Error() != c30errTransport {
							bad("ExecMulti: result of the failed command is not its transport error", "%s %s: exec %d: %v\n%s", kd.name, where, i, results[i].Error(), tr)
						}
						cls = "partial-transport-error"
						continue
					}
					want := []string{e.argv[0], e.argv[1], strconv.Itoa(len(execs[i].Keys))}
					want = append(append(want, execs[i].Keys...), execs[i].Args...)
					if strings.Join(e.argv, "\x00") != strings.Join(want, "\x00") {
						bad("ExecMulti: commands not in LuaExec order / wrong keys or args", "%s %s: exec %d sent %q\n%s", kd.name, where, i, e.argv, tr)
					}
					if e.errText != "" {
						re, ok := IsRedisErr(results[i].Error())
						if !ok || re.Error() != e.errText {
							bad("ExecMulti: result i is not the reply of command i", "%s %s: exec %d result err %v reply -%s\n%s", kd.name, where, i, results[i].Error(), e.errText, tr)
						}
						if cls == "ok" {
							cls = "redis-error"
						}
						continue
					}
					got, err := c30arrOf(results[i])
					if w := c30expectArr(execs[i].Keys, execs[i].Args); err != nil || got != w {
						bad("ExecMulti: result i does not carry the return value of LuaExec i", "%s %s: exec %d got %q (%v) want %q\n%s", kd.name, where, i, got, err, w, tr)
					}
				}
			}
			classes = append(classes, "multi-"+cls)
			if cls != "ok" || rc.FlushAfterLoad || rc.FlushBefore {
				nontrivial = true
			}
		}
	}
	return viols, strings.Join(classes, ","), nontrivial
}

// ---- "reply lost" family: the k-th command of one Exec is executed by the server but its reply is lost (transport
// error). The wrapper then does what the real client does with retries enabled (C28): it sends the command again iff
// the command is flagged retryable (read-only or ToRetryable). A script whose constructor did not opt in must not run twice.

type c30lostCase struct {
	Kind   int  `json:"kind"`
	Loaded bool `json:"loaded"`
	LostAt int  `json:"reply_lost_at_command"`
	Lost   bool `json:"lost_family"`
}

type c30retryClient struct {
	*VerifSimClient
	n, lostAt int
	log       []string
}

func (c *c30retryClient) Do(ctx context.Context, cmd Completed) RedisResult {
	argv := append([]string{}, cmd.Commands()...)
	retryable := cmd.IsRetryable()
	c.n++
	r := c.VerifSimClient.Do(ctx, cmd)
	c.log = append(c.log, fmt.Sprintf("%s(retryable=%v)", argv[0], retryable))
	if c.n == c.lostAt {
		c.log = append(c.log, "reply lost")
		if !retryable {
			return NewErrorResult(c30errTransport)
		}
		c.log = append(c.log, argv[0]+" re-sent by the retry loop")
		return c.VerifSimClient.raw(argv)
	}
	return r
}

func (c *c30retryClient) Nodes() map[string]Client { return map[string]Client{"sim:6379": c} }

func c30lost(c c30lostCase) (viols []c30viol, outcome string) {
	kd := c30kinds[c.Kind]
	script := c30rw
	if kd.ro {
		script = c30ro
	}
	srv := simredis.New()
	srv.EnableLua()
	cl := &c30retryClient{VerifSimClient: NewVerifSimClient(srv, ClientOption{DisableCache: true}), lostAt: c.LostAt}
	if c.Loaded {
		srv.Do("SCRIPT", "LOAD", script)
	}
	lua := kd.make(script)
	runs0 := srv.ScriptRuns
	var res RedisResult
	p, site := vrun.Catch(func() { res = lua.Exec(context.Background(), cl, []string{"c30k"}, []string{"a"}) })
	if p != nil {
		return []c30viol{{"panic in " + site, fmt.Sprint(p)}}, "panic"
	}
	d := srv.ScriptRuns - runs0
	optedIn := kd.ro || strings.Contains(kd.name, "Retryable")
	if d > 1 && !optedIn {
		viols = append(viols, c30viol{"Exec: script body executed more than once per LuaExec (reply lost, command re-sent by the retry loop)",
			fmt.Sprintf("%s, script cache loaded=%v, reply of command %d lost: the server ran the body %d times; commands: %v; result err %v", kd.name, c.Loaded, c.LostAt, d, cl.log, res.Error())})
	}
	return viols, fmt.Sprintf("lost-reply: body ran %d time(s), opted-in=%v", d, optedIn)
}

func TestVerif_C30(t *testing.T) {
	vrun.Main(t, "C30", func(r *vrun.Run) {
		r.Rule = "every constructor (incl. retryable) x WithLoadSHA1(none/true/false) x script cache {loaded, empty} x {Exec, ExecMulti with 1..3 LuaExec} x 0..2 keys x 0..2 args x " +
			"2 (thorough 3) consecutive runs on the same *Lua, each run with mode in {ok, error_reply ERR / NOSCRIPT-prefixed / lower-case noscript, error(), transport error on command 1/2/3, SCRIPT LOAD error reply} " +
			"x cache flushed before the run x cache flushed right after the run's SCRIPT LOAD; plus, per constructor x cache state, one Exec whose 1st/2nd/3rd command is executed but its reply lost, after which the command is re-sent iff it is flagged retryable (what the client's retry loop does); non-trivial = fallback, load, fault or flush exercised"
		r.Assume("simredis + mini-Lua execute the script text sent by the library; EVAL caches the script, EVALSHA of an unknown sha answers NOSCRIPT, redis.error_reply(x) answers -x verbatim (as Redis does)")
		r.Assume("ExecMulti is documented to SCRIPT LOAD on every call; the 'SCRIPT LOAD only until it first succeeds' clause is checked for Exec only")
		r.Assume("single node client: ExecMulti's fan-out over Nodes() has one member")
		if raw, ok := r.ReplayPayload(); ok {
			var lc c30lostCase
			if json.Unmarshal(raw, &lc) == nil && lc.Lost {
				r.Evaluations++
				vs, outcome := c30lost(lc)
				r.Outcome(outcome)
				for _, v := range vs {
					r.Violate(v.sig, v.detail, lc)
				}
				return
			}
			var c c30case
			if err := json.Unmarshal(raw, &c); err != nil {
				r.MachineryError = "bad replay payload: " + err.Error()
				return
			}
			r.Evaluations++
			vs, _, _ := c30eval(c)
			for _, v := range vs {
				r.Violate(v.sig, v.detail, c)
			}
			return
		}
		nruns := vrun.Pick(r, 2, 3)
		r.Bounds["runs_per_lua_object"] = nruns
		r.Bounds["max_keys"] = 2
		r.Bounds["max_args"] = 2
		r.Bounds["max_luaexec_per_execmulti"] = 3
		r.Bounds["constructors"] = len(c30kinds)
		r.Bounds["modes"] = c30nModes
		// later runs use a reduced mode set in the quick tier
		reduced := []int{c30ok, c30errNoScript, c30fail1, c30fail2}
		laterModes := vrun.Pick(r, reduced, []int{c30ok, c30errPlain, c30errNoScript, c30fail1, c30fail2, c30loadErr})
		var rec func(c c30case, depth int)
		stop := false
		rec = func(c c30case, depth int) {
			if stop {
				return
			}
			if depth == nruns {
				if r.TimeUp() {
					stop = true
					return
				}
				r.Evaluations++
				b, _ := json.Marshal(c)
				r.StateStr(string(b))
				vs, outcome, nt := c30eval(c)
				if nt {
					r.NonTrivialStr(string(b))
				}
				r.Outcome(outcome)
				if r.WantSample() && nt && r.Evaluations%977 == 3 {
					r.Sample(map[string]any{"case": c, "constructor": c30kinds[c.Kind].name, "outcome": outcome})
				}
				for _, v := range vs {
					r.Violate(v.sig, v.detail, c)
				}
				return
			}
			modes := laterModes
			if depth >= 2 {
				modes = reduced
			}
			if depth == 0 {
				modes = nil
				for m := 0; m < c30nModes; m++ {
					modes = append(modes, m)
				}
			}
			for _, m := range modes {
				for fb := 0; fb < 2; fb++ {
					if depth == 0 && fb == 1 {
						continue // before the first run the cache state is given by Loaded
					}
					for fl := 0; fl < 2; fl++ {
						if depth > 0 && fl == 1 && (r.Quick() || depth >= 2) && m != c30ok {
							continue
						}
						cc := c
						cc.Runs = append(append([]c30runCfg{}, c.Runs...), c30runCfg{Mode: m, FlushBefore: fb == 1, FlushAfterLoad: fl == 1})
						rec(cc, depth+1)
					}
				}
			}
		}
		if r.Mine(0) {
			for k := range c30kinds {
				for loaded := 0; loaded < 2; loaded++ {
					for at := 1; at <= 3; at++ {
						lc := c30lostCase{Kind: k, Loaded: loaded == 1, LostAt: at, Lost: true}
						r.Evaluations++
						b, _ := json.Marshal(lc)
						r.StateStr(string(b))
						r.NonTrivialStr(string(b))
						vs, outcome := c30lost(lc)
						r.Outcome(outcome)
						for _, v := range vs {
							r.Violate(v.sig, v.detail, lc)
						}
					}
				}
			}
		}
		item := 0
		for k := range c30kinds {
			for loaded := 0; loaded < 2; loaded++ {
				for api := 0; api <= 3; api++ {
					for nk := 0; nk <= 2; nk++ {
						for na := 0; na <= 2; na++ {
							item++
							if !r.Mine(item) {
								continue
							}
							rec(c30case{Kind: k, Loaded: loaded == 1, API: api, NK: nk, NA: na}, 0)
						}
					}
				}
			}
		}
	})
}
