//go:build verif

package rueidis

import (
	"context"
	"encoding/json"
	"errors"
	"fmt"
	"runtime"
	"strconv"
	"strings"
	"sync"
	"testing"
	"time"

	"github.com/redis/rueidis/vshim/vrun"
)

// C28 - retries happen only when safe and within policy.
//
// A case = (client mode, API + command classes, reply script of length <= 3 for the faulted command, RetryDelay
// function, context cancelled during the first attempt?, client closed during the first attempt?, DisableRetry).
// The real client runs over mockConn fake nodes that count how often each command is handed to a connection; a
// reference policy written from the property statement gives the maximum number of attempts.

const (
	c28P  = "10.2.0.1:6379"
	c28R  = "10.2.0.2:6379"
	c28P2 = "10.2.0.3:6379" // the primary a -REDIRECT reply points to
	c28S  = "10.2.0.9:26379"
)

type c28case struct {
	Mode    string `json:"mode"`  // single | standalone | standalone-replica | sentinel | cluster
	API     string `json:"api"`   // Do | DoCache | Receive | DoMulti
	Batch   string `json:"batch"` // classes: r GET, w SET, W SET.ToRetryable(), c GET.Cache(), s SUBSCRIBE
	Fault   int    `json:"fault"` // index of the command of the batch that receives the scripted replies (others get OK)
	Script  string `json:"script"`
	Delay   string `json:"delay"` // zero | neg | zero-then-neg
	Cancel  bool   `json:"cancel_ctx_in_first_attempt"`
	Close   bool   `json:"close_in_first_attempt"`
	Disable bool   `json:"disable_retry"`
}

// reply alphabet: T transport error, L -LOADING, A -TRYAGAIN, D -CLUSTERDOWN, E -ERR generic, N nil, O ok (+ X aborted EXEC for DoCache)
const c28alpha = "TLADENO"

func c28delay(kind string) RetryDelayFn {
	switch kind {
	case "zero":
		return func(int, Completed, error) time.Duration { return 0 }
	case "neg":
		return func(int, Completed, error) time.Duration { return -1 }
	}
	return func(attempts int, _ Completed, _ error) time.Duration {
		if attempts <= 1 {
			return 0
		}
		return -1
	}
}

// c28allowed is the reference policy: the maximum number of times the faulted command may be handed to a connection.
func c28allowed(cluster, cmdRetryable bool, c *c28case) int {
	n := 1
	for k := 0; k < len(c.Script); k++ {
		rep := c.Script[k]
		retryableReply := rep == 'T' || rep == 'L' || (cluster && (rep == 'A' || rep == 'D'))
		if !retryableReply {
			break // ok, nil and ordinary errors are returned as they are
		}
		if c.Disable || !cmdRetryable {
			break
		}
		if c.Cancel || c.Close {
			break // the context is done / the client is closed from the first attempt on
		}
		delay := time.Duration(0)
		switch c.Delay {
		case "neg":
			delay = -1
		case "zero-then-neg":
			if k+1 > 1 {
				delay = -1
			}
		}
		if delay < 0 {
			break
		}
		n++
	}
	return n
}

func c28retryableClass(cls byte) bool { return cls != 'w' }

// ---------------------------------------------------------------- fake nodes

type c28env struct {
	mu       sync.Mutex
	mode     string
	faultTag string
	script   string
	counts   map[string]int
	first    func() // called inside the first attempt of the faulted command
	faultN   int
	delayN   int
	movedTag string // cluster only: this command is answered "MOVED <slot> <same address>" once
	movedN   int
	// refuse models the real connection below the seam: pipe.Do/DoMulti/DoCache/Receive return the
	// context error before writing anything when the context is already done, so such a conn-level
	// call is not a command "sent" to the server and is not counted as an attempt.
	refuse func() error
	// refusedN counts calls refused because the context is done; a client that ignores the done context would
	// retry without end, so beyond c28runaway such calls the connection answers a plain (non-retryable) error
	// reply, which ends the client's loop, and the case is reported.
	refusedN int
	// redirectOnce: the next user command is answered "-REDIRECT <other address>" (standalone-redirected mode, warm-up)
	redirectOnce bool
}

const c28runaway = 200

func (e *c28env) reset(faultTag, script string, first func()) {
	e.mu.Lock()
	e.faultTag, e.script, e.first = faultTag, script, first
	e.counts = map[string]int{}
	e.faultN, e.delayN, e.refusedN = 0, 0, 0
	e.movedTag, e.movedN = "", 0
	e.mu.Unlock()
}

func c28tag(argv []string) string {
	if len(argv) > 1 {
		return argv[0] + " " + argv[1]
	}
	return argv[0]
}

// c28reply builds reply number k (1-based) of kind sym.
func c28reply(sym byte, k int) RedisResult {
	n := strconv.Itoa(k)
	switch sym {
	case 'T':
		return NewErrorResult(errors.New("transport #" + n))
	case 'L':
		return NewResult(strmsg(typeSimpleErr, "LOADING #"+n), nil)
	case 'A':
		return NewResult(strmsg(typeSimpleErr, "TRYAGAIN #"+n), nil)
	case 'D':
		return NewResult(strmsg(typeSimpleErr, "CLUSTERDOWN #"+n), nil)
	case 'E':
		return NewResult(strmsg(typeSimpleErr, "ERR generic #"+n), nil)
	case 'N':
		return NewResult(RedisMessage{typ: typeNull}, nil)
	case 'X':
		// what the pipe returns when the server aborted the MULTI..EXEC wrapper of a client-side-caching read
		return NewErrorResult(ErrDoCacheAborted)
	}
	return NewResult(strmsg(typeSimpleString, "ok #"+n), nil)
}

func c28show(res RedisResult) string {
	if err := res.NonRedisError(); err != nil {
		return "transport:" + err.Error()
	}
	if err := res.Error(); err != nil {
		if IsRedisNil(err) {
			return "nil"
		}
		return "err:" + err.Error()
	}
	s, _ := res.ToString()
	return "val:" + s
}

func c28expectShown(sym byte, k int) string { return c28show(c28reply(sym, k)) }

func (e *c28env) user(argv []string) RedisResult {
	tag := c28tag(argv)
	if e.refuse != nil {
		if err := e.refuse(); err != nil {
			e.mu.Lock()
			e.refusedN++
			n := e.refusedN
			e.mu.Unlock()
			if n > c28runaway {
				return NewResult(strmsg(typeSimpleErr, "ERR c28 harness: runaway retries stopped"), nil)
			}
			return NewErrorResult(err)
		}
	}
	e.mu.Lock()
	if e.redirectOnce {
		e.redirectOnce = false
		e.mu.Unlock()
		return NewResult(strmsg(typeSimpleErr, "REDIRECT "+c28P2), nil)
	}
	e.counts[tag]++
	if tag != e.faultTag {
		moved := tag == e.movedTag && e.movedN == 0
		if moved {
			e.movedN++
		}
		e.mu.Unlock()
		if moved {
			return NewResult(strmsg(typeSimpleErr, "MOVED 1 "+c28P), nil)
		}
		return NewResult(strmsg(typeSimpleString, "ok other"), nil)
	}
	e.faultN++
	k := e.faultN
	sym := byte('O')
	if k <= len(e.script) {
		sym = e.script[k-1]
	}
	first := e.first
	e.mu.Unlock()
	if k == 1 && first != nil {
		first()
	}
	return c28reply(sym, k)
}

func c28bs(s string) RedisMessage { return strmsg(typeBlobString, s) }

func (e *c28env) connFn(dst string, _ *ClientOption) conn {
	m := &mockConn{}
	m.AddrFn = func() string { return dst }
	ok := NewResult(strmsg(typeSimpleString, "OK"), nil)
	if dst == c28S {
		m.DoFn = func(cmd Completed) RedisResult { return ok }
		m.DoMultiFn = func(multi ...Completed) *redisresults {
			res := &redisresults{s: make([]RedisResult, len(multi))}
			for i, c := range multi {
				argv := c.Commands()
				switch {
				case len(argv) > 1 && argv[1] == "SENTINELS":
					res.s[i] = NewResult(slicemsg(typeArray, []RedisMessage{}), nil)
				case len(argv) > 1 && argv[1] == "GET-MASTER-ADDR-BY-NAME":
					host, port, _ := strings.Cut(c28P, ":")
					res.s[i] = NewResult(slicemsg(typeArray, []RedisMessage{c28bs(host), c28bs(port)}), nil)
				default:
					res.s[i] = ok
				}
			}
			return res
		}
		return m
	}
	m.DoFn = func(cmd Completed) RedisResult {
		argv := cmd.Commands()
		switch {
		case len(argv) == 2 && argv[0] == "CLUSTER":
			host, port, _ := strings.Cut(c28P, ":")
			p, _ := strconv.ParseInt(port, 10, 64)
			return NewResult(slicemsg(typeArray, []RedisMessage{slicemsg(typeArray, []RedisMessage{
				{typ: typeInteger, intlen: 0}, {typ: typeInteger, intlen: 16383},
				slicemsg(typeArray, []RedisMessage{c28bs(host), {typ: typeInteger, intlen: p}, c28bs("id")}),
			})}), nil)
		case len(argv) == 1 && argv[0] == "ROLE":
			return NewResult(slicemsg(typeArray, []RedisMessage{c28bs("master")}), nil)
		}
		return e.user(argv)
	}
	m.DoMultiFn = func(multi ...Completed) *redisresults {
		res := &redisresults{s: make([]RedisResult, len(multi))}
		for i, c := range multi {
			res.s[i] = e.user(c.Commands())
		}
		return res
	}
	m.DoCacheFn = func(cmd Cacheable, _ time.Duration) RedisResult { return e.user(cmd.Commands()) }
	m.DoMultiCacheFn = func(multi ...CacheableTTL) *redisresults {
		res := &redisresults{s: make([]RedisResult, len(multi))}
		for i, c := range multi {
			res.s[i] = e.user(c.Cmd.Commands())
		}
		return res
	}
	m.ReceiveFn = func(_ context.Context, sub Completed, _ func(PubSubMessage)) error {
		return e.user(sub.Commands()).Error()
	}
	return m
}

type c28sys struct {
	env *c28env
	cl  Client
}

func c28build(c *c28case) (*c28sys, error) {
	e := &c28env{mode: c.Mode, counts: map[string]int{}}
	opt := &ClientOption{DisableRetry: c.Disable, InitAddress: []string{c28P}}
	base := c28delay(c.Delay)
	rt := newRetryer(func(a int, cmd Completed, err error) time.Duration {
		e.mu.Lock()
		e.delayN++
		e.mu.Unlock()
		return base(a, cmd, err)
	})
	var cl Client
	var err error
	switch c.Mode {
	case "single":
		var sc *singleClient
		if sc, err = newSingleClient(opt, nil, e.connFn, rt); err == nil {
			cl = sc
		}
	case "standalone":
		var sc *standalone
		if sc, err = newStandaloneClient(opt, e.connFn, rt); err == nil {
			cl = sc
		}
	case "standalone-redirected":
		// EnableRedirect: the configured primary answers the first command with -REDIRECT, the client swaps in a new
		// primary connection; every case then runs against that new primary
		opt.Standalone.EnableRedirect = true
		var sc *standalone
		if sc, err = newStandaloneClient(opt, e.connFn, rt); err == nil {
			cl = sc
			e.redirectOnce = true
			if werr := sc.Do(context.Background(), sc.B().Get().Key("{t}warm").Build()).Error(); werr != nil {
				err = fmt.Errorf("warm-up through the redirect failed: %v", werr)
			}
			e.mu.Lock()
			if e.redirectOnce {
				err = errors.New("warm-up did not consume the redirect")
			}
			e.mu.Unlock()
		}
	case "standalone-replica":
		opt.Standalone.ReplicaAddress = []string{c28R}
		opt.SendToReplicas = func(Completed) bool { return true }
		var sc *standalone
		if sc, err = newStandaloneClient(opt, e.connFn, rt); err == nil {
			cl = sc
		}
	case "sentinel":
		opt.InitAddress = []string{c28S}
		opt.Sentinel.MasterSet = "m"
		var sc *sentinelClient
		if sc, err = newSentinelClient(opt, e.connFn, rt); err == nil {
			cl = sc
		}
	default:
		var cc *clusterClient
		if cc, err = newClusterClient(opt, e.connFn, rt); err == nil {
			// state "a lazy topology refresh is already scheduled and sleeping" (what DelayDo itself sets up for up
			// to a second): later lazy refreshes are deduplicated, nothing runs in the background.
			cc.sc.mu.Lock()
			cc.sc.ch = make(chan struct{})
			cc.sc.mu.Unlock()
			cl = cc
		}
	}
	if err != nil {
		return nil, err
	}
	return &c28sys{env: e, cl: cl}, nil
}

// ---------------------------------------------------------------- one case

func c28run(r *vrun.Run, c *c28case, pool map[string]*c28sys) {
	var sys *c28sys
	key := c.Mode + "/" + c.Delay + "/" + strconv.FormatBool(c.Disable)
	if !c.Close && pool != nil {
		sys = pool[key]
	}
	if sys == nil {
		var err error
		if sys, err = c28build(c); err != nil {
			panic(fmt.Sprintf("harness: constructor failed for %s: %v", c28json(c), err))
		}
		if !c.Close && pool != nil {
			pool[key] = sys
		}
	}
	cl, e := sys.cl, sys.env
	ctx, cancel := context.WithCancel(context.Background())
	defer cancel()

	keyOf := func(i int) string { return "{t}k" + strconv.Itoa(i) }
	tags := make([]string, len(c.Batch))
	for i := range c.Batch {
		switch c.Batch[i] {
		case 'w', 'W':
			tags[i] = "SET " + keyOf(i)
		case 's':
			tags[i] = "SUBSCRIBE " + keyOf(i)
		default:
			tags[i] = "GET " + keyOf(i)
		}
	}
	e.refuse = func() error { return ctx.Err() }
	e.reset(tags[c.Fault], c.Script, func() {
		if c.Cancel {
			cancel()
		}
		if c.Close {
			cl.Close()
		}
	})
	for i := range c.Batch {
		if c.Batch[i] == 'M' {
			e.mu.Lock()
			e.movedTag = tags[i]
			e.mu.Unlock()
		}
	}
	mk := func(i int) Completed {
		switch c.Batch[i] {
		case 'w':
			return cl.B().Set().Key(keyOf(i)).Value("v").Build()
		case 'W':
			return cl.B().Set().Key(keyOf(i)).Value("v").Build().ToRetryable()
		case 's':
			return cl.B().Subscribe().Channel(keyOf(i)).Build()
		}
		return cl.B().Get().Key(keyOf(i)).Build()
	}
	var shown string
	p, site := vrun.Catch(func() {
		switch c.API {
		case "Do":
			shown = c28show(cl.Do(ctx, mk(0)))
		case "DoCache":
			shown = c28show(cl.DoCache(ctx, cl.B().Get().Key(keyOf(0)).Cache(), time.Minute))
		case "Receive":
			err := cl.Receive(ctx, mk(0), func(PubSubMessage) {})
			var re *RedisError
			switch {
			case err == nil:
				shown = "val:ok"
			case IsRedisNil(err):
				shown = "nil"
			case errors.As(err, &re):
				shown = "err:" + err.Error()
			default:
				shown = "transport:" + err.Error()
			}
		case "DoMultiCache":
			multi := make([]CacheableTTL, len(c.Batch))
			for i := range multi {
				multi[i] = CT(cl.B().Get().Key(keyOf(i)).Cache(), time.Minute)
			}
			shown = c28show(cl.DoMultiCache(ctx, multi...)[c.Fault])
		case "DoMulti":
			multi := make([]Completed, len(c.Batch))
			for i := range multi {
				multi[i] = mk(i)
			}
			shown = c28show(cl.DoMulti(ctx, multi...)[c.Fault])
		}
	})
	if p != nil {
		r.Violate(c.Mode+" "+c.API+": panic in "+site, fmt.Sprintf("panic %v; case %s", p, c28json(c)), c)
		return
	}
	e.mu.Lock()
	counts := e.counts
	faultN, delayN := e.faultN, e.delayN
	refusedN := e.refusedN
	e.mu.Unlock()
	if refusedN > c28runaway {
		r.Violate(c.Mode+" "+c.API+": the client keeps calling the connection after the context is done", fmt.Sprintf("%d calls were refused with the context error and each was retried; case %s", refusedN, c28json(c)), c)
		return
	}

	cluster := c.Mode == "cluster"
	all := true
	for i := range c.Batch {
		all = all && c28retryableClass(c.Batch[i])
	}
	cmdRetryable := c28retryableClass(c.Batch[c.Fault])
	if !cluster {
		cmdRetryable = all // a non-cluster batch is re-sent as a whole, so every command of it must be safe to repeat
	}
	allowed := c28allowed(cluster, cmdRetryable, c)
	if cluster && strings.Contains(c.Batch, "M") && c.Delay == "zero-then-neg" && allowed == 2 {
		// A cluster batch round in which a sibling is redirected re-runs without advancing the attempt counter,
		// so RetryDelay is consulted with attempts=1 twice and legitimately answers 0 twice: one more send is allowed.
		allowed = 3
	}
	desc := func() string {
		return fmt.Sprintf("attempts per command %v (faulted command %q: %d, allowed %d), RetryDelay calls %d, caller got %q; case %s", counts, tags[c.Fault], faultN, allowed, delayN, shown, c28json(c))
	}
	cause := func() string {
		k := allowed - 1 // the retry that should not have happened followed reply number `allowed`
		rep := byte('O')
		if k < len(c.Script) {
			rep = c.Script[k]
		}
		retryableReply := rep == 'T' || rep == 'L' || (cluster && (rep == 'A' || rep == 'D'))
		switch {
		case !retryableReply:
			return "after a reply that must be returned as it is (" + c28name(rep) + ")"
		case c.Disable:
			return "although DisableRetry is set"
		case !cmdRetryable:
			return "of a command / batch that is neither read-only nor marked retryable"
		case c.Cancel && c.Close:
			return "after the context was cancelled and the client closed (" + c28kind(rep) + ")"
		case c.Cancel:
			return "after the context was cancelled (" + c28kind(rep) + ")"
		case c.Close:
			return "after the client was closed (" + c28kind(rep) + ")"
		}
		return "although RetryDelay returned a negative delay"
	}
	if faultN > allowed {
		r.Violate(c.Mode+" "+c.API+": retry "+cause(), desc(), c)
		return
	}
	for i, tg := range tags {
		if i == c.Fault {
			continue
		}
		lim := allowed
		if cluster {
			lim = 1 // its reply was ok: nothing to retry
			if c.Batch[i] == 'M' {
				lim = 2 // one MOVED redirect
			}
		}
		if counts[tg] > lim {
			r.Violate(c.Mode+" "+c.API+": a command of the batch whose own reply was ok was sent again", desc(), c)
			return
		}
	}
	if faultN < 1 {
		r.Violate(c.Mode+" "+c.API+": command never handed to a connection", desc(), c)
		return
	}
	// the caller gets the reply of the last attempt, unchanged
	sym := byte('O')
	if faultN <= len(c.Script) {
		sym = c.Script[faultN-1]
	}
	want := c28expectShown(sym, faultN)
	if c.API == "Receive" && sym == 'O' {
		want = "val:ok"
	}
	if c.Cancel && shown == "transport:context canceled" {
		// the retry decided at the client layer was refused by the connection because the context is done:
		// nothing was sent; the caller sees the context error
		r.Outcome(c.Mode + " " + c.API + ": context error after a cancelled context (no command sent)")
		return
	}
	if shown != want {
		r.Violate(c.Mode+" "+c.API+": caller does not get the reply of the last attempt ("+c28name(sym)+")", desc()+"; expected "+want, c)
		return
	}
	switch {
	case faultN == allowed && faultN == 1:
		r.Outcome(c.Mode + " " + c.API + ": single attempt")
	case faultN == allowed:
		r.Outcome(c.Mode + " " + c.API + ": retried up to the policy limit")
	default:
		r.Outcome(c.Mode + " " + c.API + ": fewer attempts than the policy allows (not a violation: the statement only forbids retries)")
	}
}

func c28kind(sym byte) string {
	if sym == 'T' {
		return "transport error"
	}
	return "LOADING / TRYAGAIN / CLUSTERDOWN reply"
}

func c28name(sym byte) string {
	switch sym {
	case 'T':
		return "transport error"
	case 'L':
		return "LOADING"
	case 'A':
		return "TRYAGAIN"
	case 'D':
		return "CLUSTERDOWN"
	case 'E':
		return "-ERR"
	case 'N':
		return "nil reply"
	case 'X':
		return "aborted EXEC (ErrDoCacheAborted)"
	}
	return "ok"
}

func c28json(v any) string {
	b, _ := json.Marshal(v)
	return string(b)
}

func TestVerif_C28(t *testing.T) {
	vrun.Main(t, "C28", func(r *vrun.Run) {
		r.Rule = "modes {single, standalone, standalone with EnableRedirect after a -REDIRECT reply has swapped in a new primary, standalone with a replica and SendToReplicas=true, sentinel, cluster (one shard)} over mockConn fake nodes x API shapes {Do: r=GET, w=SET, W=SET.ToRetryable(); DoCache: GET.Cache(); " +
			"Receive: SUBSCRIBE; DoMulti: r, w, W, rr, rw, wr, Wr, rW with the scripted replies on each position; cluster also rM, WM, wM where M is a GET answered MOVED once} x every reply script of length 3 over {T transport error, L LOADING, A TRYAGAIN, D CLUSTERDOWN, E -ERR, N nil, O ok} (then ok) x " +
			"RetryDelay {always 0, always -1, 0 then -1} x context cancelled inside the first attempt x client closed inside the first attempt x DisableRetry. " +
			"Oracle: reference policy from the statement = maximum number of times the faulted command may be handed to a connection; more is a violation, fewer is recorded as an outcome; other commands of a batch are re-sent only with a legitimately retried " +
			"non-cluster batch; the caller must get the (numbered) reply of the last attempt unchanged. non-trivial = script starting with a retryable reply."
		r.Assume("attempts are counted at the connection seam (conn.Do / DoMulti / DoCache / Receive of mockConn), i.e. before the pipe; the real pipe refuses a done context before writing, so a conn-level attempt after cancellation does not reach the server")
		r.Assume("a non-cluster batch is re-sent as a whole, therefore it counts as retryable only if every command in it is read-only or marked retryable; in cluster mode only the failed command is re-sent")
		r.Assume("cacheable commands (DoCache) and SUBSCRIBE count as read-only")
		r.Assume("'cancelled / closed after the first attempt' = cancel() / Close() is called inside the fake node while it handles the first attempt")
		r.Assume("cluster clients run in the state 'a lazy refresh is already scheduled' (call.ch set), so no background refresh runs; clients are reused between cases that do not close them (fake node state is reset per case)")
		if raw, ok := r.ReplayPayload(); ok {
			var c c28case
			if err := json.Unmarshal(raw, &c); err != nil {
				panic(err)
			}
			c28run(r, &c, nil)
			return
		}
		var scripts []string
		for a := 0; a < len(c28alpha); a++ {
			for b := 0; b < len(c28alpha); b++ {
				for d := 0; d < len(c28alpha); d++ {
					scripts = append(scripts, string([]byte{c28alpha[a], c28alpha[b], c28alpha[d]}))
				}
			}
		}
		// DoCache only: X = the server aborted the caching transaction (a reply of the server, neither a transport error nor LOADING)
		var scriptsX []string
		xa := c28alpha + "X"
		for a := 0; a < len(xa); a++ {
			for b := 0; b < len(xa); b++ {
				for d := 0; d < len(xa); d++ {
					scriptsX = append(scriptsX, string([]byte{xa[a], xa[b], xa[d]}))
				}
			}
		}
		type shape struct {
			api, batch string
			fault      int
		}
		shapes := []shape{{"Do", "r", 0}, {"Do", "w", 0}, {"Do", "W", 0}, {"DoCache", "c", 0}, {"Receive", "s", 0}, {"DoMultiCache", "c", 0}, {"DoMultiCache", "cc", 1}}
		for _, b := range []string{"r", "w", "W", "rr", "rw", "wr", "Wr", "rW"} {
			for f := range b {
				shapes = append(shapes, shape{"DoMulti", b, f})
			}
		}
		// cluster only: M = a GET that is answered MOVED (to the same address) once, so that a redirect round happens
		clusterShapes := []shape{{"DoMulti", "rM", 0}, {"DoMulti", "WM", 0}, {"DoMulti", "wM", 0}}
		r.Bounds["scripts"] = len(scripts)
		r.Bounds["shapes"] = len(shapes)
		ballast := make([]byte, 256<<20) // cluster clients are 256 KiB objects; keeps GC / scavenger quiet (performance only)
		defer runtime.KeepAlive(ballast)
		quick := r.Quick()
		pool := map[string]*c28sys{}
		item := 0
		t0 := time.Now()
		for _, mode := range []string{"single", "standalone", "standalone-redirected", "standalone-replica", "sentinel", "cluster"} {
			if mode != "single" {
				r.Note(fmt.Sprintf("elapsed before mode %s: %.1fs", mode, time.Since(t0).Seconds()))
			}
			modeShapes := shapes
			if mode == "cluster" {
				modeShapes = append(append([]shape(nil), shapes...), clusterShapes...)
			}
			for _, sh := range modeShapes {
				for _, delay := range []string{"zero", "neg", "zero-then-neg"} {
					for _, disable := range []bool{false, true} {
						item++
						if !r.Mine(item) {
							continue
						}
						if r.TimeUp() {
							return
						}
						for _, cancel := range []bool{false, true} {
							for _, cls := range []bool{false, true} {
								if quick && cls && (delay != "zero" || cancel) {
									continue // quick tier: closing cases (fresh client each) only with the most permissive delay and a live context
								}
								scs := scripts
								if sh.api == "DoCache" || sh.api == "DoMultiCache" {
									scs = scriptsX
								}
								for _, sc := range scs {
									c := &c28case{Mode: mode, API: sh.api, Batch: sh.batch, Fault: sh.fault, Script: sc, Delay: delay, Cancel: cancel, Close: cls, Disable: disable}
									r.Evaluations++
									id := c28json(c)
									r.StateStr(id)
									if strings.IndexByte("TLAD", sc[0]) >= 0 {
										r.NonTrivialStr(id)
									}
									if sc == "TLO" && delay == "zero" && !disable && !cancel && !cls && sh.batch == "rr" {
										r.Sample(c)
									}
									c28run(r, c, pool)
								}
							}
						}
					}
				}
			}
		}
	})
}
