//go:build verif

package rueidis

import (
	"bufio"
	"bytes"
	"context"
	"encoding/hex"
	"encoding/json"
	"errors"
	"fmt"
	"io"
	"os"
	"os/exec"
	"runtime/debug"
	"runtime/metrics"
	"strconv"
	"strings"
	"syscall"
	"testing"
	"time"

	"github.com/redis/rueidis/vshim/vrun"
)

// C13 — malformed RESP input: value or error, never a panic, allocation bounded
// by the bytes actually received.
//
// Two bounded-exhaustive enumerations of byte strings followed by EOF:
//   layer "raw":  every sequence of up to N raw tokens (type bytes, digits,
//                 special lengths, CR/LF pieces, payload bytes);
//   layer "line": every sequence of up to M complete header lines
//                 (type byte x number text x terminator) and payload pieces.
// A prefix is only extended while the decoder asked for more bytes than the
// prefix holds (the reader records a Read at EOF): a deterministic decoder that
// finished without touching EOF behaves identically on every extension.
// Inputs with a declared length of >= 8 digits after a length-carrying type
// byte are decoded in a child process under RLIMIT_AS so that an unbounded
// allocation cannot hurt the machine.

const (
	c13fnRNM    = 0 // readNextMessage
	c13fnStream = 1 // streamTo
	c13asLimit  = 4 << 30
)

var c13fnName = [2]string{"readNextMessage", "streamTo"}

type c13res struct {
	Out    string `json:"o"` // value | error | panic | crash
	Detail string `json:"d,omitempty"`
	Site   string `json:"s,omitempty"`
	Alloc  uint64 `json:"a"`
	More   bool   `json:"m"`
}

type c13rd struct {
	data []byte
	pos  int
	more bool
}

func (r *c13rd) Read(p []byte) (int, error) {
	if r.pos >= len(r.data) {
		r.more = true
		return 0, io.EOF
	}
	n := copy(p, r.data[r.pos:])
	r.pos += n
	return n, nil
}

type c13sink struct{ n int64 }

func (w *c13sink) Write(p []byte) (int, error) { w.n += int64(len(p)); return len(p), nil }

var c13sample = []metrics.Sample{{Name: "/gc/heap/allocs:bytes"}}

func c13allocs() uint64 {
	metrics.Read(c13sample)
	return c13sample[0].Value.Uint64()
}

var c13t0 = time.Now()
var c13brs = map[int]*bufio.Reader{}

// c13eval runs one decoder on in+EOF and reports outcome, allocated bytes and
// whether the decoder tried to read past the end of the input.
// c13eval measures through c13eval1; the allocation metric is process wide and lazily flushed, so a
// reading above the bound is only believed when it persists over repeated measurements (minimum of 4).
func c13eval(fn int, in []byte, size int) (res c13res) {
	res = c13eval1(fn, in, size)
	for k := 0; k < 3 && res.Out != "panic" && res.Alloc > c13bound(in); k++ {
		if again := c13eval1(fn, in, size); again.Alloc < res.Alloc {
			res.Alloc = again.Alloc
		}
	}
	return res
}

func c13eval1(fn int, in []byte, size int) (res c13res) {
	rd := &c13rd{data: in}
	br := c13brs[size]
	if br == nil {
		br = bufio.NewReaderSize(rd, size)
		c13brs[size] = br
	}
	br.Reset(rd)
	w := &c13sink{}
	var err error
	a0 := c13allocs()
	p, site := vrun.Catch(func() {
		if fn == c13fnRNM {
			_, err = readNextMessage(br)
		} else {
			_, err, _ = streamTo(br, w)
		}
	})
	a1 := c13allocs()
	res.Alloc = a1 - a0
	res.More = rd.more
	switch {
	case p != nil:
		res.Out, res.Detail, res.Site = "panic", fmt.Sprint(p), site
		res.Alloc = 0 // the stack dump of Catch is not the decoder's allocation
	case err != nil:
		res.Out, res.Detail = "error", err.Error()
		if re, ok := err.(*RedisError); ok {
			res.Detail = "(redis error reply)"
			if re.IsNil() {
				res.Detail = "(redis nil)"
			}
		}
	default:
		res.Out = "value"
	}
	return
}

func c13bound(in []byte) uint64 { return 1<<20 + 64*uint64(len(in)) }

func c13isLenType(b byte) bool { return strings.IndexByte("$!=*~>%|;", b) >= 0 }

// c13risky: a run of >= 8 digits whose line is terminated by a later LF. (A
// decoder cannot act on a number before its terminator arrived; resp.go readI
// uses ReadSlice('\n').) The byte in front of the digits is deliberately not
// looked at: after "$?" any byte is taken as the chunk marker.
func c13risky(in []byte) bool {
	run := 0
	for i := 0; i < len(in); i++ {
		if in[i] >= '0' && in[i] <= '9' {
			run++
			continue
		}
		if run >= 8 && bytes.IndexByte(in[i:], '\n') >= 0 {
			return true
		}
		run = 0
	}
	return false
}

// c13culprit names the kind of header that carries the decisive number (used for signatures only).
func c13culprit(in []byte) string {
	best, bestLen, bestRank := -1, 0, -1
	for i := 0; i < len(in); {
		j := i
		for j < len(in) && in[j] >= '0' && in[j] <= '9' {
			j++
		}
		if j == i {
			i++
			continue
		}
		k := i - 1
		if k >= 0 && in[k] == '-' {
			k--
		}
		rank := 0
		if k >= 0 && c13isLenType(in[k]) {
			rank = 2
		} else if k >= 3 && string(in[k-3:k]) == "?\r\n" || i >= 4 && string(in[i-4:i-1]) == "?\r\n" {
			rank = 1 // any byte after "$?CRLF" is taken as the chunk marker
		}
		if j-i >= 4 && (rank > bestRank || rank == bestRank && j-i > bestLen) {
			best, bestLen, bestRank = k, j-i, rank
		}
		i = j
	}
	if bestRank < 0 {
		return "no large number"
	}
	if bestRank == 1 || bestRank == 2 && in[best] == ';' {
		return "chunk length of a streamed string"
	}
	if bestRank == 2 {
		switch in[best] {
		case '$', '!', '=':
			return "declared length of a blob string/error/verbatim string ($ ! =)"
		default:
			return "declared size of an aggregate (* ~ > % |)"
		}
	}
	return "other number"
}

func c13stripDigits(s string) string {
	var b strings.Builder
	last := false
	for i := 0; i < len(s); i++ {
		if s[i] >= '0' && s[i] <= '9' {
			if !last {
				b.WriteByte('N')
			}
			last = true
			continue
		}
		last = false
		b.WriteByte(s[i])
	}
	return b.String()
}

// ---------------------------------------------------------------- child side

type c13job struct {
	In   []byte  `json:"in,omitempty"`
	Gen  string  `json:"gen,omitempty"` // "nest:<frame>:<count>": input generated in the child
	Mask [2]bool `json:"mask"`
	Size int     `json:"size"`
}

func (j *c13job) input() []byte {
	if strings.HasPrefix(j.Gen, "nest:") {
		parts := strings.SplitN(j.Gen, ":", 3)
		n, _ := strconv.Atoi(parts[2])
		fr, _ := hex.DecodeString(parts[1])
		return bytes.Repeat(fr, n)
	}
	return j.In
}

func c13child() {
	lim := syscall.Rlimit{Cur: c13asLimit, Max: c13asLimit}
	if err := syscall.Setrlimit(syscall.RLIMIT_AS, &lim); err != nil {
		fmt.Printf("X setrlimit %v\n", err)
		return
	}
	in := bufio.NewReaderSize(os.Stdin, 1<<16)
	for i := 0; ; i++ {
		line, err := in.ReadString('\n')
		if len(line) > 1 {
			var j c13job
			if e := json.Unmarshal([]byte(line), &j); e != nil {
				fmt.Printf("X bad job %v\n", e)
				return
			}
			data := j.input()
			for fn := 0; fn < 2; fn++ {
				if !j.Mask[fn] {
					continue
				}
				fmt.Printf("F %d %d\n", i, fn)
				res := c13eval(fn, data, j.Size)
				b, _ := json.Marshal(res)
				fmt.Printf("E %d %d %s\n", i, fn, b)
				if res.Alloc > 256<<20 {
					fmt.Printf("Q %d %d\n", i, fn)
					return // a fresh child continues (see c13runChild)
				}
				if res.Alloc > 32<<20 {
					debug.FreeOSMemory()
				}
			}
		}
		if err != nil {
			return
		}
	}
}

// ---------------------------------------------------------------- parent side

type c13jobRes struct {
	res [2]*c13res
}

func c13fatalLine(stderr string) string {
	lines := strings.Split(stderr, "\n")
	for _, pre := range []string{"fatal error:", "panic:", "runtime:"} {
		for _, l := range lines {
			if strings.HasPrefix(l, pre) {
				return c13firstN(l, 200)
			}
		}
	}
	return "child died: " + c13firstN(stderr, 200)
}

func c13firstN(s string, n int) string {
	if len(s) > n {
		return s[:n]
	}
	return s
}

// c13spawn runs jobs in one child; returns results and the index/fn at which the child died (-1 = finished).
func c13spawn(jobs []c13job, out []c13jobRes) (diedJob, diedFn int, fatal string, err error) {
	ctx, cancel := context.WithTimeout(context.Background(), 120*time.Second)
	defer cancel()
	cmd := exec.CommandContext(ctx, os.Args[0], "-test.run=^TestVerif_C13$", "-test.count=1", "-test.timeout=0")
	cmd.Env = append(os.Environ(), "C13_CHILD=1", "GOTRACEBACK=single")
	var stdin bytes.Buffer
	for i := range jobs {
		b, _ := json.Marshal(&jobs[i])
		stdin.Write(b)
		stdin.WriteByte('\n')
	}
	cmd.Stdin = &stdin
	var stdout, stderr bytes.Buffer
	cmd.Stdout, cmd.Stderr = &stdout, &stderr
	runErr := cmd.Run()
	curJob, curFn := -1, -1
	for _, l := range strings.Split(stdout.String(), "\n") {
		f := strings.SplitN(l, " ", 4)
		if len(f) < 3 {
			continue
		}
		switch f[0] {
		case "F":
			curJob, _ = strconv.Atoi(f[1])
			curFn, _ = strconv.Atoi(f[2])
		case "E":
			if len(f) < 4 {
				continue
			}
			ji, _ := strconv.Atoi(f[1])
			fn, _ := strconv.Atoi(f[2])
			var res c13res
			if e := json.Unmarshal([]byte(f[3]), &res); e == nil && ji < len(out) {
				out[ji].res[fn] = &res
			}
			curJob, curFn = -1, -1
		case "X":
			return -1, -1, "", fmt.Errorf("child machinery: %s", l)
		}
	}
	if ctx.Err() != nil {
		return curJob, curFn, "child timed out (120 s)", nil
	}
	if curJob >= 0 {
		return curJob, curFn, c13fatalLine(stderr.String()), nil
	}
	if runErr != nil {
		return -1, -1, "", fmt.Errorf("child failed outside an evaluation: %v, stderr %s", runErr, c13firstN(stderr.String(), 400))
	}
	return -1, -1, "", nil
}

// c13runChild evaluates all jobs in child processes. The child leaves
// voluntarily after a very large allocation (re-using freed gigabyte spans is
// slow: they have to be zeroed), and dies on a fatal runtime error; in both
// cases a fresh child continues with what is left. A fatal crash on a job is
// confirmed by re-running that single job/function alone in a fresh child (no
// earlier allocations) before it is reported.
var c13stop = func() bool { return false } // set by the test: wall-clock budget used up

var errC13Stopped = errors.New("stopped: wall-clock budget")

func c13runChild(jobs []c13job) ([]c13jobRes, error) {
	out := make([]c13jobRes, len(jobs))
	pending := make([]c13job, len(jobs))
	copy(pending, jobs)
	start := 0
	for {
		// skip finished jobs, drop finished functions from the masks
		for start < len(jobs) {
			for fn := 0; fn < 2; fn++ {
				if out[start].res[fn] != nil {
					pending[start].Mask[fn] = false
				}
			}
			if pending[start].Mask[0] || pending[start].Mask[1] {
				break
			}
			start++
		}
		if start >= len(jobs) {
			return out, nil
		}
		if c13stop() {
			return out, errC13Stopped
		}
		sub := make([]c13jobRes, len(jobs)-start)
		ts := time.Now()
		dj, dfn, fatal, err := c13spawn(pending[start:], sub)
		if os.Getenv("C13_DEBUG") != "" {
			fmt.Fprintf(os.Stderr, "  spawn %d jobs: died at %d/%d (%s) in %.2fs\n", len(pending)-start, dj, dfn, fatal, time.Since(ts).Seconds())
			if dj >= 0 {
				fmt.Fprintf(os.Stderr, "    input %q\n", pending[start+dj].In)
			}
		}
		if err != nil {
			return nil, err
		}
		progress := false
		for i := range sub {
			for fn := 0; fn < 2; fn++ {
				if sub[i].res[fn] != nil {
					if os.Getenv("C13_DEBUG") != "" && sub[i].res[fn].Alloc > 256<<20 {
						fmt.Fprintf(os.Stderr, "    big: fn %d %q %d\n", fn, pending[start+i].In, sub[i].res[fn].Alloc)
					}
					out[start+i].res[fn] = sub[i].res[fn]
					progress = true
				}
			}
		}
		if dj >= 0 {
			k := start + dj
			single := []c13job{pending[k]}
			single[0].Mask = [2]bool{}
			single[0].Mask[dfn] = true
			one := make([]c13jobRes, 1)
			cj, _, cfatal, err := c13spawn(single, one)
			if err != nil {
				return nil, err
			}
			if cj >= 0 {
				out[k].res[dfn] = &c13res{Out: "crash", Detail: cfatal}
			} else if one[0].res[dfn] != nil {
				out[k].res[dfn] = one[0].res[dfn] // did not reproduce alone: use the clean result
			} else {
				return nil, fmt.Errorf("confirmation child gave no result for %q", pending[k].In)
			}
			progress = true
		}
		if !progress {
			return nil, fmt.Errorf("child made no progress at job %d (%q)", start, pending[start].In)
		}
	}
}

// ---------------------------------------------------------------- enumeration

type c13item struct {
	in    []byte
	alive [2]bool
	root  int
}

type c13replay struct {
	Fn   int    `json:"fn"`
	In   []byte `json:"in,omitempty"`
	Gen  string `json:"gen,omitempty"`
	Size int    `json:"size"`
	Risk bool   `json:"child"`
	Nest bool   `json:"nested_headers,omitempty"`
}

type c13state struct {
	r      *vrun.Run
	evals  int64
	ocache [2]map[string]string
}

// judge records the outcome of one evaluation, returns whether this function stays alive for extensions.
func (s *c13state) judge(fn int, in []byte, gen string, size int, risk bool, res *c13res) bool {
	r := s.r
	r.Evaluations++
	name := c13fnName[fn]
	if res.Out == "panic" || res.Out == "crash" || (res.Alloc > c13bound(in) && gen == "") {
		s.violation(fn, in, gen, size, risk, res)
		return false
	}
	// fast path: outcome class through a small cache (no string building per evaluation)
	if s.ocache[fn] == nil {
		s.ocache[fn] = map[string]string{}
	}
	ck := res.Detail // "" for a value
	key, ok := s.ocache[fn][ck]
	if !ok {
		if res.Out == "value" {
			key = name + ": value"
		} else {
			d := c13stripDigits(res.Detail)
			if len(d) > 60 {
				d = d[:60]
			}
			key = name + ": error: " + d
		}
		s.ocache[fn][ck] = key
	}
	r.Outcome(key)
	return res.More
}

func (s *c13state) violation(fn int, in []byte, gen string, size int, risk bool, res *c13res) {
	r := s.r
	name := c13fnName[fn]
	rp := c13replay{Fn: fn, In: in, Gen: gen, Size: size, Risk: risk}
	show := fmt.Sprintf("%q", in)
	if gen != "" {
		show = gen
		rp.In = nil
	}
	switch res.Out {
	case "panic":
		r.Outcome(name + ": PANIC")
		r.Violate(fmt.Sprintf("panic in %s (%s)", res.Site, c13stripDigits(res.Detail)),
			fmt.Sprintf("%s on input %s + EOF (bufio %d): panic: %s", name, show, size, res.Detail), rp)
	case "crash":
		r.Outcome(name + ": FATAL CRASH")
		cls := c13stripDigits(res.Detail)
		if strings.Contains(res.Detail, "out of memory") {
			cls = "out of memory under RLIMIT_AS=4GiB: " + c13culprit(in)
		} else if gen != "" {
			cls += ": deeply nested aggregates"
		}
		r.Violate(fmt.Sprintf("process dies with unrecoverable fatal error (%s)", cls),
			fmt.Sprintf("%s on input %s + EOF (bufio %d) in a child process limited to 4 GiB address space: %s", name, show, size, res.Detail), rp)
	default:
		r.Outcome(name + ": EXCESSIVE ALLOCATION")
		r.Violate(fmt.Sprintf("allocation not bounded by received bytes (%s)", c13culprit(in)),
			fmt.Sprintf("%s on input %s + EOF (%d bytes, bufio %d): %d bytes allocated while decoding (bound 1MiB+64*len = %d); outcome %s %s", name, show, len(in), size, res.Alloc, c13bound(in), res.Out, res.Detail), rp)
	}
}

// explore does the level-wise search over the token alphabet.
// It starts from `level` (nil = the empty input) at depth fromDepth and returns
// the extendable prefixes of the last level (nil when stopped by the budget).
func (s *c13state) explore(layer string, tokensAt func(depth int) []string, allow func(prefix []byte, tok string, depth int) bool, level []c13item, fromDepth, maxDepth int, sizes []int) []c13item {
	r := s.r
	if level == nil {
		level = []c13item{{in: nil, alive: [2]bool{true, true}, root: -1}}
	}
	for depth := fromDepth; depth <= maxDepth && len(level) > 0; depth++ {
		var next []c13item
		var jobs []c13job
		var jobItems []c13item
		tokens := tokensAt(depth)
		for _, it := range level {
			for ti, tok := range tokens {
				root := it.root
				if depth == 1 {
					root = ti
				}
				if !r.Mine(root) {
					continue
				}
				if !allow(it.in, tok, depth) {
					continue
				}
				cand := make([]byte, 0, len(it.in)+len(tok))
				cand = append(append(cand, it.in...), tok...)
				if !r.StateStr(layer, string(cand)) {
					continue
				}
				ci := c13item{in: cand, root: root}
				if c13risky(cand) {
					jobs = append(jobs, c13job{In: cand, Mask: it.alive, Size: sizes[0]})
					jobItems = append(jobItems, ci)
					r.NonTrivialStr(layer, string(cand))
					continue
				}
				for fn := 0; fn < 2; fn++ {
					if !it.alive[fn] {
						continue
					}
					al := false
					for _, sz := range sizes {
						if sz != sizes[0] && len(cand) < sz {
							continue // the whole input fits into the smaller buffer: identical behaviour
						}
						res := c13eval(fn, cand, sz)
						if s.judge(fn, cand, "", sz, false, &res) {
							al = true
						}
					}
					ci.alive[fn] = al
				}
				if ci.alive[0] || ci.alive[1] {
					r.NonTrivialStr(layer, string(cand))
					next = append(next, ci)
				}
				if s.evals++; s.evals%4096 == 0 && r.TimeUp() {
					return nil
				}
			}
		}
		if os.Getenv("C13_DEBUG") != "" {
			fmt.Fprintf(os.Stderr, "%s depth %d: level %d, next(in-proc) %d, child jobs %d, evals %d, t=%.1fs\n", layer, depth, len(level), len(next), len(jobs), r.Evaluations, time.Since(c13t0).Seconds())
		}
		if len(jobs) > 0 {
			const batch = 500
			for b := 0; b < len(jobs); b += batch {
				e := min(b+batch, len(jobs))
				out, err := c13runChild(jobs[b:e])
				if err == errC13Stopped {
					return nil
				}
				if err != nil {
					panic(err)
				}
				for i := range out {
					ci := jobItems[b+i]
					for fn := 0; fn < 2; fn++ {
						if res := out[i].res[fn]; res != nil {
							ci.alive[fn] = s.judge(fn, ci.in, "", sizes[0], true, res)
						}
					}
					if ci.alive[0] || ci.alive[1] {
						next = append(next, ci)
					}
				}
				if r.TimeUp() {
					return nil
				}
			}
		}
		r.Bounds[layer+"_level_"+strconv.Itoa(depth)+"_extendable"] = len(next)
		level = next
	}
	return level
}

func TestVerif_C13(t *testing.T) {
	if os.Getenv("C13_CHILD") != "" {
		t0 := time.Now()
		c13child()
		fmt.Fprintf(os.Stderr, "child work %v\n", time.Since(t0))
		os.Stdout.Sync()
		os.Exit(0)
	}
	vrun.Main(t, "C13", func(r *vrun.Run) {
		s := &c13state{r: r}
		c13stop = r.TimeUp
		if raw, ok := r.ReplayPayload(); ok {
			var p c13replay
			if err := json.Unmarshal(raw, &p); err != nil {
				panic(err)
			}
			if p.Risk {
				j := c13job{In: p.In, Gen: p.Gen, Size: p.Size}
				j.Mask[p.Fn] = true
				out := make([]c13jobRes, 1)
				dj, _, fatal, err := c13spawn([]c13job{j}, out) // alone in a fresh child
				if err != nil {
					panic(err)
				}
				res := out[0].res[p.Fn]
				if dj >= 0 {
					res = &c13res{Out: "crash", Detail: fatal}
				}
				if res == nil {
					panic("replay: child gave no result")
				}
				s.judge(p.Fn, p.In, p.Gen, p.Size, true, res)
			} else {
				res := c13eval(p.Fn, p.In, p.Size)
				if p.Nest && res.Out != "panic" && res.Out != "crash" && res.Alloc > c13bound(p.In) {
					r.Violate("allocation amplified by nesting: every nested aggregate header preallocates up to 64 KiB before any element has arrived",
						fmt.Sprintf("%s on %d bytes of nested headers: %d bytes allocated (bound %d)", c13fnName[p.Fn], len(p.In), res.Alloc, c13bound(p.In)), p)
					return
				}
				s.judge(p.Fn, p.In, "", p.Size, false, &res)
			}
			return
		}
		rawDepth := vrun.Pick(r, 4, 5)
		lineDepth := vrun.Pick(r, 3, 3)
		lineFullDepth := vrun.Pick(r, 2, 3) // deeper levels use the reduced line alphabet (quick: level 3; thorough: full alphabet on all 3 levels)
		hugeLineDepth := vrun.Pick(r, 1, 2)
		hugeRawPos := vrun.Pick(r, 2, 3)
		hugeRawTotal := vrun.Pick(r, 3, 4)
		r.Bounds["raw_max_position_of_2^30_token"] = hugeRawPos
		r.Bounds["raw_max_tokens_of_inputs_with_2^30"] = hugeRawTotal
		r.Bounds["raw_tokens_max"] = rawDepth
		r.Bounds["line_tokens_max"] = lineDepth
		r.Bounds["line_full_alphabet_up_to_depth"] = lineFullDepth
		r.Bounds["line_tokens_max_for_2^30"] = hugeLineDepth // one level deeper as a chunk header ';2^30'
		r.Bounds["child_address_space_limit"] = c13asLimit
		r.Rule = "layer raw: every sequence of <= raw_tokens_max tokens over {17 type bytes, unknown type 'X', digits 0 1 7, lengths -1 -2 minInt64 maxInt64 10^20-1 2^30 65536 ?, CRLF, CR, LF, 'ab'} + EOF; layer line: every sequence of <= line_tokens_max complete header lines {17 type bytes} x {'' 0 1 2 - -0 -1 -2 ? a 65536 2^30 2^62 2^63-1 -2^63 10^20-1} x CRLF (a few with bare LF) and payload pieces (beyond line_full_alphabet_up_to_depth a reduced alphabet {+ : $ * % | ; .} x {'' 0 1 -2 ? 65536 2^62 2^63-1}; quick: {+ $ * % ; .} x {'' 1 -2 ? 65536} and only after prefixes that did not need the child); the 2^30 token (1 GiB allocations are slow even in the child) only at the positions given in bounds; prefixes are extended only while the decoder read past the end of the prefix (and did not already violate); each input through readNextMessage and streamTo with recover, heap bytes allocated during the call measured (runtime/metrics) and required <= 1MiB + 64*len(input); inputs with a >= 8 digit length after a length-carrying type byte run in a child process under RLIMIT_AS 4GiB (a fatal error of the child, confirmed in a fresh child, is a violation); plus deeply nested arrays in the child, and 16/64/256 nested aggregate headers that each declare 65536 (or 1365) elements. non-trivial = input on which a decoder wanted more bytes or that needed the child"
		r.Assume("allocation is measured as the growth of /gc/heap/allocs:bytes around the call (large objects are accounted immediately; small-object accounting may lag by at most a span per size class, far below the 1 MiB slack)")
		r.Assume("stack memory is not counted as allocation; a stack overflow is reported as a fatal crash")
		r.Assume("bufio reader sizes 32 (minimum rueidis configures) and 4096; split reads are covered by C12")
		r.Assume("the search does not extend a prefix once it produced a violation for that function (extensions hit the same allocation/panic first)")

		sizes := []int{4096, 32}
		// ---- layer raw
		rawTokens := []string{"+", "-", ":", "$", "_", "#", ",", "(", "!", "=", "*", "~", "%", ">", "|", ";", ".", "X",
			"0", "1", "7", "-1", "-2", "-9223372036854775808", "9223372036854775807", "99999999999999999999", "1073741824", "65536", "?",
			"\r\n", "\r", "\n", "ab"}
		huge := []byte("1073741824")
		runRaw := func() {
			s.explore("raw", func(int) []string { return rawTokens }, func(prefix []byte, tok string, depth int) bool {
				// every 1 GiB allocation costs a noticeable fraction of a second in the child: bound position and total length
				if tok == "1073741824" && depth > hugeRawPos {
					return false
				}
				if depth > hugeRawTotal && bytes.Contains(prefix, huge) {
					return false
				}
				return true
			}, nil, 1, rawDepth, sizes)
		}

		// ---- layer line
		mk := func(types string, nums []string) (out []string) {
			for _, ty := range types {
				for _, n := range nums {
					out = append(out, string(ty)+n+"\r\n")
				}
			}
			return
		}
		lineTokens := mk("+-:$_#,(!=*~%>|;.", []string{"", "0", "1", "2", "-", "-0", "-1", "-2", "?", "a", "65536", "1073741824", "4611686018427387904", "9223372036854775807", "-9223372036854775808", "99999999999999999999"})
		for _, ty := range "$*:" {
			lineTokens = append(lineTokens, string(ty)+"1\n", string(ty)+"12\n")
		}
		lineTokens = append(lineTokens, "a\r\n", "ab\r\n", "ab", "a", "\r\n", "t\r\n", "X")
		lineReduced := mk("+:$*%|;.", []string{"", "0", "1", "-2", "?", "65536", "4611686018427387904", "9223372036854775807"})
		lineReduced = append(lineReduced, "_\r\n", "#t\r\n", "a\r\n", "ab\r\n", "ab", "a", "\r\n", "X")
		if r.Quick() {
			lineReduced = mk("+$*%;.", []string{"", "1", "-2", "?", "65536"})
			lineReduced = append(lineReduced, "_\r\n", "a\r\n", "ab", "\r\n", "X")
		}
		lineAt := func(depth int) []string {
			if depth <= lineFullDepth {
				return lineTokens
			}
			return lineReduced
		}
		lineAllow := func(prefix []byte, tok string, depth int) bool {
			if strings.Contains(tok, "1073741824") && depth > hugeLineDepth {
				// 1 GiB allocations are slow even in the child: deeper only as a chunk header (one level deeper)
				if !(tok[0] == ';' && depth <= hugeLineDepth+1) {
					return false
				}
			}
			if r.Quick() && depth > lineFullDepth && c13risky(prefix) {
				return false // quick tier: prefixes that already needed the child are not extended with the reduced alphabet
			}
			return true
		}
		// order: the cheap and most productive part first, so that a wall-clock cap on a loaded machine cuts the bulk, not the findings
		lvl := s.explore("line", lineAt, lineAllow, nil, 1, 2, sizes)
		// ---- deep nesting (input generated inside the child; never in-process: a stack overflow is not recoverable)
		if r.Mine(0) {
			levels := 1500000
			r.Bounds["nesting_levels"] = levels
			frames := vrun.Pick(r, []string{"*1\r\n"}, []string{"*1\r\n", "%1\r\n+k\r\n", "*?\r\n", "|1\r\n+k\r\n", ">1\r\n"})
			for _, fr := range frames {
				for fn := 0; fn < vrun.Pick(r, 1, 2); fn++ { // streamTo reaches the same code through readNextMessage
					j := c13job{Gen: "nest:" + hex.EncodeToString([]byte(fr)) + ":" + strconv.Itoa(levels), Size: 4096}
					j.Mask[fn] = true
					out := make([]c13jobRes, 1)
					dj, _, fatal, err := c13spawn([]c13job{j}, out) // alone in a fresh child
					if err != nil {
						panic(err)
					}
					res := out[0].res[fn]
					if dj >= 0 {
						res = &c13res{Out: "crash", Detail: fatal}
					}
					if res == nil {
						panic("nest: no result")
					}
					r.StateStr("nest", j.Gen, strconv.Itoa(fn))
					r.NonTrivialStr("nest", j.Gen, strconv.Itoa(fn))
					s.judge(fn, nil, j.Gen, 4096, true, res)
				}
			}
		}

		// ---- nested headers with large declared counts (in-process: the depth is far from any stack limit)
		if r.Mine(0) {
			var fams []string
			for _, fr := range []string{"*65536\r\n", "~65536\r\n", ">65536\r\n", "%65536\r\n", "*1365\r\n", "*?\r\n*65536\r\n"} {
				for _, levels := range []int{16, 64, 256} {
					in := bytes.Repeat([]byte(fr), levels)
					fams = append(fams, fmt.Sprintf("%q x %d", fr, levels))
					for fn := 0; fn < 2; fn++ {
						res := c13eval(fn, in, 4096)
						r.Evaluations++
						r.StateStr("nestbig", fr, strconv.Itoa(levels), strconv.Itoa(fn))
						r.NonTrivialStr("nestbig", fr, strconv.Itoa(levels), strconv.Itoa(fn))
						if res.Out != "panic" && res.Out != "crash" && res.Alloc > c13bound(in) {
							// own signature: the per-header bound holds, the amplification comes from nesting
							r.Outcome(c13fnName[fn] + ": EXCESSIVE ALLOCATION (nested headers)")
							r.Violate("allocation amplified by nesting: every nested aggregate header preallocates up to 64 KiB before any element has arrived",
								fmt.Sprintf("%s on %d nested headers %q + EOF (%d bytes, bufio 4096): %d bytes allocated while decoding (bound 1MiB+64*len = %d); outcome %s %s", c13fnName[fn], levels, fr, len(in), res.Alloc, c13bound(in), res.Out, res.Detail),
								c13replay{Fn: fn, In: in, Size: 4096, Nest: true})
							continue
						}
						s.judge(fn, in, "", 4096, false, &res)
					}
				}
			}
			r.Bounds["nested_big_headers"] = fams
		}

		runRaw()
		if lvl != nil && lineDepth > 2 && !r.TimeUp() {
			s.explore("line", lineAt, lineAllow, lvl, 3, lineDepth, sizes)
		}
		r.Bounds["line_reduced_alphabet"] = len(lineReduced)
		r.Bounds["raw_alphabet"] = len(rawTokens)
		r.Bounds["line_alphabet"] = len(lineTokens)

		r.Sample(map[string]any{"input": "$-2\r\n", "fn": "readNextMessage"})
	})
}
