//go:build verif

package rueidis

import (
	"bytes"
	"context"
	"encoding/json"
	"errors"
	"fmt"
	"runtime"
	"strings"
	"sync"
	"sync/atomic"
	"testing"
	"time"

	"github.com/redis/rueidis/vshim/vrun"
)

// C23: a sentinel client follows the current master.
//
// A real sentinelClient (newSentinelClient) runs over 2 fake sentinels and 3 fake data nodes (mockConn per
// connFn call, each remembering whether the client closed it). Explicit-state search: breadth first over event
// histories; every state is reached by replaying its history on a fresh world and a fresh client.

var c23sentAddr = [2]string{"10.0.0.1:26379", "10.0.0.2:26379"}
var c23nodeAddr = [3]string{"10.0.1.1:6379", "10.0.1.2:6379", "10.0.1.3:6379"}

const c23masterSet = "mymaster"

var c23errDown = errors.New("c23: connection refused / reset (node is down)")

type c23conn struct {
	w      *c23world
	id     int
	kind   byte // 's' sentinel, 'n' data node
	idx    int
	side   byte // 'm' created with the master option, 'r' with the replica option, 's' sentinel
	closed int32
	role   string // last ROLE answer given on THIS connection
}

type c23sub struct {
	c  *c23conn
	fn func(PubSubMessage)
}

type c23hit struct {
	Node     int    `json:"node"`
	Cmd      string `json:"cmd"`
	LastRole string `json:"last_role_answer"`
	Named    bool   `json:"named_master_by_sentinel"`
	Side     string `json:"conn_side"`
	ConnRole string `json:"last_role_answer_on_this_conn"`
}

type c23world struct {
	mu       sync.Mutex
	cond     *sync.Cond
	belief   [2]int
	sfail    [2]bool
	role     [3]string
	nfail    [3]bool
	lastRole [3]string
	named    [3]bool
	hits     []c23hit
	subs     []c23sub
	unsubs   int
	receives int
	nconn    int
	log      []string
	replicas bool  // the client switches master and replica targets in two concurrent goroutines
	waiters  int32 // goroutines holding back a failing answer, see holdFailure
	heldMu   sync.Mutex
	heldR    string // id of the last replica-side switch goroutine that held an answer back
}

func c23newWorld(belief [2]int, master int) *c23world {
	w := &c23world{belief: belief}
	w.cond = sync.NewCond(&w.mu)
	for i := range w.role {
		w.role[i] = "slave"
	}
	w.role[master] = "master"
	return w
}

// c23switchGoroutine marks, in a dump of all goroutine stacks, the two goroutines _refresh starts for the
// concurrent master / replica switch, whether they have started to run or not (a goroutine that has not run
// yet shows no frame of its own, only its creator).
const c23switchGoroutine = "created by github.com/redis/rueidis.(*sentinelClient)._refresh in goroutine"

var c23bufs = sync.Pool{New: func() any { b := make([]byte, 1<<16); return &b }}

func c23count(sub string) int {
	bp := c23bufs.Get().(*[]byte)
	defer c23bufs.Put(bp)
	n := runtime.Stack(*bp, true)
	return bytes.Count((*bp)[:n], []byte(sub))
}

// holdFailure makes the client's concurrent master/replica switch deterministic: an answer that makes one
// _switchTarget fail is held back until the sibling _switchTarget goroutine has finished (or is held back as
// well). Otherwise _refresh would go on to the next sentinel while the sibling may still store its connection.
// When both are held back the replica side goes first and the master side reports only after the replica-side
// goroutine has ended, so that the order in which _refresh sees the two results is fixed.
func (w *c23world) holdFailure(side byte) {
	if !w.replicas {
		return
	}
	if side == 'r' {
		w.heldMu.Lock()
		w.heldR = c23goid()
		w.heldMu.Unlock()
	}
	atomic.AddInt32(&w.waiters, 1)
	for c23count(c23switchGoroutine) > int(atomic.LoadInt32(&w.waiters)) {
		runtime.Gosched()
	}
	if side == 'm' {
		w.heldMu.Lock()
		sib := w.heldR
		w.heldMu.Unlock()
		if sib != "" {
			for c23count("goroutine "+sib+" [") > 0 {
				runtime.Gosched()
			}
		}
	}
	atomic.AddInt32(&w.waiters, -1)
}

// c23goid is the id of the calling goroutine as printed in stack dumps
func c23goid() string {
	b := make([]byte, 64)
	n := runtime.Stack(b, false)
	f := strings.Fields(string(b[:n]))
	if len(f) < 2 {
		return ""
	}
	return f[1]
}

func c23split(addr string) (string, string) {
	i := strings.LastIndex(addr, ":")
	return addr[:i], addr[i+1:]
}

func (w *c23world) connFn() func(dst string, opt *ClientOption) conn {
	return func(dst string, opt *ClientOption) conn {
		w.mu.Lock()
		w.nconn++
		c := &c23conn{w: w, id: w.nconn, idx: -1}
		for i, a := range c23sentAddr {
			if a == dst {
				c.kind, c.idx, c.side = 's', i, 's'
			}
		}
		for i, a := range c23nodeAddr {
			if a == dst {
				c.kind, c.idx, c.side = 'n', i, 'm'
				if opt != nil && opt.ReplicaOnly {
					c.side = 'r'
				}
			}
		}
		if c.idx < 0 { // an address nobody listens on
			c.kind, c.idx, c.side = 'x', 0, 'x'
		}
		w.mu.Unlock()
		return &mockConn{
			AddrFn:    func() string { return dst },
			DialFn:    c.dial,
			ErrorFn:   c.err,
			CloseFn:   func() { atomic.StoreInt32(&c.closed, 1) },
			DoFn:      func(cmd Completed) RedisResult { return c.do(cmd.Commands()) },
			DoMultiFn: c.doMulti,
			DoCacheFn: func(cmd Cacheable, _ time.Duration) RedisResult { return c.do(cmd.Commands()) },
			ReceiveFn: c.receive,
		}
	}
}

func (c *c23conn) down() bool {
	if c.kind == 'x' {
		return true
	}
	if c.kind == 's' {
		return c.w.sfail[c.idx]
	}
	return c.w.nfail[c.idx]
}

func (c *c23conn) dial() error {
	c.w.mu.Lock()
	down := c.down()
	c.w.mu.Unlock()
	if down {
		if c.kind != 's' {
			c.w.holdFailure(c.side)
		}
		return c23errDown
	}
	return nil
}

func (c *c23conn) err() error {
	if atomic.LoadInt32(&c.closed) == 1 {
		return ErrClosing
	}
	c.w.mu.Lock()
	defer c.w.mu.Unlock()
	if c.down() {
		return c23errDown
	}
	return nil
}

func (c *c23conn) receive(_ context.Context, _ Completed, fn func(PubSubMessage)) error {
	// The subscription is registered and the call returns at once ("subscription ended without error"), so that no
	// goroutine of the client outlives the step that created it. A broken subscription (sentinel failure) is
	// modelled by the harness, see the "Z" event.
	c.w.mu.Lock()
	c.w.subs = append(c.w.subs, c23sub{c, fn})
	c.w.receives++
	c.w.cond.Broadcast()
	c.w.mu.Unlock()
	return nil
}

func (c *c23conn) do(argv []string) RedisResult {
	if atomic.LoadInt32(&c.closed) == 1 {
		return NewErrorResult(ErrClosing)
	}
	w := c.w
	w.mu.Lock()
	if c.kind == 's' && len(argv) > 0 && argv[0] == "UNSUBSCRIBE" {
		// listWatch starts its Receive goroutine right after this call, whatever the answer is
		w.unsubs++
	}
	isRole := c.kind == 'n' && len(argv) == 1 && argv[0] == "ROLE"
	if c.down() {
		w.mu.Unlock()
		if isRole {
			w.holdFailure(c.side)
		}
		return NewErrorResult(c23errDown)
	}
	m := c.answer(argv)
	failing := isRole && ((c.side == 'm' && c.role != "master") || (c.side == 'r' && c.role != "slave"))
	w.mu.Unlock()
	if failing {
		w.holdFailure(c.side)
	}
	return NewResult(m, nil)
}

func (c *c23conn) doMulti(multi ...Completed) *redisresults {
	out := make([]RedisResult, len(multi))
	closed := atomic.LoadInt32(&c.closed) == 1
	w := c.w
	w.mu.Lock()
	defer w.mu.Unlock()
	for i, cmd := range multi {
		switch {
		case closed:
			out[i] = NewErrorResult(ErrClosing)
		case c.down():
			out[i] = NewErrorResult(c23errDown)
		default:
			out[i] = NewResult(c.answer(cmd.Commands()), nil)
		}
	}
	return &redisresults{s: out}
}

// answer is called with w.mu held, on a live connection to a node that is up
func (c *c23conn) answer(argv []string) RedisMessage {
	w := c.w
	line := strings.Join(argv, " ")
	if c.kind == 's' {
		switch {
		case argv[0] == "UNSUBSCRIBE":
			return strmsg('+', "OK")
		case len(argv) == 3 && argv[0] == "SENTINEL" && argv[2] == c23masterSet:
			switch argv[1] {
			case "SENTINELS":
				ip, port := c23split(c23sentAddr[1-c.idx])
				return slicemsg('*', []RedisMessage{slicemsg('%', []RedisMessage{strmsg('+', "ip"), strmsg('+', ip), strmsg('+', "port"), strmsg('+', port)})})
			case "GET-MASTER-ADDR-BY-NAME":
				m := w.belief[c.idx]
				w.named[m] = true
				w.log = append(w.log, fmt.Sprintf("sentinel%d names node%d master", c.idx, m))
				ip, port := c23split(c23nodeAddr[m])
				return slicemsg('*', []RedisMessage{strmsg('+', ip), strmsg('+', port)})
			case "REPLICAS":
				// the sentinel lists the two other nodes; the second one is flagged subjectively down, which makes
				// the client's random choice among eligible replicas deterministic
				m := w.belief[c.idx]
				var list []RedisMessage
				for k := 1; k <= 2; k++ {
					ip, port := c23split(c23nodeAddr[(m+k)%3])
					kv := []RedisMessage{strmsg('+', "ip"), strmsg('+', ip), strmsg('+', "port"), strmsg('+', port)}
					if k == 2 {
						kv = append(kv, strmsg('+', "s-down-time"), strmsg('+', "1"))
					}
					list = append(list, slicemsg('%', kv))
				}
				return slicemsg('*', list)
			}
		}
		return strmsg('-', "ERR c23 sentinel: unknown command "+line)
	}
	if line == "ROLE" {
		w.lastRole[c.idx] = w.role[c.idx]
		c.role = w.role[c.idx]
		w.log = append(w.log, fmt.Sprintf("node%d answers ROLE %s (conn side %c)", c.idx, w.role[c.idx], c.side))
		return slicemsg('*', []RedisMessage{strmsg('+', w.role[c.idx])})
	}
	w.hits = append(w.hits, c23hit{Node: c.idx, Cmd: line, LastRole: w.lastRole[c.idx], Named: w.named[c.idx], Side: string(c.side), ConnRole: c.role})
	w.log = append(w.log, fmt.Sprintf("node%d receives %q (last ROLE answer %q)", c.idx, line, w.lastRole[c.idx]))
	return strmsg('+', fmt.Sprintf("node%d", c.idx))
}

// ---- one replayed history

type c23root struct {
	Replicas bool   `json:"send_reads_to_replicas"`
	Belief   [2]int `json:"sentinel_beliefs"`
	Master   int    `json:"node_with_master_role"`
}

type c23case struct {
	Root   c23root  `json:"root"`
	Events []string `json:"events"`
}

type c23sim struct {
	w       *c23world
	cl      *sentinelClient
	root    c23root
	base    int  // runtime.NumGoroutine() before the client existed
	pending bool // a refreshRetry loop of the client is (conceptually) still spinning
	viol    [][2]string
	dead    bool // construction failed / history abandoned
	notes   []string
}

func (s *c23sim) violate(sig, detail string) { s.viol = append(s.viol, [2]string{sig, detail}) }

func c23goroutineIn(sub string) bool { return c23count(sub) > 0 }

// settle waits (on conditions, not on time) until the goroutines the client started in the last step are done
func (s *c23sim) settle() {
	w := s.w
	w.mu.Lock()
	for w.receives < w.unsubs {
		w.cond.Wait()
	}
	w.mu.Unlock()
	// every goroutine the client started in this step has ended: the listWatch subscribers (Receive returns at
	// once) and, with SendToReplicas, the two concurrent switch goroutines of _refresh, one of which may be left
	// behind by _refresh
	for runtime.NumGoroutine() > s.base || atomic.LoadInt32(&w.waiters) != 0 {
		runtime.Gosched()
	}
}

// c23base is runtime.NumGoroutine() of the idle test process, taken once before the first client exists
var c23base int

func c23start(root c23root) *c23sim {
	// nothing of an earlier history is left running
	for runtime.NumGoroutine() > c23base {
		runtime.Gosched()
	}
	s := &c23sim{root: root, w: c23newWorld(root.Belief, root.Master), base: c23base}
	s.w.replicas = root.Replicas
	opt := &ClientOption{InitAddress: []string{c23sentAddr[0], c23sentAddr[1]}, Sentinel: SentinelOption{MasterSet: c23masterSet}}
	if root.Replicas {
		opt.SendToReplicas = func(cmd Completed) bool { return cmd.IsReadOnly() }
	}
	retry := newRetryer(func(attempts int, _ Completed, _ error) time.Duration {
		if attempts < 2 {
			return 0
		}
		return -1
	})
	var err error
	p, site := vrun.Catch(func() { s.cl, err = newSentinelClient(opt, s.w.connFn(), retry) })
	if p != nil {
		s.violate("newSentinelClient: panic in "+site, fmt.Sprint(p))
		s.dead = true
		return s
	}
	if err != nil {
		s.dead = true
		s.cl = nil
		s.notes = append(s.notes, "construction failed: "+err.Error())
		s.settleNoClient()
		return s
	}
	s.settle()
	return s
}

func (s *c23sim) settleNoClient() { s.settle() }

func (s *c23sim) close() {
	if s.cl != nil {
		s.cl.Close()
	}
}

// pump is one more round of a refreshRetry loop that is spinning in the real client
func (s *c23sim) pump() {
	if !s.pending {
		return
	}
	var err error
	p, site := vrun.Catch(func() { err = s.cl.refresh() })
	if p != nil {
		s.violate("refresh: panic in "+site, fmt.Sprint(p))
		s.dead = true
		return
	}
	s.settle()
	if err == nil {
		s.pending = false
		// a refresh that reports success has just verified its master: the node behind the master connection must be up
		// and must have the master role right now (nothing changes in the world while a refresh round runs)
		if a, ok := s.cl.mAddr.Load().(string); ok && !s.cl.replica {
			s.w.mu.Lock()
			for i, na := range c23nodeAddr {
				if na == a && (s.w.nfail[i] || s.w.role[i] != "master") {
					s.violate("refresh reports success with a master target that does not answer ROLE master", fmt.Sprintf("after the refresh the master connection points to node%d (down=%v, role %s); world log %v", i, s.w.nfail[i], s.w.role[i], s.w.log))
				}
			}
			s.w.mu.Unlock()
		}
	}
}

// liveSub is the subscription a sentinel would really deliver on: the newest one whose connection the client has
// not closed and whose sentinel is up
func (s *c23sim) liveSub() (c23sub, bool) {
	w := s.w
	w.mu.Lock()
	defer w.mu.Unlock()
	for i := len(w.subs) - 1; i >= 0; i-- {
		sub := w.subs[i]
		if atomic.LoadInt32(&sub.c.closed) == 0 && !w.sfail[sub.c.idx] {
			return sub, true
		}
	}
	return c23sub{}, false
}

func (s *c23sim) userDo(write bool) (node int, err error) {
	ctx := context.Background()
	s.w.mu.Lock()
	before := len(s.w.hits)
	s.w.mu.Unlock()
	var res RedisResult
	p, site := vrun.Catch(func() {
		if write {
			res = s.cl.Do(ctx, s.cl.B().Set().Key("k").Value("v").Build())
		} else {
			res = s.cl.Do(ctx, s.cl.B().Get().Key("k").Build())
		}
	})
	if p != nil {
		s.violate("Do: panic in "+site, fmt.Sprint(p))
		s.dead = true
		return -1, nil
	}
	w := s.w
	w.mu.Lock()
	defer w.mu.Unlock()
	node = -1
	for _, h := range w.hits[before:] {
		node = h.Node
		primary := write || !s.root.Replicas
		if primary {
			switch {
			case h.ConnRole != "master":
				s.violate("primary traffic sent over a connection that never answered ROLE master", fmt.Sprintf("%q reached node%d over a connection whose ROLE check answered %q", h.Cmd, h.Node, h.ConnRole))
			case h.LastRole != "master":
				s.violate("primary traffic reached a node whose latest ROLE answer (on another connection of this client) was slave", fmt.Sprintf("%q reached node%d over the connection verified as master earlier; since then the node answered ROLE %q to the client's replica-side check", h.Cmd, h.Node, h.LastRole))
			}
			if !h.Named {
				s.violate("primary traffic reached a node that no sentinel named as master", fmt.Sprintf("%q reached node%d", h.Cmd, h.Node))
			}
		} else {
			switch {
			case h.ConnRole != "slave":
				s.violate("replica traffic sent over a connection that never answered ROLE slave", fmt.Sprintf("%q reached node%d over a connection whose ROLE check answered %q", h.Cmd, h.Node, h.ConnRole))
			case h.LastRole != "slave":
				s.violate("replica traffic reached a node whose latest ROLE answer (on another connection of this client) was master", fmt.Sprintf("%q reached node%d over the connection verified as slave earlier; since then the node answered ROLE %q to the client's master-side check", h.Cmd, h.Node, h.LastRole))
			}
		}
	}
	if e := res.Error(); e != nil {
		return node, e
	}
	if got, _ := res.ToString(); node >= 0 && got != fmt.Sprintf("node%d", node) {
		s.violate("Do returned a reply that is not the reply of the node that received the command", fmt.Sprintf("got %q, node%d answered", got, node))
	}
	return node, nil
}

func (s *c23sim) apply(ev string) {
	if s.dead {
		return
	}
	w := s.w
	switch ev[0] {
	case 'S': // S<s>=<m>: sentinel s now believes node m is the master
		w.mu.Lock()
		w.belief[ev[1]-'0'] = int(ev[3] - '0')
		w.mu.Unlock()
		s.pump()
	case 'F': // F<x>: node x flips its role
		w.mu.Lock()
		x := ev[1] - '0'
		if w.role[x] == "master" {
			w.role[x] = "slave"
		} else {
			w.role[x] = "master"
		}
		w.mu.Unlock()
		s.pump()
	case 'N': // N<x>: node x goes down (transport errors, dials fail)
		w.mu.Lock()
		w.nfail[ev[1]-'0'] = true
		w.mu.Unlock()
		s.pump()
	case 'Z': // Z<s>: sentinel s goes down
		sub, live := s.liveSub()
		w.mu.Lock()
		x := int(ev[1] - '0')
		w.sfail[x] = true
		w.mu.Unlock()
		if live && sub.c.idx == x {
			// the client's Receive on that sentinel returns an error, which makes it call refreshRetry
			s.pending = true
		}
		s.pump()
	case 'P': // PUMP/refresh: something (+slave, -sdown, +reboot ...) made the client call refreshRetry
		s.pending = true
		s.pump()
	case 'D': // deliver +switch-master on the live subscription, announcing that sentinel's current master
		sub, live := s.liveSub()
		if !live {
			return
		}
		w.mu.Lock()
		m := w.belief[sub.c.idx]
		w.named[m] = true
		good := !w.nfail[m] && w.role[m] == "master"
		w.log = append(w.log, fmt.Sprintf("sentinel%d publishes +switch-master -> node%d", sub.c.idx, m))
		w.mu.Unlock()
		ip, port := c23split(c23nodeAddr[m])
		oldIP, oldPort := "10.9.9.9", "6379"
		if a, ok := s.cl.mAddr.Load().(string); ok {
			oldIP, oldPort = c23split(a) // "<master set> <old ip> <old port> <new ip> <new port>"
		}
		if good {
			// the real path: the callback the client handed to Receive
			p, site := vrun.Catch(func() {
				sub.fn(PubSubMessage{Channel: "+switch-master", Message: c23masterSet + " " + oldIP + " " + oldPort + " " + ip + " " + port})
			})
			if p != nil {
				s.violate("+switch-master handler: panic in "+site, fmt.Sprint(p))
				s.dead = true
				return
			}
			s.settle()
			if c23goroutineIn("sentinelClient).refreshRetry") {
				s.violate("+switch-master to a node that is up and answers ROLE master did not switch (client went into refreshRetry)", "announced node"+fmt.Sprint(m))
				atomic.StoreUint32(&s.cl.stop, 1)
				for c23goroutineIn("sentinelClient).refreshRetry") {
					runtime.Gosched()
				}
				s.dead = true
				return
			}
			// after the switch, primary traffic goes to the new master
			node, err := s.userDo(true)
			if !s.dead && (err != nil || node != m) {
				s.violate("after +switch-master to a verified master a write does not reach the new master", fmt.Sprintf("announced node%d (up, ROLE master); write reached node %d, err %v", m, node, err))
			}
		} else {
			// The announced node is down or not a master: the client's switchTargetRetry would fail and start a
			// background refreshRetry loop. The harness plays that loop itself (deterministically): same first step,
			// then one refresh round now and one after every later change of the world.
			var err error
			p, site := vrun.Catch(func() {
				s.cl.mu.Lock()
				err = s.cl._switchTarget(ip+":"+port, true)
				s.cl.mu.Unlock()
			})
			if p != nil {
				s.violate("_switchTarget: panic in "+site, fmt.Sprint(p))
				s.dead = true
				return
			}
			if err != nil {
				s.pending = true
				s.pump()
			} else {
				s.violate("switch to a node that is down or does not answer ROLE master reported success", fmt.Sprintf("+switch-master announced node%d (down=%v, role %s); _switchTarget returned nil", m, !good && w.nfail[m], w.role[m]))
			}
		}
	case 'W':
		s.userDo(true)
	case 'R':
		s.userDo(false)
	default:
		panic("c23: bad event " + ev)
	}
}

func (s *c23sim) fingerprint() string {
	if s.dead || s.cl == nil {
		return "dead|" + strings.Join(s.notes, ";")
	}
	w := s.w
	cl := s.cl
	desc := func(v any) string {
		if v == nil {
			return "-"
		}
		mc := v.(conn).(*mockConn)
		closed := mc.ErrorFn() == ErrClosing
		return fmt.Sprintf("%s/%v", mc.AddrFn(), closed)
	}
	var sents []string
	cl.mu.Lock()
	for e := cl.sentinels.Front(); e != nil; e = e.Next() {
		sents = append(sents, e.Value.(string))
	}
	sAddr := cl.sAddr
	sconn := "-"
	if cl.sConn != nil {
		sconn = desc(cl.sConn)
	}
	cl.mu.Unlock()
	sub, live := s.liveSub()
	subd := "-"
	if live {
		subd = fmt.Sprint(sub.c.idx)
	}
	mdesc, rdesc := desc(cl.mConn.Load()), desc(cl.rConn.Load())
	w.mu.Lock()
	defer w.mu.Unlock()
	return fmt.Sprintf("b%v sf%v r%v nf%v lr%q nm%v | m=%v(%s) r=%v(%s) s=%s(%s) list=%v sub=%s pend=%v",
		w.belief, w.sfail, w.role, w.nfail, w.lastRole, w.named,
		cl.mAddr.Load(), mdesc, cl.rAddr.Load(), rdesc, sAddr, sconn, sents, subd, s.pending)
}

func c23replay(c c23case) *c23sim {
	s := c23start(c.Root)
	for _, ev := range c.Events {
		s.apply(ev)
	}
	return s
}

func c23events() []string {
	var evs []string
	for s := 0; s < 2; s++ {
		for m := 0; m < 3; m++ {
			evs = append(evs, fmt.Sprintf("S%d=%d", s, m))
		}
	}
	for x := 0; x < 3; x++ {
		evs = append(evs, fmt.Sprintf("F%d", x))
	}
	evs = append(evs, "D")
	for x := 0; x < 3; x++ {
		evs = append(evs, fmt.Sprintf("N%d", x))
	}
	for s := 0; s < 2; s++ {
		evs = append(evs, fmt.Sprintf("Z%d", s))
	}
	evs = append(evs, "P", "W", "R")
	return evs
}

func c23report(r *vrun.Run, c c23case, s *c23sim) {
	seen := map[string]bool{}
	for _, v := range s.viol {
		if seen[v[0]] {
			continue
		}
		seen[v[0]] = true
		s.w.mu.Lock()
		lg := strings.Join(s.w.log, "\n    ")
		s.w.mu.Unlock()
		r.Violate(v[0], fmt.Sprintf("%s\n  root %+v events %v\n  world log:\n    %s", v[1], c.Root, c.Events, lg), c)
	}
}

func TestVerif_C23(t *testing.T) {
	vrun.Main(t, "C23", func(r *vrun.Run) {
		r.Rule = "BFS over event histories of depth <= D from 4 roots (client with/without SendToReplicas x {both sentinels name the real master, sentinel0 names a slave}); alphabet: S<s>=<m> sentinel s believes node m is master (6), F<x> node x flips ROLE master<->slave (3), D deliver +switch-master on the live subscription announcing that sentinel's belief, N<x> node x down (3), Z<s> sentinel s down (2), P a refreshRetry is triggered (as by +slave/-sdown/+reboot), W user write, R user read; a state = (world, client targets/connections/sentinel list/pending retry) after replaying the history on a fresh client; only new states are expanded. non-trivial = state in which the client's master connection differs from the root's"
		c23base = runtime.NumGoroutine()
		if raw, ok := r.ReplayPayload(); ok {
			var c c23case
			if err := json.Unmarshal(raw, &c); err != nil {
				panic(err)
			}
			s := c23replay(c)
			r.Evaluations++
			c23report(r, c, s)
			s.close()
			return
		}
		depth := vrun.Pick(r, 4, 5)
		r.Bounds["max_depth"] = depth
		evs := c23events()
		r.Bounds["alphabet"] = evs
		roots := []c23root{
			{Replicas: false, Belief: [2]int{0, 0}, Master: 0},
			{Replicas: true, Belief: [2]int{0, 0}, Master: 0},
			{Replicas: false, Belief: [2]int{1, 0}, Master: 0},
			{Replicas: true, Belief: [2]int{1, 0}, Master: 0},
		}
		r.Bounds["roots"] = roots
		stop := false
		for ri, root := range roots {
			if !r.Mine(ri) || stop {
				continue
			}
			s0 := c23start(root)
			fp0 := s0.fingerprint()
			rootM := ""
			if s0.cl != nil {
				rootM = fmt.Sprint(s0.cl.mAddr.Load())
			}
			c23report(r, c23case{Root: root}, s0)
			r.Note(fmt.Sprintf("root %d %+v: %s", ri, root, fp0))
			s0.close()
			r.StateStr(fmt.Sprint(ri), fp0)
			frontier := [][]string{nil}
			for d := 1; d <= depth && !stop; d++ {
				var next [][]string
				for _, h := range frontier {
					for _, ev := range evs {
						c := c23case{Root: root, Events: append(append([]string(nil), h...), ev)}
						s := c23replay(c)
						r.Evaluations++
						r.Transitions++
						fp := s.fingerprint()
						if len(s.viol) > 0 {
							c23report(r, c, s)
						}
						isNew := r.StateStr(fmt.Sprint(ri), fp)
						if isNew {
							if !s.dead {
								next = append(next, c.Events)
								if m := fmt.Sprint(s.cl.mAddr.Load()); m != rootM {
									r.NonTrivialStr(fmt.Sprint(ri), fp)
								}
							}
							cls := "live"
							switch {
							case s.dead:
								cls = "abandoned"
							case s.pending:
								cls = "retrying(no verified master reachable)"
							}
							r.Outcome(cls)
							if r.WantSample() && d == depth && s.cl != nil && fmt.Sprint(s.cl.mAddr.Load()) != rootM {
								s.w.mu.Lock()
								r.Sample(map[string]any{"case": c, "world_log": append([]string(nil), s.w.log...), "state": fp})
								s.w.mu.Unlock()
							}
						}
						s.close()
						if r.Evaluations%500 == 0 && r.TimeUp() {
							stop = true
							break
						}
					}
					if stop {
						break
					}
				}
				r.Bounds[fmt.Sprintf("root%d_depth%d_new_states", ri, d)] = len(next)
				frontier = next
			}
		}
		r.Assume("a refresh round or a switch that reports success has verified its master target at that instant: the node must be up and answer ROLE master then (the world does not change while one round runs)")
		r.Assume("oracle as in the property: a user command on the primary path may only reach a node whose LAST ROLE answer to this client was master and that some sentinel answer or +switch-master message named as master; a read sent to replicas may only reach a node whose last ROLE answer was slave; 'last ROLE answer' is per node, not per connection")
		r.Assume("fake connections behave like mux: after Close() every call fails with ErrClosing and Error() returns it; calls to a node that is down fail with a transport error and reach nothing")
		r.Assume("Receive registers the callback and returns nil at once; a sentinel failure under the live subscription, and every failed switch, is followed by refresh rounds run by the harness (one at once and one after every later world change) instead of the client's free-running refreshRetry goroutine: a deterministic schedule of that loop, whose rounds are idempotent while the world does not change")
		r.Assume("a +switch-master whose target is down or not a master is applied by calling sentinelClient._switchTarget under the client's mutex (the first step of switchTargetRetry); deliveries to a healthy master go through the real Receive callback")
		r.Assume("the sentinel flags one of the two replicas as s-down so that pickReplica has one eligible candidate (its choice is random otherwise)")
		r.Assume("with SendToReplicas the client switches master and replica concurrently and does not wait for the slower one when the other fails; to keep histories reproducible the fake nodes hold back an answer that makes one of the two switches fail until the other switch has finished, and the harness waits until no _switchTarget goroutine is left before the next event (the interleavings of the two are a matter for a schedule exploring check)")
	})
}
