//go:build verif

package rueidis

// C15 - typed reply accessors never panic and propagate errors.
//
// Every reply tree is written as RESP3 wire text and decoded by the REAL
// decoder (readNextMessage), so the in-memory representation (nil-ness of the
// bytes/array pointers, intlen) is exactly what the decoder produces. A map
// with an odd number of children is encoded as a streamed map ("%?" ... ".").
// Every exported method of *RedisMessage and *RedisResult (found by
// reflection) is called on every tree.

import (
	"bufio"
	"bytes"
	"encoding/json"
	"errors"
	"fmt"
	"io"
	"reflect"
	"runtime/debug"
	"sort"
	"strconv"
	"strings"
	"testing"

	"github.com/redis/rueidis/vshim/vrun"
)

// ---------------------------------------------------------------- methods

const (
	c15ClsNone      = iota // no error result: only the no-panic oracle applies
	c15ClsErr              // Error(): nil/error propagation only
	c15ClsScalar           // scalar conversion: must fail on aggregate replies
	c15ClsAgg              // structured helper: must fail on scalar replies
	c15ClsUniv             // accepts any shape (ToAny, ToMessage)
	c15ClsTransport        // NonRedisError(): reports the transport error only
)

type c15meth[R any] struct {
	name   string
	cls    int
	strFam bool // returns the textual payload (string, []byte, io.Reader)
	fast   bool
	call   func(*R) error
}

// methods that are not accessors of a reply and are therefore not called
var c15skip = map[string]string{
	"CacheUnmarshalView": "deserializer that overwrites the receiver from a byte buffer; not an accessor (covered by the cache properties)",
}

func c15p1[R, A any](f func(*R) A) func(*R) error {
	return func(r *R) error { f(r); return nil }
}
func c15p2[R, A any](f func(*R) (A, error)) func(*R) error {
	return func(r *R) error { _, e := f(r); return e }
}
func c15p3[R, A, B any](f func(*R) (A, B, error)) func(*R) error {
	return func(r *R) error { _, _, e := f(r); return e }
}
func c15p4[R, A, B, C any](f func(*R) (A, B, C, error)) func(*R) error {
	return func(r *R) error { _, _, _, e := f(r); return e }
}

// c15fast turns the method expression into a direct (reflection free) caller
// for all signatures known today; unknown signatures use c15slow.
func c15fast[R any](fn any) func(*R) error {
	switch f := fn.(type) {
	case func(*R) bool:
		return c15p1(f)
	case func(*R) int:
		return c15p1(f)
	case func(*R) int64:
		return c15p1(f)
	case func(*R) string:
		return c15p1(f)
	case func(*R) error:
		return func(r *R) error { return f(r) }
	case func(*R, []byte) []byte:
		return func(r *R) error { f(r, nil); return nil }
	case func(*R, any) error:
		return func(r *R) error { var v any; return f(r, &v) }
	case func(*R) (string, error):
		return c15p2(f)
	case func(*R) (io.Reader, error):
		return c15p2(f)
	case func(*R) ([]byte, error):
		return c15p2(f)
	case func(*R) (int64, error):
		return c15p2(f)
	case func(*R) (uint64, error):
		return c15p2(f)
	case func(*R) (bool, error):
		return c15p2(f)
	case func(*R) (float64, error):
		return c15p2(f)
	case func(*R) ([]RedisMessage, error):
		return c15p2(f)
	case func(*R) ([]string, error):
		return c15p2(f)
	case func(*R) ([]int64, error):
		return c15p2(f)
	case func(*R) ([]float64, error):
		return c15p2(f)
	case func(*R) ([]bool, error):
		return c15p2(f)
	case func(*R) (XRangeEntry, error):
		return c15p2(f)
	case func(*R) ([]XRangeEntry, error):
		return c15p2(f)
	case func(*R) (map[string][]XRangeEntry, error):
		return c15p2(f)
	case func(*R) (XRangeSlice, error):
		return c15p2(f)
	case func(*R) ([]XRangeSlice, error):
		return c15p2(f)
	case func(*R) (map[string][]XRangeSlice, error):
		return c15p2(f)
	case func(*R) (ZScore, error):
		return c15p2(f)
	case func(*R) ([]ZScore, error):
		return c15p2(f)
	case func(*R) (ScanEntry, error):
		return c15p2(f)
	case func(*R) (map[string]RedisMessage, error):
		return c15p2(f)
	case func(*R) (map[string]string, error):
		return c15p2(f)
	case func(*R) (map[string]int64, error):
		return c15p2(f)
	case func(*R) (KeyValues, error):
		return c15p2(f)
	case func(*R) (KeyZScores, error):
		return c15p2(f)
	case func(*R) ([]GeoLocation, error):
		return c15p2(f)
	case func(*R) (any, error):
		return c15p2(f)
	case func(*R) (RedisMessage, error):
		return c15p2(f)
	case func(*R) (int64, []FtSearchDoc, error):
		return c15p3(f)
	case func(*R) (int64, []map[string]string, error):
		return c15p3(f)
	case func(*R) (int64, int64, []map[string]string, error):
		return c15p4(f)
	}
	return nil
}

var (
	c15errType = reflect.TypeOf((*error)(nil)).Elem()
	c15anyType = reflect.TypeOf((*any)(nil)).Elem()
	c15rdrType = reflect.TypeOf((*io.Reader)(nil)).Elem()
	c15msgType = reflect.TypeOf(RedisMessage{})
)

// c15canned supplies an argument for a parameter of type t.
func c15canned(t reflect.Type) reflect.Value {
	switch {
	case t == c15anyType:
		return reflect.ValueOf(new(any)) // pointer to interface{} (DecodeJSON target)
	case t.Kind() == reflect.Func:
		return reflect.MakeFunc(t, func([]reflect.Value) []reflect.Value {
			out := make([]reflect.Value, t.NumOut())
			for i := range out {
				out[i] = reflect.Zero(t.Out(i))
			}
			return out
		})
	case t.Kind() == reflect.Ptr:
		return reflect.New(t.Elem())
	}
	return reflect.Zero(t)
}

func c15slow[R any](m reflect.Method) func(*R) error {
	ft := m.Func.Type()
	return func(r *R) error {
		args := []reflect.Value{reflect.ValueOf(r)}
		for i := 1; i < ft.NumIn(); i++ {
			args = append(args, c15canned(ft.In(i)))
		}
		var out []reflect.Value
		if ft.IsVariadic() {
			out = m.Func.CallSlice(args)
		} else {
			out = m.Func.Call(args)
		}
		if n := len(out); n > 0 && ft.Out(n-1) == c15errType && !out[n-1].IsNil() {
			return out[n-1].Interface().(error)
		}
		return nil
	}
}

func c15aggType(t reflect.Type) bool {
	switch t.Kind() {
	case reflect.Slice:
		return t.Elem().Kind() != reflect.Uint8
	case reflect.Map:
		return true
	case reflect.Struct:
		return t != c15msgType
	}
	return false
}

// c15methods enumerates the exported method set of *R.
func c15methods[R any]() (ms []c15meth[R], skipped, slow []string) {
	pt := reflect.TypeOf((*R)(nil))
	for i := 0; i < pt.NumMethod(); i++ {
		m := pt.Method(i)
		if why, ok := c15skip[m.Name]; ok {
			skipped = append(skipped, pt.Elem().Name()+"."+m.Name+": "+why)
			continue
		}
		ft := m.Func.Type()
		cm := c15meth[R]{name: m.Name}
		nout := ft.NumOut()
		hasErr := nout > 0 && ft.Out(nout-1) == c15errType
		switch {
		case !hasErr:
			cm.cls = c15ClsNone
		case m.Name == "NonRedisError":
			cm.cls = c15ClsTransport
		case nout == 1 && ft.NumIn() == 1:
			cm.cls = c15ClsErr
		case nout == 1:
			cm.cls = c15ClsScalar // DecodeJSON(v)
		default:
			cm.cls = c15ClsScalar
			for o := 0; o < nout-1; o++ {
				if c15aggType(ft.Out(o)) {
					cm.cls = c15ClsAgg
				}
			}
			if f := ft.Out(0); cm.cls == c15ClsScalar && (f == c15anyType || f == c15msgType) {
				cm.cls = c15ClsUniv
			}
			if f := ft.Out(0); nout == 2 && ft.NumIn() == 1 && (f.Kind() == reflect.String || f == c15rdrType || (f.Kind() == reflect.Slice && f.Elem().Kind() == reflect.Uint8)) {
				cm.strFam = true
			}
		}
		if cm.call = c15fast[R](m.Func.Interface()); cm.call != nil {
			cm.fast = true
		} else {
			cm.call = c15slow[R](m)
			slow = append(slow, pt.Elem().Name()+"."+m.Name)
		}
		ms = append(ms, cm)
	}
	return
}

// ---------------------------------------------------------------- alphabet

var c15payloads = []string{"", "a", "1", "1.5", "id", "results", "total_results", "extra_attributes", "attributes", "values", "error", "score", "cursor"}

const c15strTypes = "$+,-!=("

func c15leaf(typ byte, s string) []byte {
	switch typ {
	case '$', '!', '=':
		return []byte(string(typ) + strconv.Itoa(len(s)) + "\r\n" + s + "\r\n")
	}
	return []byte(string(typ) + s + "\r\n")
}

type c15alpha struct {
	name   string
	leaves [][]byte
	aggs   []byte
}

func c15fullAlpha() *c15alpha {
	a := &c15alpha{name: "full", aggs: []byte{'*', '~', '%', '>'}}
	for i := 0; i < len(c15strTypes); i++ {
		for _, p := range c15payloads {
			a.leaves = append(a.leaves, c15leaf(c15strTypes[i], p))
		}
	}
	for _, n := range []string{"0", "1", "-1"} {
		a.leaves = append(a.leaves, c15leaf(':', n))
	}
	a.leaves = append(a.leaves, c15leaf('#', "t"), c15leaf('#', "f"), c15leaf('_', ""))
	return a
}

func c15mediumAlpha() *c15alpha {
	a := &c15alpha{name: "medium", aggs: []byte{'*', '%'}}
	for _, p := range c15payloads {
		a.leaves = append(a.leaves, c15leaf('$', p))
	}
	for i := 1; i < len(c15strTypes); i++ {
		for _, p := range []string{"", "a", "1"} {
			a.leaves = append(a.leaves, c15leaf(c15strTypes[i], p))
		}
	}
	for _, n := range []string{"0", "1", "-1"} {
		a.leaves = append(a.leaves, c15leaf(':', n))
	}
	a.leaves = append(a.leaves, c15leaf('#', "t"), c15leaf('#', "f"), c15leaf('_', ""))
	return a
}

func c15reducedAlpha() *c15alpha {
	a := &c15alpha{name: "reduced", aggs: []byte{'*', '%'}}
	for _, p := range []string{"", "a", "1", "id", "results", "extra_attributes", "error", "total_results", "score"} {
		a.leaves = append(a.leaves, c15leaf('$', p))
	}
	a.leaves = append(a.leaves, c15leaf('+', "a"), c15leaf(':', "1"), c15leaf('_', ""), c15leaf('-', "a"), c15leaf(',', "1"), c15leaf('#', "t"))
	return a
}

// c15header writes the aggregate header for k children; done is appended
// after the children (terminator of a streamed aggregate).
func c15header(buf []byte, typ byte, k int) (out []byte, done string) {
	buf = append(buf, typ)
	if typ == '%' {
		if k%2 == 1 {
			return append(buf, "?\r\n"...), ".\r\n" // only a streamed map can have an odd number of children
		}
		k /= 2
	}
	buf = strconv.AppendInt(buf, int64(k), 10)
	return append(buf, "\r\n"...), ""
}

// c15genTree enumerates every tree with exactly n nodes and at most depth
// more levels of edges below its root, appending its wire form to buf.
func c15genTree(a *c15alpha, n, depth int, buf []byte, cont func([]byte) bool) bool {
	if n == 1 {
		for _, l := range a.leaves {
			if !cont(append(buf, l...)) {
				return false
			}
		}
		for _, t := range a.aggs {
			b, _ := c15header(buf, t, 0)
			if !cont(b) {
				return false
			}
		}
		return true
	}
	if depth == 0 {
		return true
	}
	for _, t := range a.aggs {
		for k := 1; k <= n-1; k++ {
			b, done := c15header(buf, t, k)
			ok := c15genForest(a, n-1, k, depth-1, b, func(b2 []byte) bool {
				return cont(append(b2, done...))
			})
			if !ok {
				return false
			}
		}
	}
	return true
}

func c15genForest(a *c15alpha, total, k, depth int, buf []byte, cont func([]byte) bool) bool {
	if k == 0 {
		if total == 0 {
			return cont(buf)
		}
		return true
	}
	for s := 1; s <= total-(k-1); s++ {
		ok := c15genTree(a, s, depth, buf, func(b []byte) bool {
			return c15genForest(a, total-s, k-1, depth, b, cont)
		})
		if !ok {
			return false
		}
	}
	return true
}

// ---------------------------------------------------------------- checker

type c15replay struct {
	Kind   string `json:"kind"` // tree | errtext
	Wire   string `json:"wire"`
	Method string `json:"method,omitempty"`
}

type c15ctx struct {
	r      *vrun.Run
	br     *bufio.Reader
	rd     *bytes.Reader
	mm     []c15meth[RedisMessage]
	rm     []c15meth[RedisResult]
	errsM  []error
	errsR  []error
	only   string // replay: restrict violations to this accessor
	sigs   map[string]string
	counts [8]int64
	transp error
}

const (
	c15oOK = iota
	c15oNil
	c15oRedisErr
	c15oParse
	c15oOther
	c15oPanic
)

var c15oNames = []string{"value,nil-error", "error:Nil", "error:*RedisError", "error:parse", "error:other", "panic"}

func (c *c15ctx) decode(wire []byte) RedisMessage {
	c.rd.Reset(wire)
	c.br.Reset(c.rd)
	m, err := readNextMessage(c.br)
	if err != nil || c.br.Buffered() != 0 || c.rd.Len() != 0 {
		panic(fmt.Sprintf("harness: wire %q does not decode cleanly: %v (left %d)", wire, err, c.br.Buffered()+c.rd.Len()))
	}
	return m
}

func (c *c15ctx) countErr(err error) {
	switch {
	case err == nil:
		c.counts[c15oOK]++
	case err == error(Nil):
		c.counts[c15oNil]++
	default:
		if _, ok := err.(*RedisError); ok {
			c.counts[c15oRedisErr]++
		} else if errors.Is(err, errParse) {
			c.counts[c15oParse]++
		} else {
			c.counts[c15oOther]++
		}
	}
}

// c15class gives the coarse input class used in violation signatures.
// Features of the root and its direct children win over deeper ones.
func c15class(m *RedisMessage) string {
	if m.array == nil {
		return "scalar reply " + typeNames[m.typ]
	}
	kind := func(x *RedisMessage) string {
		if x.typ == typeMap {
			return "map"
		}
		if x.typ == typePush {
			return "push"
		}
		return "array"
	}
	if m.typ == typeMap && len(m.values())%2 == 1 {
		return "map with odd length"
	}
	if len(m.values()) == 0 {
		return "empty " + kind(m)
	}
	deepOdd, deepEmpty, nested := false, false, false
	var walk func(x *RedisMessage)
	walk = func(x *RedisMessage) {
		if x.array == nil {
			return
		}
		if x.typ == typeMap && len(x.values())%2 == 1 {
			deepOdd = true
		}
		if len(x.values()) == 0 {
			deepEmpty = true
		}
		for i := range x.values() {
			walk(&x.values()[i])
		}
	}
	for i := range m.values() {
		ch := &m.values()[i]
		if ch.array != nil && len(ch.values()) == 0 {
			return kind(m) + " with an empty aggregate element"
		}
	}
	for i := range m.values() {
		ch := &m.values()[i]
		if ch.array == nil && ch.typ != typeBlobString && ch.typ != typeSimpleString {
			return kind(m) + " with a non-string scalar element"
		}
		if ch.array != nil {
			nested = true
		}
		walk(ch)
	}
	switch {
	case deepOdd:
		return kind(m) + " with a nested odd-length map"
	case deepEmpty:
		return kind(m) + " with a deeper empty aggregate"
	case nested:
		return "nested " + kind(m)
	}
	return "flat " + kind(m) + " of strings"
}

func (c *c15ctx) violate(sig, detail string, wire []byte, method string) {
	if c.only != "" && c.only != method {
		return
	}
	c.r.Violate(sig, detail, c15replay{Kind: "tree", Wire: string(wire), Method: method})
}

// c15call1 calls one accessor under a cheap recover.
func c15call1[R any](m *c15meth[R], recv *R, err *error) (p any) {
	defer func() { p = recover() }()
	*err = m.call(recv)
	return nil
}

func c15callAll[R any](c *c15ctx, ms []c15meth[R], mk func(RedisMessage) R, recv *R, errs []error, wire []byte, msg *RedisMessage) {
	class := ""
	for i := range ms {
		i := i
		errs[i] = nil
		p := c15call1(&ms[i], recv, &errs[i])
		if p == nil {
			c.countErr(errs[i])
			continue
		}
		c.counts[c15oPanic]++
		errs[i] = errC15Panicked
		if class == "" {
			class = c15class(msg)
		}
		key := ms[i].name + "\x00" + class + "\x00" + fmt.Sprint(p)
		if sig, known := c.sigs[key]; known && c.only == "" {
			c.violate(sig, "", wire, ms[i].name)
			continue
		}
		// first case of this (accessor, class, panic text): capture the panic
		// site and shrink the reply to a minimal one that still panics there
		run := func(w []byte) (any, string, string) {
			m := c.decode(w)
			rv := mk(m)
			return c15catch(func() { _ = ms[i].call(&rv) })
		}
		_, site, line := run(wire)
		minWire := c15minimize(c.decode(wire), func(w []byte) bool {
			p2, site2, line2 := run(w)
			return p2 != nil && site2 == site && line2 == line
		})
		mm := c.decode(minWire)
		p2, _, _ := run(minWire)
		sig := fmt.Sprintf("%s panics in %s: %s", ms[i].name, site, c15class(&mm))
		c.sigs[key] = sig
		c.violate(sig, fmt.Sprintf("%s.%s on reply %q (%s) panicked at %s: %v; expected a value or an error (first seen on %q, shrunk)", reflect.TypeOf(recv).Elem().Name(), ms[i].name, minWire, mm.String(), line, p2, wire), minWire, ms[i].name)
	}
}

// c15catch is vrun.Catch plus the source line of the first /repo frame below
// the panic (used only to keep the shrinker on the same failing statement).
func c15catch(f func()) (p any, site, line string) {
	defer func() {
		if p = recover(); p != nil {
			st := string(debug.Stack())
			site = vrun.PanicSite(st)
			seen := false
			for _, l := range strings.Split(st, "\n") {
				if strings.HasPrefix(l, "panic(") {
					seen = true
					continue
				}
				if seen && strings.HasPrefix(l, "\t") && strings.Contains(l, "/repo/") && !strings.Contains(l, "_test.go") {
					l = strings.TrimSpace(l)
					if k := strings.IndexByte(l, ' '); k > 0 {
						l = l[:k]
					}
					line = l[strings.LastIndexByte(l, '/')+1:]
					return
				}
			}
		}
	}()
	f()
	return
}

// ---- shrinking of counterexamples

type c15node struct {
	typ  byte
	s    string
	kids []*c15node
	agg  bool
}

func c15fromMsg(m *RedisMessage) *c15node {
	n := &c15node{typ: m.typ}
	switch {
	case m.array != nil:
		n.agg = true
		for i := range m.values() {
			n.kids = append(n.kids, c15fromMsg(&m.values()[i]))
		}
	case m.typ == typeInteger:
		n.s = strconv.FormatInt(m.intlen, 10)
	case m.typ == typeBool:
		n.s = "f"
		if m.intlen == 1 {
			n.s = "t"
		}
	default:
		n.s = m.string()
	}
	return n
}

func (n *c15node) wire(buf []byte) []byte {
	if !n.agg {
		return append(buf, c15leaf(n.typ, n.s)...)
	}
	buf, done := c15header(buf, n.typ, len(n.kids))
	for _, k := range n.kids {
		buf = k.wire(buf)
	}
	return append(buf, done...)
}

// c15shrinks lists the one-step simplifications of the tree n.
func c15shrinks(n *c15node) (out []*c15node) {
	if !n.agg {
		if n.s != "" && n.typ != typeInteger && n.typ != typeBool {
			out = append(out, &c15node{typ: n.typ})
		}
		if n.typ != typeBlobString {
			out = append(out, &c15node{typ: typeBlobString}) // the plainest leaf: empty blob string
		}
		return
	}
	out = append(out, n.kids...) // hoist a child
	out = append(out, &c15node{typ: typeBlobString})
	for i := range n.kids {
		c := &c15node{typ: n.typ, agg: true}
		c.kids = append(append(c.kids, n.kids[:i]...), n.kids[i+1:]...)
		out = append(out, c)
	}
	for i := range n.kids {
		for _, v := range c15shrinks(n.kids[i]) {
			c := &c15node{typ: n.typ, agg: true, kids: append([]*c15node(nil), n.kids...)}
			c.kids[i] = v
			out = append(out, c)
		}
	}
	return
}

func c15minimize(m RedisMessage, fails func(wire []byte) bool) []byte {
	cur := c15fromMsg(&m)
again:
	for _, v := range c15shrinks(cur) {
		if fails(v.wire(nil)) {
			cur = v
			goto again
		}
	}
	return cur.wire(nil)
}

var errC15Panicked = errors.New("c15: panicked")

type c15doc struct {
	A any `json:"a"`
}

// c15dsj calls DecodeSliceOfJSON (generic) with several element types.
func c15dsj(res RedisResult) (errs [4]error) {
	var d0 []any
	var d1 []string
	var d2 []int64
	var d3 []c15doc
	errs[0] = DecodeSliceOfJSON(res, &d0)
	errs[1] = DecodeSliceOfJSON(res, &d1)
	errs[2] = DecodeSliceOfJSON(res, &d2)
	errs[3] = DecodeSliceOfJSON(res, &d3)
	return
}

func (c *c15ctx) checkTree(wire []byte, nodes int, perTreeState bool, alpha string) {
	r := c.r
	msg := c.decode(wire)
	res := NewResult(msg, nil)
	c15callAll(c, c.mm, func(m RedisMessage) RedisMessage { return m }, &msg, c.errsM, wire, &msg)
	c15callAll(c, c.rm, func(m RedisMessage) RedisResult { return NewResult(m, nil) }, &res, c.errsR, wire, &msg)
	r.Evaluations += int64(len(c.mm) + len(c.rm) + 4)

	var dsj [4]error
	if p, site := vrun.Catch(func() { dsj = c15dsj(res) }); p != nil {
		c.counts[c15oPanic]++
		c.violate(fmt.Sprintf("DecodeSliceOfJSON panics in %s: %s", site, c15class(&msg)),
			fmt.Sprintf("DecodeSliceOfJSON on reply %q panicked: %v", wire, p), wire, "DecodeSliceOfJSON")
		for i := range dsj {
			dsj[i] = errC15Panicked
		}
	} else {
		for _, e := range dsj {
			c.countErr(e)
		}
	}

	// ---- propagation oracles, by class of the root reply
	root := wire[0]
	isNull := msg.typ == typeNull
	isErr := root == '-' || root == '!'
	isAgg := msg.array != nil
	isScalar := !isNull && !isErr && !isAgg
	want := ""
	if isErr {
		want = strings.TrimPrefix(msg.string(), "ERR ")
	}
	check := func(recv, name string, cls int, strFam bool, err error) {
		if err == errC15Panicked || cls == c15ClsNone || cls == c15ClsTransport {
			return
		}
		switch {
		case isNull:
			if !IsRedisNil(err) {
				c.violate(name+" on null reply does not return Nil", fmt.Sprintf("%s.%s on %q returned error %v, want rueidis.Nil", recv, name, wire, err), wire, name)
			}
		case isErr:
			re, ok := IsRedisErr(err)
			if !ok || re.Error() != want {
				c.violate(name+" on error reply does not return *RedisError", fmt.Sprintf("%s.%s on %q returned error %#v, want *RedisError %q", recv, name, wire, err, want), wire, name)
			}
		case isAgg && cls == c15ClsScalar, isScalar && cls == c15ClsAgg:
			if err == nil {
				c.violate(fmt.Sprintf("%s accepts wrong shape: %s", name, c15class(&msg)), fmt.Sprintf("%s.%s on %q (%s) returned a nil error, want a parse error", recv, name, wire, msg.String()), wire, name)
			}
		case strFam && (root == '#' || root == ':'):
			if err == nil {
				c.violate(fmt.Sprintf("%s accepts wrong shape: %s", name, c15class(&msg)), fmt.Sprintf("%s.%s on %q (%s) returned a nil error (and the zero value), want a parse error: the reply is not a string", recv, name, wire, msg.String()), wire, name)
			}
		}
	}
	for i := range c.mm {
		check("RedisMessage", c.mm[i].name, c.mm[i].cls, c.mm[i].strFam, c.errsM[i])
	}
	for i := range c.rm {
		check("RedisResult", c.rm[i].name, c.rm[i].cls, c.rm[i].strFam, c.errsR[i])
	}
	for _, e := range dsj {
		check("helper", "DecodeSliceOfJSON", c15ClsAgg, false, e)
	}

	// ---- a transport error wins over whatever the message holds
	if nodes <= 2 {
		tres := NewResult(msg, c.transp)
		p, site := vrun.Catch(func() {
			for i := range c.rm {
				c.errsR[i] = c.rm[i].call(&tres)
			}
			dsj = c15dsj(tres)
		})
		r.Evaluations += int64(len(c.rm) + 4)
		if p != nil {
			c.violate("accessor of RedisResult with transport error panics in "+site, fmt.Sprintf("reply %q err=%v: panic %v", wire, c.transp, p), wire, "")
		} else {
			for i := range c.rm {
				if c.rm[i].cls != c15ClsNone && c.errsR[i] != c.transp {
					c.violate(c.rm[i].name+" does not return the transport error of the RedisResult", fmt.Sprintf("RedisResult{val:%q, err:%v}.%s returned error %v", wire, c.transp, c.rm[i].name, c.errsR[i]), wire, c.rm[i].name)
				}
			}
			for _, e := range dsj {
				if e != c.transp {
					c.violate("DecodeSliceOfJSON does not return the transport error of the RedisResult", fmt.Sprintf("reply %q: got %v", wire, e), wire, "DecodeSliceOfJSON")
				}
			}
		}
	}

	// ---- coverage
	key := string(wire)
	if !perTreeState {
		key = c15skeleton(wire)
	}
	r.StateStr(alpha, key)
	if isAgg && len(msg.values()) > 0 {
		r.NonTrivialStr(alpha, key)
	}
	if r.WantSample() && nodes >= 3 && isAgg {
		r.Sample(map[string]any{"wire": string(wire), "decoded": msg.String(), "accessors_called": len(c.mm) + len(c.rm) + 4})
	}
}

// c15skeleton drops payloads: only the type bytes / aggregate headers remain.
func c15skeleton(wire []byte) string {
	var sb strings.Builder
	for i := 0; i < len(wire); {
		t := wire[i]
		j := bytes.Index(wire[i:], []byte("\r\n"))
		switch t {
		case '$', '!', '=':
			n, _ := strconv.Atoi(string(wire[i+1 : i+j]))
			sb.WriteByte(t)
			i += j + 2 + n + 2
		case '*', '~', '%', '>':
			sb.Write(wire[i : i+j])
			i += j + 2
		default:
			sb.WriteByte(t)
			i += j + 2
		}
	}
	return sb.String()
}

// ---------------------------------------------------------------- error texts

func c15errTexts() []string {
	set := map[string]bool{}
	for _, s := range []string{"", "MOVED", "MOVED ", "MOVED 1", "MOVED 1 ", "MOVED 1 h:1", "ASK", "ASK 1", "ASK 1 h:1", "REDIRECT", "REDIRECT ", "REDIRECT h:1",
		"LOADING", "TRYAGAIN", "CLUSTERDOWN", "NOSCRIPT", "BUSYGROUP", "ERR x", "MOVED abc h:1"} {
		set[s] = true
	}
	for _, kw := range []string{"MOVED", "ASK", "REDIRECT", "TRYAGAIN", "LOADING", "CLUSTERDOWN", "NOSCRIPT", "BUSYGROUP", "ERR MOVED", "ERR"} {
		for _, suf := range []string{"", " ", "  ", " 1", " 1 ", " 1 h:1", " h:1", " 1 ::1:1", " 1 [::1]:1", " 1 1.1.1.1:1", " 1 :", "X", "X 1 h:1"} {
			set[kw+suf] = true
		}
	}
	out := make([]string, 0, len(set))
	for s := range set {
		out = append(out, s)
	}
	sort.Strings(out)
	return out
}

func c15errClass(text string) string {
	n := len(strings.Split(text, " "))
	ns := strconv.Itoa(n)
	if n >= 3 {
		ns = "3+"
	}
	for _, kw := range []string{"MOVED", "ASK", "REDIRECT"} {
		if strings.HasPrefix(text, kw) {
			return fmt.Sprintf("text starting with %s that has %s space separated field(s)", kw, ns)
		}
	}
	return "other error text"
}

func (c *c15ctx) checkErrText(typ byte, text string) {
	r := c.r
	wire := c15leaf(typ, text)
	msg := c.decode(wire)
	direct := msg // the form used by streamTo / AsFtSearch: (*RedisError)(&m)
	viaErr, _ := msg.Error().(*RedisError)
	r.StateStr("errtext", string(wire))
	if strings.Contains(text, " ") || text == "" {
		r.NonTrivialStr("errtext", string(wire))
	}
	pt := reflect.TypeOf((*RedisError)(nil))
	for _, tgt := range []struct {
		how string
		e   *RedisError
	}{{"RedisMessage.Error()", viaErr}, {"(*RedisError)(&msg)", (*RedisError)(&direct)}} {
		if tgt.e == nil {
			r.Violate("error reply does not surface as *RedisError", fmt.Sprintf("%q.Error() = %#v", wire, msg.Error()), c15replay{Kind: "errtext", Wire: string(wire)})
			continue
		}
		for i := 0; i < pt.NumMethod(); i++ {
			m := pt.Method(i)
			call := c15slow[RedisError](m)
			r.Evaluations++
			p, site := vrun.Catch(func() { _ = call(tgt.e) })
			if p != nil {
				r.Outcome("panic")
				if c.only == "" || c.only == m.Name {
					r.Violate(fmt.Sprintf("RedisError.%s panics in %s: %s", m.Name, site, c15errClass(tgt.e.Error())),
						fmt.Sprintf("reply %q -> %s -> .%s() panicked: %v; expected (addr, ok) without panic", wire, tgt.how, m.Name, p), c15replay{Kind: "errtext", Wire: string(wire), Method: m.Name})
				}
			} else {
				r.Outcome("classifier returned")
			}
		}
		// package level classifiers
		for name, f := range map[string]func(error){
			"IsRedisBusyGroup": func(e error) { IsRedisBusyGroup(e) },
			"IsRedisErr":       func(e error) { IsRedisErr(e) },
			"IsRedisNil":       func(e error) { IsRedisNil(e) },
			"IsParseErr":       func(e error) { IsParseErr(e) },
		} {
			r.Evaluations++
			if p, site := vrun.Catch(func() { f(tgt.e) }); p != nil {
				r.Violate(fmt.Sprintf("%s panics in %s", name, site), fmt.Sprintf("reply %q: %v", wire, p), c15replay{Kind: "errtext", Wire: string(wire), Method: name})
			}
		}
	}
}

// ---------------------------------------------------------------- entry

func TestVerif_C15(t *testing.T) {
	vrun.Main(t, "C15", func(r *vrun.Run) {
		defer debug.SetGCPercent(debug.SetGCPercent(400)) // the accessors allocate an error per call; live heap is tiny
		c := &c15ctx{r: r, sigs: map[string]string{}, rd: bytes.NewReader(nil), transp: errors.New("c15 transport error")}
		c.br = bufio.NewReaderSize(c.rd, 4096)
		var skM, skR, slM, slR []string
		c.mm, skM, slM = c15methods[RedisMessage]()
		c.rm, skR, slR = c15methods[RedisResult]()
		c.errsM = make([]error, len(c.mm))
		c.errsR = make([]error, len(c.rm))

		if raw, ok := r.ReplayPayload(); ok {
			var p c15replay
			if err := json.Unmarshal(raw, &p); err != nil {
				panic(err)
			}
			c.only = p.Method
			if p.Kind == "errtext" {
				typ, text := p.Wire[0], ""
				if typ == '!' {
					text = p.Wire[strings.Index(p.Wire, "\r\n")+2 : len(p.Wire)-2]
				} else {
					text = p.Wire[1 : len(p.Wire)-2]
				}
				c.checkErrText(typ, text)
			} else {
				c.checkTree([]byte(p.Wire), 1, true, "replay")
			}
			return
		}

		full, med, red := c15fullAlpha(), c15mediumAlpha(), c15reducedAlpha()
		// reduced is a subset of medium, medium a subset of full: every size is
		// run only with the largest alphabet that is affordable for it.
		type c15plan struct {
			a       *c15alpha
			n       int
			perTree bool
		}
		plan := vrun.Pick(r,
			[]c15plan{{full, 1, true}, {full, 2, true}, {full, 3, true}, {med, 4, false}, {red, 5, true}},
			[]c15plan{{full, 1, true}, {full, 2, true}, {full, 3, true}, {full, 4, false}, {red, 5, true}, {red, 6, false}})
		const maxDepth = 3
		for _, p := range plan {
			r.Bounds["max_nodes_"+p.a.name+"_alphabet"] = p.n
		}
		r.Bounds["max_depth_edges"] = maxDepth
		r.Bounds["leaves_full"] = len(full.leaves)
		r.Bounds["leaves_medium"] = len(med.leaves)
		r.Bounds["leaves_reduced"] = len(red.leaves)
		r.Bounds["accessors_RedisMessage"] = len(c.mm)
		r.Bounds["accessors_RedisResult"] = len(c.rm)
		r.Rule = "every ordered reply tree (RESP3 wire text decoded by the real readNextMessage), depth <= 3 edges, maps with even AND odd child counts (odd ones as streamed maps): " +
			"full alphabet (7 text types $ + , - ! = ( x 13 payloads, ints {0,1,-1}, bools, null; aggregates * ~ % >) up to 3 nodes (thorough: 4); " +
			"medium alphabet (13 payloads for $, {'',a,1} for the other text types, same ints/bools/null, aggregates * %) for 4 nodes in quick; " +
			"reduced alphabet (15 leaves incl. the FT field names, aggregates * %) for 5 nodes (thorough: 5 and 6). " +
			"On each tree every exported method of *RedisMessage and *RedisResult found by reflection plus DecodeSliceOfJSON[any|string|int64|struct]; " +
			"every RedisError method on ~140 redirect-like error texts as '-' and '!' replies. state = distinct tree (payload-free skeleton for the medium-alphabet level and the two largest thorough levels); " +
			"non-trivial = aggregate root with at least one child (accessors index into children) / error text with a space or empty"
		r.Assume("readNextMessage is used as the trusted constructor of reply values (C15 quantifies over what the decoder can produce)")
		r.Assume("weak reading of 'parse error': any non-nil error is accepted when a scalar accessor meets an aggregate reply or a structured helper meets a scalar reply; no zero-value requirement")
		r.Assume("ToString/AsBytes/AsReader on float, verbatim and big-number replies may return the text (text bearing types); only int and bool are treated as wrong shape for them")
		for _, s := range append(skM, skR...) {
			r.Note("not called: " + s)
		}
		if len(slM)+len(slR) > 0 {
			r.Note("called through reflect.Call (signature unknown to the fast path): " + strings.Join(append(slM, slR...), ", "))
		}
		names := []string{}
		for _, m := range c.mm {
			names = append(names, m.name)
		}
		r.Note("RedisMessage methods called: " + strings.Join(names, " "))
		names = names[:0]
		for _, m := range c.rm {
			names = append(names, m.name)
		}
		r.Note("RedisResult methods called: " + strings.Join(names, " "))

		// 1. error texts
		if r.Mine(0) {
			for _, text := range c15errTexts() {
				c.checkErrText('-', text)
				c.checkErrText('!', text)
			}
			// old style RESP2 nulls decode to the same null message
			for _, w := range []string{"$-1\r\n", "*-1\r\n"} {
				c.checkTree([]byte(w), 1, true, "oldnull")
			}
		}

		// 2. trees, smallest first so that the first counterexample of a signature is minimal
		item := 0
		stop := false
		run := func(a *c15alpha, n int, perTree bool) {
			if stop {
				return
			}
			// shard over (root header, first child) by counting top-level work items
			cnt := 0
			c15genTree(a, n, maxDepth, make([]byte, 0, 256), func(w []byte) bool {
				cnt++
				if cnt&1023 == 0 {
					item++
					if r.TimeUp() {
						stop = true
						return false
					}
				}
				if !r.Mine(item) {
					return true
				}
				c.checkTree(w, n, perTree, a.name)
				return true
			})
			item++
		}
		for _, p := range plan {
			run(p.a, p.n, p.perTree)
		}
		for i, n := range c.counts {
			if n > 0 {
				r.Outcomes[c15oNames[i]] += n
			}
		}
	})
}
