//go:build verif

package rueidis

import (
	"context"
	"encoding/json"
	"errors"
	"fmt"
	"sort"
	"strings"
	"sync"
	"testing"
	"time"

	"github.com/redis/rueidis/vshim/vrun"
)

// C31: MGet, MGetCache, JsonMGet, JsonMGetCache, MSet, MSetNX, MDel, JsonMSet map every key to its own reply.
//
// Real singleClient / standalone / sentinelClient / clusterClient over fake connections (mockConn) that EXECUTE
// the commands against one shared store. Cluster nodes answer -MOVED / -CROSSSLOT for keys they do not own
// (and remember that they had to), one node may fail with transport errors or with -ERR. The oracle is an
// independent model of the store kept by the harness.

var c31keys = []string{"a", "b", "{t}1", "{t}2"}

var c31errDown = errors.New("c31: connection reset by peer")

const c31jsonPath = "$"

// ---- independent slot function (Redis cluster spec: CRC16-XMODEM of the hash tag, mod 16384)

func c31crc16(s string) uint16 {
	var crc uint16
	for i := 0; i < len(s); i++ {
		crc ^= uint16(s[i]) << 8
		for b := 0; b < 8; b++ {
			if crc&0x8000 != 0 {
				crc = crc<<1 ^ 0x1021
			} else {
				crc <<= 1
			}
		}
	}
	return crc
}

func c31slot(key string) int {
	if i := strings.IndexByte(key, '{'); i >= 0 {
		if j := strings.IndexByte(key[i+1:], '}'); j > 0 {
			key = key[i+1 : i+1+j]
		}
	}
	return int(c31crc16(key) % 16384)
}

// ---- the fake deployment

type c31val struct {
	json bool
	v    string
}

type c31world struct {
	mu      sync.Mutex
	store   map[string]c31val
	failN   int    // failing node, -1 none
	failHow string // "xport" | "err"
	bounds  [3][2]int
	addrs   [3]string
	cluster bool
	misrout []string
	calls   []string
}

func (w *c31world) owner(key string) int {
	s := c31slot(key)
	for i, b := range w.bounds {
		if s >= b[0] && s <= b[1] {
			return i
		}
	}
	return -1
}

func c31bulk(v c31val, ok bool, asJSON bool) RedisMessage {
	if !ok {
		return RedisMessage{typ: '_'}
	}
	if asJSON {
		return strmsg('$', "["+v.v+"]")
	}
	return strmsg('$', v.v)
}

// keysOf returns the key arguments of a command (nil = not a data command)
func c31keysOf(argv []string) []string {
	switch argv[0] {
	case "GET":
		return argv[1:2]
	case "MGET", "DEL":
		return argv[1:]
	case "SET":
		return argv[1:2]
	case "MSET", "MSETNX":
		var ks []string
		for i := 1; i+1 < len(argv); i += 2 {
			ks = append(ks, argv[i])
		}
		return ks
	case "JSON.GET", "JSON.SET":
		return argv[1:2]
	case "JSON.MGET":
		return argv[1 : len(argv)-1]
	case "JSON.MSET":
		var ks []string
		for i := 1; i+2 < len(argv); i += 3 {
			ks = append(ks, argv[i])
		}
		return ks
	}
	return nil
}

// run executes one command on node n (w.mu held)
func (w *c31world) run(n int, argv []string) RedisResult {
	line := strings.Join(argv, " ")
	w.calls = append(w.calls, fmt.Sprintf("n%d:%s", n, line))
	if w.failN == n {
		if w.failHow == "xport" {
			return NewErrorResult(c31errDown)
		}
		return NewResult(strmsg('-', "ERR c31 injected failure"), nil)
	}
	keys := c31keysOf(argv)
	if keys == nil {
		return NewResult(strmsg('-', "ERR c31 unknown command '"+line+"'"), nil)
	}
	if w.cluster {
		for _, k := range keys {
			if c31slot(k) != c31slot(keys[0]) {
				w.misrout = append(w.misrout, fmt.Sprintf("n%d got cross-slot command %q", n, line))
				return NewResult(strmsg('-', "CROSSSLOT Keys in request don't hash to the same slot"), nil)
			}
		}
		if o := w.owner(keys[0]); o != n {
			w.misrout = append(w.misrout, fmt.Sprintf("n%d got %q but slot %d belongs to n%d", n, line, c31slot(keys[0]), o))
			return NewResult(strmsg('-', fmt.Sprintf("MOVED %d %s", c31slot(keys[0]), w.addrs[o])), nil)
		}
	}
	var m RedisMessage
	switch argv[0] {
	case "GET":
		v, ok := w.store[argv[1]]
		m = c31bulk(v, ok, false)
	case "MGET":
		arr := make([]RedisMessage, len(keys))
		for i, k := range keys {
			v, ok := w.store[k]
			arr[i] = c31bulk(v, ok, false)
		}
		m = slicemsg('*', arr)
	case "SET":
		nx := len(argv) == 4 && argv[3] == "NX"
		if _, ok := w.store[argv[1]]; ok && nx {
			m = RedisMessage{typ: '_'}
		} else {
			w.store[argv[1]] = c31val{v: argv[2]}
			m = strmsg('+', "OK")
		}
	case "MSET":
		for i := 1; i+1 < len(argv); i += 2 {
			w.store[argv[i]] = c31val{v: argv[i+1]}
		}
		m = strmsg('+', "OK")
	case "MSETNX":
		any := false
		for _, k := range keys {
			if _, ok := w.store[k]; ok {
				any = true
			}
		}
		if any {
			m = RedisMessage{typ: ':', intlen: 0}
		} else {
			for i := 1; i+1 < len(argv); i += 2 {
				w.store[argv[i]] = c31val{v: argv[i+1]}
			}
			m = RedisMessage{typ: ':', intlen: 1}
		}
	case "DEL":
		n := int64(0)
		for _, k := range keys {
			if _, ok := w.store[k]; ok {
				delete(w.store, k)
				n++
			}
		}
		m = RedisMessage{typ: ':', intlen: n}
	case "JSON.GET":
		v, ok := w.store[argv[1]]
		m = c31bulk(v, ok, true)
	case "JSON.MGET":
		arr := make([]RedisMessage, len(keys))
		for i, k := range keys {
			v, ok := w.store[k]
			arr[i] = c31bulk(v, ok, true)
		}
		m = slicemsg('*', arr)
	case "JSON.SET":
		w.store[argv[1]] = c31val{json: true, v: argv[3]}
		m = strmsg('+', "OK")
	case "JSON.MSET":
		for i := 1; i+2 < len(argv); i += 3 {
			w.store[argv[i]] = c31val{json: true, v: argv[i+2]}
		}
		m = strmsg('+', "OK")
	}
	return NewResult(m, nil)
}

func (w *c31world) dataConn(n int, addr string) conn {
	one := func(argv []string) RedisResult {
		w.mu.Lock()
		defer w.mu.Unlock()
		return w.run(n, append([]string(nil), argv...))
	}
	return &mockConn{
		AddrFn: func() string { return addr },
		DoFn: func(cmd Completed) RedisResult {
			c := cmd.Commands()
			if len(c) == 2 && c[0] == "CLUSTER" && c[1] == "SLOTS" {
				return w.slotsReply()
			}
			if len(c) == 1 && c[0] == "ROLE" {
				return NewResult(slicemsg('*', []RedisMessage{strmsg('+', "master")}), nil)
			}
			return one(c)
		},
		DoCacheFn: func(cmd Cacheable, _ time.Duration) RedisResult { return one(cmd.Commands()) },
		DoMultiFn: func(multi ...Completed) *redisresults {
			out := make([]RedisResult, len(multi))
			for i, c := range multi {
				out[i] = one(c.Commands())
			}
			return &redisresults{s: out}
		},
		DoMultiCacheFn: func(multi ...CacheableTTL) *redisresults {
			out := make([]RedisResult, len(multi))
			for i, c := range multi {
				out[i] = one(c.Cmd.Commands())
			}
			return &redisresults{s: out}
		},
	}
}

func (w *c31world) slotsReply() RedisResult {
	var groups []RedisMessage
	for i, b := range w.bounds {
		groups = append(groups, slicemsg('*', []RedisMessage{
			{typ: ':', intlen: int64(b[0])},
			{typ: ':', intlen: int64(b[1])},
			slicemsg('*', []RedisMessage{strmsg('+', "127.0.0.1"), {typ: ':', intlen: int64(7000 + i)}, strmsg('+', "")}),
		}))
	}
	return NewResult(slicemsg('*', groups), nil)
}

func c31newWorld(cluster bool) *c31world {
	w := &c31world{failN: -1, cluster: cluster, store: map[string]c31val{}}
	// three ranges cut half way between the three slots in use, so that "a", "b" and "{t}.." live on different nodes
	sl := []int{c31slot("a"), c31slot("b"), c31slot("{t}1")}
	sort.Ints(sl)
	if sl[0] == sl[1] || sl[1] == sl[2] {
		panic("c31: keys share a slot")
	}
	c1, c2 := (sl[0]+sl[1])/2, (sl[1]+sl[2])/2
	w.bounds = [3][2]int{{0, c1}, {c1 + 1, c2}, {c2 + 1, 16383}}
	for i := range w.addrs {
		w.addrs[i] = fmt.Sprintf("127.0.0.1:%d", 7000+i)
	}
	return w
}

func (w *c31world) connFn(dst string, _ *ClientOption) conn {
	for i, a := range w.addrs {
		if a == dst {
			return w.dataConn(i, dst)
		}
	}
	if dst == "127.0.0.1:26379" { // the sentinel
		return &mockConn{
			AddrFn: func() string { return dst },
			DoFn:   func(cmd Completed) RedisResult { return NewResult(strmsg('+', "OK"), nil) },
			DoMultiFn: func(multi ...Completed) *redisresults {
				return &redisresults{s: []RedisResult{
					NewResult(slicemsg('*', nil), nil),
					NewResult(slicemsg('*', []RedisMessage{strmsg('+', "127.0.0.1"), strmsg('+', "7000")}), nil),
				}}
			},
		}
	}
	panic("c31: unexpected address " + dst)
}

type c31env struct {
	kind  string
	w     *c31world
	cl    Client
	nodes int // data nodes that can be made to fail
}

func c31retryer() retryHandler {
	return newRetryer(func(attempts int, _ Completed, _ error) time.Duration {
		if attempts < 2 {
			return 0
		}
		return -1
	})
}

func c31newEnv(kind string) *c31env {
	e := &c31env{kind: kind, w: c31newWorld(kind == "cluster"), nodes: 1}
	var err error
	switch kind {
	case "single":
		e.cl, err = newSingleClient(&ClientOption{InitAddress: []string{e.w.addrs[0]}}, nil, e.w.connFn, c31retryer())
	case "standalone":
		e.nodes = 2
		e.cl, err = newStandaloneClient(&ClientOption{
			InitAddress:    []string{e.w.addrs[0]},
			Standalone:     StandaloneOption{ReplicaAddress: []string{e.w.addrs[1]}},
			SendToReplicas: func(cmd Completed) bool { return cmd.IsReadOnly() },
		}, e.w.connFn, c31retryer())
	case "sentinel":
		e.cl, err = newSentinelClient(&ClientOption{InitAddress: []string{"127.0.0.1:26379"}, Sentinel: SentinelOption{MasterSet: "m"}}, e.w.connFn, c31retryer())
	case "cluster":
		e.nodes = 3
		var cc *clusterClient
		cc, err = newClusterClient(&ClientOption{InitAddress: []string{e.w.addrs[0]}}, e.w.connFn, c31retryer())
		if err == nil {
			// no wall-clock driven background topology refresh (static topology): occupy its single-flight slot
			cc.sc.mu.Lock()
			cc.sc.ch = make(chan struct{})
			cc.sc.mu.Unlock()
		}
		e.cl = cc
	default:
		panic("c31: kind " + kind)
	}
	if err != nil {
		panic(fmt.Sprintf("c31: %s client: %v", kind, err))
	}
	return e
}

// ---- cases

type c31case struct {
	Kind    string   `json:"client"`
	Helper  string   `json:"helper"`
	Keys    []string `json:"keys"`    // input order (map based helpers: the key set)
	Present int      `json:"present"` // bit i: c31keys[i] exists before the call
	FailN   int      `json:"fail_node"`
	FailHow string   `json:"fail_how,omitempty"`
}

func c31old(k string, asJSON bool) string {
	if asJSON {
		return `{"old":"` + k + `"}`
	}
	return "old_" + k
}

func c31new(k string, asJSON bool) string {
	if asJSON {
		return `{"new":"` + k + `"}`
	}
	return "new_" + k
}

func c31isJSON(helper string) bool { return strings.HasPrefix(helper, "Json") }

func c31msgDesc(m RedisMessage) string {
	switch m.typ {
	case '_':
		return "nil"
	case '-', '!':
		return "error(" + m.string() + ")"
	case '+', '$':
		return fmt.Sprintf("%q", m.string())
	}
	return fmt.Sprintf("type %c", m.typ)
}

func c31runCase(e *c31env, c c31case) (viol [][2]string, detail string) {
	w := e.w
	js := c31isJSON(c.Helper)
	// fresh store + independent model
	model := map[string]string{}
	w.mu.Lock()
	w.store = map[string]c31val{}
	for i, k := range c31keys {
		if c.Present>>i&1 == 1 {
			w.store[k] = c31val{json: js, v: c31old(k, js)}
			model[k] = c31old(k, js)
		}
	}
	w.failN, w.failHow = c.FailN, c.FailHow
	w.misrout, w.calls = nil, nil
	w.mu.Unlock()
	defer func() {
		w.mu.Lock()
		w.failN = -1
		w.mu.Unlock()
	}()

	ctx := context.Background()
	keySet := map[string]bool{}
	for _, k := range c.Keys {
		keySet[k] = true
	}
	kvs := map[string]string{}
	for k := range keySet {
		kvs[k] = c31new(k, js)
	}
	add := func(sig, d string) { viol = append(viol, [2]string{c.Helper + " on " + c.Kind + ": " + sig, d}) }

	// a key is "hit by the failure" if the node that has to serve it fails. Cluster: the owner of its slot.
	// Other deployments: any failing node may be involved (which node serves reads is a routing policy).
	failing := c.FailN >= 0
	isWrite := c.Helper == "MDel" || c.Helper == "MSet" || c.Helper == "MSetNX" || c.Helper == "JsonMSet"
	hit := func(k string) bool {
		if !failing {
			return false
		}
		if c.Kind == "cluster" {
			return w.owner(k) == c.FailN
		}
		if c.Kind == "standalone" && isWrite {
			return c.FailN == 0 // writes are served by the primary
		}
		return true
	}
	anyHit := false
	for k := range keySet {
		if hit(k) {
			anyHit = true
		}
	}

	var rmap map[string]RedisMessage
	var emap map[string]error
	var rerr error
	p, site := vrun.Catch(func() {
		switch c.Helper {
		case "MGet":
			rmap, rerr = MGet(e.cl, ctx, c.Keys)
		case "MGetCache":
			rmap, rerr = MGetCache(e.cl, ctx, time.Minute, c.Keys)
		case "JsonMGet":
			rmap, rerr = JsonMGet(e.cl, ctx, c.Keys, c31jsonPath)
		case "JsonMGetCache":
			rmap, rerr = JsonMGetCache(e.cl, ctx, time.Minute, c.Keys, c31jsonPath)
		case "MDel":
			emap = MDel(e.cl, ctx, c.Keys)
		case "MSet":
			emap = MSet(e.cl, ctx, kvs)
		case "MSetNX":
			emap = MSetNX(e.cl, ctx, kvs)
		case "JsonMSet":
			emap = JsonMSet(e.cl, ctx, kvs, c31jsonPath)
		default:
			panic("c31: helper " + c.Helper)
		}
	})
	w.mu.Lock()
	defer w.mu.Unlock()
	detail = fmt.Sprintf("keys=%q present=%04b fail=n%d/%s; commands seen by the nodes: %v", c.Keys, c.Present, c.FailN, c.FailHow, w.calls)
	if p != nil {
		add("panic in "+site, fmt.Sprint(p))
		return
	}
	if len(w.misrout) > 0 {
		add("a command reached a node that does not own its keys", strings.Join(w.misrout, "; "))
	}

	switch c.Helper {
	case "MGet", "MGetCache", "JsonMGet", "JsonMGetCache":
		if rerr != nil {
			if !anyHit {
				add("returns an error although no node serving the keys fails", fmt.Sprintf("err=%v", rerr))
			}
			break
		}
		if len(rmap) != len(keySet) {
			add("returned map's key set differs from the input keys", fmt.Sprintf("returned %d entries for %d distinct keys", len(rmap), len(keySet)))
		}
		for k := range keySet {
			got, ok := rmap[k]
			if !ok {
				add("returned map's key set differs from the input keys", fmt.Sprintf("no entry for %q", k))
				continue
			}
			want := "nil"
			if v, ok := model[k]; ok {
				if js {
					v = "[" + v + "]"
				}
				want = fmt.Sprintf("%q", v)
			}
			gd := c31msgDesc(got)
			if gd == want {
				continue
			}
			if strings.HasPrefix(gd, "error(") && hit(k) && c.FailHow == "err" {
				continue // that key's own error
			}
			add("entry of a key is not that key's value", fmt.Sprintf("entry %q = %s, the store holds %s", k, gd, want))
		}
		for k := range rmap {
			if !keySet[k] {
				add("returned map's key set differs from the input keys", fmt.Sprintf("unexpected entry %q", k))
			}
		}
		if anyHit && c.FailHow == "xport" && c.Kind != "standalone" {
			add("reports no error although the node serving some keys is unreachable", "")
		}
	default:
		// expected effect, key by key
		exists := map[string]bool{}
		for k := range model {
			exists[k] = true
		}
		anyExists := false
		for k := range keySet {
			if exists[k] {
				anyExists = true
			}
		}
		if len(emap) != len(keySet) {
			add("returned map's key set differs from the input keys", fmt.Sprintf("returned %d entries for %d distinct keys", len(emap), len(keySet)))
		}
		for k := range emap {
			if !keySet[k] {
				add("returned map's key set differs from the input keys", fmt.Sprintf("unexpected entry %q", k))
			}
		}
		for k := range keySet {
			gotErr, ok := emap[k]
			if !ok {
				add("returned map's key set differs from the input keys", fmt.Sprintf("no entry for %q", k))
				continue
			}
			wantErr := "" // "", "fail", "nx", "nil"
			switch {
			case hit(k):
				wantErr = "fail"
			case c.Helper == "MSetNX" && c.Kind != "cluster" && anyExists:
				wantErr = "nx"
			case c.Helper == "MSetNX" && c.Kind == "cluster" && exists[k]:
				wantErr = "nil"
			}
			// apply to the model
			if wantErr == "" {
				if c.Helper == "MDel" {
					delete(model, k)
				} else {
					model[k] = c31new(k, js)
				}
			}
			okErr := false
			switch wantErr {
			case "":
				okErr = gotErr == nil
			case "fail":
				if c.FailHow == "xport" {
					okErr = gotErr == c31errDown
				} else {
					re, isRe := IsRedisErr(gotErr)
					okErr = isRe && strings.Contains(re.Error(), "c31 injected failure")
				}
			case "nx":
				okErr = gotErr == ErrMSetNXNotSet
			case "nil":
				okErr = IsRedisNil(gotErr)
			}
			if !okErr {
				add("per-key error is not that key's outcome", fmt.Sprintf("entry %q = %v, expected %s", k, gotErr, map[string]string{"": "nil (written)", "fail": "the failure of its node", "nx": "ErrMSetNXNotSet", "nil": "redis nil (key exists, SET NX)"}[wantErr]))
			}
		}
		// the store afterwards
		got := map[string]string{}
		for k, v := range w.store {
			got[k] = v.v
		}
		if fmt.Sprint(got) != fmt.Sprint(model) {
			add("store after the call differs from the expected state", fmt.Sprintf("store %v, expected %v", got, model))
		}
	}
	return
}

func c31seqs(maxLen int) [][]string {
	var out [][]string
	var rec func(cur []string)
	rec = func(cur []string) {
		if len(cur) > 0 {
			out = append(out, append([]string(nil), cur...))
		}
		if len(cur) == maxLen {
			return
		}
		for _, k := range c31keys {
			rec(append(cur, k))
		}
	}
	rec(nil)
	return out
}

func TestVerif_C31(t *testing.T) {
	vrun.Main(t, "C31", func(r *vrun.Run) {
		r.Rule = "client kinds {single, standalone(primary+replica, reads to replica), sentinel, cluster(3 primaries; a, b, {t}* on different nodes)} over fake connections executing against one store x helpers: slice based {MGet, MGetCache, JsonMGet, JsonMGetCache, MDel} with every key sequence of length 1..L over {a,b,{t}1,{t}2} (all repetitions) x initial store {all, a+{t}1, none present}; map based {MSet, MSetNX, JsonMSet} with every non-empty key subset x all 16 initial stores; x failure {none, each data node with transport errors, each data node answering -ERR}. non-trivial = keys in >=2 slots or a duplicate key or a failing node"
		if raw, ok := r.ReplayPayload(); ok {
			var c c31case
			if err := json.Unmarshal(raw, &c); err != nil {
				panic(err)
			}
			e := c31newEnv(c.Kind)
			viol, detail := c31runCase(e, c)
			r.Evaluations++
			for _, v := range viol {
				r.Violate(v[0], v[1]+"\n  "+detail, c)
			}
			e.cl.Close()
			return
		}
		maxLen := vrun.Pick(r, 4, 5)
		r.Bounds["max_keys"] = maxLen
		r.Bounds["key_universe"] = c31keys
		seqs := c31seqs(maxLen)
		var subsets [][]string
		for mask := 1; mask < 16; mask++ {
			var s []string
			for i, k := range c31keys {
				if mask>>i&1 == 1 {
					s = append(s, k)
				}
			}
			subsets = append(subsets, s)
		}
		item := 0
		stop := false
		for _, kind := range []string{"single", "standalone", "sentinel", "cluster"} {
			e := c31newEnv(kind)
			type fm struct {
				n   int
				how string
			}
			fails := []fm{{-1, ""}}
			for n := 0; n < e.nodes; n++ {
				fails = append(fails, fm{n, "xport"}, fm{n, "err"})
			}
			one := func(c c31case) {
				item++
				if stop || !r.Mine(item) {
					return
				}
				viol, detail := c31runCase(e, c)
				r.Evaluations++
				key := fmt.Sprintf("%s|%s|%v|%d|%d|%s", c.Kind, c.Helper, c.Keys, c.Present, c.FailN, c.FailHow)
				r.StateStr(key)
				slots := map[int]bool{}
				dup := false
				seen := map[string]bool{}
				for _, k := range c.Keys {
					slots[c31slot(k)] = true
					if seen[k] {
						dup = true
					}
					seen[k] = true
				}
				if len(slots) > 1 || dup || c.FailN >= 0 {
					r.NonTrivialStr(key)
				}
				o := c.Kind + ":" + c.Helper
				if c.FailN >= 0 {
					o += ":node-" + c.FailHow
				}
				r.Outcome(o)
				for _, v := range viol {
					r.Violate(v[0], v[1]+"\n  "+detail, c)
				}
				if len(viol) == 0 && r.WantSample() && kind == "cluster" && len(slots) == 3 && dup {
					r.Sample(map[string]any{"case": c, "observed": detail})
				}
				if r.Evaluations%2000 == 0 && r.TimeUp() {
					stop = true
				}
			}
			for _, helper := range []string{"MGet", "MGetCache", "JsonMGet", "JsonMGetCache", "MDel"} {
				for _, ks := range seqs {
					for _, present := range []int{15, 5, 0} {
						for _, f := range fails {
							one(c31case{Kind: kind, Helper: helper, Keys: ks, Present: present, FailN: f.n, FailHow: f.how})
						}
					}
				}
			}
			for _, helper := range []string{"MSet", "MSetNX", "JsonMSet"} {
				for _, ks := range subsets {
					for present := 0; present < 16; present++ {
						for _, f := range fails {
							one(c31case{Kind: kind, Helper: helper, Keys: ks, Present: present, FailN: f.n, FailHow: f.how})
						}
					}
				}
			}
			e.cl.Close()
		}
		r.Assume("the fake nodes implement GET/MGET/SET [NX]/MSET/MSETNX/DEL/JSON.GET/JSON.MGET/JSON.SET/JSON.MSET on whole values ($ path only; JSON.GET returns '[doc]'); a failing node executes nothing")
		r.Assume("read helpers may answer a failing node either with a whole-call error or (for -ERR) with that key's error message as its entry; an error return is only accepted when a node that has to serve one of the keys fails (cluster: the slot owner; other deployments: any failing node)")
		r.Assume("MSetNX: MSETNX semantics (all or nothing, ErrMSetNXNotSet for every key) on single/standalone/sentinel clients and per-key SET NX semantics (redis nil for existing keys) on cluster clients, as the doc comment of the helper says")
		r.Assume("slot ownership is computed by the harness's own CRC16 implementation; the topology is static and the cluster client's delayed background refresh is suppressed")
	})
}
