//go:build verif

package rueidis

import (
	"bytes"
	"encoding/binary"
	"encoding/json"
	"errors"
	"fmt"
	"math"
	"runtime/metrics"
	"strconv"
	"testing"
	"unsafe"

	"github.com/redis/rueidis/vshim/vrun"
)

// C17 — cache serialization round-trips.
//
// Generator trees (c17node) are turned into RedisMessage values with the
// struct fields directly, marshalled by the real CacheMarshal and read back by
// the real CacheUnmarshalView; the result is compared with the generator tree.

type c17node struct {
	Typ  byte       `json:"t"`
	Str  []byte     `json:"s,omitempty"`
	Num  int64      `json:"n,omitempty"`
	Kids []*c17node `json:"k,omitempty"`
}

func c17isAgg(t byte) bool { return t == '*' || t == '~' || t == '%' }
func c17isNum(t byte) bool { return t == ':' || t == '#' || t == '_' }

func c17build(n *c17node) RedisMessage {
	m := RedisMessage{typ: n.Typ}
	switch {
	case c17isAgg(n.Typ):
		vs := make([]RedisMessage, len(n.Kids))
		for i, k := range n.Kids {
			vs[i] = c17build(k)
		}
		m.array = unsafe.SliceData(vs)
		m.intlen = int64(len(vs))
	case c17isNum(n.Typ):
		m.intlen = n.Num
	default:
		s := string(n.Str)
		m.bytes = unsafe.StringData(s)
		m.intlen = int64(len(s))
	}
	return m
}

// c17lenient: the comparison looks only at what the accessors of the message's own type can see (a reused message
// may keep a stale child pointer or byte pointer that no accessor of a scalar / number reads)
var c17lenient = false

func c17compare(n *c17node, m *RedisMessage, path string) string {
	if m.typ != n.Typ {
		return fmt.Sprintf("%s: typ %q want %q", path, m.typ, n.Typ)
	}
	switch {
	case c17isAgg(n.Typ):
		vs := m.values()
		if len(vs) != len(n.Kids) {
			return fmt.Sprintf("%s: %d children want %d", path, len(vs), len(n.Kids))
		}
		if m.string() != "" {
			return path + ": aggregate with string payload"
		}
		for i := range vs {
			if vs[i].attrs != nil {
				return fmt.Sprintf("%s/%d: child carries attrs", path, i)
			}
			if d := c17compare(n.Kids[i], &vs[i], path+"/"+strconv.Itoa(i)); d != "" {
				return d
			}
		}
	case c17isNum(n.Typ):
		if m.intlen != n.Num {
			return fmt.Sprintf("%s: number %d want %d", path, m.intlen, n.Num)
		}
		if !c17lenient && (m.bytes != nil || m.array != nil) {
			return path + ": number with payload"
		}
	default:
		if m.string() != string(n.Str) {
			return fmt.Sprintf("%s: string %q want %q", path, m.string(), n.Str)
		}
		if !c17lenient && len(m.values()) != 0 {
			return path + ": string with children"
		}
	}
	return ""
}

// c17layout returns the offsets of the 8 byte length fields of every node in
// the marshalled buffer and whether the node is an aggregate (documented format:
// 7 bytes expiry, then per node 1 type byte + 8 bytes length/number + payload).
func c17layout(n *c17node, off int, out *[]c17field) int {
	*out = append(*out, c17field{off + 1, n.Typ})
	off += 9
	switch {
	case c17isAgg(n.Typ):
		for _, k := range n.Kids {
			off = c17layout(k, off, out)
		}
	case c17isNum(n.Typ):
	default:
		off += len(n.Str)
	}
	return off
}

type c17field struct {
	off int
	typ byte
}

var c17sample = []metrics.Sample{{Name: "/gc/heap/allocs:bytes"}}

func c17allocs() uint64 {
	metrics.Read(c17sample)
	return c17sample[0].Value.Uint64()
}

type c17case struct {
	Kind   string   `json:"kind"` // "rt" round trip | "trunc" | "corrupt"
	Tree   *c17node `json:"tree"`
	Exp    int64    `json:"exp"`
	Cut    int      `json:"cut,omitempty"`
	Off    int      `json:"off,omitempty"`
	Val    int      `json:"val,omitempty"`
	Prefix int      `json:"prefix,omitempty"` // CacheMarshal into a buffer with this capacity (0 = nil)
	Wide   *c17wide `json:"wide,omitempty"`   // the tree is a wide aggregate built from this description (Tree is not stored)
}

// c17wide describes an aggregate with many direct children (sizes around the decoder's preallocation bound).
type c17wide struct {
	Typ    byte `json:"typ"`
	N      int  `json:"n"`
	Nested bool `json:"nested"` // placed between two siblings inside an array
}

func c17wideTree(w c17wide) *c17node {
	agg := &c17node{Typ: w.Typ}
	for i := 0; i < w.N; i++ {
		switch i % 3 {
		case 0:
			agg.Kids = append(agg.Kids, &c17node{Typ: ':', Num: int64(i)})
		case 1:
			agg.Kids = append(agg.Kids, &c17node{Typ: '$', Str: []byte("v" + strconv.Itoa(i))})
		default:
			agg.Kids = append(agg.Kids, &c17node{Typ: '+', Str: []byte("s")})
		}
	}
	if !w.Nested {
		return agg
	}
	return &c17node{Typ: '*', Kids: []*c17node{{Typ: '$', Str: []byte("before")}, agg, {Typ: ':', Num: 7}}}
}

func c17desc(n *c17node) string {
	b, _ := json.Marshal(n)
	if len(b) > 300 {
		b = b[:300]
	}
	return string(b)
}

func c17rootClass(n *c17node) string {
	if c17isAgg(n.Typ) {
		return fmt.Sprintf("aggregate %q", n.Typ)
	}
	return fmt.Sprintf("scalar %q", n.Typ)
}

func c17marshal(n *c17node, exp int64, capHint int) (m RedisMessage, buf []byte) {
	m = c17build(n)
	m.setExpireAt(exp)
	if capHint > 0 {
		buf = m.CacheMarshal(make([]byte, 0, capHint))
	} else {
		buf = m.CacheMarshal(nil)
	}
	return
}

func c17roundTrip(r *vrun.Run, c *c17case) {
	r.Evaluations++
	var m, back RedisMessage
	var buf []byte
	var err error
	var size int
	p, site := vrun.Catch(func() {
		m, buf = c17marshal(c.Tree, c.Exp, c.Prefix)
		size = m.CacheSize()
		cp := append([]byte(nil), buf...)
		err = back.CacheUnmarshalView(cp)
	})
	if p != nil {
		r.Outcome("panic")
		r.Violate("round trip: panic in "+site, fmt.Sprintf("tree %s exp %d: panic %v", c17desc(c.Tree), c.Exp, p), c17payload(c))
		return
	}
	if len(buf) != size {
		r.Outcome("size mismatch")
		r.Violate("CacheMarshal length differs from CacheSize ("+c17rootClass(c.Tree)+")", fmt.Sprintf("tree %s exp %d: len(CacheMarshal)=%d CacheSize=%d", c17desc(c.Tree), c.Exp, len(buf), size), c17payload(c))
		return
	}
	if err != nil {
		r.Outcome("unmarshal error")
		r.Violate("CacheUnmarshalView rejects CacheMarshal output ("+c17rootClass(c.Tree)+")", fmt.Sprintf("tree %s exp %d: %v", c17desc(c.Tree), c.Exp, err), c17payload(c))
		return
	}
	if d := c17compare(c.Tree, &back, ""); d != "" {
		r.Outcome("tree differs")
		r.Violate("round trip changes the value ("+c17rootClass(c.Tree)+")", fmt.Sprintf("tree %s exp %d: %s", c17desc(c.Tree), c.Exp, d), c17payload(c))
		return
	}
	wantPXAT := c.Exp
	if wantPXAT == 0 {
		wantPXAT = -1
	}
	if back.getExpireAt() != c.Exp || back.CachePXAT() != wantPXAT || !back.IsCacheHit() {
		r.Outcome("expiry differs")
		r.Violate("round trip changes the expiry", fmt.Sprintf("tree %s exp %d: getExpireAt=%d CachePXAT=%d IsCacheHit=%v", c17desc(c.Tree), c.Exp, back.getExpireAt(), back.CachePXAT(), back.IsCacheHit()), c17payload(c))
		return
	}
	// the same bytes decoded into a receiver that is being reused (it held a non-empty aggregate before): same value
	var dirty RedisMessage
	p, site = vrun.Catch(func() {
		prev := c17build(&c17node{Typ: '%', Kids: []*c17node{{Typ: '+', Str: []byte("k")}, {Typ: ':', Num: 1}, {Typ: '+', Str: []byte("k2")}, {Typ: '*', Kids: []*c17node{{Typ: ':', Num: 2}}}}})
		prev.setExpireAt(1)
		if e := dirty.CacheUnmarshalView(prev.CacheMarshal(nil)); e != nil {
			panic("harness: cannot prepare the reused receiver: " + e.Error())
		}
		err = dirty.CacheUnmarshalView(append([]byte(nil), buf...))
	})
	if p != nil || err != nil {
		r.Outcome("reused receiver: panic or error")
		r.Violate("round trip into a reused receiver fails ("+c17rootClass(c.Tree)+")", fmt.Sprintf("tree %s exp %d: panic %v (%s) err %v", c17desc(c.Tree), c.Exp, p, site, err), c17payload(c))
		return
	}
	c17lenient = true
	d := c17compare(c.Tree, &dirty, "")
	c17lenient = false
	if d != "" || dirty.getExpireAt() != c.Exp {
		r.Outcome("reused receiver: tree differs")
		r.Violate("round trip into a reused receiver changes the value ("+c17rootClass(c.Tree)+")", fmt.Sprintf("tree %s exp %d decoded into a message that held a 4-element map before: %s (expiry %d)", c17desc(c.Tree), c.Exp, d, dirty.getExpireAt()), c17payload(c))
		return
	}
	r.Outcome("round trip ok")
}

// c17payload is the replay payload of a case: a wide aggregate is stored as its description only.
func c17payload(c *c17case) c17case {
	pc := *c
	if pc.Wide != nil {
		pc.Tree = nil
	}
	return pc
}

// c17roundTripWide runs the round trip for a wide aggregate; the violation payload carries the description, not the tree.
func c17roundTripWide(r *vrun.Run, c *c17case) {
	tree := c.Tree
	c17roundTrip(r, c)
	_ = tree
}

// c17trunc checks one truncation; with measure=false the caller measures the
// allocation of a whole batch of truncations at once (and repeats the batch
// with measure=true if the batch exceeded the bound).
func c17trunc(r *vrun.Run, c *c17case, buf []byte, measure bool) {
	r.Evaluations++
	var back RedisMessage
	var err error
	cp := buf[:c.Cut:c.Cut]
	var a0, a1 uint64
	if measure {
		a0 = c17allocs()
	}
	p, site := vrun.Catch(func() { err = back.CacheUnmarshalView(cp) })
	if measure {
		a1 = c17allocs()
	}
	if p != nil {
		r.Outcome("truncation: panic")
		r.Violate("truncated buffer: panic in "+site, fmt.Sprintf("tree %s exp %d truncated to %d of %d bytes: panic %v", c17desc(c.Tree), c.Exp, c.Cut, len(buf), p), *c)
		return
	}
	if !errors.Is(err, ErrCacheUnmarshal) {
		r.Outcome("truncation: accepted")
		r.Violate("truncated buffer accepted ("+c17rootClass(c.Tree)+")", fmt.Sprintf("tree %s exp %d truncated to %d of %d bytes: err=%v value=%s", c17desc(c.Tree), c.Exp, c.Cut, len(buf), err, back.String()), *c)
		return
	}
	if a1-a0 > 1<<20 {
		r.Outcome("truncation: large allocation")
		r.Violate("truncated buffer: large allocation", fmt.Sprintf("tree %s truncated to %d of %d bytes: %d bytes allocated", c17desc(c.Tree), c.Cut, len(buf), a1-a0), *c)
		return
	}
	r.Outcome("truncation -> ErrCacheUnmarshal")
}

// c17corrupt: outside the literal property statement (which only speaks of
// truncation); recorded as outcomes/notes, see Assume.
func c17corrupt(r *vrun.Run, c *c17case, buf []byte, agg bool, noted map[string]bool) {
	cp := append([]byte(nil), buf...)
	cp[c.Off] = byte(c.Val)
	if cp[c.Off] == buf[c.Off] {
		return
	}
	r.Evaluations++
	var back RedisMessage
	var err error
	a0 := c17allocs()
	p, site := vrun.Catch(func() { err = back.CacheUnmarshalView(cp) })
	a1 := c17allocs()
	switch {
	case p != nil:
		cls := "corrupted length field: panic in " + site
		r.Outcome(cls)
		if !noted[cls] {
			noted[cls] = true
			r.Note(fmt.Sprintf("%s — tree %s, byte %d of the buffer set to %#x: panic %v (outside the property statement, which only covers truncation)", cls, c17desc(c.Tree), c.Off, c.Val, p))
		}
	case a1-a0 > 1<<20:
		cls := "corrupted length field: allocation far beyond the buffer size"
		r.Outcome(cls)
		if !noted[cls] {
			noted[cls] = true
			r.Note(fmt.Sprintf("%s — tree %s, byte %d set to %#x: %d bytes allocated for a %d byte buffer, err=%v", cls, c17desc(c.Tree), c.Off, c.Val, a1-a0, len(cp), err))
		}
	case err != nil:
		r.Outcome("corrupted length field: error")
	default:
		r.Outcome("corrupted length field: some value")
	}
}

type c17gen struct {
	leaves []*c17node
	memo   map[int][]*c17node
	fmemo  map[int][][]*c17node
}

func (g *c17gen) trees(size int) []*c17node {
	if t, ok := g.memo[size]; ok {
		return t
	}
	var out []*c17node
	if size == 1 {
		out = append(out, g.leaves...)
		for _, t := range []byte{'*', '~', '%'} {
			out = append(out, &c17node{Typ: t})
		}
	} else {
		for _, f := range g.forests(size - 1) {
			for _, t := range []byte{'*', '~', '%'} {
				if t == '%' && len(f)%2 != 0 {
					continue
				}
				out = append(out, &c17node{Typ: t, Kids: f})
			}
		}
	}
	g.memo[size] = out
	return out
}

func (g *c17gen) forests(size int) [][]*c17node {
	if f, ok := g.fmemo[size]; ok {
		return f
	}
	var out [][]*c17node
	for s := 1; s <= size; s++ {
		for _, t := range g.trees(s) {
			if s == size {
				out = append(out, []*c17node{t})
				continue
			}
			for _, rest := range g.forests(size - s) {
				l := make([]*c17node, 0, len(rest)+1)
				l = append(l, t)
				l = append(l, rest...)
				out = append(out, l)
			}
		}
	}
	g.fmemo[size] = out
	return out
}

// c17prealloc mirrors resp.go maxPrealloc (bytes preallocated on the word of a length header); a literal so that the
// harness also builds against trees that rename or drop the constant.
const c17prealloc = 1 << 16

func TestVerif_C17(t *testing.T) {
	vrun.Main(t, "C17", func(r *vrun.Run) {
		if raw, ok := r.ReplayPayload(); ok {
			var c c17case
			if err := json.Unmarshal(raw, &c); err != nil {
				panic(err)
			}
			if c.Wide != nil {
				c.Tree = c17wideTree(*c.Wide)
			}
			switch c.Kind {
			case "trunc":
				_, buf := c17marshal(c.Tree, c.Exp, 0)
				c17trunc(r, &c, buf, true)
			default:
				c17roundTrip(r, &c)
			}
			return
		}
		maxNodes := vrun.Pick(r, 4, 5)
		truncNodes := vrun.Pick(r, 4, 5)
		r.Bounds["max_nodes"] = maxNodes
		r.Bounds["truncation_max_nodes"] = truncNodes
		corruptNodes := vrun.Pick(r, 2, 3)
		r.Bounds["corruption_max_nodes"] = corruptNodes
		exps := []int64{0, 1, 1 << 48, 1<<55 - 1}
		r.Bounds["expiries"] = exps
		r.Rule = "every message tree with <= max_nodes nodes over leaves {blob string, simple string ('', a, 'a CRLF b\\x00'), verbatim, big number, double (stored as text), blob/simple error, int 0 1 -1 minInt64 maxInt64, bool, null} and aggregates {array, set, map (even size)} x expiry {0, 1, 2^48, 2^55-1}: CacheMarshal(nil) and CacheMarshal(into a preallocated buffer), length == CacheSize, CacheUnmarshalView gives the same tree, types, expiry and cache-hit mark, into a fresh message and into one that is being reused (it held a 4-element map before); every strict prefix of each marshalled buffer (trees <= truncation_max_nodes, expiry 2^48) must give ErrCacheUnmarshal without panic and without allocating > 1 MiB; single byte corruptions of every length field for trees <= corruption_max_nodes nodes are probed (notes only). plus arrays, sets and maps with element counts around the decoder's preallocation bound (maxPrealloc/sizeof(message) -2..+2, twice that, 4096, 5000), alone and nested between siblings. non-trivial = aggregate trees and strings with payload"
		r.Assume("push and attribute messages are not cacheable replies (the serializer does not keep their children) and are not generated")
		r.Assume("corrupted (not truncated) buffers are outside the property statement; panics or large allocations on them are recorded as notes, not violations; corruptions that would make the real code allocate between 4 MiB and 2^48 bytes are skipped for the safety of the machine")
		r.Assume("expiry is a 56 bit field (setExpireAt stores 7 bytes); values up to 2^55-1 are generated")

		leaves := []*c17node{}
		for _, s := range []string{"", "a", "a\r\nb\x00"} {
			leaves = append(leaves, &c17node{Typ: '$', Str: []byte(s)}, &c17node{Typ: '+', Str: []byte(s)})
		}
		leaves = append(leaves, &c17node{Typ: '=', Str: []byte("txt:a")}, &c17node{Typ: '(', Str: []byte("123456789012345678901234567890")},
			&c17node{Typ: ',', Str: []byte("1.5")}, &c17node{Typ: ',', Str: []byte("inf")}, &c17node{Typ: '!', Str: []byte("ERR x")}, &c17node{Typ: '-', Str: []byte("ERR y")})
		for _, v := range []int64{0, 1, -1, math.MinInt64, math.MaxInt64} {
			leaves = append(leaves, &c17node{Typ: ':', Num: v})
		}
		leaves = append(leaves, &c17node{Typ: '#', Num: 1}, &c17node{Typ: '#', Num: 0}, &c17node{Typ: '_'})
		r.Bounds["leaf_alphabet"] = len(leaves)
		g := &c17gen{leaves: leaves, memo: map[int][]*c17node{}, fmemo: map[int][][]*c17node{}}
		noted := map[string]bool{}
		idx := 0
		var key bytes.Buffer
	outer:
		for size := 1; size <= maxNodes; size++ {
			for _, tr := range g.trees(size) {
				idx++
				if !r.Mine(idx) {
					continue
				}
				for ei, exp := range exps {
					c := &c17case{Kind: "rt", Tree: tr, Exp: exp}
					c17roundTrip(r, c)
					if ei == 2 {
						_, buf := c17marshal(tr, exp, 0)
						c2 := &c17case{Kind: "rt", Tree: tr, Exp: exp, Prefix: len(buf)}
						c17roundTrip(r, c2)
						c2.Prefix = 3
						c17roundTrip(r, c2)
						key.Reset()
						key.Write(buf[7:])
						r.StateStr(key.String())
						if size > 1 || len(tr.Str) > 0 {
							r.NonTrivialStr(key.String())
						}
						if size <= truncNodes {
							tc := c17case{Kind: "trunc", Tree: tr, Exp: exp}
							a0 := c17allocs()
							for cut := 0; cut < len(buf); cut++ {
								tc.Cut = cut
								c17trunc(r, &tc, buf, false)
							}
							if c17allocs()-a0 > 1<<20 { // find the truncation that allocates
								for cut := 0; cut < len(buf); cut++ {
									tc.Cut = cut
									c17trunc(r, &tc, buf, true)
								}
							}
						}
						if size <= corruptNodes {
							var fields []c17field
							c17layout(tr, 7, &fields)
							for _, f := range fields {
								for b := 0; b < 8; b++ {
									for v := 0; v < 256; v++ {
										if c17isAgg(f.typ) {
											// resulting element count; RedisMessage is 40 bytes
											var tmp [8]byte
											copy(tmp[:], buf[f.off:f.off+8])
											tmp[b] = byte(v)
											cnt := binary.BigEndian.Uint64(tmp[:])
											if cnt > (4<<20)/40 && cnt <= (1<<48)/40+1 { // makeslice panics (recoverably) only above 2^48 bytes
												r.Outcome("corrupted length field: skipped for safety")
												continue
											}
										}
										c17corrupt(r, &c17case{Kind: "corrupt", Tree: tr, Exp: exp, Off: f.off + b, Val: v}, buf, c17isAgg(f.typ), noted)
									}
								}
							}
						}
					}
				}
				if idx%256 == 0 && r.TimeUp() {
					break outer
				}
			}
		}
		// wide aggregates: element counts around the decoder's preallocation bound (maxPrealloc / size of a message) and beyond
		bound := c17prealloc / messageStructSize
		var widths []int
		for _, n := range []int{0, 1, 2, bound - 2, bound - 1, bound, bound + 1, bound + 2, 2*bound - 1, 2*bound + 2, 4096, 5000} {
			widths = append(widths, n)
		}
		r.Bounds["wide_aggregate_sizes"] = widths
		if r.Mine(0) {
			for _, typ := range []byte{'*', '~', '%'} {
				for _, n := range widths {
					if typ == '%' && n%2 == 1 {
						n++
					}
					for _, nested := range []bool{false, true} {
						w := c17wide{Typ: typ, N: n, Nested: nested}
						c := &c17case{Kind: "rt", Exp: 1 << 48, Wide: &w, Tree: c17wideTree(w)}
						c17roundTripWide(r, c)
					}
				}
			}
		}
		r.Bounds["trees_generated"] = idx
		if tr := g.trees(3); len(tr) > 0 {
			_, buf := c17marshal(tr[len(tr)-1], 1<<48, 0)
			r.Sample(map[string]any{"tree": tr[len(tr)-1], "marshalled_hex": fmt.Sprintf("%x", buf)})
		}
	})
}
