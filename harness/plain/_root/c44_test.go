//go:build verif

package rueidis

import (
	"encoding/json"
	"fmt"
	"net/url"
	"reflect"
	"strings"
	"testing"
	"time"

	"github.com/redis/rueidis/vshim/vrun"
)

// C44: ParseURL maps every supported URL part to ITS option.
//
// Two oracles:
//  (direct)       a reference mapping written from the property statement, the
//                 doc comment of ParseURL and the README list of parameters;
//  (differential) non-interference: adding a parameter P with a valid value to a
//                 URL must not change the error status nor any ClientOption
//                 field except P's own.

type c44pv struct {
	Name  string `json:"name"`
	Class int    `json:"class"` // index into c44classes
}

type c44case struct {
	Scheme string  `json:"scheme"`
	UI     string  `json:"userinfo"`
	Host   string  `json:"host"`
	Path   string  `json:"path"`
	Params []c44pv `json:"params"`
}

var c44classes = []string{"valid", "valid2", "invalid-or-tricky", "empty", "repeated"}

type c44param struct {
	name string
	raw  [5][]string // URL-encoded values per class
	own  string      // the ClientOption field the parameter is documented to set
}

var c44params = []c44param{
	{"db", [5][]string{{"1"}, {"7"}, {"x"}, {""}, {"1", "7"}}, "SelectDB"},
	{"dial_timeout", [5][]string{{"5s"}, {"250ms"}, {"abc"}, {""}, {"5s", "7s"}}, "Dialer.Timeout"},
	{"write_timeout", [5][]string{{"3s"}, {"1m"}, {"abc"}, {""}, {"3s", "9s"}}, "ConnWriteTimeout"},
	{"addr", [5][]string{{"a:7"}, {"[::2]:8"}, {"b"}, {""}, {"a:7", "c:9"}}, "InitAddress[1:]"},
	{"protocol", [5][]string{{"2"}, {"3"}, {"9"}, {""}, {"2", "3"}}, "AlwaysRESP2"},
	{"client_cache", [5][]string{{"0"}, {"1"}, {"x"}, {""}, {"0", "1"}}, "DisableCache"},
	{"client_name", [5][]string{{"cn"}, {"0"}, {"c%20n"}, {""}, {"cn", "c2"}}, "ClientName"},
	{"max_retries", [5][]string{{"0"}, {"3"}, {"x"}, {""}, {"0", "3"}}, "DisableRetry"},
	{"master_set", [5][]string{{"ms"}, {"2"}, {"m%26s"}, {""}, {"ms", "m2"}}, "Sentinel.MasterSet"},
	{"skip_verify", [5][]string{{"true"}, {"false"}, {"abc"}, {""}, {"true", "false"}}, "TLSConfig.InsecureSkipVerify"},
}

func c44paramByName(n string) *c44param {
	for i := range c44params {
		if c44params[i].name == n {
			return &c44params[i]
		}
	}
	panic("c44: unknown parameter " + n)
}

func (c c44case) url() string {
	var b strings.Builder
	if c.Scheme != "" {
		b.WriteString(c.Scheme)
		b.WriteString(":")
	}
	b.WriteString("//")
	if c.UI != "" {
		b.WriteString(c.UI)
		b.WriteString("@")
	}
	b.WriteString(c.Host)
	b.WriteString(c.Path)
	sep := "?"
	for _, p := range c.Params {
		for _, v := range c44paramByName(p.Name).raw[p.Class] {
			b.WriteString(sep)
			sep = "&"
			b.WriteString(p.Name)
			b.WriteString("=")
			b.WriteString(v)
		}
	}
	return b.String()
}

func (c c44case) vals(name string) (vals []string, class int, present bool) {
	for _, p := range c.Params {
		if p.Name == name {
			for _, v := range c44paramByName(name).raw[p.Class] {
				d, err := url.QueryUnescape(v)
				if err != nil {
					panic(err)
				}
				vals = append(vals, d)
			}
			return vals, p.Class, true
		}
	}
	return nil, -1, false
}

func (c c44case) tls() bool  { return c.Scheme == "rediss" || c.Scheme == "valkeys" }
func (c c44case) unix() bool { return c.Scheme == "unix" }

// c44errClass tells, for one parameter occurrence, whether the reference demands
// an error ("must"), leaves it open ("may") or demands success ("").
func c44errClass(c c44case, p c44pv) string {
	bad := p.Class == 2 || p.Class == 3
	switch p.Name {
	case "dial_timeout", "write_timeout":
		if bad {
			return "must"
		}
	case "db":
		if bad {
			if c.unix() {
				return "must"
			}
			return "may" // ?db= is documented for unix URLs only
		}
	case "skip_verify":
		if p.Class == 2 {
			if c.tls() {
				return "must"
			}
			return "may" // without TLS there is nothing to skip
		}
	case "addr":
		if bad {
			return "may" // host without port, or empty: reject or complete it
		}
	case "protocol", "client_cache", "max_retries":
		if bad {
			return "may" // lenient reading: unknown values may be ignored
		}
	}
	return ""
}

type c44prob struct{ sig, detail string }

var c44hostAddr = map[string]string{"h": "h:6379", "h:1": "h:1", "[::1]:2": "[::1]:2", "": "localhost:6379", "[::1]": "[::1]:6379"}
var c44addrAddr = map[string]string{"a:7": "a:7", "[::2]:8": "[::2]:8", "c:9": "c:9", "b": "b:6379"}

func c44in[T comparable](got T, want ...T) bool {
	for _, w := range want {
		if got == w {
			return true
		}
	}
	return false
}

func c44dur(vals []string) []time.Duration {
	if len(vals) == 0 {
		return []time.Duration{0}
	}
	// which of repeated values wins is not specified: first or last
	var out []time.Duration
	for _, v := range []string{vals[0], vals[len(vals)-1]} {
		d, err := time.ParseDuration(v)
		if err != nil {
			panic("c44: reference called with invalid duration")
		}
		out = append(out, d)
	}
	return out
}

func c44flag(vals []string, on string) []bool {
	if len(vals) == 0 {
		return []bool{false}
	}
	return []bool{vals[0] == on, vals[len(vals)-1] == on}
}

func c44str(vals []string) []string {
	if len(vals) == 0 {
		return []string{""}
	}
	return []string{vals[0], vals[len(vals)-1]}
}

// c44judge is the direct oracle. outcome classifies the case for coverage.
func c44judge(c c44case, opt ClientOption, err error) (probs []c44prob, outcome string) {
	u := c.url()
	add := func(sig, f string, a ...any) {
		probs = append(probs, c44prob{"direct: " + sig, fmt.Sprintf("URL %q: ", u) + fmt.Sprintf(f, a...)})
	}
	must, may := "", false
	_, perr := url.Parse(u)
	known := c44in(c.Scheme, "redis", "rediss", "valkey", "valkeys", "unix")
	switch {
	case perr != nil:
		must = "URL that net/url rejects"
	case !known:
		must = "unsupported scheme"
	case !c.unix() && c44in(c.Path, "/x", "/1/2", "/tmp/sock"):
		must = "invalid database path " + c.Path
	}
	if c.unix() && c.Path == "" {
		may = true // unix URL without a socket path: unspecified
	}
	for _, p := range c.Params {
		switch c44errClass(c, p) {
		case "must":
			if must == "" {
				must = fmt.Sprintf("%s with %s value", p.Name, c44classes[p.Class])
			}
		case "may":
			may = true
		}
	}
	if must != "" {
		if err == nil {
			add("accepts "+must, "no error; an error is required")
			return probs, "wrongly accepted"
		}
		return nil, "rejected as required"
	}
	if err != nil {
		if may {
			return nil, "rejected (allowed, unspecified input)"
		}
		add("rejects a valid URL", "error %v", err)
		return probs, "wrongly rejected"
	}
	outcome = "accepted"
	if may {
		outcome = "accepted leniently (unspecified input)"
	}

	// ---- credentials
	wantUser, wantPass := "", ""
	switch c.UI {
	case "user":
		wantUser = "user"
	case "user:pw":
		wantUser, wantPass = "user", "pw"
	case ":pw":
		wantPass = "pw"
	}
	if opt.Username != wantUser || opt.Password != wantPass {
		add("credentials wrong", "Username=%q Password=%q want %q %q", opt.Username, opt.Password, wantUser, wantPass)
	}
	// ---- address / socket
	wantFirst := c44hostAddr[c.Host]
	if c.unix() {
		wantFirst = c.Path
	}
	if len(opt.InitAddress) == 0 || (opt.InitAddress[0] != wantFirst && !(c.unix() && c.Path == "")) {
		add(fmt.Sprintf("InitAddress[0] wrong for scheme class %s host %q", map[bool]string{true: "unix", false: "tcp"}[c.unix()], c.Host), "InitAddress=%q want first %q", opt.InitAddress, wantFirst)
	}
	if (opt.DialCtxFn != nil) != c.unix() {
		add("DialCtxFn set iff unix violated", "DialCtxFn non-nil=%v scheme %q", opt.DialCtxFn != nil, c.Scheme)
	}
	if avals, acl, ok := c.vals("addr"); len(opt.InitAddress) > 0 && (!ok || acl != 3) {
		var want []string
		for _, a := range avals {
			want = append(want, c44addrAddr[a])
		}
		got := opt.InitAddress[1:]
		if strings.Join(got, " ") != strings.Join(want, " ") {
			sig := "addr: additional addresses wrong"
			if acl == 2 {
				sig = "addr: host without port is neither rejected nor completed with the default port"
			}
			add(sig, "InitAddress=%q want tail %q", opt.InitAddress, want)
		}
	}
	// ---- TLS
	if (opt.TLSConfig != nil) != c.tls() {
		add("TLSConfig set iff rediss/valkeys violated", "TLSConfig non-nil=%v scheme %q", opt.TLSConfig != nil, c.Scheme)
	} else if c.tls() {
		sv, scl, ok := c.vals("skip_verify")
		want := []bool{false}
		if ok {
			conv := func(s string) bool { return s == "true" || s == "" }
			want = []bool{conv(sv[0]), conv(sv[len(sv)-1])}
		}
		_ = scl
		if !c44in(opt.TLSConfig.InsecureSkipVerify, want...) {
			add("skip_verify: InsecureSkipVerify wrong", "InsecureSkipVerify=%v want %v", opt.TLSConfig.InsecureSkipVerify, want)
		}
	}
	// ---- database
	pathDB := 0
	switch c.Path {
	case "/0":
		pathDB = 0
	case "/3":
		pathDB = 3
	}
	dbv, dcl, dok := c.vals("db")
	switch {
	case c.unix():
		want := []int{0}
		if dok {
			want = want[:0]
			for _, s := range c44str(dbv) {
				want = append(want, int(s[0]-'0'))
			}
		}
		if !c44in(opt.SelectDB, want...) {
			add("db: SelectDB wrong for unix URL", "SelectDB=%d want %v", opt.SelectDB, want)
		}
	case !dok:
		if opt.SelectDB != pathDB {
			add("path: SelectDB wrong", "SelectDB=%d want %d", opt.SelectDB, pathDB)
		}
	case dcl != 2 && dcl != 3:
		want := []int{pathDB}
		for _, s := range c44str(dbv) {
			want = append(want, int(s[0]-'0'))
		}
		if !c44in(opt.SelectDB, want...) {
			add("db: SelectDB is neither the path nor the query database", "SelectDB=%d want one of %v", opt.SelectDB, want)
		}
	}
	// ---- timeouts
	dv, _, _ := c.vals("dial_timeout")
	if want := c44dur(dv); !c44in(opt.Dialer.Timeout, want...) {
		add("Dialer.Timeout is not the dial_timeout", "Dialer.Timeout=%v want %v (dial_timeout=%q)", opt.Dialer.Timeout, want, dv)
	}
	wv, _, _ := c.vals("write_timeout")
	if want := c44dur(wv); !c44in(opt.ConnWriteTimeout, want...) {
		add("ConnWriteTimeout is not the write_timeout", "ConnWriteTimeout=%v want %v (write_timeout=%q)", opt.ConnWriteTimeout, want, wv)
	}
	// ---- flags and names
	pv, _, _ := c.vals("protocol")
	if want := c44flag(pv, "2"); !c44in(opt.AlwaysRESP2, want...) {
		add("protocol: AlwaysRESP2 wrong", "AlwaysRESP2=%v want %v (protocol=%q)", opt.AlwaysRESP2, want, pv)
	}
	cv, _, _ := c.vals("client_cache")
	if want := c44flag(cv, "0"); !c44in(opt.DisableCache, want...) {
		add("client_cache: DisableCache wrong", "DisableCache=%v want %v (client_cache=%q)", opt.DisableCache, want, cv)
	}
	mv, _, _ := c.vals("max_retries")
	if want := c44flag(mv, "0"); !c44in(opt.DisableRetry, want...) {
		add("max_retries: DisableRetry wrong", "DisableRetry=%v want %v (max_retries=%q)", opt.DisableRetry, want, mv)
	}
	nv, _, _ := c.vals("client_name")
	if want := c44str(nv); !c44in(opt.ClientName, want...) {
		add("client_name: ClientName wrong", "ClientName=%q want %q", opt.ClientName, want)
	}
	sv, _, _ := c.vals("master_set")
	if want := c44str(sv); !c44in(opt.Sentinel.MasterSet, want...) {
		add("master_set: Sentinel.MasterSet wrong", "MasterSet=%q want %q", opt.Sentinel.MasterSet, want)
	}
	return probs, outcome
}

// c44mask clears the field that parameter name owns.
func c44mask(o *ClientOption, name string) {
	switch name {
	case "db":
		o.SelectDB = 0
	case "dial_timeout":
		o.Dialer.Timeout = 0
	case "write_timeout":
		o.ConnWriteTimeout = 0
	case "addr":
		if len(o.InitAddress) > 1 {
			o.InitAddress = append([]string{}, o.InitAddress[:1]...)
		}
	case "protocol":
		o.AlwaysRESP2 = false
	case "client_cache":
		o.DisableCache = false
	case "client_name":
		o.ClientName = ""
	case "max_retries":
		o.DisableRetry = false
	case "master_set":
		o.Sentinel.MasterSet = ""
	case "skip_verify":
		if o.TLSConfig != nil {
			o.TLSConfig = o.TLSConfig.Clone()
			o.TLSConfig.InsecureSkipVerify = false
		}
	}
}

// c44firstDiff names the first ClientOption field in which a and b differ
// (function values are compared by nil-ness only).
func c44firstDiff(a, b any, prefix string, depth int) string {
	va, vb := reflect.ValueOf(a), reflect.ValueOf(b)
	t := va.Type()
	for i := 0; i < t.NumField(); i++ {
		f := t.Field(i)
		if !f.IsExported() {
			continue
		}
		fa, fb := va.Field(i), vb.Field(i)
		if f.Type.Kind() == reflect.Func {
			if fa.IsNil() != fb.IsNil() {
				return prefix + f.Name
			}
			continue
		}
		if f.Type.Kind() == reflect.Pointer && f.Type.Elem().Kind() == reflect.Struct && f.Name == "TLSConfig" {
			if fa.IsNil() != fb.IsNil() {
				return prefix + f.Name
			}
			if fa.IsNil() {
				continue
			}
			if d := c44tlsDiff(fa, fb); d != "" {
				return prefix + f.Name + "." + d
			}
			continue
		}
		if f.Type.Kind() == reflect.Struct && depth > 0 {
			if d := c44firstDiff(fa.Interface(), fb.Interface(), prefix+f.Name+".", depth-1); d != "" {
				return d
			}
			continue
		}
		if !reflect.DeepEqual(fa.Interface(), fb.Interface()) {
			return prefix + f.Name
		}
	}
	return ""
}

func c44tlsDiff(fa, fb reflect.Value) string {
	ea, eb := fa.Elem(), fb.Elem()
	t := ea.Type()
	for i := 0; i < t.NumField(); i++ {
		f := t.Field(i)
		if !f.IsExported() {
			continue
		}
		xa, xb := ea.Field(i), eb.Field(i)
		if f.Type.Kind() == reflect.Func {
			if xa.IsNil() != xb.IsNil() {
				return f.Name
			}
			continue
		}
		if !reflect.DeepEqual(xa.Interface(), xb.Interface()) {
			return f.Name
		}
	}
	return ""
}

func c44parse(u string) (opt ClientOption, err error, pan any, site string) {
	pan, site = vrun.Catch(func() { opt, err = ParseURL(u) })
	return
}

func c44check(r *vrun.Run, c c44case) (outcome string) {
	r.Evaluations++
	u := c.url()
	opt, err, pan, site := c44parse(u)
	if pan != nil {
		r.Violate("ParseURL panics in "+site, fmt.Sprintf("URL %q: panic %v", u, pan), c)
		return "panic"
	}
	probs, outcome := c44judge(c, opt, err)
	for _, p := range probs {
		r.Violate(p.sig, p.detail, c)
	}
	// MustParseURL agrees with ParseURL (cheap cases only)
	if len(c.Params) <= 1 {
		p, _ := vrun.Catch(func() { MustParseURL(u) })
		if (p != nil) != (err != nil) {
			r.Violate("MustParseURL panics iff ParseURL fails violated", fmt.Sprintf("URL %q: ParseURL err=%v, MustParseURL panic=%v", u, err, p), c)
		}
	}
	// differential non-interference
	for i, p := range c.Params {
		if c44errClass(c, p) != "" {
			continue
		}
		if p.Name == "db" && !c.unix() {
			continue // query db on a tcp URL competes with the path by design; unspecified
		}
		// (skip_verify without TLS has no own field: everything has to stay equal)
		c2 := c
		c2.Params = append(append([]c44pv{}, c.Params[:i]...), c.Params[i+1:]...)
		u2 := c2.url()
		opt2, err2, pan2, _ := c44parse(u2)
		if pan2 != nil {
			continue // reported when c2 itself is enumerated
		}
		r.Transitions++
		if (err == nil) != (err2 == nil) {
			r.Violate(fmt.Sprintf("interference: adding %s with a valid value changes the error status", p.Name), fmt.Sprintf("URL %q -> err=%v; without %s, URL %q -> err=%v", u, err, p.Name, u2, err2), c)
			continue
		}
		if err != nil {
			continue
		}
		a, b := opt, opt2
		c44mask(&a, p.Name)
		c44mask(&b, p.Name)
		if d := c44firstDiff(a, b, "", 1); d != "" {
			r.Violate(fmt.Sprintf("interference: %s changes %s (its own option is %s)", p.Name, d, c44paramByName(p.Name).own),
				fmt.Sprintf("URL %q vs URL %q (same without %s): field %s differs: %v vs %v", u, u2, p.Name, d, c44field(a, d), c44field(b, d)), c)
		}
	}
	return outcome
}

func c44field(o ClientOption, path string) any {
	v := reflect.ValueOf(o)
	for _, part := range strings.Split(path, ".") {
		if v.Kind() == reflect.Pointer {
			v = v.Elem()
		}
		v = v.FieldByName(part)
		if !v.IsValid() {
			return "?"
		}
	}
	if v.Kind() == reflect.Func {
		return fmt.Sprintf("func(nil=%v)", v.IsNil())
	}
	return fmt.Sprint(v.Interface())
}

func TestVerif_C44(t *testing.T) {
	vrun.Main(t, "C44", func(r *vrun.Run) {
		r.Rule = "scheme {redis,rediss,valkey,valkeys,unix,http,\"\"} x userinfo {none,user,user:pw,:pw} x host {h,h:1,[::1]:2,\"\",[::1]} x path {\"\",/0,/3,/x,/1/2,/tmp/sock} x every set of <=2 (thorough <=3) distinct parameters out of {db,dial_timeout,write_timeout,addr,protocol,client_cache,client_name,max_retries,master_set,skip_verify}, each with value class {valid, second valid, invalid (or tricky valid for free-text), empty, repeated with two different valid values}. Each URL is parsed by the real ParseURL and judged by a reference mapping; for every parameter with a valid value the URL is parsed again without it and all other ClientOption fields must be identical (reflect.DeepEqual, functions by nil-ness). non-trivial = URL accepted with >=1 parameter"
		if raw, ok := r.ReplayPayload(); ok {
			var c c44case
			if err := json.Unmarshal(raw, &c); err != nil {
				panic(err)
			}
			c44check(r, c)
			return
		}
		schemes := []string{"redis", "rediss", "valkey", "valkeys", "unix", "http", ""}
		uis := []string{"", "user", "user:pw", ":pw"}
		hosts := []string{"h", "h:1", "[::1]:2", "", "[::1]"}
		paths := []string{"", "/0", "/3", "/x", "/1/2", "/tmp/sock"}
		maxParams := vrun.Pick(r, 2, 3)
		r.Bounds["schemes"] = schemes
		r.Bounds["userinfo"] = uis
		r.Bounds["hosts"] = hosts
		r.Bounds["paths"] = paths
		r.Bounds["max_params_per_url"] = maxParams
		r.Bounds["value_classes"] = c44classes
		var pnames []string
		for _, p := range c44params {
			pnames = append(pnames, p.name)
		}
		r.Bounds["parameters"] = pnames

		// parameter sets, smallest first so that the first input of a signature is minimal
		var sets [][]c44pv
		var gen func(start int, cur []c44pv, size int)
		gen = func(start int, cur []c44pv, size int) {
			if len(cur) == size {
				sets = append(sets, append([]c44pv{}, cur...))
				return
			}
			for i := start; i < len(c44params); i++ {
				for cl := 0; cl < 5; cl++ {
					gen(i+1, append(cur, c44pv{c44params[i].name, cl}), size)
				}
			}
		}
		for size := 0; size <= maxParams; size++ {
			gen(0, nil, size)
		}
		r.Bounds["parameter_sets"] = len(sets)

		base := 0
		for _, sc := range schemes {
			for _, pa := range paths {
				for _, ui := range uis {
					for _, ho := range hosts {
						base++
						if !r.Mine(base) {
							continue
						}
						if r.TimeUp() {
							return
						}
						for si, ps := range sets {
							c := c44case{Scheme: sc, UI: ui, Host: ho, Path: pa, Params: ps}
							oc := c44check(r, c)
							r.Outcome(oc)
							if r.Quick() {
								r.StateStr(c.url())
								if len(ps) > 0 && strings.HasPrefix(oc, "accepted") {
									r.NonTrivialStr(c.url())
								}
							} else if ui == "" && ho == "h" {
								// thorough: one state per (scheme, path, parameter set); userinfo and host multiply evaluations only
								k := fmt.Sprintf("%s|%s|%d", sc, pa, si)
								r.StateStr(k)
								if len(ps) > 0 && strings.HasPrefix(oc, "accepted") {
									r.NonTrivialStr(k)
								}
							}
						}
					}
				}
			}
		}
		r.Sample(map[string]any{"url": "rediss://user:pw@h:1/3?dial_timeout=5s&write_timeout=3s", "reference": "Username=user Password=pw InitAddress=[h:1] TLS SelectDB=3 Dialer.Timeout=5s ConnWriteTimeout=3s"})
		r.Sample(map[string]any{"url": "unix://:pw@/tmp/sock?db=7", "reference": "Password=pw InitAddress=[/tmp/sock] DialCtxFn set SelectDB=7"})
		r.Assume("net/url is trusted: URLs it rejects must be rejected, query values are compared after url.QueryUnescape")
		r.Assume("which of two repeated values of a scalar parameter wins is unspecified: first or last accepted")
		r.Assume("lenient reading: unrecognised or empty values of protocol / client_cache / max_retries may be ignored instead of rejected; ?db= on non-unix URLs, skip_verify without TLS, addr without port or empty, unix URL without path are unspecified (either an error or any mapping for the own field)")
		r.Assume("errors are required only for invalid durations (dial_timeout, write_timeout), invalid database numbers (path, ?db= on unix), invalid skip_verify on TLS URLs, unsupported schemes and multi-segment paths")
		r.Assume("TLS ServerName / MinVersion are not judged by the direct oracle, only by the non-interference oracle")
		if !r.Quick() {
			r.Note("thorough tier: states are counted per (scheme, path, parameter set) for userinfo=none host=h only, to bound memory; evaluations count every URL")
		}
	})
}
