//go:build verif

package rueidis

import (
	"container/list"
	"encoding/json"
	"fmt"
	"github.com/redis/rueidis/internal/cmds"
	"strings"
	"testing"
	"time"

	"github.com/redis/rueidis/vshim/vrun"
)

// Explicit-state search over the real lru store: a state is reached by
// replaying an operation history on a fresh instance; canonical form = the
// recency list (key, cmd, pending?, size class, expired?) plus the accounted size.

type c10op struct {
	Kind string `json:"k"` // flight | flights | updS | updL | cancel | del | flush | tick
	Key  string `json:"key,omitempty"`
	Cmd  string `json:"cmd,omitempty"`
}

type c10ent struct {
	key, cmd string
	pending  bool
	size     int
	expAt    int64
}

type c10model struct {
	ents []c10ent // front (least recently used) first
	max  int
}

const c10ttl = 10 * time.Millisecond

var c10base = time.Unix(1700000000, 0)

func c10val(large bool) RedisMessage {
	if large {
		return strmsg('+', strings.Repeat("x", 3*entryMinSize))
	}
	return strmsg('+', "v")
}

func c10size(key, cmd string, large bool) int {
	v := c10val(large)
	return entryBaseSize + 2*(len(key)+len(cmd)) + v.approximateSize()
}

func (m *c10model) find(key, cmd string) int {
	for i, e := range m.ents {
		if e.key == key && e.cmd == cmd {
			return i
		}
	}
	return -1
}

func (m *c10model) total() int {
	t := 0
	for _, e := range m.ents {
		if !e.pending {
			t += e.size
		}
	}
	return t
}

// apply is the boring reference: what the property says the store must do.
func (m *c10model) apply(op c10op, now int64) {
	switch op.Kind {
	case "flight":
		i := m.find(op.Key, op.Cmd)
		if i >= 0 {
			e := m.ents[i]
			if e.pending || e.expAt > now {
				return // wait for the flight / hit: sampled LRU, no move on ordinary hits
			}
			m.ents = append(m.ents[:i:i], m.ents[i+1:]...) // expired: dropped and refetched
		}
		m.ents = append(m.ents, c10ent{key: op.Key, cmd: op.Cmd, pending: true, expAt: now + c10ttl.Milliseconds()})
	case "flights":
		// the batch look-up (DoMultiCache): the same rule for every command of the batch, in batch order
		for _, cm := range c10batch(op.Key) {
			m.apply(c10op{Kind: "flight", Key: op.Key, Cmd: cm}, now)
		}
	case "updS", "updL":
		i := m.find(op.Key, op.Cmd)
		if i < 0 {
			return
		}
		if m.ents[i].pending {
			m.ents[i].pending = false
			m.ents[i].size = c10size(op.Key, op.Cmd, op.Kind == "updL")
		}
		// evict least recently used completed entries until within the limit; in-flight entries stay
		for j := 0; m.total() > m.max && j < len(m.ents); {
			if m.ents[j].pending {
				j++
				continue
			}
			m.ents = append(m.ents[:j:j], m.ents[j+1:]...)
		}
	case "cancel":
		if i := m.find(op.Key, op.Cmd); i >= 0 && m.ents[i].pending {
			m.ents = append(m.ents[:i:i], m.ents[i+1:]...)
		}
	case "del", "flush":
		var keep []c10ent
		for _, e := range m.ents {
			if e.pending || (op.Kind == "del" && e.key != op.Key) {
				keep = append(keep, e)
			}
		}
		m.ents = keep
	}
}

// c10batch: the commands of the batch look-up for a key (key c has one cacheable command in the alphabet)
func c10batch(key string) []string {
	if key == "c" {
		return []string{"G"}
	}
	return []string{"G", "T"}
}

func c10applyReal(c *lru, op c10op, now time.Time) {
	switch op.Kind {
	case "flights":
		var multi []CacheableTTL
		for _, cm := range c10batch(op.Key) {
			multi = append(multi, CT(Cacheable(cmds.NewCompleted([]string{cm, op.Key})), c10ttl))
		}
		c.Flights(now, multi, make([]RedisResult, len(multi)), map[int]CacheEntry{})
	case "flight":
		c.Flight(op.Key, op.Cmd, c10ttl, now)
	case "updS":
		c.Update(op.Key, op.Cmd, c10val(false))
	case "updL":
		c.Update(op.Key, op.Cmd, c10val(true))
	case "cancel":
		c.Cancel(op.Key, op.Cmd, fmt.Errorf("cancelled"))
	case "del":
		c.Delete([]RedisMessage{strmsg('+', op.Key)})
	case "flush":
		c.Delete(nil)
	}
}

func c10snapshot(c *lru, now time.Time) (ents []c10ent, sum int) {
	for ele := c.list.Front(); ele != nil; ele = ele.Next() {
		e := ele.Value.(*cacheEntry)
		ce := c10ent{key: e.kc.key, cmd: e.cmd, pending: e.val.typ == 0, size: e.size, expAt: e.val.getExpireAt()}
		if !ce.pending {
			sum += e.size
		}
		ents = append(ents, ce)
	}
	return
}

func c10canon(ents []c10ent, size int, now int64) string {
	var b strings.Builder
	for _, e := range ents {
		fmt.Fprintf(&b, "%s/%s/%v/%d/%v;", e.key, e.cmd, e.pending, e.size, !e.pending && e.expAt <= now)
	}
	fmt.Fprintf(&b, "|%d", size)
	return b.String()
}

// c10run replays hist on a fresh store and model, checking after every step; it returns the canonical state.
func c10run(r *vrun.Run, hist []c10op, max int, checkFrom int) (string, bool) {
	c := newLRU(CacheStoreOption{CacheSizeEachConn: max}).(*lru)
	m := &c10model{max: max}
	now := c10base
	for i, op := range hist {
		if op.Kind == "tick" {
			now = now.Add(2 * c10ttl)
			continue
		}
		c10applyReal(c, op, now)
		m.apply(op, now.UnixMilli())
		if i < checkFrom {
			continue
		}
		ents, sum := c10snapshot(c, now)
		fail := func(sig, f string, a ...any) {
			r.Violate(sig, fmt.Sprintf(f, a...)+fmt.Sprintf("\nhistory: %v\nreal list: %v (accounted size %d, max %d)\nmodel list: %v", hist[:i+1], ents, c.size, max, m.ents), hist[:i+1])
		}
		if c.size != sum {
			fail("accounted size differs from the sum of retained completed entries", "after %v: size=%d sum=%d", op, c.size, sum)
			return "", false
		}
		if strings.HasPrefix(op.Kind, "upd") && c.size > max {
			fail("cache size above CacheSizeEachConn after an update", "after %v: size=%d > max=%d", op, c.size, max)
			return "", false
		}
		// pending entries are never evicted, eviction order is LRU-first: the retained list must equal the model's
		if len(ents) != len(m.ents) {
			fail("retained entries differ from the reference LRU model after "+op.Kind, "after %v", op)
			return "", false
		}
		for k := range ents {
			if ents[k].key != m.ents[k].key || ents[k].cmd != m.ents[k].cmd || ents[k].pending != m.ents[k].pending || (!ents[k].pending && ents[k].size != m.ents[k].size) {
				fail("retained entries differ from the reference LRU model after "+op.Kind, "after %v at position %d", op, k)
				return "", false
			}
		}
	}
	ents, _ := c10snapshot(c, now)
	return c10canon(ents, c.size, now.UnixMilli()), true
}

func TestVerif_C10(t *testing.T) {
	vrun.Main(t, "C10", func(r *vrun.Run) {
		r.Rule = "breadth-first search over operation histories on a real lru (Flight/Flights (batch look-up of a key's commands)/Update small|large/Cancel/Delete key/Delete all/clock tick over keys {a,b,c} x cmds {G,T}); state = canonical recency list + accounted size, deduplicated; every transition replays the history on a fresh store and compares with a reference LRU model; non-trivial = state holding a completed entry"
		max := 3*c10size("a", "G", false) + 8 // room for three small entries; one large entry alone exceeds it
		if raw, ok := r.ReplayPayload(); ok {
			var hist []c10op
			if err := json.Unmarshal(raw, &hist); err != nil {
				panic(err)
			}
			r.Evaluations++
			c10run(r, hist, max, 0)
			return
		}
		var alphabet []c10op
		for _, k := range []string{"a", "b", "c"} {
			for _, cm := range []string{"G", "T"} {
				if k == "c" && cm == "T" {
					continue
				}
				for _, kind := range []string{"flight", "updS", "updL", "cancel"} {
					alphabet = append(alphabet, c10op{Kind: kind, Key: k, Cmd: cm})
				}
			}
			alphabet = append(alphabet, c10op{Kind: "del", Key: k}, c10op{Kind: "flights", Key: k})
		}
		alphabet = append(alphabet, c10op{Kind: "flush"}, c10op{Kind: "tick"})
		depth := vrun.Pick(r, 6, 12)
		r.Bounds["depth"] = depth
		r.Bounds["alphabet"] = len(alphabet)
		r.Bounds["max_bytes"] = max
		seen := map[string]bool{}
		frontier := [][]c10op{{}}
		seen["|0"] = true
		r.StateStr("|0")
		for d := 0; d < depth && len(frontier) > 0; d++ {
			var next [][]c10op
			for _, hist := range frontier {
				if r.TimeUp() {
					return
				}
				for _, op := range alphabet {
					h2 := append(append([]c10op{}, hist...), op)
					r.Evaluations++
					r.Transitions++
					st, ok := c10run(r, h2, max, len(h2)-1)
					if !ok {
						r.Outcome("violation")
						continue
					}
					if !seen[st] {
						seen[st] = true
						r.StateStr(st)
						if strings.Contains(st, "/false/") {
							r.NonTrivialStr(st)
						}
						next = append(next, h2)
						if r.WantSample() && strings.Count(st, ";") >= 3 {
							r.Sample(map[string]any{"history": h2, "state": st})
						}
					}
				}
			}
			r.Outcome(fmt.Sprintf("depth %d: %d new states", d+1, len(next)))
			frontier = next
		}
		r.Assume("sequential use of the store (the concurrent protocol around it is explored in C06/C09); recency is the implementation's sampled LRU: ordinary hits do not reorder within these short histories")
		_ = list.New
	})
}
