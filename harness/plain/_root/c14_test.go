//go:build verif

package rueidis

import (
	"bufio"
	"bytes"
	"encoding/json"
	"fmt"
	"strconv"
	"strings"
	"testing"

	"github.com/redis/rueidis/vshim/vrun"
)

// C14 — commands are written as RESP arrays of bulk strings that decode to the same argv.
//
// Oracle: c14parse, a strict request parser written from the protocol
// specification ("*<count>CRLF" then count x "$<len>CRLF<len bytes>CRLF",
// decimal numbers without sign or leading zeros).

// c14num parses a strict decimal at b[pos:] terminated by CRLF.
func c14num(b []byte, pos int) (v int, next int, err string) {
	start := pos
	for pos < len(b) && b[pos] >= '0' && b[pos] <= '9' {
		if v > (1<<62)/10 {
			return 0, 0, "number too large"
		}
		v = v*10 + int(b[pos]-'0')
		pos++
	}
	if pos == start {
		return 0, 0, fmt.Sprintf("no digits at offset %d", start)
	}
	if b[start] == '0' && pos-start > 1 {
		return 0, 0, fmt.Sprintf("leading zero in number at offset %d", start)
	}
	if pos+1 >= len(b) || b[pos] != '\r' || b[pos+1] != '\n' {
		return 0, 0, fmt.Sprintf("number at offset %d not terminated by CRLF", start)
	}
	return v, pos + 2, ""
}

// c14parse parses all commands in b; every byte must be consumed.
func c14parse(b []byte) (cmds [][]string, err string) {
	pos := 0
	for pos < len(b) {
		if b[pos] != '*' {
			return cmds, fmt.Sprintf("offset %d: expected '*', found %q", pos, b[pos])
		}
		n, p, e := c14num(b, pos+1)
		if e != "" {
			return cmds, "array header: " + e
		}
		pos = p
		argv := make([]string, 0, n)
		for i := 0; i < n; i++ {
			if pos >= len(b) || b[pos] != '$' {
				return cmds, fmt.Sprintf("offset %d: expected '$' for argument %d", pos, i)
			}
			l, p, e := c14num(b, pos+1)
			if e != "" {
				return cmds, "bulk header: " + e
			}
			pos = p
			if pos+l+2 > len(b) {
				return cmds, fmt.Sprintf("argument %d: declared %d bytes, only %d left", i, l, len(b)-pos)
			}
			argv = append(argv, string(b[pos:pos+l]))
			pos += l
			if b[pos] != '\r' || b[pos+1] != '\n' {
				return cmds, fmt.Sprintf("argument %d not followed by CRLF", i)
			}
			pos += 2
		}
		cmds = append(cmds, argv)
	}
	return cmds, ""
}

// c14fill makes a deterministic string of length n that is full of protocol look-alikes.
func c14fill(n int, salt int) string {
	const pat = "\r\n$3\r\nabc\r\n*1\r\n\x00\xff;0\r\n"
	var sb strings.Builder
	sb.Grow(n)
	off := salt % len(pat)
	for sb.Len() < n {
		chunk := pat[off:]
		if sb.Len()+len(chunk) > n {
			chunk = chunk[:n-sb.Len()]
		}
		sb.WriteString(chunk)
		off = 0
	}
	return sb.String()
}

type c14case struct {
	Kind string     `json:"kind"` // "num" | "cmds"
	ID   byte       `json:"id,omitempty"`
	N    int        `json:"n,omitempty"`
	Spec [][]string `json:"spec,omitempty"` // commands; arguments as spec strings (see c14arg)
	Buf  int        `json:"buf"`
	Fl   bool       `json:"flush,omitempty"` // use flushCmd for the last command
}

// c14arg expands an argument spec: "lit:<text>" or "fill:<len>:<salt>".
func c14arg(spec string) string {
	if strings.HasPrefix(spec, "fill:") {
		p := strings.Split(spec, ":")
		n, _ := strconv.Atoi(p[1])
		s, _ := strconv.Atoi(p[2])
		return c14fill(n, s)
	}
	return strings.TrimPrefix(spec, "lit:")
}

type c14env struct {
	r   *vrun.Run
	out bytes.Buffer
	ws  map[int]*bufio.Writer
}

func (e *c14env) writer(size int) *bufio.Writer {
	e.out.Reset()
	w := e.ws[size]
	if w == nil {
		if size == 0 {
			w = bufio.NewWriter(&e.out)
		} else {
			w = bufio.NewWriterSize(&e.out, size)
		}
		e.ws[size] = w
	}
	w.Reset(&e.out)
	return w
}

func c14class(n int) string {
	switch {
	case n < 10:
		return "n<10"
	case n < 1<<21:
		return "n<2^21"
	case n <= 1<<40:
		return "n<=2^40"
	default:
		return "n>2^40 (unreachable as a length)"
	}
}

func (e *c14env) num(c *c14case) {
	r := e.r
	r.Evaluations++
	w := e.writer(c.Buf)
	var err error
	p, site := vrun.Catch(func() {
		err = writeN(w, c.ID, c.N)
		w.Flush()
	})
	want := string(c.ID) + strconv.Itoa(c.N) + "\r\n"
	got := e.out.String()
	if p != nil {
		r.Violate("writeN: panic in "+site, fmt.Sprintf("writeN(%q, %d): panic %v", c.ID, c.N, p), *c)
		return
	}
	if err != nil || got != want {
		if c.N > 1<<40 {
			// a length above 2^40 cannot occur (no such string/slice fits in memory): recorded, not a violation
			r.Outcome("writeN differs from strconv for n>2^40 (unreachable)")
			r.Note(fmt.Sprintf("writeN(%q, %d) wrote %q, strconv gives %q — unreachable: no argument or argv of that size fits in memory", c.ID, c.N, got, want))
			return
		}
		r.Outcome("writeN differs")
		r.Violate("writeN: text differs from decimal representation ("+c14class(c.N)+")", fmt.Sprintf("writeN(%q, %d) wrote %q err=%v, want %q", c.ID, c.N, got, err, want), *c)
		return
	}
	r.Outcome("writeN == strconv")
}

func (e *c14env) cmds(c *c14case) {
	r := e.r
	r.Evaluations++
	want := make([][]string, len(c.Spec))
	for i, cs := range c.Spec {
		want[i] = make([]string, len(cs))
		for j, a := range cs {
			want[i][j] = c14arg(a)
		}
	}
	w := e.writer(c.Buf)
	var err error
	cps := make([][]string, len(want)) // the slices handed to the code under test (a command may be written again later)
	p, site := vrun.Catch(func() {
		for i, argv := range want {
			cp := append([]string(nil), argv...)
			cps[i] = cp
			if c.Fl && i == len(want)-1 {
				err = flushCmd(w, cp)
			} else {
				err = writeCmd(w, cp)
			}
			if err != nil {
				return
			}
		}
		err = w.Flush()
	})
	short := func() string {
		var sb strings.Builder
		for _, cs := range c.Spec {
			if len(cs) > 6 {
				fmt.Fprintf(&sb, "[%d args: %q ...] ", len(cs), cs[:3])
			} else {
				fmt.Fprintf(&sb, "%q ", cs)
			}
		}
		return sb.String()
	}
	if p != nil {
		r.Outcome("panic")
		r.Violate("writeCmd: panic in "+site, fmt.Sprintf("commands %s buf=%d: panic %v", short(), c.Buf, p), *c)
		return
	}
	if err != nil {
		r.Outcome("write error")
		r.Violate("writeCmd: error writing to a memory buffer", fmt.Sprintf("commands %s buf=%d: %v", short(), c.Buf, err), *c)
		return
	}
	got, perr := c14parse(e.out.Bytes())
	head := e.out.Bytes()
	if len(head) > 120 {
		head = head[:120]
	}
	if perr != "" {
		r.Outcome("unparsable")
		r.Violate("writeCmd: output is not a sequence of RESP arrays of bulk strings", fmt.Sprintf("commands %s buf=%d: parser: %s; output starts %q", short(), c.Buf, perr, head), *c)
		return
	}
	ok := len(got) == len(want)
	for i := 0; ok && i < len(want); i++ {
		if len(got[i]) != len(want[i]) {
			ok = false
			break
		}
		for j := range want[i] {
			if got[i][j] != want[i][j] {
				ok = false
				break
			}
		}
	}
	if !ok {
		r.Outcome("argv differs")
		r.Violate("writeCmd: decoded argv differs from the command", fmt.Sprintf("commands %s buf=%d: decoded %d commands; output starts %q", short(), c.Buf, len(got), head), *c)
		return
	}
	// the same commands are transmitted again (as after a redirect, a retry or for a pinned command): same bytes expected
	first := append([]byte(nil), e.out.Bytes()...)
	w = e.writer(c.Buf)
	p, site = vrun.Catch(func() {
		for i := range cps {
			if c.Fl && i == len(cps)-1 {
				err = flushCmd(w, cps[i])
			} else {
				err = writeCmd(w, cps[i])
			}
			if err != nil {
				return
			}
		}
		err = w.Flush()
	})
	if p != nil || err != nil {
		r.Outcome("second transmission fails")
		r.Violate("writeCmd: second transmission of the same command panics or fails", fmt.Sprintf("commands %s buf=%d: panic %v (%s) err %v", short(), c.Buf, p, site, err), *c)
		return
	}
	if !bytes.Equal(first, e.out.Bytes()) {
		r.Outcome("second transmission differs")
		second := e.out.Bytes()
		if len(second) > 120 {
			second = second[:120]
		}
		r.Violate("writeCmd: second transmission of the same command differs from the first (the command was modified while it was written)", fmt.Sprintf("commands %s buf=%d: first %d bytes, second %d bytes; second starts %q", short(), c.Buf, len(first), len(e.out.Bytes()), second), *c)
		return
	}
	r.Outcome("decoded argv == command")
}

func TestVerif_C14(t *testing.T) {
	vrun.Main(t, "C14", func(r *vrun.Run) {
		e := &c14env{r: r, ws: map[int]*bufio.Writer{}}
		if raw, ok := r.ReplayPayload(); ok {
			var c c14case
			if err := json.Unmarshal(raw, &c); err != nil {
				panic(err)
			}
			if c.Kind == "num" {
				e.num(&c)
			} else {
				e.cmds(&c)
			}
			return
		}
		maxExp := vrun.Pick(r, 6, 7)
		allN := vrun.Pick(r, 1<<21, 1<<25)
		r.Bounds["writeN_all_n_up_to"] = allN
		r.Bounds["writeN_powers_of_ten_up_to"] = "10^18 (+-1), powers of two up to 2^62 (+-1)"
		r.Bounds["arg_len_every_value_up_to"] = 1100
		r.Bounds["arg_len_powers_of_ten_up_to_exp"] = maxExp
		r.Bounds["arg_counts"] = "0..12, 99..101, 999..1001, 9999..10001"
		r.Bounds["bufio_writer_sizes"] = []int{16, 64, 4096}
		r.Rule = "writeN for every n in [0,2^21] (thorough 2^25) and 10^k-1,10^k,10^k+1 (k<=18), 2^k-1,2^k,2^k+1 (k<=62) with ids '*' and '$' against strconv; writeCmd for argument counts {0..12,99..101,999..1001,9999..10001} x 10 content schemes over {'', a, CRLF, '$3 CRLF abc', '*1 CRLF', binary, 40 bytes}; two-argument commands whose last argument has every length 0..1100 and 10^k-1,10^k,10^k+1 up to 10^max_exp filled with protocol look-alikes; all pairs and triples of 13 edge commands back to back (flushCmd for the last in half of them); bufio.Writer sizes 16, 64 and 4096; output decoded by an independent strict request parser, every byte consumed; every command sequence is then written a second time from the same slices (redirect / retry / pinned command) and must produce the same bytes. non-trivial = argument containing CR/LF or '$'/'*', length or count >= 10, or more than one command"
		r.Assume("lengths above 2^40 cannot be produced by a real command (no such string fits in memory): writeN deviations there are recorded as notes, not violations")
		r.Assume("the pipeline writer pipe._backgroundWrite calls writeCmd for every queued command in order on one bufio.Writer; back-to-back writeCmd calls on one writer model it (the goroutine machinery itself is covered by the ring/pipe properties)")

		sizes := []int{16, 64, 0}
		// ---- A. writeN
		idx := 0
		for _, id := range []byte{'*', '$'} {
			for base := 0; base <= allN; base += 1 << 14 {
				idx++
				if !r.Mine(idx) {
					continue
				}
				for n := base; n < base+1<<14 && n <= allN; n++ {
					e.num(&c14case{Kind: "num", ID: id, N: n, Buf: 0})
				}
				if base < 1<<16 {
					r.AddStates(fmt.Sprintf("num/%c/%d", id, base), 1<<14) // one state per n below 65536
				} else {
					r.AddStates(fmt.Sprintf("num/%c/%d", id, base), 16) // one state per block of 1024 values above
				}
				r.NonTrivialStr("numblock", string(id), strconv.Itoa(base))
				if r.TimeUp() {
					return
				}
			}
			idx++
			if r.Mine(idx) {
				var special []int
				p := 1
				for k := 0; k <= 18; k++ {
					special = append(special, p-1, p, p+1)
					p *= 10
				}
				for k := 1; k <= 62; k++ {
					special = append(special, 1<<k-1, 1<<k, 1<<k+1)
				}
				for _, n := range special {
					for _, sz := range sizes {
						e.num(&c14case{Kind: "num", ID: id, N: n, Buf: sz})
					}
					if r.StateStr("numsp", string(id), strconv.Itoa(n)) && n >= 10 {
						r.NonTrivialStr("numsp", string(id), strconv.Itoa(n))
					}
				}
			}
		}

		// ---- B1. argument counts x content schemes
		contents := []string{"", "a", "\r\n", "$3\r\nabc", "*1\r\n", "\x00\xff\r", "0123456789abcdefghij\r\nABCDEFGHIJKLMNOP\x00\xff", "GET"}
		var counts []int
		for c := 0; c <= 12; c++ {
			counts = append(counts, c)
		}
		counts = append(counts, 99, 100, 101, 999, 1000, 1001, 9999, 10000, 10001)
		for _, cnt := range counts {
			idx++
			if !r.Mine(idx) {
				continue
			}
			for scheme := 0; scheme < len(contents)+2; scheme++ {
				spec := make([]string, cnt)
				for i := range spec {
					switch {
					case scheme < len(contents):
						spec[i] = "lit:" + contents[scheme]
					case scheme == len(contents):
						spec[i] = "lit:" + contents[i%len(contents)]
					default:
						spec[i] = "fill:" + strconv.Itoa(i%23) + ":" + strconv.Itoa(i)
					}
				}
				for _, sz := range sizes {
					c := &c14case{Kind: "cmds", Spec: [][]string{spec}, Buf: sz, Fl: scheme%2 == 1}
					e.cmds(c)
				}
				r.StateStr("cnt", strconv.Itoa(cnt), strconv.Itoa(scheme))
				r.NonTrivialStr("cnt", strconv.Itoa(cnt), strconv.Itoa(scheme))
			}
			if r.TimeUp() {
				return
			}
		}

		// ---- B2. every argument length
		var lens []int
		for l := 0; l <= 1100; l++ {
			lens = append(lens, l)
		}
		p := 10000
		for k := 4; k <= maxExp; k++ {
			lens = append(lens, p-1, p, p+1)
			p *= 10
		}
		lens = append(lens, 4095, 4096, 4097, 65535, 65536, 65537)
		for _, l := range lens {
			idx++
			if !r.Mine(idx) {
				continue
			}
			for _, sz := range sizes {
				if l > 100000 && sz == 64 {
					continue
				}
				e.cmds(&c14case{Kind: "cmds", Spec: [][]string{{"lit:SET", "fill:" + strconv.Itoa(l) + ":" + strconv.Itoa(l)}}, Buf: sz})
				if l <= 1100 {
					e.cmds(&c14case{Kind: "cmds", Spec: [][]string{{"fill:" + strconv.Itoa(l) + ":1", "lit:k", "fill:" + strconv.Itoa(l) + ":7"}, {"lit:PING"}}, Buf: sz, Fl: true})
				}
			}
			r.StateStr("len", strconv.Itoa(l))
			if l >= 10 {
				r.NonTrivialStr("len", strconv.Itoa(l))
			}
			if r.TimeUp() {
				return
			}
		}

		// ---- C. back to back commands
		edge := [][]string{
			{}, {"lit:"}, {"lit:", "lit:"}, {"lit:PING"}, {"lit:\r\n"}, {"lit:$3\r\nabc"}, {"lit:*1\r\n$4\r\nPING\r\n"},
			{"lit:SET", "lit:k", "lit:\x00\xff\r\n"}, {"lit:GET", "fill:16:0"}, {"lit:GET", "fill:15:3"}, {"lit:a", "lit:b", "lit:c", "lit:d", "lit:e", "lit:f", "lit:g", "lit:h", "lit:i", "lit:j"},
			{"fill:100:5"}, {"lit:\n", "lit:\r"},
		}
		for a := range edge {
			idx++
			if !r.Mine(idx) {
				continue
			}
			for b := range edge {
				for _, sz := range sizes {
					e.cmds(&c14case{Kind: "cmds", Spec: [][]string{edge[a], edge[b]}, Buf: sz, Fl: (a+b)%2 == 0})
				}
				r.StateStr("pair", strconv.Itoa(a), strconv.Itoa(b))
				r.NonTrivialStr("pair", strconv.Itoa(a), strconv.Itoa(b))
				for c := range edge {
					for _, sz := range sizes {
						e.cmds(&c14case{Kind: "cmds", Spec: [][]string{edge[a], edge[b], edge[c]}, Buf: sz, Fl: (a+b+c)%2 == 0})
					}
					r.StateStr("triple", strconv.Itoa(a), strconv.Itoa(b), strconv.Itoa(c))
					r.NonTrivialStr("triple", strconv.Itoa(a), strconv.Itoa(b), strconv.Itoa(c))
				}
			}
		}
		r.Sample(map[string]any{"cmd": []string{"SET", "k", "\x00\xff\r\n"}, "wire": "*3\r\n$3\r\nSET\r\n$1\r\nk\r\n$4\r\n\x00\xff\r\n\r\n"})
	})
}
