//go:build verif

package rueidis

import (
	"encoding/json"
	"errors"
	"fmt"
	"strings"
	"testing"

	"github.com/redis/rueidis/vshim/vrun"
)

// C46: Scanner.Iter / Iter2 iterate every element of every page in order.
//
// A "script" is a list of pages. Page i is what the i-th call of the scan
// closure returns, whatever cursor it is called with (the cursor it was called
// with is recorded). After the script is exhausted an implicit terminator page
// (no elements, cursor 0) is served and counted as an overrun call.

type c46page struct {
	N      int    `json:"n"`      // number of elements
	Cursor uint64 `json:"cursor"` // returned cursor
	Err    bool   `json:"err"`    // page fails (elements and cursor are still filled in: they must be ignored)
}

type c46case struct {
	Pages []c46page `json:"pages"`
	Iter2 bool      `json:"iter2"`
	Stop  int       `json:"stop"` // consumer stops at the Stop-th yield (1-based); 0 = never stops
	Mode  int       `json:"mode"` // 0 = iterator function called directly with a yield func, 1 = range loop with break
}

type c46obs struct {
	yielded    []string
	cursors    []uint64
	err        error
	afterStop  int // yield calls that happened after yield returned false (mode 0 only)
	scanCalls  int
	overruns   int
	panicked   any
	panicSite  string
	lateScan   int // scan calls after the consumer stopped
	stoppedAt  int
	calledErrs []error
}

func c46elem(p, e int) string { return fmt.Sprintf("p%de%d", p, e) }

func c46pageErr(p int) error { return c46errs[p] }

var c46errs = []error{errors.New("page0 failed"), errors.New("page1 failed"), errors.New("page2 failed"), errors.New("page3 failed"), errors.New("page4 failed")}

// c46expect is the reference: a plain walk over the script.
func c46expect(c c46case) (yielded []string, cursors []uint64, err error) {
	cur := uint64(0)
	count := 0
	for i := 0; ; i++ {
		cursors = append(cursors, cur)
		var pg c46page
		if i < len(c.Pages) {
			pg = c.Pages[i]
		} // else: implicit terminator, zero page
		if pg.Err {
			return yielded, cursors, c46pageErr(i)
		}
		if c.Iter2 {
			for e := 0; e+1 < pg.N; e += 2 {
				yielded = append(yielded, c46elem(i, e)+"="+c46elem(i, e+1))
				count++
				if count == c.Stop {
					return yielded, cursors, nil
				}
			}
		} else {
			for e := 0; e < pg.N; e++ {
				yielded = append(yielded, c46elem(i, e))
				count++
				if count == c.Stop {
					return yielded, cursors, nil
				}
			}
		}
		if pg.Cursor == 0 {
			return yielded, cursors, nil
		}
		cur = pg.Cursor
	}
}

func c46run(c c46case) (o c46obs) {
	stopped := false
	next := func(cursor uint64) (ScanEntry, error) {
		i := o.scanCalls
		o.scanCalls++
		o.cursors = append(o.cursors, cursor)
		if stopped {
			o.lateScan++
		}
		if o.scanCalls > 16 { // safety net against a runaway iterator
			return ScanEntry{}, errors.New("c46 runaway")
		}
		if i >= len(c.Pages) {
			o.overruns++
			return ScanEntry{}, nil
		}
		pg := c.Pages[i]
		els := make([]string, pg.N)
		for e := range els {
			els[e] = c46elem(i, e)
		}
		if pg.Err {
			return ScanEntry{Elements: els, Cursor: pg.Cursor}, c46pageErr(i)
		}
		return ScanEntry{Elements: els, Cursor: pg.Cursor}, nil
	}
	s := NewScanner(next)
	o.panicked, o.panicSite = vrun.Catch(func() {
		count := 0
		switch {
		case c.Mode == 0 && !c.Iter2:
			s.Iter()(func(v string) bool {
				if stopped {
					o.afterStop++
					return false
				}
				o.yielded = append(o.yielded, v)
				count++
				if count == c.Stop {
					stopped = true
					return false
				}
				return true
			})
		case c.Mode == 0 && c.Iter2:
			s.Iter2()(func(k, v string) bool {
				if stopped {
					o.afterStop++
					return false
				}
				o.yielded = append(o.yielded, k+"="+v)
				count++
				if count == c.Stop {
					stopped = true
					return false
				}
				return true
			})
		case !c.Iter2:
			for v := range s.Iter() {
				o.yielded = append(o.yielded, v)
				count++
				if count == c.Stop {
					stopped = true
					break
				}
			}
		default:
			for k, v := range s.Iter2() {
				o.yielded = append(o.yielded, k+"="+v)
				count++
				if count == c.Stop {
					stopped = true
					break
				}
			}
		}
	})
	o.err = s.Err()
	return o
}

func c46cursorsEq(a, b []uint64) bool {
	if len(a) != len(b) {
		return false
	}
	for i := range a {
		if a[i] != b[i] {
			return false
		}
	}
	return true
}

func c46check(r *vrun.Run, c c46case) {
	r.Evaluations++
	wantY, wantC, wantErr := c46expect(c)
	o := c46run(c)
	name := "Iter"
	if c.Iter2 {
		name = "Iter2"
	}
	mode := "direct-yield"
	if c.Mode == 1 {
		mode = "range-break"
	}
	desc := func() string {
		b, _ := json.Marshal(c)
		return fmt.Sprintf("case %s (%s, %s)", b, name, mode)
	}
	switch {
	case o.panicked != nil:
		r.Outcome("panic")
		r.Violate(name+": panic in "+o.panicSite, fmt.Sprintf("%s: panic %v", desc(), o.panicked), c)
		return
	case wantErr != nil:
		r.Outcome("page error")
	case c.Stop > 0 && len(wantY) == c.Stop:
		r.Outcome("consumer stopped")
	default:
		r.Outcome("ran to cursor 0")
	}
	if strings.Join(o.yielded, ",") != strings.Join(wantY, ",") {
		r.Violate(name+": yielded sequence differs from page concatenation", fmt.Sprintf("%s: yielded %v want %v", desc(), o.yielded, wantY), c)
	}
	if !c46cursorsEq(o.cursors, wantC) {
		sig := name + ": cursors requested differ"
		if len(o.cursors) > len(wantC) {
			sig = name + ": extra scan call after stop/error/cursor 0"
		} else if len(o.cursors) < len(wantC) {
			sig = name + ": stops before cursor 0"
		}
		r.Violate(sig, fmt.Sprintf("%s: scan called with cursors %v want %v", desc(), o.cursors, wantC), c)
	}
	if o.err != wantErr {
		r.Violate(name+": Err() differs from the page error", fmt.Sprintf("%s: Err()=%v want %v", desc(), o.err, wantErr), c)
	}
	if o.afterStop > 0 {
		r.Violate(name+": yield called again after it returned false", fmt.Sprintf("%s: %d further yield calls", desc(), o.afterStop), c)
	}
	if o.lateScan > 0 {
		r.Violate(name+": scan function called after the consumer stopped", fmt.Sprintf("%s: %d scan calls after stop", desc(), o.lateScan), c)
	}
}

func TestVerif_C46(t *testing.T) {
	vrun.Main(t, "C46", func(r *vrun.Run) {
		r.Rule = "every script of <=3 (thorough 4) pages, each page with 0..3 (thorough 0..4) distinct elements, returned cursor in {0,5,7} (so equal non-zero cursors repeat), optionally failing; an implicit empty cursor-0 page follows the script; for Iter and Iter2, consumer stopping at every possible yield count (and never), both by returning false from a hand-written yield and by breaking a range loop. non-trivial = script with >=2 pages actually requested, or an error page, or a consumer stop"
		if raw, ok := r.ReplayPayload(); ok {
			var c c46case
			if err := json.Unmarshal(raw, &c); err != nil {
				panic(err)
			}
			c46check(r, c)
			return
		}
		maxPages := vrun.Pick(r, 3, 4)
		maxElems := vrun.Pick(r, 3, 4)
		cursorsAlpha := []uint64{0, 5, 7}
		r.Bounds["max_pages"] = maxPages
		r.Bounds["max_elements_per_page"] = maxElems
		r.Bounds["cursor_alphabet"] = cursorsAlpha
		var pageAlpha []c46page
		for n := 0; n <= maxElems; n++ {
			for _, cu := range cursorsAlpha {
				pageAlpha = append(pageAlpha, c46page{N: n, Cursor: cu}, c46page{N: n, Cursor: cu, Err: true})
			}
		}
		item := 0
		var rec func(pages []c46page)
		rec = func(pages []c46page) {
			if r.TimeUp() {
				return
			}
			item++
			if r.Mine(item) {
				total := 0
				for _, p := range pages {
					total += p.N
				}
				key, _ := json.Marshal(pages)
				for _, it2 := range []bool{false, true} {
					for stop := 0; stop <= total+1; stop++ {
						if it2 && stop > total/2+1 {
							break
						}
						for mode := 0; mode < 2; mode++ {
							c := c46case{Pages: pages, Iter2: it2, Stop: stop, Mode: mode}
							c46check(r, c)
							_, wc, we := c46expect(c)
							if mode == 0 && (stop <= 1 || r.Quick()) {
								// thorough tier: one state per (script, iterator, stops-or-not) to bound memory
								ks := fmt.Sprintf("%s|%v|%d", key, it2, stop)
								r.StateStr(ks)
								if len(wc) >= 2 || we != nil || stop > 0 {
									r.NonTrivialStr(ks)
								}
							}
							if len(wc) == 3 && we != nil && r.WantSample() {
								y, _, _ := c46expect(c)
								r.Sample(map[string]any{"case": c, "expect_yield": y, "expect_cursors": wc, "expect_err": we.Error()})
							}
						}
					}
				}
			}
			if len(pages) == maxPages {
				return
			}
			for _, p := range pageAlpha {
				np := append(append([]c46page{}, pages...), p)
				rec(np)
			}
		}
		rec(nil)
		r.Assume("Iter2 pairs elements inside one page (HSCAN/ZSCAN pages are field/value lists); a trailing odd element of a page is dropped, not carried into the next page")
		r.Assume("elements and cursor returned together with a non-nil error are ignored")
		r.Assume("a Scanner is iterated once; re-iteration of the same Scanner is not covered")
	})
}
