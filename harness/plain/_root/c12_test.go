//go:build verif

package rueidis

import (
	"bufio"
	"bytes"
	"encoding/json"
	"errors"
	"fmt"
	"io"
	"math"
	"strconv"
	"testing"

	"github.com/redis/rueidis/vshim/vrun"
)

// C12 — RESP decoding reproduces every well-formed reply.
//
// The generator builds value trees (c12node), an encoder written from the
// RESP2/RESP3 protocol specification turns them into bytes, the REAL
// readNextMessage / streamTo decode them through bufio readers fed by a reader
// that cuts the byte stream at chosen positions, and the decoded RedisMessage
// tree is compared with the generator's tree.

type c12node struct {
	Typ     byte       `json:"t"`
	Str     []byte     `json:"s,omitempty"`  // payload of string-like types (+ - , ( $ ! =)
	Num     int64      `json:"n,omitempty"`  // ':' value, '#' 0/1
	Kids    []*c12node `json:"k,omitempty"`  // aggregate children (maps: key,value,key,value...)
	HasAttr bool       `json:"ha,omitempty"` // an attribute frame precedes the node
	Attr    []*c12node `json:"a,omitempty"`  // attribute map entries (key,value,...)
	// Enc selects the wire form:
	//  '$'      : 0 = length prefixed; k>=1 = RESP3 streamed string whose first chunk has min(k,len) bytes, rest in a second chunk
	//  '* ~ %'  : 0 = counted; 1 = streamed aggregate ("?" ... ".")
	//  '_'      : 0 = "_\r\n"; 1 = "$-1\r\n"; 2 = "*-1\r\n"
	Enc int `json:"e,omitempty"`
}

func c12isAgg(t byte) bool { return t == '*' || t == '~' || t == '%' || t == '>' }

// c12encode: RESP encoder written from the protocol specification.
// Returns the longest "number line" (bytes after the type byte up to and
// including LF) so that callers know which bufio size can hold it.
func c12encode(b *bytes.Buffer, n *c12node, maxLine *int) {
	line := func(s string) {
		if len(s)+2 > *maxLine {
			*maxLine = len(s) + 2
		}
		b.WriteString(s)
		b.WriteString("\r\n")
	}
	if n.HasAttr {
		b.WriteByte('|')
		line(strconv.Itoa(len(n.Attr) / 2))
		for _, k := range n.Attr {
			c12encode(b, k, maxLine)
		}
	}
	switch n.Typ {
	case '+', '-', ',', '(':
		b.WriteByte(n.Typ)
		b.Write(n.Str)
		b.WriteString("\r\n")
	case ':':
		b.WriteByte(':')
		line(strconv.FormatInt(n.Num, 10))
	case '#':
		if n.Num != 0 {
			b.WriteString("#t\r\n")
		} else {
			b.WriteString("#f\r\n")
		}
	case '_':
		switch n.Enc {
		case 0:
			b.WriteString("_\r\n")
		case 1:
			b.WriteString("$")
			line("-1")
		default:
			b.WriteString("*")
			line("-1")
		}
	case '$', '!', '=':
		if n.Enc == 0 {
			b.WriteByte(n.Typ)
			line(strconv.Itoa(len(n.Str)))
			b.Write(n.Str)
			b.WriteString("\r\n")
			return
		}
		b.WriteByte(n.Typ)
		line("?")
		k := n.Enc
		if k > len(n.Str) {
			k = len(n.Str)
		}
		if k > 0 {
			b.WriteByte(';')
			line(strconv.Itoa(k))
			b.Write(n.Str[:k])
			b.WriteString("\r\n")
		}
		if k < len(n.Str) {
			b.WriteByte(';')
			line(strconv.Itoa(len(n.Str) - k))
			b.Write(n.Str[k:])
			b.WriteString("\r\n")
		}
		b.WriteByte(';')
		line("0")
	case '*', '~', '%', '>':
		b.WriteByte(n.Typ)
		if n.Enc == 1 {
			line("?")
		} else if n.Typ == '%' {
			line(strconv.Itoa(len(n.Kids) / 2))
		} else {
			line(strconv.Itoa(len(n.Kids)))
		}
		for _, k := range n.Kids {
			c12encode(b, k, maxLine)
		}
		if n.Enc == 1 {
			b.WriteString(".\r\n")
		}
	default:
		panic("c12encode: bad type")
	}
}

// c12compare returns "" when the decoded message equals the generated tree,
// otherwise a short class (for the signature) and a detail text.
func c12compare(n *c12node, m *RedisMessage, path string) (class, detail string) {
	if n.HasAttr {
		if m.attrs == nil {
			return "attribute lost", path + ": attribute frame not attached to the value"
		}
		if m.attrs.typ != '|' {
			return "attribute wrong type", fmt.Sprintf("%s: attrs typ %q", path, m.attrs.typ)
		}
		av := m.attrs.values()
		if len(av) != len(n.Attr) {
			return "attribute wrong size", fmt.Sprintf("%s: attrs has %d elements, want %d", path, len(av), len(n.Attr))
		}
		for i := range av {
			if c, d := c12compare(n.Attr[i], &av[i], path+"|"+strconv.Itoa(i)); c != "" {
				return c, d
			}
		}
	} else if m.attrs != nil {
		return "spurious attribute", path + ": attrs set but no attribute frame was sent"
	}
	if m.typ != n.Typ {
		return fmt.Sprintf("type %q decoded as %q", n.Typ, m.typ), fmt.Sprintf("%s: typ %q want %q", path, m.typ, n.Typ)
	}
	switch n.Typ {
	case '+', '-', ',', '(', '$', '!', '=':
		if got := m.string(); got != string(n.Str) {
			return fmt.Sprintf("payload of %q differs", n.Typ), fmt.Sprintf("%s: payload %q want %q", path, got, n.Str)
		}
		if m.array != nil {
			return "string with children", path
		}
		if n.Typ == ',' {
			want, _ := strconv.ParseFloat(string(n.Str), 64)
			got, err := m.ToFloat64()
			if err != nil || !(got == want || (math.IsNaN(got) && math.IsNaN(want))) || math.Signbit(got) != math.Signbit(want) {
				return "double value differs", fmt.Sprintf("%s: ToFloat64=%v,%v want %v", path, got, err, want)
			}
		}
		if n.Typ == '+' || n.Typ == '$' {
			if got, err := m.ToString(); err != nil || got != string(n.Str) {
				return "ToString differs", fmt.Sprintf("%s: ToString=%q,%v want %q", path, got, err, n.Str)
			}
		}
	case ':':
		if m.intlen != n.Num {
			return "integer value differs", fmt.Sprintf("%s: %d want %d", path, m.intlen, n.Num)
		}
		if got, err := m.ToInt64(); err != nil || got != n.Num {
			return "ToInt64 differs", fmt.Sprintf("%s: ToInt64=%d,%v want %d", path, got, err, n.Num)
		}
	case '#':
		if got, err := m.ToBool(); err != nil || got != (n.Num != 0) {
			return "bool value differs", fmt.Sprintf("%s: ToBool=%v,%v want %v", path, got, err, n.Num != 0)
		}
	case '_':
		if !m.IsNil() || m.string() != "" || len(m.values()) != 0 {
			return "null not null", path
		}
	default:
		vs := m.values()
		if len(vs) != len(n.Kids) {
			return fmt.Sprintf("aggregate %q wrong length", n.Typ), fmt.Sprintf("%s: %d children want %d", path, len(vs), len(n.Kids))
		}
		if m.bytes != nil {
			return "aggregate with bytes", path
		}
		for i := range vs {
			if c, d := c12compare(n.Kids[i], &vs[i], path+"/"+strconv.Itoa(i)); c != "" {
				return c, d
			}
		}
	}
	return "", ""
}

// c12rd delivers data cut at the given positions (or one byte per Read).
type c12rd struct {
	data  []byte
	pos   int
	cuts  [2]int
	ncuts int
	every bool
}

func (r *c12rd) Read(p []byte) (int, error) {
	if r.pos >= len(r.data) {
		return 0, io.EOF
	}
	end := len(r.data)
	if r.every {
		end = r.pos + 1
	} else {
		for i := 0; i < r.ncuts; i++ {
			if r.cuts[i] > r.pos {
				end = r.cuts[i]
				break
			}
		}
	}
	n := copy(p, r.data[r.pos:end])
	r.pos += n
	return n, nil
}

// c12plainW is an io.Writer without ReaderFrom (io.Copy takes the generic path).
type c12plainW struct{ b []byte }

func (w *c12plainW) Write(p []byte) (int, error) { w.b = append(w.b, p...); return len(p), nil }

const c12next = "+NEXT\r\n"

type c12case struct {
	Kind   string   `json:"kind"` // "decode" | "stream"
	Tree   *c12node `json:"tree"`
	Cuts   []int    `json:"cuts"` // nil + Every=false: no cut
	Every  bool     `json:"every"`
	Buf    int      `json:"buf"`
	Pushes int      `json:"pushes,omitempty"`
	PlainW bool     `json:"plainw,omitempty"`
	FailW  int      `json:"failw,omitempty"` // k+1: the writer accepts k bytes and then fails; 0: it never fails
	Big    *c12big  `json:"big,omitempty"`
}

var errC12Writer = errors.New("c12: writer failed")

// c12failW accepts left more bytes and then fails (short write + error, like a full disk or a closed pipe).
type c12failW struct {
	b    []byte
	left int
}

func (w *c12failW) Write(p []byte) (int, error) {
	if len(p) > w.left {
		n := w.left
		w.b = append(w.b, p[:n]...)
		w.left = 0
		return n, errC12Writer
	}
	w.b = append(w.b, p...)
	w.left -= len(p)
	return len(p), nil
}

// c12snap copies a case so that the stored replay payload is not mutated later.
func c12snap(c *c12case) *c12case {
	d := *c
	d.Cuts = append([]int(nil), c.Cuts...)
	return &d
}

type c12env struct {
	r    *vrun.Run
	brs  map[int]*bufio.Reader
	rd   c12rd
	enc  bytes.Buffer
	wbuf bytes.Buffer

	attrNoted bool
}

func (e *c12env) reader(size int, data []byte, cuts []int, every bool) *bufio.Reader {
	e.rd = c12rd{data: data, every: every}
	for i, c := range cuts {
		e.rd.cuts[i] = c
		e.rd.ncuts = i + 1
	}
	br := e.brs[size]
	if br == nil {
		br = bufio.NewReaderSize(&e.rd, size)
		e.brs[size] = br
	}
	br.Reset(&e.rd)
	return br
}

func c12rootDesc(n *c12node) string {
	s := fmt.Sprintf("root %q", n.Typ)
	if n.Enc != 0 {
		switch n.Typ {
		case '$':
			s += " streamed"
		case '_':
			s += " RESP2-null"
		default:
			s += " streamed"
		}
	}
	return s
}

// decodeOne runs the real decoder on data (tree encoding + NEXT frame).
func (e *c12env) decodeOne(c *c12case, data []byte) {
	r := e.r
	r.Evaluations++
	br := e.reader(c.Buf, data, c.Cuts, c.Every)
	var m, nx RedisMessage
	var err, err2, err3 error
	p, site := vrun.Catch(func() {
		m, err = readNextMessage(br)
		if err == nil {
			nx, err2 = readNextMessage(br)
			if err2 == nil {
				_, err3 = readNextMessage(br)
			}
		}
	})
	switch {
	case p != nil:
		r.Outcome("panic")
		r.Violate("readNextMessage: panic in "+site+" on well-formed reply", fmt.Sprintf("input %q cuts %v every=%v buf=%d: panic %v", data, c.Cuts, c.Every, c.Buf, p), c12snap(c))
	case err != nil:
		r.Outcome("decode error")
		r.Violate(fmt.Sprintf("readNextMessage: well-formed reply rejected (%s)", c12rootDesc(c.Tree)), fmt.Sprintf("input %q cuts %v every=%v buf=%d: error %v", data, c.Cuts, c.Every, c.Buf, err), c12snap(c))
	default:
		if cl, d := c12compare(c.Tree, &m, ""); cl != "" {
			r.Outcome("value mismatch")
			r.Violate("readNextMessage: "+cl, fmt.Sprintf("input %q cuts %v every=%v buf=%d: %s; decoded %s", data, c.Cuts, c.Every, c.Buf, d, m.String()), c12snap(c))
			return
		}
		if err2 != nil || nx.typ != '+' || nx.string() != "NEXT" || nx.attrs != nil || err3 != io.EOF {
			r.Outcome("frame boundary lost")
			r.Violate("readNextMessage: does not consume exactly one frame", fmt.Sprintf("input %q cuts %v every=%v buf=%d: following frame decoded as %s err=%v, then err=%v (want +NEXT then EOF)", data, c.Cuts, c.Every, c.Buf, nx.String(), err2, err3), c12snap(c))
			return
		}
		r.Outcome("decoded == generated")
	}
}

// streamOne runs the real streamTo on pushes + tree + NEXT.
func (e *c12env) streamOne(c *c12case, data []byte) {
	r := e.r
	r.Evaluations++
	br := e.reader(c.Buf, data, c.Cuts, c.Every)
	var w io.Writer
	pw := &c12plainW{}
	e.wbuf.Reset()
	fw := &c12failW{left: c.FailW - 1}
	if c.FailW > 0 {
		w = fw
	} else if c.PlainW {
		w = pw
	} else {
		w = &e.wbuf
	}
	var n int64
	var err, err2, err3 error
	var clean bool
	var nx RedisMessage
	p, site := vrun.Catch(func() {
		n, err, clean = streamTo(br, w)
		if clean {
			nx, err2 = readNextMessage(br)
			if err2 == nil {
				_, err3 = readNextMessage(br)
			}
		}
	})
	got := e.wbuf.Bytes()
	if c.FailW > 0 {
		got = fw.b
	} else if c.PlainW {
		got = pw.b
	}
	t := c.Tree
	ctx := func() string {
		return fmt.Sprintf("input %q cuts %v every=%v buf=%d plainW=%v failW=%d: n=%d err=%v clean=%v written=%q", data, c.Cuts, c.Every, c.Buf, c.PlainW, c.FailW, n, err, clean, got)
	}
	if p != nil {
		r.Outcome("panic")
		r.Violate("streamTo: panic in "+site+" on well-formed reply", ctx()+fmt.Sprintf(" panic=%v", p), c12snap(c))
		return
	}
	if c.FailW > 0 && err == errC12Writer {
		// a failing writer: the stream may be given up (not clean), but a stream reported clean must leave the reader
		// at the next frame, and what was written must be the first bytes of the payload
		var payload []byte
		switch t.Typ {
		case '$', '=', '+', ',', '(':
			payload = t.Str
		case ':':
			payload = []byte(strconv.FormatInt(t.Num, 10))
		default:
			payload = got
		}
		if !bytes.HasPrefix(payload, got) || n != int64(len(got)) {
			r.Outcome("failing writer: written bytes are not a prefix")
			r.Violate(fmt.Sprintf("streamTo: bytes accepted by a failing writer are not a prefix of the payload (%s)", c12rootDesc(t)), ctx(), c12snap(c))
			return
		}
		if clean && (err2 != nil || nx.typ != '+' || nx.string() != "NEXT" || err3 != io.EOF) {
			r.Outcome("failing writer: frame boundary lost")
			r.Violate(fmt.Sprintf("streamTo: reported clean after a writer failure but the reader is not at the next frame (%s)", c12rootDesc(t)), ctx()+fmt.Sprintf("; following frame %s err=%v then err=%v", nx.String(), err2, err3), c12snap(c))
			return
		}
		if clean {
			r.Outcome("failing writer: rest of the reply skipped, stream clean")
		} else {
			r.Outcome("failing writer: stream given up (not clean)")
		}
		return
	}
	if !clean {
		r.Outcome("stream not clean")
		r.Violate(fmt.Sprintf("streamTo: well-formed reply leaves connection unclean (%s)", c12rootDesc(t)), ctx(), c12snap(c))
		return
	}
	if err2 != nil || nx.typ != '+' || nx.string() != "NEXT" || err3 != io.EOF {
		r.Outcome("frame boundary lost")
		r.Violate(fmt.Sprintf("streamTo: reader not left at the next frame (%s)", c12rootDesc(t)), ctx()+fmt.Sprintf("; following frame %s err=%v then err=%v", nx.String(), err2, err3), c12snap(c))
		return
	}
	if t.HasAttr {
		// weak reading (see Assume): only frame consumption is required here.
		if err != nil {
			r.Outcome("stream: attribute-prefixed reply rejected (frame consumed)")
			if !e.attrNoted {
				e.attrNoted = true
				r.Note("finding candidate (not counted as violation, see assumptions): " + ctx() + " — streamTo rejects a blob string/null reply that is preceded by an attribute frame although readNextMessage decodes the same bytes to the string (simple strings and integers behind an attribute ARE streamed)")
			}
		} else {
			r.Outcome("stream: attribute-prefixed reply written")
		}
		return
	}
	var want []byte
	wantErr := "" // "", "nil", "rediserr", "unsupported"
	switch t.Typ {
	case '$', '=', '+', ',', '(':
		want = t.Str
	case ':':
		want = []byte(strconv.FormatInt(t.Num, 10))
	case '#':
		want = got // content for booleans is not part of the property; only consumption is checked
	case '_':
		wantErr = "nil"
	case '-', '!':
		wantErr = "rediserr"
	default:
		wantErr = "unsupported"
	}
	switch wantErr {
	case "":
		if err != nil || !bytes.Equal(got, want) || n != int64(len(want)) {
			r.Outcome("stream payload differs")
			r.Violate(fmt.Sprintf("streamTo: written bytes differ from the reply payload (%s)", c12rootDesc(t)), ctx()+fmt.Sprintf("; want %q", want), c12snap(c))
			return
		}
		r.Outcome("stream wrote payload")
	case "nil":
		if err != Nil || n != 0 || len(got) != 0 {
			r.Outcome("stream null differs")
			r.Violate(fmt.Sprintf("streamTo: null reply not reported as Nil (%s)", c12rootDesc(t)), ctx(), c12snap(c))
			return
		}
		r.Outcome("stream nil")
	case "rediserr":
		var re *RedisError
		if !errors.As(err, &re) || re.Error() != string(t.Str) || len(got) != 0 || n != 0 {
			r.Outcome("stream error differs")
			r.Violate(fmt.Sprintf("streamTo: error reply not reported as RedisError (%s)", c12rootDesc(t)), ctx(), c12snap(c))
			return
		}
		r.Outcome("stream redis error")
	default:
		if err == nil || len(got) != 0 {
			r.Outcome("stream aggregate accepted")
			r.Violate("streamTo: aggregate reply written to the stream", ctx(), c12snap(c))
			return
		}
		r.Outcome("stream aggregate rejected, frame consumed")
	}
}

func c12leaf(t byte, s string) *c12node { return &c12node{Typ: t, Str: []byte(s)} }

var c12long = "0123456789abcdefghij\r\nABCDEFGHIJKLMNOP\x00\xff" // 40 bytes, > 16 and > 32

// c12topLeaves: the full scalar alphabet (used for single node replies and streamTo).
func c12topLeaves(thorough bool) []*c12node {
	var out []*c12node
	simple := []string{"", "a", "OK", "OKx", "O", "\x00\xff", "0123456789abcdefghijABCDEFGHIJKLMNOP\x00\xff!?"}
	for _, s := range simple {
		out = append(out, c12leaf('+', s), c12leaf('-', s))
	}
	out = append(out, c12leaf('-', "ERR unknown command"), c12leaf('-', "MOVED 1 a:1"))
	for _, v := range []int64{0, 1, -1, 7, 10, 1234567890123, -123456789012, math.MaxInt64, math.MinInt64, math.MaxInt64 - 1, math.MinInt64 + 1} {
		out = append(out, &c12node{Typ: ':', Num: v})
	}
	blobs := []string{"", "a", "OK", "OKx", "\r\n", "a\r\nb", "\x00\xff", c12long, "$3\r\nabc\r\n", ";0\r\n", ".\r\n"}
	for _, s := range blobs {
		out = append(out, c12leaf('$', s), c12leaf('!', s), c12leaf('=', "txt:"+s))
		// every 2-way chunking (first chunk 1..len; len = single chunk); empty: zero chunks
		if len(s) == 0 {
			out = append(out, &c12node{Typ: '$', Enc: 1})
		}
		for k := 1; k <= len(s); k++ {
			out = append(out, &c12node{Typ: '$', Str: []byte(s), Enc: k})
		}
	}
	out = append(out, &c12node{Typ: '_'}, &c12node{Typ: '_', Enc: 1}, &c12node{Typ: '_', Enc: 2})
	out = append(out, &c12node{Typ: '#', Num: 1}, &c12node{Typ: '#', Num: 0})
	for _, s := range []string{"1.5", "0", "-0", "inf", "-inf", "nan", "1e-5", "-1.7976931348623157e+308", "10"} {
		out = append(out, c12leaf(',', s))
	}
	for _, s := range []string{"0", "-1", "3492890328409238509324850943850943825024385"} {
		out = append(out, c12leaf('(', s))
	}
	return out
}

// c12innerLeaves: the reduced alphabet used below aggregates (chosen so that
// every reader function and every special path — OK shortcut, CRLF in payload,
// streamed string, RESP2 nulls — occurs as a child).
func c12innerLeaves(thorough bool) []*c12node {
	out := []*c12node{
		c12leaf('+', "OK"), c12leaf('+', ""), c12leaf('-', "ERR x"),
		{Typ: ':', Num: -1},
		c12leaf('$', ""), c12leaf('$', "a\r\nb"), {Typ: '$', Str: []byte("a\r\nb"), Enc: 2},
		{Typ: '_'}, {Typ: '_', Enc: 1}, {Typ: '_', Enc: 2},
		{Typ: '#', Num: 1}, c12leaf(',', "1.5"), c12leaf('!', "E\r\n"), c12leaf('=', "txt:a"),
	}
	if thorough {
		out = append(out, c12leaf('+', "OKx"), c12leaf('(', "-1"), &c12node{Typ: ':', Num: math.MinInt64}, c12leaf('$', c12long), &c12node{Typ: '$', Enc: 1})
	}
	return out
}

// c12gen builds all trees with exactly `size` nodes (memoised); attributes cost one node.
type c12gen struct {
	leaves []*c12node
	memo   map[int][]*c12node
	fmemo  map[int][][]*c12node
	attr   []*c12node
}

func (g *c12gen) trees(size int) []*c12node {
	if t, ok := g.memo[size]; ok {
		return t
	}
	var out []*c12node
	if size == 1 {
		out = append(out, g.leaves...)
		// empty aggregates are single nodes as well
		for _, t := range []byte{'*', '~', '%'} {
			out = append(out, &c12node{Typ: t}, &c12node{Typ: t, Enc: 1})
		}
	} else {
		for _, f := range g.forests(size - 1) {
			for _, t := range []byte{'*', '~', '%'} {
				if t == '%' && len(f)%2 != 0 {
					continue
				}
				out = append(out, &c12node{Typ: t, Kids: f}, &c12node{Typ: t, Kids: f, Enc: 1})
			}
		}
		// attribute in front of a smaller tree (not in front of RESP2 nulls: RESP2 has no attributes)
		for _, t := range g.trees(size - 1) {
			if t.HasAttr || (t.Typ == '_' && t.Enc != 0) {
				continue
			}
			c := *t
			c.HasAttr, c.Attr = true, g.attr
			out = append(out, &c)
		}
	}
	g.memo[size] = out
	return out
}

// forests: all non-empty ordered lists of trees with `size` nodes in total.
func (g *c12gen) forests(size int) [][]*c12node {
	if f, ok := g.fmemo[size]; ok {
		return f
	}
	var out [][]*c12node
	for s := 1; s <= size; s++ {
		for _, t := range g.trees(s) {
			if s == size {
				out = append(out, []*c12node{t})
				continue
			}
			for _, rest := range g.forests(size - s) {
				l := make([]*c12node, 0, len(rest)+1)
				l = append(l, t)
				l = append(l, rest...)
				out = append(out, l)
			}
		}
	}
	g.fmemo[size] = out
	return out
}

func c12interesting(n *c12node) bool {
	if n.HasAttr || n.Enc != 0 || c12isAgg(n.Typ) || bytes.Contains(n.Str, []byte("\r\n")) || len(n.Str) > 16 {
		return true
	}
	return false
}

// ---- big replies: element counts and payload lengths around the decoder's preallocation bound (and far beyond)

type c12big struct {
	Typ    byte `json:"typ"` // $ = ! blob kinds (N bytes); S = streamed string ($?) with one chunk of N bytes and one of 3; * ~ > aggregates (N elements); % map (N pairs)
	N      int  `json:"n"`
	Nested bool `json:"nested"` // placed between two siblings inside an array
	Buf    int  `json:"buf"`
	Chunk  int  `json:"chunk"` // bytes per read of the underlying connection (0 = everything at once)
}

type c12chunkRd struct {
	data  []byte
	chunk int
}

func (r *c12chunkRd) Read(p []byte) (int, error) {
	if len(r.data) == 0 {
		return 0, io.EOF
	}
	n := len(r.data)
	if r.chunk > 0 && n > r.chunk {
		n = r.chunk
	}
	n = copy(p, r.data[:n])
	r.data = r.data[n:]
	return n, nil
}

func c12bigPayload(n int) []byte {
	b := make([]byte, n)
	for i := range b {
		b[i] = byte(i % 251)
	}
	return b
}

func c12bigRun(r *vrun.Run, b c12big) {
	r.Evaluations++
	var w bytes.Buffer
	if b.Nested {
		w.WriteString("*3\r\n$6\r\nbefore\r\n")
	}
	elems := b.N
	switch b.Typ {
	case 'S':
		fmt.Fprintf(&w, "$?\r\n;%d\r\n", b.N)
		w.Write(c12bigPayload(b.N))
		w.WriteString("\r\n;3\r\nend\r\n;0\r\n")
	case '$', '=', '!':
		fmt.Fprintf(&w, "%c%d\r\n", b.Typ, b.N)
		w.Write(c12bigPayload(b.N))
		w.WriteString("\r\n")
	default:
		fmt.Fprintf(&w, "%c%d\r\n", b.Typ, b.N)
		if b.Typ == '%' {
			elems = 2 * b.N
		}
		for i := 0; i < elems; i++ {
			fmt.Fprintf(&w, ":%d\r\n", i)
		}
	}
	if b.Nested {
		w.WriteString(":7\r\n")
	}
	w.WriteString(c12next)
	br := bufio.NewReaderSize(&c12chunkRd{data: w.Bytes(), chunk: b.Chunk}, b.Buf)
	var m, nx RedisMessage
	var err, err2, err3 error
	p, site := vrun.Catch(func() {
		m, err = readNextMessage(br)
		if err == nil {
			nx, err2 = readNextMessage(br)
			if err2 == nil {
				_, err3 = readNextMessage(br)
			}
		}
	})
	desc := fmt.Sprintf("%q with %d elements/bytes, nested=%v, bufio %d, %d bytes per read", b.Typ, b.N, b.Nested, b.Buf, b.Chunk)
	if p != nil {
		r.Outcome("panic")
		r.Violate("big reply: panic in "+site, desc+fmt.Sprintf(": %v", p), c12case{Big: &b})
		return
	}
	if err != nil || err2 != nil || nx.typ != '+' || nx.string() != "NEXT" || err3 != io.EOF {
		r.Outcome("big reply: decode error or frame boundary lost")
		r.Violate("big reply: well-formed reply not decoded / frame boundary lost", desc+fmt.Sprintf(": err=%v next=%v/%v then %v", err, nx.String(), err2, err3), c12case{Big: &b})
		return
	}
	root := m
	if b.Nested {
		vals := m.values()
		if m.typ != '*' || len(vals) != 3 || vals[0].string() != "before" || vals[2].typ != ':' || vals[2].intlen != 7 {
			r.Outcome("big reply: siblings differ")
			r.Violate("big reply: siblings of a big element are decoded wrongly", desc+fmt.Sprintf(": got %d children", len(vals)), c12case{Big: &b})
			return
		}
		root = vals[1]
	}
	bad := ""
	switch b.Typ {
	case 'S':
		want := append(c12bigPayload(b.N), "end"...)
		if root.typ != '$' || !bytes.Equal([]byte(root.string()), want) {
			bad = fmt.Sprintf("streamed string of %d+3 bytes differs (got %d bytes, type %q)", b.N, len(root.string()), root.typ)
		}
	case '$', '=', '!':
		if root.typ != b.Typ || !bytes.Equal([]byte(root.string()), c12bigPayload(b.N)) {
			bad = fmt.Sprintf("payload of %d bytes differs (got %d bytes, type %q)", b.N, len(root.string()), root.typ)
		}
	default:
		vals := root.values()
		if root.typ != b.Typ || len(vals) != elems {
			bad = fmt.Sprintf("got type %q with %d elements, want %d", root.typ, len(vals), elems)
		} else {
			for i, v := range vals {
				if v.typ != ':' || v.intlen != int64(i) {
					bad = fmt.Sprintf("element %d is %q %d", i, v.typ, v.intlen)
					break
				}
			}
		}
	}
	if bad != "" {
		r.Outcome("big reply: value differs")
		r.Violate("big reply: decoded value differs from the encoded one", desc+": "+bad, c12case{Big: &b})
		return
	}
	r.Outcome("big reply decoded == generated")
}

// c12prealloc mirrors resp.go maxPrealloc (bytes preallocated on the word of a length header); a literal so that the
// harness also builds against trees that rename or drop the constant.
const c12prealloc = 1 << 16

func TestVerif_C12(t *testing.T) {
	vrun.Main(t, "C12", func(r *vrun.Run) {
		e := &c12env{r: r, brs: map[int]*bufio.Reader{}}
		if raw, ok := r.ReplayPayload(); ok {
			var c c12case
			if err := json.Unmarshal(raw, &c); err != nil {
				panic(err)
			}
			if c.Big != nil {
				c12bigRun(r, *c.Big)
				return
			}
			data := c12wire(&c)
			if c.Kind == "stream" {
				e.streamOne(&c, data)
			} else {
				e.decodeOne(&c, data)
			}
			return
		}
		thorough := !r.Quick()
		maxNodes := vrun.Pick(r, 4, 5)
		pairMax := vrun.Pick(r, 0, 24)
		r.Bounds["max_nodes"] = maxNodes
		r.Bounds["pair_split_max_len"] = pairMax
		r.Bounds["bufio_sizes"] = []int{16, 32, 4096}
		r.Rule = "every RESP value tree with <= max_nodes nodes (attribute frame = 1 node) over types + - : $ _ # , ( ! = * ~ % > with RESP2 nulls, streamed strings (every 2-way chunking) and streamed aggregates; single-node replies use the full payload alphabet ('', a, OK, OKx, CRLF, a CRLF b, binary, 40 bytes, frame look-alikes), children a reduced one (thorough: a second pass with a larger child alphabet up to max_nodes-1 nodes); each encoding (own encoder) + '+NEXT' is decoded by the real readNextMessage through bufio readers of 16/32/4096 bytes with the stream cut at every single position, one byte per read, and (thorough, encodings <= 24 bytes) at every pair of positions; streamTo on every scalar/aggregate single-node reply with 0-2 push frames in front, both writer kinds, and a writer that fails after k bytes for every k (a stream reported clean must leave the reader at the next frame). plus big replies: arrays, sets, pushes, maps with element counts and blob kinds (incl. a chunk of a streamed string) with payload lengths around the decoder's preallocation bound (maxPrealloc) and far beyond, alone and nested, all at once or 1000 bytes per read. non-trivial = tree with aggregate, attribute, streamed form, CRLF in payload or payload > 16 bytes"
		r.Assume("bufio.Reader size >= 32 as enforced by rueidis.go (ReadBufferEachConn < 32 -> default); the 16 byte reader is only used when every number line of the encoding fits into 16 bytes")
		r.Assume("streamTo on a reply preceded by an attribute frame: only frame consumption is checked (weak reading: the streaming sentence of the property speaks of string/integer/float replies; Redis sends no attributes today); observed behaviour is recorded as an outcome")
		r.Assume("booleans through streamTo: the property names string, integer and float replies only, so only exact frame consumption is checked for '#'")
		r.Assume("attributes are not generated in front of RESP2 nulls ($-1, *-1): RESP2 has no attribute frames")
		r.Assume("integers carry an optional '-' only; the '+' sign allowed by the RESP3 grammar is never sent by Redis and is probed separately as a note")

		if r.Mine(0) {
			eb := c12prealloc / messageStructSize // elements preallocated on the word of an aggregate header
			pb := c12prealloc                     // bytes preallocated on the word of a blob header
			var bigs []c12big
			for _, nested := range []bool{false, true} {
				for _, ch := range []int{0, 1000} {
					for _, n := range []int{eb - 1, eb, eb + 1, eb + 2, 2*eb + 1, 5000} {
						for _, t := range []byte{'*', '~', '>', '%'} {
							bigs = append(bigs, c12big{Typ: t, N: n, Nested: nested, Buf: 4096, Chunk: ch})
						}
					}
					for _, n := range []int{pb - 1, pb, pb + 1, pb + 2, 2*pb + 3, 300000} {
						for _, t := range []byte{'$', '=', '!', 'S'} {
							for _, buf := range []int{4096, 1 << 19} {
								bigs = append(bigs, c12big{Typ: t, N: n, Nested: nested, Buf: buf, Chunk: ch})
							}
						}
					}
				}
			}
			r.Bounds["big_replies"] = len(bigs)
			for _, b := range bigs {
				if b.Typ == '>' && b.Nested {
					continue // a push frame is not a child value
				}
				c12bigRun(r, b)
			}
		}
		attr := []*c12node{c12leaf('+', "ttl"), {Typ: ':', Num: 3600}}
		inner := &c12gen{leaves: c12innerLeaves(false), memo: map[int][]*c12node{}, fmemo: map[int][][]*c12node{}, attr: attr}

		runTree := func(tr *c12node) bool {
			c := &c12case{Kind: "decode", Tree: tr}
			data := c12wire(c)
			enc := string(data)
			if !r.StateStr("d", enc) {
				return true
			}
			if c12interesting(tr) || len(tr.Kids) > 0 {
				r.NonTrivialStr("d", enc)
			}
			if r.WantSample() && c12isAgg(tr.Typ) && len(tr.Kids) > 1 {
				r.Sample(map[string]any{"wire": enc, "tree": tr})
			}
			sizes := []int{32, 4096}
			if c12maxLine(tr) <= 16 {
				sizes = []int{16, 32, 4096}
			}
			n := len(data)
			for _, sz := range sizes {
				c.Buf = sz
				c.Cuts, c.Every = nil, false
				e.decodeOne(c, data)
				c.Every = true
				e.decodeOne(c, data)
				c.Every = false
				for k := 1; k < n; k++ {
					c.Cuts = []int{k}
					e.decodeOne(c, data)
				}
				if n-len(c12next) <= pairMax {
					for a := 1; a < n; a++ {
						for b := a + 1; b < n; b++ {
							c.Cuts = []int{a, b}
							e.decodeOne(c, data)
						}
					}
				}
			}
			return !r.TimeUp()
		}

		idx := 0
		// 1. single-node replies, full alphabet, plus each of them as the only child of an
		// array / push / map value and with an attribute in front.
		top := c12topLeaves(thorough)
		attrs := [][]*c12node{attr, {}, {c12leaf('$', "k\r\n"), {Typ: '*', Kids: []*c12node{{Typ: ':', Num: 1}, {Typ: '_', Enc: 1}}}, c12leaf('+', "OK"), c12leaf('+', "OK")}}
	outer1:
		for _, lf := range top {
			idx++
			if !r.Mine(idx) {
				continue
			}
			vars := []*c12node{lf,
				{Typ: '*', Kids: []*c12node{lf}}, {Typ: '>', Kids: []*c12node{c12leaf('+', "message"), lf}},
				{Typ: '%', Kids: []*c12node{c12leaf('+', "k"), lf}}, {Typ: '~', Enc: 1, Kids: []*c12node{lf, lf}},
				{Typ: '%', Enc: 1, Kids: []*c12node{lf, lf}}}
			if !(lf.Typ == '_' && lf.Enc != 0) {
				for _, a := range attrs {
					c := *lf
					c.HasAttr, c.Attr = true, a
					vars = append(vars, &c)
				}
			}
			for _, v := range vars {
				if !runTree(v) {
					break outer1
				}
			}
		}
		// 3. streamTo
		var streamRoots []*c12node
		streamRoots = append(streamRoots, top...)
		for _, tr := range inner.trees(2) {
			if c12isAgg(tr.Typ) {
				streamRoots = append(streamRoots, tr)
			}
		}
		streamRoots = append(streamRoots, &c12node{Typ: '*'}, &c12node{Typ: '%', Enc: 1})
		for _, lf := range []*c12node{c12leaf('$', "a\r\nb"), {Typ: '$', Str: []byte("a\r\nb"), Enc: 2}, c12leaf('+', "OK"), {Typ: ':', Num: 7}, {Typ: '_'}} {
			c := *lf
			c.HasAttr, c.Attr = true, attr
			streamRoots = append(streamRoots, &c)
		}
	outer3:
		for _, tr := range streamRoots {
			idx++
			if !r.Mine(idx) {
				continue
			}
			for pushes := 0; pushes <= 2; pushes++ {
				c := &c12case{Kind: "stream", Tree: tr, Pushes: pushes}
				data := c12wire(c)
				enc := string(data)
				if !r.StateStr("s", enc) {
					continue
				}
				if pushes > 0 || c12interesting(tr) {
					r.NonTrivialStr("s", enc)
				}
				sizes := []int{32, 4096}
				if c12maxLine(tr) <= 16 {
					sizes = []int{16, 32, 4096}
				}
				n := len(data)
				for _, sz := range sizes {
					for _, pw := range []bool{false, true} {
						c.Buf, c.PlainW = sz, pw
						c.Cuts, c.Every = nil, false
						e.streamOne(c, data)
						c.Every = true
						e.streamOne(c, data)
						c.Every = false
						for k := 1; k < n; k++ {
							c.Cuts = []int{k}
							e.streamOne(c, data)
						}
						if !pw {
							// a writer that fails after k bytes, for every k below the payload length (+ chunk boundaries come with the tree's encoding)
							c.Cuts = nil
							for k := 0; k < len(tr.Str)+1 && k < 48; k++ {
								c.FailW = k + 1
								c.Every = false
								e.streamOne(c, data)
								c.Every = true
								e.streamOne(c, data)
							}
							c.FailW, c.Every = 0, false
						}
						if pushes == 0 && n-len(c12next) <= pairMax {
							for a := 1; a < n; a++ {
								for b := a + 1; b < n; b++ {
									c.Cuts = []int{a, b}
									e.streamOne(c, data)
								}
							}
						}
					}
				}
				if r.TimeUp() {
					break outer3
				}
			}
		}

		// 2. all trees up to maxNodes nodes over the inner alphabet; push as an additional root type.
		// thorough: a second pass with the extended inner alphabet up to maxNodes-1 nodes.
		passes := []struct {
			g   *c12gen
			max int
		}{{inner, maxNodes}}
		if thorough {
			passes = append(passes, struct {
				g   *c12gen
				max int
			}{&c12gen{leaves: c12innerLeaves(true), memo: map[int][]*c12node{}, fmemo: map[int][][]*c12node{}, attr: attr}, maxNodes - 1})
		}
	outer2:
		for _, ps := range passes {
			for size := 1; size <= ps.max; size++ {
				for _, tr := range ps.g.trees(size) {
					idx++
					if !r.Mine(idx) {
						continue
					}
					if !runTree(tr) {
						break outer2
					}
				}
				if size >= 2 {
					for _, f := range ps.g.forests(size - 1) {
						idx++
						if !r.Mine(idx) {
							continue
						}
						if !runTree(&c12node{Typ: '>', Kids: f}) {
							break outer2
						}
					}
				}
			}
		}
		r.Bounds["trees_generated"] = idx

		// 4. probes of forms that the grammar allows but Redis does not send (notes only)
		if r.Mine(0) {
			for _, in := range []string{":+5\r\n", "$+1\r\na\r\n"} {
				br := bufio.NewReader(bytes.NewReader([]byte(in)))
				var m RedisMessage
				var err error
				p, _ := vrun.Catch(func() { m, err = readNextMessage(br) })
				r.Note(fmt.Sprintf("probe %q (explicit '+' sign, allowed by the RESP3 grammar, never sent by Redis): value=%s err=%v panic=%v", in, m.String(), err, p))
			}
		}
	})
}

func c12maxLine(n *c12node) int {
	var b bytes.Buffer
	ml := 0
	c12encode(&b, n, &ml)
	return ml
}

// c12wire builds the byte stream of a case: push frames, the reply, the NEXT frame.
func c12wire(c *c12case) []byte {
	var b bytes.Buffer
	ml := 0
	for i := 0; i < c.Pushes; i++ {
		p := &c12node{Typ: '>', Kids: []*c12node{c12leaf('$', "message"), c12leaf('$', "ch\r\n"), {Typ: ':', Num: int64(i)}}}
		if i == 1 {
			p = &c12node{Typ: '>', Kids: []*c12node{c12leaf('+', "invalidate"), {Typ: '*', Kids: []*c12node{c12leaf('$', "k")}}}}
		}
		c12encode(&b, p, &ml)
	}
	c12encode(&b, c.Tree, &ml)
	b.WriteString(c12next)
	return b.Bytes()
}
