//go:build verif

package rueidis

import (
	"encoding/json"
	"fmt"
	"math"
	"testing"

	"github.com/redis/rueidis/vshim/vrun"
)

// C45: vector and binary helpers round-trip bit for bit.

type c45replay struct {
	Kind string   `json:"kind"` // f32 | f64 | bin | malformed32 | malformed64 | json
	B32  []uint32 `json:"b32,omitempty"`
	B64  []uint64 `json:"b64,omitempty"`
	Raw  []byte   `json:"raw,omitempty"`
	Len  int      `json:"len,omitempty"`
	Idx  int      `json:"idx,omitempty"`
	Idx2 int      `json:"idx2,omitempty"`
}

func c45class32(b uint32) string {
	e := b >> 23 & 0xff
	m := b & 0x7fffff
	switch {
	case e == 0xff && m != 0 && m&0x400000 == 0:
		return "signalling NaN"
	case e == 0xff && m != 0:
		return "quiet NaN"
	case e == 0xff:
		return "Inf"
	case e == 0 && m == 0:
		return "zero"
	case e == 0:
		return "denormal"
	}
	return "normal"
}

func c45class64(b uint64) string {
	e := b >> 52 & 0x7ff
	m := b & (1<<52 - 1)
	switch {
	case e == 0x7ff && m != 0 && m&(1<<51) == 0:
		return "signalling NaN"
	case e == 0x7ff && m != 0:
		return "quiet NaN"
	case e == 0x7ff:
		return "Inf"
	case e == 0 && m == 0:
		return "zero"
	case e == 0:
		return "denormal"
	}
	return "normal"
}

// c45vec32 round-trips one vector given as bit patterns; returns "" when fine.
func c45vec32(bits []uint32) (sig, detail string) {
	v := make([]float32, len(bits))
	for i, b := range bits {
		v[i] = math.Float32frombits(b)
	}
	var s string
	var out []float32
	if p, site := vrun.Catch(func() { s = VectorString32(v); out = ToVector32(s) }); p != nil {
		return "float32 round trip panics in " + site, fmt.Sprintf("bits %08x: panic %v", bits, p)
	}
	if len(s) != 4*len(bits) {
		return "VectorString32: length is not 4*len(v)", fmt.Sprintf("bits %08x: len %d", bits, len(s))
	}
	for i, b := range bits {
		if s[4*i] != byte(b) || s[4*i+1] != byte(b>>8) || s[4*i+2] != byte(b>>16) || s[4*i+3] != byte(b>>24) {
			return "VectorString32: not IEEE-754 little endian", fmt.Sprintf("bits %08x: string % x", bits, s)
		}
	}
	if len(out) != len(bits) {
		return "ToVector32(VectorString32(v)): length differs", fmt.Sprintf("bits %08x: got %d elements", bits, len(out))
	}
	for i, b := range bits {
		if g := math.Float32bits(out[i]); g != b {
			return "ToVector32(VectorString32(v)) differs bitwise for " + c45class32(b), fmt.Sprintf("bits %08x: element %d came back as %08x", bits, i, g)
		}
	}
	return "", ""
}

func c45vec64(bits []uint64) (sig, detail string) {
	v := make([]float64, len(bits))
	for i, b := range bits {
		v[i] = math.Float64frombits(b)
	}
	var s string
	var out []float64
	if p, site := vrun.Catch(func() { s = VectorString64(v); out = ToVector64(s) }); p != nil {
		return "float64 round trip panics in " + site, fmt.Sprintf("bits %016x: panic %v", bits, p)
	}
	if len(s) != 8*len(bits) {
		return "VectorString64: length is not 8*len(v)", fmt.Sprintf("bits %016x: len %d", bits, len(s))
	}
	for i, b := range bits {
		for k := 0; k < 8; k++ {
			if s[8*i+k] != byte(b>>(8*k)) {
				return "VectorString64: not IEEE-754 little endian", fmt.Sprintf("bits %016x: string % x", bits, s)
			}
		}
	}
	if len(out) != len(bits) {
		return "ToVector64(VectorString64(v)): length differs", fmt.Sprintf("bits %016x: got %d elements", bits, len(out))
	}
	for i, b := range bits {
		if g := math.Float64bits(out[i]); g != b {
			return "ToVector64(VectorString64(v)) differs bitwise for " + c45class64(b), fmt.Sprintf("bits %016x: element %d came back as %016x", bits, i, g)
		}
	}
	return "", ""
}

func c45bin(b []byte) (sig, detail string) {
	var s string
	if p, site := vrun.Catch(func() { s = BinaryString(b) }); p != nil {
		return "BinaryString panics in " + site, fmt.Sprintf("bytes % x: panic %v", b, p)
	}
	if len(s) != len(b) {
		return "BinaryString: length differs", fmt.Sprintf("bytes % x: len %d", b, len(s))
	}
	for i := range b {
		if s[i] != b[i] {
			return "BinaryString: bytes differ", fmt.Sprintf("bytes % x: got % x", b, s)
		}
	}
	return "", ""
}

// c45malformed feeds a string whose length is not a multiple of the element
// size. ToVector32/64 have no error result and document no behaviour for such
// input, so the only requirement is: no panic.
func c45malformed(wide bool, n int) (sig, detail string) {
	b := make([]byte, n)
	for i := range b {
		b[i] = byte(i + 1)
	}
	s := string(b)
	name, size := "ToVector32", 4
	if wide {
		name, size = "ToVector64", 8
	}
	var got int
	p, site := vrun.Catch(func() {
		if wide {
			got = len(ToVector64(s))
		} else {
			got = len(ToVector32(s))
		}
	})
	if p != nil {
		_ = site
		return fmt.Sprintf("%s: panics on input whose length is not a multiple of %d", name, size), fmt.Sprintf("%s(%d byte string % x): panic %v; expected an empty/truncated result or any documented behaviour, not a panic (the function has no error result)", name, n, s, p)
	}
	_ = got
	return "", ""
}

type c45S struct {
	A int               `json:"a"`
	B string            `json:"b,omitempty"`
	C []float64         `json:"c"`
	D map[string]any    `json:"d"`
	E *int              `json:"e"`
	F json.RawMessage   `json:"f,omitempty"`
	g int               //nolint
	H map[int]string    `json:"h,omitempty"`
	I any               `json:"i"`
	J [2]bool           `json:"j"`
	K []byte            `json:"k"`
	L map[string]string `json:"-"`
}

// c45jsonValues: value, and (when I can write it down independently) the exact expected text.
func c45jsonValues() []struct {
	v    any
	want string // "" = compare with json.Marshal only
} {
	seven := 7
	return []struct {
		v    any
		want string
	}{
		{nil, "null"}, {true, "true"}, {false, "false"},
		{0, "0"}, {-1, "-1"}, {int64(math.MinInt64), "-9223372036854775808"}, {uint64(math.MaxUint64), "18446744073709551615"}, {int8(-128), "-128"},
		{1.5, "1.5"}, {float32(0.1), "0.1"}, {1e21, "1e+21"}, {1e-7, "1e-7"}, {math.Copysign(0, -1), "-0"}, {100000000.0, "100000000"}, {math.MaxFloat64, ""}, {math.SmallestNonzeroFloat64, "5e-324"},
		{"", `""`}, {"a", `"a"`}, {"a\"b\\c", `"a\"b\\c"`}, {"\n\r\t\x00\x1f", `"\n\r\t\u0000\u001f"`}, {"<>&", `"\u003c\u003e\u0026"`},
		{"é☃😀", `"é☃😀"`}, {"\xff", `"\ufffd"`}, {"a\xc3", `"a\ufffd"`}, {"\u2028\u2029", `"\u2028\u2029"`}, {"\x7f", "\"\x7f\""},
		{[]int(nil), "null"}, {[]int{}, "[]"}, {[]int{1, 2}, "[1,2]"}, {[]any{nil, "x", 1.0, []any{}}, `[null,"x",1,[]]`}, {[]byte("hi"), `"aGk="`}, {[]string{"a", ""}, `["a",""]`},
		{map[string]int(nil), "null"}, {map[string]int{}, "{}"}, {map[string]int{"b": 1, "a": 2}, `{"a":2,"b":1}`}, {map[int]string{2: "x", 10: "y"}, `{"10":"y","2":"x"}`},
		{map[string]any{"k": map[string]any{"z": nil}}, `{"k":{"z":null}}`},
		{c45S{}, `{"a":0,"c":null,"d":null,"e":null,"i":null,"j":[false,false],"k":null}`},
		{&c45S{A: 1, B: "x", C: []float64{0.5}, D: map[string]any{"q": 1}, E: &seven, F: json.RawMessage(`{"r": [1]}`), g: 3, H: map[int]string{1: "o"}, I: []int{1}, J: [2]bool{true, false}, K: []byte{0}, L: map[string]string{"no": "no"}},
			`{"a":1,"b":"x","c":[0.5],"d":{"q":1},"e":7,"f":{"r":[1]},"h":{"1":"o"},"i":[1],"j":[true,false],"k":"AA=="}`},
		{&seven, "7"}, {json.Number("12.50"), "12.50"}, {[0]int{}, "[]"}, {struct{}{}, "{}"},
		// values for which encoding/json reports an error: JSON() has nothing to return
		{math.NaN(), ""}, {math.Inf(1), ""}, {make(chan int), ""}, {func() {}, ""}, {map[bool]int{true: 1}, ""}, {json.RawMessage("{"), ""}, {complex(1, 2), ""},
	}
}

// c45json2: second use. The result of an earlier JSON call is still held while a later call runs (two JSON.SET commands
// built for one batch): both must equal the standard encodings afterwards.
func c45json2(i, j int) (sig, detail string) {
	vals := c45jsonValues()
	ri, erri := json.Marshal(vals[i].v)
	rj, errj := json.Marshal(vals[j].v)
	if erri != nil || errj != nil {
		return "", ""
	}
	var s1, s2, s3 string
	p, _ := vrun.Catch(func() {
		s1 = JSON(vals[i].v)
		s2 = JSON(vals[j].v)
		s3 = JSON(vals[i].v)
	})
	if p != nil {
		return "JSON: panics on a value encoding/json can encode", fmt.Sprintf("values #%d, #%d: panic %v", i, j, p)
	}
	if s1 != string(ri) || s2 != string(rj) || s3 != string(ri) {
		return "JSON: an earlier result differs from encoding/json after a later call", fmt.Sprintf("s1=JSON(#%d) s2=JSON(#%d) s3=JSON(#%d): afterwards s1=%q s2=%q s3=%q, json.Marshal gives %q and %q", i, j, i, s1, s2, s3, ri, rj)
	}
	return "", ""
}

// c45vec2: the strings of two vector conversions are held at the same time (a batch of two vector commands)
func c45vec2(b32 []uint32, b64 []uint64) (sig, detail string) {
	mk32 := func(b []uint32) []float32 {
		v := make([]float32, len(b))
		for i := range b {
			v[i] = math.Float32frombits(b[i])
		}
		return v
	}
	mk64 := func(b []uint64) []float64 {
		v := make([]float64, len(b))
		for i := range b {
			v[i] = math.Float64frombits(b[i])
		}
		return v
	}
	if len(b32) >= 2 {
		h := len(b32) / 2
		s1 := VectorString32(mk32(b32[:h]))
		s2 := VectorString32(mk32(b32[h:]))
		back1, back2 := ToVector32(s1), ToVector32(s2)
		for i := range back1 {
			if i >= h || math.Float32bits(back1[i]) != b32[i] {
				return "VectorString32: an earlier result changes after a later call", fmt.Sprintf("bits %08x split at %d: first decodes to %v", b32, h, back1)
			}
		}
		if len(back1) != h || len(back2) != len(b32)-h {
			return "VectorString32: an earlier result changes after a later call", fmt.Sprintf("bits %08x split at %d: lengths %d, %d", b32, h, len(back1), len(back2))
		}
		for i := range back2 {
			if math.Float32bits(back2[i]) != b32[h+i] {
				return "VectorString32: an earlier result changes after a later call", fmt.Sprintf("bits %08x split at %d: second decodes to %v", b32, h, back2)
			}
		}
	}
	if len(b64) >= 2 {
		h := len(b64) / 2
		s1 := VectorString64(mk64(b64[:h]))
		s2 := VectorString64(mk64(b64[h:]))
		back1, back2 := ToVector64(s1), ToVector64(s2)
		if len(back1) != h || len(back2) != len(b64)-h {
			return "VectorString64: an earlier result changes after a later call", fmt.Sprintf("bits %016x split at %d: lengths %d, %d", b64, h, len(back1), len(back2))
		}
		for i := range back1 {
			if math.Float64bits(back1[i]) != b64[i] {
				return "VectorString64: an earlier result changes after a later call", fmt.Sprintf("bits %016x split at %d: first decodes to %v", b64, h, back1)
			}
		}
		for i := range back2 {
			if math.Float64bits(back2[i]) != b64[h+i] {
				return "VectorString64: an earlier result changes after a later call", fmt.Sprintf("bits %016x split at %d: second decodes to %v", b64, h, back2)
			}
		}
	}
	return "", ""
}

func c45json(i int) (sig, detail, outcome string) {
	vals := c45jsonValues()
	e := vals[i]
	ref, rerr := json.Marshal(e.v)
	var got string
	p, _ := vrun.Catch(func() { got = JSON(e.v) })
	if rerr != nil {
		if p == nil {
			return "JSON: returns a value although encoding/json fails", fmt.Sprintf("value #%d %T: JSON=%q, json.Marshal error %v", i, e.v, got, rerr), "marshal error"
		}
		return "", "", "marshal error -> JSON panics (no error result; not judged)"
	}
	if p != nil {
		return "JSON: panics on a value encoding/json can encode", fmt.Sprintf("value #%d %T: panic %v", i, e.v, p), "panic"
	}
	if got != string(ref) {
		return "JSON: differs from encoding/json", fmt.Sprintf("value #%d %T: JSON=%q json.Marshal=%q", i, e.v, got, ref), "diff"
	}
	if e.want != "" && got != e.want {
		return "JSON: differs from the hand-written expected text", fmt.Sprintf("value #%d %T: JSON=%q want %q", i, e.v, got, e.want), "diff"
	}
	return "", "", "equal"
}

func TestVerif_C45(t *testing.T) {
	vrun.Main(t, "C45", func(r *vrun.Run) {
		r.Rule = "float32: quick = all 2^16 high halves x 8 low halves, thorough = ALL 2^32 bit patterns, each as a 1-element vector; float64: all 2048 exponents x sign x mantissa set (8 quick / 112 thorough) as 1-element vectors; vectors of length 0..3 (thorough 0..4) over an 8-value special alphabet (qNaN/sNaN with payload, +-0, +-Inf, denormal, 1.0) for both widths, plus nil; BinaryString on all byte strings of length <=2 (thorough <=3) plus nil; ToVector32/64 on every length 0..9 / 0..17; JSON on an enumerated value table vs encoding/json and hand-written texts; second use: every ordered pair of table values encoded one after the other with both results held (and two vector strings held at once), compared afterwards. Comparison by math.Float32bits/Float64bits and byte layout. non-trivial = NaN / Inf / zero / denormal patterns, multi-element vectors, malformed lengths"
		if raw, ok := r.ReplayPayload(); ok {
			var p c45replay
			if err := json.Unmarshal(raw, &p); err != nil {
				panic(err)
			}
			r.Evaluations++
			var sig, detail string
			switch p.Kind {
			case "f32":
				sig, detail = c45vec32(p.B32)
			case "f64":
				sig, detail = c45vec64(p.B64)
			case "bin":
				sig, detail = c45bin(p.Raw)
			case "malformed32":
				sig, detail = c45malformed(false, p.Len)
			case "malformed64":
				sig, detail = c45malformed(true, p.Len)
			case "json":
				sig, detail, _ = c45json(p.Idx)
			case "json2":
				sig, detail = c45json2(p.Idx, p.Idx2)
			case "vec2":
				sig, detail = c45vec2(p.B32, p.B64)
			}
			if sig != "" {
				r.Violate(sig, detail, p)
			}
			return
		}

		// ---- 1. float32 single element vectors
		lows := []uint32{0, 1, 0x7fff, 0x8000, 0xffff, 0x5555, 0xaaaa, 0x00ff}
		one32 := make([]uint32, 1)
		var n32, special32 int64
		stop := false
		for hb := 0; hb < 256 && !stop; hb++ {
			if !r.Mine(hb) {
				continue
			}
			for mid := uint32(0); mid < 256 && !stop; mid++ {
				hi := uint32(hb)<<24 | mid<<16
				if r.Quick() {
					for _, lo := range lows {
						one32[0] = hi | lo
						n32++
						if sig, detail := c45vec32(one32); sig != "" {
							r.Violate(sig, detail, c45replay{Kind: "f32", B32: []uint32{hi | lo}})
						}
					}
				} else {
					// tight loop over the 65536 low halves; identical checks, without the helper's allocations
					v := make([]float32, 1)
					for lo := uint32(0); lo < 65536; lo++ {
						b := hi | lo
						v[0] = math.Float32frombits(b)
						s := VectorString32(v)
						out := ToVector32(s)
						n32++
						if len(s) != 4 || s[0] != byte(b) || s[1] != byte(b>>8) || s[2] != byte(b>>16) || s[3] != byte(b>>24) || len(out) != 1 || math.Float32bits(out[0]) != b {
							one32[0] = b
							sig, detail := c45vec32(one32)
							if sig == "" {
								sig, detail = "float32 fast path and checked path disagree", fmt.Sprintf("bits %08x", b)
							}
							r.Violate(sig, detail, c45replay{Kind: "f32", B32: []uint32{b}})
						}
					}
					if r.TimeUp() {
						stop = true
					}
				}
				e := hi >> 23 & 0xff
				if e == 0 || e == 0xff {
					special32++
					r.NonTrivialStr("f32hi", fmt.Sprint(hi>>16))
				}
				r.StateStr("f32hi", fmt.Sprint(hi>>16))
			}
		}
		r.Evaluations += n32
		r.Outcomes["float32 1-element vectors round-tripped"] += n32
		r.Bounds["float32_patterns_total"] = vrun.Pick[any](r, "2^16 high halves x 8 low halves = 524288", "all 2^32 = 4294967296")
		r.Note("states count one per float32 high half (65536) rather than one per bit pattern, to keep the state set in memory; evaluations count every pattern")

		// ---- 2. float64 single element vectors
		mants := []uint64{0, 1, 1 << 51, 1<<52 - 1, 0x5555555555555, 0xaaaaaaaaaaaaa, 1<<51 | 1, 1<<51 - 1}
		if !r.Quick() {
			for k := 0; k < 52; k++ {
				mants = append(mants, 1<<k, (1<<52-1)&^(1<<k))
			}
		}
		r.Bounds["float64_mantissas"] = len(mants)
		one64 := make([]uint64, 1)
		for e := uint64(0); e < 2048; e++ {
			if !r.Mine(int(e)) {
				continue
			}
			for sgn := uint64(0); sgn < 2; sgn++ {
				for _, m := range mants {
					b := sgn<<63 | e<<52 | m
					one64[0] = b
					r.Evaluations++
					r.StateStr("f64", fmt.Sprint(b))
					cl := c45class64(b)
					if cl != "normal" {
						r.NonTrivialStr("f64", fmt.Sprint(b))
					}
					r.Outcome("float64 " + cl)
					if sig, detail := c45vec64(one64); sig != "" {
						r.Violate(sig, detail, c45replay{Kind: "f64", B64: []uint64{b}})
					}
				}
			}
		}

		// ---- 3. short vectors over special alphabets
		// alphabet of 8: qNaN+payload, sNaN, -qNaN+payload, -0, 1.0, +Inf, -Inf, smallest denormal
		a32 := []uint32{0x7fc00001, 0x7f800001, 0xffc12345, 0x80000000, 0x3f800000, 0x7f800000, 0xff800000, 0x00000001}
		a64 := []uint64{0x7ff8000000000001, 0x7ff0000000000001, 0xfff8000000012345, 0x8000000000000000, 0x3ff0000000000000, 0x7ff0000000000000, 0xfff0000000000000, 1}
		maxLen := vrun.Pick(r, 3, 4)
		r.Bounds["vector_len"] = maxLen
		item := 0
		var rec func(idx []int)
		rec = func(idx []int) {
			item++
			if r.Mine(item) {
				b32 := make([]uint32, len(idx))
				b64 := make([]uint64, len(idx))
				for i, k := range idx {
					b32[i], b64[i] = a32[k], a64[k]
				}
				r.Evaluations += 2
				key := fmt.Sprint(idx)
				r.StateStr("vec", key)
				if len(idx) >= 2 {
					r.NonTrivialStr("vec", key)
				}
				r.Outcome(fmt.Sprintf("vector len %d", len(idx)))
				if sig, detail := c45vec32(b32); sig != "" {
					r.Violate(sig, detail, c45replay{Kind: "f32", B32: b32})
				}
				if sig, detail := c45vec64(b64); sig != "" {
					r.Violate(sig, detail, c45replay{Kind: "f64", B64: b64})
				}
			}
			if len(idx) == maxLen {
				return
			}
			for k := 0; k < 8; k++ {
				rec(append(append([]int{}, idx...), k))
			}
		}
		rec(nil)
		if r.Mine(0) {
			// nil vectors, and +0
			r.Evaluations += 3
			var sig, detail string
			p, site := vrun.Catch(func() {
				if s := VectorString32(nil); s != "" || len(ToVector32(s)) != 0 {
					sig, detail = "VectorString32(nil) does not round-trip to an empty vector", fmt.Sprintf("%q", s)
				}
				if s := VectorString64(nil); s != "" || len(ToVector64(s)) != 0 {
					sig, detail = "VectorString64(nil) does not round-trip to an empty vector", fmt.Sprintf("%q", s)
				}
			})
			if p != nil {
				sig, detail = "nil vector panics in "+site, fmt.Sprint(p)
			}
			if sig != "" {
				r.Violate(sig, detail, c45replay{Kind: "f32"})
			}
			if sig, detail := c45vec32([]uint32{0, 0x80000000}); sig != "" {
				r.Violate(sig, detail, c45replay{Kind: "f32", B32: []uint32{0, 0x80000000}})
			}
			if sig, detail := c45vec64([]uint64{0, 0x8000000000000000}); sig != "" {
				r.Violate(sig, detail, c45replay{Kind: "f64", B64: []uint64{0, 0x8000000000000000}})
			}
		}

		// ---- 4. BinaryString
		binLen := vrun.Pick(r, 2, 3)
		r.Bounds["binary_len"] = binLen
		var nbin int64
		chk := func(b []byte) {
			nbin++
			if sig, detail := c45bin(b); sig != "" {
				r.Violate(sig, detail, c45replay{Kind: "bin", Raw: append([]byte{}, b...)})
			}
		}
		if r.Mine(0) {
			chk(nil)
			chk([]byte{})
		}
		for a := 0; a < 256; a++ {
			if !r.Mine(a) {
				continue
			}
			chk([]byte{byte(a)})
			for b := 0; b < 256; b++ {
				chk([]byte{byte(a), byte(b)})
				if binLen >= 3 {
					for c := 0; c < 256; c++ {
						chk([]byte{byte(a), byte(b), byte(c)})
					}
				}
			}
			r.StateStr("bin", fmt.Sprint(a))
		}
		r.Evaluations += nbin
		r.Outcomes["BinaryString byte strings"] += nbin

		// ---- 5. malformed lengths
		if r.Mine(1) {
			for n := 0; n <= 17; n++ {
				for _, wide := range []bool{false, true} {
					if !wide && n > 9 {
						continue
					}
					size := 4
					kind := "malformed32"
					if wide {
						size, kind = 8, "malformed64"
					}
					r.Evaluations++
					r.StateStr(kind, fmt.Sprint(n))
					if n%size != 0 {
						r.NonTrivialStr(kind, fmt.Sprint(n))
					}
					sig, detail := c45malformed(wide, n)
					if sig != "" {
						// Observed, not judged: C45 is a round-trip property (ToVector of VectorString output);
						// input whose length is not a multiple of the element size is outside its statement.
						r.Outcome("ToVector malformed length: panic (outside the property, not a violation)")
						_ = detail
					} else if n%size != 0 {
						r.Outcome("ToVector malformed length: no panic")
					} else {
						r.Outcome("ToVector well-formed length")
					}
				}
			}
		}

		// ---- 6. JSON
		if r.Mine(2) {
			for i := range c45jsonValues() {
				r.Evaluations++
				r.StateStr("json", fmt.Sprint(i))
				r.NonTrivialStr("json", fmt.Sprint(i))
				sig, detail, oc := c45json(i)
				r.Outcome("JSON " + oc)
				if sig != "" {
					r.Violate(sig, detail, c45replay{Kind: "json", Idx: i})
				}
			}
		}
		// ---- 7. second use: two results held at the same time
		if r.Mine(3) {
			n := len(c45jsonValues())
			for i := 0; i < n; i++ {
				for j := 0; j < n; j++ {
					r.Evaluations++
					r.StateStr("json2", fmt.Sprint(i, ",", j))
					if sig, detail := c45json2(i, j); sig != "" {
						r.Outcome("JSON second use diff")
						r.Violate(sig, detail, c45replay{Kind: "json2", Idx: i, Idx2: j})
					} else {
						r.Outcome("JSON second use equal")
					}
				}
			}
			sp32 := []uint32{0x7fc00001, 0x7fa00001, 0, 0x80000000, 0x7f800000, 0xff800000, 1, 0x3f800000}
			sp64 := []uint64{0x7ff8000000000001, 0x7ff4000000000001, 0, 0x8000000000000000, 0x7ff0000000000000, 0xfff0000000000000, 1, 0x3ff0000000000000}
			for a := range sp32 {
				for b := range sp32 {
					for c := range sp32 {
						r.Evaluations++
						r.StateStr("vec2", fmt.Sprint(a, b, c))
						b32 := []uint32{sp32[a], sp32[b], sp32[c]}
						b64 := []uint64{sp64[a], sp64[b], sp64[c]}
						if sig, detail := c45vec2(b32, b64); sig != "" {
							r.Violate(sig, detail, c45replay{Kind: "vec2", B32: b32, B64: b64})
						}
					}
				}
			}
			r.Outcome("vector second use checked")
		}
		r.Sample(map[string]any{"float32_bits": "7fa00001 (signalling NaN with payload)", "string": fmt.Sprintf("% x", VectorString32([]float32{math.Float32frombits(0x7fa00001)})), "back": fmt.Sprintf("%08x", math.Float32bits(ToVector32(VectorString32([]float32{math.Float32frombits(0x7fa00001)}))[0]))})
		r.Assume("amd64: float values are moved through SSE registers / memory, which does not quieten signalling NaNs; on x87 targets the harness itself could not hold an sNaN")
		r.Assume("ToVector32/ToVector64 have no error result and document nothing for inputs whose length is not a multiple of the element size; the check only demands 'no panic' there")
		r.Assume("JSON(x) for values that encoding/json cannot encode panics (it has no error result); this is recorded as an outcome, not judged")
	})
}
