//go:build verif

package rueidis

import (
	"context"
	"encoding/json"
	"fmt"
	"runtime"
	"strconv"
	"strings"
	"sync"
	"testing"
	"time"

	"github.com/redis/rueidis/vshim/vrun"
)

// C21 - commands reach replicas only when the caller opts in.
//
// A case = (mode, SendToReplicas predicate, ReplicaOnly, selector kind + scripted result, replica count, API call).
// The real standalone / sentinel / cluster client is built over mockConn fake nodes (1 primary + n replicas [+ a
// sentinel]); every fake node logs what it receives; the oracle is evaluated on the role of the receiving node.

const (
	c21P = "10.1.0.1:6379"
	c21S = "10.1.0.9:26379"
)

func c21replica(i int) string { return "10.1.0." + strconv.Itoa(i+2) + ":6379" }

// command classes: w = SET (write), r = GET (read), c = STRLEN via Cache(), d = HGET via Cache(), s = SUBSCRIBE /
// SSUBSCRIBE (classified like r), f = FLUSHALL (keyless write, classified like w)
func c21classOf(argv []string) byte {
	switch argv[0] {
	case "SET":
		return 'w'
	case "GET":
		return 'r'
	case "STRLEN":
		return 'c'
	case "HGET":
		return 'd'
	case "SUBSCRIBE", "SSUBSCRIBE":
		return 'r'
	case "FLUSHALL":
		return 'w'
	}
	return '?'
}

// predicate ids: "nil", "ro" (cmd.IsReadOnly()), or a 4 bit table "wrcd" e.g. "0110"
func c21pred(id string, cls byte) bool {
	switch id {
	case "nil":
		return false
	case "ro":
		return cls != 'w'
	}
	return id[strings.IndexByte("wrcd", cls)] == '1'
}

type c21case struct {
	Mode     string `json:"mode"` // standalone | sentinel | cluster
	Pred     string `json:"pred"`
	RO       bool   `json:"replica_only"`
	SelKind  string `json:"sel_kind"` // "" | read (ReadNodeSelector) | replica (ReplicaSelector, cluster only)
	SelRes   string `json:"sel_res"`  // -1 0 1 2 len len+7
	AZ       bool   `json:"az_info"`  // EnableReplicaAZInfo
	Replicas int    `json:"replicas"`
	API      string `json:"api"`   // Do DoMulti DoCache DoMultiCache DoStream DoMultiStream Receive SReceive DoKeyless
	Batch    string `json:"batch"` // classes of the commands, e.g. "rw"
	// ExpireAt k>0 (DoMulti only, ConnLifetime set): the first batch a data node receives is executed up to command k-1;
	// command k and the following ones are answered errConnExpired (the connection's lifetime ended), once.
	ExpireAt int `json:"expire_at,omitempty"`
}

type c21send struct {
	Addr string
	API  string
	Argv []string
}

type c21env struct {
	mu       sync.Mutex
	c        *c21case
	log      []c21send
	selCands []string // candidate list of the latest selector call
	selCalls int
	selIdx   int
	expired  bool
}

func (e *c21env) rec(addr, api string, argv []string) {
	e.mu.Lock()
	e.log = append(e.log, c21send{addr, api, append([]string(nil), argv...)})
	e.mu.Unlock()
}

func (e *c21env) selector(_ uint16, nodes []NodeInfo) int {
	e.mu.Lock()
	defer e.mu.Unlock()
	e.selCalls++
	e.selCands = e.selCands[:0]
	for _, n := range nodes {
		e.selCands = append(e.selCands, n.Addr)
	}
	switch e.c.SelRes {
	case "len":
		e.selIdx = len(nodes)
	case "len+7":
		e.selIdx = len(nodes) + 7
	default:
		e.selIdx, _ = strconv.Atoi(e.c.SelRes)
	}
	return e.selIdx
}

func c21str(s string) RedisMessage { return strmsg(typeBlobString, s) }

func (e *c21env) slots() RedisResult {
	node := func(addr string) RedisMessage {
		host, port, _ := strings.Cut(addr, ":")
		p, _ := strconv.ParseInt(port, 10, 64)
		return slicemsg(typeArray, []RedisMessage{c21str(host), {typ: typeInteger, intlen: p}, c21str("id" + addr)})
	}
	entry := []RedisMessage{{typ: typeInteger, intlen: 0}, {typ: typeInteger, intlen: 16383}, node(c21P)}
	for i := 0; i < e.c.Replicas; i++ {
		entry = append(entry, node(c21replica(i)))
	}
	return NewResult(slicemsg(typeArray, []RedisMessage{slicemsg(typeArray, entry)}), nil)
}

func (e *c21env) sentinelReply(argv []string) RedisResult {
	hp := func(addr string, down bool) RedisMessage {
		host, port, _ := strings.Cut(addr, ":")
		kv := []RedisMessage{c21str("ip"), c21str(host), c21str("port"), c21str(port)}
		if down {
			kv = append(kv, c21str("s-down-time"), c21str("1000"))
		}
		return slicemsg(typeMap, kv)
	}
	switch {
	case len(argv) > 1 && argv[1] == "SENTINELS":
		return NewResult(slicemsg(typeArray, []RedisMessage{}), nil)
	case len(argv) > 1 && argv[1] == "GET-MASTER-ADDR-BY-NAME":
		host, port, _ := strings.Cut(c21P, ":")
		return NewResult(slicemsg(typeArray, []RedisMessage{c21str(host), c21str(port)}), nil)
	case len(argv) > 1 && argv[1] == "REPLICAS":
		var rs []RedisMessage
		for i := 0; i < e.c.Replicas; i++ {
			rs = append(rs, hp(c21replica(i), false))
		}
		rs = append(rs, hp("10.1.0.66:6379", true)) // subjectively down: must never be used
		return NewResult(slicemsg(typeArray, rs), nil)
	}
	return NewResult(strmsg(typeSimpleString, "OK"), nil)
}

func (e *c21env) connFn(dst string, _ *ClientOption) conn {
	m := &mockConn{}
	m.AddrFn = func() string { return dst }
	ok := NewResult(strmsg(typeSimpleString, "OK"), nil)
	if dst == c21S {
		m.DoFn = func(cmd Completed) RedisResult { return ok }
		m.DoMultiFn = func(multi ...Completed) *redisresults {
			res := &redisresults{s: make([]RedisResult, len(multi))}
			for i, c := range multi {
				res.s[i] = e.sentinelReply(c.Commands())
			}
			return res
		}
		return m
	}
	m.DoFn = func(cmd Completed) RedisResult {
		argv := cmd.Commands()
		switch {
		case len(argv) == 2 && argv[0] == "CLUSTER":
			return e.slots()
		case len(argv) == 1 && argv[0] == "ROLE":
			role := "slave"
			if dst == c21P {
				role = "master"
			}
			return NewResult(slicemsg(typeArray, []RedisMessage{c21str(role)}), nil)
		}
		e.rec(dst, "Do", argv)
		return ok
	}
	m.DoMultiFn = func(multi ...Completed) *redisresults {
		res := &redisresults{s: make([]RedisResult, len(multi))}
		e.mu.Lock()
		cut := len(multi)
		if k := e.c.ExpireAt; k > 0 && !e.expired && len(multi) >= k {
			e.expired, cut = true, k-1
		}
		e.mu.Unlock()
		for i, c := range multi {
			if i >= cut {
				res.s[i] = NewErrorResult(errConnExpired) // not executed: the connection's lifetime ended first
				continue
			}
			e.rec(dst, "DoMulti", c.Commands())
			res.s[i] = ok
		}
		return res
	}
	m.DoCacheFn = func(cmd Cacheable, _ time.Duration) RedisResult {
		e.rec(dst, "DoCache", cmd.Commands())
		return ok
	}
	m.DoMultiCacheFn = func(multi ...CacheableTTL) *redisresults {
		res := &redisresults{s: make([]RedisResult, len(multi))}
		for i, c := range multi {
			e.rec(dst, "DoMultiCache", c.Cmd.Commands())
			res.s[i] = ok
		}
		return res
	}
	m.DoStreamFn = func(cmd Completed) RedisResultStream {
		e.rec(dst, "DoStream", cmd.Commands())
		return RedisResultStream{}
	}
	m.DoMultiStreamFn = func(multi ...Completed) MultiRedisResultStream {
		for _, c := range multi {
			e.rec(dst, "DoMultiStream", c.Commands())
		}
		return MultiRedisResultStream{}
	}
	m.ReceiveFn = func(_ context.Context, sub Completed, _ func(PubSubMessage)) error {
		e.rec(dst, "Receive", sub.Commands())
		return nil
	}
	return m
}

// c21build creates the client; err != nil means the option combination was refused.
func c21build(e *c21env) (Client, error) {
	c := e.c
	opt := &ClientOption{ReplicaOnly: c.RO, EnableReplicaAZInfo: c.AZ}
	if c.ExpireAt > 0 {
		opt.ConnLifetime = time.Hour
	}
	switch c.Pred {
	case "nil":
	case "ro":
		opt.SendToReplicas = func(cmd Completed) bool { return cmd.IsReadOnly() }
	default:
		id := c.Pred
		opt.SendToReplicas = func(cmd Completed) bool { return c21pred(id, c21classOf(cmd.Commands())) }
	}
	switch c.SelKind {
	case "read":
		opt.ReadNodeSelector = e.selector
	case "replica":
		opt.ReplicaSelector = e.selector
	}
	rt := newRetryer(func(int, Completed, error) time.Duration { return -1 })
	switch c.Mode {
	case "standalone":
		opt.InitAddress = []string{c21P}
		for i := 0; i < c.Replicas; i++ {
			opt.Standalone.ReplicaAddress = append(opt.Standalone.ReplicaAddress, c21replica(i))
		}
		cl, err := newStandaloneClient(opt, e.connFn, rt)
		if err != nil {
			return nil, err
		}
		return cl, nil
	case "sentinel":
		opt.InitAddress = []string{c21S}
		opt.Sentinel.MasterSet = "m"
		cl, err := newSentinelClient(opt, e.connFn, rt)
		if err != nil {
			return nil, err
		}
		return cl, nil
	default:
		opt.InitAddress = []string{c21P}
		cl, err := newClusterClient(opt, e.connFn, rt)
		if err != nil {
			if cl != nil {
				cl.Close()
			}
			return nil, err
		}
		return cl, nil
	}
}

type c21cmd struct {
	cls byte
	tag string // "<CMD> <key>"
}

func c21issue(cl Client, c *c21case, rep int) (sent []c21cmd) {
	ctx := context.Background()
	key := func(i int) string { return fmt.Sprintf("{t}:%d:%d", rep, i) }
	mk := func(cls byte, i int) Completed {
		k := key(i)
		switch cls {
		case 'w':
			sent = append(sent, c21cmd{'w', "SET " + k})
			return cl.B().Set().Key(k).Value("v").Build()
		default:
			sent = append(sent, c21cmd{'r', "GET " + k})
			return cl.B().Get().Key(k).Build()
		}
	}
	mkc := func(cls byte, i int) Cacheable {
		k := key(i)
		if cls == 'c' {
			sent = append(sent, c21cmd{'c', "STRLEN " + k})
			return cl.B().Strlen().Key(k).Cache()
		}
		sent = append(sent, c21cmd{'d', "HGET " + k})
		return cl.B().Hget().Key(k).Field("f").Cache()
	}
	switch c.API {
	case "Do":
		cl.Do(ctx, mk(c.Batch[0], 0))
	case "DoStream":
		cl.DoStream(ctx, mk(c.Batch[0], 0))
	case "DoMulti", "DoMultiStream":
		var multi []Completed
		for i := range c.Batch {
			multi = append(multi, mk(c.Batch[i], i))
		}
		if c.API == "DoMulti" {
			cl.DoMulti(ctx, multi...)
		} else {
			cl.DoMultiStream(ctx, multi...)
		}
	case "DoCache":
		cl.DoCache(ctx, mkc(c.Batch[0], 0), time.Minute)
	case "DoMultiCache":
		var multi []CacheableTTL
		for i := range c.Batch {
			multi = append(multi, CT(mkc(c.Batch[i], i), time.Minute))
		}
		cl.DoMultiCache(ctx, multi...)
	case "Receive":
		ch := key(0)
		sent = append(sent, c21cmd{'r', "SUBSCRIBE " + ch})
		cl.Receive(ctx, cl.B().Subscribe().Channel(ch).Build(), func(PubSubMessage) {})
	case "SReceive":
		ch := key(0)
		sent = append(sent, c21cmd{'r', "SSUBSCRIBE " + ch})
		cl.Receive(ctx, cl.B().Ssubscribe().Channel(ch).Build(), func(PubSubMessage) {})
	case "DoKeyless":
		sent = append(sent, c21cmd{'w', "FLUSHALL"})
		cl.Do(ctx, cl.B().Flushall().Build())
	}
	return sent
}

func c21keyless(c *c21case) bool { return c.API == "Receive" || c.API == "DoKeyless" }

func c21run(r *vrun.Run, c *c21case) {
	e := &c21env{c: c}
	var cl Client
	var err error
	var sent [][]c21cmd
	p, site := vrun.Catch(func() {
		if cl, err = c21build(e); err != nil {
			return
		}
		defer cl.Close()
		reps := 1
		if c.Mode == "cluster" && c21keyless(c) {
			reps = 48 // a keyless command is handed to a randomly chosen connection; repeat so that the outcome set is stable
		}
		for i := 0; i < reps; i++ {
			sent = append(sent, c21issue(cl, c, i))
		}
	})
	if p != nil {
		r.Violate("panic in "+site, fmt.Sprintf("panic %v; case %s", p, c21json(c)), c)
		return
	}
	if err != nil {
		r.Outcome("constructor refused: " + err.Error())
		return
	}
	e.mu.Lock()
	log := append([]c21send(nil), e.log...)
	cands := append([]string(nil), e.selCands...)
	selCalls, selIdx := e.selCalls, e.selIdx
	e.mu.Unlock()

	where := map[string][]string{}
	for _, l := range log {
		tag := l.Argv[0]
		if len(l.Argv) > 1 {
			tag += " " + l.Argv[1]
		}
		where[tag] = append(where[tag], l.Addr)
	}
	keyless := c21keyless(c)
	for _, batch := range sent {
		all := true
		for _, cm := range batch {
			all = all && c21pred(c.Pred, cm.cls)
		}
		for _, cm := range batch {
			tag := cm.tag
			if len(where[tag]) == 0 {
				r.Violate(c.Mode+": command not delivered to any node", fmt.Sprintf("%s; log %v; case %s", tag, log, c21json(c)), c)
				return
			}
			dst := where[tag][0]
			where[tag] = where[tag][1:]
			role := "replica"
			if dst == c21P {
				role = "primary"
			} else if dst == "10.1.0.66:6379" {
				r.Violate(c.Mode+": command sent to a replica that is marked down", fmt.Sprintf("%s; case %s", tag, c21json(c)), c)
				return
			}
			optin := c21pred(c.Pred, cm.cls)
			if c.Mode != "cluster" {
				optin = all
			}
			if c.RO {
				optin = true
			}
			kl := ""
			if keyless && c.Mode == "cluster" {
				kl = " (keyless command)"
			}
			desc := func() string {
				return fmt.Sprintf("%s (class %c, predicate %s says %v for it, whole batch %v) went to %s %s; selector calls %d, last candidates %v, scripted index %d; case %s",
					tag, cm.cls, c.Pred, c21pred(c.Pred, cm.cls), all, role, dst, selCalls, cands, selIdx, c21json(c))
			}
			if !optin && role != "primary" {
				r.Violate(c.Mode+" "+c21apiClass(c.API)+": command sent to a replica although the caller did not opt in"+kl, desc(), c)
				return
			}
			if optin && role == "replica" && c.SelKind != "" && selCalls > 0 && kl == "" {
				if selIdx < 0 || selIdx >= len(cands) {
					r.Violate(c.Mode+" "+c21apiClass(c.API)+": selector result outside the candidate list did not fall back to the primary"+kl, desc(), c)
					return
				}
				if cands[selIdx] != dst {
					r.Violate(c.Mode+" "+c21apiClass(c.API)+": command sent to a replica that the selector did not choose", desc(), c)
					return
				}
			}
			o := c.Mode + " " + c21apiClass(c.API) + ": "
			switch {
			case !optin:
				o += "no opt-in -> primary"
			case c.RO:
				o += "ReplicaOnly -> " + role
			case c.SelKind != "" && selCalls > 0 && (selIdx < 0 || selIdx >= len(cands)):
				o += "opt-in, selector out of range -> primary"
			default:
				o += "opt-in -> " + role
			}
			r.Outcome(o)
		}
	}
	for tag, rest := range where {
		if len(rest) != 0 {
			r.Violate(c.Mode+": command delivered more than once", fmt.Sprintf("%s also delivered to %v; case %s", tag, rest, c21json(c)), c)
			return
		}
	}
}

func c21apiClass(api string) string {
	if api == "SReceive" {
		return "Receive"
	}
	return api
}

func c21json(v any) string {
	b, _ := json.Marshal(v)
	return string(b)
}

func c21seqs(alpha string, maxLen int) (out []string) {
	prev := []string{""}
	for l := 1; l <= maxLen; l++ {
		var next []string
		for _, p := range prev {
			for i := range alpha {
				next = append(next, p+string(alpha[i]))
			}
		}
		out = append(out, next...)
		prev = next
	}
	return out
}

func TestVerif_C21(t *testing.T) {
	vrun.Main(t, "C21", func(r *vrun.Run) {
		r.Rule = "modes {standalone+ReplicaAddress, sentinel, cluster (one shard)} with 1 primary + n replica fake nodes (mockConn) x SendToReplicas in {nil, cmd.IsReadOnly(), all 16 truth tables over the classes " +
			"w=SET r=GET c=STRLEN.Cache() d=HGET.Cache()} x ReplicaOnly x selector {none, ReadNodeSelector, ReplicaSelector(cluster)} with scripted result {-1,0,1,2,len,len+7} x EnableReplicaAZInfo (standalone) x " +
			"API {Do, DoStream over {r,w}; DoMulti, DoMultiStream over every class sequence up to the batch bound over {r,w}; DoCache over {c,d}; DoMultiCache over sequences over {c,d}; Receive(SUBSCRIBE), Receive(SSUBSCRIBE), Do(FLUSHALL)}. " +
			"DoMulti additionally with ConnLifetime set and the connection's lifetime ending at every position of the batch (commands from there on answered errConnExpired once, to be re-sent). Oracle: a command whose opt-in (predicate true for it; for non-cluster batches true for every command of the batch; or ReplicaOnly) is false must be logged by the primary; if the selector's result is outside the list it was given, the primary; " +
			"if it goes to a replica after a selector call, it is the replica the selector chose; each command is delivered exactly once; never to a replica reported s_down. non-trivial = predicate not nil."
		r.Assume("opt-in only permits a replica, it does not force one (DoCache in standalone mode always uses the primary; this is accepted)")
		r.Assume("cluster DoMultiStream sends the whole batch to one node and uses the conjunction of the predicate; accepted because each command then still satisfies 'replica only if the predicate is true for it'")
		r.Assume("keyless commands in cluster mode are routed to an arbitrary connection; they are repeated 48 times per case and reported under their own signature ('keyless command')")
		r.Assume("SUBSCRIBE / SSUBSCRIBE are classified like the read class r, FLUSHALL like the write class w for the table predicates")
		if raw, ok := r.ReplayPayload(); ok {
			var c c21case
			if err := json.Unmarshal(raw, &c); err != nil {
				panic(err)
			}
			c21run(r, &c)
			return
		}
		ballast := make([]byte, 256<<20)
		defer runtime.KeepAlive(ballast)

		preds := []string{"nil", "ro"}
		for i := 0; i < 16; i++ {
			preds = append(preds, fmt.Sprintf("%04b", i))
		}
		maxBatch := vrun.Pick(r, 2, 3)
		replicaCounts := vrun.Pick(r, []int{2}, []int{1, 2, 3})
		r.Bounds["max_batch"] = maxBatch
		r.Bounds["replica_counts"] = replicaCounts
		r.Bounds["predicates"] = len(preds)
		type api struct{ name, batch string }
		var apis []api
		for _, b := range []string{"r", "w"} {
			apis = append(apis, api{"Do", b}, api{"DoStream", b})
		}
		for _, b := range c21seqs("rw", maxBatch) {
			apis = append(apis, api{"DoMulti", b}, api{"DoMultiStream", b})
		}
		for _, b := range []string{"c", "d"} {
			apis = append(apis, api{"DoCache", b})
		}
		for _, b := range c21seqs("cd", maxBatch) {
			apis = append(apis, api{"DoMultiCache", b})
		}
		apis = append(apis, api{"Receive", "r"}, api{"SReceive", "r"}, api{"DoKeyless", "w"})
		r.Bounds["api_shapes"] = len(apis)
		selRes := []string{"-1", "0", "1", "2", "len", "len+7"}

		item := 0
		for _, mode := range []string{"standalone", "sentinel", "cluster"} {
			type selv struct{ kind, res string }
			sels := []selv{{"", ""}}
			kinds := []string{"read"}
			if mode == "cluster" {
				kinds = []string{"read", "replica"}
			}
			if mode != "sentinel" {
				for _, k := range kinds {
					for _, sr := range selRes {
						sels = append(sels, selv{k, sr})
					}
				}
			}
			azs := []bool{false}
			if mode == "standalone" {
				azs = []bool{false, true}
			}
			ros := []bool{false, true}
			if mode == "standalone" {
				ros = []bool{false} // newStandaloneClient has no ReplicaOnly notion
			}
			for _, nrep := range replicaCounts {
				for _, pred := range preds {
					for _, ro := range ros {
						for _, sv := range sels {
							for _, az := range azs {
								item++
								if !r.Mine(item) {
									continue
								}
								if r.TimeUp() {
									return
								}
								for _, a := range apis {
									c := &c21case{Mode: mode, Pred: pred, RO: ro, SelKind: sv.kind, SelRes: sv.res, AZ: az, Replicas: nrep, API: a.name, Batch: a.batch}
									r.Evaluations++
									id := c21json(c)
									r.StateStr(id)
									if pred != "nil" {
										r.NonTrivialStr(id)
									}
									if pred == "0110" && sv.res == "len" && a.batch == "rw" {
										r.Sample(c)
									}
									c21run(r, c)
									if a.name == "DoMulti" {
										for k := 1; k <= len(a.batch); k++ {
											ce := *c
											ce.ExpireAt = k
											r.Evaluations++
											id := c21json(&ce)
											r.StateStr(id)
											if pred != "nil" {
												r.NonTrivialStr(id)
											}
											c21run(r, &ce)
										}
									}
								}
							}
						}
					}
				}
			}
		}
	})
}
